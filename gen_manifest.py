#!/usr/bin/env python3
"""Regenerates MANIFEST.json from vlib/props.py (claimed checks) and vlib/manifest_text.py."""
import json
import os
import sys

sys.path.insert(0, os.path.dirname(os.path.abspath(__file__)))
from vlib import props, manifest_text as mt  # noqa: E402

ALL = ["C%02d" % i for i in range(1, 35)]
checks = []
for pid in ALL:
    if pid not in props.PROPS:
        continue
    t = mt.TEXT[pid]
    checks.append({
        "property_id": pid,
        "quick_cmd": "./check %s --tier quick" % pid,
        "thorough_cmd": "./check %s --tier thorough" % pid,
        "evidence_file": "evidence/%s.json" % pid,
        "replay_cmd_template": "./check %s --replay {path}" % pid,
        "engine": "coq-model+correspondence",
        "level_claimed": {"category": "proof", "text": t["level"], "design_ref": t.get("design_ref", "DESIGN.md section 7")},
        "level_note": t["note"],
        "technique": t["technique"],
    })
na = [{"property_id": pid, "reason": mt.NOT_YET.get(pid, "check not built yet in this development; see DESIGN.md section 11 (status)")}
      for pid in ALL if pid not in props.PROPS]
m = {
    "version": 1,
    "setup_cmd": "./setup.sh",
    "hooks": {
        "guard": "verif",
        "enable": "go build -tags verif (the harness module /verif/harness imports /repo through a replace directive)",
        "baseline_off_cmd": "for m in $(cat /w/out/gomods.txt); do MF=$(cd /repo/$m && . /w/out/goenv.sh && gomodflag); (cd /repo/$m && go test $MF -json -vet=off -count=1 -timeout 25m ./...); done",
        "source_commits": mt.HOOK_COMMITS,
        "add_only": True,
    },
    "engines": [{
        "name": "coq-model+correspondence", "path": "check",
        "serves_properties": [c["property_id"] for c in checks],
        "kind_free_text": "Coq 8.16.1 model + theorems (coq/), extracted to OCaml (ocaml/) and compared with the Go implementation driven by harness/ on generated inputs/histories; extracted property checkers run on the implementation's own traces",
    }],
    "checks": checks,
    "not_applicable": na,
    "notes": mt.NOTES,
}
with open(os.path.join(os.path.dirname(os.path.abspath(__file__)), "MANIFEST.json"), "w") as f:
    json.dump(m, f, indent=1)
    f.write("\n")
print("MANIFEST.json: %d checks, %d not claimed" % (len(checks), len(na)))
