#!/bin/bash
# seed_sweep.sh <seeds...> — run every registered quick check under the given seeds (in a snapshot via `vp run`)
cd "$(dirname "$0")/.."
[ -x ocaml/_build/default/driver.exe ] || ./setup.sh > setup.log 2>&1
for s in "$@"; do
  for p in $(python3 -c "import json;print(' '.join(c['property_id'] for c in json.load(open('MANIFEST.json'))['checks']))"); do
    VERIF_SEED=$s ./check $p --tier quick 2>&1 | grep "PASS\|FAIL tier\|VIOLATION" | tr '\n' ' '; echo
  done
done
