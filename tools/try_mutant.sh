#!/bin/bash
# try_mutant.sh <seed-id> <prop> [<prop>...] — apply seeded/<seed-id>/patch.diff to /repo, run the
# quick checks of the given properties, undo the change.  Prints one line per check.
S=$1; shift
cd /verif
if [ -n "$(git -C /repo status --porcelain)" ]; then echo "/repo is not clean"; exit 2; fi
git -C /repo apply /verif/seeded/$S/patch.diff || exit 2
trap 'git -C /repo checkout -- . ' EXIT
for P in "$@"; do
  out=$(./check $P --tier quick 2>&1); rc=$?
  v=$(echo "$out" | grep -c '^VIOLATION')
  echo "$S $P exit=$rc $(echo "$out" | grep '^VIOLATION' | head -1)"
  echo "$out" | grep '^VIOLATION' | awk '{print $3}' | sed 's/replay=//' | while read r; do cp "$r" /verif/seeded/$S/replay-$P.json 2>/dev/null; done
done
