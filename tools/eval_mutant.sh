#!/bin/bash
# eval_mutant.sh <Cxx> — confirm a seeded change in its scratch worktree $MUTROOT/<Cxx> (default /tmp/mut):
# suite passes with the change, demo fails with it, demo passes without it.
P=$1; R=${MUTROOT:-/tmp/mut}; D=$R/$P; L=$R/$P.eval.log
export GOFLAGS=-mod=mod GOPROXY=off GOSUMDB=off GOTOOLCHAIN=local
cd $D || exit 2
demo=$(cat .mutant/demo_path.txt | tr -d '\n ')
pkg=./$(dirname $demo)
{
echo "== status"; git status --short
echo "== patch applies to HEAD?"; git stash list | head -2
git diff -- . ':!*_test.go' > $R/$P.cur.diff
if ! diff -q <(grep '^[+-]' $R/$P.cur.diff | grep -v '^+++\|^---') <(grep '^[+-]' .mutant/patch.diff | grep -v '^+++\|^---') >/dev/null; then echo "WARNING: worktree diff differs from patch.diff"; fi
mv $demo $R/$P.demo.go.aside
echo "== build+suite with change"; go build ./... && go test -vet=off -count=1 ./... 2>&1 | tail -8; echo "suite_rc=${PIPESTATUS[0]}"
mv $R/$P.demo.go.aside $demo
echo "== demo with change"; go test -vet=off -count=1 -run 'TestMutantDemo$' $pkg 2>&1 | tail -5; echo "demo_with_rc=${PIPESTATUS[0]}"
git apply -R .mutant/patch.diff && { echo "== demo without change"; go test -vet=off -count=1 -run 'TestMutantDemo$' $pkg 2>&1 | tail -3; echo "demo_without_rc=${PIPESTATUS[0]}"; git apply .mutant/patch.diff; }
} > $L 2>&1
grep -h "_rc=\|WARNING" $L | tr '\n' ' '; echo " [$P]"
