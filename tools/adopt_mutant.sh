#!/bin/bash
# adopt_mutant.sh <Cxx> — after tools/eval_mutant.sh confirmed a seeded change in /tmp/mut/<Cxx>,
# copy it into seeded/<Cxx>$SUFFIX/ (patch, demo, notes, confirmation log).
P=$1; R=${MUTROOT:-/tmp/mut}; D=$R/$P; S=/verif/seeded/$P${SUFFIX}
mkdir -p $S
cp $D/.mutant/patch.diff $S/patch.diff
cp $D/.mutant/demo_path.txt $S/demo_path.txt
cp $D/$(cat $D/.mutant/demo_path.txt | tr -d '\n ') $S/demo_test.go.txt
cp $D/.mutant/notes.md $S/notes.md
cp $R/$P.eval.log $S/confirm.log
