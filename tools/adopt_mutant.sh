#!/bin/bash
# adopt_mutant.sh <Cxx> — after tools/eval_mutant.sh confirmed a seeded change in /tmp/mut/<Cxx>,
# copy it into seeded/<Cxx>/ (patch, demo, notes, confirmation log).
P=$1; D=/tmp/mut/$P; S=/verif/seeded/$P
mkdir -p $S
cp $D/.mutant/patch.diff $S/patch.diff
cp $D/.mutant/demo_path.txt $S/demo_path.txt
cp $D/$(cat $D/.mutant/demo_path.txt | tr -d '\n ') $S/demo_test.go.txt
cp $D/.mutant/notes.md $S/notes.md
cp /tmp/mut/$P.eval.log $S/confirm.log
