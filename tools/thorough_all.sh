#!/bin/bash
# thorough_all.sh — run every registered thorough check once (in a snapshot via `vp run`)
cd "$(dirname "$0")/.."
[ -x ocaml/_build/default/driver.exe ] || ./setup.sh > setup.log 2>&1
for p in $(python3 -c "import json;print(' '.join(c['property_id'] for c in json.load(open('MANIFEST.json'))['checks']))"); do
  ./check $p --tier thorough 2>&1 | grep "PASS\|FAIL tier\|VIOLATION" | tr '\n' ' '; echo
done
