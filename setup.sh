#!/bin/sh
# setup.sh — build the whole framework from files on disk (offline).
set -e
cd "$(dirname "$0")"
export GOFLAGS=-mod=mod GOPROXY=off GOSUMDB=off GOTOOLCHAIN=local CGO_ENABLED=0
mkdir -p .cache evidence replays
rm -f .cache/coq.ok .cache/ocaml.ok
( cd coq && find . -name '*.vo' -o -name '*.vok' -o -name '*.vos' -o -name '*.glob' -o -name '.*.aux' | xargs rm -f
  coq_makefile -f _CoqProject -o Makefile && timeout 3000 make -j16 )
python3 - <<'PY'
import sys
sys.path.insert(0, '.')
from vlib import core, props
ok, log = core.ensure_coq()
assert ok, log[-3000:]
ok, log = core.ensure_model()
assert ok, log[-3000:]
drivers = sorted({d for p in props.PROPS.values() for d in p.get("drivers", [])})
b, err = core.ensure_go(drivers)
assert b, err[-3000:]
print("setup ok:", b)
PY
