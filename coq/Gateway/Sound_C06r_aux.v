(* Gateway/Sound_C06r_aux.v — the gateway side of the soundness of mon6r (Checkers/ChkGw6.v): what one step
   of the session model does to a broker PUBLISH exchange in its REGISTER step.  Built on the frame
   machinery of Sound_C06_aux.v (W, FR / FW and the per-handler lemmas).

   RP cfg s i tid q u: the store's slot of message ID i holds a broker PUBLISH exchange of QoS q awaiting
   the REGACK of its REGISTER (topic ID tid), whose retransmissions do not give up before u, and whose
   PUBLISH fits a datagram. *)
From Coq Require Import List NArith Bool Lia ZArith ZifyN ZifyNat ZifyBool.
From stdpp Require Import base option list numbers fin_maps nmap.
From RecordUpdate Require Import RecordSet.
From Verif.Base Require Import Bytes BytesProofs.
From Verif.Codec Require Import Packets Decode Encode EncodeProofs.
From Verif.Topics Require Import Predefined.
From Verif.Gateway Require Import GwTypes GwStep GwStepProofs GwWf Sound_C01C03_aux Sound_C01C03 Sound_C02_aux
     Sound_C06_aux.
From Verif.Checkers Require Import ChkCodec ChkGw ChkGw2.
Import RecordSetNotations.
Open Scope N_scope.
Ltac Zify.zify_post_hook ::= Z.div_mod_to_equations.

(* ================================================================== the REGISTER step in the store *)

Definition RP (cfg : gw_cfg) (s : gw_state) (i tid q u : N) : Prop :=
  exists g name dup retain mid0 payload n sq T,
    held s i g (TxBrokerPub i q AwaitRegack (RsSn (Register tid i name))
                            (Some (Publish dup q retain TIT_REGISTERED tid mid0 payload)) n) /\
    len (pack (Register tid i name)) <= MaxPacketLen /\
    len (pack (Publish dup q retain TIT_REGISTERED tid mid0 payload)) <= MaxPacketLen /\
    tid < 65536 /\ mid0 < 65536 /\ q < 4 /\ (q = 0 \/ mid0 = i) /\
    (forall tm, In tm (gw_timers s) -> timer_of_obj g (tm_kind tm) = true ->
                tm_seq tm = sq /\ tm_at tm = T /\ tm_kind tm = TmRetry g) /\
    u <= T + (retry_count cfg - n) * retry_delay cfg.

Lemma RP_FR X cfg s s' i tid q u :
  FR X s s' -> RP cfg s i tid q u -> (forall g, gw_by_id s !! i = Some g -> ~ X i g) -> RP cfg s' i tid q u.
Proof.
  intros HF (g & name & dup & retain & mid0 & payload & n & sq & T & Hh & H1 & H2 & H3 & H4 & H5 & H6 & Ht & Hu) Hx.
  destruct (HF i g _ Hh (Hx g (proj1 Hh))) as [Hh' Hin].
  exists g, name, dup, retain, mid0, payload, n, sq, T. repeat (split; [assumption|]). split; [|exact Hu].
  intros tm Htm Hof. apply Ht; [apply Hin; assumption|exact Hof].
Qed.

Lemma RP_sm cfg s s' i tid q u : sm s s' -> RP cfg s i tid q u -> RP cfg s' i tid q u.
Proof. intros H HC. eapply RP_FR; [apply (FR_sm X0), H|exact HC|intros g _ []]. Qed.

(* the object of an RP *)
Lemma RP_obj cfg s i tid q u g t :
  RP cfg s i tid q u -> held s i g t -> exists d sp n, t = TxBrokerPub i q AwaitRegack d sp n.
Proof.
  intros (g' & name & dup & retain & mid0 & payload & n & sq & T & [H1 H2] & _) [H3 H4].
  assert (g' = g) by congruence. subst g'. rewrite H4 in H2. injection H2 as ->. eauto.
Qed.

(* ================================================================== preservation: client packets *)

Lemma rp_handle_sn cfg s p ri rtid rq ru :
  W s -> dec6 p -> RP cfg s ri rtid rq ru ->
  ~ In ri (MQ (outs_of (handle_sn cfg s p)) ≫= cstart) -> (forall a c, p <> Regack a ri c) ->
  RP cfg (st_of (handle_sn cfg s p)) ri rtid rq ru.
Proof.
  intros HW Hd HR Hn Hnr.
  destruct (sn_ack_mid p) as [amid|] eqn:Ea.
  - destruct (handle_sn_ack_fw cfg s p amid Ea) as [H|(g0 & m & q0 & st & d & sp & n & Hg & Hst & H)].
    + eapply RP_FR; [exact (proj2 (H HW))|exact HR|intros g _ []].
    + eapply RP_FR; [exact (proj2 (H HW))|exact HR|]. intros g Hs Hx. unfold Xobj in Hx. subst g.
      apply get_by_id_held in Hg.
      assert (Hh : held s ri g0 (TxBrokerPub m q0 st d sp n)) by (split; [exact Hs|exact (proj2 Hg)]).
      destruct (RP_obj cfg s ri rtid rq ru g0 _ HR Hh) as (d' & sp' & n' & E). injection E as -> -> -> -> -> ->.
      pose proof (W_held_mid s amid g0 _ HW Hg) as Hm. cbn in Hm. injection Hm as <-.
      destruct_pkt p; try discriminate Ea; cbn in Ea, Hst; injection Ea as ->;
        first [ eapply Hnr; reflexivity | discriminate Hst | (destruct Hst as [Hst _]; discriminate Hst) ].
  - destruct_pkt p; try discriminate Ea;
      try (match goal with |- RP _ (st_of (handle_sn _ _ ?P)) _ _ _ _ =>
             let H := fresh in assert (H : sn_plain P) by exact I;
             eapply RP_FR; [exact (proj2 (handle_sn_plain_fw cfg s P H HW))|exact HR|intros g _ []] end).
    + (* Publish *)
      revert Hn. unfold handle_sn. destruct (negb (packet_legal cfg s _)); intros Hn;
        [eapply (RP_FR X0); [apply FR_refl|exact HR|intros g _ []]|].
      cbn [dec6] in Hd.
      destruct (handle_client_publish_spec cfg s dup qos retain tit tid mid data Hd) as [[H1 H2]|(H1 & H2 & topic & H3)].
      * eapply RP_FR; [exact (proj2 (H1 HW))|exact HR|intros g _ []].
      * eapply RP_FR; [exact (proj2 (H1 HW))|exact HR|]. intros g _ Hx. unfold Xslot in Hx. subst ri.
        apply Hn. rewrite H3. change (MQ [OutMq (gw_now s) (MqPublish dup 1 retain topic mid data)])
          with [wire (MqPublish dup 1 retain topic mid data)]. rewrite bind1, cstart_wire. left. reflexivity.
    + (* Subscribe *)
      revert Hn. unfold handle_sn. destruct (negb (packet_legal cfg s _)); intros Hn;
        [eapply (RP_FR X0); [apply FR_refl|exact HR|intros g _ []]|].
      destruct (handle_subscribe_spec cfg s dup qos tit mid tid name) as [[H1 H2]|(H1 & H2 & topic & H3)].
      * eapply RP_FR; [exact (proj2 (H1 HW))|exact HR|intros g _ []].
      * eapply RP_FR; [exact (proj2 (H1 HW))|exact HR|]. intros g _ Hx. unfold Xslot in Hx. subst ri.
        apply Hn. rewrite H3. change (MQ [OutMq (gw_now s) (MqSubscribe mid false [(topic, qos)])])
          with [wire (MqSubscribe mid false [(topic, qos)])]. rewrite bind1, cstart_wire. left. reflexivity.
Qed.

Theorem rstep_sn cfg s dg i tid q u :
  W s -> running s = true -> wf_bytes dg -> RP cfg s i tid q u ->
  ~ In i (MQ (snd (gw_step cfg s (EvSn dg))) ≫= cstart) -> (forall a c, read_dgram dg <> Ok (Regack a i c)) ->
  RP cfg (fst (gw_step cfg s (EvSn dg))) i tid q u.
Proof.
  intros HW Hr Hwf HR Hn Hnr. apply running_spec in Hr. destruct Hr as [He Hg].
  set (s1 := s <| gw_last_sn := gw_now s |>).
  assert (Hsm : sm s s1) by (subst s1; sm_tac).
  assert (HW1 : W s1) by (eapply W_sm; eassumption).
  destruct (read_dgram dg) as [p|err|pps] eqn:Hrd.
  - revert Hn. rewrite (gw_step_sn cfg s dg p He Hg Hrd). fold s1. rewrite finish_r_MQ. intros Hn.
    pose proof (read_dgram_dec6 dg p Hwf Hrd) as Hd6.
    assert (H1 : RP cfg (st_of (handle_sn cfg s1 p)) i tid q u).
    { apply rp_handle_sn; [exact HW1|exact Hd6|eapply RP_sm; eassumption|exact Hn|].
      intros a c E. apply (Hnr a c). rewrite E. reflexivity. }
    assert (HW2 : W (st_of (handle_sn cfg s1 p))).
    { destruct (sn_ack_mid p) eqn:Ea.
      - destruct (handle_sn_summary cfg s1 p HW1 Hd6) as [S1 _]. exact S1.
      - destruct (handle_sn_summary cfg s1 p HW1 Hd6) as [S1 _]. exact S1. }
    destruct (finish_r_W _ true false HW2) as [_ HFR].
    eapply RP_FR; [exact HFR|exact H1|intros g _ []].
  - assert (Hstep : gw_step cfg s (EvSn dg) = finish_r (stop s1 [] EcDecodeError) true false)
      by (unfold gw_step; rewrite He, Hg, Hrd; reflexivity).
    rewrite Hstep. destruct (finish_r_W (stop s1 [] EcDecodeError) true false HW1) as [_ HFR].
    eapply RP_FR; [exact HFR|eapply RP_sm; eassumption|intros g _ []].
  - assert (Hstep : gw_step cfg s (EvSn dg) = finish_r (stop s1 [] EcDecodeError) true false)
      by (unfold gw_step; rewrite He, Hg, Hrd; reflexivity).
    rewrite Hstep. destruct (finish_r_W (stop s1 [] EcDecodeError) true false HW1) as [_ HFR].
    eapply RP_FR; [exact HFR|eapply RP_sm; eassumption|intros g _ []].
Qed.

(* ================================================================== preservation: broker packets *)

Lemma rp_handle_mq cfg s m i tid q u :
  W s -> wf_mq m -> RP cfg s i tid q u ->
  (forall a q' b c e, m = MqPublish a q' b c i e -> q' <> 1 /\ q' <> 2) ->
  RP cfg (st_of (handle_mq cfg s m)) i tid q u.
Proof.
  intros HW Hwf HR Hp.
  destruct (match m with MqPublish _ _ _ _ _ _ => true | _ => false end) eqn:Ep.
  - destruct m as [c|sp rc|dup qos retain topic mid payload|mid|mid|mid|mid|mid dup fs|mid codes|mid fs|mid| | |];
      try discriminate Ep.
    cbn [wf_mq] in Hwf. destruct Hwf as (Hq & _ & _ & Hmid & _). cbn [handle_mq].
    destruct (handle_broker_publish_spec cfg s dup qos retain topic mid payload Hq Hmid) as [HF _].
    eapply RP_FR; [exact (proj2 (HF HW))|exact HR|]. intros g _ [-> Hx].
    destruct (Hp _ _ _ _ _ eq_refl). lia.
  - assert (Hnp : mq_not_pub m) by (destruct m; try exact I; discriminate Ep).
    destruct (handle_mq_fw cfg s m Hnp) as [HF|(mid' & g0 & t0 & Hmid & Hg & Hk & HF)].
    + eapply RP_FR; [exact (proj2 (HF HW))|exact HR|intros g _ []].
    + eapply RP_FR; [exact (proj2 (HF HW))|exact HR|]. intros g Hs Hx. unfold Xobj in Hx. subst g.
      apply get_by_id_held in Hg.
      assert (Hh : held s i g0 t0) by (split; [exact Hs|exact (proj2 Hg)]).
      destruct (RP_obj cfg s i tid q u g0 _ HR Hh) as (d' & sp' & n' & ->).
      destruct m; cbn in Hmid, Hk; try discriminate Hmid; try contradiction. discriminate Hk.
Qed.

Theorem rstep_mq cfg s m i tid q u :
  W s -> running s = true -> wf_mq m -> RP cfg s i tid q u ->
  (forall a q' b c e, m = MqPublish a q' b c i e -> q' <> 1 /\ q' <> 2) ->
  RP cfg (fst (gw_step cfg s (EvMq m))) i tid q u.
Proof.
  intros HW Hr Hwf HR Hp. apply running_spec in Hr. destruct Hr as [He Hg].
  rewrite (gw_step_mq cfg s m He Hg).
  set (s1 := s <| gw_last_mq := gw_now s |>).
  assert (Hsm : sm s s1) by (subst s1; sm_tac).
  assert (HW1 : W s1) by (eapply W_sm; eassumption).
  pose proof (rp_handle_mq cfg s1 m i tid q u HW1 Hwf (RP_sm _ _ _ _ _ _ _ Hsm HR) Hp) as H1.
  destruct (handle_mq_summary cfg s1 m HW1 Hwf) as [HW2 _].
  destruct (finish_r_W _ false true HW2) as [_ HFR].
  eapply RP_FR; [exact HFR|exact H1|intros g _ []].
Qed.

(* ================================================================== creation: the broker's PUBLISH *)

Lemma find_free_mid_le fuel : forall (m : Nmap N) i j, find_free_mid fuel m i = Some j -> j <= i.
Proof.
  induction fuel as [|fuel IH]; intros m i j; cbn [find_free_mid]; destruct (m !! i).
  - discriminate.
  - intros H. injection H as <-. lia.
  - destruct (i <=? MinPacketID); [discriminate|]. intros H. apply IH in H. lia.
  - intros H. injection H as <-. lia.
Qed.

(* the state after a (re)start of the retry transaction of object g with an MQTT-SN packet *)
Lemma bp_proceed_state cfg s g mid qos st p snpub :
  st <> BpDone ->
  gw_by_id (st_of (bp_proceed cfg s g mid qos st (RsSn p) snpub)) = gw_by_id s /\
  gw_objs (st_of (bp_proceed cfg s g mid qos st (RsSn p) snpub)) =
    <[g := TxBrokerPub mid qos st (RsSn p) snpub 0]> (gw_objs s) /\
  gw_timers (st_of (bp_proceed cfg s g mid qos st (RsSn p) snpub)) =
    List.filter (fun t => negb (timer_of_obj g (tm_kind t))) (gw_timers s) ++
    [{| tm_at := gw_now s + retry_delay cfg; tm_seq := gw_next_seq s; tm_kind := TmRetry g |}].
Proof.
  intros Hst. unfold bp_proceed. cbv zeta.
  match goal with |- context [sn_send_owned ?S ?o ?pp] => set (s2 := S) end.
  assert (H : gw_by_id (st_of (sn_send_owned s2 (Some g) p)) = gw_by_id s /\
              gw_objs (st_of (sn_send_owned s2 (Some g) p)) = <[g := TxBrokerPub mid qos st (RsSn p) snpub 0]> (gw_objs s) /\
              gw_timers (st_of (sn_send_owned s2 (Some g) p)) =
                List.filter (fun t => negb (timer_of_obj g (tm_kind t))) (gw_timers s) ++
                [{| tm_at := gw_now s + retry_delay cfg; tm_seq := gw_next_seq s; tm_kind := TmRetry g |}]).
  { unfold sn_send_owned, st_of, ok, stop.
    destruct (gw_st s2); try destruct (len (pack p) <=? MaxPacketLen); cbn [fst]; repeat split; reflexivity. }
  destruct st; try exact H. contradiction.
Qed.

Lemma SN_publish_only t dup q r tit ti mi d :
  forall p, In p (SN [OutSn t (pack (Publish dup q r tit ti mi d))]) -> len (pack (Publish dup q r tit ti mi d)) <= MaxPacketLen ->
  exists a1 a2 a3 a4 a5 a6 a7, p = Publish a1 a2 a3 a4 a5 a6 a7.
Proof. intros p Hin Hl. rewrite (SN_publish _ _ _ _ _ _ _ _ Hl) in Hin. destruct Hin as [<-|[]]. eauto 10. Qed.

Lemma handle_broker_publish_RP cfg s dup qos retain topic mid0 payload :
  wf_cfg cfg -> Sound_C01C03_aux.Inv s -> qos < 4 -> mid0 < 65536 ->
  forall tid i name,
    In (Register tid i name) (SN (outs_of (handle_broker_publish cfg s dup qos retain topic mid0 payload))) ->
    len (pack (Publish dup qos retain TIT_REGISTERED tid mid0 payload)) <= MaxPacketLen ->
    RP cfg (st_of (handle_broker_publish cfg s dup qos retain topic mid0 payload)) i tid qos
       (gw_now s + (retry_count cfg + 1) * retry_delay cfg).
Proof.
  intros Hcfg HI Hq Hmid tid i name. unfold handle_broker_publish.
  destruct (if is_short_topic topic then _ else _) as [[tid0 tit]|]; cbv beta iota zeta.
  - (* a known topic: only a PUBLISH is written *)
    cbn [negb]. rewrite andb_true_r. intros Hin _. exfalso.
    destruct (N.eqb_spec qos 0) as [->|Hq0].
    + unfold sn_send, sn_send_owned in Hin.
      destruct (gw_st s); try (cbn in Hin; contradiction);
        (destruct (len (pack (Publish dup 0 retain tit tid0 mid0 payload)) <=? MaxPacketLen) eqn:El;
         [|cbn in Hin; contradiction]);
        cbn [outs_of ok fst snd] in Hin; apply N.leb_le in El;
        destruct (SN_publish_only _ _ _ _ _ _ _ _ _ Hin El) as (a1 & a2 & a3 & a4 & a5 & a6 & a7 & E); discriminate E.
    + destruct (2 <? qos); [destruct Hin|]. revert Hin.
      set (pub := Publish dup qos retain tit tid0 mid0 payload).
      set (st := if qos =? 1 then AwaitPuback else AwaitPubrec).
      set (t0 := TxBrokerPub mid0 qos st (RsSn pub) None 0).
      change (new_obj s t0) with (fst (new_obj s t0), gw_next_obj s). cbv beta iota zeta. intros Hin.
      assert (Hst : st <> BpDone) by (subst st; destruct (qos =? 1); discriminate).
      match type of Hin with context [bp_proceed cfg ?S ?G ?M ?Q st (RsSn pub) ?SP] =>
        destruct (bp_proceed_outs cfg S G M Q st pub SP Hst) as [E|[E El]]; rewrite E in Hin; [destruct Hin|] end.
      subst pub.
      destruct (SN_publish_only _ _ _ _ _ _ _ _ _ Hin El) as (a1 & a2 & a3 & a4 & a5 & a6 & a7 & E'); discriminate E'.
  - (* a new topic name: REGISTER *)
    cbn [negb]. rewrite andb_false_r.
    destruct (if qos =? 0 then _ else _) as [mid|] eqn:Emid; [|intros []].
    destruct (2 <? qos) eqn:Hq2; [intros []|]. apply N.ltb_ge in Hq2.
    pose proof (new_topic_id_inv cfg Hcfg s HI) as [_ Hi].
    pose proof (new_topic_id_now cfg s) as Hnow.
    destruct (new_topic_id cfg s) as [s1 [ti|]]; cbn [fst snd] in Hi, Hnow; [|intros []].
    specialize (Hi ti eq_refl).
    set (pub := Publish dup qos retain 0 ti mid0 payload).
    set (reg := Register ti mid topic).
    set (t0 := TxBrokerPub mid qos AwaitRegack (RsSn reg) (Some pub) 0).
    change (new_obj s1 t0) with (fst (new_obj s1 t0), gw_next_obj s1). cbv beta iota zeta.
    set (g := gw_next_obj s1).
    set (sa := note_handed (fst (new_obj s1 t0) <| gw_by_id := <[mid := g]> (gw_by_id (fst (new_obj s1 t0))) |>) ti topic).
    assert (Hmid' : mid < 65536).
    { destruct (qos =? 0); [apply find_free_mid_le in Emid; unfold MaxPacketID in Emid; lia|injection Emid as <-; exact Hmid]. }
    assert (Hqm : qos = 0 \/ mid0 = mid).
    { destruct (N.eqb_spec qos 0) as [E|E]; [left; exact E|right; injection Emid as <-; reflexivity]. }
    intros Hin Hfit.
    assert (Hst : AwaitRegack <> BpDone) by discriminate.
    destruct (bp_proceed_outs cfg sa g mid qos AwaitRegack reg (Some pub) Hst) as [E|[E El]]; rewrite E in Hin; [destruct Hin|].
    subst reg. rewrite SN_cons_sn in Hin. destruct topic as [|x nm].
    { rewrite read_register_empty in Hin. destruct Hin. }
    rewrite (read_register_ok ti mid x nm El) in Hin. cbn in Hin. destruct Hin as [Hin|[]].
    injection Hin as <- <- <-.
    rewrite (N.mod_small ti 65536) in * by lia. rewrite (N.mod_small mid 65536) in * by lia.
    destruct (bp_proceed_state cfg sa g mid qos AwaitRegack (Register ti mid (x :: nm)) (Some pub) Hst) as (B1 & B2 & B3).
    exists g, (x :: nm), dup, retain, mid0, payload, 0, (gw_next_seq sa), (gw_now sa + retry_delay cfg).
    split; [|split; [exact El|split; [exact Hfit|split; [lia|split; [exact Hmid|split; [exact Hq|split; [|split]]]]]]].
    + split; [rewrite B1; subst sa; unfold note_handed; cbn; apply lookup_insert|rewrite B2; apply lookup_insert].
    + destruct Hqm as [Hz|Hz]; [left; exact Hz|right; exact Hz].
    + intros tm Htm Hof. rewrite B3 in Htm. apply in_app_or in Htm. destruct Htm as [Htm|[<-|[]]].
      * apply filter_In in Htm. destruct Htm as [_ Hn]. rewrite Hof in Hn. discriminate Hn.
      * cbn. auto.
    + change (gw_now sa) with (gw_now s1). rewrite Hnow. lia.
Qed.

Theorem rstep_create cfg s dup qos retain topic mid0 payload tid i name :
  wf_cfg cfg -> Sound_C01C03_aux.Inv s -> W s -> running s = true ->
  wf_mq (MqPublish dup qos retain topic mid0 payload) ->
  In (Register tid i name) (SN (snd (gw_step cfg s (EvMq (MqPublish dup qos retain topic mid0 payload))))) ->
  len (pack (Publish dup qos retain TIT_REGISTERED tid mid0 payload)) <= MaxPacketLen ->
  RP cfg (fst (gw_step cfg s (EvMq (MqPublish dup qos retain topic mid0 payload)))) i tid qos
     (gw_now s + (retry_count cfg + 1) * retry_delay cfg).
Proof.
  intros Hcfg HI HW Hr Hwf Hin Hfit. apply running_spec in Hr. destruct Hr as [He Hg].
  revert Hin. rewrite (gw_step_mq cfg s _ He Hg).
  set (s1 := s <| gw_last_mq := gw_now s |>). cbn [handle_mq]. intros Hin.
  assert (Hsm : sm s s1) by (subst s1; sm_tac).
  assert (HW1 : W s1) by (eapply W_sm; eassumption).
  assert (HI1 : Sound_C01C03_aux.Inv s1) by (subst s1; eapply Inv_same; [..|exact HI]; reflexivity).
  pose proof Hwf as Hwf'. cbn [wf_mq] in Hwf. destruct Hwf as (Hq & _ & _ & Hmid & _).
  set (r := handle_broker_publish cfg s1 dup qos retain topic mid0 payload) in *.
  assert (Hin' : In (Register tid i name) (SN (outs_of r))).
  { destruct r as [[s2 o] [|c]]; cbn [finish_r outs_of fst snd] in *; [exact Hin|].
    pose proof (begin_end_SN s2 c false true) as Hb. destruct (begin_end s2 c false true) as [s3 o3]. cbn [snd] in *.
    rewrite SN_app in Hin. apply in_app_or in Hin. destruct Hin as [Hin|Hin]; [exact Hin|].
    specialize (Hb _ Hin). discriminate Hb. }
  pose proof (handle_broker_publish_RP cfg s1 dup qos retain topic mid0 payload Hcfg HI1 Hq Hmid tid i name Hin' Hfit) as H1.
  destruct (handle_mq_summary cfg s1 _ HW1 Hwf') as [HW2 _]. cbn [handle_mq] in HW2. fold r in HW2.
  destruct (finish_r_W r false true HW2) as [_ HFR].
  eapply RP_FR; [exact HFR|exact H1|intros g _ []].
Qed.

(* ================================================================== the accepted REGACK writes the PUBLISH *)

Lemma bp_proceed_outs_awake cfg s g mid qos st pub snpub :
  gw_st s <> Asleep -> len (pack pub) <= MaxPacketLen ->
  outs_of (bp_proceed cfg s g mid qos st (RsSn pub) snpub) = [OutSn (gw_now s) (pack pub)].
Proof.
  intros Hst Hl. unfold bp_proceed. cbv zeta.
  match goal with |- context [sn_send_owned ?S ?o ?p] => set (s2 := S) end.
  assert (H : sn_send_owned s2 (Some g) pub = ok s2 [OutSn (gw_now s) (pack pub)]).
  { unfold sn_send_owned. apply N.leb_le in Hl. rewrite Hl. change (gw_st s2) with (gw_st s).
    destruct (gw_st s); try reflexivity. contradiction. }
  rewrite H. destruct st; try reflexivity.
Qed.

Lemma handle_sn_regack_writes cfg s i tid q u tid' rc :
  RP cfg s i tid q u -> gw_st s <> Asleep -> gw_st s <> Disconnected -> (rc =? RC_ACCEPTED) = true ->
  exists dup retain mid0 payload,
    In (Publish dup q retain TIT_REGISTERED tid mid0 payload) (SN (outs_of (handle_sn cfg s (Regack tid' i rc)))) /\
    (q = 0 \/ mid0 = i).
Proof.
  intros (g & name & dup & retain & mid0 & payload & n & sq & T & Hh & H1 & H2 & H3 & H4 & H5 & H6 & _) Hst Hnd Hrc.
  exists dup, retain, mid0, payload. split; [|exact H6].
  unfold handle_sn. rewrite (packet_legal_connected cfg s _ Hnd). cbn [negb].
  rewrite (held_get_by_id _ _ _ _ Hh). cbn [bp_regack]. rewrite Hrc. cbn [negb]. cbv zeta.
  rewrite bp_proceed_outs_awake; [|exact Hst|exact H2].
  rewrite (SN_publish _ _ _ _ _ _ _ _ H2).
  rewrite (N.mod_small q 4 H5), (N.mod_small tid 65536 H3), (N.mod_small mid0 65536 H4).
  left. reflexivity.
Qed.

Theorem rstep_check cfg s dg i tid q u tid' rc :
  running s = true -> RP cfg s i tid q u -> gw_st s <> Asleep -> connected s = true ->
  read_dgram dg = Ok (Regack tid' i rc) -> (rc =? RC_ACCEPTED) = true ->
  exists dup retain mid0 payload,
    In (Publish dup q retain TIT_REGISTERED tid mid0 payload) (SN (snd (gw_step cfg s (EvSn dg)))) /\
    (q = 0 \/ mid0 = i).
Proof.
  intros Hr HR Hst Hc Hrd Hrc. apply running_spec in Hr. destruct Hr as [He Hg].
  rewrite (gw_step_sn cfg s dg _ He Hg Hrd).
  set (s1 := s <| gw_last_sn := gw_now s |>).
  assert (Hsm : sm s s1) by (subst s1; sm_tac).
  destruct (handle_sn_regack_writes cfg s1 i tid q u tid' rc (RP_sm _ _ _ _ _ _ _ Hsm HR) Hst (connected_spec s Hc) Hrc)
    as (dup & retain & mid0 & payload & Hin & Hq).
  exists dup, retain, mid0, payload. split; [apply finish_r_SN_in, Hin|exact Hq].
Qed.

(* ================================================================== time passes *)

Lemma fire_retry_RP cfg s g i tid q u name sp n :
  held s i g (TxBrokerPub i q AwaitRegack (RsSn (Register tid i name)) sp n) ->
  len (pack (Register tid i name)) <= MaxPacketLen ->
  (forall tm, In tm (gw_timers s) -> timer_of_obj g (tm_kind tm) = false) ->
  u <= gw_now s + (retry_count cfg - n) * retry_delay cfg -> gw_now s < u ->
  gw_by_id (st_of (fire cfg s (TmRetry g))) = gw_by_id s /\
  gw_objs (st_of (fire cfg s (TmRetry g))) =
    <[g := TxBrokerPub i q AwaitRegack (RsSn (Register tid i name)) sp (n + 1)]> (gw_objs s) /\
  gw_timers (st_of (fire cfg s (TmRetry g))) =
    gw_timers s ++ [{| tm_at := gw_now s + retry_delay cfg; tm_seq := gw_next_seq s; tm_kind := TmRetry g |}] /\
  u <= gw_now s + retry_delay cfg + (retry_count cfg - (n + 1)) * retry_delay cfg.
Proof.
  intros [Hs Ho] Hl Hnt Hu Hlt. unfold fire. rewrite Ho.
  assert (Hn : n < retry_count cfg).
  { destruct (N.lt_ge_cases n (retry_count cfg)) as [H|H]; [exact H|].
    assert (E : retry_count cfg - n = 0) by lia. rewrite E in Hu. lia. }
  destruct (retry_count cfg <? n + 1) eqn:En; [apply N.ltb_lt in En; lia|]. cbv zeta.
  assert (Hb : u <= gw_now s + retry_delay cfg + (retry_count cfg - (n + 1)) * retry_delay cfg).
  { assert (E : retry_count cfg - n = (retry_count cfg - (n + 1)) + 1) by lia. rewrite E in Hu. lia. }
  cbn [set_dup]. unfold sn_send_owned. apply N.leb_le in Hl.
  match goal with |- context [gw_st ?S] => destruct (gw_st S) end; rewrite ?Hl; unfold st_of, ok; cbn [fst];
    (split; [reflexivity|split; [reflexivity|split; [reflexivity|exact Hb]]]).
Qed.

Lemma fire_one_RP cfg s tm t i tid q u :
  W s -> In tm (gw_timers s) -> tm_at tm <= t -> t < u -> RP cfg s i tid q u ->
  RP cfg (fst (finish_r (fire cfg (pre s tm) (tm_kind tm)) false false)) i tid q u.
Proof.
  intros HW Hin Hdue Hu HB.
  pose proof (pre_fw X0 s tm HW) as [HWp HFp].
  pose proof (finish_r_fw _ _ _ false false (fire_fw cfg (pre s tm) (tm_kind tm)) HWp) as [HW1 HF1].
  assert (HBp : RP cfg (pre s tm) i tid q u) by (eapply RP_FR; [exact HFp|exact HB|intros g _ []]).
  destruct HB as (g & name & dup & retain & mid0 & payload & n & sq & T & Hh & H1 & H2 & H3 & H4 & H5 & H6 & Htm & Hb).
  destruct (timer_of_obj g (tm_kind tm)) eqn:Hof.
  - destruct (Htm tm Hin Hof) as (Hsq & HT & Hk). rewrite Hk.
    destruct (fire_retry_RP cfg (pre s tm) g i tid q u name _ n Hh H1) as (B1 & B2 & B3 & B4).
    + intros v Hv. destruct (timer_of_obj g (tm_kind v)) eqn:Hov; [|reflexivity]. exfalso.
      cbn in Hv. pose proof (remove_timer_same_seq _ _ _ Hv) as Hne.
      assert (Hv' : In v (gw_timers s)) by (unfold remove_timer in Hv; apply filter_In in Hv; tauto).
      destruct (Htm v Hv' Hov) as (Hsv & _ & _). congruence.
    + cbn. lia.
    + cbn. lia.
    + assert (HBf : RP cfg (st_of (fire cfg (pre s tm) (TmRetry g))) i tid q u).
      { exists g, name, dup, retain, mid0, payload, (n + 1), (gw_next_seq (pre s tm)), (gw_now (pre s tm) + retry_delay cfg).
        split; [|split; [exact H1|split; [exact H2|split; [exact H3|split; [exact H4|split; [exact H5|split; [exact H6|split; [|exact B4]]]]]]]].
        - split; [rewrite B1; exact (proj1 Hh)|rewrite B2; apply lookup_insert].
        - intros v Hv Hov. rewrite B3 in Hv. apply in_app_or in Hv. destruct Hv as [Hv|[<-|[]]]; [|cbn; auto].
          exfalso. cbn in Hv. pose proof (remove_timer_same_seq _ _ _ Hv) as Hne.
          assert (Hv' : In v (gw_timers s)) by (unfold remove_timer in Hv; apply filter_In in Hv; tauto).
          destruct (Htm v Hv' Hov) as (Hsv & _ & _). congruence. }
      destruct (fire cfg (pre s tm) (TmRetry g)) as [[s1 o] [|c]]; unfold st_of in HBf; cbn [finish_r fst] in *; [exact HBf|].
      pose proof (begin_end_FR X0 s1 c false false) as Hbe. destruct (begin_end s1 c false false) as [s2 o2]. cbn [fst] in *.
      eapply RP_FR; [exact Hbe|exact HBf|intros g' _ []].
  - eapply RP_FR; [exact HF1|exact HBp|]. intros g' Hg' Hx. unfold Xtm in Hx.
    change (gw_by_id (pre s tm)) with (gw_by_id s) in Hg'. assert (g' = g) by (destruct Hh; congruence). subst g'. congruence.
Qed.

Lemma run_timers_RP cfg t fuel i tid q u : forall s, W s -> t < u -> RP cfg s i tid q u ->
  RP cfg (fst (run_timers fuel cfg s t)) i tid q u.
Proof.
  induction fuel as [|fuel IH]; intros s HW Hu HR; cbn [run_timers]; [exact HR|].
  destruct (gw_ending s) as [te|].
  - destruct (te <=? t); cbn [fst]; [|exact HR]. eapply RP_sm; [|exact HR]. sm_tac.
  - destruct (min_timer (gw_timers s)) as [tm|] eqn:Em; [|exact HR].
    destruct (tm_at tm <=? t) eqn:Ed; [|exact HR].
    apply N.leb_le in Ed. apply min_timer_in in Em.
    pose proof (fire_one_RP cfg s tm t i tid q u HW Em Ed Hu HR) as H1.
    pose proof (fire_one cfg s tm t HW Em Ed) as [HW1 _]. fold (pre s tm).
    destruct (finish_r (fire cfg (pre s tm) (tm_kind tm)) false false) as [s1 o1]. cbn [fst] in *.
    specialize (IH s1 HW1 Hu H1). destruct (run_timers fuel cfg s1 t) as [s2 o2]. exact IH.
Qed.

Theorem rstep_adv cfg s d i tid q u :
  W s -> gw_now s + d < u -> RP cfg s i tid q u -> RP cfg (fst (gw_step cfg s (EvAdvance d))) i tid q u.
Proof.
  intros HW Hu HR. unfold gw_step. destruct (gw_ended s); [exact HR|].
  pose proof (run_timers_RP cfg (gw_now s + d) (advance_fuel cfg s d) i tid q u s HW Hu HR) as H.
  destruct (run_timers (advance_fuel cfg s d) cfg s (gw_now s + d)) as [s' o]. cbn [fst] in *.
  destruct (gw_ended s'); [exact H|]. eapply RP_sm; [|exact H]. sm_tac.
Qed.
