(* Gateway/GwRun.v — from one step to every history.

   The per-step theorems of the gateway model have the shape
       forall s ev, reach cfg s -> wf_event ev -> H s ev -> Q s ev
   (Q: the step's outputs pass an executable checker; H: an optional side condition on the
   step).  [run_all] states a predicate of every step of a history run from a given state;
   [run_all_lift] lifts a per-step theorem to all histories by induction over the event list,
   so no bound on the length of a history is involved. *)
From stdpp Require Import base option list numbers fin_maps nmap.
From Verif.Base Require Import Bytes.
From Verif.Codec Require Import Packets Decode Encode.
From Verif.Topics Require Import Predefined.
From Verif.Gateway Require Import GwTypes GwStep GwWf.
Open Scope N_scope.

(* P holds of (state before, event) at every step of the run of evs from s *)
Fixpoint run_all (cfg : gw_cfg) (P : gw_state -> gw_event -> Prop) (s : gw_state) (evs : list gw_event) : Prop :=
  match evs with
  | [] => True
  | ev :: evs' => P s ev /\ run_all cfg P (fst (gw_step cfg s ev)) evs'
  end.

Lemma run_all_impl cfg (P Q : gw_state -> gw_event -> Prop) :
  (forall s ev, P s ev -> Q s ev) -> forall evs s, run_all cfg P s evs -> run_all cfg Q s evs.
Proof.
  intros HPQ. induction evs as [|ev evs IH]; intros s H; cbn [run_all] in *; [exact I|].
  destruct H as [H1 H2]. split; [apply HPQ, H1|apply IH, H2].
Qed.

Lemma run_all_and cfg (P Q : gw_state -> gw_event -> Prop) evs : forall s,
  run_all cfg P s evs -> run_all cfg Q s evs -> run_all cfg (fun s ev => P s ev /\ Q s ev) s evs.
Proof.
  induction evs as [|ev evs IH]; intros s HP HQ; cbn [run_all] in *; [exact I|].
  destruct HP as [HP1 HP2], HQ as [HQ1 HQ2]. split; [split; assumption|apply IH; assumption].
Qed.

(* every step of a well-formed history starts in a reachable state *)
Lemma run_all_lift cfg (H Q : gw_state -> gw_event -> Prop) :
  (forall s ev, reach cfg s -> wf_event ev -> H s ev -> Q s ev) ->
  forall evs s, reach cfg s -> Forall wf_event evs -> run_all cfg H s evs -> run_all cfg Q s evs.
Proof.
  intros Hstep. induction evs as [|ev evs IH]; intros s Hr Hwf HH; cbn [run_all] in *; [exact I|].
  inversion Hwf as [|? ? Hev Hevs]; subst. destruct HH as [H1 H2]. split.
  - apply Hstep; assumption.
  - apply IH; [apply reach_step; assumption|exact Hevs|exact H2].
Qed.

(* the same with an invariant the side condition maintains (Inv holds initially, every step that
   satisfies H preserves it, and the per-step theorem may use it) *)
Lemma run_all_lift_inv cfg (Inv : gw_state -> Prop) (H Q : gw_state -> gw_event -> Prop) :
  (forall s ev, reach cfg s -> wf_event ev -> Inv s -> H s ev -> Inv (fst (gw_step cfg s ev))) ->
  (forall s ev, reach cfg s -> wf_event ev -> Inv s -> H s ev -> Q s ev) ->
  forall evs s, reach cfg s -> Inv s -> Forall wf_event evs -> run_all cfg H s evs -> run_all cfg Q s evs.
Proof.
  intros Hpres Hstep. induction evs as [|ev evs IH]; intros s Hr Hi Hwf HH; cbn [run_all] in *; [exact I|].
  inversion Hwf as [|? ? Hev Hevs]; subst. destruct HH as [H1 H2]. split.
  - apply Hstep; assumption.
  - apply IH; [apply reach_step; assumption|apply Hpres; assumption|exact Hevs|exact H2].
Qed.

Lemma run_all_true cfg evs : forall s, run_all cfg (fun _ _ => True) s evs.
Proof. induction evs as [|ev evs IH]; intros s; cbn [run_all]; [exact I|split; [exact I|apply IH]]. Qed.
