(* Gateway/Sound_C04C11.v — the gateway model's own outputs are accepted by chk_C04 and chk_C11.

   Both statements are FALSE without a side condition for reachable states (counterexamples at the
   end of the file, checked with vm_compute).  Proved:
   - chk_C04_sound_partial (side condition tids_invisible), tids_invisible_init / tids_invisible_step
     (preservation under cid_stable), chk_C04_all_histories;
   - chk_C11_sound_partial (side condition connack_not_due), chk_C11_all_histories.
   The former side conditions announced_when_exhausted (C04 clause 4) and buffer_small (C11 clause 2)
   are gone: the checkers now accept a registered pair after exhaustion, and flush_expected follows
   the flush up to the first oversized packet and the DISCONNECT of the terminating session. *)
From Coq Require Import List NArith Bool Lia ZArith ZifyN ZifyNat ZifyBool.
From stdpp Require Import base option list numbers fin_maps nmap.
From RecordUpdate Require Import RecordSet.
From Verif.Base Require Import Bytes BytesProofs.
From Verif.Codec Require Import Packets Decode Encode EncodeProofs.
From Verif.Topics Require Import Predefined PredefinedProofs.
From Verif.Gateway Require Import GwTypes GwStep GwWf GwRun Sound_C04C11_aux.
From Verif.Checkers Require Import ChkCodec ChkGw ChkGw2.
Import RecordSetNotations.
Open Scope N_scope.
Ltac Zify.zify_post_hook ::= Z.div_mod_to_equations.

(* ================================================================== the invariant *)

(* the pairs (topic ID, name) the session knows: announced to the client, or registered *)
Definition known (s : gw_state) (i : N) (n : bytes) : Prop :=
  In (i, n) (gw_handed_out s) \/ gw_registered s !! i = Some n.

(* a packet the gateway may hold (retry data, sleep buffer): a REGISTER only for an announced pair *)
Definition stored_ok (h : list (N * bytes)) (p : packet) : Prop :=
  match p with
  | Register tid _ name => In (tid, name) h
  | WillTopic _ _ _ | WillTopicUpd _ _ _ => False
  | _ => True
  end.

Definition txn_ok (h : list (N * bytes)) (t : txn) : Prop :=
  match t with
  | TxBrokerPub _ _ _ data snpub _ =>
    match data with RsSn p => stored_ok h p | RsAck _ _ => True end /\
    match snpub with Some p => stored_ok h p | None => True end
  | _ => True
  end.

(* the ID is in range and, while the allocator is live, below the sequence *)
Definition rng (s : gw_state) (i : N) : Prop :=
  1 <= i <= 65534 /\ (gw_no_more_tids s = false -> gw_seq_overflow s = false -> i < gw_seq_next s).

Record Inv (s : gw_state) : Prop := {
  inv_seq : 1 <= gw_seq_next s <= 65534;
  inv_rng : forall i n, known s i n -> rng s i;
  inv_fun : forall i n n', known s i n -> known s i n' -> n = n';
  inv_buf : forall o p, In (o, p) (gw_buffer s) -> stored_ok (gw_handed_out s) p;
  inv_obj : forall g t, gw_objs s !! g = Some t -> txn_ok (gw_handed_out s) t }.

Lemma stored_ok_mono h h' p : incl h h' -> stored_ok h p -> stored_ok h' p.
Proof. intros Hi. destruct p; cbn; auto. Qed.

Lemma txn_ok_mono h h' t : incl h h' -> txn_ok h t -> txn_ok h' t.
Proof.
  intros Hi. destruct t as [| | |mid qos st data snpub n]; cbn; auto.
  intros [H1 H2]. split.
  - destruct data; [eapply stored_ok_mono; eassumption|exact I].
  - destruct snpub; [eapply stored_ok_mono; eassumption|exact I].
Qed.

Lemma stored_ok_set_dup h p : stored_ok h p -> stored_ok h (set_dup p).
Proof. destruct p; cbn; auto. Qed.

(* what a step may do to the known pairs, relative to a client ID c: the announced list grows,
   exhaustion is latched, and a new pair appears only while IDs are not exhausted, with an ID
   that is not a predefined topic ID of c *)
Definition core_le (cfg : gw_cfg) (c : bytes) (s S : gw_state) : Prop :=
  incl (gw_handed_out s) (gw_handed_out S) /\
  (gw_no_more_tids s = true -> gw_no_more_tids S = true) /\
  (forall i n, known S i n ->
     known s i n \/ (gw_no_more_tids s = false /\ get_name (predefined cfg) c i = None)).

Definition Good (cfg : gw_cfg) (c : bytes) (s S : gw_state) : Prop := Inv S /\ core_le cfg c s S.

Lemma core_le_refl cfg c s : core_le cfg c s s.
Proof. split; [apply incl_refl|]. split; auto. Qed.

Lemma core_le_trans cfg c s1 s2 s3 : core_le cfg c s1 s2 -> core_le cfg c s2 s3 -> core_le cfg c s1 s3.
Proof.
  intros [Ha [Hb Hc]] [Ha' [Hb' Hc']]. split; [eapply incl_tran; eassumption|]. split; [auto|].
  intros i n Hk. destruct (Hc' i n Hk) as [Hk2|[Hn Hg]].
  - apply Hc. exact Hk2.
  - right. split; [|exact Hg]. destruct (gw_no_more_tids s1) eqn:E; [|reflexivity].
    rewrite Hb in Hn by reflexivity. discriminate.
Qed.

Lemma Good_refl cfg c s : Inv s -> Good cfg c s s.
Proof. intros H. split; [exact H|apply core_le_refl]. Qed.

Lemma Good_trans cfg c s1 s2 s3 : Good cfg c s1 s2 -> Good cfg c s2 s3 -> Good cfg c s1 s3.
Proof. intros [_ H1] [H2 H3]. split; [exact H2|eapply core_le_trans; eassumption]. Qed.

(* the general extension lemma: S differs from s by (at most) one pair (i, name) *)
Lemma inv_ext (s S : gw_state) (i : N) (name : bytes) :
  Inv s ->
  gw_seq_next S = gw_seq_next s -> gw_seq_overflow S = gw_seq_overflow s ->
  gw_no_more_tids S = gw_no_more_tids s ->
  incl (gw_handed_out s) (gw_handed_out S) ->
  (forall j n, known S j n -> known s j n \/ (j = i /\ n = name)) ->
  (known S i name -> rng s i /\ forall n', known s i n' -> n' = name) ->
  (forall o p, In (o, p) (gw_buffer S) -> In (o, p) (gw_buffer s) \/ stored_ok (gw_handed_out S) p) ->
  (forall g t, gw_objs S !! g = Some t -> gw_objs s !! g = Some t \/ txn_ok (gw_handed_out S) t) ->
  Inv S.
Proof.
  intros HI E1 E2 E3 Hinc Hk Hnew Hbuf Hobj.
  assert (Hrng : forall j, rng s j -> rng S j).
  { intros j [Ha Hb]. split; [exact Ha|]. rewrite E1, E2, E3. exact Hb. }
  constructor.
  - rewrite E1. apply HI.
  - intros j n Hj. destruct (Hk j n Hj) as [Ho|[-> ->]].
    + apply Hrng. eapply inv_rng; eassumption.
    + apply Hrng. apply Hnew. exact Hj.
  - intros j n n' Hj Hj'.
    destruct (Hk j n Hj) as [Ho|[E1' E2']]; destruct (Hk j n' Hj') as [Ho'|[E3' E4']].
    + eapply inv_fun; eassumption.
    + subst j n'. destruct (Hnew Hj') as [_ Hu]. apply Hu. exact Ho.
    + subst j n. destruct (Hnew Hj) as [_ Hu]. symmetry. apply Hu. exact Ho'.
    + congruence.
  - intros o p Hin. destruct (Hbuf o p Hin) as [Ho|Hn]; [|exact Hn].
    eapply stored_ok_mono; [exact Hinc|]. eapply inv_buf; eassumption.
  - intros g t Hg. destruct (Hobj g t Hg) as [Ho|Hn]; [|exact Hn].
    eapply txn_ok_mono; [exact Hinc|]. eapply inv_obj; eassumption.
Qed.

(* S has the same core as s, up to dropped or re-validated buffer entries and transactions *)
Definition irrel (s S : gw_state) : Prop :=
  gw_registered S = gw_registered s /\ gw_seq_next S = gw_seq_next s /\
  gw_seq_overflow S = gw_seq_overflow s /\ gw_no_more_tids S = gw_no_more_tids s /\
  gw_handed_out S = gw_handed_out s /\
  (forall o p, In (o, p) (gw_buffer S) -> In (o, p) (gw_buffer s) \/ stored_ok (gw_handed_out s) p) /\
  (forall g t, gw_objs S !! g = Some t -> gw_objs s !! g = Some t \/ txn_ok (gw_handed_out s) t).

Lemma irrel_refl s : irrel s s.
Proof. repeat split; auto. Qed.

Lemma irrel_trans s1 s2 s3 : irrel s1 s2 -> irrel s2 s3 -> irrel s1 s3.
Proof.
  intros (A1 & A2 & A3 & A4 & A5 & A6 & A7) (B1 & B2 & B3 & B4 & B5 & B6 & B7).
  repeat split; try congruence.
  - intros o p Hin. destruct (B6 o p Hin) as [H|H]; [apply A6, H|right; rewrite <- A5; exact H].
  - intros g t Hg. destruct (B7 g t Hg) as [H|H]; [apply A7, H|right; rewrite <- A5; exact H].
Qed.

Lemma irrel_known s S i n : irrel s S -> known S i n <-> known s i n.
Proof. intros (A1 & _ & _ & _ & A5 & _). unfold known. rewrite A1, A5. reflexivity. Qed.

Lemma irrel_good cfg c s S : Inv s -> irrel s S -> Good cfg c s S.
Proof.
  intros HI Hir. pose proof Hir as (A1 & A2 & A3 & A4 & A5 & A6 & A7). split.
  - apply (inv_ext s S 0 []); try assumption.
    + rewrite A5. apply incl_refl.
    + intros j n Hj. left. apply (irrel_known s S); assumption.
    + intros Hk. apply (irrel_known s S) in Hk; [|assumption]. split; [eapply inv_rng; eassumption|].
      intros n' Hk'. eapply inv_fun; eassumption.
    + rewrite A5. exact A6.
    + rewrite A5. exact A7.
  - split; [rewrite A5; apply incl_refl|]. split; [rewrite A4; auto|].
    intros i n Hk. left. apply (irrel_known s S); assumption.
Qed.

(* ------------------------------------------------------------------ irrelevant updates *)

Definition coreq (S' S : gw_state) : Prop :=
  gw_registered S' = gw_registered S /\ gw_seq_next S' = gw_seq_next S /\
  gw_seq_overflow S' = gw_seq_overflow S /\ gw_no_more_tids S' = gw_no_more_tids S /\
  gw_handed_out S' = gw_handed_out S /\ gw_buffer S' = gw_buffer S /\ gw_objs S' = gw_objs S.

Lemma irrel_coreq s S S' : coreq S' S -> irrel s S -> irrel s S'.
Proof.
  intros (B1 & B2 & B3 & B4 & B5 & B6 & B7) (A1 & A2 & A3 & A4 & A5 & A6 & A7).
  unfold irrel. rewrite B1, B2, B3, B4, B5, B6, B7. repeat split; assumption.
Qed.

Lemma irrel_arm s S k d : irrel s S -> irrel s (arm S k d).
Proof. apply irrel_coreq. repeat split; reflexivity. Qed.
Lemma irrel_disarm_obj s S g : irrel s S -> irrel s (disarm_obj S g).
Proof. apply irrel_coreq. repeat split; reflexivity. Qed.
Lemma irrel_disarm_ping s S g : irrel s S -> irrel s (disarm_ping S g).
Proof. apply irrel_coreq. repeat split; reflexivity. Qed.

Lemma irrel_objs_ins s S g t :
  irrel s S -> txn_ok (gw_handed_out s) t -> irrel s (S <| gw_objs := <[g := t]> (gw_objs S) |>).
Proof.
  intros (A1 & A2 & A3 & A4 & A5 & A6 & A7) Ht. unfold irrel. cbn.
  repeat split; try assumption.
  intros g' t' Hg. apply lookup_insert_Some in Hg. destruct Hg as [[_ <-]|[_ Hg]]; [right; exact Ht|].
  apply A7. exact Hg.
Qed.

Lemma irrel_set_obj s S g t :
  irrel s S -> txn_ok (gw_handed_out s) t -> irrel s (set_obj S g t).
Proof. apply irrel_objs_ins. Qed.

Lemma irrel_objs_del s S g : irrel s S -> irrel s (S <| gw_objs := delete g (gw_objs S) |>).
Proof.
  intros (A1 & A2 & A3 & A4 & A5 & A6 & A7). unfold irrel. cbn.
  repeat split; try assumption.
  intros g' t' Hg. apply lookup_delete_Some in Hg. destruct Hg as [_ Hg]. apply A7. exact Hg.
Qed.

Lemma irrel_finish_obj s S g : irrel s S -> irrel s (finish_obj S g).
Proof.
  intros H. unfold finish_obj. destruct (gw_objs S !! g) as [t|]; [|exact H].
  assert (H1 : irrel s (disarm_obj S g <| gw_objs := delete g (gw_objs (disarm_obj S g)) |>)).
  { apply irrel_objs_del, irrel_disarm_obj, H. }
  cbv zeta.
  destruct t;
    try (match goal with |- irrel _ (match ?x with Some _ => _ | None => _ end) => destruct x as [g'|] end;
         [destruct (g' =? g)|]);
    (eapply irrel_coreq; [|exact H1]); repeat split; reflexivity.
Qed.

Lemma irrel_buf_nil s S : irrel s S -> irrel s (S <| gw_buffer := [] |>).
Proof.
  intros (A1 & A2 & A3 & A4 & A5 & A6 & A7). unfold irrel. cbn.
  repeat split; try assumption. intros o p [].
Qed.

Ltac irrel_tac :=
  repeat first
    [ assumption
    | apply irrel_refl
    | match goal with
      | |- irrel _ (finish_obj _ _) => apply irrel_finish_obj
      | |- irrel _ (arm _ _ _) => apply irrel_arm
      | |- irrel _ (disarm_obj _ _) => apply irrel_disarm_obj
      | |- irrel _ (disarm_ping _ _) => apply irrel_disarm_ping
      | |- irrel _ (set_obj _ _ _) => apply irrel_set_obj; [|try (cbn; tauto)]
      | |- irrel _ (@set gw_state _ gw_objs _ (fun _ => <[_ := _]> _) _) =>
        apply irrel_objs_ins; [|try (cbn; tauto)]
      | |- irrel _ (@set gw_state _ gw_buffer _ (fun _ => []) _) => apply irrel_buf_nil
      | |- irrel _ (@set gw_state _ _ _ _ ?S) =>
        apply (irrel_coreq _ S); [repeat split; reflexivity|]
      end ].

(* ------------------------------------------------------------------ results of handlers *)

Definition st_of (r : R) : gw_state := fst (fst r).
Definition outs_of (r : R) : list gw_out := snd (fst r).

(* a datagram that decodes to a REGISTER announces a pair of h *)
Definition dg_ok (h : list (N * bytes)) (dg : bytes) : Prop :=
  forall tid m nm, read_dgram dg = Ok (Register tid m nm) -> In (tid, nm) h.

Definition outs_ok (h : list (N * bytes)) (os : list gw_out) : Prop :=
  forall t dg, In (OutSn t dg) os -> dg_ok h dg.

Lemma outs_ok_nil h : outs_ok h [].
Proof. intros t dg []. Qed.

Lemma outs_ok_app h a b : outs_ok h a -> outs_ok h b -> outs_ok h (a ++ b).
Proof. intros Ha Hb t dg Hin. apply in_app_or in Hin. destruct Hin; [eapply Ha|eapply Hb]; eassumption. Qed.

Lemma outs_ok_mono h h' os : incl h h' -> outs_ok h os -> outs_ok h' os.
Proof. intros Hi Ho t dg Hin tid m nm Hr. apply Hi. eapply Ho; eassumption. Qed.

Lemma outs_ok_mq h t m : outs_ok h [OutMq t m].
Proof. intros t' dg [H|[]]. discriminate. Qed.

Definition Post (cfg : gw_cfg) (c : bytes) (s : gw_state) (r : R) : Prop :=
  Good cfg c s (st_of r) /\ outs_ok (gw_handed_out (st_of r)) (outs_of r).

Lemma post_ok cfg c s S : Good cfg c s S -> Post cfg c s (ok S []).
Proof. intros H. split; [exact H|apply outs_ok_nil]. Qed.

Lemma post_stop cfg c s S e : Good cfg c s S -> Post cfg c s (stop S [] e).
Proof. intros H. split; [exact H|apply outs_ok_nil]. Qed.

Lemma post_mq_send cfg c s S m : Good cfg c s S -> Post cfg c s (mq_send S m).
Proof. intros H. split; [exact H|apply outs_ok_mq]. Qed.

Lemma post_trans cfg c s0 s r : Good cfg c s0 s -> Post cfg c s r -> Post cfg c s0 r.
Proof. intros H0 [H1 H2]. split; [eapply Good_trans; eassumption|exact H2]. Qed.

Lemma stored_dg_ok S p :
  Inv S -> stored_ok (gw_handed_out S) p -> len (pack p) <= MaxPacketLen -> dg_ok (gw_handed_out S) (pack p).
Proof.
  intros HI Hs Hsz tid' m' nm' Hr.
  destruct_pkt p; try (apply pack_ptype in Hr; [discriminate Hr|exact I|exact Hsz]); cbn in Hs; try contradiction.
  apply read_register in Hr; [|exact Hsz]. inversion Hr as [[E1 E2 E3]].
  assert (Hk : known S tid name) by (left; exact Hs).
  apply (inv_rng S HI) in Hk. destruct Hk as [Hk _].
  rewrite N.mod_small by lia. exact Hs.
Qed.

Lemma post_sn_send_owned cfg c s S o p :
  Good cfg c s S -> stored_ok (gw_handed_out S) p -> Post cfg c s (sn_send_owned S o p).
Proof.
  intros HG Hs. unfold sn_send_owned.
  assert (Hbuf : Post cfg c s (ok (S <| gw_buffer := gw_buffer S ++ [(o, p)] |>) [])).
  { apply post_ok. eapply Good_trans; [exact HG|]. destruct HG as [HI _]. split.
    - apply (inv_ext S _ 0 []); try reflexivity; try exact HI.
      + apply incl_refl.
      + intros j n Hj. left. exact Hj.
      + intros Hk. split; [eapply inv_rng; eassumption|]. intros n' Hk'. eapply inv_fun; eassumption.
      + intros o' p' Hin. cbn in Hin. apply in_app_or in Hin. destruct Hin as [Hin|[Hin|[]]]; [left; exact Hin|].
        inversion Hin; subst. right. exact Hs.
      + intros g t Hg. left. exact Hg.
    - split; [apply incl_refl|]. split; [auto|]. intros i n Hk. left. exact Hk. }
  destruct (gw_st S); try exact Hbuf.
  all: destruct (len (pack p) <=? MaxPacketLen) eqn:Hsz; [|apply post_stop; exact HG].
  all: apply N.leb_le in Hsz; split; [exact HG|].
  all: intros t dg [Hin|[]]; inversion Hin; subst; apply stored_dg_ok; [apply HG|exact Hs|exact Hsz].
Qed.

Lemma post_sn_send cfg c s S p :
  Good cfg c s S -> stored_ok (gw_handed_out S) p -> Post cfg c s (sn_send S p).
Proof. apply post_sn_send_owned. Qed.

Lemma post_sn_send_now cfg c s S p :
  Good cfg c s S -> stored_ok (gw_handed_out S) p -> Post cfg c s (sn_send_now S p).
Proof.
  intros HG Hs. unfold sn_send_now.
  destruct (len (pack p) <=? MaxPacketLen) eqn:Hsz; [|apply post_stop; exact HG].
  apply N.leb_le in Hsz; split; [exact HG|].
  intros t dg [Hin|[]]; inversion Hin; subst; apply stored_dg_ok; [apply HG|exact Hs|exact Hsz].
Qed.

Lemma post_andthen cfg c s r g :
  Post cfg c s r -> (forall s1, Good cfg c s s1 -> Post cfg c s1 (g s1)) -> Post cfg c s (andthen r g).
Proof.
  intros [HG Ho] Hg. destruct r as [[s1 o1] [|e]]; cbn [andthen st_of outs_of fst snd] in *.
  - specialize (Hg s1 HG). destruct (g s1) as [[s2 o2] res]. destruct Hg as [HG2 Ho2].
    cbn [st_of outs_of fst snd] in *. split; [eapply Good_trans; eassumption|].
    apply outs_ok_app; [|exact Ho2]. eapply outs_ok_mono; [|exact Ho]. apply HG2.
  - split; assumption.
Qed.

(* ------------------------------------------------------------------ handlers that do not allocate *)

Ltac irrel_tac2 :=
  repeat first
    [ progress irrel_tac
    | match goal with |- irrel _ (match ?x with _ => _ end) => destruct x end
    | match goal with |- irrel _ (if ?x then _ else _) => destruct x end ].

Ltac good_tac :=
  match goal with
  | HG : Good ?cfg ?c ?s ?S0 |- Good ?cfg ?c ?s _ =>
    eapply Good_trans; [exact HG|apply irrel_good; [exact (proj1 HG)|solve [irrel_tac2]]]
  | HI : Inv ?s |- Good _ _ ?s _ => apply irrel_good; [exact HI|solve [irrel_tac2]]
  | HG : Good _ _ _ ?s |- Good _ _ ?s _ => apply irrel_good; [exact (proj1 HG)|solve [irrel_tac2]]
  end.

Ltac post_auto :=
  repeat match goal with
         | |- Post _ _ _ (andthen _ _) => apply post_andthen; [|intros ? ?]
         | |- Post _ _ _ (sn_send _ _) => apply post_sn_send; [|try exact I]
         | |- Post _ _ _ (sn_send_owned _ _ _) => apply post_sn_send_owned; [|try exact I]
         | |- Post _ _ _ (sn_send_now _ _) => apply post_sn_send_now; [|try exact I]
         | |- Post _ _ _ (mq_send _ _) => apply post_mq_send
         | |- Post _ _ _ (ok _ _) => apply post_ok
         | |- Post _ _ _ (stop _ _ _) => apply post_stop
         | |- Post _ _ _ (match ?x with _ => _ end) => destruct x eqn:?
         | |- Post _ _ _ (if ?x then _ else _) => destruct x eqn:?
         end.

Lemma connect_auth_done_post cfg c s S g mq :
  Good cfg c s S -> Post cfg c s (connect_auth_done S g mq).
Proof. intros HG. unfold connect_auth_done. post_auto; good_tac. Qed.

Lemma connect_start_post cfg c s S g mq a :
  Good cfg c s S -> Post cfg c s (connect_start S g mq a).
Proof.
  intros HG. unfold connect_start. destruct a; [post_auto; good_tac|].
  apply connect_auth_done_post. exact HG.
Qed.

Lemma handle_connect_post cfg c s S w cl pr d cid :
  Good cfg c s S -> Post cfg c s (handle_connect cfg S w cl pr d cid).
Proof.
  intros HG. unfold handle_connect, new_obj. cbv zeta. post_auto; try good_tac.
  apply connect_start_post. good_tac.
Qed.

Lemma connect_auth_post cfg c s S g mq a me da :
  Good cfg c s S -> Post cfg c s (connect_auth S g mq a me da).
Proof.
  intros HG. unfold connect_auth. post_auto; try good_tac.
  apply connect_auth_done_post. good_tac.
Qed.

Lemma handle_client_publish_post cfg c s S dup q r tit tid mid data :
  Good cfg c s S -> Post cfg c s (handle_client_publish cfg S dup q r tit tid mid data).
Proof. intros HG. unfold handle_client_publish, new_obj. cbv zeta. post_auto; good_tac. Qed.

Lemma handle_unsubscribe_post cfg c s S tit mid tid name :
  Good cfg c s S -> Post cfg c s (handle_unsubscribe cfg S tit mid tid name).
Proof. intros HG. unfold handle_unsubscribe. post_auto; good_tac. Qed.

Lemma send_all_post cfg c ps : forall s S,
  Good cfg c s S -> (forall o p, In (o, p) ps -> stored_ok (gw_handed_out s) p) ->
  Post cfg c s (send_all S ps).
Proof.
  induction ps as [|[o p] ps IH]; intros s S HG Hps; cbn [send_all].
  - apply post_ok. exact HG.
  - apply post_andthen.
    + apply post_sn_send; [exact HG|]. eapply stored_ok_mono; [apply HG|]. apply (Hps o). left. reflexivity.
    + intros s1 HG1. apply IH; [apply Good_refl, HG1|].
      intros o' p' Hin. eapply stored_ok_mono; [apply HG1|]. apply (Hps o'). right. exact Hin.
Qed.

(* RetryTransaction.Proceed: the transaction's data must be announced *)
Lemma bp_proceed_post cfg c s S g mid qos st data snpub :
  Good cfg c s S -> txn_ok (gw_handed_out S) (TxBrokerPub mid qos st data snpub 0) ->
  Post cfg c s (bp_proceed cfg S g mid qos st data snpub).
Proof.
  intros HG Ht. unfold bp_proceed. cbv zeta.
  assert (Hd : match data with RsSn p => stored_ok (gw_handed_out S) p | RsAck _ _ => True end) by apply Ht.
  destruct data as [p|k m]; destruct st; post_auto; try good_tac; try exact Hd.
Qed.

(* ================================================================== the topic ID allocator *)

(* s' differs from s only in the allocator fields *)
Definition seq_upd (s s' : gw_state) : Prop :=
  gw_registered s' = gw_registered s /\ gw_buffer s' = gw_buffer s /\
  gw_handed_out s' = gw_handed_out s /\ gw_objs s' = gw_objs s /\ gw_client_id s' = gw_client_id s.

Lemma seq_upd_refl s : seq_upd s s.
Proof. repeat split. Qed.

Lemma seq_upd_trans s1 s2 s3 : seq_upd s1 s2 -> seq_upd s2 s3 -> seq_upd s1 s3.
Proof. intros (A1 & A2 & A3 & A4 & A5) (B1 & B2 & B3 & B4 & B5). repeat split; congruence. Qed.

(* state of the sequence right after it handed out id *)
Definition after_id (s : gw_state) (id : N) : Prop :=
  (gw_seq_overflow s = false /\ gw_seq_next s = id + 1 /\ 1 <= id < 65534) \/
  (gw_seq_overflow s = true /\ gw_seq_next s = 1 /\ id = 65534).

Lemma seq_next_spec cfg s s' id ov :
  wf_cfg cfg -> 1 <= gw_seq_next s <= 65534 -> seq_next cfg s = (s', id, ov) ->
  id = gw_seq_next s /\ ov = gw_seq_overflow s /\ after_id s' id /\ seq_upd s s' /\
  gw_no_more_tids s' = gw_no_more_tids s.
Proof.
  intros (_ & Hmin & Hmax & _) Hr. unfold seq_next. rewrite Hmin, Hmax. intros H.
  destruct (N.eqb_spec (gw_seq_next s) 65534) as [E|E]; inversion H; subst; clear H; cbn.
  - repeat split; try reflexivity. right. repeat split; assumption.
  - repeat split; try reflexivity. left. repeat split; try reflexivity; lia.
Qed.

Lemma skip_predefined_spec cfg (Hwf : wf_cfg cfg) fuel : forall s id s' r,
  after_id s id -> skip_predefined fuel cfg s id = (s', r) ->
  seq_upd s s' /\ 1 <= gw_seq_next s' <= 65534 /\
  match r with
  | Some i => id <= i /\ after_id s' i /\ gw_no_more_tids s' = gw_no_more_tids s /\
              get_name (predefined cfg) (gw_client_id s) i = None
  | None => gw_no_more_tids s' = true
  end.
Proof.
  assert (Hseq : forall s id, after_id s id -> 1 <= gw_seq_next s <= 65534).
  { intros s id [(_ & E & H)|(_ & E & _)]; rewrite E; lia. }
  induction fuel as [|fuel IH]; intros s id s' r Ha; cbn [skip_predefined].
  - destruct (get_name (predefined cfg) (gw_client_id s) id) eqn:Hg; intros H; injection H as <- <-.
    + cbn. split; [repeat split|]. split; [apply (Hseq s id Ha)|reflexivity].
    + split; [apply seq_upd_refl|]. split; [apply (Hseq s id Ha)|]. repeat split; try assumption; lia.
  - destruct (get_name (predefined cfg) (gw_client_id s) id) eqn:Hg.
    + destruct (seq_next cfg s) as [[s1 id1] ov] eqn:Hs.
      apply seq_next_spec in Hs; [|exact Hwf|apply (Hseq s id Ha)].
      destruct Hs as (E1 & E2 & Ha1 & Hu1 & Hn1).
      destruct ov.
      * intros H; injection H as <- <-. cbn. split; [exact Hu1|].
        split; [apply (Hseq s1 id1 Ha1)|reflexivity].
      * intros H. apply IH in H; [|exact Ha1]. destruct H as (Hu2 & Hs2 & Hr).
        split; [eapply seq_upd_trans; eassumption|]. split; [exact Hs2|].
        destruct r as [i|]; [|exact Hr]. destruct Hr as (Hle & Ha2 & Hn2 & Hg2).
        assert (id < id1).
        { destruct Ha as [(_ & E & _)|(Ho & _)]; [lia|]. rewrite Ho in E2. discriminate. }
        repeat split; try assumption; try lia; try congruence.
        destruct Hu1 as (_ & _ & _ & _ & Hc). rewrite <- Hc. exact Hg2.
    + intros H; injection H as <- <-.
      split; [apply seq_upd_refl|]. split; [apply (Hseq s id Ha)|]. repeat split; try assumption; lia.
Qed.

Lemma new_topic_id_spec cfg s s' r :
  wf_cfg cfg -> 1 <= gw_seq_next s <= 65534 -> new_topic_id cfg s = (s', r) ->
  seq_upd s s' /\ 1 <= gw_seq_next s' <= 65534 /\
  match r with
  | Some i => gw_no_more_tids s = false /\ gw_seq_overflow s = false /\ gw_no_more_tids s' = false /\
              gw_seq_next s <= i <= 65534 /\ (gw_seq_overflow s' = false -> i < gw_seq_next s') /\
              get_name (predefined cfg) (gw_client_id s) i = None
  | None => gw_no_more_tids s' = true
  end.
Proof.
  intros Hwf Hr. unfold new_topic_id.
  destruct (gw_no_more_tids s) eqn:Hn.
  { intros H; injection H as <- <-. split; [apply seq_upd_refl|]. split; [exact Hr|exact Hn]. }
  destruct (seq_next cfg s) as [[s1 id1] ov] eqn:Hs.
  apply seq_next_spec in Hs; [|exact Hwf|exact Hr]. destruct Hs as (E1 & E2 & Ha1 & Hu1 & Hn1).
  destruct ov.
  { intros H; injection H as <- <-. cbn. split; [exact Hu1|]. split; [|reflexivity].
    destruct Ha1 as [(_ & E & H1)|(_ & E & _)]; rewrite E; lia. }
  intros H. apply skip_predefined_spec in H; [|exact Hwf|exact Ha1].
  destruct H as (Hu2 & Hs2 & Hres). split; [eapply seq_upd_trans; eassumption|]. split; [exact Hs2|].
  destruct r as [i|]; [|exact Hres]. destruct Hres as (Hle & Ha2 & Hn2 & Hg2).
  destruct Hu1 as (_ & _ & _ & _ & Hc). rewrite Hc in Hg2.
  repeat split; try assumption; try congruence; try lia.
  - destruct Ha2 as [(_ & E & H1)|(_ & _ & E)]; lia.
  - intros Ho. destruct Ha2 as [(_ & E & H1)|(Ho' & _)]; [lia|congruence].
Qed.

Lemma new_topic_id_latched cfg s s' r :
  new_topic_id cfg s = (s', r) -> gw_no_more_tids s = true -> gw_no_more_tids s' = true.
Proof. unfold new_topic_id. intros H Hn. rewrite Hn in H. injection H as <- <-. exact Hn. Qed.

Lemma seq_upd_known s s' i n : seq_upd s s' -> known s' i n <-> known s i n.
Proof. intros (A1 & _ & A3 & _). unfold known. rewrite A1, A3. reflexivity. Qed.

Lemma alloc_spec cfg c s s' r :
  wf_cfg cfg -> Inv s -> new_topic_id cfg s = (s', r) ->
  Good cfg c s s' /\ seq_upd s s' /\
  match r with
  | Some i => rng s' i /\ (forall n, ~ known s' i n) /\ gw_no_more_tids s' = false /\
              get_name (predefined cfg) (gw_client_id s) i = None
  | None => True
  end.
Proof.
  intros Hwf HI Hnew. pose proof (new_topic_id_latched _ _ _ _ Hnew) as Hlat.
  apply new_topic_id_spec in Hnew; [|exact Hwf|apply HI]. destruct Hnew as (Hu & Hseq & Hr).
  pose proof Hu as (A1 & A2 & A3 & A4 & A5).
  assert (Hfresh : forall j n, known s' j n -> rng s' j).
  { intros j n Hk. apply (seq_upd_known s s') in Hk; [|exact Hu]. apply (inv_rng s HI) in Hk.
    destruct Hk as [Hk1 Hk2]. split; [exact Hk1|]. intros Hn Ho.
    destruct r as [i|]; [|congruence]. destruct Hr as (Hn0 & Ho0 & _ & Hle & Hlt & _).
    specialize (Hk2 Hn0 Ho0). specialize (Hlt Ho). lia. }
  assert (HI' : Inv s').
  { constructor.
    - exact Hseq.
    - exact Hfresh.
    - intros j n n' Hk Hk'. apply (seq_upd_known s s') in Hk, Hk'; try exact Hu. eapply inv_fun; eassumption.
    - rewrite A2, A3. apply HI.
    - rewrite A4, A3. apply HI. }
  split; [split; [exact HI'|]|split; [exact Hu|]].
  - split; [rewrite A3; apply incl_refl|]. split; [exact Hlat|].
    intros j n Hk. left. apply (seq_upd_known s s'); assumption.
  - destruct r as [i|]; [|exact I]. destruct Hr as (Hn0 & Ho0 & Hn1 & Hle & Hlt & Hg).
    split; [|split; [|split; assumption]].
    + split; [pose proof (inv_seq s HI); lia|]. intros _ Ho. apply Hlt, Ho.
    + intros n Hk. apply (seq_upd_known s s') in Hk; [|exact Hu]. apply (inv_rng s HI) in Hk.
      destruct Hk as [_ Hk2]. specialize (Hk2 Hn0 Ho0). lia.
Qed.

Lemma known_ext s S i name :
  (gw_handed_out S = gw_handed_out s \/ gw_handed_out S = gw_handed_out s ++ [(i, name)]) ->
  (gw_registered S = gw_registered s \/ gw_registered S = <[i := name]> (gw_registered s)) ->
  forall j n, known S j n -> known s j n \/ (j = i /\ n = name).
Proof.
  intros HH HR j n [Hk|Hk].
  - destruct HH as [E|E]; rewrite E in Hk; [left; left; exact Hk|].
    apply in_app_or in Hk. destruct Hk as [Hk|[Hk|[]]]; [left; left; exact Hk|].
    inversion Hk. right. split; reflexivity.
  - destruct HR as [E|E]; rewrite E in Hk; [left; right; exact Hk|].
    apply lookup_insert_Some in Hk. destruct Hk as [[<- <-]|[_ Hk]]; [right; split; reflexivity|].
    left. right. exact Hk.
Qed.

Lemma ext_good cfg c s S i name :
  Inv s -> rng s i -> (forall n', known s i n' -> n' = name) ->
  (known s i name \/ (gw_no_more_tids s = false /\ get_name (predefined cfg) c i = None)) ->
  gw_seq_next S = gw_seq_next s -> gw_seq_overflow S = gw_seq_overflow s ->
  gw_no_more_tids S = gw_no_more_tids s ->
  (gw_handed_out S = gw_handed_out s \/ gw_handed_out S = gw_handed_out s ++ [(i, name)]) ->
  (gw_registered S = gw_registered s \/ gw_registered S = <[i := name]> (gw_registered s)) ->
  (forall o p, In (o, p) (gw_buffer S) -> In (o, p) (gw_buffer s) \/ stored_ok (gw_handed_out S) p) ->
  (forall g t, gw_objs S !! g = Some t -> gw_objs s !! g = Some t \/ txn_ok (gw_handed_out S) t) ->
  Good cfg c s S.
Proof.
  intros HI Hr Hu Hnew E1 E2 E3 HH HR Hbuf Hobj.
  assert (Hinc : incl (gw_handed_out s) (gw_handed_out S)).
  { destruct HH as [E|E]; rewrite E; [apply incl_refl|apply incl_appl, incl_refl]. }
  pose proof (known_ext s S i name HH HR) as Hk.
  split.
  - apply (inv_ext s S i name); try assumption. intros _. split; assumption.
  - split; [exact Hinc|]. split; [rewrite E3; auto|].
    intros j n Hj. destruct (Hk j n Hj) as [Ho|[-> ->]]; [left; exact Ho|exact Hnew].
Qed.

(* ================================================================== handlers that allocate or announce *)

Lemma find_registered_known s name i :
  find_registered s name = Some i -> gw_registered s !! i = Some name.
Proof.
  unfold find_registered. intros H. apply min_list_in in H.
  apply elem_of_list_In, elem_of_ids_with_name in H. exact H.
Qed.

Ltac ext_side :=
  first [ reflexivity | (left; reflexivity) | (right; reflexivity)
        | (let Hx := fresh in intros ? ? Hx; left; exact Hx) ].

(* announcing a pair that is already registered *)
Lemma note_known_good cfg c s i name :
  Inv s -> gw_registered s !! i = Some name -> Good cfg c s (note_handed s i name).
Proof.
  intros HI Hreg. assert (Hk : known s i name) by (right; exact Hreg).
  apply (ext_good cfg c s _ i name); try ext_side; try exact HI.
  - eapply inv_rng; eassumption.
  - intros n' Hk'. eapply inv_fun; eassumption.
  - left. exact Hk.
Qed.

Definition register_branch (cfg : gw_cfg) (s : gw_state) (mid : N) (name : bytes) : R :=
  match register_topic cfg s name with
  | (s, Some i) => sn_send (note_handed s i name) (Regack i mid RC_ACCEPTED)
  | (s, None) => sn_send s (Regack 0 mid RC_INVALID_TOPIC_ID)
  end.

Lemma register_branch_post cfg s mid name :
  wf_cfg cfg -> Inv s -> Post cfg (gw_client_id s) s (register_branch cfg s mid name).
Proof.
  intros Hwf HI. unfold register_branch, register_topic.
  destruct (find_registered s name) as [i|] eqn:Hf.
  - apply find_registered_known in Hf. apply post_sn_send; [|exact I].
    apply note_known_good; assumption.
  - destruct (new_topic_id cfg s) as [s1 [i|]] eqn:Hn;
      apply (alloc_spec cfg (gw_client_id s)) in Hn; try assumption; destruct Hn as (HG1 & Hu & Hr).
    + destruct Hr as (Hrng & Hfresh & Hnm & Hinv).
      apply post_sn_send; [|exact I]. eapply Good_trans; [exact HG1|].
      apply (ext_good cfg _ s1 _ i name); try ext_side; try apply HG1; try assumption.
      * intros n' Hk. exfalso. exact (Hfresh n' Hk).
      * right. split; assumption.
    + apply post_sn_send; [exact HG1|exact I].
Qed.

(* handler1.registerTopic: the name keeps its ID, or a fresh ID is allocated and registered *)
Lemma register_topic_good cfg s name s1 r :
  wf_cfg cfg -> Inv s -> register_topic cfg s name = (s1, r) -> Good cfg (gw_client_id s) s s1.
Proof.
  intros Hwf HI. unfold register_topic.
  destruct (find_registered s name) as [i0|] eqn:Hf.
  - intros H; injection H as <- <-. apply Good_refl, HI.
  - destruct (new_topic_id cfg s) as [s2 [i|]] eqn:Hn;
      apply (alloc_spec cfg (gw_client_id s)) in Hn; try assumption; destruct Hn as (HG1 & Hu & Hr);
      intros H; injection H as <- <-.
    + destruct Hr as (Hrng & Hfresh & Hnm & Hinv).
      eapply Good_trans; [exact HG1|].
      apply (ext_good cfg _ s2 _ i name); try ext_side; try apply HG1; try assumption.
      * intros n' Hk. exfalso. exact (Hfresh n' Hk).
      * right. split; assumption.
    + exact HG1.
Qed.

Lemma handle_subscribe_post cfg s dup qos tit mid tid name :
  wf_cfg cfg -> Inv s -> Post cfg (gw_client_id s) s (handle_subscribe cfg s dup qos tit mid tid name).
Proof.
  intros Hwf HI. unfold handle_subscribe, new_obj. cbv zeta beta.
  destruct ((2 <? qos) || (mid =? 0)); [post_auto; good_tac|].
  destruct (tit =? TIT_STRING); [|post_auto; good_tac].
  destruct (negb (has_wildcard name)); [|post_auto; good_tac].
  destruct (register_topic cfg s name) as [s1 [i|]] eqn:Hrt;
    pose proof (register_topic_good cfg s name _ _ Hwf HI Hrt) as HG.
  - post_auto; good_tac.
  - apply post_sn_send; [exact HG|exact I].
Qed.

Lemma handle_broker_publish_post cfg s dup qos retain topic mid0 payload :
  wf_cfg cfg -> Inv s ->
  Post cfg (gw_client_id s) s (handle_broker_publish cfg s dup qos retain topic mid0 payload).
Proof.
  intros Hwf HI. unfold handle_broker_publish, new_obj.
  destruct (if is_short_topic topic then _ else _) as [[tid tit]|]; cbv beta iota zeta.
  - (* a known topic: nothing is announced *)
    post_auto; try good_tac; (apply bp_proceed_post; [good_tac|cbn; tauto]).
  - cbn [negb]. rewrite andb_false_r.
    destruct (if qos =? 0 then _ else _) as [mid|]; [|post_auto; good_tac].
    destruct (2 <? qos); [post_auto; good_tac|].
    destruct (new_topic_id cfg s) as [s1 [i|]] eqn:Hn;
      apply (alloc_spec cfg (gw_client_id s)) in Hn; try assumption; destruct Hn as (HG1 & Hu & Hr).
    + destruct Hr as (Hrng & Hfresh & Hnm & Hinv).
      apply bp_proceed_post.
      * eapply Good_trans; [exact HG1|].
        apply (ext_good cfg _ s1 _ i topic); try ext_side; try apply HG1; try assumption.
        -- intros n' Hk. exfalso. exact (Hfresh n' Hk).
        -- right. split; assumption.
        -- intros g t Hg. cbn in Hg. apply lookup_insert_Some in Hg.
           destruct Hg as [[_ <-]|[_ Hg]]; [right|left; exact Hg].
           cbn. split; [|exact I]. apply in_or_app. right. left. reflexivity.
      * cbn. split; [|exact I]. apply in_or_app. right. left. reflexivity.
    + apply post_stop. exact HG1.
Qed.

Lemma bp_regack_post cfg c s g t rc :
  Inv s -> txn_ok (gw_handed_out s) t -> Post cfg c s (bp_regack cfg s g t rc).
Proof.
  intros HI Ht. unfold bp_regack. cbv zeta. post_auto; try good_tac.
  cbn in Ht. destruct Ht as [Hin Hpub].
  apply bp_proceed_post; [|cbn; split; exact Hpub].
  assert (Hk : known s tid name) by (left; exact Hin).
  apply (ext_good cfg c s _ tid name); try ext_side; try exact HI.
  - eapply inv_rng; eassumption.
  - intros n' Hk'. eapply inv_fun; eassumption.
  - left. exact Hk.
Qed.

Lemma get_by_id_obj s mid g t : get_by_id s mid = Some (g, t) -> gw_objs s !! g = Some t.
Proof.
  unfold get_by_id. destruct (gw_by_id s !! mid) as [g'|]; [|discriminate].
  destruct (gw_objs s !! g') as [t'|] eqn:E; [|discriminate]. intros H. inversion H; subst. exact E.
Qed.

Ltac obj_facts HI :=
  repeat match goal with
         | H : get_by_id ?s _ = Some (_, _) |- _ =>
           apply get_by_id_obj in H; apply (inv_obj s HI) in H; cbn in H
         end.

Lemma handle_sn_post cfg s p :
  wf_cfg cfg -> Inv s -> Post cfg (gw_client_id s) s (handle_sn cfg s p).
Proof.
  intros Hwf HI. pose proof (Good_refl cfg (gw_client_id s) s HI) as HG0. unfold handle_sn.
  destruct (negb (packet_legal cfg s p)); [apply post_stop; exact HG0|].
  destruct_pkt p; try (apply post_stop; exact HG0).
  - (* Auth *) post_auto; try good_tac. apply connect_auth_post. exact HG0.
  - (* Connect *) apply handle_connect_post. exact HG0.
  - (* WillTopic *) post_auto; good_tac.
  - (* WillMsg *) post_auto; good_tac.
  - (* Register *) apply (register_branch_post cfg s mid name Hwf HI).
  - (* Regack *) post_auto; try good_tac. obj_facts HI. apply bp_regack_post; [exact HI|cbn; assumption].
  - (* Publish *) apply handle_client_publish_post. exact HG0.
  - (* Puback *) post_auto; try good_tac. obj_facts HI. apply bp_proceed_post; [exact HG0|cbn; tauto].
  - (* Pubcomp *) post_auto; try good_tac. obj_facts HI. apply bp_proceed_post; [exact HG0|cbn; tauto].
  - (* Pubrec *) post_auto; try good_tac. obj_facts HI. apply bp_proceed_post; [exact HG0|cbn; tauto].
  - (* Pubrel *) post_auto; good_tac.
  - (* Subscribe *) apply handle_subscribe_post; assumption.
  - (* Unsubscribe *) apply handle_unsubscribe_post. exact HG0.
  - (* Pingreq *) cbv zeta. destruct (cstate_eqb (gw_st s) Asleep); [|post_auto; good_tac].
    apply post_andthen.
    + apply send_all_post; [good_tac|]. intros o p Hin. eapply inv_buf; eassumption.
    + intros s1 HG1. post_auto; good_tac.
  - (* Disconnect *) cbv zeta. post_auto; good_tac.
Qed.

Lemma suback_note_good cfg c s S tid :
  Good cfg c s S ->
  Good cfg c s (match gw_registered S !! tid with Some n => note_handed S tid n | None => S end).
Proof.
  intros HG. destruct (gw_registered S !! tid) as [n|] eqn:E; [|exact HG].
  eapply Good_trans; [exact HG|]. apply note_known_good; [apply HG|exact E].
Qed.

Lemma handle_mq_post cfg s m :
  wf_cfg cfg -> Inv s -> Post cfg (gw_client_id s) s (handle_mq cfg s m).
Proof.
  intros Hwf HI. pose proof (Good_refl cfg (gw_client_id s) s HI) as HG0. unfold handle_mq.
  destruct m; try (apply post_stop; exact HG0).
  - (* MqConnack *) post_auto; good_tac.
  - (* MqPublish *) apply handle_broker_publish_post; assumption.
  - (* MqPuback *) post_auto; good_tac.
  - (* MqPubrec *) post_auto; good_tac.
  - (* MqPubrel *) post_auto; try good_tac. obj_facts HI. apply bp_proceed_post; [exact HG0|cbn; tauto].
  - (* MqPubcomp *) post_auto; good_tac.
  - (* MqSuback *) cbv zeta. post_auto; try good_tac.
    apply suback_note_good. good_tac.
  - (* MqUnsuback *) post_auto; good_tac.
  - (* MqPingresp *) post_auto; good_tac.
Qed.

(* ================================================================== timers, termination, the step *)

Lemma irrel_buf_map s S (f : option N * packet -> option N * packet) :
  Inv s -> irrel s S ->
  (forall o p, stored_ok (gw_handed_out s) p -> stored_ok (gw_handed_out s) (snd (f (o, p)))) ->
  irrel s (S <| gw_buffer := map f (gw_buffer S) |>).
Proof.
  intros HI (A1 & A2 & A3 & A4 & A5 & A6 & A7) Hf. unfold irrel. cbn.
  repeat split; try assumption.
  intros o p Hin. right. apply in_map_iff in Hin. destruct Hin as [[o' p'] [E Hin]].
  specialize (Hf o' p'). rewrite E in Hf. cbn in Hf. apply Hf.
  destruct (A6 o' p' Hin) as [Ho|Hn]; [eapply inv_buf; eassumption|exact Hn].
Qed.

Lemma post_catch cfg c s s1 o e g :
  Post cfg c s (s1, o, HEnd e) -> Post cfg c s (ok (finish_obj s1 g) o).
Proof.
  intros [HG Ho]. cbn [st_of outs_of fst snd] in *. split.
  - cbn [ok st_of fst]. eapply Good_trans; [exact HG|]. apply irrel_good; [apply HG|].
    apply irrel_finish_obj, irrel_refl.
  - cbn [ok st_of outs_of fst snd].
    assert (E : gw_handed_out (finish_obj s1 g) = gw_handed_out s1).
    { pose proof (irrel_finish_obj s1 s1 g (irrel_refl s1)) as (_ & _ & _ & _ & E & _). exact E. }
    rewrite E. exact Ho.
Qed.

Lemma fire_post cfg c s k : Inv s -> Post cfg c s (fire cfg s k).
Proof.
  intros HI. unfold fire. destruct k as [g|g|g|p|p].
  - post_auto; good_tac.
  - post_auto; good_tac.
  - destruct (gw_objs s !! g) as [t|] eqn:Hobj; [|post_auto; good_tac].
    destruct t as [| | |mid qos st data snpub n]; try (post_auto; good_tac).
    apply (inv_obj s HI) in Hobj. cbn in Hobj. destruct Hobj as [Hdata Hsnpub].
    destruct (retry_count cfg <? n + 1); [post_auto; good_tac|]. cbv zeta.
    match goal with |- Post _ _ _ (match ?d with RsSn _ => _ | RsAck _ _ => _ end) => set (data' := d) end.
    assert (Hdata' : match data' with RsSn p => stored_ok (gw_handed_out s) p | RsAck _ _ => True end).
    { subst data'. destruct data; [apply stored_ok_set_dup; exact Hdata|exact I]. }
    match goal with |- context [arm ?S0 (TmRetry g) _] => assert (Hir : irrel s S0) end.
    { clearbody data'. destruct data as [p0|ka0 m0];
        [|apply irrel_set_obj; [apply irrel_refl|cbn; split; assumption]].
      apply irrel_buf_map; [exact HI|apply irrel_set_obj; [apply irrel_refl|cbn; split; assumption]|].
      intros o p Hp. destruct o as [g'|]; [|exact Hp]. destruct ((g' =? g) && same_packet_obj p p0); [|exact Hp].
      cbn. apply stored_ok_set_dup. exact Hp. }
    match goal with Hir' : irrel s ?S0 |- _ =>
      assert (Hho : gw_handed_out S0 = gw_handed_out s) by (destruct data; reflexivity);
      set (S1 := S0) in *; clearbody S1 end.
    clearbody data'. destruct data' as [p|ka m].
    + match goal with |- context [sn_send_owned ?S0 ?ow p] =>
        assert (HP : Post cfg c s (sn_send_owned S0 ow p));
          [|destruct (sn_send_owned S0 ow p) as [[s1 o] [|e]]; [exact HP|apply (post_catch _ _ _ _ _ e); exact HP]]
      end.
      apply post_sn_send_owned; [|change (stored_ok (gw_handed_out S1) p); rewrite Hho; exact Hdata'].
      apply irrel_good; [exact HI|]. apply irrel_arm. exact Hir.
    + apply post_mq_send. apply irrel_good; [exact HI|]. apply irrel_arm. exact Hir.
  - post_auto; good_tac.
  - post_auto; good_tac.
Qed.

Definition Post2 (cfg : gw_cfg) (c : bytes) (s : gw_state) (x : gw_state * list gw_out) : Prop :=
  Good cfg c s (fst x) /\ outs_ok (gw_handed_out (fst x)) (snd x).

Lemma disconnect_dg_ok h : dg_ok h (pack (Disconnect 0)).
Proof.
  intros tid m nm Hr. apply pack_ptype in Hr; [discriminate Hr|exact I|].
  vm_compute. discriminate.
Qed.

Lemma begin_end_post cfg c s S e a b :
  Good cfg c s S -> Post2 cfg c s (begin_end S e a b).
Proof.
  intros HG. unfold begin_end, Post2. cbn [fst snd]. split; [good_tac|].
  intros t dg [Hin|Hin]; [discriminate Hin|].
  destruct (gw_st S); cbn in Hin; try contradiction; destruct Hin as [Hin|[]];
    inversion Hin; apply disconnect_dg_ok.
Qed.

Lemma post2_trans cfg c s s1 o1 x :
  Good cfg c s s1 -> outs_ok (gw_handed_out s1) o1 -> Post2 cfg c s1 x ->
  Post2 cfg c s (fst x, o1 ++ snd x).
Proof.
  intros HG Ho [HG2 Ho2]. split; cbn [fst snd].
  - eapply Good_trans; eassumption.
  - apply outs_ok_app; [|exact Ho2]. eapply outs_ok_mono; [|exact Ho]. apply HG2.
Qed.

Lemma finish_r_post cfg c s r a b : Post cfg c s r -> Post2 cfg c s (finish_r r a b).
Proof.
  intros [HG Ho]. destruct r as [[s1 o] [|e]]; cbn [finish_r st_of outs_of fst snd] in *.
  - split; assumption.
  - pose proof (begin_end_post cfg c s1 s1 e a b (Good_refl _ _ _ (proj1 HG))) as HB.
    pose proof (post2_trans cfg c s s1 o _ HG Ho HB) as HT.
    destruct (begin_end s1 e a b) as [s2 o2]. exact HT.
Qed.

Lemma run_timers_post cfg c t fuel : forall s, Inv s -> Post2 cfg c s (run_timers fuel cfg s t).
Proof.
  induction fuel as [|fuel IH]; intros s HI; cbn [run_timers].
  - split; [apply Good_refl, HI|apply outs_ok_nil].
  - destruct (gw_ending s) as [te|].
    + destruct (te <=? t).
      * split; cbn [fst snd]; [good_tac|]. intros t' dg [Hin|[]]. discriminate Hin.
      * split; [apply Good_refl, HI|apply outs_ok_nil].
    + destruct (min_timer (gw_timers s)) as [tm|]; [|split; [apply Good_refl, HI|apply outs_ok_nil]].
      destruct (tm_at tm <=? t); [|split; [apply Good_refl, HI|apply outs_ok_nil]].
      match goal with |- context [fire cfg ?S0 _] => assert (HG0 : Good cfg c s S0) by good_tac; set (s0 := S0) in * end.
      pose proof (finish_r_post cfg c s0 _ false false (fire_post cfg c s0 (tm_kind tm) (proj1 HG0))) as HF.
      destruct (finish_r (fire cfg s0 (tm_kind tm)) false false) as [s1 o1].
      destruct HF as [HG1 Ho1]. cbn [fst snd] in *.
      pose proof (IH s1 (proj1 HG1)) as HR.
      pose proof (post2_trans cfg c s s1 o1 _ (Good_trans _ _ _ _ _ HG0 HG1) Ho1 HR) as HT.
      destruct (run_timers fuel cfg s1 t) as [s2 o2]. exact HT.
Qed.

Theorem gw_step_post cfg s ev :
  wf_cfg cfg -> Inv s -> Post2 cfg (gw_client_id s) s (gw_step cfg s ev).
Proof.
  intros Hwf HI. pose proof (Good_refl cfg (gw_client_id s) s HI) as HG0.
  assert (Hnil : Post2 cfg (gw_client_id s) s (s, [])) by (split; [exact HG0|apply outs_ok_nil]).
  unfold gw_step. destruct (gw_ended s); [exact Hnil|].
  destruct ev as [dg|m| | |d|].
  - destruct (gw_ending s); [exact Hnil|]. cbv zeta.
    assert (HG : Good cfg (gw_client_id s) s (s <| gw_last_sn := gw_now s |>)) by good_tac.
    destruct (read_dgram dg) as [p|e|ps]; apply finish_r_post.
    + eapply post_trans; [exact HG|]. apply (handle_sn_post cfg _ p Hwf (proj1 HG)).
    + apply post_stop. exact HG.
    + apply post_stop. exact HG.
  - destruct (gw_ending s); [exact Hnil|]. cbv zeta.
    assert (HG : Good cfg (gw_client_id s) s (s <| gw_last_mq := gw_now s |>)) by good_tac.
    apply finish_r_post. eapply post_trans; [exact HG|]. apply (handle_mq_post cfg _ m Hwf (proj1 HG)).
  - destruct (gw_ending s); [exact Hnil|]. apply finish_r_post, post_stop. good_tac.
  - destruct (gw_ending s); [exact Hnil|]. apply finish_r_post, post_stop. exact HG0.
  - cbv zeta. pose proof (run_timers_post cfg (gw_client_id s) (gw_now s + d) (advance_fuel cfg s d) s HI) as HR.
    destruct (run_timers (advance_fuel cfg s d) cfg s (gw_now s + d)) as [s1 o1]. destruct HR as [HG1 Ho1].
    cbn [fst snd] in *. destruct (gw_ended s1); split; cbn [fst snd]; try assumption.
    good_tac.
  - destruct (gw_ending s); [exact Hnil|]. apply finish_r_post, post_stop. exact HG0.
Qed.

Lemma inv_init cfg : wf_cfg cfg -> Inv (init_state cfg).
Proof.
  intros (_ & Hmin & _). constructor; cbn.
  - rewrite Hmin. lia.
  - intros i n [[]|H]. change (gw_registered (init_state cfg)) with (∅ : Nmap bytes) in H.
    rewrite lookup_empty in H. discriminate H.
  - intros i n n' [[]|H]. change (gw_registered (init_state cfg)) with (∅ : Nmap bytes) in H.
    rewrite lookup_empty in H. discriminate H.
  - intros o p [].
  - intros g t H. rewrite lookup_empty in H. discriminate H.
Qed.

Theorem reach_inv cfg s : wf_cfg cfg -> reach cfg s -> Inv s.
Proof.
  intros Hwf Hr. induction Hr as [|s ev Hr IH Hev].
  - apply inv_init, Hwf.
  - apply (gw_step_post cfg s ev Hwf IH).
Qed.

(* ================================================================== what the checker reads off the outputs *)

Lemma in_sns_obs os dg : In dg (sns (obs_of_outs os)) <-> exists t, In (OutSn t dg) os.
Proof.
  unfold sns, obs_of_outs. rewrite in_bind_iff. split.
  - intros [o [Ho Hdg]]. apply in_bind_iff in Ho. destruct Ho as [go [Hgo Ho]].
    destruct go as [t dg'|t m|t c|t]; cbn in Ho; try contradiction; destruct Ho as [<-|[]]; cbn in Hdg;
      try contradiction. destruct Hdg as [<-|[]]. exists t. exact Hgo.
  - intros [t Hin]. exists (ObSn t dg). split; [|left; reflexivity].
    apply in_bind_iff. exists (OutSn t dg). split; [exact Hin|left; reflexivity].
Qed.

Lemma in_sn_pkts os q :
  In q (sn_pkts (obs_of_outs os)) -> exists t dg, In (OutSn t dg) os /\ read_dgram dg = Ok q.
Proof.
  unfold sn_pkts. rewrite in_bind_iff. intros [dg [Hdg Hq]].
  apply in_sns_obs in Hdg. destruct Hdg as [t Hin].
  destruct (read_dgram dg) as [p|e|ps] eqn:Hr; cbn in Hq; try contradiction.
  destruct Hq as [<-|[]]. exists t, dg. split; assumption.
Qed.

Lemma sn_send_owned_out S o p t dg : In (OutSn t dg) (outs_of (sn_send_owned S o p)) -> dg = pack p.
Proof.
  unfold sn_send_owned. destruct (gw_st S); try destruct (len (pack p) <=? MaxPacketLen); cbn;
    intros H; try contradiction; destruct H as [H|[]]; inversion H; reflexivity.
Qed.

Lemma sn_send_owned_handed S o p : gw_handed_out (st_of (sn_send_owned S o p)) = gw_handed_out S.
Proof.
  unfold sn_send_owned. destruct (gw_st S); try destruct (len (pack p) <=? MaxPacketLen); reflexivity.
Qed.

Lemma finish_r_outs r a b t dg :
  In (OutSn t dg) (snd (finish_r r a b)) -> In (OutSn t dg) (outs_of r) \/ dg = pack (Disconnect 0).
Proof.
  destruct r as [[s o] [|e]]; cbn [finish_r outs_of fst snd]; [left; assumption|].
  unfold begin_end. cbn [fst snd]. intros H. apply in_app_or in H. destruct H as [H|H]; [left; exact H|].
  right. destruct H as [H|H]; [discriminate H|].
  destruct (gw_st s); cbn in H; try contradiction; destruct H as [H|[]]; inversion H; reflexivity.
Qed.

Lemma finish_r_handed r a b : gw_handed_out (fst (finish_r r a b)) = gw_handed_out (st_of r).
Proof. destruct r as [[s o] [|e]]; reflexivity. Qed.

Lemma finish_obj_registered s g : gw_registered (finish_obj s g) = gw_registered s.
Proof. pose proof (irrel_finish_obj s s g (irrel_refl s)) as (E & _). exact E. Qed.

Lemma finish_obj_handed s g : gw_handed_out (finish_obj s g) = gw_handed_out s.
Proof. pose proof (irrel_finish_obj s s g (irrel_refl s)) as (_ & _ & _ & _ & E & _). exact E. Qed.

Lemma not_regack_disconnect tid m rc : read_dgram (pack (Disconnect 0)) <> Ok (Regack tid m rc).
Proof. intros Hr. apply pack_ptype in Hr; [discriminate Hr|exact I|]. vm_compute. discriminate. Qed.

Lemma not_suback_disconnect q tid m rc : read_dgram (pack (Disconnect 0)) <> Ok (Suback q tid m rc).
Proof. intros Hr. apply pack_ptype in Hr; [discriminate Hr|exact I|]. vm_compute. discriminate. Qed.

(* the REGACKs of the step that handles the client's REGISTER *)
Lemma regack_told cfg s dg0 x mid name :
  gw_ended s = false -> gw_ending s = None -> read_dgram dg0 = Ok (Register x mid name) ->
  Inv (fst (gw_step cfg s (EvSn dg0))) ->
  forall t dg tid m rc,
    In (OutSn t dg) (snd (gw_step cfg s (EvSn dg0))) -> read_dgram dg = Ok (Regack tid m rc) -> rc = 0 ->
    In (tid, name) (gw_handed_out (fst (gw_step cfg s (EvSn dg0)))).
Proof.
  intros He Hg Hr. unfold gw_step. rewrite He, Hg, Hr. cbv zeta.
  set (s0 := s <| gw_last_sn := gw_now s |>). intros HI' t dg tid m rc Hin Hdg Hrc.
  rewrite finish_r_handed in *. apply finish_r_outs in Hin.
  destruct Hin as [Hin| ->]; [|exfalso; exact (not_regack_disconnect _ _ _ Hdg)].
  unfold handle_sn in *. destruct (negb (packet_legal cfg s0 (Register x mid name))); [destruct Hin|].
  fold (register_branch cfg s0 mid name) in *. unfold register_branch in *.
  destruct (register_topic cfg s0 name) as [s1 [i|]].
  - apply sn_send_owned_out in Hin. subst dg. rewrite read_regack in Hdg. inversion Hdg; subst.
    unfold sn_send in *. rewrite sn_send_owned_handed in *.
    assert (Hh : In (i, name) (gw_handed_out (note_handed s1 i name))).
    { cbn. apply in_or_app. right. left. reflexivity. }
    assert (Hk : rng (fst (finish_r (sn_send_owned (note_handed s1 i name) None (Regack i mid RC_ACCEPTED)) true false)) i).
    { apply (inv_rng _ HI' i name). left. rewrite finish_r_handed, sn_send_owned_handed. exact Hh. }
    destruct Hk as [Hk _]. rewrite N.mod_small by lia. exact Hh.
  - apply sn_send_owned_out in Hin. subst dg. rewrite read_regack in Hdg. inversion Hdg; subst. discriminate.
Qed.

(* the SUBACKs of the step that handles the broker's SUBACK *)
Lemma suback_told cfg s mid codes g m0 tid0 name :
  gw_ended s = false -> gw_ending s = None ->
  get_by_id s mid = Some (g, TxSubscribe m0 tid0) -> gw_registered s !! tid0 = Some name -> Inv s ->
  forall t dg q tid m rc,
    In (OutSn t dg) (snd (gw_step cfg s (EvMq (MqSuback mid codes)))) ->
    read_dgram dg = Ok (Suback q tid m rc) -> rc = 0 ->
    In (tid, name) (gw_handed_out (fst (gw_step cfg s (EvMq (MqSuback mid codes))))).
Proof.
  intros He Hg Hget Hreg HI. unfold gw_step. rewrite He, Hg. cbv zeta.
  set (s0 := s <| gw_last_mq := gw_now s |>). intros t dg q tid m rc Hin Hdg Hrc.
  rewrite finish_r_handed. apply finish_r_outs in Hin.
  destruct Hin as [Hin| ->]; [|exfalso; exact (not_suback_disconnect _ _ _ _ Hdg)].
  unfold handle_mq in *. change (get_by_id s0 mid) with (get_by_id s mid) in *. rewrite Hget in *.
  assert (Hk : tid0 < 65536).
  { assert (Hk : known s tid0 name) by (right; exact Hreg). apply (inv_rng s HI) in Hk. destruct Hk as [Hk _]. lia. }
  destruct codes as [|c [|c' codes]]; try (destruct Hin).
  cbv zeta in *. destruct (c <=? 2).
  - rewrite finish_obj_registered in *. change (gw_registered s0) with (gw_registered s) in *.
    rewrite Hreg in *. apply sn_send_owned_out in Hin. subst dg.
    rewrite read_suback in Hdg. inversion Hdg; subst.
    unfold sn_send. rewrite sn_send_owned_handed. rewrite N.mod_small by exact Hk.
    cbn. apply in_or_app. right. left. reflexivity.
  - apply sn_send_owned_out in Hin. subst dg. rewrite read_suback in Hdg. inversion Hdg; subst. discriminate.
Qed.

(* ================================================================== C04 *)

Lemma running_true s : running s = true -> gw_ended s = false /\ gw_ending s = None.
Proof.
  unfold running. intros H. apply andb_true_iff in H. destruct H as [H1 H2].
  apply negb_true_iff in H1. split; [exact H1|]. destruct (gw_ending s); [discriminate|reflexivity].
Qed.

Lemma ev_packet_some ev p : ev_packet ev = Some p -> exists dg, ev = EvSn dg /\ read_dgram dg = Ok p.
Proof.
  destruct ev as [dg|m| | |d|]; cbn; try (intros H; discriminate H).
  destruct (read_dgram dg) as [p'|e|ps] eqn:Hr; try (intros H; discriminate H). intros H. inversion H; subst.
  exists dg. split; [reflexivity|exact Hr].
Qed.

(* every pair the checker extracts from the model's outputs is on the announced list afterwards *)
Lemma handed_in_post cfg s ev :
  wf_cfg cfg -> Inv s -> running s = true ->
  forall e, In e (handed_in_step cfg s ev (obs_of_outs (snd (gw_step cfg s ev)))) ->
            In e (gw_handed_out (fst (gw_step cfg s ev))).
Proof.
  intros Hwf HI Hrun e. apply running_true in Hrun. destruct Hrun as [He Hg].
  pose proof (gw_step_post cfg s ev Hwf HI) as [[HI' Hle] Houts].
  unfold handed_in_step. intros Hin. apply in_app_or in Hin. destruct Hin as [Hin|Hin].
  { apply in_bind_iff in Hin. destruct Hin as [p [Hp Hin]].
    destruct p; cbn in Hin; try contradiction. destruct Hin as [<-|[]].
    apply in_sn_pkts in Hp. destruct Hp as (t & dg & Hout & Hr).
    eapply Houts; eassumption. }
  apply in_app_or in Hin. destruct Hin as [Hin|Hin].
  { destruct (ev_packet ev) as [p0|] eqn:Hev; [|destruct Hin].
    destruct p0; try (destruct Hin).
    apply ev_packet_some in Hev. destruct Hev as (dg0 & -> & Hr0).
    apply in_bind_iff in Hin. destruct Hin as [p [Hp Hin]].
    destruct p; cbn in Hin; try contradiction.
    match type of Hin with In _ (if ?c then _ else _) => destruct c eqn:Hc end; [|destruct Hin].
    destruct Hin as [<-|[]]. apply andb_true_iff in Hc. destruct Hc as [_ Hc]. apply N.eqb_eq in Hc.
    apply in_sn_pkts in Hp. destruct Hp as (t & dg & Hout & Hr).
    eapply regack_told; eassumption. }
  destruct ev as [dg|m| | |d|]; try (destruct Hin).
  destruct m; try (destruct Hin).
  destruct (get_by_id s mid) as [[g tx]|] eqn:Hget; [|destruct Hin].
  destruct tx as [| |m0 tid0|]; try (destruct Hin).
  destruct (gw_registered s !! tid0) as [name|] eqn:Hreg; [|destruct Hin].
  apply in_bind_iff in Hin. destruct Hin as [p [Hp Hin]].
  destruct p; cbn in Hin; try contradiction.
  match type of Hin with In _ (if ?c then _ else _) => destruct c eqn:Hc end; [|destruct Hin].
  destruct Hin as [<-|[]]. apply andb_true_iff in Hc. destruct Hc as [Hc _].
  apply andb_true_iff in Hc. destruct Hc as [_ Hc]. apply N.eqb_eq in Hc.
  apply in_sn_pkts in Hp. destruct Hp as (t & dg & Hout & Hr).
  eapply suback_told; eassumption.
Qed.

(* The extra hypothesis (clause 2): no known topic ID is a predefined topic ID of the session's
   current client ID.  It holds initially and is preserved by every step that keeps gw_client_id
   or starts with nothing known (tids_invisible_step); it can only break when a CONNECT handled in
   state Disconnected changes the client ID after topic IDs were allocated (which includes IDs
   allocated for broker PUBLISHes that arrive before the first CONNECT, under the empty client ID). *)
Definition tids_invisible (cfg : gw_cfg) (s : gw_state) : Prop :=
  forall i n, known s i n -> get_name (predefined cfg) (gw_client_id s) i = None.

(* ORIGINAL STATEMENT (false, see the counterexample at the end of the file):
   Theorem chk_C04_sound : forall cfg s ev, wf_cfg cfg -> reach cfg s -> wf_event ev ->
     chk_C04 cfg s ev (obs_of_outs (snd (gw_step cfg s ev))) = []. *)
Theorem chk_C04_sound_partial : forall cfg s ev, wf_cfg cfg -> reach cfg s -> wf_event ev ->
  tids_invisible cfg s ->
  chk_C04 cfg s ev (obs_of_outs (snd (gw_step cfg s ev))) = [].
Proof.
  intros cfg s ev Hwf Hreach _ Hvis. pose proof (reach_inv cfg s Hwf Hreach) as HI.
  unfold chk_C04. destruct (running s) eqn:Hrun; [|reflexivity]. cbn [negb].
  pose proof (handed_in_post cfg s ev Hwf HI Hrun) as Hhs.
  pose proof (gw_step_post cfg s ev Hwf HI) as [[HI' (Hinc & Hlat & Hle)] _].
  set (hs := handed_in_step cfg s ev (obs_of_outs (snd (gw_step cfg s ev)))) in *.
  set (s' := fst (gw_step cfg s ev)) in *.
  assert (Hcons : forall h e, incl h (gw_handed_out s') -> In e hs -> consistent_with h (fst e) (snd e) = true).
  { intros h e Hh He. unfold consistent_with. apply forallb_forall. intros e' He'.
    destruct (fst e' =? fst e) eqn:E; [|reflexivity]. apply N.eqb_eq in E. cbn [negb orb].
    apply beq_eq. destruct e as [i n], e' as [i' n']. cbn [fst snd] in *. subst i'.
    apply (inv_fun s' HI' i); left; [apply Hh, He'|apply Hhs, He]. }
  assert (E1 : hs ≫= (fun e =>
     (if (1 <=? fst e) && (fst e <=? 65534) then [] else [1]) ++
     (match get_name (predefined cfg) (gw_client_id s) (fst e) with None => [] | Some _ => [2] end) ++
     (if consistent_with (gw_handed_out s) (fst e) (snd e) then [] else [3])) = []).
  { apply bind_nil_all. intros [i n] He. cbn [fst snd].
    assert (Hk : known s' i n) by (left; apply Hhs, He).
    pose proof (inv_rng s' HI' i n Hk) as [Hr _].
    assert (Hb : (1 <=? i) && (i <=? 65534) = true).
    { apply andb_true_iff. split; apply N.leb_le; lia. }
    rewrite Hb.
    assert (Hn : get_name (predefined cfg) (gw_client_id s) i = None).
    { destruct (Hle i n Hk) as [Ho|[_ Hn]]; [apply (Hvis i n Ho)|exact Hn]. }
    rewrite Hn. pose proof (Hcons (gw_handed_out s) (i, n) Hinc He) as Hc. cbn [fst snd] in Hc.
    rewrite Hc. reflexivity. }
  rewrite E1. cbn [app].
  assert (E2 : forallb (fun e => consistent_with hs (fst e) (snd e)) hs = true).
  { apply forallb_forall. intros e He. apply Hcons; [|exact He]. intros x Hx. apply Hhs, Hx. }
  rewrite E2. cbn [app].
  destruct (gw_no_more_tids s) eqn:Hnm; [|reflexivity].
  assert (E3 : forallb (fun e => existsb (fun h => (fst h =? fst e) && beq (snd h) (snd e)) (gw_handed_out s) ||
                                 match gw_registered s !! fst e with Some n => beq n (snd e) | None => false end) hs = true).
  { apply forallb_forall. intros [i n] He. cbn [fst snd].
    assert (Hk : known s' i n) by (left; apply Hhs, He).
    destruct (Hle i n Hk) as [[Ho|Ho]|[Hc _]]; [| |discriminate Hc].
    - apply orb_true_iff. left. apply existsb_exists. exists (i, n). cbn [fst snd].
      split; [exact Ho|rewrite N.eqb_refl, beq_refl; reflexivity].
    - apply orb_true_iff. right. rewrite Ho. apply beq_refl. }
  rewrite E3. reflexivity.
Qed.

(* ================================================================== the client ID changes only in handle_connect *)

Definition keeps (c : bytes) (r : R) : Prop := gw_client_id (st_of r) = c.

Lemma k_ok c S o : gw_client_id S = c -> keeps c (ok S o).
Proof. intros H. exact H. Qed.
Lemma k_stop c S o e : gw_client_id S = c -> keeps c (stop S o e).
Proof. intros H. exact H. Qed.
Lemma k_mq_send c S m : gw_client_id S = c -> keeps c (mq_send S m).
Proof. intros H. exact H. Qed.
Lemma k_sn_send_owned c S o p : gw_client_id S = c -> keeps c (sn_send_owned S o p).
Proof.
  intros H. unfold sn_send_owned. destruct (gw_st S); try destruct (len (pack p) <=? MaxPacketLen); exact H.
Qed.
Lemma k_sn_send_now c S p : gw_client_id S = c -> keeps c (sn_send_now S p).
Proof. intros H. unfold sn_send_now. destruct (len (pack p) <=? MaxPacketLen); exact H. Qed.
Lemma k_andthen c r g : keeps c r -> (forall s1, gw_client_id s1 = c -> keeps c (g s1)) -> keeps c (andthen r g).
Proof.
  intros Hs Hg. destruct r as [[s1 o1] [|e]]; unfold keeps in *; cbn [andthen st_of fst] in *.
  - specialize (Hg s1 Hs). destruct (g s1) as [[s2 o2] res]. exact Hg.
  - exact Hs.
Qed.

Lemma k_send_all c ps : forall S, gw_client_id S = c -> keeps c (send_all S ps).
Proof.
  induction ps as [|[o p] ps IH]; intros S H; cbn [send_all]; [exact H|].
  apply k_andthen; [apply k_sn_send_owned; exact H|]. intros s1 H1. apply IH. exact H1.
Qed.

Lemma finish_obj_cid s g : gw_client_id (finish_obj s g) = gw_client_id s.
Proof.
  unfold finish_obj. destruct (gw_objs s !! g) as [t|]; [|reflexivity]. cbv zeta.
  destruct t; try reflexivity;
    (match goal with |- context [match ?x with Some _ => _ | None => _ end] => destruct x as [g'|] end;
     [destruct (g' =? g)|]; reflexivity).
Qed.

Lemma seq_next_cid cfg s : gw_client_id (fst (fst (seq_next cfg s))) = gw_client_id s.
Proof. unfold seq_next. destruct (gw_seq_next s =? max_tid cfg); reflexivity. Qed.

Lemma skip_predefined_cid cfg fuel : forall s id, gw_client_id (fst (skip_predefined fuel cfg s id)) = gw_client_id s.
Proof.
  induction fuel as [|fuel IH]; intros s id; cbn [skip_predefined];
    destruct (get_name (predefined cfg) (gw_client_id s) id); try reflexivity.
  pose proof (seq_next_cid cfg s) as Hs. destruct (seq_next cfg s) as [[s1 id1] ov]. cbn [fst] in Hs.
  destruct ov; [exact Hs|]. rewrite IH. exact Hs.
Qed.

Lemma new_topic_id_cid cfg s : gw_client_id (fst (new_topic_id cfg s)) = gw_client_id s.
Proof.
  unfold new_topic_id. destruct (gw_no_more_tids s); [reflexivity|].
  pose proof (seq_next_cid cfg s) as Hs. destruct (seq_next cfg s) as [[s1 id1] ov]. cbn [fst] in Hs.
  destruct ov; [exact Hs|]. rewrite skip_predefined_cid. exact Hs.
Qed.

Lemma register_topic_cid cfg s name : gw_client_id (fst (register_topic cfg s name)) = gw_client_id s.
Proof.
  unfold register_topic. destruct (find_registered s name); [reflexivity|].
  pose proof (new_topic_id_cid cfg s) as Hn. destruct (new_topic_id cfg s) as [s1 [i|]]; exact Hn.
Qed.

Ltac k_auto :=
  repeat match goal with
         | |- keeps _ (andthen _ _) => apply k_andthen; [|intros ? ?]
         | |- keeps _ (send_all _ _) => apply k_send_all
         | |- keeps _ (sn_send _ _) => apply k_sn_send_owned
         | |- keeps _ (sn_send_owned _ _ _) => apply k_sn_send_owned
         | |- keeps _ (sn_send_now _ _) => apply k_sn_send_now
         | |- keeps _ (mq_send _ _) => apply k_mq_send
         | |- keeps _ (ok _ _) => apply k_ok
         | |- keeps _ (stop _ _ _) => apply k_stop
         | |- keeps _ (match ?x with _ => _ end) => destruct x eqn:?
         | |- keeps _ (if ?x then _ else _) => destruct x eqn:?
         end.

Local Opaque finish_obj.

Ltac cid_tac :=
  repeat (cbn; rewrite ?finish_obj_cid);
  first [ assumption
        | match goal with |- gw_client_id (if ?c then _ else _) = _ => destruct c; cid_tac end
        | match goal with |- gw_client_id (match ?c with _ => _ end) = _ => destruct c; cid_tac end ].

Lemma connect_auth_done_k c s g mq : gw_client_id s = c -> keeps c (connect_auth_done s g mq).
Proof. intros H. unfold connect_auth_done. k_auto; cid_tac. Qed.

Lemma connect_auth_k c s g mq a me da : gw_client_id s = c -> keeps c (connect_auth s g mq a me da).
Proof.
  intros H. unfold connect_auth. k_auto; try cid_tac. apply connect_auth_done_k. cid_tac.
Qed.

Lemma handle_client_publish_k c cfg s dup q r tit tid mid data :
  gw_client_id s = c -> keeps c (handle_client_publish cfg s dup q r tit tid mid data).
Proof. intros H. unfold handle_client_publish, new_obj. cbv zeta. k_auto; cid_tac. Qed.

Lemma handle_unsubscribe_k c cfg s tit mid tid name :
  gw_client_id s = c -> keeps c (handle_unsubscribe cfg s tit mid tid name).
Proof. intros H. unfold handle_unsubscribe. k_auto; cid_tac. Qed.

Lemma handle_subscribe_k c cfg s dup qos tit mid tid name :
  gw_client_id s = c -> keeps c (handle_subscribe cfg s dup qos tit mid tid name).
Proof.
  intros H. unfold handle_subscribe, new_obj. cbv zeta beta.
  pose proof (register_topic_cid cfg s name) as Hn. destruct (register_topic cfg s name) as [s1 r]. cbn [fst] in Hn.
  rewrite H in Hn. k_auto; cid_tac.
Qed.

Lemma register_branch_k c cfg s mid name : gw_client_id s = c -> keeps c (register_branch cfg s mid name).
Proof.
  intros H. unfold register_branch, register_topic.
  pose proof (new_topic_id_cid cfg s) as Hn. destruct (new_topic_id cfg s) as [s1 r]. cbn [fst] in Hn.
  rewrite H in Hn. destruct (find_registered s name); [|destruct r]; k_auto; cid_tac.
Qed.

Lemma bp_proceed_k c cfg s g mid qos st data snpub :
  gw_client_id s = c -> keeps c (bp_proceed cfg s g mid qos st data snpub).
Proof. intros H. unfold bp_proceed. cbv zeta. destruct data; destruct st; k_auto; cid_tac. Qed.

Lemma bp_regack_k c cfg s g t rc : gw_client_id s = c -> keeps c (bp_regack cfg s g t rc).
Proof. intros H. unfold bp_regack. cbv zeta. k_auto; try cid_tac. apply bp_proceed_k. cid_tac. Qed.

Definition pkt_not_connect (p : packet) : Prop :=
  match p with Connect _ _ _ _ _ => False | _ => True end.

Lemma handle_sn_k c cfg s p : gw_client_id s = c -> pkt_not_connect p -> keeps c (handle_sn cfg s p).
Proof.
  intros H Hp. unfold handle_sn.
  destruct (negb (packet_legal cfg s p)); [apply k_stop; exact H|].
  destruct_pkt p; try (apply k_stop; exact H); try (exfalso; exact Hp).
  - k_auto; try cid_tac. apply connect_auth_k. exact H.
  - k_auto; cid_tac.
  - k_auto; cid_tac.
  - apply (register_branch_k c cfg s mid name H).
  - k_auto; try cid_tac. apply bp_regack_k. exact H.
  - apply handle_client_publish_k. exact H.
  - k_auto; try cid_tac; apply bp_proceed_k; exact H.
  - k_auto; try cid_tac; apply bp_proceed_k; exact H.
  - k_auto; try cid_tac; apply bp_proceed_k; exact H.
  - k_auto; cid_tac.
  - apply handle_subscribe_k. exact H.
  - apply handle_unsubscribe_k. exact H.
  - cbv zeta. k_auto; cid_tac.
  - cbv zeta. k_auto; cid_tac.
Qed.

Lemma handle_broker_publish_k c cfg s dup qos retain topic mid0 payload :
  gw_client_id s = c -> keeps c (handle_broker_publish cfg s dup qos retain topic mid0 payload).
Proof.
  intros H. unfold handle_broker_publish, new_obj.
  pose proof (new_topic_id_cid cfg s) as Hn. destruct (new_topic_id cfg s) as [s1 r]. cbn [fst] in Hn.
  rewrite H in Hn.
  destruct (if is_short_topic topic then _ else _) as [[tid tit]|]; cbv beta iota zeta;
    k_auto; try cid_tac; apply bp_proceed_k; cid_tac.
Qed.

Lemma handle_mq_k c cfg s m : gw_client_id s = c -> keeps c (handle_mq cfg s m).
Proof.
  intros H. unfold handle_mq. destruct m; try (apply k_stop; exact H).
  - k_auto; cid_tac.
  - apply handle_broker_publish_k. exact H.
  - k_auto; cid_tac.
  - k_auto; cid_tac.
  - k_auto; try cid_tac. apply bp_proceed_k. exact H.
  - k_auto; cid_tac.
  - cbv zeta. k_auto; cid_tac.
  - k_auto; cid_tac.
  - k_auto; cid_tac.
Qed.

Lemma fire_k c cfg s k : gw_client_id s = c -> keeps c (fire cfg s k).
Proof.
  intros H. unfold fire. destruct k as [g|g|g|p|p]; try (k_auto; cid_tac).
  destruct (gw_objs s !! g) as [t|]; [|apply k_ok; exact H].
  destruct t as [| | |mid qos st data snpub n]; try (apply k_ok; exact H).
  destruct (retry_count cfg <? n + 1); [apply k_ok; cid_tac|]. cbv zeta.
  destruct data as [p|ka m].
  - match goal with |- context [sn_send_owned ?S0 ?ow ?p0] =>
      assert (HQ : keeps c (sn_send_owned S0 ow p0)) by (apply k_sn_send_owned; cid_tac);
      destruct (sn_send_owned S0 ow p0) as [[s1 o] [|e]]; [exact HQ|]
    end.
    unfold keeps in *. cbn [ok st_of fst] in *. rewrite finish_obj_cid. exact HQ.
  - apply k_mq_send. cid_tac.
Qed.

Local Transparent finish_obj.

Lemma finish_r_k c r a b : keeps c r -> gw_client_id (fst (finish_r r a b)) = c.
Proof. intros H. destruct r as [[s1 o] [|e]]; exact H. Qed.

Lemma run_timers_k c cfg t fuel : forall s, gw_client_id s = c -> gw_client_id (fst (run_timers fuel cfg s t)) = c.
Proof.
  induction fuel as [|fuel IH]; intros s H; cbn [run_timers]; [exact H|].
  destruct (gw_ending s) as [te|].
  - destruct (te <=? t); exact H.
  - destruct (min_timer (gw_timers s)) as [tm|]; [|exact H].
    destruct (tm_at tm <=? t); [|exact H].
    match goal with |- context [fire cfg ?S0 _] =>
      pose proof (finish_r_k c _ false false (fire_k c cfg S0 (tm_kind tm) H)) as HF;
      destruct (finish_r (fire cfg S0 (tm_kind tm)) false false) as [s1 o1]
    end.
    cbn [fst] in HF. pose proof (IH s1 HF) as HR. destruct (run_timers fuel cfg s1 t) as [s2 o2]. exact HR.
Qed.

Definition not_connect (ev : gw_event) : Prop :=
  match ev_packet ev with Some p => pkt_not_connect p | None => True end.

(* every step that does not handle a (decodable) CONNECT keeps the client ID *)
Lemma gw_step_cid cfg s ev : not_connect ev -> gw_client_id (fst (gw_step cfg s ev)) = gw_client_id s.
Proof.
  intros Hp. unfold gw_step. destruct (gw_ended s); [reflexivity|].
  destruct ev as [dg0|m| | |d|].
  - destruct (gw_ending s); [reflexivity|]. cbv zeta. unfold not_connect in Hp. cbn [ev_packet] in Hp.
    destruct (read_dgram dg0) as [p|e|ps]; apply finish_r_k.
    + apply handle_sn_k; [reflexivity|exact Hp].
    + apply k_stop. reflexivity.
    + apply k_stop. reflexivity.
  - destruct (gw_ending s); [reflexivity|]. cbv zeta. apply finish_r_k. apply handle_mq_k. reflexivity.
  - destruct (gw_ending s); [reflexivity|]. apply finish_r_k, k_stop. reflexivity.
  - destruct (gw_ending s); [reflexivity|]. apply finish_r_k, k_stop. reflexivity.
  - cbv zeta. pose proof (run_timers_k (gw_client_id s) cfg (gw_now s + d) (advance_fuel cfg s d) s eq_refl) as HR.
    destruct (run_timers (advance_fuel cfg s d) cfg s (gw_now s + d)) as [s1 o1]. cbn [fst] in *.
    destruct (gw_ended s1); exact HR.
  - destruct (gw_ending s); [reflexivity|]. apply finish_r_k, k_stop. reflexivity.
Qed.

(* the step that handles a CONNECT allocates nothing: its post-condition holds relative to any
   client ID, in particular the one the CONNECT sets *)
Lemma gw_step_connect_post cfg c s dg w cl pr d cid :
  read_dgram dg = Ok (Connect w cl pr d cid) -> Inv s -> Post2 cfg c s (gw_step cfg s (EvSn dg)).
Proof.
  intros Hr HI. pose proof (Good_refl cfg c s HI) as HG0.
  assert (Hnil : Post2 cfg c s (s, [])) by (split; [exact HG0|apply outs_ok_nil]).
  unfold gw_step. destruct (gw_ended s); [exact Hnil|]. destruct (gw_ending s); [exact Hnil|]. cbv zeta.
  assert (HG : Good cfg c s (s <| gw_last_sn := gw_now s |>)) by good_tac.
  rewrite Hr. apply finish_r_post. unfold handle_sn.
  destruct (negb (packet_legal cfg (s <| gw_last_sn := gw_now s |>) (Connect w cl pr d cid)));
    [apply post_stop; exact HG|].
  apply handle_connect_post. exact HG.
Qed.

(* ------------------------------------------------------------------ preservation of tids_invisible *)

(* the step keeps the client ID, or starts with nothing known (no topic ID allocated yet) *)
Definition cid_stable (cfg : gw_cfg) (s : gw_state) (ev : gw_event) : Prop :=
  gw_client_id (fst (gw_step cfg s ev)) = gw_client_id s \/ (forall i n, ~ known s i n).

Lemma tids_invisible_init cfg : tids_invisible cfg (init_state cfg).
Proof.
  intros i n [[]|H]. change (gw_registered (init_state cfg)) with (∅ : Nmap bytes) in H.
  rewrite lookup_empty in H. discriminate H.
Qed.

Lemma tids_invisible_step cfg s ev :
  wf_cfg cfg -> reach cfg s -> wf_event ev -> tids_invisible cfg s -> cid_stable cfg s ev ->
  tids_invisible cfg (fst (gw_step cfg s ev)).
Proof.
  intros Hwf Hreach _ Hvis Hst. pose proof (reach_inv cfg s Hwf Hreach) as HI.
  assert (Hsame : gw_client_id (fst (gw_step cfg s ev)) = gw_client_id s ->
                  tids_invisible cfg (fst (gw_step cfg s ev))).
  { intros Hc i n Hk. pose proof (gw_step_post cfg s ev Hwf HI) as [[_ (_ & _ & Hle)] _]. rewrite Hc.
    destruct (Hle i n Hk) as [Ho|[_ Hn]]; [apply (Hvis i n Ho)|exact Hn]. }
  destruct Hst as [Hc|Hnone]; [exact (Hsame Hc)|].
  destruct (ev_packet ev) as [p|] eqn:Hev.
  2: { apply Hsame, gw_step_cid. unfold not_connect. rewrite Hev. exact I. }
  destruct p; try (apply Hsame, gw_step_cid; unfold not_connect; rewrite Hev; exact I).
  apply ev_packet_some in Hev. destruct Hev as (dg & -> & Hr).
  intros i n Hk.
  pose proof (gw_step_connect_post cfg (gw_client_id (fst (gw_step cfg s (EvSn dg)))) s dg _ _ _ _ _ Hr HI)
    as [[_ (_ & _ & Hle)] _].
  destruct (Hle i n Hk) as [Ho|[_ Hn]]; [exfalso; exact (Hnone i n Ho)|exact Hn].
Qed.

(* ================================================================== C11: nothing is written to a sleeping client *)

Definition quiet (r : R) : Prop :=
  gw_st (st_of r) = Asleep /\ forall t dg, ~ In (OutSn t dg) (outs_of r).

Lemma q_ok S : gw_st S = Asleep -> quiet (ok S []).
Proof. intros H. split; [exact H|intros t dg []]. Qed.
Lemma q_stop S e : gw_st S = Asleep -> quiet (stop S [] e).
Proof. intros H. split; [exact H|intros t dg []]. Qed.
Lemma q_mq_send S m : gw_st S = Asleep -> quiet (mq_send S m).
Proof. intros H. split; [exact H|intros t dg [E|[]]; discriminate E]. Qed.
Lemma q_sn_send_owned S o p : gw_st S = Asleep -> quiet (sn_send_owned S o p).
Proof. intros H. unfold sn_send_owned. rewrite H. split; [exact H|intros t dg []]. Qed.
Lemma q_andthen r g : quiet r -> (forall s1, gw_st s1 = Asleep -> quiet (g s1)) -> quiet (andthen r g).
Proof.
  intros [Hs Ho] Hg. destruct r as [[s1 o1] [|e]]; cbn [andthen st_of outs_of fst snd] in *.
  - specialize (Hg s1 Hs). destruct (g s1) as [[s2 o2] res]. destruct Hg as [Hs2 Ho2].
    cbn [st_of outs_of fst snd] in *. split; [exact Hs2|].
    intros t dg Hin. apply in_app_or in Hin. destruct Hin as [Hin|Hin]; [eapply Ho|eapply Ho2]; eassumption.
  - split; assumption.
Qed.

Lemma finish_obj_st s g : gw_st (finish_obj s g) = gw_st s.
Proof.
  unfold finish_obj. destruct (gw_objs s !! g) as [t|]; [|reflexivity]. cbv zeta.
  destruct t; try reflexivity;
    (match goal with |- context [match ?x with Some _ => _ | None => _ end] => destruct x as [g'|] end;
     [destruct (g' =? g)|]; reflexivity).
Qed.

Lemma seq_next_st cfg s : gw_st (fst (fst (seq_next cfg s))) = gw_st s.
Proof. unfold seq_next. destruct (gw_seq_next s =? max_tid cfg); reflexivity. Qed.

Lemma skip_predefined_st cfg fuel : forall s id, gw_st (fst (skip_predefined fuel cfg s id)) = gw_st s.
Proof.
  induction fuel as [|fuel IH]; intros s id; cbn [skip_predefined];
    destruct (get_name (predefined cfg) (gw_client_id s) id); try reflexivity.
  pose proof (seq_next_st cfg s) as Hs. destruct (seq_next cfg s) as [[s1 id1] ov]. cbn [fst] in Hs.
  destruct ov; [exact Hs|]. rewrite IH. exact Hs.
Qed.

Lemma new_topic_id_st cfg s : gw_st (fst (new_topic_id cfg s)) = gw_st s.
Proof.
  unfold new_topic_id. destruct (gw_no_more_tids s); [reflexivity|].
  pose proof (seq_next_st cfg s) as Hs. destruct (seq_next cfg s) as [[s1 id1] ov]. cbn [fst] in Hs.
  destruct ov; [exact Hs|]. rewrite skip_predefined_st. exact Hs.
Qed.

Lemma register_topic_st cfg s name : gw_st (fst (register_topic cfg s name)) = gw_st s.
Proof.
  unfold register_topic. destruct (find_registered s name); [reflexivity|].
  pose proof (new_topic_id_st cfg s) as Hn. destruct (new_topic_id cfg s) as [s1 [i|]]; exact Hn.
Qed.

Ltac q_auto :=
  repeat match goal with
         | |- quiet (andthen _ _) => apply q_andthen; [|intros ? ?]
         | |- quiet (sn_send _ _) => apply q_sn_send_owned
         | |- quiet (sn_send_owned _ _ _) => apply q_sn_send_owned
         | |- quiet (mq_send _ _) => apply q_mq_send
         | |- quiet (ok _ _) => apply q_ok
         | |- quiet (stop _ _ _) => apply q_stop
         | |- quiet (match ?x with _ => _ end) => destruct x eqn:?
         | |- quiet (if ?x then _ else _) => destruct x eqn:?
         end.

Local Opaque finish_obj.

Ltac st_tac :=
  repeat (cbn; rewrite ?finish_obj_st);
  first [ assumption
        | match goal with |- gw_st (if ?c then _ else _) = _ => destruct c; st_tac end
        | match goal with |- gw_st (match ?c with _ => _ end) = _ => destruct c; st_tac end ].

Lemma connect_auth_done_q s g mq : gw_st s = Asleep -> quiet (connect_auth_done s g mq).
Proof. intros H. unfold connect_auth_done. q_auto; st_tac. Qed.

Lemma connect_auth_q s g mq a me da : gw_st s = Asleep -> quiet (connect_auth s g mq a me da).
Proof.
  intros H. unfold connect_auth. q_auto; try st_tac. apply connect_auth_done_q. st_tac.
Qed.

Lemma handle_client_publish_q cfg s dup q r tit tid mid data :
  gw_st s = Asleep -> quiet (handle_client_publish cfg s dup q r tit tid mid data).
Proof. intros H. unfold handle_client_publish, new_obj. cbv zeta. q_auto; st_tac. Qed.

Lemma handle_unsubscribe_q cfg s tit mid tid name :
  gw_st s = Asleep -> quiet (handle_unsubscribe cfg s tit mid tid name).
Proof. intros H. unfold handle_unsubscribe. q_auto; st_tac. Qed.

Lemma handle_subscribe_q cfg s dup qos tit mid tid name :
  gw_st s = Asleep -> quiet (handle_subscribe cfg s dup qos tit mid tid name).
Proof.
  intros H. unfold handle_subscribe, new_obj. cbv zeta beta.
  pose proof (register_topic_st cfg s name) as Hn. destruct (register_topic cfg s name) as [s1 r]. cbn [fst] in Hn.
  rewrite H in Hn. q_auto; st_tac.
Qed.

Lemma register_branch_q cfg s mid name : gw_st s = Asleep -> quiet (register_branch cfg s mid name).
Proof.
  intros H. unfold register_branch, register_topic.
  pose proof (new_topic_id_st cfg s) as Hn. destruct (new_topic_id cfg s) as [s1 r]. cbn [fst] in Hn.
  rewrite H in Hn. destruct (find_registered s name); [|destruct r]; q_auto; st_tac.
Qed.

Lemma bp_proceed_q cfg s g mid qos st data snpub :
  gw_st s = Asleep -> quiet (bp_proceed cfg s g mid qos st data snpub).
Proof. intros H. unfold bp_proceed. cbv zeta. destruct data; destruct st; q_auto; st_tac. Qed.

Lemma bp_regack_q cfg s g t rc : gw_st s = Asleep -> quiet (bp_regack cfg s g t rc).
Proof. intros H. unfold bp_regack. cbv zeta. q_auto; try st_tac. apply bp_proceed_q. st_tac. Qed.

Definition wakes (p : packet) : Prop :=
  match p with Pingreq _ | Connect _ _ _ _ _ | Disconnect _ => True | _ => False end.

Lemma handle_sn_q cfg s p : gw_st s = Asleep -> ~ wakes p -> quiet (handle_sn cfg s p).
Proof.
  intros H Hp. unfold handle_sn.
  destruct (negb (packet_legal cfg s p)); [apply q_stop; exact H|].
  destruct_pkt p; try (apply q_stop; exact H); try (exfalso; apply Hp; exact I).
  - q_auto; try st_tac. apply connect_auth_q. exact H.
  - q_auto; st_tac.
  - q_auto; st_tac.
  - apply (register_branch_q cfg s mid name H).
  - q_auto; try st_tac. apply bp_regack_q. exact H.
  - apply handle_client_publish_q. exact H.
  - q_auto; try st_tac; apply bp_proceed_q; exact H.
  - q_auto; try st_tac; apply bp_proceed_q; exact H.
  - q_auto; try st_tac; apply bp_proceed_q; exact H.
  - q_auto; st_tac.
  - apply handle_subscribe_q. exact H.
  - apply handle_unsubscribe_q. exact H.
Qed.

Lemma handle_broker_publish_q cfg s dup qos retain topic mid0 payload :
  gw_st s = Asleep -> quiet (handle_broker_publish cfg s dup qos retain topic mid0 payload).
Proof.
  intros H. unfold handle_broker_publish, new_obj.
  pose proof (new_topic_id_st cfg s) as Hn. destruct (new_topic_id cfg s) as [s1 r]. cbn [fst] in Hn.
  rewrite H in Hn.
  destruct (if is_short_topic topic then _ else _) as [[tid tit]|]; cbv beta iota zeta;
    q_auto; try st_tac; apply bp_proceed_q; st_tac.
Qed.

(* Extra hypothesis of clause 1: the step is not the one in which the broker accepts a CONNECT that
   is still pending.  (A client that re-CONNECTs while Active and then goes to sleep before the
   broker's CONNACK arrives gets the CONNACK written while the state is Asleep.) *)
Definition connack_not_due (s : gw_state) (ev : gw_event) : Prop :=
  match ev with
  | EvMq (MqConnack _ rc) =>
    match get_connect s with Some (_, _, CxConnack) => rc <> 0 | _ => True end
  | _ => True
  end.

Lemma handle_mq_q cfg s m :
  gw_st s = Asleep -> connack_not_due s (EvMq m) -> quiet (handle_mq cfg s m).
Proof.
  intros H Hc. unfold handle_mq. destruct m; try (apply q_stop; exact H).
  - cbn [connack_not_due] in Hc. destruct (get_connect s) as [[[g mq] a]|]; [|apply q_ok; exact H].
    destruct a; cbn [cx_state_eqb negb]; try (apply q_ok; exact H).
    destruct (rc =? 0) eqn:E; [apply N.eqb_eq in E; contradiction|]. cbn [negb]. q_auto; st_tac.
  - apply handle_broker_publish_q. exact H.
  - q_auto; st_tac.
  - q_auto; st_tac.
  - q_auto; try st_tac. apply bp_proceed_q. exact H.
  - q_auto; st_tac.
  - cbv zeta. q_auto; st_tac.
  - q_auto; st_tac.
  - rewrite H. cbn [cstate_eqb]. apply q_ok. exact H.
Qed.

Lemma fire_q cfg s k : gw_st s = Asleep -> quiet (fire cfg s k).
Proof.
  intros H. unfold fire. destruct k as [g|g|g|p|p]; try (q_auto; st_tac).
  destruct (gw_objs s !! g) as [t|]; [|apply q_ok; exact H].
  destruct t as [| | |mid qos st data snpub n]; try (apply q_ok; exact H).
  destruct (retry_count cfg <? n + 1); [apply q_ok; st_tac|]. cbv zeta.
  destruct data as [p|ka m].
  - match goal with |- context [sn_send_owned ?S0 ?ow ?p0] =>
      assert (HQ : quiet (sn_send_owned S0 ow p0)) by (apply q_sn_send_owned; st_tac);
      destruct (sn_send_owned S0 ow p0) as [[s1 o] [|e]]; [exact HQ|]
    end.
    destruct HQ as [Hs Ho]. cbn [st_of outs_of fst snd] in *. split; [|exact Ho].
    cbn [ok st_of fst]. rewrite finish_obj_st. exact Hs.
  - apply q_mq_send. st_tac.
Qed.

Definition quiet2 (x : gw_state * list gw_out) : Prop :=
  gw_st (fst x) = Asleep /\ forall t dg, ~ In (OutSn t dg) (snd x).

Lemma finish_r_q r a b : quiet r -> quiet2 (finish_r r a b).
Proof.
  intros [Hs Ho]. destruct r as [[s1 o] [|e]]; cbn [finish_r st_of outs_of fst snd] in *.
  - split; assumption.
  - unfold begin_end. rewrite Hs. cbn [fst snd]. split; [exact Hs|].
    intros t dg Hin. apply in_app_or in Hin. destruct Hin as [Hin|[Hin|[]]]; [eapply Ho; exact Hin|discriminate Hin].
Qed.

Lemma run_timers_q cfg t fuel : forall s, gw_st s = Asleep -> quiet2 (run_timers fuel cfg s t).
Proof.
  induction fuel as [|fuel IH]; intros s H; cbn [run_timers].
  - split; [exact H|intros t' dg []].
  - destruct (gw_ending s) as [te|].
    + destruct (te <=? t); (split; [exact H|]); intros t' dg Hin; [|destruct Hin].
      destruct Hin as [Hin|[]]. discriminate Hin.
    + destruct (min_timer (gw_timers s)) as [tm|]; [|split; [exact H|intros t' dg []]].
      destruct (tm_at tm <=? t); [|split; [exact H|intros t' dg []]].
      match goal with |- context [fire cfg ?S0 _] =>
        pose proof (finish_r_q _ false false (fire_q cfg S0 (tm_kind tm) H)) as HF;
        destruct (finish_r (fire cfg S0 (tm_kind tm)) false false) as [s1 o1]
      end.
      destruct HF as [Hs1 Ho1]. cbn [fst snd] in *.
      pose proof (IH s1 Hs1) as HR. destruct (run_timers fuel cfg s1 t) as [s2 o2].
      destruct HR as [Hs2 Ho2]. cbn [fst snd] in *. split; [exact Hs2|].
      intros t' dg Hin. apply in_app_or in Hin. destruct Hin as [Hin|Hin]; [eapply Ho1|eapply Ho2]; eassumption.
Qed.

Lemma gw_step_q cfg s ev :
  gw_st s = Asleep -> connack_not_due s ev ->
  match ev_packet ev with Some p => ~ wakes p | None => True end ->
  forall t dg, ~ In (OutSn t dg) (snd (gw_step cfg s ev)).
Proof.
  intros H Hc Hp. unfold gw_step. destruct (gw_ended s); [intros t dg []|].
  destruct ev as [dg0|m| | |d|].
  - destruct (gw_ending s); [intros t dg []|]. cbv zeta. cbn [ev_packet] in Hp.
    destruct (read_dgram dg0) as [p|e|ps]; apply finish_r_q.
    + apply handle_sn_q; [exact H|exact Hp].
    + apply q_stop. exact H.
    + apply q_stop. exact H.
  - destruct (gw_ending s); [intros t dg []|]. cbv zeta. apply finish_r_q.
    apply handle_mq_q; [exact H|exact Hc].
  - destruct (gw_ending s); [intros t dg []|]. apply finish_r_q, q_stop. exact H.
  - destruct (gw_ending s); [intros t dg []|]. apply finish_r_q, q_stop. exact H.
  - cbv zeta. pose proof (run_timers_q cfg (gw_now s + d) (advance_fuel cfg s d) s H) as [_ HR].
    destruct (run_timers (advance_fuel cfg s d) cfg s (gw_now s + d)) as [s1 o1]. exact HR.
  - destruct (gw_ending s); [intros t dg []|]. apply finish_r_q, q_stop. exact H.
Qed.

Local Transparent finish_obj.

(* the flush of the sleep buffer in state Awake writes what flush_expected says, up to the last
   datagram: PINGRESP follows if every buffered packet passed the size check of snSend; otherwise
   the flush stops in front of the first oversized packet with "packet too long", and the DISCONNECT
   of the terminating session (begin_end, state Awake) follows *)
Lemma send_all_flush ps : forall S,
  gw_st S = Awake ->
  exists l res, send_all S ps = (S, map (OutSn (gw_now S)) l, res) /\
    flush_expected ps = l ++ [match res with HOk => pack Pingresp | HEnd _ => pack (Disconnect 0) end].
Proof.
  induction ps as [|[o p] ps IH]; intros S Hst; cbn [send_all flush_expected].
  - exists [], HOk. split; reflexivity.
  - unfold sn_send, sn_send_owned. rewrite Hst.
    destruct (len (pack p) <=? MaxPacketLen).
    + destruct (IH S Hst) as (l & res & E1 & E2). exists (pack p :: l), res.
      cbn [andthen ok]. rewrite E1, E2. split; reflexivity.
    + exists [], (HEnd EcHandlerError). split; reflexivity.
Qed.

Lemma sns_outsn (t : N) (l : list bytes) (rest : list gw_out) :
  sns (obs_of_outs (map (OutSn t) l ++ rest)) = l ++ sns (obs_of_outs rest).
Proof. induction l as [|x l IH]; [reflexivity|]. cbn. f_equal. exact IH. Qed.

Lemma no_outsn_sns os : (forall t dg, ~ In (OutSn t dg) os) -> sns (obs_of_outs os) = [].
Proof.
  intros H. destruct (sns (obs_of_outs os)) as [|dg l] eqn:E; [reflexivity|].
  assert (Hin : In dg (sns (obs_of_outs os))) by (rewrite E; left; reflexivity).
  apply in_sns_obs in Hin. destruct Hin as [t Hin]. exfalso. exact (H t dg Hin).
Qed.

(* ORIGINAL STATEMENT (false, see the counterexample at the end of the file):
   Theorem chk_C11_sound : forall cfg s ev, wf_cfg cfg -> reach cfg s -> wf_event ev ->
     chk_C11 cfg s ev (obs_of_outs (snd (gw_step cfg s ev))) = [].
   The partial version needs neither reachability nor well-formedness. *)
Theorem chk_C11_sound_partial : forall cfg s ev, wf_cfg cfg -> reach cfg s -> wf_event ev ->
  connack_not_due s ev ->
  chk_C11 cfg s ev (obs_of_outs (snd (gw_step cfg s ev))) = [].
Proof.
  intros cfg s ev _ _ _ Hc. unfold chk_C11.
  destruct (running s) eqn:Hrun; [|reflexivity].
  destruct (cstate_eqb (gw_st s) Asleep) eqn:Hst; [|reflexivity]. cbn [negb orb].
  assert (Hs : gw_st s = Asleep) by (destruct (gw_st s); try discriminate Hst; reflexivity).
  apply running_true in Hrun. destruct Hrun as [He Hg].
  assert (Hq : match ev_packet ev with Some p => ~ wakes p | None => True end ->
               (if len (sns (obs_of_outs (snd (gw_step cfg s ev)))) =? 0 then [] else [1]) = @nil N).
  { intros Hp. rewrite (no_outsn_sns _ (gw_step_q cfg s ev Hs Hc Hp)). reflexivity. }
  destruct (ev_packet ev) as [p|] eqn:Hev; [|apply Hq; exact I].
  destruct p; try (apply Hq; intros []); try reflexivity.
  (* Pingreq *)
  apply ev_packet_some in Hev. destruct Hev as (dg0 & -> & Hr0).
  unfold gw_step. rewrite He, Hg, Hr0. cbv zeta.
  unfold handle_sn, packet_legal. cbn [gw_st set]. rewrite Hs. cbn [negb cstate_eqb].
  change (gw_buffer (s <| gw_last_sn := gw_now s |>)) with (gw_buffer s).
  assert (Haw : gw_st (s <| gw_last_sn := gw_now s |> <| gw_st := Awake |>) = Awake) by reflexivity.
  destruct (send_all_flush (gw_buffer s) _ Haw) as (l & res & E1 & E2). clear Haw.
  rewrite E1, E2. destruct res as [|e]; cbn [andthen].
  - unfold sn_send, sn_send_owned. cbn [gw_st set].
    change (len (pack Pingresp) <=? MaxPacketLen) with true. cbn [ok andthen finish_r snd].
    rewrite sns_outsn. cbn [app]. rewrite beql_refl. reflexivity.
  - cbn [finish_r]. unfold begin_end. cbn [gw_st set snd].
    rewrite sns_outsn. rewrite beql_refl. reflexivity.
Qed.

(* ================================================================== every history *)

(* C04 along every well-formed history whose steps keep the client ID once a topic ID is known *)
Theorem chk_C04_all_histories : forall cfg evs, wf_cfg cfg -> Forall wf_event evs ->
  run_all cfg (cid_stable cfg) (init_state cfg) evs ->
  run_all cfg (fun s ev => chk_C04 cfg s ev (obs_of_outs (snd (gw_step cfg s ev))) = []) (init_state cfg) evs.
Proof.
  intros cfg evs Hwf Hevs Hrun.
  apply (run_all_lift_inv cfg (tids_invisible cfg) (cid_stable cfg)); try assumption.
  - intros s ev Hr Hev Hi Hst. apply tids_invisible_step; assumption.
  - intros s ev Hr Hev Hi _. apply chk_C04_sound_partial; assumption.
  - apply reach_init.
  - apply tids_invisible_init.
Qed.

(* C11 along every well-formed history in which no accepting CONNACK of the broker is relayed for a
   connect exchange that is still pending *)
Theorem chk_C11_all_histories : forall cfg evs, wf_cfg cfg -> Forall wf_event evs ->
  run_all cfg connack_not_due (init_state cfg) evs ->
  run_all cfg (fun s ev => chk_C11 cfg s ev (obs_of_outs (snd (gw_step cfg s ev))) = []) (init_state cfg) evs.
Proof.
  intros cfg evs Hwf Hevs Hrun.
  apply (run_all_lift cfg connack_not_due); try assumption.
  - intros s ev Hr Hev Hc. apply chk_C11_sound_partial; assumption.
  - apply reach_init.
Qed.

(* ================================================================== the remaining hypotheses are necessary *)

(* one predefined topic (ID 1, "t12") of the client "c" *)
Definition cx_cfg : gw_cfg :=
  {| auth_enabled := false; cfg_user := None; cfg_pass := None; retry_delay := 1000; retry_count := 3;
     predefined := [([99], <[1 := [116; 49; 50]]> (∅ : Nmap bytes))]; min_tid := 1; max_tid := 65534 |}.

Lemma cx_cfg_wf : wf_cfg cx_cfg.
Proof.
  unfold wf_cfg. cbn. repeat split; try lia.
  constructor; [|constructor]. cbn. split; [apply wf_bytesb_spec; reflexivity|].
  intros i n H. apply lookup_insert_Some in H. destruct H as [[<- <-]|[_ H]].
  - split; [lia|apply wf_bytesb_spec; reflexivity].
  - rewrite lookup_empty in H. discriminate H.
Qed.

Definition cx_connect : bytes := pack (Connect false true 1 10 [99]).

Lemma cx_dgram_wf p : wf_bytesb (pack p) = true -> (len (pack p) <=? 100) = true -> wf_event (EvSn (pack p)).
Proof.
  intros H1 H2. split; [apply wf_bytesb_spec; exact H1|].
  apply N.leb_le in H2. unfold len in H2. unfold MaxPacketLen. lia.
Qed.

(* tids_invisible is necessary for C04: a broker PUBLISH that arrives before the first CONNECT gets
   topic ID 1 (allocated under the empty client ID) and is announced in a REGISTER; the CONNECT of
   client "c" then makes 1 a predefined topic ID of the session's client; the retry of the REGISTER
   one second later announces (1, "abc") again, which clause 2 rejects. *)
Definition cx04_hist : list gw_event :=
  [EvMq (MqPublish false 0 false [97; 98; 99] 0 []); EvSn cx_connect].
Definition cx04_ev : gw_event := EvAdvance 1000.

Lemma cx_connect_wf : wf_event (EvSn cx_connect).
Proof. apply (cx_dgram_wf (Connect false true 1 10 [99])); vm_compute; reflexivity. Qed.

Lemma cx04_wf : Forall wf_event (cx04_hist ++ [cx04_ev]).
Proof.
  unfold cx04_hist, cx04_ev. cbn [app].
  constructor; [|constructor; [exact cx_connect_wf|constructor; [exact I|constructor]]].
  cbn [wf_event wf_mq].
  split; [reflexivity|]. split; [apply wf_bytesb_spec; reflexivity|]. split; [reflexivity|].
  split; [reflexivity|constructor].
Qed.

Example chk_C04_needs_tids_invisible :
  let s := snd (gw_run cx_cfg (init_state cx_cfg) cx04_hist) in
  chk_C04 cx_cfg s cx04_ev (obs_of_outs (snd (gw_step cx_cfg s cx04_ev))) = [2].
Proof. vm_compute. reflexivity. Qed.

(* ... and indeed the CONNECT step of that history is not cid_stable *)
Example cx04_not_cid_stable :
  let s := snd (gw_run cx_cfg (init_state cx_cfg) [EvMq (MqPublish false 0 false [97; 98; 99] 0 [])]) in
  ~ cid_stable cx_cfg s (EvSn cx_connect).
Proof.
  intros s [H|H].
  - vm_compute in H. discriminate H.
  - apply (H 1 [97; 98; 99]). left. vm_compute. left. reflexivity.
Qed.

(* connack_not_due is necessary for C11: the client re-CONNECTs while Active and goes to sleep before
   the broker's CONNACK arrives; the CONNACK is then relayed (written to the client) in state Asleep. *)
Definition cx11_hist : list gw_event :=
  [EvSn cx_connect; EvMq (MqConnack false 0); EvSn cx_connect; EvSn (pack (Disconnect 5))].
Definition cx11_ev : gw_event := EvMq (MqConnack false 0).

Lemma cx11_wf : Forall wf_event (cx11_hist ++ [cx11_ev]).
Proof.
  unfold cx11_hist, cx11_ev. cbn [app].
  assert (Hk : wf_event (EvMq (MqConnack false 0))) by reflexivity.
  assert (Hd : wf_event (EvSn (pack (Disconnect 5)))).
  { apply (cx_dgram_wf (Disconnect 5)); vm_compute; reflexivity. }
  repeat (apply Forall_cons; [first [exact cx_connect_wf|exact Hk|exact Hd]|]). apply Forall_nil.
Qed.

Example chk_C11_needs_connack_not_due :
  let s := snd (gw_run cx_cfg (init_state cx_cfg) cx11_hist) in
  gw_st s = Asleep /\
  chk_C11 cx_cfg s cx11_ev (obs_of_outs (snd (gw_step cx_cfg s cx11_ev))) = [1].
Proof. vm_compute. split; reflexivity. Qed.

Print Assumptions chk_C04_sound_partial.
Print Assumptions chk_C11_sound_partial.
Print Assumptions chk_C04_all_histories.
Print Assumptions chk_C11_all_histories.
