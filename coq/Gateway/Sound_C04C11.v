(* Gateway/Sound_C04C11.v — the gateway model's own outputs are accepted by chk_C04 and chk_C11.

   Both statements are FALSE as given for reachable states (counterexamples at the end of the
   file, checked with vm_compute); the theorems proved are chk_C04_sound_partial and
   chk_C11_sound_partial, with the extra hypotheses documented there. *)
From Coq Require Import List NArith Bool Lia ZArith ZifyN ZifyNat ZifyBool.
From stdpp Require Import base option list numbers fin_maps nmap.
From RecordUpdate Require Import RecordSet.
From Verif.Base Require Import Bytes BytesProofs.
From Verif.Codec Require Import Packets Decode Encode EncodeProofs.
From Verif.Topics Require Import Predefined PredefinedProofs.
From Verif.Gateway Require Import GwTypes GwStep GwWf Sound_C04C11_aux.
From Verif.Checkers Require Import ChkCodec ChkGw ChkGw2.
Import RecordSetNotations.
Open Scope N_scope.
Ltac Zify.zify_post_hook ::= Z.div_mod_to_equations.

(* ================================================================== the invariant *)

(* the pairs (topic ID, name) the session knows: announced to the client, or registered *)
Definition known (s : gw_state) (i : N) (n : bytes) : Prop :=
  In (i, n) (gw_handed_out s) \/ gw_registered s !! i = Some n.

(* a packet the gateway may hold (retry data, sleep buffer): a REGISTER only for an announced pair *)
Definition stored_ok (h : list (N * bytes)) (p : packet) : Prop :=
  match p with
  | Register tid _ name => In (tid, name) h
  | WillTopic _ _ _ | WillTopicUpd _ _ _ => False
  | _ => True
  end.

Definition txn_ok (h : list (N * bytes)) (t : txn) : Prop :=
  match t with
  | TxBrokerPub _ _ _ data snpub _ =>
    match data with RsSn p => stored_ok h p | RsAck _ _ => True end /\
    match snpub with Some p => stored_ok h p | None => True end
  | _ => True
  end.

(* the ID is in range and, while the allocator is live, below the sequence *)
Definition rng (s : gw_state) (i : N) : Prop :=
  1 <= i <= 65534 /\ (gw_no_more_tids s = false -> gw_seq_overflow s = false -> i < gw_seq_next s).

Record Inv (s : gw_state) : Prop := {
  inv_seq : 1 <= gw_seq_next s <= 65534;
  inv_rng : forall i n, known s i n -> rng s i;
  inv_fun : forall i n n', known s i n -> known s i n' -> n = n';
  inv_buf : forall o p, In (o, p) (gw_buffer s) -> stored_ok (gw_handed_out s) p;
  inv_obj : forall g t, gw_objs s !! g = Some t -> txn_ok (gw_handed_out s) t }.

Lemma stored_ok_mono h h' p : incl h h' -> stored_ok h p -> stored_ok h' p.
Proof. intros Hi. destruct p; cbn; auto. Qed.

Lemma txn_ok_mono h h' t : incl h h' -> txn_ok h t -> txn_ok h' t.
Proof.
  intros Hi. destruct t as [| | |mid qos st data snpub n]; cbn; auto.
  intros [H1 H2]. split.
  - destruct data; [eapply stored_ok_mono; eassumption|exact I].
  - destruct snpub; [eapply stored_ok_mono; eassumption|exact I].
Qed.

Lemma stored_ok_set_dup h p : stored_ok h p -> stored_ok h (set_dup p).
Proof. destruct p; cbn; auto. Qed.

(* what a step may do to the known pairs, relative to a client ID c: the announced list grows,
   exhaustion is latched, and a new pair appears only while IDs are not exhausted, with an ID
   that is not a predefined topic ID of c *)
Definition core_le (cfg : gw_cfg) (c : bytes) (s S : gw_state) : Prop :=
  incl (gw_handed_out s) (gw_handed_out S) /\
  (gw_no_more_tids s = true -> gw_no_more_tids S = true) /\
  (forall i n, known S i n ->
     known s i n \/ (gw_no_more_tids s = false /\ get_name (predefined cfg) c i = None)).

Definition Good (cfg : gw_cfg) (c : bytes) (s S : gw_state) : Prop := Inv S /\ core_le cfg c s S.

Lemma core_le_refl cfg c s : core_le cfg c s s.
Proof. split; [apply incl_refl|]. split; auto. Qed.

Lemma core_le_trans cfg c s1 s2 s3 : core_le cfg c s1 s2 -> core_le cfg c s2 s3 -> core_le cfg c s1 s3.
Proof.
  intros [Ha [Hb Hc]] [Ha' [Hb' Hc']]. split; [eapply incl_tran; eassumption|]. split; [auto|].
  intros i n Hk. destruct (Hc' i n Hk) as [Hk2|[Hn Hg]].
  - apply Hc. exact Hk2.
  - right. split; [|exact Hg]. destruct (gw_no_more_tids s1) eqn:E; [|reflexivity].
    rewrite Hb in Hn by reflexivity. discriminate.
Qed.

Lemma Good_refl cfg c s : Inv s -> Good cfg c s s.
Proof. intros H. split; [exact H|apply core_le_refl]. Qed.

Lemma Good_trans cfg c s1 s2 s3 : Good cfg c s1 s2 -> Good cfg c s2 s3 -> Good cfg c s1 s3.
Proof. intros [_ H1] [H2 H3]. split; [exact H2|eapply core_le_trans; eassumption]. Qed.

(* the general extension lemma: S differs from s by (at most) one pair (i, name) *)
Lemma inv_ext (s S : gw_state) (i : N) (name : bytes) :
  Inv s ->
  gw_seq_next S = gw_seq_next s -> gw_seq_overflow S = gw_seq_overflow s ->
  gw_no_more_tids S = gw_no_more_tids s ->
  incl (gw_handed_out s) (gw_handed_out S) ->
  (forall j n, known S j n -> known s j n \/ (j = i /\ n = name)) ->
  (known S i name -> rng s i /\ forall n', known s i n' -> n' = name) ->
  (forall o p, In (o, p) (gw_buffer S) -> In (o, p) (gw_buffer s) \/ stored_ok (gw_handed_out S) p) ->
  (forall g t, gw_objs S !! g = Some t -> gw_objs s !! g = Some t \/ txn_ok (gw_handed_out S) t) ->
  Inv S.
Proof.
  intros HI E1 E2 E3 Hinc Hk Hnew Hbuf Hobj.
  assert (Hrng : forall j, rng s j -> rng S j).
  { intros j [Ha Hb]. split; [exact Ha|]. rewrite E1, E2, E3. exact Hb. }
  constructor.
  - rewrite E1. apply HI.
  - intros j n Hj. destruct (Hk j n Hj) as [Ho|[-> ->]].
    + apply Hrng. eapply inv_rng; eassumption.
    + apply Hrng. apply Hnew. exact Hj.
  - intros j n n' Hj Hj'.
    destruct (Hk j n Hj) as [Ho|[E1' E2']]; destruct (Hk j n' Hj') as [Ho'|[E3' E4']].
    + eapply inv_fun; eassumption.
    + subst j n'. destruct (Hnew Hj') as [_ Hu]. apply Hu. exact Ho.
    + subst j n. destruct (Hnew Hj) as [_ Hu]. symmetry. apply Hu. exact Ho'.
    + congruence.
  - intros o p Hin. destruct (Hbuf o p Hin) as [Ho|Hn]; [|exact Hn].
    eapply stored_ok_mono; [exact Hinc|]. eapply inv_buf; eassumption.
  - intros g t Hg. destruct (Hobj g t Hg) as [Ho|Hn]; [|exact Hn].
    eapply txn_ok_mono; [exact Hinc|]. eapply inv_obj; eassumption.
Qed.

(* S has the same core as s, up to dropped or re-validated buffer entries and transactions *)
Definition irrel (s S : gw_state) : Prop :=
  gw_registered S = gw_registered s /\ gw_seq_next S = gw_seq_next s /\
  gw_seq_overflow S = gw_seq_overflow s /\ gw_no_more_tids S = gw_no_more_tids s /\
  gw_handed_out S = gw_handed_out s /\
  (forall o p, In (o, p) (gw_buffer S) -> In (o, p) (gw_buffer s) \/ stored_ok (gw_handed_out s) p) /\
  (forall g t, gw_objs S !! g = Some t -> gw_objs s !! g = Some t \/ txn_ok (gw_handed_out s) t).

Lemma irrel_refl s : irrel s s.
Proof. repeat split; auto. Qed.

Lemma irrel_trans s1 s2 s3 : irrel s1 s2 -> irrel s2 s3 -> irrel s1 s3.
Proof.
  intros (A1 & A2 & A3 & A4 & A5 & A6 & A7) (B1 & B2 & B3 & B4 & B5 & B6 & B7).
  repeat split; try congruence.
  - intros o p Hin. destruct (B6 o p Hin) as [H|H]; [apply A6, H|right; rewrite <- A5; exact H].
  - intros g t Hg. destruct (B7 g t Hg) as [H|H]; [apply A7, H|right; rewrite <- A5; exact H].
Qed.

Lemma irrel_known s S i n : irrel s S -> known S i n <-> known s i n.
Proof. intros (A1 & _ & _ & _ & A5 & _). unfold known. rewrite A1, A5. reflexivity. Qed.

Lemma irrel_good cfg c s S : Inv s -> irrel s S -> Good cfg c s S.
Proof.
  intros HI Hir. pose proof Hir as (A1 & A2 & A3 & A4 & A5 & A6 & A7). split.
  - apply (inv_ext s S 0 []); try assumption.
    + rewrite A5. apply incl_refl.
    + intros j n Hj. left. apply (irrel_known s S); assumption.
    + intros Hk. apply (irrel_known s S) in Hk; [|assumption]. split; [eapply inv_rng; eassumption|].
      intros n' Hk'. eapply inv_fun; eassumption.
    + rewrite A5. exact A6.
    + rewrite A5. exact A7.
  - split; [rewrite A5; apply incl_refl|]. split; [rewrite A4; auto|].
    intros i n Hk. left. apply (irrel_known s S); assumption.
Qed.

(* ------------------------------------------------------------------ irrelevant updates *)

Definition coreq (S' S : gw_state) : Prop :=
  gw_registered S' = gw_registered S /\ gw_seq_next S' = gw_seq_next S /\
  gw_seq_overflow S' = gw_seq_overflow S /\ gw_no_more_tids S' = gw_no_more_tids S /\
  gw_handed_out S' = gw_handed_out S /\ gw_buffer S' = gw_buffer S /\ gw_objs S' = gw_objs S.

Lemma irrel_coreq s S S' : coreq S' S -> irrel s S -> irrel s S'.
Proof.
  intros (B1 & B2 & B3 & B4 & B5 & B6 & B7) (A1 & A2 & A3 & A4 & A5 & A6 & A7).
  unfold irrel. rewrite B1, B2, B3, B4, B5, B6, B7. repeat split; assumption.
Qed.

Lemma irrel_arm s S k d : irrel s S -> irrel s (arm S k d).
Proof. apply irrel_coreq. repeat split; reflexivity. Qed.
Lemma irrel_disarm_obj s S g : irrel s S -> irrel s (disarm_obj S g).
Proof. apply irrel_coreq. repeat split; reflexivity. Qed.
Lemma irrel_disarm_ping s S g : irrel s S -> irrel s (disarm_ping S g).
Proof. apply irrel_coreq. repeat split; reflexivity. Qed.

Lemma irrel_objs_ins s S g t :
  irrel s S -> txn_ok (gw_handed_out s) t -> irrel s (S <| gw_objs := <[g := t]> (gw_objs S) |>).
Proof.
  intros (A1 & A2 & A3 & A4 & A5 & A6 & A7) Ht. unfold irrel. cbn.
  repeat split; try assumption.
  intros g' t' Hg. apply lookup_insert_Some in Hg. destruct Hg as [[_ <-]|[_ Hg]]; [right; exact Ht|].
  apply A7. exact Hg.
Qed.

Lemma irrel_set_obj s S g t :
  irrel s S -> txn_ok (gw_handed_out s) t -> irrel s (set_obj S g t).
Proof. apply irrel_objs_ins. Qed.

Lemma irrel_objs_del s S g : irrel s S -> irrel s (S <| gw_objs := delete g (gw_objs S) |>).
Proof.
  intros (A1 & A2 & A3 & A4 & A5 & A6 & A7). unfold irrel. cbn.
  repeat split; try assumption.
  intros g' t' Hg. apply lookup_delete_Some in Hg. destruct Hg as [_ Hg]. apply A7. exact Hg.
Qed.

Lemma irrel_finish_obj s S g : irrel s S -> irrel s (finish_obj S g).
Proof.
  intros H. unfold finish_obj. destruct (gw_objs S !! g) as [t|]; [|exact H].
  assert (H1 : irrel s (disarm_obj S g <| gw_objs := delete g (gw_objs (disarm_obj S g)) |>)).
  { apply irrel_objs_del, irrel_disarm_obj, H. }
  destruct t; (eapply irrel_coreq; [|exact H1]); repeat split; reflexivity.
Qed.

Lemma irrel_buf_nil s S : irrel s S -> irrel s (S <| gw_buffer := [] |>).
Proof.
  intros (A1 & A2 & A3 & A4 & A5 & A6 & A7). unfold irrel. cbn.
  repeat split; try assumption. intros o p [].
Qed.

Ltac irrel_tac :=
  repeat first
    [ assumption
    | apply irrel_refl
    | match goal with
      | |- irrel _ (finish_obj _ _) => apply irrel_finish_obj
      | |- irrel _ (arm _ _ _) => apply irrel_arm
      | |- irrel _ (disarm_obj _ _) => apply irrel_disarm_obj
      | |- irrel _ (disarm_ping _ _) => apply irrel_disarm_ping
      | |- irrel _ (set_obj _ _ _) => apply irrel_set_obj; [|try (cbn; tauto)]
      | |- irrel _ (@set gw_state _ gw_objs _ (fun _ => <[_ := _]> _) _) =>
        apply irrel_objs_ins; [|try (cbn; tauto)]
      | |- irrel _ (@set gw_state _ gw_buffer _ (fun _ => []) _) => apply irrel_buf_nil
      | |- irrel _ (@set gw_state _ _ _ _ ?S) =>
        apply (irrel_coreq _ S); [repeat split; reflexivity|]
      end ].

(* ------------------------------------------------------------------ results of handlers *)

Definition st_of (r : R) : gw_state := fst (fst r).
Definition outs_of (r : R) : list gw_out := snd (fst r).

(* a datagram that decodes to a REGISTER announces a pair of h *)
Definition dg_ok (h : list (N * bytes)) (dg : bytes) : Prop :=
  forall tid m nm, read_dgram dg = Ok (Register tid m nm) -> In (tid, nm) h.

Definition outs_ok (h : list (N * bytes)) (os : list gw_out) : Prop :=
  forall t dg, In (OutSn t dg) os -> dg_ok h dg.

Lemma outs_ok_nil h : outs_ok h [].
Proof. intros t dg []. Qed.

Lemma outs_ok_app h a b : outs_ok h a -> outs_ok h b -> outs_ok h (a ++ b).
Proof. intros Ha Hb t dg Hin. apply in_app_or in Hin. destruct Hin; [eapply Ha|eapply Hb]; eassumption. Qed.

Lemma outs_ok_mono h h' os : incl h h' -> outs_ok h os -> outs_ok h' os.
Proof. intros Hi Ho t dg Hin tid m nm Hr. apply Hi. eapply Ho; eassumption. Qed.

Lemma outs_ok_mq h t m : outs_ok h [OutMq t m].
Proof. intros t' dg [H|[]]. discriminate. Qed.

Definition Post (cfg : gw_cfg) (c : bytes) (s : gw_state) (r : R) : Prop :=
  Good cfg c s (st_of r) /\ outs_ok (gw_handed_out (st_of r)) (outs_of r).

Lemma post_ok cfg c s S : Good cfg c s S -> Post cfg c s (ok S []).
Proof. intros H. split; [exact H|apply outs_ok_nil]. Qed.

Lemma post_stop cfg c s S e : Good cfg c s S -> Post cfg c s (stop S [] e).
Proof. intros H. split; [exact H|apply outs_ok_nil]. Qed.

Lemma post_mq_send cfg c s S m : Good cfg c s S -> Post cfg c s (mq_send S m).
Proof. intros H. split; [exact H|apply outs_ok_mq]. Qed.

Lemma post_trans cfg c s0 s r : Good cfg c s0 s -> Post cfg c s r -> Post cfg c s0 r.
Proof. intros H0 [H1 H2]. split; [eapply Good_trans; eassumption|exact H2]. Qed.

Lemma stored_dg_ok S p :
  Inv S -> stored_ok (gw_handed_out S) p -> len (pack p) <= MaxPacketLen -> dg_ok (gw_handed_out S) (pack p).
Proof.
  intros HI Hs Hsz tid' m' nm' Hr.
  destruct_pkt p; try (apply pack_ptype in Hr; [discriminate Hr|exact I|exact Hsz]); cbn in Hs; try contradiction.
  apply read_register in Hr; [|exact Hsz]. inversion Hr as [[E1 E2 E3]].
  assert (Hk : known S tid name) by (left; exact Hs).
  apply (inv_rng S HI) in Hk. destruct Hk as [Hk _].
  rewrite N.mod_small by lia. exact Hs.
Qed.

Lemma post_sn_send_owned cfg c s S o p :
  Good cfg c s S -> stored_ok (gw_handed_out S) p -> Post cfg c s (sn_send_owned S o p).
Proof.
  intros HG Hs. unfold sn_send_owned.
  assert (Hbuf : Post cfg c s (ok (S <| gw_buffer := gw_buffer S ++ [(o, p)] |>) [])).
  { apply post_ok. eapply Good_trans; [exact HG|]. destruct HG as [HI _]. split.
    - apply (inv_ext S _ 0 []); try reflexivity; try exact HI.
      + apply incl_refl.
      + intros j n Hj. left. exact Hj.
      + intros Hk. split; [eapply inv_rng; eassumption|]. intros n' Hk'. eapply inv_fun; eassumption.
      + intros o' p' Hin. cbn in Hin. apply in_app_or in Hin. destruct Hin as [Hin|[Hin|[]]]; [left; exact Hin|].
        inversion Hin; subst. right. exact Hs.
      + intros g t Hg. left. exact Hg.
    - split; [apply incl_refl|]. split; [auto|]. intros i n Hk. left. exact Hk. }
  destruct (gw_st S); try exact Hbuf.
  all: destruct (len (pack p) <=? MaxPacketLen) eqn:Hsz; [|apply post_stop; exact HG].
  all: apply N.leb_le in Hsz; split; [exact HG|].
  all: intros t dg [Hin|[]]; inversion Hin; subst; apply stored_dg_ok; [apply HG|exact Hs|exact Hsz].
Qed.

Lemma post_sn_send cfg c s S p :
  Good cfg c s S -> stored_ok (gw_handed_out S) p -> Post cfg c s (sn_send S p).
Proof. apply post_sn_send_owned. Qed.

Lemma post_andthen cfg c s r g :
  Post cfg c s r -> (forall s1, Good cfg c s s1 -> Post cfg c s1 (g s1)) -> Post cfg c s (andthen r g).
Proof.
  intros [HG Ho] Hg. destruct r as [[s1 o1] [|e]]; cbn [andthen st_of outs_of fst snd] in *.
  - specialize (Hg s1 HG). destruct (g s1) as [[s2 o2] res]. destruct Hg as [HG2 Ho2].
    cbn [st_of outs_of fst snd] in *. split; [eapply Good_trans; eassumption|].
    apply outs_ok_app; [|exact Ho2]. eapply outs_ok_mono; [|exact Ho]. apply HG2.
  - split; assumption.
Qed.

(* ------------------------------------------------------------------ handlers that do not allocate *)

Ltac irrel_tac2 :=
  repeat first
    [ progress irrel_tac
    | match goal with |- irrel _ (match ?x with _ => _ end) => destruct x end
    | match goal with |- irrel _ (if ?x then _ else _) => destruct x end ].

Ltac good_tac :=
  match goal with
  | HG : Good ?cfg ?c ?s ?S0 |- Good ?cfg ?c ?s _ =>
    eapply Good_trans; [exact HG|apply irrel_good; [exact (proj1 HG)|irrel_tac2]]
  | HI : Inv ?s |- Good _ _ ?s _ => apply irrel_good; [exact HI|irrel_tac2]
  | HG : Good _ _ _ ?s |- Good _ _ ?s _ => apply irrel_good; [exact (proj1 HG)|irrel_tac2]
  end.

Ltac post_auto :=
  repeat match goal with
         | |- Post _ _ _ (andthen _ _) => apply post_andthen; [|intros ? ?]
         | |- Post _ _ _ (sn_send _ _) => apply post_sn_send; [|try exact I]
         | |- Post _ _ _ (sn_send_owned _ _ _) => apply post_sn_send_owned; [|try exact I]
         | |- Post _ _ _ (mq_send _ _) => apply post_mq_send
         | |- Post _ _ _ (ok _ _) => apply post_ok
         | |- Post _ _ _ (stop _ _ _) => apply post_stop
         | |- Post _ _ _ (match ?x with _ => _ end) => destruct x eqn:?
         | |- Post _ _ _ (if ?x then _ else _) => destruct x eqn:?
         end.

Lemma connect_auth_done_post cfg c s S g mq :
  Good cfg c s S -> Post cfg c s (connect_auth_done S g mq).
Proof. intros HG. unfold connect_auth_done. post_auto; good_tac. Qed.

Lemma connect_start_post cfg c s S g mq a :
  Good cfg c s S -> Post cfg c s (connect_start S g mq a).
Proof.
  intros HG. unfold connect_start. destruct a; [post_auto; good_tac|].
  apply connect_auth_done_post. exact HG.
Qed.

Lemma handle_connect_post cfg c s S w cl pr d cid :
  Good cfg c s S -> Post cfg c s (handle_connect cfg S w cl pr d cid).
Proof.
  intros HG. unfold handle_connect, new_obj. cbv zeta. post_auto; try good_tac.
  apply connect_start_post. good_tac.
Qed.

Lemma connect_auth_post cfg c s S g mq a me da :
  Good cfg c s S -> Post cfg c s (connect_auth S g mq a me da).
Proof.
  intros HG. unfold connect_auth. post_auto; try good_tac.
  apply connect_auth_done_post. good_tac.
Qed.

Lemma handle_client_publish_post cfg c s S dup q r tit tid mid data :
  Good cfg c s S -> Post cfg c s (handle_client_publish cfg S dup q r tit tid mid data).
Proof. intros HG. unfold handle_client_publish, new_obj. cbv zeta. post_auto; good_tac. Qed.

Lemma handle_unsubscribe_post cfg c s S tit mid tid name :
  Good cfg c s S -> Post cfg c s (handle_unsubscribe cfg S tit mid tid name).
Proof. intros HG. unfold handle_unsubscribe. post_auto; good_tac. Qed.

Lemma send_all_post cfg c ps : forall s S,
  Good cfg c s S -> (forall o p, In (o, p) ps -> stored_ok (gw_handed_out s) p) ->
  Post cfg c s (send_all S ps).
Proof.
  induction ps as [|[o p] ps IH]; intros s S HG Hps; cbn [send_all].
  - apply post_ok. exact HG.
  - apply post_andthen.
    + apply post_sn_send; [exact HG|]. eapply stored_ok_mono; [apply HG|]. apply (Hps o). left. reflexivity.
    + intros s1 HG1. apply IH; [apply Good_refl, HG1|].
      intros o' p' Hin. eapply stored_ok_mono; [apply HG1|]. apply (Hps o'). right. exact Hin.
Qed.

(* RetryTransaction.Proceed: the transaction's data must be announced *)
Lemma bp_proceed_post cfg c s S g mid qos st data snpub :
  Good cfg c s S -> txn_ok (gw_handed_out S) (TxBrokerPub mid qos st data snpub 0) ->
  Post cfg c s (bp_proceed cfg S g mid qos st data snpub).
Proof.
  intros HG Ht. unfold bp_proceed. cbv zeta.
  assert (Hd : match data with RsSn p => stored_ok (gw_handed_out S) p | RsAck _ _ => True end) by apply Ht.
  destruct data as [p|k m]; destruct st; post_auto; try good_tac; try exact Hd.
Qed.

(* ================================================================== the topic ID allocator *)

(* s' differs from s only in the allocator fields *)
Definition seq_upd (s s' : gw_state) : Prop :=
  gw_registered s' = gw_registered s /\ gw_buffer s' = gw_buffer s /\
  gw_handed_out s' = gw_handed_out s /\ gw_objs s' = gw_objs s /\ gw_client_id s' = gw_client_id s.

Lemma seq_upd_refl s : seq_upd s s.
Proof. repeat split. Qed.

Lemma seq_upd_trans s1 s2 s3 : seq_upd s1 s2 -> seq_upd s2 s3 -> seq_upd s1 s3.
Proof. intros (A1 & A2 & A3 & A4 & A5) (B1 & B2 & B3 & B4 & B5). repeat split; congruence. Qed.

(* state of the sequence right after it handed out id *)
Definition after_id (s : gw_state) (id : N) : Prop :=
  (gw_seq_overflow s = false /\ gw_seq_next s = id + 1 /\ 1 <= id < 65534) \/
  (gw_seq_overflow s = true /\ gw_seq_next s = 1 /\ id = 65534).

Lemma seq_next_spec cfg s s' id ov :
  wf_cfg cfg -> 1 <= gw_seq_next s <= 65534 -> seq_next cfg s = (s', id, ov) ->
  id = gw_seq_next s /\ ov = gw_seq_overflow s /\ after_id s' id /\ seq_upd s s' /\
  gw_no_more_tids s' = gw_no_more_tids s.
Proof.
  intros (_ & Hmin & Hmax & _) Hr. unfold seq_next. rewrite Hmin, Hmax. intros H.
  destruct (N.eqb_spec (gw_seq_next s) 65534) as [E|E]; inversion H; subst; clear H; cbn.
  - repeat split; try reflexivity. right. repeat split; assumption.
  - repeat split; try reflexivity. left. repeat split; try reflexivity; lia.
Qed.

Lemma skip_predefined_spec cfg (Hwf : wf_cfg cfg) fuel : forall s id s' r,
  after_id s id -> skip_predefined fuel cfg s id = (s', r) ->
  seq_upd s s' /\ 1 <= gw_seq_next s' <= 65534 /\
  match r with
  | Some i => id <= i /\ after_id s' i /\ gw_no_more_tids s' = gw_no_more_tids s /\
              get_name (predefined cfg) (gw_client_id s) i = None
  | None => gw_no_more_tids s' = true
  end.
Proof.
  assert (Hseq : forall s id, after_id s id -> 1 <= gw_seq_next s <= 65534).
  { intros s id [(_ & E & H)|(_ & E & _)]; rewrite E; lia. }
  induction fuel as [|fuel IH]; intros s id s' r Ha; cbn [skip_predefined].
  - destruct (get_name (predefined cfg) (gw_client_id s) id) eqn:Hg; intros H; inversion H; subst; clear H.
    + cbn. split; [repeat split|]. split; [apply (Hseq s id Ha)|reflexivity].
    + split; [apply seq_upd_refl|]. split; [apply (Hseq s id Ha)|]. repeat split; try assumption; lia.
  - destruct (get_name (predefined cfg) (gw_client_id s) id) eqn:Hg.
    + destruct (seq_next cfg s) as [[s1 id1] ov] eqn:Hs.
      apply seq_next_spec in Hs; [|exact Hwf|apply (Hseq s id Ha)].
      destruct Hs as (E1 & E2 & Ha1 & Hu1 & Hn1).
      destruct ov.
      * intros H; inversion H; subst s' r; clear H. cbn. split; [exact Hu1|].
        split; [apply (Hseq s1 id1 Ha1)|reflexivity].
      * intros H. apply IH in H; [|exact Ha1]. destruct H as (Hu2 & Hs2 & Hr).
        split; [eapply seq_upd_trans; eassumption|]. split; [exact Hs2|].
        destruct r as [i|]; [|exact Hr]. destruct Hr as (Hle & Ha2 & Hn2 & Hg2).
        assert (id < id1).
        { destruct Ha as [(_ & E & _)|(Ho & _)]; [lia|]. rewrite Ho in E2. discriminate. }
        repeat split; try assumption; try lia; try congruence.
        destruct Hu1 as (_ & _ & _ & _ & Hc). rewrite <- Hc. exact Hg2.
    + intros H; inversion H; subst; clear H.
      split; [apply seq_upd_refl|]. split; [apply (Hseq s' id Ha)|]. repeat split; try assumption; lia.
Qed.

Lemma new_topic_id_spec cfg s s' r :
  wf_cfg cfg -> 1 <= gw_seq_next s <= 65534 -> new_topic_id cfg s = (s', r) ->
  seq_upd s s' /\ 1 <= gw_seq_next s' <= 65534 /\
  match r with
  | Some i => gw_no_more_tids s = false /\ gw_seq_overflow s = false /\ gw_no_more_tids s' = false /\
              gw_seq_next s <= i <= 65534 /\ (gw_seq_overflow s' = false -> i < gw_seq_next s') /\
              get_name (predefined cfg) (gw_client_id s) i = None
  | None => gw_no_more_tids s' = true
  end.
Proof.
  intros Hwf Hr. unfold new_topic_id.
  destruct (gw_no_more_tids s) eqn:Hn.
  { intros H; inversion H; subst. split; [apply seq_upd_refl|]. split; [exact Hr|exact Hn]. }
  destruct (seq_next cfg s) as [[s1 id1] ov] eqn:Hs.
  apply seq_next_spec in Hs; [|exact Hwf|exact Hr]. destruct Hs as (E1 & E2 & Ha1 & Hu1 & Hn1).
  destruct ov.
  { intros H; inversion H; subst s' r. cbn. split; [exact Hu1|]. split; [|reflexivity].
    destruct Ha1 as [(_ & E & H1)|(_ & E & _)]; rewrite E; lia. }
  intros H. apply skip_predefined_spec in H; [|exact Hwf|exact Ha1].
  destruct H as (Hu2 & Hs2 & Hres). split; [eapply seq_upd_trans; eassumption|]. split; [exact Hs2|].
  destruct r as [i|]; [|exact Hres]. destruct Hres as (Hle & Ha2 & Hn2 & Hg2).
  destruct Hu1 as (_ & _ & _ & _ & Hc). rewrite Hc in Hg2.
  repeat split; try assumption; try congruence; try lia.
  - destruct Ha2 as [(_ & E & H1)|(_ & _ & E)]; lia.
  - intros Ho. destruct Ha2 as [(_ & E & H1)|(Ho' & _)]; [lia|congruence].
Qed.
