(* Gateway/Sound_C16.v — the safety half of C16 in the gateway model: what a retry timer does.
   (The liveness half - delivery within the retry budget over a lossy link - is a statement about
   the composed system of System/Compose.v; it is checked on the real client + real gateway by the
   end-to-end monitor of Checkers/ChkE2E.v and not proved.) *)
From stdpp Require Import base option list numbers fin_maps nmap.
From RecordUpdate Require Import RecordSet.
From Coq Require Import Lia ZArith ZifyN ZifyNat ZifyBool.
From Verif.Base Require Import Bytes.
From Verif.Codec Require Import Packets Decode Encode.
From Verif.Topics Require Import Predefined.
From Verif.Gateway Require Import GwTypes GwStep.
Import RecordSetNotations.
Open Scope N_scope.

(* a retransmission differs from the first transmission in the DUP flag only: same message ID,
   topic, QoS, retain flag and payload; REGISTER and PUBREL are repeated unchanged *)
Lemma set_dup_publish d q r tit tid mid data :
  set_dup (Publish d q r tit tid mid data) = Publish true q r tit tid mid data.
Proof. reflexivity. Qed.
Lemma set_dup_register tid mid name : set_dup (Register tid mid name) = Register tid mid name.
Proof. reflexivity. Qed.
Lemma set_dup_pubrel mid : set_dup (Pubrel mid) = Pubrel mid.
Proof. reflexivity. Qed.
Lemma set_dup_idem p : set_dup (set_dup p) = set_dup p.
Proof. destruct p; reflexivity. Qed.

(* while the budget lasts, the retry timer of a broker-publish exchange writes exactly the stored
   packet with DUP set (to a client that is not asleep), counts the retransmission and re-arms
   itself RetryDelay later *)
Lemma retry_resends cfg s g mid qos st p snpub n :
  gw_objs s !! g = Some (TxBrokerPub mid qos st (RsSn p) snpub n) ->
  gw_st s <> Asleep -> n + 1 <= retry_count cfg -> len (pack (set_dup p)) <= MaxPacketLen ->
  exists s', fire cfg s (TmRetry g) = (s', [OutSn (gw_now s) (pack (set_dup p))], HOk) /\
             gw_objs s' !! g = Some (TxBrokerPub mid qos st (RsSn (set_dup p)) snpub (n + 1)) /\
             In {| tm_at := gw_now s + retry_delay cfg; tm_seq := gw_next_seq s; tm_kind := TmRetry g |} (gw_timers s').
Proof.
  intros Hobj Hst Hn Hsz. cbn [fire]. rewrite Hobj.
  assert (E : (retry_count cfg <? n + 1) = false) by (apply N.ltb_ge; exact Hn). rewrite E. cbv zeta.
  unfold sn_send_owned. cbn [gw_st set_obj arm set gw_buffer gw_timers gw_next_seq gw_objs gw_now].
  destruct (gw_st s) eqn:Hs; try contradiction;
    (assert (E2 : (len (pack (set_dup p)) <=? MaxPacketLen) = true) by (apply N.leb_le; exact Hsz); rewrite E2;
     eexists; split; [reflexivity|]; cbn; split; [apply lookup_insert|apply in_or_app; right; left; reflexivity]).
Qed.

(* after RetryCount unanswered retransmissions the next expiry writes nothing and removes the exchange *)
Lemma retry_stops cfg s g mid qos st d snpub n :
  gw_objs s !! g = Some (TxBrokerPub mid qos st d snpub n) -> retry_count cfg < n + 1 ->
  fire cfg s (TmRetry g) = (finish_obj s g, [], HOk) /\ gw_objs (finish_obj s g) !! g = None.
Proof.
  intros Hobj Hn. cbn [fire]. rewrite Hobj.
  assert (E : (retry_count cfg <? n + 1) = true) by (apply N.ltb_lt; exact Hn). rewrite E.
  split; [reflexivity|]. unfold finish_obj. rewrite Hobj.
  match goal with |- context [match ?X !! mid with Some _ => _ | None => _ end] =>
    destruct (X !! mid) as [g'|]; [destruct (g' =? g)|] end; cbn; apply lookup_delete.
Qed.

Print Assumptions retry_resends.
Print Assumptions retry_stops.
