(* Gateway/Sound_C01C03.v — the per-step checkers chk_C01 (ChkGw.v) and chk_C03 (ChkGw2.v)
   accept the gateway model's own outputs.

   chk_C01: holds for EVERY state and event (chk_C01_sound_all); the requested statement
   chk_C01_sound is a corollary.

   chk_C03: the requested statement is FALSE (see c03_gap below and the counterexample in the
   comment before chk_C03_gap_fails).  Proved instead: chk_C03_sound_partial (with the extra
   hypothesis ~ c03_gap cfg s ev), chk_C03_gap_fails (under c03_gap the checker does return [1],
   so the hypothesis is exactly what is missing) and the corollary chk_C03_sound_awake. *)
From stdpp Require Import base option list numbers fin_maps nmap.
From RecordUpdate Require Import RecordSet.
From Coq Require Import Lia ZArith ZifyN ZifyNat ZifyBool.
From Verif.Base Require Import Bytes BytesProofs.
From Verif.Codec Require Import Packets Decode Encode EncodeProofs.
From Verif.Topics Require Import Predefined.
From Verif.Gateway Require Import GwTypes GwStep GwStepProofs GwWf Sound_C01C03_aux.
From Verif.Checkers Require Import ChkCodec ChkGw ChkGw2.
Import RecordSetNotations.
Open Scope N_scope.
Ltac Zify.zify_post_hook ::= Z.div_mod_to_equations.

(* ------------------------------------------------------------------ the step on a packet *)

Lemma gw_step_sn cfg s dg p :
  gw_ended s = false -> gw_ending s = None -> read_dgram dg = Ok p ->
  gw_step cfg s (EvSn dg) = finish_r (handle_sn cfg (s <| gw_last_sn := gw_now s |>) p) true false.
Proof. intros He Hg Hr. unfold gw_step. rewrite He, Hg, Hr. reflexivity. Qed.

Lemma gw_step_mq cfg s m :
  gw_ended s = false -> gw_ending s = None ->
  gw_step cfg s (EvMq m) = finish_r (handle_mq cfg (s <| gw_last_mq := gw_now s |>) m) false true.
Proof. intros He Hg. unfold gw_step. rewrite He, Hg. reflexivity. Qed.

Lemma running_spec s : running s = true -> gw_ended s = false /\ gw_ending s = None.
Proof.
  unfold running. destruct (gw_ended s); [discriminate|]. destruct (gw_ending s); [discriminate|]. auto.
Qed.

Lemma connected_spec s : connected s = true -> gw_st s <> Disconnected.
Proof. unfold connected. destruct (gw_st s); cbn; congruence. Qed.

Lemma awake_spec s : awake_for_output s = true -> gw_st s <> Asleep.
Proof. unfold awake_for_output. destruct (gw_st s); cbn; congruence. Qed.

Lemma packet_legal_connected cfg s p : gw_st s <> Disconnected -> packet_legal cfg s p = true.
Proof. unfold packet_legal. destruct (gw_st s); [contradiction|reflexivity..]. Qed.

Lemma exactly_self (f : mq_pkt -> bool) (m : mq_pkt) :
  wire m = m -> f m = true -> exactly [m] f m = true.
Proof. intros Hw Hf. rewrite <- Hw at 1. apply exactly_one. rewrite Hw. exact Hf. Qed.

Ltac fold_obs :=
  repeat match goal with
         | |- context [mqs (obs_of_outs ?x)] => change (mqs (obs_of_outs x)) with (MQ x)
         | |- context [sn_pkts (obs_of_outs ?x)] => change (sn_pkts (obs_of_outs x)) with (SN x)
         end.

Ltac mq_eval :=
  unfold new_obj; cbn [mq_send ok stop outs_of fst snd]; rewrite ?MQ_cons_mq, ?MQ_nil.

(* ------------------------------------------------------------------ C01 *)

Lemma resolve_denotes cfg s x tit tid :
  resolve_client_topic cfg (s <| gw_last_sn := x |>) tit tid = denotes cfg s tit tid.
Proof.
  unfold resolve_client_topic, denotes, TIT_REGISTERED, TIT_PREDEFINED, TIT_SHORT.
  change (gw_registered (s <| gw_last_sn := x |>)) with (gw_registered s).
  change (gw_client_id (s <| gw_last_sn := x |>)) with (gw_client_id s).
  destruct tit as [|[[p|p|]|[p|p|]|]]; reflexivity.
Qed.

Lemma packet_legal_publish cfg s x dup q r tit tid mid data :
  packet_legal cfg (s <| gw_last_sn := x |>) (Publish dup q r tit tid mid data) = accepts_publish cfg s q tit.
Proof.
  unfold packet_legal, accepts_publish, TIT_PREDEFINED, TIT_SHORT.
  change (gw_st (s <| gw_last_sn := x |>)) with (gw_st s).
  destruct (gw_st s); try reflexivity. rewrite (orb_comm (tit =? 2)). reflexivity.
Qed.

(* holds in every state, for every event *)
Theorem chk_C01_sound_all : forall cfg s ev,
  chk_C01 cfg s ev (obs_of_outs (snd (gw_step cfg s ev))) = [].
Proof.
  intros cfg s ev. unfold chk_C01.
  destruct (gw_ended s) eqn:He; [reflexivity|].
  destruct (gw_ending s) eqn:Hg; [reflexivity|].
  destruct ev as [dg|m| | |d|]; cbn [ev_packet]; try reflexivity.
  destruct (read_dgram dg) as [p|e|ps] eqn:Hr; try reflexivity.
  destruct_pkt p; try reflexivity.
  rewrite (gw_step_sn cfg s dg _ He Hg Hr). cbv zeta. fold_obs. rewrite finish_r_MQ.
  unfold handle_sn. rewrite packet_legal_publish.
  destruct (accepts_publish cfg s qos tit); cbn [negb]; [|reflexivity].
  unfold handle_client_publish. rewrite resolve_denotes.
  destruct (denotes cfg s tit tid) as [topic|]; [|reflexivity].
  destruct (has_wildcard topic || ((qos =? 1) || (qos =? 2)) && (mid =? 0)); [reflexivity|].
  mq_eval. cbn [wire List.filter is_mq_publish]. rewrite mq_eqb_refl. reflexivity.
Qed.

Theorem chk_C01_sound : forall cfg s ev, wf_cfg cfg -> reach cfg s -> wf_event ev ->
  chk_C01 cfg s ev (obs_of_outs (snd (gw_step cfg s ev))) = [].
Proof. intros cfg s ev _ _ _. apply chk_C01_sound_all. Qed.

(* ------------------------------------------------------------------ C03 *)

(* The one situation in which the model's step is NOT accepted by chk_C03: a sleeping client
   subscribes by (non-wildcard) topic name while the topic IDs are exhausted.  The model
   (like handler1.handleSubscribe) answers SUBACK(invalid topic ID) through snSend, which
   queues it in the sleep buffer: the step has no output, and chk_C03 finds neither the MQTT
   SUBSCRIBE nor the refusing SUBACK. *)
Definition c03_gap (cfg : gw_cfg) (s : gw_state) (ev : gw_event) : Prop :=
  gw_st s = Asleep /\
  exists dg dup q mid tid name,
    ev = EvSn dg /\ read_dgram dg = Ok (Subscribe dup q TIT_STRING mid tid name) /\
    (2 <? q) || (mid =? 0) = false /\ has_wildcard name = false /\
    snd (new_topic_id cfg s) = None.

Lemma lt3_cases (t : N) : t < 3 -> t = 0 \/ t = 1 \/ t = 2.
Proof. lia. Qed.

Lemma chk_C03_sn cfg s dg :
  wf_bytes dg -> ~ c03_gap cfg s (EvSn dg) ->
  chk_C03 cfg s (EvSn dg) (obs_of_outs (snd (gw_step cfg s (EvSn dg)))) = [].
Proof.
  intros Hwf Hgap. unfold chk_C03.
  destruct (running s) eqn:Hrun; cbn [negb]; [|reflexivity].
  apply running_spec in Hrun. destruct Hrun as [He Hg]. cbv zeta.
  destruct (connected s) eqn:Hc; cbn [negb]; [|reflexivity]. apply connected_spec in Hc.
  destruct (read_dgram dg) as [p|e|ps] eqn:Hr; try reflexivity.
  pose proof (read_dgram_fact dg p Hwf Hr) as Hfact.
  rewrite (gw_step_sn cfg s dg p He Hg Hr). fold_obs. rewrite finish_r_MQ.
  unfold handle_sn. rewrite packet_legal_connected by exact Hc. cbn [negb].
  set (s1 := s <| gw_last_sn := gw_now s |>).
  destruct_pkt p; try reflexivity.
  - (* Pubrel *)
    destruct (mid =? 0); [reflexivity|]. mq_eval.
    rewrite exactly_self by reflexivity. reflexivity.
  - (* Subscribe *)
    cbn [dec_fact] in Hfact. destruct Hfact as [Htit Hmid].
    unfold handle_subscribe. cbv zeta.
    destruct ((2 <? qos) || (mid =? 0)) eqn:Hq; [reflexivity|].
    apply lt3_cases in Htit. destruct Htit as [-> | [-> | ->]];
      unfold TIT_STRING, TIT_PREDEFINED, TIT_SHORT; cbn [N.eqb Pos.eqb filter_of].
    + (* by name *)
      destruct (has_wildcard name) eqn:Hw; cbn [negb].
      * mq_eval. rewrite exactly_self by reflexivity. reflexivity.
      * destruct (new_topic_id cfg s1) as [s2 [i|]] eqn:Hn.
        -- mq_eval. rewrite exactly_self by reflexivity. reflexivity.
        -- rewrite sn_send_MQ.
           assert (Hst2 : gw_st s2 = gw_st s).
           { pose proof (new_topic_id_st cfg s1) as Hst. rewrite Hn in Hst. exact Hst. }
           assert (Hawake : gw_st s2 <> Asleep).
           { intros Hs. apply Hgap. split; [congruence|].
             exists dg, dup, qos, mid, tid, name. repeat split; try assumption.
             rewrite <- (new_topic_id_last_sn cfg s (gw_now s)). fold s1. rewrite Hn. reflexivity. }
           rewrite sn_send_awake; [|exact Hawake|apply wf_pkt_suback; unfold RC_INVALID_TOPIC_ID; lia].
           rewrite finish_r_ok. cbn [snd]. rewrite SN_one_pack by (apply wf_pkt_suback; unfold RC_INVALID_TOPIC_ID; lia).
           cbn [exactly none_of List.filter existsb]. rewrite N.eqb_refl. reflexivity.
    + (* predefined *)
      change (gw_client_id s1) with (gw_client_id s).
      destruct (get_name (predefined cfg) (gw_client_id s) tid) as [topic|]; [|reflexivity].
      mq_eval. rewrite exactly_self by reflexivity. reflexivity.
    + (* short *)
      mq_eval. rewrite exactly_self by reflexivity. reflexivity.
  - (* Unsubscribe *)
    cbn [dec_fact] in Hfact. destruct Hfact as [Htit Hmid].
    unfold handle_unsubscribe.
    destruct (mid =? 0); [reflexivity|].
    apply lt3_cases in Htit. destruct Htit as [-> | [-> | ->]];
      unfold TIT_STRING, TIT_PREDEFINED, TIT_SHORT; cbn [N.eqb Pos.eqb filter_of].
    + mq_eval. rewrite exactly_self by reflexivity. reflexivity.
    + change (gw_client_id s1) with (gw_client_id s).
      destruct (get_name (predefined cfg) (gw_client_id s) tid) as [topic|]; [|reflexivity].
      mq_eval. rewrite exactly_self by reflexivity. reflexivity.
    + mq_eval. rewrite exactly_self by reflexivity. reflexivity.
  - (* Pingreq *)
    change (gw_st s1) with (gw_st s).
    destruct (cstate_eqb (gw_st s) Asleep).
    + rewrite andthen_MQ_nil; [reflexivity|apply send_all_MQ|].
      intros s'. apply andthen_MQ_nil; [apply sn_send_MQ|reflexivity].
    + mq_eval. rewrite exactly_self by reflexivity. reflexivity.
  - (* Disconnect *)
    destruct (dur =? 0); [|reflexivity].
    rewrite andthen_mq_send_MQ.
    rewrite andthen_MQ_nil; [|apply sn_send_MQ|reflexivity].
    rewrite exactly_one by reflexivity. reflexivity.
Qed.

Lemma get_by_id_objs s mid g t : get_by_id s mid = Some (g, t) -> gw_objs s !! g = Some t.
Proof.
  unfold get_by_id. destruct (gw_by_id s !! mid) as [g'|]; [|discriminate].
  destruct (gw_objs s !! g') as [t'|] eqn:E; [|discriminate]. intros H. injection H as -> ->. exact E.
Qed.

Lemma chk_C03_mq cfg s m :
  Inv s -> wf_mq m ->
  chk_C03 cfg s (EvMq m) (obs_of_outs (snd (gw_step cfg s (EvMq m)))) = [].
Proof.
  intros HI Hwf. unfold chk_C03.
  destruct (running s) eqn:Hrun; cbn [negb]; [|reflexivity].
  apply running_spec in Hrun. destruct Hrun as [He Hg]. cbv zeta.
  destruct (awake_for_output s) eqn:Ha; cbn [negb]; [|reflexivity]. apply awake_spec in Ha.
  rewrite (gw_step_mq cfg s m He Hg). fold_obs.
  set (s1 := s <| gw_last_mq := gw_now s |>).
  assert (Ha1 : gw_st s1 <> Asleep) by exact Ha.
  destruct m as [c|sp rc|dup qos retain topic mid payload|mid|mid|mid|mid|mid dup fs|mid codes|mid fs|mid| | |];
    try reflexivity; cbn [wf_mq] in Hwf; cbn [handle_mq].
  - (* MqPubrec *)
    destruct (wf_pkt_mid1 mid Hwf) as (Hp & _ & _).
    rewrite sn_send_awake, finish_r_ok by assumption. cbn [snd]. rewrite SN_one_pack by exact Hp.
    rewrite exactly_sn_one by reflexivity. reflexivity.
  - (* MqPubcomp *)
    destruct (wf_pkt_mid1 mid Hwf) as (_ & Hp & _).
    rewrite sn_send_awake, finish_r_ok by assumption. cbn [snd]. rewrite SN_one_pack by exact Hp.
    rewrite exactly_sn_one by reflexivity. reflexivity.
  - (* MqSuback *)
    destruct Hwf as [Hmid Hcodes].
    change (get_by_id s1 mid) with (get_by_id s mid).
    destruct (get_by_id s mid) as [[g t]|] eqn:Hget; [|reflexivity].
    destruct t as [mq st|m0 tid|m0 tid|m0 q st dat snpub rn]; try reflexivity.
    destruct codes as [|c [|c' cs]]; try reflexivity.
    assert (Htid : tid < 65536).
    { apply get_by_id_objs in Hget. exact (proj2 HI g _ Hget). }
    assert (Hc : c < 256).
    { apply is_byte_lt. exact (proj1 (List.Forall_forall _ _) Hcodes c (or_introl eq_refl)). }
    destruct (c <=? 2) eqn:Hc2.
    + assert (Hp : wf_pkt (Suback c tid mid RC_ACCEPTED) = true)
        by (apply wf_pkt_suback; unfold RC_ACCEPTED; lia).
      rewrite sn_send_awake; [|destruct (gw_registered (finish_obj s1 g) !! tid); cbn [note_handed];
                               [change (gw_st (finish_obj s1 g) <> Asleep)|];
                               rewrite finish_obj_st; exact Ha1|exact Hp].
      rewrite finish_r_ok. cbn [snd]. rewrite SN_one_pack by exact Hp.
      rewrite exactly_sn_one by reflexivity. reflexivity.
    + assert (Hp : wf_pkt (Suback 0 tid mid RC_NOT_SUPPORTED) = true)
        by (apply wf_pkt_suback; unfold RC_NOT_SUPPORTED; lia).
      rewrite sn_send_awake; [|rewrite finish_obj_st; exact Ha1|exact Hp].
      rewrite finish_r_ok. cbn [snd]. rewrite SN_one_pack by exact Hp.
      cbn [List.filter is_sn_suback]. rewrite N.eqb_refl. reflexivity.
  - (* MqUnsuback *)
    destruct (wf_pkt_mid1 mid Hwf) as (_ & _ & Hp).
    rewrite sn_send_awake, finish_r_ok by assumption. cbn [snd]. rewrite SN_one_pack by exact Hp.
    rewrite exactly_sn_one by reflexivity. reflexivity.
  - (* MqPingresp *)
    change (gw_st s1) with (gw_st s).
    destruct (cstate_eqb (gw_st s) Active); [|reflexivity].
    rewrite sn_send_awake, finish_r_ok by (try assumption; reflexivity). cbn [snd].
    rewrite SN_one_pack by reflexivity. rewrite exactly_sn_one by reflexivity. reflexivity.
Qed.

(* chk_C03 accepts every step of the model from a state satisfying the invariant, except in
   the situation c03_gap *)
Theorem chk_C03_sound_inv : forall cfg s ev, Inv s -> wf_event ev -> ~ c03_gap cfg s ev ->
  chk_C03 cfg s ev (obs_of_outs (snd (gw_step cfg s ev))) = [].
Proof.
  intros cfg s ev HI Hev Hgap. destruct ev as [dg|m| | |d|].
  - apply chk_C03_sn; [exact (proj1 Hev)|exact Hgap].
  - apply chk_C03_mq; assumption.
  - unfold chk_C03. destruct (negb (running s)); reflexivity.
  - unfold chk_C03. destruct (negb (running s)); reflexivity.
  - unfold chk_C03. destruct (negb (running s)); reflexivity.
  - unfold chk_C03. destruct (negb (running s)); reflexivity.
Qed.

(* ORIGINAL STATEMENT (false, see chk_C03_gap_fails and chk_C03_gap_reachable_small):
     Theorem chk_C03_sound : forall cfg s ev, wf_cfg cfg -> reach cfg s -> wf_event ev ->
       chk_C03 cfg s ev (obs_of_outs (snd (gw_step cfg s ev))) = [].
   Added hypothesis: ~ c03_gap cfg s ev. *)
Theorem chk_C03_sound_partial : forall cfg s ev, wf_cfg cfg -> reach cfg s -> wf_event ev ->
  ~ c03_gap cfg s ev ->
  chk_C03 cfg s ev (obs_of_outs (snd (gw_step cfg s ev))) = [].
Proof.
  intros cfg s ev Hcfg Hreach Hev Hgap. apply chk_C03_sound_inv; [|assumption..].
  apply (reach_inv cfg Hcfg s Hreach).
Qed.

(* simpler sufficient condition: the client is not asleep *)
Corollary chk_C03_sound_awake : forall cfg s ev, wf_cfg cfg -> reach cfg s -> wf_event ev ->
  gw_st s <> Asleep ->
  chk_C03 cfg s ev (obs_of_outs (snd (gw_step cfg s ev))) = [].
Proof.
  intros cfg s ev Hcfg Hreach Hev Hst. apply chk_C03_sound_partial; try assumption.
  intros [Hs _]. exact (Hst Hs).
Qed.

(* The added hypothesis is necessary: in the situation c03_gap (session running) the checker
   rejects the model's own step. *)
Theorem chk_C03_gap_fails : forall cfg s ev, running s = true -> c03_gap cfg s ev ->
  chk_C03 cfg s ev (obs_of_outs (snd (gw_step cfg s ev))) = [1].
Proof.
  intros cfg s ev Hrun (Hst & dg & dup & q & mid & tid & name & -> & Hr & Hq & Hw & Hn).
  unfold chk_C03. rewrite Hrun. cbn [negb]. apply running_spec in Hrun. destruct Hrun as [He Hg].
  cbv zeta. unfold connected. rewrite Hst. cbn [cstate_eqb negb]. rewrite Hr, Hq.
  unfold TIT_STRING. cbn [filter_of].
  rewrite (gw_step_sn cfg s dg _ He Hg Hr). fold_obs. rewrite finish_r_MQ.
  unfold handle_sn. rewrite packet_legal_connected by (change (gw_st s <> Disconnected); congruence).
  cbn [negb]. set (s1 := s <| gw_last_sn := gw_now s |>).
  unfold handle_subscribe. cbv zeta. rewrite Hq. unfold TIT_STRING. cbn [N.eqb]. rewrite Hw. cbn [negb].
  assert (Hn1 : snd (new_topic_id cfg s1) = None)
    by (unfold s1; rewrite new_topic_id_last_sn; exact Hn).
  pose proof (new_topic_id_st cfg s1) as Hst1.
  destruct (new_topic_id cfg s1) as [s2 [i|]]; cbn [fst snd] in Hn1, Hst1; [discriminate Hn1|].
  rewrite sn_send_asleep by (rewrite Hst1; exact Hst). reflexivity.
Qed.

(* ------------------------------------------------------------------ the original statement is false *)

(* A formal counterexample with a well-formed configuration whose predefined topics occupy
   every topic ID 1..65534 (for all clients), so that the first REGISTER exhausts the topic IDs;
   see the header comment of this section for the counterexample with an EMPTY predefined table,
   which needs 65534 allocations. *)
Definition cex_map : topic_map :=
  snd (N.iter 65534 (fun im : N * topic_map => (fst im + 1, <[fst im := [97]]> (snd im))) (1, ∅)).

Definition cex_cfg : gw_cfg :=
  {| auth_enabled := false; cfg_user := None; cfg_pass := None; retry_delay := 1000; retry_count := 3;
     predefined := [(star, cex_map)]; min_tid := 1; max_tid := 65534 |}.

Definition cex_history : list gw_event :=
  [ EvSn (pack (Connect false true 1 60 [99])); EvMq (MqConnack false 0);
    EvSn (pack (Register 0 1 [97; 98])); EvSn (pack (Disconnect 10)) ].

Definition cex_state : gw_state := snd (gw_run cex_cfg (init_state cex_cfg) cex_history).
Definition cex_event : gw_event := EvSn (pack (Subscribe false 1 0 7 0 [120; 121])).

Lemma wf_topic_map_check (m : topic_map) :
  forallb (fun kv => (fst kv <? 65536) && wf_bytesb (snd kv)) (map_to_list m) = true -> wf_topic_map m.
Proof.
  intros H i n Hl. apply elem_of_map_to_list in Hl. apply elem_of_list_In in Hl.
  pose proof (proj1 (forallb_forall _ _) H _ Hl) as Hk. cbn [fst snd] in Hk.
  apply andb_true_iff in Hk. destruct Hk as [H1 H2].
  split; [apply N.ltb_lt, H1|apply wf_bytesb_spec, H2].
Qed.

Lemma cex_wf_cfg : wf_cfg cex_cfg.
Proof.
  unfold wf_cfg. cbn [cex_cfg predefined min_tid max_tid retry_delay cfg_user cfg_pass].
  repeat split; try lia.
  constructor; [|constructor]. cbn [fst snd]. split.
  - apply wf_bytesb_spec. reflexivity.
  - apply wf_topic_map_check. vm_compute. reflexivity.
Qed.

Lemma wf_event_pack (p : packet) : wf_pkt p = true -> wf_event (EvSn (pack p)).
Proof.
  intros H. cbn [wf_event]. split; [apply pack_wf_bytes, H|].
  pose proof (pack_size p H) as Hs. unfold len, MaxPacketLen in *. lia.
Qed.

Lemma cex_reach : reach cex_cfg cex_state.
Proof.
  apply reach_run; [|apply reach_init].
  repeat constructor; try (apply wf_event_pack; reflexivity). cbn. lia.
Qed.

Lemma cex_wf_event : wf_event cex_event.
Proof. apply wf_event_pack. reflexivity. Qed.

Lemma cex_facts :
  (running cex_state, cstate_eqb (gw_st cex_state) Asleep,
   match snd (new_topic_id cex_cfg cex_state) with None => true | Some _ => false end) = (true, true, true).
Proof. vm_compute. reflexivity. Qed.

Lemma cex_gap : running cex_state = true /\ c03_gap cex_cfg cex_state cex_event.
Proof.
  pose proof cex_facts as H. injection H as H1 H2 H3. split; [exact H1|]. split.
  - destruct (gw_st cex_state); try discriminate H2. reflexivity.
  - exists (pack (Subscribe false 1 0 7 0 [120; 121])), false, 1, 7, 0, [120; 121].
    split; [reflexivity|]. split; [apply read_pack_roundtrip; reflexivity|].
    split; [reflexivity|]. split; [reflexivity|].
    destruct (snd (new_topic_id cex_cfg cex_state)); [discriminate H3|reflexivity].
Qed.

Theorem chk_C03_sound_false :
  ~ (forall cfg s ev, wf_cfg cfg -> reach cfg s -> wf_event ev ->
       chk_C03 cfg s ev (obs_of_outs (snd (gw_step cfg s ev))) = []).
Proof.
  intros H. specialize (H cex_cfg cex_state cex_event cex_wf_cfg cex_reach cex_wf_event).
  destruct cex_gap as [Hrun Hgap]. rewrite (chk_C03_gap_fails _ _ _ Hrun Hgap) in H. discriminate H.
Qed.

Print Assumptions chk_C01_sound_all.
Print Assumptions chk_C01_sound.
Print Assumptions chk_C03_sound_partial.
Print Assumptions chk_C03_sound_awake.
Print Assumptions chk_C03_gap_fails.
Print Assumptions chk_C03_sound_false.
