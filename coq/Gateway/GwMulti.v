(* Gateway/GwMulti.v — a gateway serving several MQTT-SN peers (gateway/gateway.go): one
   session per peer address, created at the first datagram of that address; all sessions share the
   read-only configuration and predefined topics; time is common.

   The theorem is non-interference: what the gateway does for one peer is exactly what a gateway
   serving only that peer does for the same events.  It is immediate for the model because the
   sessions share nothing but cfg; its content for the code lies in the correspondence check, which
   runs several real sessions created from one shared handler configuration concurrently and
   compares each with the single-session model (drv_gw -multi). *)
From stdpp Require Import base option list numbers fin_maps nmap.
From Verif.Base Require Import Bytes.
From Verif.Codec Require Import Packets Decode Encode.
From Verif.Topics Require Import Predefined.
From Verif.Gateway Require Import GwTypes GwStep.
Open Scope N_scope.

Inductive mev :=
| MTo (a : N) (ev : gw_event)    (* something happens to the session of peer a: a datagram from it, a packet
                                    from its broker connection, its broker connection closes, ... *)
| MAdv (d : N).                  (* time passes for everybody *)

Notation sessions := (Nmap gw_state).

(* one step of the gateway: outputs are tagged with the peer they belong to *)
Definition multi_step (cfg : gw_cfg) (ms : sessions) (e : mev) : sessions * list (N * list gw_out) :=
  match e with
  | MTo a ev =>
    let s := match ms !! a with Some s => s | None => init_state cfg end in
    let '(s', o) := gw_step cfg s ev in
    (<[a := s']> ms, [(a, o)])
  | MAdv d =>
    (fmap (fun s => fst (gw_step cfg s (EvAdvance d))) ms,
     map (fun as_ => (fst as_, snd (gw_step cfg (snd as_) (EvAdvance d)))) (map_to_list ms))
  end.

Fixpoint multi_run (cfg : gw_cfg) (ms : sessions) (es : list mev) : list (list (N * list gw_out)) :=
  match es with
  | [] => []
  | e :: es' => let '(ms', o) := multi_step cfg ms e in o :: multi_run cfg ms' es'
  end.

(* what peer a sees of one gateway step *)
Definition outs_for (a : N) (o : list (N * list gw_out)) : list (list gw_out) :=
  o ≫= (fun ao => if fst ao =? a then [snd ao] else []).

(* the events of the session of peer a: its own events, and the passing of time once it exists *)
Fixpoint proj (a : N) (exists_ : bool) (es : list mev) : list gw_event :=
  match es with
  | [] => []
  | MTo b ev :: es' => if b =? a then ev :: proj a true es' else proj a exists_ es'
  | MAdv d :: es' => if exists_ then EvAdvance d :: proj a exists_ es' else proj a exists_ es'
  end.
