(* Gateway/Sound_C07C08C09_aux.v — helper lemmas for Sound_C07C08C09.v:
   (1) decoding a datagram produced by [pack] yields a packet of the same type, whatever the
       field values, as long as the datagram fits the read buffer;
   (2) how the checkers' views (MQTT packets / decoded MQTT-SN packets) distribute over outputs. *)
From stdpp Require Import base option list numbers fin_maps nmap.
From Coq Require Import Lia ZArith ZifyN ZifyNat ZifyBool.
From RecordUpdate Require Import RecordSet.
From Verif.Base Require Import Bytes BytesProofs.
From Verif.Codec Require Import Packets Decode Encode EncodeProofs.
From Verif.Topics Require Import Predefined.
From Verif.Gateway Require Import GwTypes GwStep GwStepProofs GwWf.
From Verif.Checkers Require Import ChkCodec ChkGw ChkGw2.
Import RecordSetNotations.
Open Scope N_scope.
Ltac Zify.zify_post_hook ::= Z.div_mod_to_equations.

(* ------------------------------------------------------------------ decoding keeps the type *)

Ltac inv_unpack H :=
  repeat first
   [ discriminate H
   | match type of H with
     | Ok _ = Ok _ => injection H as <-; reflexivity
     | context [obind ?o _] => destruct o; cbn [obind] in H
     | context [if ?c then _ else _] => destruct c
     | context [match ?x with _ => _ end] => destruct x
     end ].

Lemma unpack_body_ptype (t : N) (buf : bytes) (q : packet) : unpack_body t buf = Ok q -> ptype q = t.
Proof.
  unfold unpack_body. intros H.
  repeat match type of H with
  | (if ?t =? ?K then _ else _) = _ =>
    let E := fresh "E" in
    destruct (t =? K) eqn:E;
    [ apply N.eqb_eq in E; subst t;
      cbv beta delta [unpack_advertise unpack_searchgw unpack_gwinfo unpack_auth unpack_connect unpack_connack
        unpack_willtopicreq unpack_willtopic unpack_willmsgreq unpack_willmsg unpack_register unpack_regack
        unpack_publish unpack_puback unpack_pubcomp unpack_pubrec unpack_pubrel unpack_subscribe unpack_suback
        unpack_unsubscribe unpack_unsuback unpack_pingreq unpack_pingresp unpack_disconnect unpack_willtopicupd
        unpack_willtopicresp unpack_willmsgupd unpack_willmsgresp] zeta in H;
      inv_unpack H | clear E ]
  end.
  discriminate H.
Qed.

Lemma read_hdr (vl t : N) (body dg : bytes) (q : packet) :
  dg = hdr vl t ++ body -> t < 256 -> known_type t = true ->
  (65533 <= u16 vl -> MaxPacketLen < len body) ->
  len dg <= MaxPacketLen -> read_dgram dg = Ok q -> ptype q = t.
Proof.
  intros -> Ht Hk Hbig Hlen. unfold read_dgram. rewrite firstn_max by exact Hlen.
  unfold hdr, pack_header in *.
  assert (Hu : u8 t = t) by (apply u8_small; exact Ht). rewrite Hu in *.
  destruct (255 <? pkt_length vl) eqn:Hl.
  - unfold enc16w. cbn [app]. rewrite read_packet_long by exact Hk. apply unpack_body_ptype.
  - apply N.ltb_ge in Hl. rewrite (u8_small (pkt_length vl)) in * by lia. cbn [app] in *.
    destruct (N.eq_dec (pkt_length vl) 1) as [E1|N1].
    + exfalso. assert (Hv : 65533 <= u16 vl).
      { revert E1. unfold pkt_length, u16. destruct ((vl mod 65536 + 2) mod 65536 <=? 255) eqn:Hc; lia. }
      specialize (Hbig Hv). rewrite !len_cons in Hlen. lia.
    + rewrite read_packet_short by assumption. apply unpack_body_ptype.
Qed.

Ltac hdr_side :=
  first [ reflexivity
        | unfold MaxPacketLen, u16; intros; len_norm; cbn [app]; repeat rewrite ?len_app, ?len_cons, ?len_enc16w; unfold len in *; cbn [length]; lia ].

Lemma willtopic_side (x : N) (t : bytes) :
  65533 <= u16 (1 + u16 (len t)) ->
  MaxPacketLen <
  len (if 0 <? u16 (pkt_length (1 + u16 (len t)) + 65536 - (if pkt_length (1 + u16 (len t)) <=? 255 then 2 else 4))
       then [x] ++ t else []).
Proof.
  intros Hv.
  assert (Hc : (0 <? u16 (pkt_length (1 + u16 (len t)) + 65536 - (if pkt_length (1 + u16 (len t)) <=? 255 then 2 else 4))) = true).
  { apply N.ltb_lt. revert Hv. generalize (len t). intros L. unfold pkt_length, u16. intros Hv.
    destruct (((1 + L mod 65536) mod 65536 + 2) mod 65536 <=? 255) eqn:H1.
    - destruct (((1 + L mod 65536) mod 65536 + 2) mod 65536 <=? 255) eqn:H2; lia.
    - destruct (((1 + L mod 65536) mod 65536 + 4) mod 65536 <=? 255) eqn:H2; lia. }
  rewrite Hc. cbn [app]. rewrite len_cons. unfold MaxPacketLen. revert Hv. unfold u16. lia.
Qed.

Lemma read_pack_ptype (p q : packet) :
  len (pack p) <= MaxPacketLen -> read_dgram (pack p) = Ok q -> ptype q = ptype p.
Proof.
  intros Hlen Hr.
  destruct_pkt p; cbn [pack ptype] in *;
    try (eapply read_hdr; [reflexivity | reflexivity | reflexivity | | exact Hlen | exact Hr]; hdr_side);
    try (eapply read_hdr; [symmetry; apply app_nil_r | reflexivity | reflexivity | | exact Hlen | exact Hr]; hdr_side).
  - (* WillTopic *)
    destruct topic as [|b topic].
    + eapply read_hdr; [symmetry; apply app_nil_r | reflexivity | reflexivity | | exact Hlen | exact Hr]; hdr_side.
    + eapply read_hdr; [reflexivity | reflexivity | reflexivity | | exact Hlen | exact Hr].
      apply willtopic_side.
  - (* Subscribe *)
    destruct (tit =? TIT_STRING); [|destruct ((tit =? TIT_PREDEFINED) || (tit =? TIT_SHORT))];
      (eapply read_hdr; [reflexivity | reflexivity | reflexivity | | exact Hlen | exact Hr]; hdr_side).
  - (* Unsubscribe *)
    destruct (tit =? TIT_STRING); [|destruct ((tit =? TIT_PREDEFINED) || (tit =? TIT_SHORT))];
      (eapply read_hdr; [reflexivity | reflexivity | reflexivity | | exact Hlen | exact Hr]; hdr_side).
  - (* Disconnect *)
    destruct (u16 dur =? 0).
    + eapply read_hdr; [symmetry; apply app_nil_r | reflexivity | reflexivity | | exact Hlen | exact Hr]; hdr_side.
    + eapply read_hdr; [reflexivity | reflexivity | reflexivity | | exact Hlen | exact Hr]; hdr_side.
  - (* WillTopicUpd *)
    destruct topic as [|b topic].
    + eapply read_hdr; [symmetry; apply app_nil_r | reflexivity | reflexivity | | exact Hlen | exact Hr]; hdr_side.
    + eapply read_hdr; [reflexivity | reflexivity | reflexivity | | exact Hlen | exact Hr].
      apply willtopic_side.
Qed.

(* packets whose type determines them *)
Lemma ptype_willtopicreq p : ptype p = T_WILLTOPICREQ -> p = WillTopicReq.
Proof. destruct p; intros H; cbv in H; try discriminate H; reflexivity. Qed.
Lemma ptype_willmsgreq p : ptype p = T_WILLMSGREQ -> p = WillMsgReq.
Proof. destruct p; intros H; cbv in H; try discriminate H; reflexivity. Qed.
Lemma ptype_connack p : ptype p = T_CONNACK -> exists rc, p = Connack rc.
Proof. destruct p; intros H; cbv in H; try discriminate H; eauto. Qed.

(* a decoded CONNECT has protocol ID 1 *)
Lemma read_packet_body raw q : read_packet raw = Ok q -> exists t body, unpack_body t body = Ok q.
Proof.
  unfold read_packet. destruct (header_unpack raw) as [h|e|ps]; cbn [obind]; try discriminate.
  destruct (negb (known_type (h_type h))); [discriminate|].
  destruct (slice_from raw (encoded_header_length raw) PsBodySlice) as [b|e|ps]; cbn [obind]; try discriminate.
  eauto.
Qed.

Lemma read_dgram_connect_proto dg w c pr d cid : read_dgram dg = Ok (Connect w c pr d cid) -> pr = 1.
Proof.
  unfold read_dgram. intros H. apply read_packet_body in H. destruct H as [t [body H]].
  pose proof (unpack_body_ptype _ _ _ H) as Ht. cbn [ptype] in Ht. subst t.
  change (unpack_body T_CONNECT body) with (unpack_connect body) in H.
  unfold unpack_connect in H. cbv zeta in H.
  destruct (Nat.ltb (lenb body) 5); [discriminate|].
  destruct (idx body 0 PsBodySlice); cbn [obind] in H; try discriminate.
  destruct (idx body 1 PsBodySlice) as [pr'| |]; cbn [obind] in H; try discriminate.
  destruct (pr' =? 1) eqn:E; cbn [negb] in H; [|discriminate].
  destruct (get16 body 2 PsBodySlice); cbn [obind] in H; try discriminate.
  destruct (slice_from body 4 PsBodySlice); cbn [obind] in H; try discriminate.
  injection H as _ _ <- _ _. apply N.eqb_eq, E.
Qed.

(* ------------------------------------------------------------------ views of the outputs *)

Definition st_of (r : R) : gw_state := fst (fst r).

Definition out_mqs (os : list gw_out) : list mq_pkt := mqs (obs_of_outs os).
Definition out_sns (os : list gw_out) : list packet := sn_pkts (obs_of_outs os).

Lemma obs_of_outs_app a b : obs_of_outs (a ++ b) = obs_of_outs a ++ obs_of_outs b.
Proof. unfold obs_of_outs. apply bind_app. Qed.

Lemma out_mqs_app a b : out_mqs (a ++ b) = out_mqs a ++ out_mqs b.
Proof. unfold out_mqs, mqs. rewrite obs_of_outs_app. apply bind_app. Qed.

Lemma out_sns_app a b : out_sns (a ++ b) = out_sns a ++ out_sns b.
Proof. unfold out_sns, sn_pkts, sns. rewrite obs_of_outs_app, !bind_app. reflexivity. Qed.

Lemma in_out_mqs os m : In m (out_mqs os) -> exists t m0, In (OutMq t m0) os /\ m = wire m0.
Proof. apply in_mqs_obs_of_outs. Qed.

Lemma in_out_sns os q : In q (out_sns os) -> exists t dg, In (OutSn t dg) os /\ read_dgram dg = Ok q.
Proof.
  unfold out_sns, sn_pkts, sns, obs_of_outs. intros Hin.
  apply elem_of_list_In, elem_of_list_bind in Hin. destruct Hin as [dg [Hq Hdg]].
  apply elem_of_list_bind in Hdg. destruct Hdg as [o [Hdg Ho]].
  apply elem_of_list_bind in Ho. destruct Ho as [go [Ho Hgo]].
  destruct go as [t dg'|t m0|t c|t]; cbn in Ho.
  - apply elem_of_list_singleton in Ho. subst o. cbn in Hdg. apply elem_of_list_singleton in Hdg. subst dg'.
    exists t, dg. split; [apply elem_of_list_In, Hgo|].
    destruct (read_dgram dg) as [p|e|ps]; [|inversion Hq|inversion Hq].
    apply elem_of_list_singleton in Hq. subst p. reflexivity.
  - apply elem_of_list_singleton in Ho. subst o. inversion Hdg.
  - inversion Ho.
  - apply elem_of_list_singleton in Ho. subst o. inversion Hdg.
Qed.

Lemma length_out_mqs os : (length (out_mqs os) <= length os)%nat.
Proof.
  induction os as [|o os IH]; [cbn; lia|].
  change (o :: os) with ([o] ++ os). rewrite out_mqs_app, !app_length.
  assert (length (out_mqs [o]) <= 1)%nat by (destruct o; cbn; lia). cbn [length] in *. lia.
Qed.

Lemma length_out_sns os : (length (out_sns os) <= length os)%nat.
Proof.
  induction os as [|o os IH]; [cbn; lia|].
  change (o :: os) with ([o] ++ os). rewrite out_sns_app, !app_length.
  assert (length (out_sns [o]) <= 1)%nat.
  { destruct o as [t dg| | |]; cbn; try lia. destruct (read_dgram dg); cbn; lia. }
  cbn [length] in *. lia.
Qed.

(* every MQTT-SN datagram among the outputs is the encoding of a packet satisfying Q that fits the
   read buffer *)
Definition all_sn (Q : packet -> Prop) (os : list gw_out) : Prop :=
  forall t dg, In (OutSn t dg) os -> exists p, dg = pack p /\ len (pack p) <= MaxPacketLen /\ Q p.

Lemma all_sn_nil Q : all_sn Q [].
Proof. intros t dg []. Qed.

Lemma all_sn_app Q a b : all_sn Q a -> all_sn Q b -> all_sn Q (a ++ b).
Proof. intros Ha Hb t dg Hin. apply in_app_or in Hin. destruct Hin; [eapply Ha|eapply Hb]; eassumption. Qed.

Lemma all_sn_mq Q t m : all_sn Q [OutMq t m].
Proof. intros t' dg [H|[]]. discriminate. Qed.

Lemma all_sn_one (Q : packet -> Prop) t p : len (pack p) <= MaxPacketLen -> Q p -> all_sn Q [OutSn t (pack p)].
Proof. intros Hl HQ t' dg [E|[]]. inversion E; subst. eauto. Qed.

Lemma all_sn_impl (Q Q' : packet -> Prop) os : (forall p, Q p -> Q' p) -> all_sn Q os -> all_sn Q' os.
Proof. intros HQ H t dg Hin. destruct (H t dg Hin) as [p [E [Hl Hp]]]. eauto. Qed.

Lemma all_mq_impl (P P' : mq_pkt -> Prop) os : (forall m, P m -> P' m) -> all_mq P os -> all_mq P' os.
Proof. intros HP H t m Hin. apply HP. eapply H. exact Hin. Qed.

Lemma sn_send_owned_sn (Q : packet -> Prop) s o p : Q p -> all_sn Q (outs_of (sn_send_owned s o p)).
Proof.
  intros HQ. unfold sn_send_owned.
  destruct (gw_st s); try (cbn; apply all_sn_nil);
    (destruct (len (pack p) <=? MaxPacketLen) eqn:Hl; cbn; [apply all_sn_one; [apply N.leb_le, Hl|exact HQ]|apply all_sn_nil]).
Qed.

Lemma sn_send_sn (Q : packet -> Prop) s p : Q p -> all_sn Q (outs_of (sn_send s p)).
Proof. apply sn_send_owned_sn. Qed.

Lemma sn_send_now_sn (Q : packet -> Prop) s p : Q p -> all_sn Q (outs_of (sn_send_now s p)).
Proof.
  intros HQ. unfold sn_send_now.
  destruct (len (pack p) <=? MaxPacketLen) eqn:Hl; cbn; [apply all_sn_one; [apply N.leb_le, Hl|exact HQ]|apply all_sn_nil].
Qed.

Lemma mq_send_sn Q s m : all_sn Q (outs_of (mq_send s m)).
Proof. cbn. apply all_sn_mq. Qed.

Lemma andthen_sn Q r g :
  all_sn Q (outs_of r) -> (forall s, all_sn Q (outs_of (g s))) -> all_sn Q (outs_of (andthen r g)).
Proof.
  intros Hr Hg. destruct r as [[s o] [|c]]; cbn in *.
  - specialize (Hg s). destruct (g s) as [[s' o'] res]; cbn in *. apply all_sn_app; assumption.
  - exact Hr.
Qed.

Lemma send_all_sn (Q : packet -> Prop) ps : (forall o p, In (o, p) ps -> Q p) -> forall s, all_sn Q (outs_of (send_all s ps)).
Proof.
  induction ps as [|[o p] ps IH]; intros HQ s; cbn [send_all].
  - apply all_sn_nil.
  - apply andthen_sn; [apply sn_send_sn; eapply HQ; left; reflexivity|intros s'; apply IH].
    intros o' p' Hin. eapply HQ. right. exact Hin.
Qed.

Lemma pack_disconnect0_len : len (pack (Disconnect 0)) <= MaxPacketLen.
Proof. apply N.leb_le. vm_compute. reflexivity. Qed.

Lemma begin_end_sn (Q : packet -> Prop) s c a b : Q (Disconnect 0) -> all_sn Q (snd (begin_end s c a b)).
Proof.
  intros HQ. unfold begin_end. cbn [snd]. intros t dg [H|H]; [discriminate|].
  destruct (gw_st s); cbn in H; try contradiction; destruct H as [H|[]]; inversion H; subst;
    exists (Disconnect 0); (split; [reflexivity|split; [apply pack_disconnect0_len|exact HQ]]).
Qed.

Lemma finish_r_sn (Q : packet -> Prop) r a b : Q (Disconnect 0) -> all_sn Q (outs_of r) -> all_sn Q (snd (finish_r r a b)).
Proof.
  intros HQ H. destruct r as [[s o] [|c]]; cbn [finish_r outs_of fst snd] in *; [exact H|].
  pose proof (begin_end_sn Q s c a b HQ) as Hb. destruct (begin_end s c a b) as [s' o']. cbn [snd] in *.
  apply all_sn_app; assumption.
Qed.

(* what the decoded view shows of such outputs *)
Lemma sns_sound Q os q : all_sn Q os -> In q (out_sns os) ->
  exists p, Q p /\ ptype q = ptype p /\ (wf_pkt p = true -> q = p).
Proof.
  intros Hall Hin. apply in_out_sns in Hin. destruct Hin as [t [dg [Hin Hr]]].
  destruct (Hall t dg Hin) as [p [-> [Hl HQ]]]. exists p. split; [exact HQ|]. split.
  - eapply read_pack_ptype; eassumption.
  - intros Hwf. rewrite (read_pack_roundtrip p Hwf) in Hr. injection Hr as <-. reflexivity.
Qed.

Lemma sns_willtopicreq Q os : all_sn Q os -> In WillTopicReq (out_sns os) -> Q WillTopicReq.
Proof.
  intros Hall Hin. destruct (sns_sound Q os _ Hall Hin) as [p [HQ [Ht _]]].
  symmetry in Ht. apply ptype_willtopicreq in Ht. subst p. exact HQ.
Qed.

Lemma sns_willmsgreq Q os : all_sn Q os -> In WillMsgReq (out_sns os) -> Q WillMsgReq.
Proof.
  intros Hall Hin. destruct (sns_sound Q os _ Hall Hin) as [p [HQ [Ht _]]].
  symmetry in Ht. apply ptype_willmsgreq in Ht. subst p. exact HQ.
Qed.

Lemma sns_connack (Q : packet -> Prop) os code :
  (forall rc, Q (Connack rc) -> rc < 256) -> all_sn Q os -> In (Connack code) (out_sns os) -> Q (Connack code).
Proof.
  intros Hb Hall Hin. destruct (sns_sound Q os _ Hall Hin) as [p [HQ [Ht Hwf]]].
  symmetry in Ht. apply ptype_connack in Ht. destruct Ht as [rc ->].
  assert (E : Connack code = Connack rc). { apply Hwf. cbn [wf_pkt]. unfold lt8. apply N.ltb_lt, Hb, HQ. }
  rewrite E. exact HQ.
Qed.

(* the tail finish_r adds is invisible to the MQTT view and adds at most a DISCONNECT to the MQTT-SN view *)
Lemma out_mqs_begin_end s c a b : out_mqs (snd (begin_end s c a b)) = [].
Proof. unfold begin_end. cbn [snd]. destruct (gw_st s); reflexivity. Qed.

Lemma read_disconnect0 : read_dgram (pack (Disconnect 0)) = Ok (Disconnect 0).
Proof. apply read_pack_roundtrip. reflexivity. Qed.

Lemma out_sns_sn t dg : out_sns [OutSn t dg] = match read_dgram dg with Ok p => [p] | _ => [] end.
Proof. unfold out_sns, sn_pkts, sns, obs_of_outs. cbn [mbind list_bind obs_of_out sn_of app]. rewrite app_nil_r. reflexivity. Qed.

Lemma out_sns_begin_end s c a b :
  out_sns (snd (begin_end s c a b)) = [] \/ out_sns (snd (begin_end s c a b)) = [Disconnect 0].
Proof.
  unfold begin_end. cbn [snd].
  destruct (gw_st s); try (left; reflexivity); right;
    change (OutCancel (gw_now s) c :: [OutSn (gw_now s) (pack (Disconnect 0))])
      with ([OutCancel (gw_now s) c] ++ [OutSn (gw_now s) (pack (Disconnect 0))]);
    rewrite out_sns_app, out_sns_sn, read_disconnect0; reflexivity.
Qed.

Lemma out_mqs_finish_r r a b : out_mqs (snd (finish_r r a b)) = out_mqs (outs_of r).
Proof.
  destruct r as [[s o] [|c]]; cbn [finish_r outs_of fst snd]; [reflexivity|].
  pose proof (out_mqs_begin_end s c a b) as Hb. destruct (begin_end s c a b) as [s' o']. cbn [snd] in *.
  rewrite out_mqs_app, Hb, app_nil_r. reflexivity.
Qed.

Lemma out_sns_finish_r r a b :
  exists tl, out_sns (snd (finish_r r a b)) = out_sns (outs_of r) ++ tl /\ (tl = [] \/ tl = [Disconnect 0]).
Proof.
  destruct r as [[s o] [|c]]; cbn [finish_r outs_of fst snd].
  - exists []. rewrite app_nil_r. auto.
  - pose proof (out_sns_begin_end s c a b) as Hb. destruct (begin_end s c a b) as [s' o']. cbn [snd] in *.
    rewrite out_sns_app. eauto.
Qed.
