(* Gateway/Sound_C04C11_aux.v — codec and list facts used by Sound_C04C11.v:
   what the datagrams the gateway writes decode to, without assuming the packets are
   well-formed in the sense of wf_pkt (a broker PUBLISH payload is only bounded by the
   size check of snSend). *)
From Coq Require Import List NArith Bool Lia ZArith ZifyN ZifyNat ZifyBool.
From stdpp Require Import base option list numbers fin_maps nmap.
From Verif.Base Require Import Bytes BytesProofs.
From Verif.Codec Require Import Packets Decode Encode EncodeProofs.
From Verif.Checkers Require Import ChkCodec.
Open Scope N_scope.
Ltac Zify.zify_post_hook ::= Z.div_mod_to_equations.

(* ------------------------------------------------------------------ framed datagrams *)

Lemma read_framed (vl t : N) (body : bytes) :
  vl + 4 < 65536 -> t < 256 -> known_type t = true ->
  len (hdr vl t ++ body) <= MaxPacketLen ->
  read_dgram (hdr vl t ++ body) = unpack_body t body.
Proof.
  intros Hv Ht Hk Hsz. unfold read_dgram. rewrite firstn_max by exact Hsz.
  destruct (N.le_gt_cases (vl + 2) 255) as [Hs|Hl].
  - rewrite hdr_short by assumption. cbn [app]. apply read_packet_short; [clear - Hs; lia|exact Hk].
  - rewrite hdr_long by lia. cbn [app]. apply read_packet_long. exact Hk.
Qed.

Lemma len_hdr_le (vl t : N) : len (hdr vl t) <= 4.
Proof.
  unfold hdr, pack_header. destruct (255 <? pkt_length vl); len_norm; lia.
Qed.

Ltac unpack_inv H :=
  repeat match type of H with
         | obind ?o _ = Ok _ => let E := fresh "E" in destruct o eqn:E; cbn [obind] in H; try discriminate H
         | (if ?c then _ else _) = Ok _ => let E := fresh "E" in destruct c eqn:E; try discriminate H
         | match ?x with _ => _ end = Ok _ => destruct x; try discriminate H
         | (let _ := _ in _) = Ok _ => cbv zeta in H
         end.

Lemma unpack_body_ptype (t : N) (body : bytes) (q : packet) :
  unpack_body t body = Ok q -> ptype q = t.
Proof.
  unfold unpack_body. intros H.
  repeat match type of H with
         | (if ?t =? ?c then _ else _) = Ok _ =>
           let E := fresh "E" in destruct (t =? c) eqn:E; [apply N.eqb_eq in E; subst t|]
         end; try discriminate H.
  all: match type of H with
       | ?f _ = Ok _ => unfold f in H
       end; cbv zeta in H; unpack_inv H; inversion H; reflexivity.
Qed.

(* ------------------------------------------------------------------ type of a packed packet *)

Definition no_wt (p : packet) : Prop :=
  match p with WillTopic _ _ _ | WillTopicUpd _ _ _ => False | _ => True end.

Ltac framed_side Hsz :=
  first
    [ reflexivity
    | exact Hsz
    | (let H := fresh "Hb" in
       pose proof Hsz as H; rewrite len_app in H; len_norm;
       repeat (rewrite len_app in H || rewrite len_cons in H || rewrite len_enc16w in H);
       change (@len N []) with 0 in H;
       unfold MaxPacketLen in H; unfold u16; clear Hsz; lia) ].

Lemma pack_ptype (p q : packet) :
  no_wt p -> len (pack p) <= MaxPacketLen -> read_dgram (pack p) = Ok q -> ptype q = ptype p.
Proof.
  intros Hk Hsz Hr. destruct_pkt p; try (exfalso; exact Hk); cbn [pack ptype] in *.
  all: try match type of Hr with read_dgram (hdr ?v ?t) = _ =>
             rewrite <- (app_nil_r (hdr v t)) in Hr, Hsz end.
  all: try (rewrite read_framed in Hr; [apply unpack_body_ptype in Hr; exact Hr|framed_side Hsz..]).
  - destruct (tit =? TIT_STRING); [|destruct ((tit =? TIT_PREDEFINED) || (tit =? TIT_SHORT))];
      (rewrite read_framed in Hr; [apply unpack_body_ptype in Hr; exact Hr|framed_side Hsz..]).
  - destruct (tit =? TIT_STRING); [|destruct ((tit =? TIT_PREDEFINED) || (tit =? TIT_SHORT))];
      (rewrite read_framed in Hr; [apply unpack_body_ptype in Hr; exact Hr|framed_side Hsz..]).
  - destruct (u16 dur =? 0).
    + rewrite <- (app_nil_r (hdr 0 T_DISCONNECT)) in Hr, Hsz.
      rewrite read_framed in Hr; [apply unpack_body_ptype in Hr; exact Hr|framed_side Hsz..].
    + rewrite read_framed in Hr; [apply unpack_body_ptype in Hr; exact Hr|framed_side Hsz..].
Qed.

Definition nreg (p : packet) : Prop :=
  len (pack p) <= MaxPacketLen -> forall q, read_dgram (pack p) = Ok q -> ptype q = ptype p.

Lemma nreg_intro (p : packet) : no_wt p -> nreg p.
Proof. intros Hk Hsz q Hr. exact (pack_ptype p q Hk Hsz Hr). Qed.

(* ------------------------------------------------------------------ the three packets C04 reads *)

Lemma be16_enc16w (x : N) : be16 ((x / 256) mod 256) (x mod 256) = x mod 65536.
Proof. unfold be16. lia. Qed.

Lemma ub_register b : unpack_body T_REGISTER b = unpack_register b. Proof. reflexivity. Qed.
Lemma ub_regack b : unpack_body T_REGACK b = unpack_regack b. Proof. reflexivity. Qed.
Lemma ub_suback b : unpack_body T_SUBACK b = unpack_suback b. Proof. reflexivity. Qed.

Lemma read_register (i mid : N) (nm : bytes) (q : packet) :
  len (pack (Register i mid nm)) <= MaxPacketLen ->
  read_dgram (pack (Register i mid nm)) = Ok q ->
  q = Register (i mod 65536) (mid mod 65536) nm.
Proof.
  intros Hsz Hr. cbn [pack] in *.
  rewrite read_framed in Hr; [|framed_side Hsz..].
  rewrite ub_register in Hr. revert Hr. run. destruct nm as [|x nm]; cbn [length Nat.leb]; [discriminate|].
  cbn [obind]. rewrite !be16_enc16w. intros Hr. inversion Hr. reflexivity.
Qed.

Lemma read_regack (i mid rc : N) :
  read_dgram (pack (Regack i mid rc)) = Ok (Regack (i mod 65536) (mid mod 65536) (rc mod 256)).
Proof.
  cbn [pack]. rewrite read_framed; [|try reflexivity..].
  - rewrite ub_regack. run. rewrite !be16_enc16w. reflexivity.
  - len_norm.
    pose proof (len_hdr_le 5 T_REGACK). unfold MaxPacketLen. lia.
Qed.

Lemma read_suback (qs i mid rc : N) :
  read_dgram (pack (Suback qs i mid rc)) =
  Ok (Suback ((qos_bits qs / 32) mod 4) (i mod 65536) (mid mod 65536) (rc mod 256)).
Proof.
  cbn [pack]. rewrite read_framed; [|try reflexivity..].
  - rewrite ub_suback. run. rewrite !be16_enc16w. reflexivity.
  - len_norm.
    pose proof (len_hdr_le 6 T_SUBACK). unfold MaxPacketLen. lia.
Qed.

Lemma len_pack_pingresp : len (pack Pingresp) = 2.
Proof. reflexivity. Qed.


(* ------------------------------------------------------------------ lists *)

Lemma bind_nil_all {A B} (f : A -> list B) (l : list A) :
  (forall x, In x l -> f x = []) -> l ≫= f = [].
Proof.
  induction l as [|x l IH]; intros Hf; [reflexivity|].
  cbn. rewrite (Hf x) by (left; reflexivity). rewrite IH; [reflexivity|].
  intros y Hy. apply Hf. right. exact Hy.
Qed.

Lemma in_bind_iff {A B} (f : A -> list B) (l : list A) (y : B) :
  In y (l ≫= f) <-> exists x, In x l /\ In y (f x).
Proof.
  rewrite <- elem_of_list_In, elem_of_list_bind. split.
  - intros [x [H1 H2]]. exists x. rewrite <- !elem_of_list_In. split; assumption.
  - intros [x [H1 H2]]. exists x. rewrite !elem_of_list_In. split; assumption.
Qed.

Lemma bind_app_l {A B} (f : A -> list B) (l1 l2 : list A) : (l1 ++ l2) ≫= f = (l1 ≫= f) ++ (l2 ≫= f).
Proof. induction l1 as [|x l1 IH]; [reflexivity|]. cbn. rewrite IH, app_assoc. reflexivity. Qed.
