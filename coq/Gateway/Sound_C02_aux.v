(* Gateway/Sound_C02_aux.v — helper lemmas for Sound_C02.v:
   - what a PUBLISH / REGISTER the gateway writes decodes to, assuming only the size check of
     snSend (a broker payload need not satisfy wf_pkt's MaxPayloadLength bound);
   - the reachability invariant Inv2: the PUBLISH a broker-publish transaction keeps for after
     the REGACK carries topic ID type 0 and the topic ID of the transaction's REGISTER
     (Inv2_init, gw_step_inv2, reach_inv2). *)
From Coq Require Import List NArith Bool Lia ZArith ZifyN ZifyNat ZifyBool.
From stdpp Require Import base option list numbers fin_maps nmap.
From RecordUpdate Require Import RecordSet.
From Verif.Base Require Import Bytes BytesProofs.
From Verif.Codec Require Import Packets Decode Encode EncodeProofs.
From Verif.Topics Require Import Predefined PredefinedProofs.
From Verif.Gateway Require Import GwTypes GwStep GwWf Sound_C04C11_aux.
From Verif.Checkers Require Import ChkCodec.
Import RecordSetNotations.
Open Scope N_scope.
Ltac Zify.zify_post_hook ::= Z.div_mod_to_equations.

(* ------------------------------------------------------------------ datagrams read back *)

Lemma ub_publish b : unpack_body T_PUBLISH b = unpack_publish b. Proof. reflexivity. Qed.

Lemma read_publish (dup : bool) (q : N) (r : bool) (tit ti mi : N) (d : bytes) :
  len (pack (Publish dup q r tit ti mi d)) <= MaxPacketLen ->
  read_dgram (pack (Publish dup q r tit ti mi d)) =
  Ok (Publish dup (q mod 4) r (tit mod 4) (ti mod 65536) (mi mod 65536) d).
Proof.
  intros Hsz. cbn [pack] in *.
  rewrite read_framed; [|framed_side Hsz..].
  rewrite ub_publish. run. rewrite !be16_enc16w. destruct dup, r; fields.
Qed.

Lemma read_register_ok (i mid x : N) (nm : bytes) :
  len (pack (Register i mid (x :: nm))) <= MaxPacketLen ->
  read_dgram (pack (Register i mid (x :: nm))) = Ok (Register (i mod 65536) (mid mod 65536) (x :: nm)).
Proof.
  intros Hsz. cbn [pack] in *.
  rewrite read_framed; [|framed_side Hsz..].
  rewrite ub_register. run. rewrite !be16_enc16w. reflexivity.
Qed.

(* a REGISTER with an empty topic name is not a packet the codec accepts *)
Lemma read_register_empty (i mid : N) :
  read_dgram (pack (Register i mid [])) = Err ErrBadLength.
Proof.
  cbn [pack].
  rewrite read_framed; [|try reflexivity..].
  - rewrite ub_register. run. reflexivity.
  - apply N.leb_le. reflexivity.
Qed.

Lemma read_disconnect0 : read_dgram (pack (Disconnect 0)) = Ok (Disconnect 0).
Proof. vm_compute. reflexivity. Qed.

(* ------------------------------------------------------------------ the invariant *)

Definition pub_ok (tid : N) (pub : packet) : Prop :=
  match pub with
  | Publish _ q _ tit tid' pm _ => tit = 0 /\ tid' = tid /\ q < 4 /\ pm < 65536
  | _ => False
  end.

Definition okT2 (t : txn) : Prop :=
  match t with
  | TxBrokerPub _ _ _ (RsSn (Register tid _ _)) (Some pub) _ => pub_ok tid pub
  | _ => True
  end.

Definition Inv2 (s : gw_state) : Prop := map_Forall (fun _ t => okT2 t) (gw_objs s).

Definition InvR2 (r : R) : Prop := Inv2 (fst (fst r)).

Lemma okT2_ack m q st k a sp n : okT2 (TxBrokerPub m q st (RsAck k a) sp n).
Proof. exact I. Qed.

Lemma okT2_none m q st d n : okT2 (TxBrokerPub m q st d None n).
Proof. destruct d as [p|k a]; [destruct p|]; exact I. Qed.

Lemma okT2_nonreg m q st p sp n :
  match p with Register _ _ _ => False | _ => True end -> okT2 (TxBrokerPub m q st (RsSn p) sp n).
Proof. destruct p; cbn; try (intros; exact I). intros []. Qed.

Lemma okT2_dup m q st st' data sp n n' :
  okT2 (TxBrokerPub m q st data sp n) ->
  okT2 (TxBrokerPub m q st' (match data with RsSn p => RsSn (set_dup p) | RsAck k a => RsAck k a end) sp n').
Proof. destruct data as [p|k a]; [destruct p|]; cbn; auto. Qed.

Lemma Inv2_same s s' : gw_objs s' = gw_objs s -> Inv2 s -> Inv2 s'.
Proof. unfold Inv2. intros ->. tauto. Qed.

Lemma Inv2_init cfg : Inv2 (init_state cfg).
Proof. unfold Inv2. cbn. apply map_Forall_empty. Qed.

Ltac peel2 :=
  match goal with
  | |- Inv2 (set ?p ?f ?s) => apply (Inv2_same s); [reflexivity|]
  end.

Lemma Inv2_arm s k d : Inv2 s -> Inv2 (arm s k d).
Proof. apply Inv2_same; reflexivity. Qed.

Lemma Inv2_disarm_obj s g : Inv2 s -> Inv2 (disarm_obj s g).
Proof. apply Inv2_same; reflexivity. Qed.

Lemma Inv2_disarm_ping s g : Inv2 s -> Inv2 (disarm_ping s g).
Proof. apply Inv2_same; reflexivity. Qed.

Lemma Inv2_note_handed s i n : Inv2 s -> Inv2 (note_handed s i n).
Proof. apply Inv2_same; reflexivity. Qed.

Lemma Inv2_insert s k t : okT2 t -> Inv2 s -> Inv2 (s <| gw_objs := <[k := t]> (gw_objs s) |>).
Proof. intros Ht H. unfold Inv2. cbn. apply map_Forall_insert_2; assumption. Qed.

Lemma Inv2_delete s k : Inv2 s -> Inv2 (s <| gw_objs := delete k (gw_objs s) |>).
Proof. intros H. unfold Inv2. cbn. apply map_Forall_delete. exact H. Qed.

Lemma Inv2_set_obj s g t : okT2 t -> Inv2 s -> Inv2 (set_obj s g t).
Proof. intros Ht HI. unfold set_obj. apply Inv2_insert; assumption. Qed.

Lemma Inv2_finish_obj s g : Inv2 s -> Inv2 (finish_obj s g).
Proof.
  intros HI. unfold finish_obj. destruct (gw_objs s !! g) as [t|]; [|exact HI]. cbv zeta.
  assert (H : Inv2 (disarm_obj s g <| gw_objs := delete g (gw_objs (disarm_obj s g)) |>))
    by (apply Inv2_delete, Inv2_disarm_obj, HI).
  destruct t; [peel2; exact H| | |];
    (match goal with |- Inv2 (match ?x with _ => _ end) => destruct x as [g'|] end;
     [destruct (g' =? g); [peel2; exact H|exact H]|exact H]).
Qed.

Lemma Inv2_lookup s g t : Inv2 s -> gw_objs s !! g = Some t -> okT2 t.
Proof. intros HI Hg. exact (HI g t Hg). Qed.

Lemma get_by_id_lookup s mid g t : get_by_id s mid = Some (g, t) -> gw_objs s !! g = Some t.
Proof.
  unfold get_by_id. destruct (gw_by_id s !! mid) as [g'|]; [|discriminate].
  destruct (gw_objs s !! g') as [t'|] eqn:E; [|discriminate]. intros H. inversion H; subst. exact E.
Qed.

Section Inv2Pres.
Variable cfg : gw_cfg.

Lemma seq_next_objs s : gw_objs (fst (fst (seq_next cfg s))) = gw_objs s.
Proof. unfold seq_next. cbv zeta. cbn [fst]. destruct (gw_seq_next s =? max_tid cfg); reflexivity. Qed.

Lemma skip_predefined_objs fuel : forall s id, gw_objs (fst (skip_predefined fuel cfg s id)) = gw_objs s.
Proof.
  induction fuel as [|fuel IH]; intros s id; cbn [skip_predefined];
    destruct (get_name (predefined cfg) (gw_client_id s) id) as [n|]; try reflexivity.
  pose proof (seq_next_objs s) as Hs. destruct (seq_next cfg s) as [[s' id'] ov]. cbn [fst] in Hs.
  destruct ov; [exact Hs|]. rewrite IH. exact Hs.
Qed.

Lemma new_topic_id_objs s : gw_objs (fst (new_topic_id cfg s)) = gw_objs s.
Proof.
  unfold new_topic_id. destruct (gw_no_more_tids s); [reflexivity|].
  pose proof (seq_next_objs s) as Hs. destruct (seq_next cfg s) as [[s' id'] ov]. cbn [fst] in Hs.
  destruct ov; [exact Hs|]. rewrite skip_predefined_objs. exact Hs.
Qed.

Lemma new_topic_id_inv2 s : Inv2 s -> Inv2 (fst (new_topic_id cfg s)).
Proof. apply Inv2_same, new_topic_id_objs. Qed.

Lemma register_topic_inv2 s name : Inv2 s -> Inv2 (fst (register_topic cfg s name)).
Proof.
  intros HI. unfold register_topic. destruct (find_registered s name); [exact HI|].
  pose proof (new_topic_id_inv2 s HI) as Hs. destruct (new_topic_id cfg s) as [s' [i|]]; cbn [fst] in *.
  - peel2. exact Hs.
  - exact Hs.
Qed.

Lemma InvR2_ok s o : Inv2 s -> InvR2 (ok s o).
Proof. intros H; exact H. Qed.

Lemma InvR2_stop s o c : Inv2 s -> InvR2 (stop s o c).
Proof. intros H; exact H. Qed.

Lemma InvR2_sn_send_owned s o p : Inv2 s -> InvR2 (sn_send_owned s o p).
Proof.
  intros HI. unfold sn_send_owned.
  destruct (gw_st s); try destruct (len (pack p) <=? MaxPacketLen); exact HI.
Qed.

Lemma InvR2_sn_send s p : Inv2 s -> InvR2 (sn_send s p).
Proof. apply InvR2_sn_send_owned. Qed.

Lemma InvR2_mq_send s m : Inv2 s -> InvR2 (mq_send s m).
Proof. intros H; exact H. Qed.

Lemma InvR2_andthen r g : InvR2 r -> (forall s, Inv2 s -> InvR2 (g s)) -> InvR2 (andthen r g).
Proof.
  intros Hr Hg. destruct r as [[s o] [|c]]; unfold InvR2 in *; cbn [andthen fst] in *; [|exact Hr].
  specialize (Hg s Hr). destruct (g s) as [[s' o'] res]. exact Hg.
Qed.

Lemma InvR2_send_all ps : forall s, Inv2 s -> InvR2 (send_all s ps).
Proof.
  induction ps as [|[o p] ps IH]; intros s HI; cbn [send_all].
  - exact HI.
  - apply InvR2_andthen; [apply InvR2_sn_send, HI|intros s' HI'; apply IH, HI'].
Qed.

Ltac inv2_step :=
  first
    [ assumption
    | exact I
    | apply okT2_ack | apply okT2_none
    | apply InvR2_ok | apply InvR2_stop | apply InvR2_sn_send | apply InvR2_sn_send_owned
    | apply InvR2_mq_send | apply InvR2_send_all
    | apply InvR2_andthen; [|intros ? ?]
    | apply Inv2_arm | apply Inv2_disarm_obj | apply Inv2_disarm_ping | apply Inv2_note_handed
    | apply Inv2_finish_obj
    | apply Inv2_set_obj; [cbn [okT2]|]
    | apply Inv2_insert; [cbn [okT2]|]
    | peel2
    | match goal with |- InvR2 (match ?x with _ => _ end) => destruct x eqn:? end
    | match goal with |- InvR2 (if ?x then _ else _) => destruct x eqn:? end
    | match goal with |- Inv2 (match ?x with _ => _ end) => destruct x eqn:? end
    | match goal with |- Inv2 (if ?x then _ else _) => destruct x eqn:? end
    | progress cbv zeta ].
Ltac inv2_auto := repeat inv2_step.

Lemma connect_auth_done_inv2 s g mq : Inv2 s -> InvR2 (connect_auth_done s g mq).
Proof. intros HI. unfold connect_auth_done. inv2_auto. Qed.

Lemma connect_start_inv2 s g mq a : Inv2 s -> InvR2 (connect_start s g mq a).
Proof. intros HI. unfold connect_start. inv2_auto. apply connect_auth_done_inv2, HI. Qed.

Lemma handle_connect_inv2 s w c pr d cid : Inv2 s -> InvR2 (handle_connect cfg s w c pr d cid).
Proof.
  intros HI. unfold handle_connect, new_obj. inv2_auto; apply connect_start_inv2; inv2_auto.
Qed.

Lemma connect_auth_inv2 s g mq a me da : Inv2 s -> InvR2 (connect_auth s g mq a me da).
Proof. intros HI. unfold connect_auth. inv2_auto. apply connect_auth_done_inv2. inv2_auto. Qed.

Lemma handle_client_publish_inv2 s dup q r tit tid mid data :
  Inv2 s -> InvR2 (handle_client_publish cfg s dup q r tit tid mid data).
Proof. intros HI. unfold handle_client_publish, new_obj. inv2_auto. Qed.

Lemma handle_unsubscribe_inv2 s tit mid tid name : Inv2 s -> InvR2 (handle_unsubscribe cfg s tit mid tid name).
Proof. intros HI. unfold handle_unsubscribe. inv2_auto. Qed.

Lemma handle_subscribe_inv2 s dup q tit mid tid name :
  Inv2 s -> InvR2 (handle_subscribe cfg s dup q tit mid tid name).
Proof.
  intros HI. unfold handle_subscribe, new_obj. cbv zeta.
  pose proof (register_topic_inv2 s name HI) as Hs.
  destruct (register_topic cfg s name) as [s' [i|]]; cbn [fst] in Hs; inv2_auto.
Qed.

Lemma bp_proceed_inv2 s g mid qos st data snpub :
  okT2 (TxBrokerPub mid qos st data snpub 0) -> Inv2 s -> InvR2 (bp_proceed cfg s g mid qos st data snpub).
Proof. intros Ht HI. unfold bp_proceed. cbv zeta. destruct data as [p|k m]; destruct st; inv2_auto. Qed.

Lemma bp_regack_inv2 s g t code : okT2 t -> Inv2 s -> InvR2 (bp_regack cfg s g t code).
Proof.
  intros Ht HI. unfold bp_regack.
  destruct t as [| | |m0 q0 st d0 snpub n0]; try exact HI.
  destruct st; try exact HI. destruct d0 as [p|k a]; [|exact HI].
  destruct_pkt p; try exact HI. destruct snpub as [pub|]; [|exact HI].
  cbn [okT2] in Ht. cbv zeta.
  destruct (negb (code =? RC_ACCEPTED)); [inv2_auto|].
  apply bp_proceed_inv2; [|inv2_auto].
  apply okT2_nonreg. destruct pub; try exact I. exact Ht.
Qed.

Lemma handle_sn_inv2 s p : Inv2 s -> InvR2 (handle_sn cfg s p).
Proof.
  intros HI. unfold handle_sn.
  destruct (negb (packet_legal cfg s p)); [exact HI|].
  destruct_pkt p; try exact HI.
  - (* Auth *) inv2_auto. apply connect_auth_inv2. inv2_auto.
  - (* Connect *) apply handle_connect_inv2, HI.
  - (* WillTopic *) inv2_auto.
  - (* WillMsg *) inv2_auto.
  - (* Register *)
    pose proof (register_topic_inv2 s name HI) as Hr.
    destruct (register_topic cfg s name) as [s' [i|]]; cbn [fst] in Hr; inv2_auto.
  - (* Regack *)
    destruct (get_by_id s mid) as [[g t]|] eqn:E; [|exact HI].
    assert (Ht : okT2 t) by (eapply Inv2_lookup; [exact HI|eapply get_by_id_lookup; exact E]).
    destruct t; try exact HI. apply bp_regack_inv2; assumption.
  - (* Publish *) apply handle_client_publish_inv2, HI.
  - (* Puback *) inv2_auto; try (apply bp_proceed_inv2; inv2_auto).
  - (* Pubcomp *) inv2_auto; try (apply bp_proceed_inv2; inv2_auto).
  - (* Pubrec *) inv2_auto; try (apply bp_proceed_inv2; inv2_auto).
  - (* Pubrel *) inv2_auto.
  - (* Subscribe *) apply handle_subscribe_inv2, HI.
  - (* Unsubscribe *) apply handle_unsubscribe_inv2, HI.
  - (* Pingreq *) inv2_auto.
  - (* Disconnect *) inv2_auto.
Qed.

Lemma handle_broker_publish_inv2 s dup q r t mid pl :
  q < 4 -> mid < 65536 -> Inv2 s -> InvR2 (handle_broker_publish cfg s dup q r t mid pl).
Proof.
  intros Hq Hmid HI. unfold handle_broker_publish, new_obj.
  destruct (if is_short_topic t then _ else _) as [[tid tit]|]; cbv zeta.
  - inv2_auto; (apply bp_proceed_inv2; [apply okT2_nonreg; exact I|inv2_auto]).
  - destruct ((q =? 0) && negb true); [inv2_auto|].
    destruct (if q =? 0 then _ else _) as [mid'|]; [|inv2_auto].
    destruct (2 <? q); [inv2_auto|].
    pose proof (new_topic_id_inv2 s HI) as Hs.
    destruct (new_topic_id cfg s) as [s' [i|]]; cbn [fst] in Hs; [|inv2_auto].
    assert (Hok : okT2 (TxBrokerPub mid' q AwaitRegack (RsSn (Register i mid' t))
                                    (Some (Publish dup q r 0 i mid pl)) 0)).
    { cbn. repeat split; assumption. }
    apply bp_proceed_inv2; [exact Hok|]. inv2_auto.
Qed.

Lemma handle_mq_inv2 s m : wf_mq m -> Inv2 s -> InvR2 (handle_mq cfg s m).
Proof.
  intros Hwf HI. unfold handle_mq. destruct m; try exact HI.
  - inv2_auto.
  - destruct Hwf as (Hq & _ & _ & Hm & _). apply handle_broker_publish_inv2; assumption.
  - inv2_auto.
  - inv2_auto.
  - inv2_auto; try (apply bp_proceed_inv2; [apply okT2_nonreg; exact I|inv2_auto]).
  - inv2_auto.
  - inv2_auto.
  - inv2_auto.
  - inv2_auto.
Qed.

Lemma fire_inv2 s k : Inv2 s -> InvR2 (fire cfg s k).
Proof.
  intros HI. unfold fire. destruct k as [g|g|g|p|p]; try (inv2_auto; fail).
  destruct (gw_objs s !! g) as [t|] eqn:Hg; [|exact HI].
  destruct t as [| | |mid qos st data snpub n]; try exact HI.
  pose proof (Inv2_lookup s g _ HI Hg) as Ht.
  destruct (retry_count cfg <? n + 1); [inv2_auto|]. cbv zeta.
  pose proof (okT2_dup mid qos st st data snpub n (n + 1) Ht) as Ht'.
  set (data' := match data with RsSn p => RsSn (set_dup p) | RsAck k m => RsAck k m end) in *.
  clearbody data'.
  match goal with |- context [arm ?S0 (TmRetry g) _] => assert (H0 : Inv2 (arm S0 (TmRetry g) (retry_delay cfg))) end.
  { inv2_auto. }
  destruct data' as [p|k a].
  - match goal with |- context [sn_send_owned ?a ?b ?c] =>
      pose proof (InvR2_sn_send_owned a b c H0) as X; destruct (sn_send_owned a b c) as [[s1 o] [|e]]
    end.
    + exact X.
    + unfold InvR2 in *. cbn [ok fst] in *. apply Inv2_finish_obj. exact X.
  - exact H0.
Qed.

Lemma finish_r_inv2 r a b : InvR2 r -> Inv2 (fst (finish_r r a b)).
Proof.
  intros HI. destruct r as [[s o] [|c]]; unfold InvR2 in HI; cbn [finish_r fst] in *; [exact HI|].
  unfold begin_end. cbn [fst]. exact HI.
Qed.

Lemma run_timers_inv2 fuel : forall s t, Inv2 s -> Inv2 (fst (run_timers fuel cfg s t)).
Proof.
  induction fuel as [|fuel IH]; intros s t HI; cbn [run_timers]; [exact HI|].
  destruct (gw_ending s) as [te|].
  - destruct (te <=? t); exact HI.
  - destruct (min_timer (gw_timers s)) as [tm|]; [|exact HI].
    destruct (tm_at tm <=? t); [|exact HI].
    match goal with |- context [finish_r ?r _ _] =>
      assert (Hf : Inv2 (fst (finish_r r false false))) by (apply finish_r_inv2, fire_inv2; exact HI);
      destruct (finish_r r false false) as [s' o] end.
    cbn [fst] in Hf. specialize (IH s' t Hf). destruct (run_timers fuel cfg s' t) as [s'' o']. exact IH.
Qed.

Lemma gw_step_inv2 s ev : wf_event ev -> Inv2 s -> Inv2 (fst (gw_step cfg s ev)).
Proof.
  intros Hev HI. unfold gw_step. destruct (gw_ended s); [exact HI|].
  destruct ev as [dg|m| | |d|].
  - destruct (gw_ending s); [exact HI|].
    destruct (read_dgram dg) as [p|e|ps]; apply finish_r_inv2; [apply handle_sn_inv2|..]; exact HI.
  - destruct (gw_ending s); [exact HI|]. apply finish_r_inv2, handle_mq_inv2; [exact Hev|exact HI].
  - destruct (gw_ending s); exact HI.
  - destruct (gw_ending s); exact HI.
  - pose proof (run_timers_inv2 (advance_fuel cfg s d) s (gw_now s + d) HI) as Hr.
    destruct (run_timers (advance_fuel cfg s d) cfg s (gw_now s + d)) as [s' o]. cbn [fst] in *.
    destruct (gw_ended s'); exact Hr.
  - destruct (gw_ending s); exact HI.
Qed.

Lemma reach_inv2 s : reach cfg s -> Inv2 s.
Proof.
  induction 1 as [|s ev _ IH Hev]; [apply Inv2_init|apply gw_step_inv2; assumption].
Qed.
End Inv2Pres.
