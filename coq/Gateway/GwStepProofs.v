(* Gateway/GwStepProofs.v — step lemmas about gw_step: which MQTT packets a step can emit. *)
From stdpp Require Import base option list numbers fin_maps nmap.
From RecordUpdate Require Import RecordSet.
From Verif.Base Require Import Bytes BytesProofs.
From Verif.Codec Require Import Packets Decode Encode.
From Verif.Topics Require Import Predefined.
From Verif.Gateway Require Import GwTypes GwStep.
From Verif.Checkers Require Import ChkCodec ChkGw.
Import RecordSetNotations.
Open Scope N_scope.

Definition outs_of (r : R) : list gw_out := snd (fst r).

(* P holds of every MQTT packet among the outputs *)
Definition all_mq (P : mq_pkt -> Prop) (os : list gw_out) : Prop :=
  forall t m, In (OutMq t m) os -> P m.

Lemma all_mq_nil P : all_mq P [].
Proof. intros t m []. Qed.

Lemma all_mq_app P a b : all_mq P a -> all_mq P b -> all_mq P (a ++ b).
Proof. intros Ha Hb t m Hin. apply in_app_or in Hin. destruct Hin; [eapply Ha|eapply Hb]; eassumption. Qed.

Lemma all_mq_sn P t dg : all_mq P [OutSn t dg].
Proof. intros t' m [H|[]]. discriminate. Qed.

Lemma all_mq_one (P : mq_pkt -> Prop) t m : P m -> all_mq P [OutMq t m].
Proof. intros H t' m' [E|[]]. inversion E; subst. exact H. Qed.

Lemma sn_send_owned_mq P s o p : all_mq P (outs_of (sn_send_owned s o p)).
Proof.
  unfold sn_send_owned. destruct (gw_st s); try destruct (len (pack p) <=? MaxPacketLen);
    cbn; first [apply all_mq_nil|apply all_mq_sn].
Qed.

Lemma sn_send_mq P s p : all_mq P (outs_of (sn_send s p)).
Proof. apply sn_send_owned_mq. Qed.

Lemma sn_send_now_mq P s p : all_mq P (outs_of (sn_send_now s p)).
Proof.
  unfold sn_send_now. destruct (len (pack p) <=? MaxPacketLen); cbn; first [apply all_mq_nil|apply all_mq_sn].
Qed.

Lemma mq_send_mq (P : mq_pkt -> Prop) s m : P m -> all_mq P (outs_of (mq_send s m)).
Proof. intros H. cbn. apply all_mq_one, H. Qed.

Lemma andthen_mq P r g :
  all_mq P (outs_of r) -> (forall s, all_mq P (outs_of (g s))) -> all_mq P (outs_of (andthen r g)).
Proof.
  intros Hr Hg. destruct r as [[s o] [|c]]; cbn in *.
  - specialize (Hg s). destruct (g s) as [[s' o'] res]; cbn in *. apply all_mq_app; assumption.
  - exact Hr.
Qed.

Lemma send_all_mq P ps : forall s, all_mq P (outs_of (send_all s ps)).
Proof.
  induction ps as [|[o p] ps IH]; intros s; cbn [send_all].
  - apply all_mq_nil.
  - apply andthen_mq; [apply sn_send_mq|intros s'; apply IH].
Qed.

(* ------------------------------------------------------------------ MQTT DISCONNECT (C14) *)

Definition not_disc (m : mq_pkt) : Prop := is_mq_disconnect m = false.

Ltac mq_auto :=
  repeat first
    [ apply all_mq_nil
    | apply sn_send_mq
    | apply sn_send_owned_mq
    | apply sn_send_now_mq
    | apply send_all_mq
    | apply mq_send_mq; reflexivity
    | apply andthen_mq; [|intros ?]
    | match goal with |- all_mq _ (outs_of (match ?x with _ => _ end)) => destruct x eqn:? end
    | match goal with |- all_mq _ (outs_of (if ?x then _ else _)) => destruct x eqn:? end
    | progress cbn [outs_of ok stop fst snd] ].

Lemma connect_auth_done_nd s g mq : all_mq not_disc (outs_of (connect_auth_done s g mq)).
Proof. unfold connect_auth_done. mq_auto. Qed.

Lemma connect_start_nd s g mq a : all_mq not_disc (outs_of (connect_start s g mq a)).
Proof. unfold connect_start. mq_auto. apply connect_auth_done_nd. Qed.

Lemma handle_connect_nd cfg s w c pr d cid : all_mq not_disc (outs_of (handle_connect cfg s w c pr d cid)).
Proof. unfold handle_connect. mq_auto; apply connect_start_nd. Qed.

Lemma connect_auth_nd s g mq a me da : all_mq not_disc (outs_of (connect_auth s g mq a me da)).
Proof. unfold connect_auth. mq_auto. apply connect_auth_done_nd. Qed.

Lemma handle_client_publish_nd cfg s dup q r tit tid mid data :
  all_mq not_disc (outs_of (handle_client_publish cfg s dup q r tit tid mid data)).
Proof. unfold handle_client_publish. mq_auto. Qed.

Lemma handle_subscribe_nd cfg s dup q tit mid tid name :
  all_mq not_disc (outs_of (handle_subscribe cfg s dup q tit mid tid name)).
Proof. unfold handle_subscribe. mq_auto. Qed.

Lemma handle_unsubscribe_nd cfg s tit mid tid name :
  all_mq not_disc (outs_of (handle_unsubscribe cfg s tit mid tid name)).
Proof. unfold handle_unsubscribe. mq_auto. Qed.

Lemma bp_proceed_nd cfg s g mid qos st data snpub :
  all_mq not_disc (outs_of (bp_proceed cfg s g mid qos st data snpub)).
Proof.
  unfold bp_proceed. destruct data as [p|k m]; [|destruct k]; destruct st; mq_auto.
Qed.

Lemma bp_regack_nd cfg s g t rc : all_mq not_disc (outs_of (bp_regack cfg s g t rc)).
Proof. unfold bp_regack. mq_auto; apply bp_proceed_nd. Qed.

Lemma handle_sn_nd cfg s p :
  (forall d, p = Disconnect d -> d <> 0) -> all_mq not_disc (outs_of (handle_sn cfg s p)).
Proof.
  intros Hp. unfold handle_sn.
  destruct (negb (packet_legal cfg s p)); [cbn; apply all_mq_nil|].
  destruct p; try (cbn; apply all_mq_nil);
    try (mq_auto; first [apply handle_connect_nd | apply connect_auth_nd | apply handle_client_publish_nd
                        | apply handle_subscribe_nd | apply handle_unsubscribe_nd | apply bp_regack_nd
                        | apply bp_proceed_nd ]).
  (* Disconnect *)
  destruct (dur =? 0) eqn:Hd.
  - apply N.eqb_eq in Hd. exfalso. exact (Hp dur eq_refl Hd).
  - mq_auto.
Qed.

Lemma handle_broker_publish_nd cfg s dup q r t mid pl :
  all_mq not_disc (outs_of (handle_broker_publish cfg s dup q r t mid pl)).
Proof.
  unfold handle_broker_publish.
  destruct (if is_short_topic t then _ else _) as [[tid tit]|]; mq_auto;
    apply bp_proceed_nd.
Qed.

Lemma handle_mq_nd cfg s m : all_mq not_disc (outs_of (handle_mq cfg s m)).
Proof.
  unfold handle_mq. destruct m; try (cbn; apply all_mq_nil);
    mq_auto; first [apply handle_broker_publish_nd | apply bp_proceed_nd].
Qed.

Lemma fire_nd cfg s k : all_mq not_disc (outs_of (fire cfg s k)).
Proof.
  unfold fire. destruct k; mq_auto.
  all: try (match goal with H : sn_send_owned ?a ?b ?c = (_, ?l, _) |- all_mq _ ?l =>
              let X := fresh in pose proof (sn_send_owned_mq not_disc a b c) as X; rewrite H in X; exact X end).
  all: try (destruct k; apply mq_send_mq; reflexivity).
Qed.

Lemma begin_end_mq P s c a b : all_mq P (snd (begin_end s c a b)).
Proof.
  unfold begin_end. cbn. intros t m [H|H]; [discriminate|].
  destruct (gw_st s); cbn in H; try contradiction; destruct H as [H|[]]; discriminate.
Qed.

Lemma finish_r_mq P r a b : all_mq P (outs_of r) -> all_mq P (snd (finish_r r a b)).
Proof.
  intros H. destruct r as [[s o] [|c]]; cbn [finish_r outs_of fst snd] in *; [exact H|].
  pose proof (begin_end_mq P s c a b) as Hb. destruct (begin_end s c a b) as [s' o']. cbn [snd] in *.
  apply all_mq_app; assumption.
Qed.

Lemma run_timers_nd fuel : forall cfg s t, all_mq not_disc (snd (run_timers fuel cfg s t)).
Proof.
  induction fuel as [|fuel IH]; intros cfg s t; cbn [run_timers]; [apply all_mq_nil|].
  destruct (gw_ending s) as [te|].
  - destruct (te <=? t); cbn; [|apply all_mq_nil]. intros t' m [H|[]]. discriminate.
  - destruct (min_timer (gw_timers s)) as [tm|]; [|apply all_mq_nil].
    destruct (tm_at tm <=? t); [|apply all_mq_nil].
    match goal with |- context [finish_r ?r _ _] => pose proof (finish_r_mq not_disc r false false (fire_nd _ _ _)) as Hf;
      destruct (finish_r r false false) as [s' o] end.
    specialize (IH cfg s' t). destruct (run_timers fuel cfg s' t) as [s'' o']. cbn in *.
    apply all_mq_app; assumption.
Qed.

(* The only step that can emit an MQTT DISCONNECT is the one handling the client's
   DISCONNECT without duration. *)
Theorem gw_step_mq_disconnect cfg s ev t :
  In (OutMq t MqDisconnect) (snd (gw_step cfg s ev)) ->
  exists dg, ev = EvSn dg /\ read_dgram dg = Ok (Disconnect 0).
Proof.
  unfold gw_step. destruct (gw_ended s); [intros []|].
  assert (Hno : forall os, all_mq not_disc os -> In (OutMq t MqDisconnect) os -> False).
  { intros os Hall Hin. specialize (Hall _ _ Hin). discriminate. }
  destruct ev as [dg|m| | |d|].
  - destruct (gw_ending s); [intros []|].
    destruct (read_dgram dg) as [p|e|ps] eqn:Hr.
    + intros Hin. destruct p; try (exfalso; revert Hin; apply Hno, finish_r_mq, handle_sn_nd; intros d' Hd; discriminate).
      destruct (dur =? 0) eqn:Hd.
      * apply N.eqb_eq in Hd. subst dur. eauto.
      * exfalso. revert Hin. apply Hno, finish_r_mq, handle_sn_nd. intros d' Hd'. inversion Hd'; subst.
        apply N.eqb_neq in Hd. exact Hd.
    + intros Hin. exfalso. revert Hin. apply Hno, finish_r_mq. cbn. apply all_mq_nil.
    + intros Hin. exfalso. revert Hin. apply Hno, finish_r_mq. cbn. apply all_mq_nil.
  - destruct (gw_ending s); [intros []|]. intros Hin. exfalso. revert Hin. apply Hno, finish_r_mq, handle_mq_nd.
  - destruct (gw_ending s); [intros []|]. intros Hin. exfalso. revert Hin. apply Hno, finish_r_mq. cbn. apply all_mq_nil.
  - destruct (gw_ending s); [intros []|]. intros Hin. exfalso. revert Hin. apply Hno, finish_r_mq. cbn. apply all_mq_nil.
  - pose proof (run_timers_nd (advance_fuel cfg s d) cfg s (gw_now s + d)) as Hrt.
    destruct (run_timers (advance_fuel cfg s d) cfg s (gw_now s + d)) as [s' o]. cbn in *.
    intros Hin. exfalso. exact (Hno o Hrt Hin).
  - destruct (gw_ending s); [intros []|]. intros Hin. exfalso. revert Hin. apply Hno, finish_r_mq. cbn. apply all_mq_nil.
Qed.

Lemma in_mqs_obs_of_outs os m :
  In m (mqs (obs_of_outs os)) -> exists t m0, In (OutMq t m0) os /\ m = wire m0.
Proof.
  unfold mqs, obs_of_outs. intros Hin.
  apply elem_of_list_In, elem_of_list_bind in Hin. destruct Hin as [o [Hm Ho]].
  apply elem_of_list_bind in Ho. destruct Ho as [go [Hgo Hin]].
  destruct go as [t dg|t m0|t c|t]; cbn in Hgo.
  - apply elem_of_list_singleton in Hgo. subst o. inversion Hm.
  - apply elem_of_list_singleton in Hgo. subst o. cbn in Hm. apply elem_of_list_singleton in Hm.
    subst m. exists t, m0. split; [apply elem_of_list_In, Hin|reflexivity].
  - inversion Hgo.
  - apply elem_of_list_singleton in Hgo. subst o. inversion Hm.
Qed.

Theorem chk_C14_sound cfg s ev : chk_C14 ev (obs_of_outs (snd (gw_step cfg s ev))) = [].
Proof.
  unfold chk_C14. destruct (existsb is_mq_disconnect _) eqn:He; [|reflexivity].
  apply existsb_exists in He. destruct He as [m [Hin Hm]].
  apply in_mqs_obs_of_outs in Hin. destruct Hin as [t [m0 [Hin Hw]]].
  assert (m0 = MqDisconnect) as ->.
  { destruct m0; subst m; cbn in Hm; try discriminate. reflexivity. }
  apply gw_step_mq_disconnect in Hin. destruct Hin as [dg [-> Hr]].
  cbn [ev_packet]. rewrite Hr. reflexivity.
Qed.

(* lifting a step property to every step of every history *)
Lemma gw_run_forall2 (P : gw_event -> list gw_out -> Prop) cfg :
  (forall s ev, P ev (snd (gw_step cfg s ev))) ->
  forall evs s, Forall2 P evs (fst (gw_run cfg s evs)).
Proof.
  intros HP evs. induction evs as [|ev evs IH]; intros s; cbn [gw_run].
  - constructor.
  - pose proof (HP s ev) as H1. destruct (gw_step cfg s ev) as [s' o].
    specialize (IH s'). destruct (gw_run cfg s' evs) as [os s'']. cbn in *. constructor; assumption.
Qed.
