(* Gateway/NoPanic.v — crash outcomes of a session step (C25).

   The models render every Go operation of the session code that can panic in one of two ways:
   (a) packet decoding, whose index / slice expressions are explicit bounds-checked accesses with a
       Panic outcome (Codec/Decode.v; theorem C20: no byte string reaches one);
   (b) everything else in gateway/, client/, transactions/, util/ - comma-ok type assertions and type
       switches (the model's `match` on the transaction constructor with a default branch), map
       lookups, and the unchecked assertions / index expressions listed by the panic-site census of
       harness/skeleton (coq/skeleton.expected, PANIC lines; justifications in coq/panic_sites.md:
       type invariants of constructors, length guards modelled in the step functions, paho's
       NewControlPacket) - is a total function in the model.
   A step of a session therefore crashes iff decoding the received datagram does. *)
From stdpp Require Import base option list numbers fin_maps nmap.
From Verif.Base Require Import Bytes.
From Verif.Codec Require Import Packets Decode DecodeProofs.
From Verif.Gateway Require Import GwTypes GwStep.
From Verif.Client Require Import ClTypes ClStep.
Open Scope N_scope.

Definition gw_step_crashes (ev : gw_event) : bool :=
  match ev with EvSn dg => is_panic (read_dgram dg) | _ => false end.
Definition cl_step_crashes (ev : cl_event) : bool :=
  match ev with CGw dg => is_panic (read_dgram dg) | _ => false end.

Lemma read_dgram_no_panic dg : is_panic (read_dgram dg) = false.
Proof.
  pose proof (read_dgram_never_panics dg) as H.
  destruct (read_dgram dg) as [p|e|s]; [reflexivity|reflexivity|exfalso; exact (H s eq_refl)].
Qed.

Theorem gw_step_never_crashes (ev : gw_event) : gw_step_crashes ev = false.
Proof. destruct ev; cbn [gw_step_crashes]; try reflexivity. apply read_dgram_no_panic. Qed.

Theorem cl_step_never_crashes (ev : cl_event) : cl_step_crashes ev = false.
Proof. destruct ev; cbn [cl_step_crashes]; try reflexivity. apply read_dgram_no_panic. Qed.

Theorem gw_history_never_crashes (evs : list gw_event) : existsb gw_step_crashes evs = false.
Proof. induction evs as [|ev evs IH]; [reflexivity|]. cbn [existsb]. rewrite gw_step_never_crashes, IH. reflexivity. Qed.

Theorem cl_history_never_crashes (evs : list cl_event) : existsb cl_step_crashes evs = false.
Proof. induction evs as [|ev evs IH]; [reflexivity|]. cbn [existsb]. rewrite cl_step_never_crashes, IH. reflexivity. Qed.
