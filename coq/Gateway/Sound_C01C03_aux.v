(* Gateway/Sound_C01C03_aux.v — helper lemmas for Sound_C01C03.v: observations of output
   lists, packet equality, what the decoder can return, round trips of the small packets the
   gateway sends, and the reachability invariant "stored and registered topic IDs are 16-bit". *)
From stdpp Require Import base option list numbers fin_maps nmap.
From RecordUpdate Require Import RecordSet.
From Coq Require Import Lia ZArith ZifyN ZifyNat ZifyBool.
From Verif.Base Require Import Bytes BytesProofs.
From Verif.Codec Require Import Packets Decode Encode EncodeProofs.
From Verif.Topics Require Import Predefined PredefinedProofs.
From Verif.Gateway Require Import GwTypes GwStep GwStepProofs GwWf.
From Verif.Checkers Require Import ChkCodec ChkGw ChkGw2.
Import RecordSetNotations.
Open Scope N_scope.
Ltac Zify.zify_post_hook ::= Z.div_mod_to_equations.

(* ------------------------------------------------------------------ observations *)

Lemma obs_of_outs_app a b : obs_of_outs (a ++ b) = obs_of_outs a ++ obs_of_outs b.
Proof. unfold obs_of_outs. apply bind_app. Qed.

Lemma mqs_app a b : mqs (a ++ b) = mqs a ++ mqs b.
Proof. unfold mqs. apply bind_app. Qed.

Lemma sns_app a b : sns (a ++ b) = sns a ++ sns b.
Proof. unfold sns. apply bind_app. Qed.

Lemma sn_pkts_app a b : sn_pkts (a ++ b) = sn_pkts a ++ sn_pkts b.
Proof. unfold sn_pkts. rewrite sns_app. apply bind_app. Qed.

(* MQTT packets observed for an output list *)
Definition MQ (os : list gw_out) : list mq_pkt := mqs (obs_of_outs os).
(* decoded datagrams observed for an output list *)
Definition SN (os : list gw_out) : list packet := sn_pkts (obs_of_outs os).

Lemma MQ_app a b : MQ (a ++ b) = MQ a ++ MQ b.
Proof. unfold MQ. rewrite obs_of_outs_app. apply mqs_app. Qed.

Lemma SN_app a b : SN (a ++ b) = SN a ++ SN b.
Proof. unfold SN. rewrite obs_of_outs_app. apply sn_pkts_app. Qed.

Lemma MQ_nil : MQ [] = [].
Proof. reflexivity. Qed.

Lemma SN_nil : SN [] = [].
Proof. reflexivity. Qed.

Lemma MQ_cons_mq t m os : MQ (OutMq t m :: os) = wire m :: MQ os.
Proof. reflexivity. Qed.

Lemma MQ_cons_sn t dg os : MQ (OutSn t dg :: os) = MQ os.
Proof. reflexivity. Qed.

Lemma MQ_cons_cancel t c os : MQ (OutCancel t c :: os) = MQ os.
Proof. reflexivity. Qed.

Lemma MQ_cons_end t os : MQ (OutEnd t :: os) = MQ os.
Proof. reflexivity. Qed.

Lemma SN_cons_mq t m os : SN (OutMq t m :: os) = SN os.
Proof. reflexivity. Qed.

Lemma SN_cons_cancel t c os : SN (OutCancel t c :: os) = SN os.
Proof. reflexivity. Qed.

Lemma SN_cons_sn t dg os :
  SN (OutSn t dg :: os) = (match read_dgram dg with Ok p => [p] | _ => [] end) ++ SN os.
Proof. reflexivity. Qed.

Lemma SN_one_pack t p : wf_pkt p = true -> SN [OutSn t (pack p)] = [p].
Proof. intros H. rewrite SN_cons_sn, (read_pack_roundtrip p H). reflexivity. Qed.

(* no MQTT packet among the outputs *)
Lemma MQ_nil_of_all_mq os : all_mq (fun _ => False) os -> MQ os = [].
Proof.
  induction os as [|o os IH]; intros H; [reflexivity|].
  assert (Hos : all_mq (fun _ => False) os) by (intros t m Hin; apply (H t m); right; exact Hin).
  destruct o as [t dg|t m|t c|t].
  - rewrite MQ_cons_sn. apply IH, Hos.
  - exfalso. apply (H t m). left. reflexivity.
  - rewrite MQ_cons_cancel. apply IH, Hos.
  - rewrite MQ_cons_end. apply IH, Hos.
Qed.

Lemma begin_end_MQ s c a b : MQ (snd (begin_end s c a b)) = [].
Proof. apply MQ_nil_of_all_mq, begin_end_mq. Qed.

Lemma finish_r_MQ r a b : MQ (snd (finish_r r a b)) = MQ (outs_of r).
Proof.
  destruct r as [[s o] [|c]]; cbn [finish_r outs_of fst snd]; [reflexivity|].
  pose proof (begin_end_MQ s c a b) as Hb. destruct (begin_end s c a b) as [s' o']. cbn [snd] in *.
  rewrite MQ_app, Hb. apply app_nil_r.
Qed.

Lemma finish_r_ok s o a b : finish_r (ok s o) a b = (s, o).
Proof. reflexivity. Qed.

Lemma sn_send_owned_MQ s o p : MQ (outs_of (sn_send_owned s o p)) = [].
Proof. apply MQ_nil_of_all_mq, sn_send_owned_mq. Qed.

Lemma sn_send_MQ s p : MQ (outs_of (sn_send s p)) = [].
Proof. apply sn_send_owned_MQ. Qed.

Lemma send_all_MQ s ps : MQ (outs_of (send_all s ps)) = [].
Proof. apply MQ_nil_of_all_mq, send_all_mq. Qed.

Lemma andthen_MQ_nil r g :
  MQ (outs_of r) = [] -> (forall s, MQ (outs_of (g s)) = []) -> MQ (outs_of (andthen r g)) = [].
Proof.
  intros Hr Hg. destruct r as [[s o] [|c]]; cbn [andthen outs_of fst snd] in *; [|exact Hr].
  specialize (Hg s). destruct (g s) as [[s' o'] res]. cbn [outs_of fst snd] in *.
  rewrite MQ_app, Hr, Hg. reflexivity.
Qed.

Lemma andthen_mq_send_MQ s m g :
  MQ (outs_of (andthen (mq_send s m) g)) = wire m :: MQ (outs_of (g s)).
Proof.
  unfold mq_send, ok. cbn [andthen]. destruct (g s) as [[s' o'] res]. cbn [outs_of fst snd app].
  apply MQ_cons_mq.
Qed.

(* ------------------------------------------------------------------ equality tests *)

Lemma mq_eqb_refl (m : mq_pkt) : mq_eqb m m = true.
Proof.
  unfold mq_eqb. destruct (mq_fields m) as [[t n] b].
  rewrite N.eqb_refl, beq_refl, beql_refl. reflexivity.
Qed.

Lemma exactly_one (f : mq_pkt -> bool) (m : mq_pkt) :
  f (wire m) = true -> exactly [wire m] f m = true.
Proof. intros Hf. unfold exactly. cbn [List.filter]. rewrite Hf. apply mq_eqb_refl. Qed.

Lemma exactly_sn_one (f : packet -> bool) (p : packet) :
  f p = true -> exactly_sn [p] f p = true.
Proof. intros Hf. unfold exactly_sn. cbn [List.filter]. rewrite Hf. apply pkt_eqb_refl. Qed.

Lemma none_of_nil {A} (f : A -> bool) : none_of [] f = true.
Proof. reflexivity. Qed.

(* ------------------------------------------------------------------ what the decoder returns *)

Lemma get16_lt (b : bytes) (i : nat) (s : panic_site) (x : N) :
  wf_bytes b -> get16 b i s = Ok x -> x < 65536.
Proof.
  unfold get16, idx. intros Hb H.
  destruct (nth_error b i) as [hi|] eqn:E1; cbn [obind] in H; [|discriminate H].
  destruct (nth_error b (S i)) as [lo|] eqn:E2; cbn [obind] in H; [|discriminate H].
  injection H as <-.
  apply nth_error_In in E1. apply nth_error_In in E2.
  pose proof (proj1 (List.Forall_forall _ _) Hb) as Hall.
  pose proof (Hall _ E1) as H1. pose proof (Hall _ E2) as H2.
  apply is_byte_lt in H1. apply is_byte_lt in H2. unfold be16. lia.
Qed.

(* facts about decoded SUBSCRIBE / UNSUBSCRIBE packets: the topic ID type is 0, 1 or 2 (the
   decoder rejects 3) and the message ID is a 16-bit value *)
Definition dec_fact (p : packet) : Prop :=
  match p with
  | Subscribe _ _ tit mid _ _ => tit < 3 /\ mid < 65536
  | Unsubscribe tit mid _ _ => tit < 3 /\ mid < 65536
  | _ => True
  end.

Ltac inv_unpack H :=
  repeat (cbv zeta in H;
          match type of H with
          | (if ?c then _ else _) = Ok _ => destruct c eqn:?; try discriminate H
          | obind ?o _ = Ok _ =>
            let E := fresh "E" in destruct o eqn:E; cbn [obind] in H; try discriminate H
          | (match ?n with O => _ | S _ => _ end) = Ok _ => destruct n; try discriminate H
          end).

Ltac other_unpack f :=
  let H := fresh "H" in
  unfold f; intros _ H; inv_unpack H; injection H as <-; exact I.

Lemma tit_cases (f : N) :
  (f mod 4 =? TIT_STRING) = false ->
  ((f mod 4 =? TIT_PREDEFINED) || (f mod 4 =? TIT_SHORT)) = true -> f mod 4 < 3.
Proof. unfold TIT_PREDEFINED, TIT_SHORT. intros _ H. lia. Qed.

Lemma unpack_subscribe_fact buf p : wf_bytes buf -> unpack_subscribe buf = Ok p -> dec_fact p.
Proof.
  unfold unpack_subscribe. intros Hb H. inv_unpack H; injection H as <-; cbn [dec_fact].
  - split; [unfold TIT_STRING in *; lia|eapply get16_lt; eassumption].
  - split; [eapply tit_cases; eassumption|eapply get16_lt; eassumption].
Qed.

Lemma unpack_unsubscribe_fact buf p : wf_bytes buf -> unpack_unsubscribe buf = Ok p -> dec_fact p.
Proof.
  unfold unpack_unsubscribe. intros Hb H. inv_unpack H; injection H as <-; cbn [dec_fact].
  - split; [unfold TIT_STRING in *; lia|eapply get16_lt; eassumption].
  - split; [eapply tit_cases; eassumption|eapply get16_lt; eassumption].
Qed.

Lemma unpack_body_fact t buf p : wf_bytes buf -> unpack_body t buf = Ok p -> dec_fact p.
Proof.
  unfold unpack_body.
  repeat (match goal with |- _ -> (if ?c then _ else _) = _ -> _ => destruct c end).
  all: try (intros _ H; discriminate H).
  all: try apply unpack_subscribe_fact.
  all: try apply unpack_unsubscribe_fact.
  - other_unpack unpack_advertise.
  - other_unpack unpack_searchgw.
  - other_unpack unpack_gwinfo.
  - other_unpack unpack_auth.
  - other_unpack unpack_connect.
  - other_unpack unpack_connack.
  - other_unpack unpack_willtopicreq.
  - other_unpack unpack_willtopic.
  - other_unpack unpack_willmsgreq.
  - other_unpack unpack_willmsg.
  - other_unpack unpack_register.
  - other_unpack unpack_regack.
  - other_unpack unpack_publish.
  - other_unpack unpack_puback.
  - other_unpack unpack_pubcomp.
  - other_unpack unpack_pubrec.
  - other_unpack unpack_pubrel.
  - other_unpack unpack_suback.
  - other_unpack unpack_unsuback.
  - other_unpack unpack_pingreq.
  - other_unpack unpack_pingresp.
  - other_unpack unpack_disconnect.
  - other_unpack unpack_willtopicupd.
  - other_unpack unpack_willtopicresp.
  - other_unpack unpack_willmsgupd.
  - other_unpack unpack_willmsgresp.
Qed.

Lemma read_dgram_fact dg p : wf_bytes dg -> read_dgram dg = Ok p -> dec_fact p.
Proof.
  unfold read_dgram, read_packet. set (raw := firstn _ dg). intros Hwf H.
  assert (Hraw : wf_bytes raw) by (apply Forall_take, Hwf).
  destruct (header_unpack raw) as [h|e|ps]; cbn [obind] in H; try discriminate H.
  destruct (negb (known_type (h_type h))); try discriminate H.
  unfold slice_from in H.
  destruct (Nat.leb (encoded_header_length raw) (length raw)); cbn [obind] in H; try discriminate H.
  eapply unpack_body_fact; [|exact H]. apply Forall_drop, Hraw.
Qed.

(* ------------------------------------------------------------------ sending small packets *)

Lemma sn_send_awake s p :
  gw_st s <> Asleep -> wf_pkt p = true -> sn_send s p = ok s [OutSn (gw_now s) (pack p)].
Proof.
  intros Hst Hwf. unfold sn_send, sn_send_owned.
  pose proof (pack_size p Hwf) as Hsz. apply N.leb_le in Hsz. rewrite Hsz.
  destruct (gw_st s); try reflexivity. contradiction.
Qed.

Lemma sn_send_asleep s p :
  gw_st s = Asleep -> sn_send s p = ok (s <| gw_buffer := gw_buffer s ++ [(None, p)] |>) [].
Proof. intros Hst. unfold sn_send, sn_send_owned. rewrite Hst. reflexivity. Qed.

Lemma wf_pkt_mid1 (mid : N) : mid < 65536 ->
  wf_pkt (Pubrec mid) = true /\ wf_pkt (Pubcomp mid) = true /\ wf_pkt (Unsuback mid) = true.
Proof. intros H. cbn [wf_pkt]. unfold lt16. apply N.ltb_lt in H. rewrite H. auto. Qed.

Lemma wf_pkt_suback (q tid mid rc : N) :
  q < 4 -> tid < 65536 -> mid < 65536 -> rc < 256 -> wf_pkt (Suback q tid mid rc) = true.
Proof.
  intros Hq Ht Hm Hr. cbn [wf_pkt]. unfold lt16, lt8.
  apply N.ltb_lt in Hq, Ht, Hm, Hr. rewrite Hq, Ht, Hm, Hr. reflexivity.
Qed.

(* ------------------------------------------------------------------ predefined topic IDs *)

Lemma pd_client_in (pd : predef) (c : bytes) (m : topic_map) :
  pd_client pd c = Some m -> exists k, In (k, m) pd.
Proof.
  induction pd as [|[k m'] pd IH]; cbn [pd_client]; [discriminate|].
  destruct (beq k c).
  - intros H. injection H as ->. exists k. left. reflexivity.
  - intros H. destruct (IH H) as [k' Hin]. exists k'. right. exact Hin.
Qed.

Lemma tm_get_bound (pd : predef) (c : bytes) (i : N) (n : bytes) :
  wf_predef pd -> tm_get (pd_client pd c) i = Some n -> i < 65536.
Proof.
  intros Hwf H. destruct (pd_client pd c) as [m|] eqn:Hc; cbn [tm_get] in H; [|discriminate H].
  destruct (pd_client_in pd c m Hc) as [k Hin].
  pose proof (proj1 (List.Forall_forall _ _) Hwf _ Hin) as [_ Hm]. cbn [snd] in Hm.
  exact (proj1 (Hm i n H)).
Qed.

Lemma get_name_bound (pd : predef) (c : bytes) (i : N) (n : bytes) :
  wf_predef pd -> get_name pd c i = Some n -> i < 65536.
Proof.
  intros Hwf. unfold get_name.
  destruct (tm_get (pd_client pd c) i) as [n'|] eqn:E.
  - intros _. eapply tm_get_bound; eassumption.
  - intros H. eapply tm_get_bound; eassumption.
Qed.

(* ------------------------------------------------------------------ the invariant *)

(* a REGISTER the gateway keeps for (re)sending carries a 16-bit topic ID *)
Definition okP (p : packet) : Prop :=
  match p with Register tid _ _ => tid < 65536 | _ => True end.
Definition okD (d : resend_data) : Prop :=
  match d with RsSn p => okP p | RsAck _ _ => True end.
Definition okS (o : option packet) : Prop :=
  match o with Some p => okP p | None => True end.

Definition okT (t : txn) : Prop :=
  match t with
  | TxSubscribe _ tid => tid < 65536
  | TxBrokerPub _ _ _ d sp _ => okD d /\ okS sp
  | _ => True
  end.

(* the ID counter stays in range, stored transactions and registered topic IDs are 16-bit *)
Definition Inv (s : gw_state) : Prop :=
  gw_seq_next s <= 65534 /\ map_Forall (fun _ t => okT t) (gw_objs s) /\
  map_Forall (fun (i : N) (_ : bytes) => i < 65536) (gw_registered s).

Definition InvR (r : R) : Prop := Inv (fst (fst r)).

Lemma Inv_same s s' :
  gw_seq_next s' = gw_seq_next s -> gw_objs s' = gw_objs s -> gw_registered s' = gw_registered s ->
  Inv s -> Inv s'.
Proof. unfold Inv. intros -> -> ->. tauto. Qed.

Lemma Inv_objs s g t : Inv s -> gw_objs s !! g = Some t -> okT t.
Proof. intros HI H. exact (proj1 (proj2 HI) g t H). Qed.

Lemma get_by_id_objs s mid g t : get_by_id s mid = Some (g, t) -> gw_objs s !! g = Some t.
Proof.
  unfold get_by_id. destruct (gw_by_id s !! mid) as [g'|]; [|discriminate].
  destruct (gw_objs s !! g') as [t'|] eqn:E; [|discriminate]. intros H. injection H as -> ->. exact E.
Qed.

Lemma Inv_get_by_id s mid g t : Inv s -> get_by_id s mid = Some (g, t) -> okT t.
Proof. intros HI H. eapply Inv_objs; [exact HI|]. eapply get_by_id_objs, H. Qed.

Lemma find_registered_bound s name i : Inv s -> find_registered s name = Some i -> i < 65536.
Proof.
  intros HI H. unfold find_registered in H. apply min_list_in, elem_of_list_In in H.
  apply elem_of_ids_with_name in H. exact (proj2 (proj2 HI) i name H).
Qed.

Lemma okP_set_dup p : okP p -> okP (set_dup p).
Proof. destruct p; exact (fun H => H). Qed.

Lemma Inv_init cfg : wf_cfg cfg -> Inv (init_state cfg).
Proof.
  intros (_ & Hmin & _). split; [cbn; lia|]. split; cbn; apply map_Forall_empty.
Qed.

(* peel a record update that touches neither gw_seq_next nor gw_objs *)
Ltac peel :=
  match goal with
  | |- Inv (set ?p ?f ?s) => apply (Inv_same s); [reflexivity|reflexivity|reflexivity|]
  end.

Lemma Inv_arm s k d : Inv s -> Inv (arm s k d).
Proof. apply Inv_same; reflexivity. Qed.

Lemma Inv_disarm_obj s g : Inv s -> Inv (disarm_obj s g).
Proof. apply Inv_same; reflexivity. Qed.

Lemma Inv_disarm_ping s g : Inv s -> Inv (disarm_ping s g).
Proof. apply Inv_same; reflexivity. Qed.

Lemma Inv_note_handed s i n : Inv s -> Inv (note_handed s i n).
Proof. apply Inv_same; reflexivity. Qed.

Lemma Inv_insert s k t : okT t -> Inv s -> Inv (s <| gw_objs := <[k := t]> (gw_objs s) |>).
Proof.
  intros Ht (H1 & H2 & H3). split; [exact H1|]. split; [|exact H3]. cbn. apply map_Forall_insert_2; assumption.
Qed.

Lemma Inv_reg_insert s i n :
  i < 65536 -> Inv s -> Inv (s <| gw_registered := <[i := n]> (gw_registered s) |>).
Proof.
  intros Hi (H1 & H2 & H3). split; [exact H1|]. split; [exact H2|]. cbn. apply map_Forall_insert_2; assumption.
Qed.

Lemma Inv_delete s k : Inv s -> Inv (s <| gw_objs := delete k (gw_objs s) |>).
Proof.
  intros (H1 & H2 & H3). split; [exact H1|]. split; [|exact H3]. cbn. apply map_Forall_delete. exact H2.
Qed.

Lemma Inv_new_obj s t : okT t -> Inv s -> Inv (fst (new_obj s t)).
Proof. intros Ht HI. unfold new_obj. cbn [fst]. peel. apply Inv_insert; assumption. Qed.

Lemma Inv_set_obj s g t : okT t -> Inv s -> Inv (set_obj s g t).
Proof. intros Ht HI. unfold set_obj. apply Inv_insert; assumption. Qed.

Lemma Inv_finish_obj s g : Inv s -> Inv (finish_obj s g).
Proof.
  intros HI. unfold finish_obj. destruct (gw_objs s !! g) as [t|]; [|exact HI]. cbv zeta.
  assert (H : Inv (disarm_obj s g <| gw_objs := delete g (gw_objs (disarm_obj s g)) |>))
    by (apply Inv_delete, Inv_disarm_obj, HI).
  destruct t; [peel; exact H| | |];
    (match goal with |- Inv (match ?x with _ => _ end) => destruct x as [g'|] end;
     [destruct (g' =? g); [peel; exact H|exact H]|exact H]).
Qed.

Section InvPres.
Variable cfg : gw_cfg.
Hypothesis Hcfg : wf_cfg cfg.

Lemma seq_next_inv s :
  Inv s -> Inv (fst (fst (seq_next cfg s))) /\ snd (fst (seq_next cfg s)) <= 65534.
Proof.
  destruct Hcfg as (_ & Hmin & Hmax & _). intros (H1 & H2 & H3). unfold seq_next. cbv zeta. cbn [fst snd].
  split; [|exact H1].
  destruct (N.eqb_spec (gw_seq_next s) (max_tid cfg)) as [E|E];
    (split; [cbn; lia|split; [exact H2|exact H3]]).
Qed.

Lemma skip_predefined_inv fuel : forall s id, Inv s -> id <= 65534 ->
  Inv (fst (skip_predefined fuel cfg s id)) /\
  (forall i, snd (skip_predefined fuel cfg s id) = Some i -> i <= 65534).
Proof.
  induction fuel as [|fuel IH]; intros s id HI Hid; cbn [skip_predefined];
    destruct (get_name (predefined cfg) (gw_client_id s) id) as [n|].
  - cbn [fst snd]. split; [peel; exact HI|intros i H; discriminate H].
  - cbn [fst snd]. split; [exact HI|intros i H; injection H as <-; exact Hid].
  - pose proof (seq_next_inv s HI) as [Hs Hid']. destruct (seq_next cfg s) as [[s' id'] ov].
    cbn [fst snd] in Hs, Hid'. destruct ov.
    + cbn [fst snd]. split; [peel; exact Hs|intros i H; discriminate H].
    + apply IH; assumption.
  - cbn [fst snd]. split; [exact HI|intros i H; injection H as <-; exact Hid].
Qed.

Lemma new_topic_id_inv s : Inv s ->
  Inv (fst (new_topic_id cfg s)) /\ (forall i, snd (new_topic_id cfg s) = Some i -> i <= 65534).
Proof.
  intros HI. unfold new_topic_id. destruct (gw_no_more_tids s).
  - cbn [fst snd]. split; [exact HI|intros i H; discriminate H].
  - pose proof (seq_next_inv s HI) as [Hs Hid']. destruct (seq_next cfg s) as [[s' id'] ov].
    cbn [fst snd] in Hs, Hid'. destruct ov.
    + cbn [fst snd]. split; [peel; exact Hs|intros i H; discriminate H].
    + apply skip_predefined_inv; assumption.
Qed.

Lemma register_topic_inv s name : Inv s ->
  Inv (fst (register_topic cfg s name)) /\ (forall i, snd (register_topic cfg s name) = Some i -> i < 65536).
Proof.
  intros HI. unfold register_topic. destruct (find_registered s name) as [j|] eqn:Hf.
  - cbn [fst snd]. split; [exact HI|]. intros i H. injection H as <-. eapply find_registered_bound; eassumption.
  - pose proof (new_topic_id_inv s HI) as [Hs Hi]. destruct (new_topic_id cfg s) as [s' [i|]]; cbn [fst snd] in *.
    + specialize (Hi i eq_refl). split; [apply Inv_reg_insert; [lia|exact Hs]|]. intros i' H. injection H as <-. lia.
    + split; [exact Hs|]. intros i H. discriminate H.
Qed.

(* ---- handlers *)

Lemma InvR_ok s o : Inv s -> InvR (ok s o).
Proof. intros H; exact H. Qed.

Lemma InvR_stop s o c : Inv s -> InvR (stop s o c).
Proof. intros H; exact H. Qed.

Lemma InvR_sn_send_owned s o p : Inv s -> InvR (sn_send_owned s o p).
Proof.
  intros HI. unfold sn_send_owned.
  destruct (gw_st s); try destruct (len (pack p) <=? MaxPacketLen); exact HI.
Qed.

Lemma InvR_sn_send s p : Inv s -> InvR (sn_send s p).
Proof. apply InvR_sn_send_owned. Qed.

Lemma InvR_mq_send s m : Inv s -> InvR (mq_send s m).
Proof. intros H; exact H. Qed.

Lemma InvR_andthen r g : InvR r -> (forall s, Inv s -> InvR (g s)) -> InvR (andthen r g).
Proof.
  intros Hr Hg. destruct r as [[s o] [|c]]; unfold InvR in *; cbn [andthen fst] in *; [|exact Hr].
  specialize (Hg s Hr). destruct (g s) as [[s' o'] res]. exact Hg.
Qed.

Lemma InvR_send_all ps : forall s, Inv s -> InvR (send_all s ps).
Proof.
  induction ps as [|[o p] ps IH]; intros s HI; cbn [send_all].
  - exact HI.
  - apply InvR_andthen; [apply InvR_sn_send, HI|intros s' HI'; apply IH, HI'].
Qed.

Ltac inv_step :=
  first
    [ assumption
    | exact I
    | apply InvR_ok | apply InvR_stop | apply InvR_sn_send | apply InvR_sn_send_owned
    | apply InvR_mq_send | apply InvR_send_all
    | apply InvR_andthen; [|intros ? ?]
    | apply Inv_arm | apply Inv_disarm_obj | apply Inv_disarm_ping | apply Inv_note_handed
    | apply Inv_finish_obj
    | apply Inv_set_obj; [cbn [okT]|]
    | apply Inv_insert; [cbn [okT]|]
    | peel
    | match goal with |- InvR (match ?x with _ => _ end) => destruct x eqn:? end
    | match goal with |- InvR (if ?x then _ else _) => destruct x eqn:? end
    | match goal with |- Inv (match ?x with _ => _ end) => destruct x eqn:? end
    | match goal with |- Inv (if ?x then _ else _) => destruct x eqn:? end
    | match goal with
      | |- okD _ /\ okS _ => split
      | |- okT (TxBrokerPub _ _ _ _ _ _) => split
      end
    | match goal with
      | |- okD _ => cbn [okD]; first [exact I|assumption|apply okP_set_dup; assumption|cbn [okP]; lia]
      | |- okS _ => cbn [okS]; first [exact I|assumption|cbn [okP]; lia]
      end
    | progress cbv zeta ].
Ltac inv_auto := repeat inv_step.

Lemma connect_auth_done_inv s g mq : Inv s -> InvR (connect_auth_done s g mq).
Proof. intros HI. unfold connect_auth_done. inv_auto. Qed.

Lemma connect_start_inv s g mq a : Inv s -> InvR (connect_start s g mq a).
Proof. intros HI. unfold connect_start. inv_auto. apply connect_auth_done_inv, HI. Qed.

Lemma handle_connect_inv s w c pr d cid : Inv s -> InvR (handle_connect cfg s w c pr d cid).
Proof.
  intros HI. unfold handle_connect, new_obj. inv_auto; apply connect_start_inv; inv_auto.
Qed.

Lemma connect_auth_inv s g mq a me da : Inv s -> InvR (connect_auth s g mq a me da).
Proof. intros HI. unfold connect_auth. inv_auto. apply connect_auth_done_inv. inv_auto. Qed.

Lemma handle_client_publish_inv s dup q r tit tid mid data :
  Inv s -> InvR (handle_client_publish cfg s dup q r tit tid mid data).
Proof. intros HI. unfold handle_client_publish, new_obj. inv_auto. Qed.

Lemma handle_unsubscribe_inv s tit mid tid name : Inv s -> InvR (handle_unsubscribe cfg s tit mid tid name).
Proof. intros HI. unfold handle_unsubscribe. inv_auto. Qed.

Lemma handle_subscribe_inv s dup q tit mid tid name :
  Inv s -> InvR (handle_subscribe cfg s dup q tit mid tid name).
Proof.
  intros HI. unfold handle_subscribe, new_obj. cbv zeta.
  destruct ((2 <? q) || (mid =? 0)); [inv_auto|].
  destruct (tit =? TIT_STRING).
  - destruct (negb (has_wildcard name)).
    + pose proof (register_topic_inv s name HI) as [Hs Hi].
      destruct (register_topic cfg s name) as [s' [i|]]; cbn [fst snd] in *.
      * specialize (Hi i eq_refl). inv_auto.
      * inv_auto.
    + inv_auto. lia.
  - destruct (tit =? TIT_PREDEFINED).
    + destruct (get_name (predefined cfg) (gw_client_id s) tid) as [topic|] eqn:Hn; [|inv_auto].
      inv_auto. eapply get_name_bound; [exact (proj1 Hcfg)|exact Hn].
    + destruct (tit =? TIT_SHORT); inv_auto; lia.
Qed.

Lemma bp_proceed_inv s g mid qos st data snpub :
  okD data -> okS snpub -> Inv s -> InvR (bp_proceed cfg s g mid qos st data snpub).
Proof.
  intros HD HS HI. unfold bp_proceed. cbv zeta.
  assert (HI' : Inv (set_obj s g (TxBrokerPub mid qos st data snpub 0)))
    by (apply Inv_set_obj; [split; assumption|exact HI]).
  destruct data as [p|k m]; destruct st; inv_auto.
Qed.

Lemma bp_regack_inv s g t rc : okT t -> Inv s -> InvR (bp_regack cfg s g t rc).
Proof.
  intros Ht HI. unfold bp_regack.
  destruct t as [mq a|m0 tid|m0 tid|mid qos st data snpub n]; try exact HI.
  destruct Ht as [HD HS].
  destruct st; destruct data as [p|k m]; try exact HI;
    destruct p; try exact HI; destruct snpub as [pub|]; try exact HI.
  cbn [okD okP okS] in HD, HS.
  destruct (negb (rc =? RC_ACCEPTED)); [inv_auto|]. cbv zeta.
  apply bp_proceed_inv; [exact HS|exact HS|]. apply Inv_reg_insert; assumption.
Qed.

(* a looked-up transaction: keep what the invariant says about it *)
Ltac by_id HI :=
  match goal with
  | |- context [get_by_id ?s ?mid] =>
    let Hobj := fresh "Hobj" in
    let g := fresh "g" in
    let t := fresh "t" in
    pose proof (Inv_get_by_id s mid) as Hobj;
    destruct (get_by_id s mid) as [[g t]|]; [|exact HI];
    specialize (Hobj g t HI eq_refl);
    destruct t as [?mq ?a|?m0 ?tid|?m0 ?tid|?m0 ?q ?st ?data ?snpub ?rn]; try exact HI;
    cbn [okT] in Hobj;
    match type of Hobj with
    | _ /\ _ => let HD := fresh "HD" in let HS := fresh "HS" in destruct Hobj as [HD HS]
    | _ => idtac
    end
  end.

Lemma handle_sn_inv s p : Inv s -> InvR (handle_sn cfg s p).
Proof.
  intros HI. unfold handle_sn.
  destruct (negb (packet_legal cfg s p)); [exact HI|].
  destruct p; try exact HI;
    try (match goal with
         | |- context [register_topic cfg s ?name] =>
           pose proof (register_topic_inv s name HI) as [Hr _];
           destruct (register_topic cfg s name) as [s' [i|]]; cbn [fst] in Hr
         end);
    try by_id HI;
    inv_auto;
    first [ apply handle_connect_inv | apply connect_auth_inv | apply handle_client_publish_inv
          | apply handle_subscribe_inv | apply handle_unsubscribe_inv | apply bp_regack_inv
          | apply bp_proceed_inv ]; inv_auto.
Qed.

Lemma handle_broker_publish_inv s dup q r t mid pl :
  Inv s -> InvR (handle_broker_publish cfg s dup q r t mid pl).
Proof.
  intros HI. unfold handle_broker_publish, new_obj.
  destruct (if is_short_topic t then _ else _) as [[tid tit]|]; cbv zeta.
  - inv_auto; apply bp_proceed_inv; inv_auto.
  - destruct ((q =? 0) && negb true); [inv_auto|].
    destruct (if q =? 0 then _ else _) as [mid'|]; [|inv_auto].
    destruct (2 <? q); [inv_auto|].
    pose proof (new_topic_id_inv s HI) as [Hs Hi].
    destruct (new_topic_id cfg s) as [s' [i|]]; cbn [fst snd] in Hs, Hi; [|inv_auto].
    specialize (Hi i eq_refl).
    apply bp_proceed_inv; inv_auto.
Qed.

Lemma handle_mq_inv s m : Inv s -> InvR (handle_mq cfg s m).
Proof.
  intros HI. unfold handle_mq. destruct m; try exact HI; try by_id HI; inv_auto;
    first [apply handle_broker_publish_inv, HI | apply bp_proceed_inv; inv_auto].
Qed.

Lemma fire_inv s k : Inv s -> InvR (fire cfg s k).
Proof.
  intros HI. unfold fire. destruct k as [g|g|g|p|p]; [inv_auto|inv_auto| |inv_auto|inv_auto].
  destruct (gw_objs s !! g) as [t|] eqn:E; [|exact HI].
  pose proof (Inv_objs s g t HI E) as Ht.
  destruct t as [mq a|m0 tid|m0 tid|mid qos st data snpub n]; try exact HI.
  destruct Ht as [HD HS].
  destruct data as [p|k m]; cbn [okD] in HD; inv_auto.
  all: match goal with
       | E : sn_send_owned ?a ?b ?c = _ |- _ =>
         let X := fresh "X" in
         assert (X : InvR (sn_send_owned a b c)) by (apply InvR_sn_send_owned; inv_auto);
         rewrite E in X; exact X
       end.
Qed.

Lemma begin_end_inv s c a b : Inv s -> Inv (fst (begin_end s c a b)).
Proof. intros HI. exact HI. Qed.

Lemma finish_r_inv r a b : InvR r -> Inv (fst (finish_r r a b)).
Proof.
  intros HI. destruct r as [[s o] [|c]]; unfold InvR in HI; cbn [finish_r fst] in *; [exact HI|].
  pose proof (begin_end_inv s c a b HI) as Hb. destruct (begin_end s c a b) as [s' o']. exact Hb.
Qed.

Lemma run_timers_inv fuel : forall s t, Inv s -> Inv (fst (run_timers fuel cfg s t)).
Proof.
  induction fuel as [|fuel IH]; intros s t HI; cbn [run_timers]; [exact HI|].
  destruct (gw_ending s) as [te|].
  - destruct (te <=? t); exact HI.
  - destruct (min_timer (gw_timers s)) as [tm|]; [|exact HI].
    destruct (tm_at tm <=? t); [|exact HI].
    match goal with |- context [finish_r ?r _ _] =>
      assert (Hf : Inv (fst (finish_r r false false))) by (apply finish_r_inv, fire_inv; exact HI);
      destruct (finish_r r false false) as [s' o] end.
    cbn [fst] in Hf. specialize (IH s' t Hf). destruct (run_timers fuel cfg s' t) as [s'' o']. exact IH.
Qed.

Lemma gw_step_inv s ev : Inv s -> Inv (fst (gw_step cfg s ev)).
Proof.
  intros HI. unfold gw_step. destruct (gw_ended s); [exact HI|].
  destruct ev as [dg|m| | |d|].
  - destruct (gw_ending s); [exact HI|].
    destruct (read_dgram dg) as [p|e|ps]; apply finish_r_inv; [apply handle_sn_inv|..]; exact HI.
  - destruct (gw_ending s); [exact HI|]. apply finish_r_inv, handle_mq_inv. exact HI.
  - destruct (gw_ending s); exact HI.
  - destruct (gw_ending s); exact HI.
  - pose proof (run_timers_inv (advance_fuel cfg s d) s (gw_now s + d) HI) as Hr.
    destruct (run_timers (advance_fuel cfg s d) cfg s (gw_now s + d)) as [s' o]. cbn [fst] in *.
    destruct (gw_ended s'); exact Hr.
  - destruct (gw_ending s); exact HI.
Qed.

Lemma reach_inv s : reach cfg s -> Inv s.
Proof.
  induction 1 as [|s ev _ IH _]; [apply Inv_init, Hcfg|apply gw_step_inv, IH].
Qed.
End InvPres.

(* ------------------------------------------------------------------ newTopicID and unrelated fields *)

Lemma finish_obj_st s g : gw_st (finish_obj s g) = gw_st s.
Proof.
  unfold finish_obj. destruct (gw_objs s !! g) as [t|]; [|reflexivity]. cbv zeta.
  destruct t; try reflexivity;
    (match goal with |- context [match ?x with Some _ => _ | None => _ end] => destruct x as [g'|] end;
     [destruct (g' =? g)|]; reflexivity).
Qed.

Section TidFields.
Variable cfg : gw_cfg.

Lemma seq_next_st s : gw_st (fst (fst (seq_next cfg s))) = gw_st s.
Proof. unfold seq_next. cbv zeta. cbn [fst]. destruct (gw_seq_next s =? max_tid cfg); reflexivity. Qed.

Lemma skip_predefined_st fuel : forall s id, gw_st (fst (skip_predefined fuel cfg s id)) = gw_st s.
Proof.
  induction fuel as [|fuel IH]; intros s id; cbn [skip_predefined];
    destruct (get_name (predefined cfg) (gw_client_id s) id) as [n|]; try reflexivity.
  pose proof (seq_next_st s) as Hs. destruct (seq_next cfg s) as [[s' id'] ov]. cbn [fst] in Hs.
  destruct ov; [exact Hs|]. rewrite IH. exact Hs.
Qed.

Lemma new_topic_id_st s : gw_st (fst (new_topic_id cfg s)) = gw_st s.
Proof.
  unfold new_topic_id. destruct (gw_no_more_tids s); [reflexivity|].
  pose proof (seq_next_st s) as Hs. destruct (seq_next cfg s) as [[s' id'] ov]. cbn [fst] in Hs.
  destruct ov; [exact Hs|]. rewrite skip_predefined_st. exact Hs.
Qed.

(* the result of newTopicID does not depend on when the receive loop last read *)
Variable x : N.
Let up (s : gw_state) : gw_state := s <| gw_last_sn := x |>.

Lemma seq_next_up s :
  seq_next cfg (up s) = (up (fst (fst (seq_next cfg s))), snd (fst (seq_next cfg s)), snd (seq_next cfg s)).
Proof.
  unfold seq_next. cbv zeta. cbn [fst snd].
  change (gw_seq_next (up s)) with (gw_seq_next s).
  change (gw_seq_overflow (up s)) with (gw_seq_overflow s).
  destruct (gw_seq_next s =? max_tid cfg); reflexivity.
Qed.

Lemma skip_predefined_up fuel : forall s id,
  skip_predefined fuel cfg (up s) id =
  (up (fst (skip_predefined fuel cfg s id)), snd (skip_predefined fuel cfg s id)).
Proof.
  induction fuel as [|fuel IH]; intros s id; cbn [skip_predefined];
    change (gw_client_id (up s)) with (gw_client_id s);
    destruct (get_name (predefined cfg) (gw_client_id s) id) as [n|]; try reflexivity.
  rewrite seq_next_up. destruct (seq_next cfg s) as [[s' id'] ov]. cbn [fst snd].
  destruct ov; [reflexivity|apply IH].
Qed.

Lemma new_topic_id_up s :
  new_topic_id cfg (up s) = (up (fst (new_topic_id cfg s)), snd (new_topic_id cfg s)).
Proof.
  unfold new_topic_id. change (gw_no_more_tids (up s)) with (gw_no_more_tids s).
  change (gw_client_id (up s)) with (gw_client_id s).
  destruct (gw_no_more_tids s); [reflexivity|].
  rewrite seq_next_up. destruct (seq_next cfg s) as [[s' id'] ov]. cbn [fst snd].
  destruct ov; [reflexivity|apply skip_predefined_up].
Qed.
End TidFields.

Lemma new_topic_id_last_sn cfg s x :
  snd (new_topic_id cfg (s <| gw_last_sn := x |>)) = snd (new_topic_id cfg s).
Proof. rewrite new_topic_id_up. reflexivity. Qed.

(* ------------------------------------------------------------------ registerTopic and unrelated fields *)

Lemma register_topic_st cfg s name : gw_st (fst (register_topic cfg s name)) = gw_st s.
Proof.
  unfold register_topic. destruct (find_registered s name); [reflexivity|].
  pose proof (new_topic_id_st cfg s) as H. destruct (new_topic_id cfg s) as [s' [i|]]; exact H.
Qed.

Lemma register_topic_last_sn cfg s x name :
  snd (register_topic cfg (s <| gw_last_sn := x |>) name) = snd (register_topic cfg s name).
Proof.
  unfold register_topic.
  change (find_registered (s <| gw_last_sn := x |>) name) with (find_registered s name).
  destruct (find_registered s name); [reflexivity|].
  rewrite new_topic_id_up. destruct (new_topic_id cfg s) as [s' [i|]]; reflexivity.
Qed.
