(* Gateway/Sound_C02_refute.v — the unrestricted C02 statement is false of the model. *)
From stdpp Require Import base option list numbers fin_maps nmap.
From Verif.Base Require Import Bytes.
From Verif.Codec Require Import Packets Decode Encode.
From Verif.Topics Require Import Predefined.
From Verif.Gateway Require Import GwTypes GwStep GwWf GwRun Sound_C04C11 Sound_C02.
From Verif.Checkers Require Import ChkCodec ChkGw ChkGw2 ChkGw3.
Open Scope N_scope.

Lemma C02_statement_false :
  ~ (forall cfg s ev, wf_cfg cfg -> reach cfg s -> wf_event ev ->
       chk_C02 cfg s (fst (gw_step cfg s ev)) ev (obs_of_outs (snd (gw_step cfg s ev))) = []).
Proof.
  intros H.
  destruct C02_refuted_pending as [Hwf Hc].
  apply Forall_app in Hwf. destruct Hwf as [Hconn Hrest].
  inversion Hrest as [|? ? Hsub Hrest']; subst. inversion Hrest' as [|? ? Hpub _]; subst.
  set (h := c02_conn ++ [c02_sub]) in *.
  assert (Hr : reach cx_cfg (snd (gw_run cx_cfg (init_state cx_cfg) h))).
  { apply reach_run; [|constructor]. apply Forall_app. split; [exact Hconn|]. constructor; [exact Hsub|constructor]. }
  specialize (H cx_cfg _ (c02_pub 1 c02_xyz [1; 2; 3]) cx_cfg_wf Hr Hpub).
  unfold c02_chk in Hc. fold h in Hc. rewrite H in Hc. discriminate Hc.
Qed.
