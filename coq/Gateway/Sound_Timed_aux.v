(* Gateway/Sound_Timed_aux.v — the timer invariant of the gateway model used by Sound_Timed.v:
   time is monotone, timers are due in the future and have unique sequence numbers, a pending
   connect exchange has its 5 s timer armed, retransmissions of acknowledgements to the broker and
   sleep pings are bounded.  The invariant is walked through all handlers (style of Sound_C04C11.v). *)
From Coq Require Import List NArith Bool Lia ZArith ZifyN ZifyNat ZifyBool.
From stdpp Require Import base option list numbers fin_maps nmap.
From RecordUpdate Require Import RecordSet.
From Verif.Base Require Import Bytes BytesProofs.
From Verif.Codec Require Import Packets Decode Encode EncodeProofs.
From Verif.Topics Require Import Predefined.
From Verif.Gateway Require Import GwTypes GwStep GwWf GwRun.
From Verif.Checkers Require Import ChkCodec ChkGw ChkGw2.
Import RecordSetNotations.
Open Scope N_scope.
Ltac Zify.zify_post_hook ::= Z.div_mod_to_equations.

(* finish_obj removes the by-id slot only if it still holds this very transaction *)
Ltac by_id_cases :=
  match goal with
  | |- context [match ?X !! ?mid with Some _ => _ | None => _ end] =>
    let g' := fresh "g'" in destruct (X !! mid) as [g'|]; [destruct (g' =? _)|]
  end.

(* ================================================================== lists of timers *)

Lemma filter_true {A} (l : list A) : List.filter (fun _ => true) l = l.
Proof. induction l as [|a l IH]; cbn; [reflexivity|rewrite IH; reflexivity]. Qed.

Lemma NoDup_map_filter {A B} (g : A -> B) (f : A -> bool) (l : list A) :
  List.NoDup (map g l) -> List.NoDup (map g (List.filter f l)).
Proof.
  induction l as [|a l IH]; cbn; intros H; [exact H|].
  inversion H as [|? ? Hn Hd]; subst. destruct (f a); cbn; [|apply IH, Hd].
  constructor; [|apply IH, Hd]. intros Hin. apply Hn.
  apply in_map_iff in Hin. destruct Hin as [x [E Hx]]. apply filter_In in Hx.
  apply in_map_iff. exists x. split; [exact E|apply Hx].
Qed.

Lemma NoDup_map_inj {A B} (g : A -> B) (l : list A) (x y : A) :
  List.NoDup (map g l) -> In x l -> In y l -> g x = g y -> x = y.
Proof.
  induction l as [|a l IH]; cbn; intros H Hx Hy E; [contradiction|].
  inversion H as [|? ? Hn Hd]; subst.
  destruct Hx as [->|Hx], Hy as [->|Hy]; try reflexivity.
  - exfalso. apply Hn. rewrite E. apply in_map. exact Hy.
  - exfalso. apply Hn. rewrite <- E. apply in_map. exact Hx.
  - apply IH; assumption.
Qed.

Lemma min_timer_spec (l : list timer) (tm : timer) :
  min_timer l = Some tm -> In tm l /\ forall u, In u l -> tm_at tm <= tm_at u.
Proof.
  revert tm. induction l as [|a l IH]; cbn [min_timer]; intros tm H; [discriminate H|].
  destruct (min_timer l) as [u|] eqn:E.
  - destruct (IH u eq_refl) as [Hin Hmin]. unfold earlier in H.
    destruct ((tm_at a <? tm_at u) || (tm_at a =? tm_at u) && (tm_seq a <=? tm_seq u)) eqn:Ee;
      inversion H; subst; clear H.
    + split; [left; reflexivity|]. intros v [<-|Hv]; [lia|].
      specialize (Hmin v Hv). apply orb_true_iff in Ee. destruct Ee as [Ee|Ee].
      * apply N.ltb_lt in Ee. lia.
      * apply andb_true_iff in Ee. destruct Ee as [Ee _]. apply N.eqb_eq in Ee. lia.
    + split; [right; exact Hin|]. intros v [<-|Hv]; [|apply Hmin, Hv].
      apply orb_false_iff in Ee. destruct Ee as [Ee _]. apply N.ltb_ge in Ee. exact Ee.
  - inversion H; subst; clear H. destruct l as [|b l]; [|cbn in E; destruct (min_timer l); [destruct (earlier b t)|]; discriminate E].
    split; [left; reflexivity|]. intros v [<-|[]]. lia.
Qed.

Lemma min_timer_none (l : list timer) : min_timer l = None -> l = [].
Proof.
  destruct l as [|a l]; [reflexivity|]. cbn. destruct (min_timer l); [destruct (earlier a t)|]; discriminate.
Qed.

(* ================================================================== the invariant *)

(* t0: the current time; B: a pending connect exchange is timed out 100 ms before B;
   L: the client's last packet; U: the announced end of the client's sleep;
   PF: whether sleep pingers are tracked (False: the clause is void) *)
Record TI (cfg : gw_cfg) (PF : Prop) (B L : N) (U : option N) (t0 : N) (s : gw_state) : Prop := {
  ti_ended : gw_ended s = false;
  ti_ending : gw_ending s = None;
  ti_now : gw_now s = t0;
  ti_sn : gw_last_sn s <= t0;
  ti_mq : gw_last_mq s <= t0;
  ti_tm : forall tm, In tm (gw_timers s) -> t0 <= tm_at tm /\ tm_seq tm < gw_next_seq s;
  ti_nd : List.NoDup (map tm_seq (gw_timers s));
  ti_conn : forall g, gw_connect s = Some g ->
      g < gw_next_obj s /\ (exists mq a, gw_objs s !! g = Some (TxConnect mq a)) /\
      exists tm, In tm (gw_timers s) /\ tm_kind tm = TmConnect g /\ tm_at tm + 100 <= B;
  ti_timed : forall tm g, In tm (gw_timers s) -> tm_kind tm = TmTimed g ->
      g < gw_next_obj s /\ gw_connect s <> Some g /\ forall mq a, gw_objs s !! g <> Some (TxConnect mq a);
  ti_retry : forall tm g mid q st k m sn n, In tm (gw_timers s) -> tm_kind tm = TmRetry g ->
      gw_objs s !! g = Some (TxBrokerPub mid q st (RsAck k m) sn n) ->
      tm_at tm <= L + (n + 1) * retry_delay cfg;
  ti_ping : PF -> forall tm p, In tm (gw_timers s) -> tm_kind tm = TmPing p ->
      exists u tc, U = Some u /\ In tc (gw_timers s) /\ tm_kind tc = TmPingCancel p /\ tm_at tc <= u
}.

Definition no_ping (s : gw_state) : Prop := forall tm p, In tm (gw_timers s) -> tm_kind tm <> TmPing p.

Lemma TI_mono cfg PF B L U t0 s B' L' U' :
  TI cfg PF B L U t0 s -> B <= B' -> L <= L' ->
  (PF -> U' = U \/ no_ping s \/ exists u u', U = Some u /\ U' = Some u' /\ u <= u') ->
  TI cfg PF B' L' U' t0 s.
Proof.
  intros H HB HL HU. destruct H. constructor; try assumption.
  - intros g Hg. destruct (ti_conn0 g Hg) as (A1 & A2 & tm & A3 & A4 & A5).
    split; [exact A1|]. split; [exact A2|]. exists tm. repeat split; try assumption. lia.
  - intros tm g mid q st k m sn n Hin Hk Ho. specialize (ti_retry0 tm g mid q st k m sn n Hin Hk Ho). nia.
  - intros HP tm p Hin Hk. destruct (HU HP) as [->|[Hn|(u & u' & -> & -> & Hle)]].
    + apply (ti_ping0 HP tm p Hin Hk).
    + exfalso. exact (Hn tm p Hin Hk).
    + destruct (ti_ping0 HP tm p Hin Hk) as (u0 & tc & E & A1 & A2 & A3). inversion E; subst u0.
      exists u', tc. repeat split; try assumption. lia.
Qed.

(* the master lemma: S has a subset of the timers of s (possibly later in time), a transaction table
   that does not create new bounded retransmissions, and the same or no connect exchange *)
Lemma TI_upd cfg PF B L U t0 a s S (f : timer -> bool) :
  TI cfg PF B L U t0 s ->
  gw_ended S = gw_ended s -> gw_ending S = gw_ending s -> gw_now S = a -> t0 <= a ->
  gw_last_sn S = gw_last_sn s -> gw_last_mq S = gw_last_mq s ->
  gw_timers S = List.filter f (gw_timers s) ->
  (forall tm, In tm (gw_timers s) -> f tm = true -> a <= tm_at tm) ->
  gw_next_seq S = gw_next_seq s -> gw_next_obj s <= gw_next_obj S ->
  (gw_connect S = None \/
   (gw_connect S = gw_connect s /\ forall g, gw_connect s = Some g ->
      (exists mq c, gw_objs S !! g = Some (TxConnect mq c)) /\
      forall tm, In tm (gw_timers s) -> tm_kind tm = TmConnect g -> f tm = true)) ->
  (forall tm g mid q st k m sn n, In tm (gw_timers s) -> f tm = true -> tm_kind tm = TmRetry g ->
      gw_objs S !! g = Some (TxBrokerPub mid q st (RsAck k m) sn n) ->
      exists mid' q' st' k' m' sn' n', gw_objs s !! g = Some (TxBrokerPub mid' q' st' (RsAck k' m') sn' n') /\ n' <= n) ->
  (PF -> forall tm p tc, In tm (gw_timers s) -> f tm = true -> tm_kind tm = TmPing p ->
      In tc (gw_timers s) -> tm_kind tc = TmPingCancel p -> f tc = true) ->
  (forall tm g mq c, In tm (gw_timers s) -> f tm = true -> tm_kind tm = TmTimed g ->
      gw_objs S !! g = Some (TxConnect mq c) -> exists mq' c', gw_objs s !! g = Some (TxConnect mq' c')) ->
  TI cfg PF B L U a S.
Proof.
  intros H E1 E2 E3 Hle E4 E5 Et Hat E6 Hno Hc Hr Hp Htc. destruct H.
  assert (Hin : forall tm, In tm (gw_timers S) <-> In tm (gw_timers s) /\ f tm = true).
  { intros tm. rewrite Et. apply filter_In. }
  constructor.
  - congruence.
  - congruence.
  - exact E3.
  - rewrite E4. lia.
  - rewrite E5. lia.
  - intros tm Ht. apply Hin in Ht. destruct Ht as [Ht Hf]. split; [apply Hat; assumption|].
    rewrite E6. apply ti_tm0, Ht.
  - rewrite Et. apply NoDup_map_filter. exact ti_nd0.
  - intros g Hg. destruct Hc as [Hc|[Hc Hc2]]; [congruence|]. rewrite Hc in Hg.
    destruct (ti_conn0 g Hg) as (A1 & A2 & tm & A3 & A4 & A5). destruct (Hc2 g Hg) as [C1 C2].
    split; [lia|]. split; [exact C1|]. exists tm. split; [apply Hin; split; [exact A3|apply (C2 tm A3 A4)]|].
    split; assumption.
  - intros tm g Ht Hk. apply Hin in Ht. destruct Ht as [Ht Hf].
    destruct (ti_timed0 tm g Ht Hk) as (A1 & A2 & A3). split; [lia|]. split.
    + destruct Hc as [Hc|[Hc _]]; [rewrite Hc; discriminate|rewrite Hc; exact A2].
    + intros mq c Ho. destruct (Htc tm g mq c Ht Hf Hk Ho) as (mq' & c' & Ho'). exact (A3 mq' c' Ho').
  - intros tm g mid q st k m sn n Ht Hk Ho. apply Hin in Ht. destruct Ht as [Ht Hf].
    destruct (Hr tm g mid q st k m sn n Ht Hf Hk Ho) as (mid' & q' & st' & k' & m' & sn' & n' & Ho' & Hn).
    specialize (ti_retry0 tm g mid' q' st' k' m' sn' n' Ht Hk Ho'). nia.
  - intros HP tm p Ht Hk. apply Hin in Ht. destruct Ht as [Ht Hf].
    destruct (ti_ping0 HP tm p Ht Hk) as (u & tc & A1 & A2 & A3 & A4).
    exists u, tc. split; [exact A1|]. split; [|split; assumption].
    apply Hin. split; [exact A2|]. apply (Hp HP tm p tc); assumption.
Qed.

(* the same timers *)
Lemma TI_upd0 cfg PF B L U t0 s S :
  TI cfg PF B L U t0 s ->
  gw_ended S = gw_ended s -> gw_ending S = gw_ending s -> gw_now S = gw_now s ->
  gw_last_sn S = gw_last_sn s -> gw_last_mq S = gw_last_mq s ->
  gw_timers S = gw_timers s ->
  gw_next_seq S = gw_next_seq s -> gw_next_obj s <= gw_next_obj S ->
  (gw_connect S = None \/
   (gw_connect S = gw_connect s /\ forall g, gw_connect s = Some g ->
      exists mq c, gw_objs S !! g = Some (TxConnect mq c))) ->
  (forall tm g mid q st k m sn n, In tm (gw_timers s) -> tm_kind tm = TmRetry g ->
      gw_objs S !! g = Some (TxBrokerPub mid q st (RsAck k m) sn n) ->
      exists mid' q' st' k' m' sn' n', gw_objs s !! g = Some (TxBrokerPub mid' q' st' (RsAck k' m') sn' n') /\ n' <= n) ->
  (forall tm g mq c, In tm (gw_timers s) -> tm_kind tm = TmTimed g ->
      gw_objs S !! g = Some (TxConnect mq c) -> exists mq' c', gw_objs s !! g = Some (TxConnect mq' c')) ->
  TI cfg PF B L U t0 S.
Proof.
  intros H E1 E2 E3 E4 E5 Et E6 Hno Hc Hr Htc.
  apply (TI_upd cfg PF B L U t0 t0 s S (fun _ => true) H); try assumption.
  - rewrite E3. apply H.
  - lia.
  - rewrite filter_true. exact Et.
  - intros tm Ht _. apply (ti_tm _ _ _ _ _ _ _ H tm Ht).
  - destruct Hc as [Hc|[Hc Hc2]]; [left; exact Hc|right]. split; [exact Hc|].
    intros g Hg. split; [apply Hc2, Hg|reflexivity].
  - intros tm g mid q st k m sn n Ht _. apply Hr. exact Ht.
  - reflexivity.
  - intros tm g mq c Ht _. apply Htc. exact Ht.
Qed.

(* updates of fields the invariant does not read *)
Definition req (s S : gw_state) : Prop :=
  gw_ended S = gw_ended s /\ gw_ending S = gw_ending s /\ gw_now S = gw_now s /\
  gw_last_sn S = gw_last_sn s /\ gw_last_mq S = gw_last_mq s /\ gw_timers S = gw_timers s /\
  gw_next_seq S = gw_next_seq s /\ gw_connect S = gw_connect s /\ gw_next_obj S = gw_next_obj s /\
  gw_objs S = gw_objs s.

Lemma req_refl s : req s s.
Proof. repeat split. Qed.

Lemma req_trans s1 s2 s3 : req s1 s2 -> req s2 s3 -> req s1 s3.
Proof.
  intros (A1 & A2 & A3 & A4 & A5 & A6 & A7 & A8 & A9 & A10) (B1 & B2 & B3 & B4 & B5 & B6 & B7 & B8 & B9 & B10).
  repeat split; congruence.
Qed.

Lemma TI_req cfg PF B L U t0 s S : req s S -> TI cfg PF B L U t0 s -> TI cfg PF B L U t0 S.
Proof.
  intros (A1 & A2 & A3 & A4 & A5 & A6 & A7 & A8 & A9 & A10) H.
  apply (TI_upd0 cfg PF B L U t0 s S H); try assumption.
  - rewrite A9. lia.
  - right. split; [exact A8|]. intros g Hg. rewrite A10. apply (ti_conn _ _ _ _ _ _ _ H g Hg).
  - intros tm g mid q st k m sn n _ _ Ho. rewrite A10 in Ho. exists mid, q, st, k, m, sn, n. split; [exact Ho|lia].
  - intros tm g mq c _ _ Ho. rewrite A10 in Ho. eauto.
Qed.

(* ================================================================== primitive state updates *)

Lemma NoDup_app_intro {A} (l k : list A) :
  List.NoDup l -> List.NoDup k -> (forall x, In x l -> In x k -> False) -> List.NoDup (l ++ k).
Proof.
  induction l as [|a l IH]; cbn; intros Hl Hk Hd; [exact Hk|].
  inversion Hl as [|? ? Hn Hl']; subst. constructor.
  - intros Hin. apply in_app_or in Hin. destruct Hin as [Hin|Hin]; [exact (Hn Hin)|].
    apply (Hd a); [left; reflexivity|exact Hin].
  - apply IH; [exact Hl'|exact Hk|]. intros x Hx Hx'. apply (Hd x); [right; exact Hx|exact Hx'].
Qed.

(* new timers are appended *)
Lemma TI_app cfg PF B L U t0 s S (l : list timer) :
  TI cfg PF B L U t0 s ->
  gw_ended S = gw_ended s -> gw_ending S = gw_ending s -> gw_now S = gw_now s ->
  gw_last_sn S = gw_last_sn s -> gw_last_mq S = gw_last_mq s ->
  gw_timers S = gw_timers s ++ l ->
  gw_connect S = gw_connect s -> gw_next_obj s <= gw_next_obj S -> gw_objs S = gw_objs s ->
  (forall tm, In tm l -> t0 <= tm_at tm /\ gw_next_seq s <= tm_seq tm < gw_next_seq S) ->
  gw_next_seq s <= gw_next_seq S ->
  List.NoDup (map tm_seq l) ->
  (forall tm g, In tm l -> tm_kind tm = TmTimed g -> g < gw_next_obj s /\ gw_connect s <> Some g /\
      forall mq a, gw_objs s !! g <> Some (TxConnect mq a)) ->
  (forall tm g mid q st k m sn n, In tm l -> tm_kind tm = TmRetry g ->
      gw_objs s !! g = Some (TxBrokerPub mid q st (RsAck k m) sn n) -> tm_at tm <= L + (n + 1) * retry_delay cfg) ->
  (PF -> forall tm p, In tm l -> tm_kind tm = TmPing p ->
      exists u tc, U = Some u /\ In tc (gw_timers s ++ l) /\ tm_kind tc = TmPingCancel p /\ tm_at tc <= u) ->
  TI cfg PF B L U t0 S.
Proof.
  intros H E1 E2 E3 E4 E5 Et Ec Hno Eo Hl Hsq Hnd Htd Hrt Hpg. destruct H.
  constructor.
  - congruence.
  - congruence.
  - congruence.
  - rewrite E4. exact ti_sn0.
  - rewrite E5. exact ti_mq0.
  - intros tm Ht. rewrite Et in Ht. apply in_app_or in Ht. destruct Ht as [Ht|Ht].
    + destruct (ti_tm0 tm Ht). split; [assumption|lia].
    + destruct (Hl tm Ht). split; [assumption|lia].
  - rewrite Et, map_app. apply NoDup_app_intro; [exact ti_nd0|exact Hnd|].
    intros x Hx Hx'. apply in_map_iff in Hx, Hx'. destruct Hx as [a [<- Ha]], Hx' as [b [Eb Hb]].
    destruct (ti_tm0 a Ha) as [_ A]. destruct (Hl b Hb) as [_ B']. lia.
  - intros g Hg. rewrite Ec in Hg. destruct (ti_conn0 g Hg) as (A1 & A2 & tm & A3 & A4 & A5).
    split; [lia|]. split; [rewrite Eo; exact A2|]. exists tm. split; [rewrite Et; apply in_or_app; left; exact A3|].
    split; assumption.
  - intros tm g Ht Hk. rewrite Et in Ht. rewrite Ec. apply in_app_or in Ht. destruct Ht as [Ht|Ht].
    + destruct (ti_timed0 tm g Ht Hk) as (A1 & A2 & A3). split; [lia|]. split; [assumption|]. rewrite Eo. exact A3.
    + destruct (Htd tm g Ht Hk) as (A1 & A2 & A3). split; [lia|]. split; [assumption|]. rewrite Eo. exact A3.
  - intros tm g mid q st k m sn n Ht Hk Ho. rewrite Et in Ht. rewrite Eo in Ho. apply in_app_or in Ht.
    destruct Ht as [Ht|Ht]; [eapply ti_retry0; eassumption|eapply Hrt; eassumption].
  - intros HP tm p Ht Hk. rewrite Et in Ht. apply in_app_or in Ht. destruct Ht as [Ht|Ht].
    + destruct (ti_ping0 HP tm p Ht Hk) as (u & tc & A1 & A2 & A3 & A4). exists u, tc.
      split; [exact A1|]. split; [rewrite Et; apply in_or_app; left; exact A2|]. split; assumption.
    + destruct (Hpg HP tm p Ht Hk) as (u & tc & A1 & A2 & A3 & A4). exists u, tc.
      split; [exact A1|]. split; [rewrite Et; exact A2|]. split; assumption.
Qed.

Section Prims.
Context (cfg : gw_cfg) (PF : Prop) (B L : N) (U : option N) (t0 : N).
Notation TI' := (TI cfg PF B L U t0).

Lemma TI_arm s k d :
  TI' s ->
  (forall g, k = TmTimed g -> g < gw_next_obj s /\ gw_connect s <> Some g /\
      forall mq a, gw_objs s !! g <> Some (TxConnect mq a)) ->
  (forall g mid q st ak m sn n, k = TmRetry g ->
      gw_objs s !! g = Some (TxBrokerPub mid q st (RsAck ak m) sn n) -> t0 + d <= L + (n + 1) * retry_delay cfg) ->
  (PF -> forall p, k = TmPing p ->
      exists u tc, U = Some u /\ In tc (gw_timers s) /\ tm_kind tc = TmPingCancel p /\ tm_at tc <= u) ->
  TI' (arm s k d).
Proof.
  intros H H1 H2 H3. pose proof (ti_now _ _ _ _ _ _ _ H) as Hnow.
  apply (TI_app cfg PF B L U t0 s (arm s k d) [{| tm_at := gw_now s + d; tm_seq := gw_next_seq s; tm_kind := k |}] H);
    try reflexivity; cbn.
  - intros tm [<-|[]]. cbn. lia.
  - lia.
  - constructor; [intros []|constructor].
  - intros tm g [<-|[]] Hk. cbn in Hk. apply H1, Hk.
  - intros tm g mid q st ak m sn n [<-|[]] Hk Ho. cbn in *. rewrite Hnow. eapply H2; eassumption.
  - intros HP tm p [<-|[]] Hk. cbn in Hk. destruct (H3 HP p Hk) as (u & tc & A1 & A2 & A3 & A4).
    exists u, tc. split; [exact A1|]. split; [apply in_or_app; left; exact A2|]. split; assumption.
Qed.

Lemma TI_disarm_ping s p : TI' s -> TI' (disarm_ping s p).
Proof.
  intros H. unfold disarm_ping.
  eapply (TI_upd cfg PF B L U t0 t0 s _ _ H); try reflexivity.
  - apply H.
  - intros tm Ht _. apply (ti_tm _ _ _ _ _ _ _ H tm Ht).
  - right. split; [reflexivity|]. intros g Hg. split; [apply (ti_conn _ _ _ _ _ _ _ H g Hg)|].
    intros tm _ Hk. cbv beta. rewrite Hk. reflexivity.
  - intros tm g mid q st k m sn n _ _ _ Ho. cbn in Ho. exists mid, q, st, k, m, sn, n. split; [exact Ho|lia].
  - intros _ tm q tc _ _ _ _ Hk. cbv beta. rewrite Hk. reflexivity.
  - intros tm g0 mq c _ _ _ Ho. cbn in Ho. eauto.
Qed.

Lemma TI_disarm_obj s g : TI' s -> gw_connect s <> Some g -> TI' (disarm_obj s g).
Proof.
  intros H Hg. unfold disarm_obj.
  eapply (TI_upd cfg PF B L U t0 t0 s _ _ H); try reflexivity.
  - apply H.
  - intros tm Ht _. apply (ti_tm _ _ _ _ _ _ _ H tm Ht).
  - right. split; [reflexivity|]. intros g0 Hg0. split; [apply (ti_conn _ _ _ _ _ _ _ H g0 Hg0)|].
    intros tm _ Hk. cbv beta. rewrite Hk. cbn. destruct (N.eqb_spec g g0) as [->|]; [contradiction|reflexivity].
  - intros tm g0 mid q st k m sn n _ _ _ Ho. cbn in Ho. exists mid, q, st, k, m, sn, n. split; [exact Ho|lia].
  - intros _ tm q tc _ _ _ _ Hk. cbv beta. rewrite Hk. reflexivity.
  - intros tm g0 mq c _ _ _ Ho. cbn in Ho. eauto.
Qed.

(* the transaction table changes at one key that is not the connect exchange *)
Lemma TI_objs s (m' : Nmap txn) :
  TI' s ->
  (forall g, gw_connect s = Some g -> exists mq c, m' !! g = Some (TxConnect mq c)) ->
  (forall tm g mid q st k m sn n, In tm (gw_timers s) -> tm_kind tm = TmRetry g ->
      m' !! g = Some (TxBrokerPub mid q st (RsAck k m) sn n) ->
      exists mid' q' st' k' m0 sn' n', gw_objs s !! g = Some (TxBrokerPub mid' q' st' (RsAck k' m0) sn' n') /\ n' <= n) ->
  (forall tm g mq c, In tm (gw_timers s) -> tm_kind tm = TmTimed g ->
      m' !! g = Some (TxConnect mq c) -> exists mq' c', gw_objs s !! g = Some (TxConnect mq' c')) ->
  TI' (s <| gw_objs := m' |>).
Proof.
  intros H H1 H2 H3. apply (TI_upd0 cfg PF B L U t0 s _ H); try reflexivity.
  - right. split; [reflexivity|]. exact H1.
  - exact H2.
  - exact H3.
Qed.

Lemma TI_set_connect s g mq a mq' a' :
  TI' s -> gw_objs s !! g = Some (TxConnect mq a) -> TI' (set_obj s g (TxConnect mq' a')).
Proof.
  intros H Hg. unfold set_obj. apply TI_objs; [exact H| | |].
  - intros g0 Hg0. destruct (N.eq_dec g0 g) as [->|Hne].
    + rewrite lookup_insert. eauto.
    + rewrite lookup_insert_ne by congruence. apply (ti_conn _ _ _ _ _ _ _ H g0 Hg0).
  - intros tm g0 mid q st k m sn n _ _ Ho. destruct (N.eq_dec g0 g) as [->|Hne].
    + rewrite lookup_insert in Ho. discriminate Ho.
    + rewrite lookup_insert_ne in Ho by congruence. exists mid, q, st, k, m, sn, n. split; [exact Ho|lia].
  - intros tm g0 mq0 c0 _ _ Ho. destruct (N.eq_dec g0 g) as [->|Hne]; [eauto|].
    rewrite lookup_insert_ne in Ho by congruence. eauto.
Qed.

Definition plain_txn (t : txn) : Prop :=
  match t with TxBrokerPub _ _ _ (RsAck _ _) _ _ => False | _ => True end.

Lemma TI_new_obj s t : TI' s -> plain_txn t -> TI' (fst (new_obj s t)).
Proof.
  intros H Ht. unfold new_obj. cbn [fst].
  apply (TI_upd0 cfg PF B L U t0 s _ H); try reflexivity.
  - cbn. lia.
  - right. split; [reflexivity|]. intros g Hg. cbn.
    destruct (ti_conn _ _ _ _ _ _ _ H g Hg) as (A1 & A2 & _).
    rewrite lookup_insert_ne by lia. exact A2.
  - intros tm g mid q st k m sn n _ _ Ho. cbn in Ho. destruct (N.eq_dec g (gw_next_obj s)) as [->|Hne].
    + rewrite lookup_insert in Ho. inversion Ho; subst t. contradiction.
    + rewrite lookup_insert_ne in Ho by congruence. exists mid, q, st, k, m, sn, n. split; [exact Ho|lia].
  - intros tm g mq c Hin Hk Ho. cbn in Ho. destruct (ti_timed _ _ _ _ _ _ _ H tm g Hin Hk) as (A1 & _).
    rewrite lookup_insert_ne in Ho by lia. eauto.
Qed.

Lemma TI_finish_obj s g : TI' s -> TI' (finish_obj s g).
Proof.
  intros H. unfold finish_obj. destruct (gw_objs s !! g) as [t|] eqn:Hobj; [|exact H].
  assert (Hr : forall (m' : Nmap txn), (forall g', m' !! g' = delete g (gw_objs s) !! g') -> forall tm g0 mid q st k m sn n,
            In tm (gw_timers s) -> negb (timer_of_obj g (tm_kind tm)) = true -> tm_kind tm = TmRetry g0 ->
            m' !! g0 = Some (TxBrokerPub mid q st (RsAck k m) sn n) ->
            exists mid' q' st' k' m0 sn' n', gw_objs s !! g0 = Some (TxBrokerPub mid' q' st' (RsAck k' m0) sn' n') /\ n' <= n).
  { intros m' Hm tm g0 mid q st k m sn n _ _ _ Ho. rewrite Hm in Ho. apply lookup_delete_Some in Ho.
    destruct Ho as [_ Ho]. exists mid, q, st, k, m, sn, n. split; [exact Ho|lia]. }
  assert (Hc : forall g0, gw_connect s = Some g0 -> g0 <> g ->
            (exists mq c, delete g (gw_objs s) !! g0 = Some (TxConnect mq c)) /\
            forall tm, In tm (gw_timers s) -> tm_kind tm = TmConnect g0 -> negb (timer_of_obj g (tm_kind tm)) = true).
  { intros g0 Hg0 Hne. split.
    - rewrite lookup_delete_ne by congruence. apply (ti_conn _ _ _ _ _ _ _ H g0 Hg0).
    - intros tm _ Hk. cbv beta. rewrite Hk. cbn. destruct (N.eqb_spec g g0) as [->|]; [contradiction|reflexivity]. }
  assert (Hcommon : forall S, gw_ended S = gw_ended s -> gw_ending S = gw_ending s -> gw_now S = gw_now s ->
            gw_last_sn S = gw_last_sn s -> gw_last_mq S = gw_last_mq s ->
            gw_timers S = List.filter (fun t => negb (timer_of_obj g (tm_kind t))) (gw_timers s) ->
            gw_next_seq S = gw_next_seq s -> gw_next_obj S = gw_next_obj s ->
            gw_objs S = delete g (gw_objs s) ->
            (gw_connect S = None \/ (gw_connect S = gw_connect s /\ gw_connect s <> Some g)) -> TI' S).
  { intros S E1 E2 E3 E4 E5 Et E6 E7 Eo Hcc.
    eapply (TI_upd cfg PF B L U t0 t0 s S _ H); try eassumption.
    - rewrite E3. apply H.
    - lia.
    - intros tm Ht _. apply (ti_tm _ _ _ _ _ _ _ H tm Ht).
    - rewrite E7. lia.
    - destruct Hcc as [Hcc|[Hcc Hne]]; [left; exact Hcc|right]. split; [exact Hcc|].
      intros g0 Hg0. rewrite Eo. apply Hc; congruence.
    - apply Hr. intros g'. rewrite Eo. reflexivity.
    - intros _ tm q tc _ _ _ _ Hk. cbv beta. rewrite Hk. reflexivity.
    - intros tm g0 mq c _ _ _ Ho. rewrite Eo in Ho. apply lookup_delete_Some in Ho. destruct Ho as [_ Ho]. eauto. }
  destruct t as [mq a|mid tid|mid tid|mid qos st data snpub n].
  - apply Hcommon; try reflexivity. left. reflexivity.
  - by_id_cases; apply Hcommon; try reflexivity; right; (split; [reflexivity|]); intros Hg;
    destruct (ti_conn _ _ _ _ _ _ _ H g Hg) as (_ & (mq & c & A) & _); congruence.
  - by_id_cases; apply Hcommon; try reflexivity; right; (split; [reflexivity|]); intros Hg;
    destruct (ti_conn _ _ _ _ _ _ _ H g Hg) as (_ & (mq & c & A) & _); congruence.
  - by_id_cases; apply Hcommon; try reflexivity; right; (split; [reflexivity|]); intros Hg;
    destruct (ti_conn _ _ _ _ _ _ _ H g Hg) as (_ & (mq & c & A) & _); congruence.
Qed.

(* RetryTransaction.Proceed: new data, retry counter 0, the old timer is replaced *)
Lemma TI_bp_arm s g mid qos st data snpub d :
  TI' s -> gw_connect s <> Some g ->
  (match data with RsAck _ _ => t0 + d <= L + retry_delay cfg | _ => True end) ->
  TI' (arm (disarm_obj (set_obj s g (TxBrokerPub mid qos st data snpub 0)) g) (TmRetry g) d).
Proof.
  intros H Hg Hd.
  assert (H1 : TI' (disarm_obj (set_obj s g (TxBrokerPub mid qos st data snpub 0)) g)).
  { unfold disarm_obj, set_obj.
    eapply (TI_upd cfg PF B L U t0 t0 s _ _ H); try reflexivity.
    - apply H.
    - intros tm Ht _. apply (ti_tm _ _ _ _ _ _ _ H tm Ht).
    - right. split; [reflexivity|]. intros g0 Hg0. cbn. split.
      + rewrite lookup_insert_ne by congruence. apply (ti_conn _ _ _ _ _ _ _ H g0 Hg0).
      + intros tm _ Hk. cbv beta. rewrite Hk. cbn. destruct (N.eqb_spec g g0) as [->|]; [contradiction|reflexivity].
    - intros tm g0 mid0 q0 st0 k m sn n _ Hf Hk Ho. cbn in Ho, Hf. rewrite Hk in Hf. cbn in Hf.
      destruct (N.eqb_spec g g0) as [->|Hne]; [discriminate Hf|].
      rewrite lookup_insert_ne in Ho by congruence. exists mid0, q0, st0, k, m, sn, n. split; [exact Ho|lia].
    - intros _ tm q tc _ _ _ _ Hk. cbv beta. rewrite Hk. reflexivity.
    - intros tm g0 mq c _ _ _ Ho. cbn in Ho. destruct (N.eq_dec g0 g) as [->|Hne].
      + rewrite lookup_insert in Ho. discriminate Ho.
      + rewrite lookup_insert_ne in Ho by congruence. eauto. }
  apply TI_arm; [exact H1| | |].
  - intros g0 Hk. discriminate Hk.
  - intros g0 mid0 q0 st0 ak m sn n Hk Ho. inversion Hk; subst g0. cbn in Ho. rewrite lookup_insert in Ho.
    inversion Ho; subst. lia.
  - intros _ p Hk. discriminate Hk.
Qed.

(* a retry: the counter is incremented, the data keeps its kind *)
Lemma TI_retry_arm s g mid qos st data data' snpub n bf d :
  TI' s -> gw_objs s !! g = Some (TxBrokerPub mid qos st data snpub n) ->
  (match data' with RsAck _ _ => (match data with RsAck _ _ => True | _ => False end) /\
                                  t0 + d <= L + (n + 2) * retry_delay cfg | _ => True end) ->
  TI' (arm (set_obj s g (TxBrokerPub mid qos st data' snpub (n + 1)) <| gw_buffer := bf |>) (TmRetry g) d).
Proof.
  intros H Ho Hd.
  assert (H1 : TI' (set_obj s g (TxBrokerPub mid qos st data' snpub (n + 1)) <| gw_buffer := bf |>)).
  { unfold set_obj. apply (TI_upd0 cfg PF B L U t0 s _ H); try reflexivity.
    - right. split; [reflexivity|]. intros g0 Hg0. cbn.
      destruct (ti_conn _ _ _ _ _ _ _ H g0 Hg0) as (_ & (mq & c & A) & _).
      rewrite lookup_insert_ne by congruence. eauto.
    - intros tm g0 mid0 q0 st0 k m sn n0 _ _ Ho'. cbn in Ho'. destruct (N.eq_dec g0 g) as [->|Hne].
      + rewrite lookup_insert in Ho'. inversion Ho'; subst. destruct Hd as [Hd _].
        destruct data as [|k0 m0]; [contradiction|]. exists mid0, q0, st0, k0, m0, sn, n. split; [exact Ho|lia].
      + rewrite lookup_insert_ne in Ho' by congruence. exists mid0, q0, st0, k, m, sn, n0. split; [exact Ho'|lia].
    - intros tm g0 mq c _ _ Ho'. cbn in Ho'. destruct (N.eq_dec g0 g) as [->|Hne].
      + rewrite lookup_insert in Ho'. discriminate Ho'.
      + rewrite lookup_insert_ne in Ho' by congruence. eauto. }
  apply TI_arm; [exact H1| | |].
  - intros g0 Hk. discriminate Hk.
  - intros g0 mid0 q0 st0 ak m sn n0 Hk Ho'. inversion Hk; subst g0. cbn in Ho'. rewrite lookup_insert in Ho'.
    inversion Ho'; subst. destruct Hd as [_ Hd]. lia.
  - intros _ p Hk. discriminate Hk.
Qed.

(* handleConnect: a new connect exchange with its 5 s timer *)
Lemma TI_connect_block s mq a :
  TI' s -> t0 + connectTransactionTimeout + connTimeout <= B ->
  TI' (arm (fst (new_obj s (TxConnect mq a)) <| gw_connect := Some (snd (new_obj s (TxConnect mq a))) |>)
           (TmConnect (snd (new_obj s (TxConnect mq a)))) connectTransactionTimeout).
Proof.
  intros H HB. pose proof H as H'. destruct H. unfold new_obj, arm. cbn [fst snd].
  constructor; cbn.
  - assumption.
  - assumption.
  - assumption.
  - assumption.
  - assumption.
  - intros tm Ht. apply in_app_or in Ht. destruct Ht as [Ht|[<-|[]]].
    + destruct (ti_tm0 tm Ht). split; [assumption|lia].
    + cbn. lia.
  - rewrite map_app. apply NoDup_app_intro; [exact ti_nd0|constructor; [intros []|constructor]|].
    intros x Hx Hx'. cbn in Hx'. destruct Hx' as [<-|[]]. apply in_map_iff in Hx. destruct Hx as [tm [E Ht]]. destruct (ti_tm0 tm Ht). lia.
  - intros g Hg. inversion Hg; subst g. split; [lia|]. split; [rewrite lookup_insert; eauto|].
    eexists. split; [apply in_or_app; right; left; reflexivity|]. cbn. split; [reflexivity|].
    unfold connectTransactionTimeout, connTimeout in *. lia.
  - intros tm g Ht Hk. apply in_app_or in Ht. destruct Ht as [Ht|[<-|[]]]; [|discriminate Hk].
    destruct (ti_timed0 tm g Ht Hk) as (A1 & _ & A3). split; [lia|]. split; [intros E; inversion E; lia|].
    intros mq0 a0. rewrite lookup_insert_ne by lia. apply A3.
  - intros tm g mid q st k m sn n Ht Hk Ho. apply in_app_or in Ht. destruct Ht as [Ht|[<-|[]]]; [|discriminate Hk].
    destruct (N.eq_dec g (gw_next_obj s)) as [->|Hne].
    + rewrite lookup_insert in Ho. discriminate Ho.
    + rewrite lookup_insert_ne in Ho by congruence. eapply ti_retry0; eassumption.
  - intros HP tm p Ht Hk. apply in_app_or in Ht. destruct Ht as [Ht|[<-|[]]]; [|discriminate Hk].
    destruct (ti_ping0 HP tm p Ht Hk) as (u & tc & A1 & A2 & A3 & A4). exists u, tc.
    split; [exact A1|]. split; [apply in_or_app; left; exact A2|]. split; assumption.
Qed.

(* handleDisconnect with a duration above the keep-alive: the sleep pinger *)
Lemma TI_ping_block s p d1 d2 :
  TI' s -> (PF -> exists u, U = Some u /\ t0 + d2 <= u) ->
  TI' (arm (arm (s <| gw_next_obj := gw_next_obj s + 1 |>) (TmPing p) d1) (TmPingCancel p) d2).
Proof.
  intros H HU. pose proof (ti_now _ _ _ _ _ _ _ H) as Hnow.
  apply (TI_app cfg PF B L U t0 s _
           [{| tm_at := gw_now s + d1; tm_seq := gw_next_seq s; tm_kind := TmPing p |};
            {| tm_at := gw_now s + d2; tm_seq := gw_next_seq s + 1; tm_kind := TmPingCancel p |}] H);
    try reflexivity.
  - cbn. rewrite <- app_assoc. reflexivity.
  - cbn. lia.
  - intros tm [<-|[<-|[]]]; cbn; lia.
  - cbn. lia.
  - cbn. constructor; [intros [E|[]]; lia|constructor; [intros []|constructor]].
  - intros tm g [<-|[<-|[]]] Hk; discriminate Hk.
  - intros tm g mid q st k m sn n [<-|[<-|[]]] Hk; discriminate Hk.
  - intros HP tm q [<-|[<-|[]]] Hk; [|discriminate Hk]. cbn in Hk. inversion Hk; subst q.
    destruct (HU HP) as (u & -> & Hu). eexists u, _. split; [reflexivity|].
    split; [apply in_or_app; right; right; left; reflexivity|]. cbn. split; [reflexivity|lia].
Qed.

End Prims.

(* ================================================================== the handlers *)

Definition st_of (r : R) : gw_state := fst (fst r).
Definition outs_of (r : R) : list gw_out := snd (fst r).

Ltac ti_tac :=
  repeat first
    [ assumption
    | match goal with
      | |- TI _ _ _ _ _ _ (finish_obj _ _) => apply TI_finish_obj
      | |- TI _ _ _ _ _ _ (disarm_ping _ _) => apply TI_disarm_ping
      | |- TI _ _ _ _ _ _ (note_handed ?S _ _) => apply (TI_req _ _ _ _ _ _ S); [repeat split; reflexivity|]
      | |- TI _ _ _ _ _ _ (@set gw_state _ _ _ _ ?S) => apply (TI_req _ _ _ _ _ _ S); [repeat split; reflexivity|]
      | |- TI _ _ _ _ _ _ (if ?c then _ else _) => destruct c
      | |- TI _ _ _ _ _ _ (match ?c with _ => _ end) => destruct c
      end ].

Lemma seq_next_req cfg s : req s (fst (fst (seq_next cfg s))).
Proof. unfold seq_next. destruct (gw_seq_next s =? max_tid cfg); repeat split. Qed.

Lemma skip_predefined_req cfg fuel : forall s id, req s (fst (skip_predefined fuel cfg s id)).
Proof.
  induction fuel as [|fuel IH]; intros s id; cbn [skip_predefined];
    destruct (get_name (predefined cfg) (gw_client_id s) id); try (repeat split; fail).
  pose proof (seq_next_req cfg s) as Hs. destruct (seq_next cfg s) as [[s1 id1] ov]. cbn [fst] in Hs.
  destruct ov.
  - eapply req_trans; [exact Hs|repeat split].
  - eapply req_trans; [exact Hs|apply IH].
Qed.

Lemma new_topic_id_req cfg s : req s (fst (new_topic_id cfg s)).
Proof.
  unfold new_topic_id. destruct (gw_no_more_tids s); [apply req_refl|].
  pose proof (seq_next_req cfg s) as Hs. destruct (seq_next cfg s) as [[s1 id1] ov]. cbn [fst] in Hs.
  destruct ov.
  - eapply req_trans; [exact Hs|repeat split].
  - eapply req_trans; [exact Hs|apply skip_predefined_req].
Qed.

Lemma register_topic_req cfg s name : req s (fst (register_topic cfg s name)).
Proof.
  unfold register_topic. destruct (find_registered s name); [apply req_refl|].
  pose proof (new_topic_id_req cfg s) as Hn. destruct (new_topic_id cfg s) as [s1 [i|]]; cbn [fst] in *.
  - eapply req_trans; [exact Hn|repeat split].
  - exact Hn.
Qed.

Lemma get_by_id_obj s mid g t : get_by_id s mid = Some (g, t) -> gw_objs s !! g = Some t.
Proof.
  unfold get_by_id. destruct (gw_by_id s !! mid) as [g'|]; [|discriminate].
  destruct (gw_objs s !! g') as [t'|] eqn:E; [|discriminate]. intros H. inversion H; subst. exact E.
Qed.

Lemma get_connect_obj s g mq a : get_connect s = Some (g, mq, a) -> gw_connect s = Some g /\ gw_objs s !! g = Some (TxConnect mq a).
Proof.
  unfold get_connect. destruct (gw_connect s) as [g'|]; [|discriminate].
  destruct (gw_objs s !! g') as [[mq' a'| | |]|] eqn:E; try discriminate. intros H. inversion H; subst. split; [reflexivity|exact E].
Qed.

Definition no_end (o : list gw_out) : Prop := forall te, ~ In (OutEnd te) o.
Lemma no_end_app a b : no_end a -> no_end b -> no_end (a ++ b).
Proof. intros Ha Hb te Hin. apply in_app_or in Hin. destruct Hin; [eapply Ha|eapply Hb]; eassumption. Qed.
Lemma no_end_nil : no_end [].
Proof. intros te []. Qed.

Section Walk.
Context (cfg : gw_cfg) (PF : Prop) (B L : N) (U : option N) (t0 : N).
Notation TI' := (TI cfg PF B L U t0).

(* the handler keeps the invariant and does not report the end of the session *)
Definition PT (r : R) : Prop := TI' (st_of r) /\ no_end (outs_of r).

Lemma pt_ok s : TI' s -> PT (ok s []).
Proof. intros H. split; [exact H|apply no_end_nil]. Qed.
Lemma pt_stop s e : TI' s -> PT (stop s [] e).
Proof. intros H. split; [exact H|apply no_end_nil]. Qed.
Lemma pt_mq_send s m : TI' s -> PT (mq_send s m).
Proof. intros H. split; [exact H|]. intros te [E|[]]. discriminate E. Qed.
Lemma pt_sn_send_owned s o p : TI' s -> PT (sn_send_owned s o p).
Proof.
  intros H. unfold sn_send_owned. destruct (gw_st s); try destruct (len (pack p) <=? MaxPacketLen);
    (split; [cbn [st_of ok stop fst]; ti_tac|cbn; try apply no_end_nil; intros te [E|[]]; discriminate E]).
Qed.
Lemma pt_sn_send_now s p : TI' s -> PT (sn_send_now s p).
Proof.
  intros H. unfold sn_send_now. destruct (len (pack p) <=? MaxPacketLen);
    (split; [cbn [st_of ok stop fst]; ti_tac|cbn; try apply no_end_nil; intros te [E|[]]; discriminate E]).
Qed.
Lemma pt_andthen r g : PT r -> (forall s1, TI' s1 -> PT (g s1)) -> PT (andthen r g).
Proof.
  intros [Hr Ho] Hg. destruct r as [[s1 o1] [|e]]; cbn [andthen]; [|split; assumption].
  specialize (Hg s1 Hr). destruct (g s1) as [[s2 o2] res]. destruct Hg as [Hg1 Hg2]. split; [exact Hg1|].
  apply no_end_app; assumption.
Qed.

Ltac pt_auto :=
  repeat match goal with
         | |- PT (andthen _ _) => apply pt_andthen; [|intros ? ?]
         | |- PT (sn_send _ _) => apply pt_sn_send_owned
         | |- PT (sn_send_owned _ _ _) => apply pt_sn_send_owned
         | |- PT (mq_send _ _) => apply pt_mq_send
         | |- PT (ok _ []) => apply pt_ok
         | |- PT (stop _ [] _) => apply pt_stop
         | |- PT (match ?x with _ => _ end) => destruct x eqn:?
         | |- PT (if ?x then _ else _) => destruct x eqn:?
         end.

Definition is_cx (s : gw_state) (g : N) : Prop := exists mq a, gw_objs s !! g = Some (TxConnect mq a).
Definition is_bp (s : gw_state) (g : N) : Prop :=
  exists mid q st d sn n, gw_objs s !! g = Some (TxBrokerPub mid q st d sn n).

Lemma bp_not_connect s g : TI' s -> is_bp s g -> gw_connect s <> Some g.
Proof.
  intros H (mid & q & st & d & sn & n & Ho) Hg.
  destruct (ti_conn _ _ _ _ _ _ _ H g Hg) as (_ & (mq & c & A) & _). congruence.
Qed.

Lemma connect_auth_done_pt s g mq : TI' s -> is_cx s g -> PT (connect_auth_done s g mq).
Proof.
  intros H (mq0 & a0 & Ho). unfold connect_auth_done.
  pt_auto; eapply TI_set_connect; eassumption.
Qed.

Lemma connect_start_pt s g mq a : TI' s -> is_cx s g -> PT (connect_start s g mq a).
Proof.
  intros H Hc. unfold connect_start. destruct a; [|apply connect_auth_done_pt; assumption].
  destruct Hc as (mq0 & a0 & Ho). apply pt_ok. eapply TI_set_connect; eassumption.
Qed.

Lemma handle_connect_pt s w cl pr d cid :
  TI' s -> t0 + connectTransactionTimeout + connTimeout <= B -> PT (handle_connect cfg s w cl pr d cid).
Proof.
  intros H HB. unfold handle_connect.
  destruct (negb (pr =? 1)); [pt_auto; ti_tac|].
  destruct (cstate_eqb (gw_st s) Awake || cstate_eqb (gw_st s) Asleep); [pt_auto; ti_tac|].
  destruct (d =? 0); [pt_auto; ti_tac|]. cbv zeta.
  match goal with |- context [new_obj ?S0 (TxConnect ?MQ CxAuth)] =>
    assert (H2 : TI' S0) by ti_tac;
    pose proof (TI_connect_block cfg PF B L U t0 S0 MQ CxAuth H2 HB) as HC;
    set (s2 := S0) in *; set (mq := MQ) in * end.
  clearbody s2. unfold new_obj in *. cbn [fst snd] in HC.
  apply connect_start_pt; [exact HC|].
  exists mq, CxAuth. cbn. apply lookup_insert.
Qed.

Lemma connect_auth_pt s g mq a me da : TI' s -> is_cx s g -> PT (connect_auth s g mq a me da).
Proof.
  intros H Hc. unfold connect_auth. pt_auto; try ti_tac.
  apply connect_auth_done_pt; [ti_tac|exact Hc].
Qed.

Lemma timed_block s t bi d :
  TI' s -> match t with TxClientPub1 _ _ | TxSubscribe _ _ => True | _ => False end ->
  TI' (arm (fst (new_obj s t) <| gw_by_id := bi |>) (TmTimed (snd (new_obj s t))) d).
Proof.
  intros H Ht. apply TI_arm.
  - apply (TI_req _ _ _ _ _ _ (fst (new_obj s t))); [repeat split; reflexivity|].
    apply TI_new_obj; [exact H|]. destruct t; try contradiction; exact I.
  - intros g Hk. inversion Hk; subst g. unfold new_obj. cbn. split; [lia|]. split.
    + intros Hg. destruct (ti_conn _ _ _ _ _ _ _ H _ Hg) as (A & _). lia.
    + intros mq a. rewrite lookup_insert. destruct t; try contradiction; discriminate.
  - intros g mid q st ak m sn n Hk. discriminate Hk.
  - intros _ p Hk. discriminate Hk.
Qed.

Lemma handle_client_publish_pt s dup q r tit tid mid data :
  TI' s -> PT (handle_client_publish cfg s dup q r tit tid mid data).
Proof.
  intros H. unfold handle_client_publish.
  destruct (resolve_client_topic cfg s tit tid); [|apply pt_stop, H].
  destruct (has_wildcard b || _); [apply pt_stop, H|]. cbv zeta.
  destruct (q =? 1); [|apply pt_mq_send, H].
  pose proof (timed_block s (TxClientPub1 mid tid)) as HT. unfold new_obj in *. cbn [fst snd] in HT.
  apply pt_mq_send. apply HT; [exact H|exact I].
Qed.

Lemma handle_subscribe_pt s dup qos tit mid tid name :
  TI' s -> PT (handle_subscribe cfg s dup qos tit mid tid name).
Proof.
  intros H. unfold handle_subscribe. cbv zeta.
  assert (Hgo : forall S topic topic_id, TI' S ->
            PT (let (s0, g) := new_obj S (TxSubscribe mid topic_id) in
                mq_send (arm (s0 <| gw_by_id := <[mid:=g]> (gw_by_id s0) |>) (TmTimed g) (retry_delay cfg))
                        (MqSubscribe mid false [(topic, qos)]))).
  { intros S topic topic_id HS. pose proof (timed_block S (TxSubscribe mid topic_id)) as HT.
    unfold new_obj in *. cbn [fst snd] in HT. apply pt_mq_send. apply HT; [exact HS|exact I]. }
  destruct ((2 <? qos) || (mid =? 0)); [apply pt_stop, H|].
  pose proof (register_topic_req cfg s name) as Hn. destruct (register_topic cfg s name) as [s1 r]. cbn [fst] in Hn.
  assert (H1 : TI' s1) by (eapply TI_req; eassumption).
  destruct (tit =? TIT_STRING).
  - destruct (negb (has_wildcard name)); [|apply Hgo, H].
    destruct r as [i|]; [apply Hgo, H1|apply pt_sn_send_owned, H1].
  - destruct (tit =? TIT_PREDEFINED).
    + destruct (get_name (predefined cfg) (gw_client_id s) tid); [apply Hgo, H|apply pt_stop, H].
    + destruct (tit =? TIT_SHORT); apply Hgo, H.
Qed.

Lemma handle_unsubscribe_pt s tit mid tid name : TI' s -> PT (handle_unsubscribe cfg s tit mid tid name).
Proof. intros H. unfold handle_unsubscribe. pt_auto; exact H. Qed.

Lemma send_all_pt ps : forall s, TI' s -> PT (send_all s ps).
Proof.
  induction ps as [|[o p] ps IH]; intros s H; cbn [send_all]; [apply pt_ok, H|].
  apply pt_andthen; [apply pt_sn_send_owned, H|exact IH].
Qed.

Lemma bp_proceed_pt s g mid qos st data snpub :
  TI' s -> is_bp s g -> (match data with RsAck _ _ => t0 <= L | _ => True end) ->
  PT (bp_proceed cfg s g mid qos st data snpub).
Proof.
  intros H Hb Hd. unfold bp_proceed. cbv zeta.
  assert (H1 : TI' (arm (disarm_obj (set_obj s g (TxBrokerPub mid qos st data snpub 0)) g) (TmRetry g) (retry_delay cfg))).
  { apply TI_bp_arm; [exact H|eapply bp_not_connect; eassumption|]. destruct data; [exact I|lia]. }
  destruct data; destruct st; pt_auto; ti_tac.
Qed.

Lemma bp_regack_pt s g t rc : TI' s -> gw_objs s !! g = Some t -> PT (bp_regack cfg s g t rc).
Proof.
  intros H Ho. unfold bp_regack. cbv zeta. pt_auto; try ti_tac.
  apply bp_proceed_pt; [ti_tac| |exact I].
  subst. unfold is_bp. cbn. eauto 10.
Qed.

Lemma handle_sn_pt s p :
  TI' s -> t0 + connectTransactionTimeout + connTimeout <= B -> t0 <= L ->
  (PF -> forall d, p = Disconnect d -> d <> 0 -> exists u, U = Some u /\ t0 + d * 1000 <= u) ->
  PT (handle_sn cfg s p).
Proof.
  intros H HB HL HU. unfold handle_sn.
  destruct (negb (packet_legal cfg s p)); [apply pt_stop, H|].
  destruct_pkt p; try (apply pt_stop, H).
  - (* Auth *) destruct (get_connect s) as [[[g mq] a]|] eqn:Hg; [|apply pt_ok, H].
    apply get_connect_obj in Hg. apply connect_auth_pt; [exact H|]. unfold is_cx. destruct Hg. eauto.
  - (* Connect *) apply handle_connect_pt; assumption.
  - (* WillTopic *) destruct (get_connect s) as [[[g mq] a]|] eqn:Hg; [|apply pt_ok, H].
    apply get_connect_obj in Hg. destruct Hg as [Hg1 Hg2].
    pt_auto; try ti_tac. eapply TI_set_connect; eassumption.
  - (* WillMsg *) destruct (get_connect s) as [[[g mq] a]|] eqn:Hg; [|apply pt_ok, H].
    apply get_connect_obj in Hg. destruct Hg as [Hg1 Hg2].
    pt_auto; try ti_tac. eapply TI_set_connect; eassumption.
  - (* Register *) pose proof (register_topic_req cfg s name) as Hn.
    destruct (register_topic cfg s name) as [s1 [i|]]; cbn [fst] in Hn;
      apply pt_sn_send_owned; ti_tac; eapply TI_req; eassumption.
  - (* Regack *) destruct (get_by_id s mid) as [[g t]|] eqn:Hg; [|apply pt_ok, H].
    apply get_by_id_obj in Hg. destruct t; try (apply pt_ok, H). apply bp_regack_pt; assumption.
  - (* Publish *) apply handle_client_publish_pt, H.
  - (* Puback *) destruct (get_by_id s mid) as [[g t]|] eqn:Hg; [|apply pt_ok, H].
    apply get_by_id_obj in Hg. pt_auto; try ti_tac.
    apply bp_proceed_pt; [exact H|unfold is_bp; eauto 10|exact HL].
  - (* Pubcomp *) destruct (get_by_id s mid) as [[g t]|] eqn:Hg; [|apply pt_ok, H].
    apply get_by_id_obj in Hg. pt_auto; try ti_tac.
    apply bp_proceed_pt; [exact H|unfold is_bp; eauto 10|exact HL].
  - (* Pubrec *) destruct (get_by_id s mid) as [[g t]|] eqn:Hg; [|apply pt_ok, H].
    apply get_by_id_obj in Hg. pt_auto; try ti_tac.
    apply bp_proceed_pt; [exact H|unfold is_bp; eauto 10|exact HL].
  - (* Pubrel *) pt_auto; exact H.
  - (* Subscribe *) apply handle_subscribe_pt, H.
  - (* Unsubscribe *) apply handle_unsubscribe_pt, H.
  - (* Pingreq *) cbv zeta. destruct (cstate_eqb (gw_st s) Asleep); [|apply pt_mq_send, H].
    apply pt_andthen; [apply send_all_pt; ti_tac|]. intros s1 H1. pt_auto; ti_tac.
  - (* Disconnect *) destruct (dur =? 0) eqn:Hd.
    + pt_auto; ti_tac.
    + cbv zeta. apply N.eqb_neq in Hd.
      apply pt_andthen; [|intros s1 H1; apply pt_ok; ti_tac].
      apply pt_sn_send_now. apply (TI_req _ _ _ _ _ _ (if negb (gw_keepalive s =? 0) && (gw_keepalive s <? dur)
         then arm (arm (s <| gw_next_obj := gw_next_obj s + 1 |>) (TmPing (gw_next_obj s)) (gw_keepalive s * 1000))
                  (TmPingCancel (gw_next_obj s)) (dur * 1000) else s)); [repeat split; reflexivity|].
      destruct (negb (gw_keepalive s =? 0) && (gw_keepalive s <? dur)); [|exact H].
      apply TI_ping_block; [exact H|]. intros HP. apply (HU HP dur eq_refl Hd).
Qed.

Lemma handle_broker_publish_pt s dup qos retain topic mid0 payload :
  TI' s -> PT (handle_broker_publish cfg s dup qos retain topic mid0 payload).
Proof.
  intros H. unfold handle_broker_publish.
  pose proof (new_topic_id_req cfg s) as Hn. destruct (new_topic_id cfg s) as [s1 r]. cbn [fst] in Hn.
  assert (H1 : TI' s1) by (eapply TI_req; eassumption).
  assert (Hbp : forall S mid st data snpub, TI' S -> plain_txn (TxBrokerPub mid qos st data snpub 0) ->
            forall (f : gw_state -> N -> gw_state), (forall S' g', req S' (f S' g')) ->
            PT (let (s0, g) := new_obj S (TxBrokerPub mid qos st data snpub 0) in
                bp_proceed cfg (f s0 g) g mid qos st data snpub)).
  { intros S mid st data snpub HS Hpl f Hf.
    pose proof (TI_new_obj cfg PF B L U t0 S _ HS Hpl) as HN. unfold new_obj in *. cbn [fst] in HN.
    apply bp_proceed_pt.
    - eapply TI_req; [apply Hf|exact HN].
    - unfold is_bp. destruct (Hf (S <| gw_objs := <[gw_next_obj S:=TxBrokerPub mid qos st data snpub 0]> (gw_objs S) |>
                                     <| gw_next_obj := gw_next_obj S + 1 |>) (gw_next_obj S)) as (_ & _ & _ & _ & _ & _ & _ & _ & _ & Eo).
      rewrite Eo. cbn. rewrite lookup_insert. eauto 10.
    - destruct data; [exact I|contradiction]. }
  destruct (if is_short_topic topic then _ else _) as [[tid tit]|]; cbv beta iota zeta.
  - destruct ((qos =? 0) && negb false); [apply pt_sn_send_owned, H|].
    destruct (if qos =? 0 then _ else _) as [mid|]; [|apply pt_stop, H].
    destruct (2 <? qos); [apply pt_stop, H|].
    eapply (Hbp s mid _ _ None H) with (f := fun s0 g => s0 <| gw_by_id := <[mid:=g]> (gw_by_id s0) |>);
      [exact I|intros S' g'; repeat split].
  - rewrite andb_false_r.
    destruct (if qos =? 0 then _ else _) as [mid|]; [|apply pt_stop, H].
    destruct (2 <? qos); [apply pt_stop, H|].
    destruct r as [i|]; [|apply pt_stop, H1].
    eapply (Hbp s1 mid _ _ _ H1)
      with (f := fun s0 g => note_handed (s0 <| gw_by_id := <[mid:=g]> (gw_by_id s0) |>) i topic);
      [exact I|intros S' g'; repeat split].
Qed.

Lemma handle_mq_pt s m : TI' s -> PT (handle_mq cfg s m).
Proof.
  intros H. unfold handle_mq. destruct m; try (apply pt_stop, H).
  - (* MqConnack *) pt_auto; ti_tac.
  - apply handle_broker_publish_pt, H.
  - pt_auto; ti_tac.
  - pt_auto; ti_tac.
  - (* MqPubrel *) destruct (get_by_id s mid) as [[g t]|] eqn:Hg; [|apply pt_ok, H].
    apply get_by_id_obj in Hg. pt_auto; try ti_tac.
    apply bp_proceed_pt; [exact H|unfold is_bp; eauto 10|exact I].
  - pt_auto; ti_tac.
  - (* MqSuback *) cbv zeta. pt_auto; ti_tac.
  - pt_auto; ti_tac.
  - pt_auto; ti_tac.
Qed.

(* firing a timer (already removed from the list) *)
Lemma fire_pt s k :
  TI' s ->
  (forall g mid q st ak m sn n, k = TmRetry g ->
      gw_objs s !! g = Some (TxBrokerPub mid q st (RsAck ak m) sn n) -> t0 <= L + (n + 1) * retry_delay cfg) ->
  (PF -> forall p, k = TmPing p ->
      exists u tc, U = Some u /\ In tc (gw_timers s) /\ tm_kind tc = TmPingCancel p /\ tm_at tc <= u) ->
  PT (fire cfg s k).
Proof.
  intros H Hr Hp. unfold fire. destruct k as [g|g|g|p|p].
  - pt_auto; ti_tac.
  - pt_auto; ti_tac.
  - destruct (gw_objs s !! g) as [t|] eqn:Hobj; [|apply pt_ok, H].
    destruct t as [| | |mid qos st data snpub n]; try (apply pt_ok, H).
    destruct (retry_count cfg <? n + 1); [apply pt_ok; ti_tac|]. cbv zeta.
    match goal with |- PT (match ?d with RsSn _ => _ | RsAck _ _ => _ end) => set (data' := d) end.
    match goal with |- context [arm ?S0 (TmRetry g) ?d] =>
      assert (H1 : TI' (arm S0 (TmRetry g) d)) end.
    { subst data'. destruct data as [pk|ak m].
      - eapply TI_retry_arm; [exact H|exact Hobj|exact I].
      - match goal with |- TI' (arm (set_obj s g ?T) _ ?d) =>
          change (TI' (arm (set_obj s g T <| gw_buffer := gw_buffer (set_obj s g T) |>) (TmRetry g) d)) end.
        eapply TI_retry_arm; [exact H|exact Hobj|].
        split; [exact I|]. specialize (Hr g mid qos st ak m snpub n eq_refl Hobj). lia. }
    clearbody data'. destruct data' as [pk|ak m]; [|apply pt_mq_send, H1].
    match goal with |- context [sn_send_owned ?S0 ?ow pk] =>
      pose proof (pt_sn_send_owned S0 ow pk H1) as HP; destruct (sn_send_owned S0 ow pk) as [[s1 o] [|e]] end.
    + exact HP.
    + destruct HP as [HP1 HP2]. split; [apply TI_finish_obj; exact HP1|exact HP2].
  - unfold mq_send, ok, andthen, PT. cbn [st_of outs_of fst snd]. split; [|intros te [E|[]]; discriminate E].
    apply TI_arm; [exact H| | |].
    + intros g Hk. discriminate Hk.
    + intros g mid q st ak m sn n Hk. discriminate Hk.
    + intros HP p0 Hk. inversion Hk; subst p0. apply (Hp HP p eq_refl).
  - apply pt_ok. ti_tac.
Qed.

End Walk.

(* ================================================================== termination and timers firing *)

Lemma next_tick_le start t : start <= t -> next_tick start t <= t + 100.
Proof. unfold next_tick, connTimeout. intros H. lia. Qed.

Lemma next_tick_gt start t : start <= t -> t < next_tick start t.
Proof. unfold next_tick, connTimeout. intros H. lia. Qed.

(* what begin_end needs of a state *)
Definition TB (a : N) (s : gw_state) : Prop :=
  gw_ended s = false /\ gw_now s = a /\ gw_last_sn s <= a /\ gw_last_mq s <= a.

Lemma TI_TB cfg PF B L U t0 s : TI cfg PF B L U t0 s -> TB t0 s.
Proof. intros H. destruct H. repeat split; assumption. Qed.

Lemma finish_obj_tb a s g : TB a s -> TB a (finish_obj s g).
Proof.
  unfold finish_obj. destruct (gw_objs s !! g) as [t|]; [|exact (fun H => H)]. destruct t; try by_id_cases; exact (fun H => H).
Qed.

Lemma begin_end_spec a s c x y :
  TB a s ->
  gw_ended (fst (begin_end s c x y)) = false /\ gw_now (fst (begin_end s c x y)) = a /\
  gw_connect (fst (begin_end s c x y)) = gw_connect s /\ gw_st (fst (begin_end s c x y)) = gw_st s /\
  exists te, gw_ending (fst (begin_end s c x y)) = Some te /\ a <= te <= a + 100.
Proof.
  intros (H1 & H2 & H3 & H4). unfold begin_end. cbn. repeat split; try assumption.
  eexists. split; [reflexivity|]. rewrite H2.
  pose proof (next_tick_le (gw_last_sn s) a H3). pose proof (next_tick_le (gw_last_mq s) a H4).
  pose proof (next_tick_gt (gw_last_sn s) a H3). pose proof (next_tick_gt (gw_last_mq s) a H4).
  destruct x, y; lia.
Qed.

Lemma begin_end_outs s c x y o :
  In o (snd (begin_end s c x y)) -> (exists t e, o = OutCancel t e) \/ (exists t dg, o = OutSn t dg).
Proof.
  unfold begin_end. cbn. intros [<-|H]; [left; eauto|]. right.
  destruct (gw_st s); cbn in H; try contradiction; destruct H as [<-|[]]; eauto.
Qed.

Definition pre (s : gw_state) (tm : timer) : gw_state :=
  s <| gw_now := tm_at tm |> <| gw_timers := remove_timer (gw_timers s) tm |>.

Lemma filter_filter {A} (f g : A -> bool) (l : list A) :
  List.filter g (List.filter f l) = List.filter (fun x => f x && g x) l.
Proof.
  induction l as [|a l IH]; cbn; [reflexivity|]. destruct (f a); cbn; [destruct (g a); rewrite IH; reflexivity|exact IH].
Qed.

Lemma TI_pre_gen cfg PF B L U t0 s tm (f2 : timer -> bool) :
  TI cfg PF B L U t0 s -> In tm (gw_timers s) -> (forall u, In u (gw_timers s) -> tm_at tm <= tm_at u) ->
  (forall g, gw_connect s = Some g -> tm_kind tm <> TmConnect g /\ forall u, tm_kind u = TmConnect g -> f2 u = true) ->
  (PF -> forall u p tc, In u (gw_timers s) -> f2 u = true -> tm_kind u = TmPing p -> In tc (gw_timers s) ->
         tm_kind tc = TmPingCancel p -> tc <> tm /\ f2 tc = true) ->
  TI cfg PF B L U (tm_at tm) (s <| gw_now := tm_at tm |> <| gw_timers := List.filter f2 (remove_timer (gw_timers s) tm) |>).
Proof.
  intros H Hin Hmin Hc Hp.
  assert (Hseq : forall u, In u (gw_timers s) -> u <> tm -> negb (tm_seq u =? tm_seq tm) = true).
  { intros u Hu Hne. apply negb_true_iff. apply N.eqb_neq. intros E. apply Hne.
    eapply (NoDup_map_inj tm_seq); [apply H|exact Hu|exact Hin|exact E]. }
  eapply (TI_upd cfg PF B L U t0 (tm_at tm) s _ (fun u => negb (tm_seq u =? tm_seq tm) && f2 u) H); try reflexivity.
  - apply (ti_tm _ _ _ _ _ _ _ H tm Hin).
  - cbn. unfold remove_timer. apply filter_filter.
  - intros u Hu _. apply Hmin, Hu.
  - right. split; [reflexivity|]. intros g Hg. cbn. split; [apply (ti_conn _ _ _ _ _ _ _ H g Hg)|].
    intros u Hu Hk. destruct (Hc g Hg) as [C1 C2]. apply andb_true_iff. split; [|apply C2, Hk].
    apply Hseq; [exact Hu|]. intros ->. contradiction.
  - intros u g mid q st k m sn n _ _ _ Ho. cbn in Ho. exists mid, q, st, k, m, sn, n. split; [exact Ho|lia].
  - intros HP u p tc Hu Hf Hk Htc Hkc. apply andb_true_iff in Hf. destruct Hf as [_ Hf].
    destruct (Hp HP u p tc Hu Hf Hk Htc Hkc) as [P1 P2]. apply andb_true_iff. split; [|exact P2].
    apply Hseq; assumption.
  - intros u g mq c _ _ _ Ho. cbn in Ho. eauto.
Qed.

Lemma TI_pre cfg PF B L U t0 s tm :
  TI cfg PF B L U t0 s -> In tm (gw_timers s) -> (forall u, In u (gw_timers s) -> tm_at tm <= tm_at u) ->
  (forall g, gw_connect s = Some g -> tm_kind tm <> TmConnect g) ->
  (forall p, tm_kind tm <> TmPingCancel p) ->
  TI cfg PF B L U (tm_at tm) (pre s tm).
Proof.
  intros H Hin Hmin Hc Hp. unfold pre.
  pose proof (TI_pre_gen cfg PF B L U t0 s tm (fun _ => true) H Hin Hmin) as HT.
  rewrite filter_true in HT. apply HT.
  - intros g Hg. split; [apply Hc, Hg|reflexivity].
  - intros _ u p tc _ _ _ _ Hk. split; [|reflexivity]. intros ->. exact (Hp p Hk).
Qed.

Lemma sn_send_owned_outs s ow p o : In o (outs_of (sn_send_owned s ow p)) -> exists t dg, o = OutSn t dg.
Proof.
  unfold sn_send_owned. destruct (gw_st s); try destruct (len (pack p) <=? MaxPacketLen); cbn; try contradiction;
    intros [<-|[]]; eauto.
Qed.

(* the outputs of a firing timer: no OutEnd; a write to the broker is a sleep ping or the
   retransmission of an acknowledgement that has retries left *)
Lemma fire_outs cfg s k o :
  In o (outs_of (fire cfg s k)) ->
  (exists t dg, o = OutSn t dg) \/
  (exists m, o = OutMq (gw_now s) m /\
     ((exists p, k = TmPing p) \/
      exists g mid q st ak m0 sn n, k = TmRetry g /\
        gw_objs s !! g = Some (TxBrokerPub mid q st (RsAck ak m0) sn n) /\ n + 1 <= retry_count cfg)).
Proof.
  unfold fire. destruct k as [g|g|g|p|p].
  - destruct (gw_objs s !! g); cbn; contradiction.
  - destruct (gw_objs s !! g); cbn; contradiction.
  - destruct (gw_objs s !! g) as [t|] eqn:Hobj; [|cbn; contradiction].
    destruct t as [| | |mid qos st data snpub n]; try (cbn; contradiction).
    destruct (retry_count cfg <? n + 1) eqn:Hn; [cbn; contradiction|]. apply N.ltb_ge in Hn. cbv zeta.
    destruct data as [pk|ak m0].
    + match goal with |- context [sn_send_owned ?S0 ?ow ?q] =>
        pose proof (sn_send_owned_outs S0 ow q o) as HS; destruct (sn_send_owned S0 ow q) as [[s1 o1] [|e]] end;
        cbn [outs_of ok fst snd] in *; intros Hin; left; apply HS, Hin.
    + cbn. intros [<-|[]]. right. eexists. split; [reflexivity|]. right.
      exists g, mid, qos, st, ak, m0, snpub, n. repeat split; [exact Hobj|exact Hn].
  - cbn. intros [<-|[]]. right. eexists. split; [reflexivity|]. left. eauto.
  - cbn. contradiction.
Qed.

Lemma finish_obj_connect s g :
  (forall mq a, gw_objs s !! g <> Some (TxConnect mq a)) -> gw_connect (finish_obj s g) = gw_connect s.
Proof.
  intros H. unfold finish_obj. destruct (gw_objs s !! g) as [t|] eqn:E; [|reflexivity].
  destruct t; try by_id_cases; try reflexivity. exfalso. eapply H. reflexivity.
Qed.

Lemma sn_send_owned_fields s ow p :
  gw_connect (st_of (sn_send_owned s ow p)) = gw_connect s /\ gw_objs (st_of (sn_send_owned s ow p)) = gw_objs s.
Proof.
  unfold sn_send_owned. destruct (gw_st s); try destruct (len (pack p) <=? MaxPacketLen); cbn; split; reflexivity.
Qed.

(* a firing timer that does not end the session leaves the connect exchange alone *)
Lemma fire_connect cfg s k S o :
  fire cfg s k = (S, o, HOk) ->
  (forall g, k = TmTimed g -> forall mq a, gw_objs s !! g <> Some (TxConnect mq a)) ->
  gw_connect S = gw_connect s.
Proof.
  unfold fire. intros Hf Ht. destruct k as [g|g|g|p|p].
  - destruct (gw_objs s !! g); inversion Hf; reflexivity.
  - destruct (gw_objs s !! g) eqn:E; inversion Hf; [|reflexivity]. apply finish_obj_connect. apply (Ht g eq_refl).
  - destruct (gw_objs s !! g) as [t|] eqn:Hobj; [|inversion Hf; reflexivity].
    destruct t as [| | |mid qos st data snpub n]; try (inversion Hf; reflexivity).
    destruct (retry_count cfg <? n + 1).
    + inversion Hf. apply finish_obj_connect. intros mq a. rewrite Hobj. discriminate.
    + cbv zeta in Hf. destruct data as [pk|ak m0].
      * match type of Hf with context [sn_send_owned ?S0 ?ow ?q] =>
          pose proof (sn_send_owned_fields S0 ow q) as [HS1 HS2]; destruct (sn_send_owned S0 ow q) as [[s1 o1] [|e]] end;
          cbn [st_of fst] in *; inversion Hf; subst.
        -- exact HS1.
        -- rewrite finish_obj_connect; [exact HS1|]. intros mq a. rewrite HS2. cbn. rewrite lookup_insert. discriminate.
      * inversion Hf. reflexivity.
  - inversion Hf. reflexivity.
  - inversion Hf. reflexivity.
Qed.

Lemma finish_obj_connect_cases s g : gw_connect (finish_obj s g) = gw_connect s \/ gw_connect (finish_obj s g) = None.
Proof.
  unfold finish_obj. destruct (gw_objs s !! g) as [t|]; [|left; reflexivity]. destruct t; try by_id_cases; cbn; auto.
Qed.

Lemma fire_end_tb cfg a s k S o c :
  fire cfg s k = (S, o, HEnd c) -> TB a s -> TB a S /\ (gw_connect s = None -> gw_connect S = None).
Proof.
  unfold fire. intros Hf Hb. destruct k as [g|g|g|p|p].
  - destruct (gw_objs s !! g); inversion Hf; subst. split; [apply finish_obj_tb, Hb|].
    intros Hn. destruct (finish_obj_connect_cases s g) as [E|E]; congruence.
  - destruct (gw_objs s !! g); inversion Hf.
  - destruct (gw_objs s !! g) as [t|]; [|inversion Hf].
    destruct t as [| | |mid qos st data snpub n]; try (inversion Hf; fail).
    destruct (retry_count cfg <? n + 1); [inversion Hf|]. cbv zeta in Hf. destruct data.
    + match type of Hf with context [sn_send_owned ?S0 ?ow ?q] =>
        destruct (sn_send_owned S0 ow q) as [[s1 o1] [|e]] end; inversion Hf.
    + inversion Hf.
  - inversion Hf.
  - inversion Hf.
Qed.

(* ================================================================== one timer, all due timers *)

Definition mq_allowed (cfg : gw_cfg) (L : N) (U : option N) : N :=
  N.max (match U with Some u => u | None => 0 end) (L + (retry_count cfg + 1) * retry_delay cfg).
Definition mq_bound (cfg : gw_cfg) (PF : Prop) (L : N) (U : option N) (o : list gw_out) : Prop :=
  PF -> forall tau m, In (OutMq tau m) o -> tau <= mq_allowed cfg L U.

Lemma mq_bound_app cfg PF L U a b : mq_bound cfg PF L U a -> mq_bound cfg PF L U b -> mq_bound cfg PF L U (a ++ b).
Proof. intros Ha Hb HP tau m Hin. apply in_app_or in Hin. destruct Hin; [eapply Ha|eapply Hb]; eassumption. Qed.

Lemma begin_end_quiet cfg PF L U s c x y : mq_bound cfg PF L U (snd (begin_end s c x y)) /\ no_end (snd (begin_end s c x y)).
Proof.
  split.
  - intros _ tau m Hin. apply begin_end_outs in Hin. destruct Hin as [(t & e & E)|(t & dg & E)]; discriminate E.
  - intros te Hin. apply begin_end_outs in Hin. destruct Hin as [(t & e & E)|(t & dg & E)]; discriminate E.
Qed.

Lemma fire_step cfg PF B L U t0 s tm :
  TI cfg PF B L U t0 s -> min_timer (gw_timers s) = Some tm ->
  mq_bound cfg PF L U (outs_of (fire cfg (pre s tm) (tm_kind tm))) /\
  no_end (outs_of (fire cfg (pre s tm) (tm_kind tm))) /\
  match fire cfg (pre s tm) (tm_kind tm) with
  | (s1, o, HOk) => TI cfg PF B L U (tm_at tm) s1 /\ gw_connect s1 = gw_connect s
  | (s1, o, HEnd c) => TB (tm_at tm) s1 /\ (gw_connect s = None -> gw_connect s1 = None)
  end.
Proof.
  intros H Hm. apply min_timer_spec in Hm. destruct Hm as [Hin Hmin].
  pose proof (ti_tm _ _ _ _ _ _ _ H tm Hin) as [Hge _].
  assert (Hrm : forall u, In u (gw_timers s) -> u <> tm -> In u (gw_timers (pre s tm))).
  { intros u Hu Hne. cbn. unfold remove_timer. apply filter_In. split; [exact Hu|].
    apply negb_true_iff. apply N.eqb_neq. intros E. apply Hne.
    eapply (NoDup_map_inj tm_seq); [apply H|exact Hu|exact Hin|exact E]. }
  split; [|split].
  - intros HP tau m Ho. apply fire_outs in Ho. destruct Ho as [(t & dg & E)|(m' & E & Hc)]; [discriminate E|].
    inversion E; subst tau m'. cbn [pre gw_now]. change (gw_now (pre s tm)) with (tm_at tm). unfold mq_allowed.
    destruct Hc as [(p & Hk)|(g & mid & q & st & ak & m0 & sn & n & Hk & Hobj & Hn)].
    + destruct (ti_ping _ _ _ _ _ _ _ H HP tm p Hin Hk) as (u & tc & -> & A2 & A3 & A4).
      specialize (Hmin tc A2). lia.
    + change (gw_objs (pre s tm)) with (gw_objs s) in Hobj.
      pose proof (ti_retry _ _ _ _ _ _ _ H tm g mid q st ak m0 sn n Hin Hk Hobj). nia.
  - intros te Ho. apply fire_outs in Ho. destruct Ho as [(t & dg & E)|(m' & E & _)]; discriminate E.
  - assert (Hb : TB (tm_at tm) (pre s tm)).
    { destruct H. repeat split; cbn; try assumption; lia. }
    destruct (fire cfg (pre s tm) (tm_kind tm)) as [[S o] [|c]] eqn:Hf; [|exact (fire_end_tb cfg _ _ _ _ _ _ Hf Hb)].
    destruct (tm_kind tm) as [g|g|g|p|p] eqn:Hk.
    + (* a stale connect timer *)
      unfold fire in Hf. change (gw_objs (pre s tm)) with (gw_objs s) in Hf.
      destruct (gw_objs s !! g) eqn:Hobj; inversion Hf; subst. split; [|reflexivity].
      apply (TI_pre cfg PF B L U t0); try assumption.
      * intros g0 Hg0 E. rewrite Hk in E. inversion E; subst g0.
        destruct (ti_conn _ _ _ _ _ _ _ H g Hg0) as (_ & (mq & a & A) & _). congruence.
      * intros p. rewrite Hk. discriminate.
    + assert (H0 : TI cfg PF B L U (tm_at tm) (pre s tm)).
      { apply (TI_pre cfg PF B L U t0); try assumption; [intros g0 _|intros p]; rewrite Hk; discriminate. }
      destruct (ti_timed _ _ _ _ _ _ _ H tm g Hin Hk) as (_ & _ & A3).
      split.
      * pose proof (fire_pt cfg PF B L U (tm_at tm) (pre s tm) (TmTimed g) H0) as HP. rewrite Hf in HP. apply HP.
        -- intros g0 mid q st ak m sn n E. discriminate E.
        -- intros _ p E. discriminate E.
      * apply (fire_connect cfg _ _ _ _ Hf). intros g0 E. inversion E; subst g0. exact A3.
    + assert (H0 : TI cfg PF B L U (tm_at tm) (pre s tm)).
      { apply (TI_pre cfg PF B L U t0); try assumption; [intros g0 _|intros p]; rewrite Hk; discriminate. }
      split.
      * pose proof (fire_pt cfg PF B L U (tm_at tm) (pre s tm) (TmRetry g) H0) as HP. rewrite Hf in HP. apply HP.
        -- intros g0 mid q st ak m sn n E Hobj. inversion E; subst g0.
           apply (ti_retry _ _ _ _ _ _ _ H tm g mid q st ak m sn n Hin Hk Hobj).
        -- intros _ p E. discriminate E.
      * apply (fire_connect cfg _ _ _ _ Hf). intros g0 E. discriminate E.
    + assert (H0 : TI cfg PF B L U (tm_at tm) (pre s tm)).
      { apply (TI_pre cfg PF B L U t0); try assumption; [intros g0 _|intros p0]; rewrite Hk; discriminate. }
      split.
      * pose proof (fire_pt cfg PF B L U (tm_at tm) (pre s tm) (TmPing p) H0) as HP. rewrite Hf in HP. apply HP.
        -- intros g0 mid q st ak m sn n E. discriminate E.
        -- intros HPF p0 E. inversion E; subst p0.
           destruct (ti_ping _ _ _ _ _ _ _ H HPF tm p Hin Hk) as (u & tc & A1 & A2 & A3 & A4).
           exists u, tc. split; [exact A1|]. split; [|split; assumption].
           apply Hrm; [exact A2|]. intros ->. rewrite Hk in A3. discriminate A3.
      * apply (fire_connect cfg _ _ _ _ Hf). intros g0 E. discriminate E.
    + unfold fire in Hf. inversion Hf; subst S o. split; [|reflexivity].
      pose proof (TI_pre_gen cfg PF B L U t0 s tm
                    (fun t => match tm_kind t with TmPing p' => negb (p =? p') | _ => true end) H Hin Hmin) as HT.
      apply HT.
      * intros g Hg. split; [rewrite Hk; discriminate|]. intros u Hu. rewrite Hu. reflexivity.
      * intros _ u p0 tc Hu Hf2 Hku Htc Hkc. rewrite Hku in Hf2. rewrite Hkc. split; [|reflexivity].
        intros ->. rewrite Hk in Hkc. inversion Hkc; subst p0. rewrite N.eqb_refl in Hf2. discriminate Hf2.
Qed.

(* outcome of firing all timers due up to t *)
Definition RT (cfg : gw_cfg) (PF : Prop) (B L : N) (U : option N) (s : gw_state) (t : N)
           (s' : gw_state) (o : list gw_out) : Prop :=
  gw_now s <= gw_now s' /\ gw_now s' <= t /\ mq_bound cfg PF L U o /\
  (gw_connect s = None -> gw_connect s' = None) /\
  ( (gw_ended s' = true /\ exists te, In (OutEnd te) o /\ te <= t /\ (gw_connect s <> None -> te <= B))
  \/ (no_end o /\ gw_ended s' = false /\ exists te, gw_ending s' = Some te /\ gw_now s' <= te <= gw_now s' + 100 /\
        (gw_connect s <> None -> te <= B))
  \/ (no_end o /\ TI cfg PF B L U (gw_now s') s' /\ (gw_connect s <> None -> gw_connect s' <> None)) ).

Lemma mq_bound_nil cfg PF L U : mq_bound cfg PF L U [].
Proof. intros _ tau m []. Qed.

Lemma run_timers_spec cfg PF B L U t fuel : forall s t0,
  TI cfg PF B L U t0 s -> t0 <= t ->
  RT cfg PF B L U s t (fst (run_timers fuel cfg s t)) (snd (run_timers fuel cfg s t)).
Proof.
  induction fuel as [|fuel IH]; intros s t0 H Ht; pose proof (ti_now _ _ _ _ _ _ _ H) as Hnow.
  { cbn. unfold RT. rewrite Hnow. split; [lia|]. split; [exact Ht|]. split; [apply mq_bound_nil|]. split; [auto|].
    right. right. split; [apply no_end_nil|]. split; [exact H|auto]. }
  assert (Hstay : RT cfg PF B L U s t s []).
  { unfold RT. rewrite Hnow. split; [lia|]. split; [exact Ht|]. split; [apply mq_bound_nil|]. split; [auto|].
    right. right. split; [apply no_end_nil|]. split; [exact H|auto]. }
  cbn [run_timers]. rewrite (ti_ending _ _ _ _ _ _ _ H).
  destruct (min_timer (gw_timers s)) as [tm|] eqn:Hm; [|exact Hstay].
  destruct (tm_at tm <=? t) eqn:Hdue; [|exact Hstay]. apply N.leb_le in Hdue.
  pose proof (fire_step cfg PF B L U t0 s tm H Hm) as (Hmq & Hne & Hres).
  pose proof (min_timer_spec _ _ Hm) as [Hin Hmin].
  pose proof (ti_tm _ _ _ _ _ _ _ H tm Hin) as [Hge _].
  change (s <| gw_now := tm_at tm |> <| gw_timers := remove_timer (gw_timers s) tm |>) with (pre s tm).
  destruct (fire cfg (pre s tm) (tm_kind tm)) as [[S o] [|c]]; cbn [finish_r outs_of fst snd] in *.
  - destruct Hres as [HS Hc].
    specialize (IH S (tm_at tm) HS Hdue). pose proof (ti_now _ _ _ _ _ _ _ HS) as HnowS.
    destruct (run_timers fuel cfg S t) as [s2 o2]. cbn [fst snd] in *.
    destruct IH as (I1 & I2 & I3 & I5 & I4). unfold RT. split; [lia|]. split; [exact I2|].
    split; [apply mq_bound_app; assumption|]. rewrite Hc in I4, I5. split; [exact I5|].
    destruct I4 as [(E1 & te & E2 & E3 & E4)|[(E0 & E1 & te & E2 & E3 & E4)|(E0 & E1 & E2)]].
    + left. split; [exact E1|]. exists te. split; [apply in_or_app; right; exact E2|]. split; assumption.
    + right. left. split; [apply no_end_app; assumption|]. split; [exact E1|]. exists te.
      split; [exact E2|]. split; [exact E3|exact E4].
    + right. right. split; [apply no_end_app; assumption|]. split; assumption.
  - destruct Hres as [Hres Hcn].
    destruct (begin_end_spec (tm_at tm) S c false false Hres) as (B1 & B2 & B3 & B4 & te & B5 & B6).
    destruct (begin_end_quiet cfg PF L U S c false false) as [Q1 Q2].
    destruct (begin_end S c false false) as [s1 o1]. cbn [fst snd] in *.
    assert (HteB : gw_connect s <> None -> te <= B).
    { intros Hcn'. destruct (gw_connect s) as [g|] eqn:Hg; [|congruence].
      destruct (ti_conn _ _ _ _ _ _ _ H g Hg) as (_ & _ & tmc & C1 & C2 & C3). specialize (Hmin tmc C1). lia. }
    assert (Hcn1 : gw_connect s = None -> gw_connect s1 = None) by (intros E; rewrite B3; apply Hcn, E).
    destruct fuel as [|fuel'].
    + cbn [run_timers fst snd]. rewrite app_nil_r. unfold RT. split; [lia|]. split; [lia|].
      split; [apply mq_bound_app; assumption|]. split; [exact Hcn1|]. right. left. split; [apply no_end_app; assumption|].
      split; [exact B1|]. exists te. split; [exact B5|]. split; [lia|exact HteB].
    + cbn [run_timers]. rewrite B5. destruct (te <=? t) eqn:Hte.
      * apply N.leb_le in Hte. cbn [fst snd]. unfold RT. cbn. split; [lia|]. split; [exact Hte|].
        split; [apply mq_bound_app; [apply mq_bound_app; assumption|intros _ tau m [E|[]]; discriminate E]|].
        split; [exact Hcn1|].
        left. split; [reflexivity|]. exists te. split; [apply in_or_app; right; left; reflexivity|]. split; assumption.
      * cbn [fst snd]. rewrite app_nil_r. unfold RT. split; [lia|]. split; [lia|].
        split; [apply mq_bound_app; assumption|]. split; [exact Hcn1|]. right. left. split; [apply no_end_app; assumption|].
        split; [exact B1|]. exists te. split; [exact B5|]. split; [lia|exact HteB].
Qed.
