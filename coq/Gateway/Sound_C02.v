(* Gateway/Sound_C02.v — what chk_C02 (Checkers/ChkGw3.v) reports on the gateway model's own outputs.

   Proved, for every well-formed configuration, reachable state and well-formed event:
   - chk_C02_sound_partial: the only clauses chk_C02 reports on the model's outputs are 6 and 7, the
     two known ways in which the model (like the gateway) fails C02: a PUBLISH under a normal topic
     ID registered for a SUBSCRIBE by name whose SUBACK is still due (6) or was refused / timed out
     (7), so that the client was never told the ID;
   - chk_C02_all_histories: the same along every well-formed history from the initial state.
   Examples at the end (vm_compute): C02_refuted_pending / C02_refuted_refused (clauses 6 and 7 do
   fire), C02_new_topic_ok (REGISTER -> REGACK -> PUBLISH accepted at both steps), and the two
   behaviours that the first version of chk_C02 reported as clauses 4 and 5 and that it now
   tolerates: C02_empty_topic (a broker PUBLISH with an empty topic name makes the gateway write a
   REGISTER with an empty name, which the MQTT-SN codec does not accept as a packet) and
   C02_oversized_new_topic (a payload that passes the size check of the REGISTER but not that of the
   PUBLISH sent after the REGACK: "packet too long" ends the session).
   Invariant used besides Inv of Sound_C04C11.v: Inv2 (Sound_C02_aux.v) - the PUBLISH a broker-publish
   transaction keeps while it awaits the REGACK has topic ID type 0 and the topic ID of its REGISTER. *)
From Coq Require Import List NArith Bool Lia ZArith ZifyN ZifyNat ZifyBool.
From stdpp Require Import base option list numbers fin_maps nmap.
From RecordUpdate Require Import RecordSet.
From Verif.Base Require Import Bytes BytesProofs.
From Verif.Codec Require Import Packets Decode Encode EncodeProofs.
From Verif.Topics Require Import Predefined PredefinedProofs.
From Verif.Gateway Require Import GwTypes GwStep GwWf GwRun Sound_C01C03_aux Sound_C04C11_aux Sound_C04C11 Sound_C02_aux.
From Verif.Checkers Require Import ChkCodec ChkGw ChkGw2 ChkGw3.
Import RecordSetNotations.
Open Scope N_scope.
Ltac Zify.zify_post_hook ::= Z.div_mod_to_equations.

(* ================================================================== observations of one datagram *)

Definition rd (dg : bytes) : list packet := match read_dgram dg with Ok p => [p] | _ => [] end.

Lemma pk_one t dg : sn_pkts (obs_of_outs [OutSn t dg]) = rd dg.
Proof. change (sn_pkts (obs_of_outs [OutSn t dg])) with (rd dg ++ []). apply app_nil_r. Qed.

Lemma pk_end t e : sn_pkts (obs_of_outs [OutCancel t e; OutSn t (pack (Disconnect 0))]) = [Disconnect 0].
Proof.
  change (sn_pkts (obs_of_outs [OutCancel t e; OutSn t (pack (Disconnect 0))])) with (rd (pack (Disconnect 0)) ++ []).
  unfold rd. rewrite read_disconnect0. reflexivity.
Qed.

(* ================================================================== sending to an Active client *)

Lemma sso_active S o p :
  gw_st S = Active ->
  sn_send_owned S o p = if len (pack p) <=? MaxPacketLen then ok S [OutSn (gw_now S) (pack p)]
                        else stop S [] EcHandlerError.
Proof. intros H. unfold sn_send_owned. rewrite H. reflexivity. Qed.

(* the result of a handler for an Active client: one datagram, or the error "packet too long" *)
Definition sent (r : R) (p : packet) : Prop :=
  len (pack p) <= MaxPacketLen /\ exists S t, r = (S, [OutSn t (pack p)], HOk).
Definition failed (r : R) : Prop := exists S e, gw_st S = Active /\ r = (S, [], HEnd e).

Lemma sn_send_owned_active S o p :
  gw_st S = Active ->
  sent (sn_send_owned S o p) p \/ (MaxPacketLen < len (pack p) /\ failed (sn_send_owned S o p)).
Proof.
  intros H. rewrite (sso_active S o p H).
  destruct (len (pack p) <=? MaxPacketLen) eqn:Hsz.
  - left. split; [apply N.leb_le, Hsz|]. exists S, (gw_now S). reflexivity.
  - right. split; [apply N.leb_gt, Hsz|]. exists S, EcHandlerError. split; [exact H|reflexivity].
Qed.

Lemma bp_proceed_active cfg S g mid qos st p snpub :
  gw_st S = Active ->
  sent (bp_proceed cfg S g mid qos st (RsSn p) snpub) p \/
  (MaxPacketLen < len (pack p) /\ failed (bp_proceed cfg S g mid qos st (RsSn p) snpub)).
Proof.
  intros H. unfold bp_proceed. cbv zeta.
  match goal with |- context [sn_send_owned ?S0 ?o p] =>
    destruct (sn_send_owned_active S0 o p H) as [[Hsz (S1 & t & E)]|[Hsz (S1 & e & Hst1 & E)]]; rewrite E
  end.
  - left. split; [exact Hsz|]. destruct st; cbn [andthen ok]; eauto.
  - right. split; [exact Hsz|]. exists S1, e. split; [exact Hst1|]. destruct st; reflexivity.
Qed.

(* the outputs of the step, after the termination logic *)
Lemma finish_sent r p a b :
  sent r p -> exists t, snd (finish_r r a b) = [OutSn t (pack p)].
Proof. intros [_ (S & t & ->)]. exists t. reflexivity. Qed.

Lemma finish_failed r a b :
  failed r -> ending (fst (finish_r r a b)) = true /\
              sn_pkts (obs_of_outs (snd (finish_r r a b))) = [Disconnect 0].
Proof.
  intros (S & e & Hst & ->). cbn [finish_r]. unfold begin_end. rewrite Hst. cbn [fst snd app].
  split; [|apply pk_end]. unfold ending. cbn. apply orb_true_r.
Qed.

(* ================================================================== the broker's PUBLISH *)

Definition found_of (cfg : gw_cfg) (s : gw_state) (topic : bytes) : option (N * N) :=
  if is_short_topic topic then Some (encode_short topic, TIT_SHORT) else find_topic_id cfg s topic.

Lemma hbp_cases cfg S dup q r0 topic mid payload :
  wf_cfg cfg -> Inv S -> gw_st S = Active -> q <= 2 ->
  let r := handle_broker_publish cfg S dup q r0 topic mid payload in
  failed r \/
  (exists tid tit, found_of cfg S topic = Some (tid, tit) /\ sent r (Publish dup q r0 tit tid mid payload)) \/
  (exists i m, found_of cfg S topic = None /\ 1 <= i <= 65534 /\ gw_registered S !! i = None /\
               sent r (Register i m topic)).
Proof.
  intros Hwf HI Hst Hq. cbv zeta. unfold handle_broker_publish, new_obj. fold (found_of cfg S topic).
  destruct (found_of cfg S topic) as [[tid tit]|]; cbv beta iota zeta.
  - (* a known topic *)
    cbn [negb]. rewrite andb_true_r.
    destruct (q =? 0) eqn:Hq0.
    + destruct (sn_send_owned_active S None (Publish dup q r0 tit tid mid payload) Hst) as [Hs|[_ Hf]].
      * right. left. exists tid, tit. split; [reflexivity|exact Hs].
      * left. exact Hf.
    + destruct (2 <? q) eqn:Hq2; [apply N.ltb_lt in Hq2; lia|].
      match goal with |- context [bp_proceed cfg ?S0 ?g ?m ?qq ?st (RsSn ?p) ?sp] =>
        destruct (bp_proceed_active cfg S0 g m qq st p sp Hst) as [Hs|[_ Hf]]
      end.
      * right. left. exists tid, tit. split; [reflexivity|exact Hs].
      * left. exact Hf.
  - (* a new topic name *)
    cbn [negb]. rewrite andb_false_r.
    destruct (if q =? 0 then _ else _) as [mid'|].
    2: { left. exists S, EcHandlerError. split; [exact Hst|reflexivity]. }
    destruct (2 <? q) eqn:Hq2; [apply N.ltb_lt in Hq2; lia|].
    pose proof (new_topic_id_st cfg S) as Hst1.
    destruct (new_topic_id cfg S) as [s1 [i|]] eqn:Hn; cbn [fst] in Hst1.
    2: { left. exists s1, EcHandlerError. split; [congruence|reflexivity]. }
    apply (alloc_spec cfg (gw_client_id S)) in Hn; [|exact Hwf|exact HI].
    destruct Hn as (_ & Hu & (Hrng & Hfresh & _ & _)).
    assert (Hst2 : gw_st s1 = Active) by congruence.
    match goal with |- context [bp_proceed cfg ?S0 ?g ?m ?qq ?st (RsSn ?p) ?sp] =>
      destruct (bp_proceed_active cfg S0 g m qq st p sp Hst2) as [Hs|[_ Hf]]
    end.
    + right. right. exists i, mid'. split; [reflexivity|]. split; [apply Hrng|]. split; [|exact Hs].
      destruct Hu as (Hreg & _). rewrite <- Hreg.
      destruct (gw_registered s1 !! i) as [n|] eqn:E; [|reflexivity].
      exfalso. apply (Hfresh n). right. exact E.
    + left. exact Hf.
Qed.

(* the topic ID the gateway finds for a name is one the client resolves to that name — unless it
   is a registered ID the client was never told *)
Lemma found_resolves cfg s topic tid tit :
  wf_cfg cfg -> Inv s -> wf_bytes topic -> found_of cfg s topic = Some (tid, tit) ->
  tit < 4 /\ tid < 65536 /\
  (client_resolves cfg s tit tid topic = true \/ unannounced cfg s tit tid topic = true).
Proof.
  intros Hwf HI Hb. unfold found_of. destruct (is_short_topic topic) eqn:Hs.
  - intros H. inversion H; subst tid tit. clear H.
    unfold is_short_topic in Hs. apply N.eqb_eq in Hs.
    destruct topic as [|a [|b [|c l]]]; try (cbv in Hs; discriminate Hs).
    2: { exfalso. unfold len in Hs. cbn [length] in Hs. lia. }
    inversion Hb as [|? ? Ha Hb']; subst. inversion Hb' as [|? ? Hb2 _]; subst.
    apply is_byte_lt in Ha, Hb2.
    split; [reflexivity|]. split; [cbn [encode_short]; lia|]. left.
    unfold client_resolves, TIT_SHORT. cbv beta iota.
    rewrite short_topic_dec_enc by assumption. apply beq_refl.
  - unfold find_topic_id. destruct (find_registered s topic) as [i|] eqn:Hf.
    + intros H. inversion H; subst tid tit. clear H.
      apply find_registered_known in Hf.
      assert (Hk : known s i topic) by (right; exact Hf).
      apply (inv_rng s HI) in Hk. destruct Hk as [Hk _].
      split; [reflexivity|]. split; [lia|].
      unfold client_resolves, unannounced, TIT_REGISTERED. cbv beta iota.
      rewrite Hf, beq_refl. cbn [andb N.eqb].
      destruct (existsb _ (gw_handed_out s)); [left|right]; reflexivity.
    + destruct (get_id (predefined cfg) (gw_client_id s) topic) as [i|] eqn:Hg; [|discriminate].
      intros H. inversion H; subst tid tit. clear H.
      apply get_id_sound in Hg.
      split; [reflexivity|]. split; [eapply get_name_bound; [exact (proj1 Hwf)|exact Hg]|]. left.
      unfold client_resolves, TIT_PREDEFINED. cbv beta iota. rewrite Hg. apply beq_refl.
Qed.

(* ================================================================== the client's REGACK *)

(* the accepting REGACK for a pending broker PUBLISH: the kept PUBLISH is written, or it fails the
   size check of snSend and the session gives up *)
Lemma step_regack cfg s dg x mid rc g m qos tid m' name pub n :
  gw_ended s = false -> gw_ending s = None -> gw_st s = Active ->
  read_dgram dg = Ok (Regack x mid rc) ->
  get_by_id s mid = Some (g, TxBrokerPub m qos AwaitRegack (RsSn (Register tid m' name)) (Some pub) n) ->
  (rc =? RC_ACCEPTED) = true ->
  (len (pack pub) <= MaxPacketLen /\ exists t, snd (gw_step cfg s (EvSn dg)) = [OutSn t (pack pub)]) \/
  (ending (fst (gw_step cfg s (EvSn dg))) = true /\
   sn_pkts (obs_of_outs (snd (gw_step cfg s (EvSn dg)))) = [Disconnect 0]).
Proof.
  intros He Hg Hst Hr Hget Hrc. unfold gw_step. rewrite He, Hg, Hr. cbv zeta.
  set (s0 := s <| gw_last_sn := gw_now s |>).
  unfold handle_sn.
  assert (Hpl : packet_legal cfg s0 (Regack x mid rc) = true).
  { unfold packet_legal. change (gw_st s0) with (gw_st s). rewrite Hst. reflexivity. }
  rewrite Hpl. cbn [negb]. change (get_by_id s0 mid) with (get_by_id s mid). rewrite Hget.
  unfold bp_regack. rewrite Hrc. cbn [negb]. cbv zeta.
  match goal with |- context [bp_proceed cfg ?S0 ?g0 ?m0 ?qq ?st (RsSn ?p) ?sp] =>
    destruct (bp_proceed_active cfg S0 g0 m0 qq st p sp Hst) as [Hs|[_ Hf]]
  end.
  - left. split; [apply Hs|]. apply finish_sent. exact Hs.
  - right. apply finish_failed. exact Hf.
Qed.

(* ================================================================== the theorem *)

(* The only failures of C02 the model produces are the two known classes: a PUBLISH under a normal
   topic ID that the gateway registered for a SUBSCRIBE by name whose SUBACK has not been relayed
   (6) or was refused / timed out (7).
   (Against the first version of chk_C02 two more clauses fired on the model's outputs - clause 4 for
   a broker PUBLISH with an empty topic name, clause 5 for a payload that passes the size check of
   the REGISTER but not of the PUBLISH after the REGACK; chk_C02 now skips the former and accepts
   the latter when the session gives up.  See the examples C02_empty_topic and C02_oversized_new_topic.) *)
Theorem chk_C02_sound_partial : forall cfg s ev, wf_cfg cfg -> reach cfg s -> wf_event ev ->
  forall c, In c (chk_C02 cfg s (fst (gw_step cfg s ev)) ev (obs_of_outs (snd (gw_step cfg s ev)))) ->
  c = 6 \/ c = 7.
Proof.
  intros cfg s ev Hwf Hreach Hev c.
  pose proof (reach_inv cfg s Hwf Hreach) as HI. pose proof (reach_inv2 cfg s Hreach) as HI2.
  unfold chk_C02.
  destruct (running s) eqn:Hrun; [|intros []]. cbn [negb orb].
  destruct (cstate_eqb (gw_st s) Active) eqn:Hact; [|intros []]. cbn [negb].
  assert (Hst : gw_st s = Active) by (destruct (gw_st s); try discriminate Hact; reflexivity).
  apply running_true in Hrun. destruct Hrun as [He Hg].
  destruct ev as [dg|mq| | |d|]; try (intros []).
  - (* the client's REGACK *)
    destruct (read_dgram dg) as [p|e|ps] eqn:Hr; try (intros []).
    destruct_pkt p; try (intros []).
    destruct (get_by_id s mid) as [[g t]|] eqn:Hget; [|intros []].
    destruct t as [| | |m0 q0 st0 d0 sp n0]; try (intros []).
    destruct st0; try (intros []). destruct d0 as [p0|k0 a0]; try (intros []).
    destruct p0 as [| | | | | | | | | |rtid rmid rname| | | | | | | | | | | | | | | | |]; try (intros []).
    destruct sp as [pub|]; [|intros []].
    destruct (negb (rc =? RC_ACCEPTED)) eqn:Hrc; [intros []|]. apply negb_false_iff in Hrc.
    pose proof (get_by_id_lookup s mid g _ Hget) as Hobj.
    pose proof (Inv2_lookup s g _ HI2 Hobj) as Hok. cbn [okT2] in Hok.
    pose proof (inv_obj s HI g _ Hobj) as [Hin _]. cbn [stored_ok] in Hin.
    assert (Hk : known s rtid rname) by (left; exact Hin).
    apply (inv_rng s HI) in Hk. destruct Hk as [Hk _].
    destruct pub as [| | | | | | | | | | | |pdup pq pr ptit ptid pmid pdata| | | | | | | | | | | | | | |];
      try (exfalso; exact Hok).
    destruct Hok as (-> & -> & Hpq & Hpm).
    destruct (step_regack cfg s dg tid mid rc g m0 q0 rtid rmid rname _ n0 He Hg Hst Hr Hget Hrc)
      as [[Hsz [t ->]]|[Hend ->]].
    + (* the PUBLISH kept by the transaction is written as it is *)
      rewrite pk_one. unfold rd. rewrite (read_publish _ _ _ _ _ _ _ Hsz).
      rewrite !N.mod_small by lia. change (0 mod 4) with 0.
      cbn [List.filter is_sn_publish].
      rewrite !N.eqb_refl, eqb_reflx, beq_refl. cbn [andb]. intros [].
    + (* too long for a datagram: the session gives up *)
      cbn [List.filter is_sn_publish]. rewrite Hend. intros [].
  - (* the broker's PUBLISH *)
    destruct mq as [| |dup qos retain topic mid payload| | | | | | | | | | |]; try (intros []).
    destruct ((2 <? qos) || (len topic =? 0)) eqn:Hq2; [intros []|].
    apply orb_false_iff in Hq2. destruct Hq2 as [Hq2 Hne]. apply N.ltb_ge in Hq2.
    destruct Hev as (_ & Htb & Htl & Hmid & Hpb).
    unfold gw_step. rewrite He, Hg. cbv zeta.
    set (s0 := s <| gw_last_mq := gw_now s |>).
    assert (HI0 : Inv s0).
    { assert (HG : Good cfg (gw_client_id s) s s0) by (subst s0; good_tac). apply HG. }
    assert (Hst0 : gw_st s0 = Active) by exact Hst.
    unfold handle_mq.
    destruct (hbp_cases cfg s0 dup qos retain topic mid payload Hwf HI0 Hst0 Hq2)
      as [Hf|[(tid & tit & Hfound & Hs)|(i & m & Hfound & Hi & Hnone & Hs)]].
    + (* nothing delivered, the session gives up *)
      destruct (finish_failed _ false true Hf) as [Hend ->].
      cbn [List.filter is_sn_publish is_sn_register]. rewrite Hend. intros [].
    + (* a known topic *)
      destruct (finish_sent _ _ false true Hs) as [t ->]. rewrite pk_one. unfold rd.
      rewrite (read_publish _ _ _ _ _ _ _ (proj1 Hs)).
      change (found_of cfg s0 topic) with (found_of cfg s topic) in Hfound.
      destruct (found_resolves cfg s topic tid tit Hwf HI Htb Hfound) as (Htit & Htid & Hres).
      rewrite !N.mod_small by lia.
      cbn [List.filter is_sn_publish is_sn_register].
      rewrite !N.eqb_refl, eqb_reflx, beq_refl. cbn [andb app].
      destruct Hres as [Hres|Hres]; rewrite Hres; [intros []|].
      destruct (client_resolves cfg s tit tid topic); [intros []|].
      destruct (subscribe_pending s tid); cbn [In]; intuition.
    + (* a new topic name: REGISTER first *)
      destruct (finish_sent _ _ false true Hs) as [t ->]. rewrite pk_one. unfold rd.
      destruct topic as [|x nm]; [vm_compute in Hne; discriminate Hne|].
      rewrite (read_register_ok _ _ _ _ (proj1 Hs)).
      cbn [List.filter is_sn_publish is_sn_register].
      rewrite beq_refl, N.mod_small by lia.
      change (gw_registered s !! i) with (gw_registered s0 !! i). rewrite Hnone. intros [].
Qed.

(* ================================================================== every history *)

Theorem chk_C02_all_histories : forall cfg evs, wf_cfg cfg -> Forall wf_event evs ->
  run_all cfg (fun s ev => forall c,
    In c (chk_C02 cfg s (fst (gw_step cfg s ev)) ev (obs_of_outs (snd (gw_step cfg s ev)))) ->
    c = 6 \/ c = 7) (init_state cfg) evs.
Proof.
  intros cfg evs Hwf Hevs.
  apply (run_all_lift cfg (fun _ _ => True)).
  - intros s ev Hr Hev _. apply chk_C02_sound_partial; assumption.
  - apply reach_init.
  - exact Hevs.
  - apply run_all_true.
Qed.

(* ================================================================== concrete histories *)

(* configuration cx_cfg of Sound_C04C11.v: one predefined topic (ID 1, "t12") of the client "c";
   the client "c" connects and the broker accepts *)
Definition c02_conn : list gw_event := [EvSn cx_connect; EvMq (MqConnack false 0)].
Definition c02_xyz : bytes := [120; 121; 122].
Definition c02_pub (q : N) (topic payload : bytes) : gw_event := EvMq (MqPublish false q false topic 77 payload).
Definition c02_sub : gw_event := EvSn (pack (Subscribe false 1 0 9 0 c02_xyz)).
Definition c02_refuse : gw_event := EvMq (MqSuback 9 [128]).

Definition c02_chk (h : list gw_event) (ev : gw_event) : list N * list packet :=
  let s := snd (gw_run cx_cfg (init_state cx_cfg) h) in
  (chk_C02 cx_cfg s (fst (gw_step cx_cfg s ev)) ev (obs_of_outs (snd (gw_step cx_cfg s ev))),
   sn_pkts (obs_of_outs (snd (gw_step cx_cfg s ev)))).

Lemma c02_pub_wf q topic payload :
  q < 4 -> wf_bytesb topic = true -> wf_bytesb payload = true -> (len topic <? 65536) = true ->
  wf_event (c02_pub q topic payload).
Proof.
  intros Hq Ht Hp Hl. cbn [c02_pub wf_event wf_mq].
  split; [exact Hq|]. split; [apply wf_bytesb_spec, Ht|]. split; [apply N.ltb_lt, Hl|].
  split; [reflexivity|apply wf_bytesb_spec, Hp].
Qed.

Lemma c02_conn_wf : Forall wf_event c02_conn.
Proof. constructor; [exact cx_connect_wf|]. constructor; [reflexivity|]. constructor. Qed.

Lemma c02_sub_wf : wf_event c02_sub.
Proof. apply (cx_dgram_wf (Subscribe false 1 0 9 0 c02_xyz)); vm_compute; reflexivity. Qed.

Lemma c02_refuse_wf : wf_event c02_refuse.
Proof. split; [reflexivity|apply wf_bytesb_spec; reflexivity]. Qed.

Lemma c02_pub_xyz_wf : wf_event (c02_pub 1 c02_xyz [1; 2; 3]).
Proof. apply c02_pub_wf; [lia|reflexivity..]. Qed.

(* clause 6: the client SUBSCRIBEs by name to "xyz" (the gateway registers topic ID 2 for it and
   forwards the SUBSCRIBE); before the broker's SUBACK is relayed, the broker PUBLISHes on "xyz":
   the gateway writes PUBLISH with the normal topic ID 2, which the client was never told *)
Example C02_refuted_pending :
  Forall wf_event (c02_conn ++ [c02_sub; c02_pub 1 c02_xyz [1; 2; 3]]) /\
  c02_chk (c02_conn ++ [c02_sub]) (c02_pub 1 c02_xyz [1; 2; 3]) =
  ([6], [Publish false 1 false 0 2 77 [1; 2; 3]]).
Proof.
  split; [|vm_compute; reflexivity].
  apply Forall_app. split; [exact c02_conn_wf|].
  constructor; [exact c02_sub_wf|]. constructor; [exact c02_pub_xyz_wf|]. constructor.
Qed.

(* clause 7: the same after the broker refused the subscription (SUBACK 0x80, relayed as a SUBACK
   with a rejecting return code): the topic ID stays registered in the gateway, unknown to the client *)
Example C02_refuted_refused :
  Forall wf_event (c02_conn ++ [c02_sub; c02_refuse; c02_pub 1 c02_xyz [1; 2; 3]]) /\
  c02_chk (c02_conn ++ [c02_sub; c02_refuse]) (c02_pub 1 c02_xyz [1; 2; 3]) =
  ([7], [Publish false 1 false 0 2 77 [1; 2; 3]]).
Proof.
  split; [|vm_compute; reflexivity].
  apply Forall_app. split; [exact c02_conn_wf|].
  constructor; [exact c02_sub_wf|]. constructor; [exact c02_refuse_wf|].
  constructor; [exact c02_pub_xyz_wf|]. constructor.
Qed.

(* ... and likewise when the subscription timed out *)
Example C02_refuted_timed_out :
  c02_chk (c02_conn ++ [c02_sub; EvAdvance 1000]) (c02_pub 1 c02_xyz [1; 2; 3]) =
  ([7], [Publish false 1 false 0 2 77 [1; 2; 3]]).
Proof. vm_compute. reflexivity. Qed.

(* once the SUBACK was relayed the same PUBLISH is fine *)
Example C02_after_suback :
  c02_chk (c02_conn ++ [c02_sub; EvMq (MqSuback 9 [1])]) (c02_pub 1 c02_xyz [1; 2; 3]) =
  ([], [Publish false 1 false 0 2 77 [1; 2; 3]]).
Proof. vm_compute. reflexivity. Qed.

(* non-vacuity: a PUBLISH on a new topic name goes REGISTER -> REGACK -> PUBLISH, and chk_C02
   accepts both steps (QoS 1; QoS 0 uses the message ID 65535 for the REGISTER) *)
Example C02_new_topic_ok :
  c02_chk c02_conn (c02_pub 1 c02_xyz [1; 2; 3]) = ([], [Register 2 77 c02_xyz]) /\
  c02_chk (c02_conn ++ [c02_pub 1 c02_xyz [1; 2; 3]]) (EvSn (pack (Regack 2 77 0))) =
  ([], [Publish false 1 false 0 2 77 [1; 2; 3]]) /\
  c02_chk c02_conn (c02_pub 0 c02_xyz [1; 2; 3]) = ([], [Register 2 65535 c02_xyz]) /\
  c02_chk (c02_conn ++ [c02_pub 0 c02_xyz [1; 2; 3]]) (EvSn (pack (Regack 2 65535 0))) =
  ([], [Publish false 0 false 0 2 77 [1; 2; 3]]).
Proof. vm_compute. repeat split; reflexivity. Qed.

(* a REGACK that rejects: no PUBLISH, and a later PUBLISH on the same name gets a new REGISTER *)
Example C02_regack_rejected :
  c02_chk (c02_conn ++ [c02_pub 1 c02_xyz [1; 2; 3]]) (EvSn (pack (Regack 2 77 3))) = ([], []) /\
  c02_chk (c02_conn ++ [c02_pub 1 c02_xyz [1; 2; 3]; EvSn (pack (Regack 2 77 3))]) (c02_pub 1 c02_xyz [1; 2; 3]) =
  ([], [Register 3 77 c02_xyz]).
Proof. vm_compute. split; reflexivity. Qed.

(* short and predefined names need no REGISTER *)
Example C02_short_and_predefined :
  c02_chk c02_conn (c02_pub 2 [97; 98] [1; 2; 3]) = ([], [Publish false 2 false 2 24930 77 [1; 2; 3]]) /\
  c02_chk c02_conn (c02_pub 1 [116; 49; 50] [1; 2; 3]) = ([], [Publish false 1 false 1 1 77 [1; 2; 3]]).
Proof. vm_compute. split; reflexivity. Qed.

(* A broker PUBLISH with an empty topic name (not valid MQTT): the gateway writes a REGISTER (topic
   ID 2, message ID 77) with an empty topic name, which is not a packet the MQTT-SN codec accepts;
   nothing else is written and the session goes on.  chk_C02 skips the event (its first version
   reported clause 4). *)
Example C02_empty_topic :
  Forall wf_event (c02_conn ++ [c02_pub 1 [] [1; 2; 3]]) /\
  c02_chk c02_conn (c02_pub 1 [] [1; 2; 3]) = ([], []) /\
  (let s := snd (gw_run cx_cfg (init_state cx_cfg) c02_conn) in
   snd (gw_step cx_cfg s (c02_pub 1 [] [1; 2; 3])) = [OutSn 0 (pack (Register 2 77 []))] /\
   ending (fst (gw_step cx_cfg s (c02_pub 1 [] [1; 2; 3]))) = false).
Proof.
  split; [|vm_compute; repeat split; reflexivity].
  apply Forall_app. split; [exact c02_conn_wf|].
  constructor; [|constructor]. apply c02_pub_wf; [lia|reflexivity..].
Qed.

(* A broker PUBLISH on the new name "xyz" with a payload of 8190 bytes: the REGISTER is written;
   the client's accepting REGACK makes the gateway send the PUBLISH, which fails the size check of
   snSend ("packet too long"); only the DISCONNECT of the terminating session is written.  chk_C02
   accepts that because the session gives up (its first version reported clause 5).  A payload of
   8183 bytes still fits: 4 bytes header, 5 bytes fixed part. *)
Definition c02_big (n : N) : bytes := List.repeat 7 (N.to_nat n).

Example C02_oversized_new_topic :
  Forall wf_event (c02_conn ++ [c02_pub 1 c02_xyz (c02_big 8190); EvSn (pack (Regack 2 77 0))]) /\
  c02_chk c02_conn (c02_pub 1 c02_xyz (c02_big 8190)) = ([], [Register 2 77 c02_xyz]) /\
  c02_chk (c02_conn ++ [c02_pub 1 c02_xyz (c02_big 8190)]) (EvSn (pack (Regack 2 77 0))) = ([], [Disconnect 0]) /\
  (let s := snd (gw_run cx_cfg (init_state cx_cfg) (c02_conn ++ [c02_pub 1 c02_xyz (c02_big 8190)])) in
   ending (fst (gw_step cx_cfg s (EvSn (pack (Regack 2 77 0))))) = true) /\
  map ptype (snd (c02_chk (c02_conn ++ [c02_pub 1 c02_xyz (c02_big 8183)]) (EvSn (pack (Regack 2 77 0))))) = [T_PUBLISH] /\
  snd (c02_chk (c02_conn ++ [c02_pub 1 c02_xyz (c02_big 8184)]) (EvSn (pack (Regack 2 77 0)))) = [Disconnect 0].
Proof.
  split; [|vm_compute; repeat split; reflexivity].
  apply Forall_app. split; [exact c02_conn_wf|].
  constructor; [|constructor; [|constructor]].
  - apply c02_pub_wf; [lia|vm_compute; reflexivity..].
  - apply (cx_dgram_wf (Regack 2 77 0)); vm_compute; reflexivity.
Qed.

(* an oversized payload on a topic the client knows ends the session without a PUBLISH; chk_C02
   accepts that (clause 4 only fires when the session goes on) *)
Example C02_oversized_known_topic :
  c02_chk c02_conn (c02_pub 1 [97; 98] (c02_big 8190)) = ([], [Disconnect 0]).
Proof. vm_compute. reflexivity. Qed.

(* a SUBSCRIBE by a name that is already registered and announced (here by the client's own
   REGISTER) re-uses that topic ID (registerTopic), so a PUBLISH on the name is fine while the
   SUBACK is due and after the broker refused; clauses 6 / 7 arise only for names the session did
   not know before the SUBSCRIBE *)
Example C02_subscribe_known_name :
  let reg := EvSn (pack (Register 0 5 c02_xyz)) in
  c02_chk (c02_conn ++ [reg; c02_sub]) (c02_pub 1 c02_xyz [1; 2; 3]) =
  ([], [Publish false 1 false 0 2 77 [1; 2; 3]]) /\
  c02_chk (c02_conn ++ [reg; c02_sub; c02_refuse]) (c02_pub 1 c02_xyz [1; 2; 3]) =
  ([], [Publish false 1 false 0 2 77 [1; 2; 3]]) /\
  (* after a refused SUBSCRIBE the client's REGISTER of the name announces the ID it kept *)
  c02_chk (c02_conn ++ [c02_sub; c02_refuse; reg]) (c02_pub 1 c02_xyz [1; 2; 3]) =
  ([], [Publish false 1 false 0 2 77 [1; 2; 3]]).
Proof. vm_compute. repeat split; reflexivity. Qed.

Print Assumptions chk_C02_sound_partial.
Print Assumptions chk_C02_all_histories.
