(* Gateway/GwWf.v — well-formedness of configurations and events (what a Go value of the
   corresponding type can be), and the reachable states of a session. *)
From stdpp Require Import base option list numbers fin_maps nmap.
From Verif.Base Require Import Bytes.
From Verif.Codec Require Import Packets Decode Encode.
From Verif.Topics Require Import Predefined.
From Verif.Gateway Require Import GwTypes GwStep.
Open Scope N_scope.

Definition u16b (x : N) : bool := x <? 65536.

(* predefined topics: uint16 IDs, byte-string names *)
Definition wf_topic_map (m : topic_map) : Prop :=
  forall i n, m !! i = Some n -> i < 65536 /\ wf_bytes n.
Definition wf_predef (p : predef) : Prop := Forall (fun cm => wf_bytes (fst cm) /\ wf_topic_map (snd cm)) p.

Definition wf_cfg (cfg : gw_cfg) : Prop :=
  wf_predef (predefined cfg) /\ min_tid cfg = 1 /\ max_tid cfg = 65534 /\ 0 < retry_delay cfg /\
  match cfg_user cfg with Some u => wf_bytes u | None => True end /\
  match cfg_pass cfg with Some p => wf_bytes p | None => True end.

(* an MQTT packet as paho decodes it: 16-bit identifiers, 2-bit QoS, byte strings; topic
   names and filters are at most 65535 bytes (2-byte length prefix) *)
Definition wf_mq (m : mq_pkt) : Prop :=
  match m with
  | MqConnect c => True
  | MqConnack _ rc => rc < 256
  | MqPublish _ q _ t mid pl => q < 4 /\ wf_bytes t /\ len t < 65536 /\ mid < 65536 /\ wf_bytes pl
  | MqPuback mid | MqPubrec mid | MqPubrel mid | MqPubcomp mid | MqUnsuback mid => mid < 65536
  | MqSubscribe mid _ fs => mid < 65536
  | MqSuback mid codes => mid < 65536 /\ wf_bytes codes
  | MqUnsubscribe mid fs => mid < 65536
  | MqPingreq | MqPingresp | MqDisconnect => True
  end.

Definition wf_event (ev : gw_event) : Prop :=
  match ev with
  | EvSn dg => wf_bytes dg /\ (length dg <= N.to_nat MaxPacketLen)%nat
  | EvMq m => wf_mq m
  | _ => True
  end.

(* states reachable from the initial state by well-formed events *)
Inductive reach (cfg : gw_cfg) : gw_state -> Prop :=
| reach_init : reach cfg (init_state cfg)
| reach_step s ev : reach cfg s -> wf_event ev -> reach cfg (fst (gw_step cfg s ev)).

Lemma reach_run cfg evs : Forall wf_event evs -> forall s, reach cfg s -> reach cfg (snd (gw_run cfg s evs)).
Proof.
  induction 1 as [|ev evs Hev _ IH]; intros s Hs; cbn [gw_run]; [exact Hs|].
  pose proof (reach_step cfg s ev Hs Hev) as H1. destruct (gw_step cfg s ev) as [s' o]. cbn in H1.
  specialize (IH s' H1). destruct (gw_run cfg s' evs) as [os s'']. exact IH.
Qed.
