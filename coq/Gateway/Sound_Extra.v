(* Gateway/Sound_Extra.v — small corollaries used by the property files. *)
From stdpp Require Import base option list numbers fin_maps nmap.
From Verif.Base Require Import Bytes.
From Verif.Codec Require Import Packets Decode Encode.
From Verif.Topics Require Import Predefined.
From Verif.Gateway Require Import GwTypes GwStep GwWf GwRun Sound_C07C08C09.
Open Scope N_scope.

(* a session that is not Disconnected was accepted by the broker in this session *)
Lemma reach_connected_accepted cfg s :
  wf_cfg cfg -> reach cfg s -> gw_st s <> Disconnected -> gw_accepted s = true.
Proof. intros _ Hr. apply (nd_accepted cfg). apply reach_Inv, Hr. Qed.
