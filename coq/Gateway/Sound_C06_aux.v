(* Gateway/Sound_C06_aux.v — the gateway side of the positive half of C06 (Sound_C06.v): what one step
   of the session model does to the exchanges the store holds.

   - W: structural invariant of reachable states (object identities are fresh, the store's slot of a
     message ID holds an object with that message ID, the connect slot holds a connect object, ...);
   - FR X s s': every (slot, object) pair of s outside X is untouched in s' (same slot, same object, no
     new timer of the object); FW X s s' := W s -> W s' /\ FR X s s', proved handler by handler;
   - CP / CS / BP: "the slot of message ID i holds a client PUBLISH / SUBSCRIBE / broker PUBLISH exchange
     that lives at least until time u", the facts the monitor's book entries stand for;
   - step_* : preservation / creation / relay lemmas for gw_step in terms of CP / CS / BP. *)
From Coq Require Import List NArith Bool Lia ZArith ZifyN ZifyNat ZifyBool.
From stdpp Require Import base option list numbers fin_maps nmap.
From RecordUpdate Require Import RecordSet.
From Verif.Base Require Import Bytes BytesProofs.
From Verif.Codec Require Import Packets Decode Encode EncodeProofs.
From Verif.Topics Require Import Predefined.
From Verif.Gateway Require Import GwTypes GwStep GwStepProofs GwWf Sound_C01C03_aux Sound_C01C03 Sound_C02_aux.
From Verif.Checkers Require Import ChkCodec ChkGw ChkGw2.
Import RecordSetNotations.
Open Scope N_scope.
Ltac Zify.zify_post_hook ::= Z.div_mod_to_equations.

(* ================================================================== definitions *)

Definition mid_of (t : txn) : option N :=
  match t with
  | TxConnect _ _ => None
  | TxClientPub1 m _ | TxSubscribe m _ | TxBrokerPub m _ _ _ _ _ => Some m
  end.
Definition is_cx (t : txn) : Prop := match t with TxConnect _ _ => True | _ => False end.

(* the PUBLISH a broker-publish exchange keeps for after the REGACK *)
Definition okPub (mid qos : N) (p : packet) : Prop :=
  match p with
  | Publish _ q _ _ _ m0 _ => q = qos /\ q < 4 /\ m0 < 65536 /\ (q = 0 \/ m0 = mid)
  | _ => False
  end.
Definition okB (t : txn) : Prop :=
  match t with
  | TxClientPub1 _ tid => tid < 65536
  | TxBrokerPub mid qos _ _ (Some p) _ => okPub mid qos p
  | _ => True
  end.

Record W (s : gw_state) : Prop := {
  w_obj : forall g t, gw_objs s !! g = Some t -> g < gw_next_obj s;
  w_tm : forall tm g, In tm (gw_timers s) -> timer_of_obj g (tm_kind tm) = true -> g < gw_next_obj s;
  w_cx : forall gc, gw_connect s = Some gc ->
           gc < gw_next_obj s /\ forall t, gw_objs s !! gc = Some t -> is_cx t;
  w_slot : forall i g, gw_by_id s !! i = Some g ->
           g < gw_next_obj s /\ forall t, gw_objs s !! g = Some t -> mid_of t = Some i;
  w_ok : forall g t, gw_objs s !! g = Some t -> okB t
}.

Definition held (s : gw_state) (i g : N) (t : txn) : Prop :=
  gw_by_id s !! i = Some g /\ gw_objs s !! g = Some t.
Definition tmrs_in (s s' : gw_state) (g : N) : Prop :=
  forall tm, In tm (gw_timers s') -> timer_of_obj g (tm_kind tm) = true -> In tm (gw_timers s).

Definition FR (X : N -> N -> Prop) (s s' : gw_state) : Prop :=
  forall i g t, held s i g t -> ~ X i g -> held s' i g t /\ tmrs_in s s' g.
Definition FW (X : N -> N -> Prop) (s s' : gw_state) : Prop := W s -> W s' /\ FR X s s'.

Definition X0 : N -> N -> Prop := fun _ _ => False.
Definition Xobj (g : N) : N -> N -> Prop := fun _ g' => g' = g.
Definition Xslot (m : N) : N -> N -> Prop := fun i _ => i = m.

Definition st_of (r : R) : gw_state := fst (fst r).
Definition FWR (X : N -> N -> Prop) (s : gw_state) (r : R) : Prop := FW X s (st_of r).

(* the fields W and FR read *)
Definition sm (s s' : gw_state) : Prop :=
  gw_by_id s' = gw_by_id s /\ gw_objs s' = gw_objs s /\ gw_timers s' = gw_timers s /\
  gw_next_obj s' = gw_next_obj s /\ gw_connect s' = gw_connect s.

Lemma sm_refl s : sm s s.
Proof. repeat split. Qed.

Ltac sm_tac := unfold sm; repeat (split; [reflexivity|]); reflexivity.

Lemma sm_trans a b c : sm a b -> sm b c -> sm a c.
Proof. intros (A1 & A2 & A3 & A4 & A5) (B1 & B2 & B3 & B4 & B5). repeat split; congruence. Qed.

(* ================================================================== W *)

Lemma W_init cfg : W (init_state cfg).
Proof.
  constructor; cbn.
  - intros g t H. rewrite lookup_empty in H. discriminate.
  - intros tm g [].
  - intros gc H. discriminate.
  - intros i g H. rewrite lookup_empty in H. discriminate.
  - intros g t H. rewrite lookup_empty in H. discriminate.
Qed.

Lemma W_sm s s' : sm s s' -> W s -> W s'.
Proof.
  intros (E1 & E2 & E3 & E4 & E5) [A1 A2 A3 A4 A5]. constructor; rewrite ?E1, ?E2, ?E3, ?E4, ?E5; assumption.
Qed.

(* a slot never holds a connect object *)
Lemma W_held_not_cx s i g t : W s -> held s i g t -> ~ is_cx t.
Proof.
  intros HW [H1 H2] Hc. destruct (w_slot s HW i g H1) as [_ Hm]. specialize (Hm t H2).
  destruct t; try contradiction. discriminate.
Qed.

Lemma W_held_mid s i g t : W s -> held s i g t -> mid_of t = Some i.
Proof. intros HW [H1 H2]. exact (proj2 (w_slot s HW i g H1) t H2). Qed.

Lemma W_held_connect s i g t : W s -> held s i g t -> gw_connect s <> Some g.
Proof.
  intros HW Hh Hc. apply (W_held_not_cx s i g t HW Hh).
  destruct Hh as [_ H2]. exact (proj2 (w_cx s HW g Hc) t H2).
Qed.

(* ================================================================== FR / FW: structure *)

Lemma FR_refl X s : FR X s s.
Proof. intros i g t Hh _. split; [exact Hh|]. intros tm Hin _. exact Hin. Qed.

Lemma FW_refl X s : FW X s s.
Proof. intros HW. split; [exact HW|apply FR_refl]. Qed.

Lemma FR_trans X s1 s2 s3 : FR X s1 s2 -> FR X s2 s3 -> FR X s1 s3.
Proof.
  intros H12 H23 i g t Hh Hx. destruct (H12 i g t Hh Hx) as [Hh2 Ht2].
  destruct (H23 i g t Hh2 Hx) as [Hh3 Ht3]. split; [exact Hh3|].
  intros tm Hin Hof. apply Ht2; [apply Ht3; assumption|exact Hof].
Qed.

Lemma FW_trans X s1 s2 s3 : FW X s1 s2 -> FW X s2 s3 -> FW X s1 s3.
Proof.
  intros H12 H23 HW. destruct (H12 HW) as [HW2 F12]. destruct (H23 HW2) as [HW3 F23].
  split; [exact HW3|eapply FR_trans; eassumption].
Qed.

(* weaken the exempted set; the justification may use W and the pair being held *)
Lemma FW_mono (X Y : N -> N -> Prop) s s' :
  FW X s s' -> (W s -> forall i g t, held s i g t -> X i g -> Y i g) -> FW Y s s'.
Proof.
  intros H HXY HW. destruct (H HW) as [HW' HF]. split; [exact HW'|].
  intros i g t Hh Hy. apply (HF i g t Hh). intros Hx. apply Hy. exact (HXY HW i g t Hh Hx).
Qed.

Lemma FW_mono0 (Y : N -> N -> Prop) s s' : FW X0 s s' -> FW Y s s'.
Proof. intros H. apply (FW_mono X0 Y s s' H). intros _ i g t _ []. Qed.

Lemma FW_step X s s1 s2 : FW X s s1 -> FW X0 s1 s2 -> FW X s s2.
Proof. intros H1 H2. eapply FW_trans; [exact H1|apply FW_mono0, H2]. Qed.

Lemma FR_same3 X s s' :
  gw_by_id s' = gw_by_id s -> gw_objs s' = gw_objs s -> gw_timers s' = gw_timers s -> FR X s s'.
Proof.
  intros E1 E2 E3 i g t [H1 H2] _. split.
  - split; [rewrite E1; exact H1|rewrite E2; exact H2].
  - intros tm Hin _. rewrite E3 in Hin. exact Hin.
Qed.

Lemma FR_sm X s s' : sm s s' -> FR X s s'.
Proof. intros (E1 & E2 & E3 & E4 & E5). apply FR_same3; assumption. Qed.

Lemma FW_sm X s s' : sm s s' -> FW X s s'.
Proof. intros H HW. split; [eapply W_sm; eassumption|apply FR_sm, H]. Qed.

(* ================================================================== primitive updates *)

(* fewer timers *)
Lemma FW_timers_sub X s s' :
  gw_by_id s' = gw_by_id s -> gw_objs s' = gw_objs s -> gw_next_obj s' = gw_next_obj s ->
  gw_connect s' = gw_connect s -> (forall tm, In tm (gw_timers s') -> In tm (gw_timers s)) ->
  FW X s s'.
Proof.
  intros E1 E2 E4 E5 Hsub HW. split.
  - destruct HW as [A1 A2 A3 A4 A5]. constructor; rewrite ?E1, ?E2, ?E4, ?E5; try assumption.
    intros tm g Hin. apply A2, Hsub, Hin.
  - intros i g t [H1 H2] _. split.
    + split; [rewrite E1; exact H1|rewrite E2; exact H2].
    + intros tm Hin _. apply Hsub, Hin.
Qed.

Lemma FW_disarm_obj X s g : FW X s (disarm_obj s g).
Proof.
  apply FW_timers_sub; try reflexivity. intros tm Hin. cbn in Hin. apply filter_In in Hin. tauto.
Qed.

Lemma FW_disarm_ping X s p : FW X s (disarm_ping s p).
Proof.
  apply FW_timers_sub; try reflexivity. intros tm Hin. cbn in Hin. apply filter_In in Hin. tauto.
Qed.

(* a new timer *)
Lemma FW_arm s k d :
  (W s -> forall g, timer_of_obj g k = true -> g < gw_next_obj s) ->
  FW (fun _ g => timer_of_obj g k = true) s (arm s k d).
Proof.
  intros Hk HW. specialize (Hk HW). split.
  - destruct HW as [A1 A2 A3 A4 A5]. constructor; cbn; try assumption.
    intros tm g Hin Hof. apply in_app_or in Hin. destruct Hin as [Hin|[<-|[]]].
    + eapply A2; eassumption.
    + cbn in Hof. apply Hk, Hof.
  - intros i g t Hh Hx. split; [exact Hh|].
    intros tm Hin Hof. cbn in Hin. apply in_app_or in Hin. destruct Hin as [Hin|[<-|[]]]; [exact Hin|].
    cbn in Hof. contradiction.
Qed.

Lemma FW_arm_ping X s p d : FW X s (arm s (TmPing p) d).
Proof. apply FW_mono0. eapply FW_mono; [apply FW_arm|]. - intros _ g H. discriminate H. - intros _ i g t _ H. discriminate H. Qed.

Lemma FW_arm_pingc X s p d : FW X s (arm s (TmPingCancel p) d).
Proof. apply FW_mono0. eapply FW_mono; [apply FW_arm|]. - intros _ g H. discriminate H. - intros _ i g t _ H. discriminate H. Qed.

(* finishing an object touches that object only *)
Lemma FW_finish_obj s g : FW (Xobj g) s (finish_obj s g).
Proof.
  intros HW. unfold finish_obj. destruct (gw_objs s !! g) as [t0|] eqn:E0; [|split; [exact HW|apply FR_refl]].
  cbv zeta.
  set (s1 := disarm_obj s g <| gw_objs := delete g (gw_objs (disarm_obj s g)) |>).
  assert (Hs1 : W s1 /\ FR (Xobj g) s s1).
  { split.
    - destruct HW as [A1 A2 A3 A4 A5]. constructor; cbn.
      + intros g' t H. apply lookup_delete_Some in H. eapply A1, H.
      + intros tm g' Hin. apply filter_In in Hin. apply A2, Hin.
      + intros gc Hc. destruct (A3 gc Hc) as [B1 B2]. split; [exact B1|].
        intros t H. apply lookup_delete_Some in H. apply B2, H.
      + intros i g' Hi. destruct (A4 i g' Hi) as [B1 B2]. split; [exact B1|].
        intros t H. apply lookup_delete_Some in H. apply B2, H.
      + intros g' t H. apply lookup_delete_Some in H. eapply A5, H.
    - intros i g' t [H1 H2] Hx. unfold Xobj in Hx. split.
      + split; [exact H1|]. cbn. rewrite lookup_delete_ne by congruence. exact H2.
      + intros tm Hin _. cbn in Hin. apply filter_In in Hin. tauto. }
  destruct Hs1 as [HW1 HF1].
  assert (Hcx : W (s1 <| gw_connect := None |>) /\ FR (Xobj g) s (s1 <| gw_connect := None |>)).
  { split.
    - destruct HW1 as [A1 A2 A3 A4 A5]. constructor; cbn; try assumption. intros gc H. discriminate.
    - eapply FR_trans; [exact HF1|]. apply FR_same3; reflexivity. }
  assert (Hdel : forall mid, mid_of t0 = Some mid ->
            W (match gw_by_id s1 !! mid with
               | Some g' => if g' =? g then s1 <| gw_by_id := delete mid (gw_by_id s1) |> else s1
               | None => s1 end) /\
            FR (Xobj g) s (match gw_by_id s1 !! mid with
               | Some g' => if g' =? g then s1 <| gw_by_id := delete mid (gw_by_id s1) |> else s1
               | None => s1 end)).
  { intros mid Hm. destruct (gw_by_id s1 !! mid) as [g'|] eqn:Eg; [|split; assumption].
    destruct (N.eqb_spec g' g) as [->|Hne]; [|split; assumption]. split.
    - destruct HW1 as [A1 A2 A3 A4 A5]. constructor; cbn; try assumption.
      intros i g' Hi. apply lookup_delete_Some in Hi. apply A4, Hi.
    - eapply FR_trans; [exact HF1|]. intros i g' t [H1 H2] Hx. unfold Xobj in Hx. split.
      + split; [|exact H2]. cbn. rewrite lookup_delete_ne; [exact H1|]. intros <-. congruence.
      + intros tm Hin _. exact Hin. }
  destruct t0 as [mq a|m tid|m tid|m q st d sp n]; [exact Hcx|apply (Hdel m eq_refl)..].
Qed.

(* replacing an object *)
Lemma FW_set_obj s g t' :
  (W s -> g < gw_next_obj s /\ okB t' /\ (forall i, gw_by_id s !! i = Some g -> mid_of t' = Some i) /\
          (gw_connect s = Some g -> is_cx t')) ->
  FW (Xobj g) s (set_obj s g t').
Proof.
  intros Hc HW. destruct (Hc HW) as (C1 & C2 & C3 & C4). split.
  - destruct HW as [A1 A2 A3 A4 A5]. constructor; cbn; try assumption.
    + intros g' t H. apply lookup_insert_Some in H. destruct H as [[<- _]|[_ H]]; [exact C1|eapply A1, H].
    + intros gc Hgc. destruct (A3 gc Hgc) as [B1 B2]. split; [exact B1|].
      intros t H. apply lookup_insert_Some in H. destruct H as [[<- <-]|[_ H]]; [apply C4, Hgc|apply B2, H].
    + intros i g' Hi. destruct (A4 i g' Hi) as [B1 B2]. split; [exact B1|].
      intros t H. apply lookup_insert_Some in H. destruct H as [[<- <-]|[_ H]]; [apply C3, Hi|apply B2, H].
    + intros g' t H. apply lookup_insert_Some in H. destruct H as [[_ <-]|[_ H]]; [exact C2|eapply A5, H].
  - intros i g' t [H1 H2] Hx. unfold Xobj in Hx. split.
    + split; [exact H1|]. cbn. rewrite lookup_insert_ne by congruence. exact H2.
    + intros tm Hin _. exact Hin.
Qed.

(* a new object *)
Lemma FW_new_obj X s t : okB t -> FW X s (fst (new_obj s t)).
Proof.
  intros Hok HW. unfold new_obj. cbn [fst]. split.
  - destruct HW as [A1 A2 A3 A4 A5]. constructor; cbn.
    + intros g' t' H. apply lookup_insert_Some in H. destruct H as [[<- _]|[_ H]]; [lia|]. specialize (A1 g' t' H). lia.
    + intros tm g Hin Hof. specialize (A2 tm g Hin Hof). lia.
    + intros gc Hgc. destruct (A3 gc Hgc) as [B1 B2]. split; [lia|].
      intros t' H. apply lookup_insert_Some in H. destruct H as [[<- _]|[_ H]]; [lia|apply B2, H].
    + intros i g' Hi. destruct (A4 i g' Hi) as [B1 B2]. split; [lia|].
      intros t' H. apply lookup_insert_Some in H. destruct H as [[<- _]|[_ H]]; [lia|apply B2, H].
    + intros g' t' H. apply lookup_insert_Some in H. destruct H as [[_ <-]|[_ H]]; [exact Hok|eapply A5, H].
  - intros i g' t' [H1 H2] _. split.
    + split; [exact H1|]. cbn. rewrite lookup_insert_ne; [exact H2|].
      intros <-. pose proof (w_obj s HW _ _ H2). lia.
    + intros tm Hin _. exact Hin.
Qed.

(* a slot is (over)written *)
Lemma FW_slot_insert s mid g :
  (W s -> g < gw_next_obj s /\ forall t, gw_objs s !! g = Some t -> mid_of t = Some mid) ->
  FW (Xslot mid) s (s <| gw_by_id := <[mid := g]> (gw_by_id s) |>).
Proof.
  intros Hc HW. destruct (Hc HW) as [C1 C2]. split.
  - destruct HW as [A1 A2 A3 A4 A5]. constructor; cbn; try assumption.
    intros i g' Hi. apply lookup_insert_Some in Hi. destruct Hi as [[<- <-]|[_ Hi]]; [split; assumption|apply A4, Hi].
  - intros i g' t [H1 H2] Hx. unfold Xslot in Hx. split.
    + split; [|exact H2]. cbn. rewrite lookup_insert_ne by congruence. exact H1.
    + intros tm Hin _. exact Hin.
Qed.

Lemma FW_next_obj X s : FW X s (s <| gw_next_obj := gw_next_obj s + 1 |>).
Proof.
  intros HW. split.
  - destruct HW as [A1 A2 A3 A4 A5]. constructor; cbn.
    + intros g t H. specialize (A1 g t H). lia.
    + intros tm g Hin Hof. specialize (A2 tm g Hin Hof). lia.
    + intros gc Hgc. destruct (A3 gc Hgc) as [B1 B2]. split; [lia|exact B2].
    + intros i g Hi. destruct (A4 i g Hi) as [B1 B2]. split; [lia|exact B2].
    + exact A5.
  - apply FR_same3; reflexivity.
Qed.

Lemma FW_connect_set X s g :
  (W s -> g < gw_next_obj s /\ forall t, gw_objs s !! g = Some t -> is_cx t) ->
  FW X s (s <| gw_connect := Some g |>).
Proof.
  intros Hc HW. destruct (Hc HW) as [C1 C2]. split.
  - destruct HW as [A1 A2 A3 A4 A5]. constructor; cbn; try assumption.
    intros gc H. injection H as <-. split; assumption.
  - apply FR_same3; reflexivity.
Qed.

(* ---- the connect object *)

Lemma FW_finish_cx X s gc :
  (W s -> forall t, gw_objs s !! gc = Some t -> is_cx t) -> FW X s (finish_obj s gc).
Proof.
  intros Hc. eapply FW_mono; [apply FW_finish_obj|].
  intros HW i g t Hh Hx. unfold Xobj in Hx. subst g. exfalso.
  apply (W_held_not_cx s i gc t HW Hh). apply (Hc HW). exact (proj2 Hh).
Qed.

Lemma FW_set_cx X s gc mq0 a0 mq a :
  gw_objs s !! gc = Some (TxConnect mq0 a0) -> FW X s (set_obj s gc (TxConnect mq a)).
Proof.
  intros Ho. eapply FW_mono; [apply FW_set_obj|].
  - intros HW. split; [eapply w_obj; eassumption|]. split; [exact I|]. split; [|intros _; exact I].
    intros i Hi. exfalso. apply (W_held_not_cx s i gc _ HW (conj Hi Ho)). exact I.
  - intros HW i g t Hh Hx. unfold Xobj in Hx. subst g. exfalso.
    apply (W_held_not_cx s i gc t HW Hh). destruct Hh as [_ H2]. rewrite Ho in H2. injection H2 as <-. exact I.
Qed.

(* ================================================================== results of handlers *)

Lemma FWR_ok X s s1 o : FW X s s1 -> FWR X s (ok s1 o).
Proof. intros H; exact H. Qed.

Lemma FWR_stop X s s1 o c : FW X s s1 -> FWR X s (stop s1 o c).
Proof. intros H; exact H. Qed.

Lemma FWR_mq_send X s s1 m : FW X s s1 -> FWR X s (mq_send s1 m).
Proof. intros H; exact H. Qed.

Lemma FWR_sn_send_owned X s s1 ow p : FW X s s1 -> FWR X s (sn_send_owned s1 ow p).
Proof.
  intros H. unfold FWR, st_of, sn_send_owned, ok, stop.
  destruct (gw_st s1); try destruct (len (pack p) <=? MaxPacketLen); cbn [fst]; try exact H.
  all: eapply FW_step; [exact H|]; apply FW_sm; sm_tac.
Qed.

Lemma FWR_sn_send X s s1 p : FW X s s1 -> FWR X s (sn_send s1 p).
Proof. apply FWR_sn_send_owned. Qed.

Lemma FWR_sn_send_now X s s1 p : FW X s s1 -> FWR X s (sn_send_now s1 p).
Proof. intros H. unfold FWR, sn_send_now. destruct (len (pack p) <=? MaxPacketLen); exact H. Qed.

Lemma FWR_andthen X s r g :
  FWR X s r -> (forall s1, FW X s s1 -> FWR X s (g s1)) -> FWR X s (andthen r g).
Proof.
  intros Hr Hg. destruct r as [[s1 o] [|c]]; unfold FWR, st_of in *; cbn [andthen fst] in *; [|exact Hr].
  specialize (Hg s1 Hr). destruct (g s1) as [[s' o'] res]. exact Hg.
Qed.

Lemma FWR_send_all X s ps : forall s1, FW X s s1 -> FWR X s (send_all s1 ps).
Proof.
  induction ps as [|[o p] ps IH]; intros s1 H; cbn [send_all].
  - exact H.
  - apply FWR_andthen; [apply FWR_sn_send, H|intros s2 H2; apply IH, H2].
Qed.

(* peel a record update of a field W and FR do not read *)
Ltac fw_peel :=
  match goal with
  | |- FW ?X ?s0 (set ?p ?f ?s) => apply (FW_step X s0 s); [|apply FW_sm; sm_tac]
  end.

Ltac fw_step :=
  first
    [ assumption
    | apply FWR_ok | apply FWR_stop | apply FWR_sn_send | apply FWR_sn_send_owned | apply FWR_sn_send_now
    | apply FWR_mq_send | apply FWR_send_all
    | apply FWR_andthen; [|intros ? ?]
    | fw_peel
    | match goal with |- FWR _ _ (match ?x with _ => _ end) => destruct x eqn:? end
    | match goal with |- FWR _ _ (if ?x then _ else _) => destruct x eqn:? end
    | match goal with |- FW _ _ (match ?x with _ => _ end) => destruct x eqn:? end
    | match goal with |- FW _ _ (if ?x then _ else _) => destruct x eqn:? end
    | progress cbv zeta ].
Ltac fw_auto := repeat fw_step.

(* ---- topic ID allocation touches none of the fields *)

Section Tids.
Variable cfg : gw_cfg.

Lemma seq_next_sm s : sm s (fst (fst (seq_next cfg s))).
Proof. unfold seq_next. cbv zeta. cbn [fst]. destruct (gw_seq_next s =? max_tid cfg); sm_tac. Qed.

Lemma skip_predefined_sm fuel : forall s id, sm s (fst (skip_predefined fuel cfg s id)).
Proof.
  induction fuel as [|fuel IH]; intros s id; cbn [skip_predefined];
    destruct (get_name (predefined cfg) (gw_client_id s) id) as [n|]; try apply sm_refl.
  - cbn [fst]. sm_tac.
  - pose proof (seq_next_sm s) as Hs. destruct (seq_next cfg s) as [[s' id'] ov]. cbn [fst] in Hs.
    destruct ov; cbn [fst].
    + eapply sm_trans; [exact Hs|sm_tac].
    + eapply sm_trans; [exact Hs|apply IH].
Qed.

Lemma new_topic_id_sm s : sm s (fst (new_topic_id cfg s)).
Proof.
  unfold new_topic_id. destruct (gw_no_more_tids s); [apply sm_refl|].
  pose proof (seq_next_sm s) as Hs. destruct (seq_next cfg s) as [[s' id'] ov]. cbn [fst] in Hs.
  destruct ov; cbn [fst].
  - eapply sm_trans; [exact Hs|sm_tac].
  - eapply sm_trans; [exact Hs|apply skip_predefined_sm].
Qed.

Lemma register_topic_sm s name : sm s (fst (register_topic cfg s name)).
Proof.
  unfold register_topic. destruct (find_registered s name); [apply sm_refl|].
  pose proof (new_topic_id_sm s) as H. destruct (new_topic_id cfg s) as [s' [i|]]; cbn [fst] in *; [|exact H].
  eapply sm_trans; [exact H|sm_tac].
Qed.

(* the other fields the handlers read afterwards *)
Lemma seq_next_now s : gw_now (fst (fst (seq_next cfg s))) = gw_now s.
Proof. unfold seq_next. cbv zeta. cbn [fst]. destruct (gw_seq_next s =? max_tid cfg); reflexivity. Qed.

Lemma skip_predefined_now fuel : forall s id, gw_now (fst (skip_predefined fuel cfg s id)) = gw_now s.
Proof.
  induction fuel as [|fuel IH]; intros s id; cbn [skip_predefined];
    destruct (get_name (predefined cfg) (gw_client_id s) id) as [n|]; try reflexivity.
  pose proof (seq_next_now s) as Hs. destruct (seq_next cfg s) as [[s' id'] ov]. cbn [fst] in Hs.
  destruct ov; [exact Hs|]. rewrite IH. exact Hs.
Qed.

Lemma new_topic_id_now s : gw_now (fst (new_topic_id cfg s)) = gw_now s.
Proof.
  unfold new_topic_id. destruct (gw_no_more_tids s); [reflexivity|].
  pose proof (seq_next_now s) as Hs. destruct (seq_next cfg s) as [[s' id'] ov]. cbn [fst] in Hs.
  destruct ov; [exact Hs|]. rewrite skip_predefined_now. exact Hs.
Qed.

Lemma register_topic_now s name : gw_now (fst (register_topic cfg s name)) = gw_now s.
Proof.
  unfold register_topic. destruct (find_registered s name); [reflexivity|].
  pose proof (new_topic_id_now s) as H. destruct (new_topic_id cfg s) as [s' [i|]]; exact H.
Qed.
End Tids.

(* ================================================================== the connect exchange *)

Lemma get_connect_spec s g mq a :
  get_connect s = Some (g, mq, a) -> gw_connect s = Some g /\ gw_objs s !! g = Some (TxConnect mq a).
Proof.
  unfold get_connect. destruct (gw_connect s) as [g'|]; [|discriminate].
  destruct (gw_objs s !! g') as [t|] eqn:E; [|discriminate]. destruct t; try discriminate.
  intros H. injection H as -> -> ->. auto.
Qed.

Lemma connect_auth_done_fw X s0 s g mq mq0 a0 :
  FW X s0 s -> gw_objs s !! g = Some (TxConnect mq0 a0) -> FWR X s0 (connect_auth_done s g mq).
Proof.
  intros H Ho. unfold connect_auth_done.
  destruct (c_will mq); [apply FWR_sn_send|apply FWR_mq_send];
    (eapply FW_step; [exact H|eapply FW_set_cx; exact Ho]).
Qed.

Lemma connect_start_fw X s0 s g mq a mq0 a0 :
  FW X s0 s -> gw_objs s !! g = Some (TxConnect mq0 a0) -> FWR X s0 (connect_start s g mq a).
Proof.
  intros H Ho. unfold connect_start. destruct a.
  - apply FWR_ok. eapply FW_step; [exact H|eapply FW_set_cx; exact Ho].
  - eapply connect_auth_done_fw; eassumption.
Qed.

Lemma finish_connect_fw X s :
  FW X s (match gw_connect s with Some g => finish_obj s g | None => s end).
Proof.
  destruct (gw_connect s) as [gc|] eqn:Ec; [|apply FW_refl].
  apply FW_finish_cx. intros HW. exact (proj2 (w_cx s HW gc Ec)).
Qed.

Lemma new_connect_fw X s mq a d :
  FW X s (arm (fst (new_obj s (TxConnect mq a)) <| gw_connect := Some (gw_next_obj s) |>)
              (TmConnect (gw_next_obj s)) d).
Proof.
  set (g := gw_next_obj s).
  eapply FW_step; [eapply FW_step; [apply (FW_new_obj X s (TxConnect mq a) I)|]|].
  - apply (FW_connect_set X0 _ g). intros _. unfold new_obj. cbn. split; [lia|].
    intros t H. rewrite lookup_insert in H. injection H as <-. exact I.
  - eapply FW_mono; [apply FW_arm|].
    + intros _ g' Hg'. cbn in Hg'. apply N.eqb_eq in Hg'. subst g'. unfold new_obj. cbn. lia.
    + intros HW i g' t Hh Hx. cbn in Hx. apply N.eqb_eq in Hx. subst g'. exfalso.
      apply (W_held_not_cx _ i g t HW Hh). destruct Hh as [_ H2]. unfold new_obj in H2. cbn in H2.
      rewrite lookup_insert in H2. injection H2 as <-. exact I.
Qed.

Lemma handle_connect_fw X cfg s0 s will clean proto dur cid :
  FW X s0 s -> FWR X s0 (handle_connect cfg s will clean proto dur cid).
Proof.
  intros H. unfold handle_connect.
  destruct (negb (proto =? 1)); [fw_auto|].
  destruct (cstate_eqb (gw_st s) Awake || cstate_eqb (gw_st s) Asleep); [fw_auto|].
  destruct (dur =? 0); [fw_auto|]. cbv zeta.
  match goal with |- context [new_obj ?S ?T] => set (S1 := S); set (T1 := T) end.
  assert (H1 : FW X s0 S1).
  { subst S1. eapply FW_step; [|apply finish_connect_fw]. fw_auto. }
  change (new_obj S1 T1) with (fst (new_obj S1 T1), gw_next_obj S1). cbv iota beta.
  eapply connect_start_fw.
  - eapply FW_step; [exact H1|]. subst T1. apply new_connect_fw.
  - unfold new_obj, arm. cbn. apply lookup_insert.
Qed.

Lemma connect_auth_fw X s0 s g mq a method data :
  FW X s0 s -> gw_connect s = Some g -> gw_objs s !! g = Some (TxConnect mq a) ->
  FWR X s0 (connect_auth s g mq a method data).
Proof.
  intros H Hc Ho. unfold connect_auth.
  assert (Hfin : forall s1, FW X s0 s1 -> sm s s1 -> FW X s0 (finish_obj s1 g)).
  { intros s1 H1 (E1 & E2 & E3 & E4 & E5). eapply FW_step; [exact H1|]. apply FW_finish_cx.
    intros _ t Ht. rewrite E2, Ho in Ht. injection Ht as <-. exact I. }
  destruct (negb (cx_state_eqb a CxAuth)); [fw_auto|].
  destruct (beq method AUTH_PLAIN).
  - destruct (decode_plain data) as [[u p]|].
    + eapply connect_auth_done_fw; [|exact Ho]. fw_auto.
    + apply FWR_stop. apply Hfin; [exact H|apply sm_refl].
  - unfold sn_send, sn_send_owned.
    destruct (gw_st s); try destruct (len (pack (Connack RC_NOT_SUPPORTED)) <=? MaxPacketLen);
      cbn [andthen ok stop]; unfold FWR; cbn [st_of fst]; try exact H;
      try (apply Hfin; [exact H|apply sm_refl]).
    all: apply Hfin; [fw_auto|sm_tac].
Qed.

(* ================================================================== no client exchange starts *)

Definition cstart (p : mq_pkt) : list N :=
  match p with MqPublish _ 1 _ _ i _ => [i] | MqSubscribe i _ _ => [i] | _ => [] end.
Definition quiet (m : mq_pkt) : Prop := cstart m = [].

Ltac q_auto :=
  repeat first
    [ apply all_mq_nil
    | apply sn_send_mq
    | apply sn_send_owned_mq
    | apply sn_send_now_mq
    | apply send_all_mq
    | apply mq_send_mq; reflexivity
    | apply andthen_mq; [|intros ?]
    | match goal with |- all_mq _ (outs_of (match ?x with _ => _ end)) => destruct x eqn:? end
    | match goal with |- all_mq _ (outs_of (if ?x then _ else _)) => destruct x eqn:? end
    | progress cbn [outs_of ok stop fst snd] ].

Lemma connect_auth_done_q s g mq : all_mq quiet (outs_of (connect_auth_done s g mq)).
Proof. unfold connect_auth_done. q_auto. Qed.

Lemma connect_start_q s g mq a : all_mq quiet (outs_of (connect_start s g mq a)).
Proof. unfold connect_start. q_auto. apply connect_auth_done_q. Qed.

Lemma handle_connect_q cfg s w c pr d cid : all_mq quiet (outs_of (handle_connect cfg s w c pr d cid)).
Proof. unfold handle_connect. q_auto; apply connect_start_q. Qed.

Lemma connect_auth_q s g mq a me da : all_mq quiet (outs_of (connect_auth s g mq a me da)).
Proof. unfold connect_auth. q_auto. apply connect_auth_done_q. Qed.

Lemma handle_unsubscribe_q cfg s tit mid tid name :
  all_mq quiet (outs_of (handle_unsubscribe cfg s tit mid tid name)).
Proof. unfold handle_unsubscribe. q_auto. Qed.

Lemma bp_proceed_q cfg s g mid qos st data snpub :
  all_mq quiet (outs_of (bp_proceed cfg s g mid qos st data snpub)).
Proof. unfold bp_proceed. destruct data as [p|k m]; [|destruct k]; destruct st; q_auto. Qed.

Lemma bp_regack_q cfg s g t rc : all_mq quiet (outs_of (bp_regack cfg s g t rc)).
Proof. unfold bp_regack. q_auto; apply bp_proceed_q. Qed.

Lemma handle_broker_publish_q cfg s dup q r t mid pl :
  all_mq quiet (outs_of (handle_broker_publish cfg s dup q r t mid pl)).
Proof.
  unfold handle_broker_publish.
  destruct (if is_short_topic t then _ else _) as [[tid tit]|]; q_auto; apply bp_proceed_q.
Qed.

Lemma handle_mq_q cfg s m : all_mq quiet (outs_of (handle_mq cfg s m)).
Proof.
  unfold handle_mq. destruct m; try (cbn; apply all_mq_nil);
    q_auto; first [apply handle_broker_publish_q | apply bp_proceed_q].
Qed.

Lemma fire_q cfg s k : all_mq quiet (outs_of (fire cfg s k)).
Proof.
  unfold fire. destruct k; q_auto.
  all: try (match goal with H : sn_send_owned ?a ?b ?c = (_, ?l, _) |- all_mq _ ?l =>
              let X := fresh in pose proof (sn_send_owned_mq quiet a b c) as X; rewrite H in X; exact X end).
  all: try (destruct k; apply mq_send_mq; reflexivity).
Qed.

(* everything but PUBLISH and SUBSCRIBE *)
Lemma handle_sn_q cfg s p :
  match p with Publish _ _ _ _ _ _ _ | Subscribe _ _ _ _ _ _ => False | _ => True end ->
  all_mq quiet (outs_of (handle_sn cfg s p)).
Proof.
  intros Hp. unfold handle_sn.
  destruct (negb (packet_legal cfg s p)); [cbn; apply all_mq_nil|].
  destruct p; try contradiction; try (cbn; apply all_mq_nil);
    q_auto; first [apply handle_connect_q | apply connect_auth_q | apply handle_unsubscribe_q
                  | apply bp_regack_q | apply bp_proceed_q ].
Qed.

(* ================================================================== what a book entry stands for *)

Definition tmrs_ge (s : gw_state) (g u : N) : Prop :=
  forall tm, In tm (gw_timers s) -> timer_of_obj g (tm_kind tm) = true -> u <= tm_at tm.

(* the slot of message ID i holds a client QoS 1 PUBLISH exchange, not timed out before u *)
Definition CP (s : gw_state) (i u : N) : Prop :=
  exists g tid, held s i g (TxClientPub1 i tid) /\ tmrs_ge s g u.
(* ... a client SUBSCRIBE exchange *)
Definition CS (s : gw_state) (i u : N) : Prop :=
  exists g tid, held s i g (TxSubscribe i tid) /\ tmrs_ge s g u.

Definition bst (q : N) : bp_state := if q =? 1 then AwaitPuback else AwaitPubrec.
Definition resend_ok (d : resend_data) : Prop :=
  match d with RsSn p => len (pack (set_dup p)) <= MaxPacketLen | RsAck _ _ => True end.
(* ... a broker PUBLISH exchange of QoS q awaiting the client's PUBACK / PUBREC, whose retransmissions
   do not give up before u *)
Definition BP (cfg : gw_cfg) (s : gw_state) (i q u : N) : Prop :=
  exists g d sp n sq T, held s i g (TxBrokerPub i q (bst q) d sp n) /\ resend_ok d /\
    (forall tm, In tm (gw_timers s) -> timer_of_obj g (tm_kind tm) = true ->
                tm_seq tm = sq /\ tm_at tm = T /\ tm_kind tm = TmRetry g) /\
    u <= T + (retry_count cfg - n) * retry_delay cfg.

Lemma CP_FR X s s' i u :
  FR X s s' -> CP s i u -> (forall g, gw_by_id s !! i = Some g -> ~ X i g) -> CP s' i u.
Proof.
  intros HF (g & tid & Hh & Ht) Hx. destruct (HF i g _ Hh (Hx g (proj1 Hh))) as [Hh' Hin].
  exists g, tid. split; [exact Hh'|]. intros tm Htm Hof. apply Ht; [apply Hin; assumption|exact Hof].
Qed.

Lemma CS_FR X s s' i u :
  FR X s s' -> CS s i u -> (forall g, gw_by_id s !! i = Some g -> ~ X i g) -> CS s' i u.
Proof.
  intros HF (g & tid & Hh & Ht) Hx. destruct (HF i g _ Hh (Hx g (proj1 Hh))) as [Hh' Hin].
  exists g, tid. split; [exact Hh'|]. intros tm Htm Hof. apply Ht; [apply Hin; assumption|exact Hof].
Qed.

Lemma BP_FR X cfg s s' i q u :
  FR X s s' -> BP cfg s i q u -> (forall g, gw_by_id s !! i = Some g -> ~ X i g) -> BP cfg s' i q u.
Proof.
  intros HF (g & d & sp & n & sq & T & Hh & Hd & Ht & Hu) Hx.
  destruct (HF i g _ Hh (Hx g (proj1 Hh))) as [Hh' Hin].
  exists g, d, sp, n, sq, T. split; [exact Hh'|split; [exact Hd|split; [|exact Hu]]].
  intros tm Htm Hof. apply Ht; [apply Hin; assumption|exact Hof].
Qed.

Lemma get_by_id_held s mid g t : get_by_id s mid = Some (g, t) -> held s mid g t.
Proof.
  unfold get_by_id, held. destruct (gw_by_id s !! mid) as [g'|]; [|discriminate].
  destruct (gw_objs s !! g') as [t'|] eqn:E; [|discriminate]. intros H. injection H as -> ->. auto.
Qed.

Lemma held_get_by_id s mid g t : held s mid g t -> get_by_id s mid = Some (g, t).
Proof. intros [H1 H2]. unfold get_by_id. rewrite H1, H2. reflexivity. Qed.

(* ================================================================== new client exchanges *)

(* what handleClientPublish (QoS 1) and handleSubscribe do to the store *)
Definition new_timed (cfg : gw_cfg) (s : gw_state) (t : txn) (mid : N) : gw_state :=
  arm (fst (new_obj s t) <| gw_by_id := <[mid := gw_next_obj s]> (gw_by_id (fst (new_obj s t))) |>)
      (TmTimed (gw_next_obj s)) (retry_delay cfg).

Lemma new_timed_fw cfg s t mid : okB t -> mid_of t = Some mid -> FW (Xslot mid) s (new_timed cfg s t mid).
Proof.
  intros Hok Hm. unfold new_timed.
  set (s1 := fst (new_obj s t)).
  apply (FW_trans _ _ (s1 <| gw_by_id := <[mid := gw_next_obj s]> (gw_by_id s1) |>));
    [apply (FW_trans _ _ s1); [apply (FW_new_obj (Xslot mid) s t Hok)|]|]; subst s1.
  - apply FW_slot_insert. intros _. unfold new_obj. cbn. split; [lia|].
    intros t' H. rewrite lookup_insert in H. injection H as <-. exact Hm.
  - eapply FW_mono; [apply FW_arm|].
    + intros _ g Hg. cbn in Hg. apply N.eqb_eq in Hg. subst g. unfold new_obj. cbn. lia.
    + intros HW i g t' [H1 H2] Hx. cbn in Hx. apply N.eqb_eq in Hx. subst g.
      destruct (w_slot _ HW i _ H1) as [_ Hs]. specialize (Hs t' H2).
      unfold new_obj in H2. cbn in H2. rewrite lookup_insert in H2. injection H2 as <-.
      unfold Xslot. congruence.
Qed.

Lemma new_timed_held cfg s t mid :
  W s -> held (new_timed cfg s t mid) mid (gw_next_obj s) t /\
         tmrs_ge (new_timed cfg s t mid) (gw_next_obj s) (gw_now s + retry_delay cfg).
Proof.
  intros HW. unfold new_timed, new_obj, held, tmrs_ge. cbn. split.
  - split; apply lookup_insert.
  - intros tm Hin Hof. apply in_app_or in Hin. destruct Hin as [Hin|[<-|[]]]; [|cbn; lia].
    pose proof (w_tm s HW tm _ Hin Hof). lia.
Qed.

Lemma handle_client_publish_spec cfg s dup qos retain tit tid mid data :
  tid < 65536 ->
  (FWR X0 s (handle_client_publish cfg s dup qos retain tit tid mid data) /\
   all_mq quiet (outs_of (handle_client_publish cfg s dup qos retain tit tid mid data))) \/
  (FWR (Xslot mid) s (handle_client_publish cfg s dup qos retain tit tid mid data) /\
   (W s -> CP (st_of (handle_client_publish cfg s dup qos retain tit tid mid data)) mid
              (gw_now s + retry_delay cfg)) /\
   exists topic, outs_of (handle_client_publish cfg s dup qos retain tit tid mid data) =
                 [OutMq (gw_now s) (MqPublish dup 1 retain topic mid data)]).
Proof.
  intros Htid. unfold handle_client_publish.
  destruct (resolve_client_topic cfg s tit tid) as [topic|]; [|left; split; [apply FW_refl|apply all_mq_nil]].
  destruct (has_wildcard topic || ((qos =? 1) || (qos =? 2)) && (mid =? 0));
    [left; split; [apply FW_refl|apply all_mq_nil]|].
  destruct (N.eqb_spec qos 1) as [->|Hq].
  - right. change (new_obj s (TxClientPub1 mid tid)) with (fst (new_obj s (TxClientPub1 mid tid)), gw_next_obj s).
    cbv iota beta. fold (new_timed cfg s (TxClientPub1 mid tid) mid).
    unfold FWR, mq_send, ok, st_of, outs_of. cbn [fst snd]. split; [|split].
    + apply new_timed_fw; [exact Htid|reflexivity].
    + intros HW. destruct (new_timed_held cfg s (TxClientPub1 mid tid) mid HW) as [A B].
      exists (gw_next_obj s), tid. split; assumption.
    + exists topic. reflexivity.
  - left. split; [apply FW_refl|]. cbn. apply all_mq_one. unfold quiet.
    destruct (qos =? 3); [reflexivity|]. cbn. destruct qos as [|[p|p|]]; try reflexivity. contradiction.
Qed.

Definition sub_go (cfg : gw_cfg) (s : gw_state) (mid qos : N) (topic : bytes) (topic_id : N) : R :=
  match new_obj s (TxSubscribe mid topic_id) with
  | (s, g) =>
    let s := arm (s <| gw_by_id := <[mid := g]> (gw_by_id s) |>) (TmTimed g) (retry_delay cfg) in
    mq_send s (MqSubscribe mid false [(topic, qos)])
  end.

Lemma sub_go_spec cfg s0 s mid qos topic topic_id :
  sm s0 s -> gw_now s = gw_now s0 ->
  FWR (Xslot mid) s0 (sub_go cfg s mid qos topic topic_id) /\
  (W s0 -> CS (st_of (sub_go cfg s mid qos topic topic_id)) mid (gw_now s0 + retry_delay cfg)) /\
  outs_of (sub_go cfg s mid qos topic topic_id) = [OutMq (gw_now s0) (MqSubscribe mid false [(topic, qos)])].
Proof.
  intros Hsm Hnow. unfold sub_go.
  change (new_obj s (TxSubscribe mid topic_id)) with (fst (new_obj s (TxSubscribe mid topic_id)), gw_next_obj s).
  cbv iota beta zeta. fold (new_timed cfg s (TxSubscribe mid topic_id) mid).
  unfold FWR, mq_send, ok, st_of, outs_of. cbn [fst snd]. split; [|split].
  - eapply FW_trans; [apply FW_sm, Hsm|]. apply new_timed_fw; [exact I|reflexivity].
  - intros HW. assert (HWs : W s) by (eapply W_sm; eassumption).
    destruct (new_timed_held cfg s (TxSubscribe mid topic_id) mid HWs) as [A B].
    exists (gw_next_obj s), topic_id. rewrite <- Hnow. split; assumption.
  - unfold new_timed, arm. cbn. rewrite Hnow. reflexivity.
Qed.

Lemma handle_subscribe_spec cfg s dup qos tit mid tid name :
  (FWR X0 s (handle_subscribe cfg s dup qos tit mid tid name) /\
   all_mq quiet (outs_of (handle_subscribe cfg s dup qos tit mid tid name))) \/
  (FWR (Xslot mid) s (handle_subscribe cfg s dup qos tit mid tid name) /\
   (W s -> CS (st_of (handle_subscribe cfg s dup qos tit mid tid name)) mid (gw_now s + retry_delay cfg)) /\
   exists topic, outs_of (handle_subscribe cfg s dup qos tit mid tid name) =
                 [OutMq (gw_now s) (MqSubscribe mid false [(topic, qos)])]).
Proof.
  unfold handle_subscribe. cbv zeta.
  destruct ((2 <? qos) || (mid =? 0)); [left; split; [apply FW_refl|apply all_mq_nil]|].
  assert (Hgo : forall s1 topic topic_id, sm s s1 -> gw_now s1 = gw_now s ->
            FWR (Xslot mid) s (sub_go cfg s1 mid qos topic topic_id) /\
            (W s -> CS (st_of (sub_go cfg s1 mid qos topic topic_id)) mid (gw_now s + retry_delay cfg)) /\
            exists topic', outs_of (sub_go cfg s1 mid qos topic topic_id) =
                           [OutMq (gw_now s) (MqSubscribe mid false [(topic', qos)])]).
  { intros s1 topic topic_id H1 H2. destruct (sub_go_spec cfg s s1 mid qos topic topic_id H1 H2) as (A & B & C).
    split; [exact A|]. split; [exact B|]. eexists; exact C. }
  destruct (tit =? TIT_STRING).
  - destruct (negb (has_wildcard name)).
    + pose proof (register_topic_sm cfg s name) as Hsm. pose proof (register_topic_now cfg s name) as Hnow.
      destruct (register_topic cfg s name) as [s1 [i|]]; cbn [fst] in Hsm, Hnow.
      * right. apply (Hgo s1 name i Hsm Hnow).
      * left. split; [apply FWR_sn_send, FW_sm, Hsm|apply sn_send_mq].
    + right. apply (Hgo s name 0 (sm_refl s) eq_refl).
  - destruct (tit =? TIT_PREDEFINED).
    + destruct (get_name (predefined cfg) (gw_client_id s) tid) as [topic|];
        [|left; split; [apply FW_refl|apply all_mq_nil]].
      right. apply (Hgo s topic tid (sm_refl s) eq_refl).
    + destruct (tit =? TIT_SHORT); right; apply (Hgo s _ 0 (sm_refl s) eq_refl).
Qed.

(* ================================================================== broker PUBLISH exchanges proceed *)

Lemma bp_proceed_fw cfg s g mid qos st0 d0 snpub n0 st data :
  gw_objs s !! g = Some (TxBrokerPub mid qos st0 d0 snpub n0) ->
  FWR (Xobj g) s (bp_proceed cfg s g mid qos st data snpub).
Proof.
  intros Ho. unfold bp_proceed. cbv zeta.
  set (s1 := set_obj s g (TxBrokerPub mid qos st data snpub 0)).
  assert (H1 : FW (Xobj g) s s1).
  { apply FW_set_obj. intros HW. split; [eapply w_obj; eassumption|]. split; [|split].
    - exact (w_ok s HW g _ Ho).
    - intros i Hi. exact (proj2 (w_slot s HW i g Hi) _ Ho).
    - intros Hc. exact (proj2 (w_cx s HW g Hc) _ Ho). }
  set (s2 := arm (disarm_obj s1 g) (TmRetry g) (retry_delay cfg)).
  assert (H2 : FW (Xobj g) s s2).
  { eapply FW_trans; [eapply FW_trans; [exact H1|apply FW_disarm_obj]|].
    eapply FW_mono; [apply FW_arm|].
    - intros HW g' Hg'. cbn in Hg'. apply N.eqb_eq in Hg'. subst g'.
      apply (w_obj _ HW g (TxBrokerPub mid qos st data snpub 0)). cbn. apply lookup_insert.
    - intros _ i g' t _ Hx. cbn in Hx. apply N.eqb_eq in Hx. exact Hx. }
  assert (Hr : FWR (Xobj g) s (match data with
                               | RsSn p => sn_send_owned s2 (Some g) p
                               | RsAck k m => mq_send s2 (mq_ack k m) end)).
  { destruct data; [apply FWR_sn_send_owned|apply FWR_mq_send]; exact H2. }
  destruct st; try exact Hr.
  apply FWR_andthen; [exact Hr|]. intros s3 H3. apply FWR_ok.
  eapply FW_trans; [exact H3|apply FW_finish_obj].
Qed.

(* a first transmission: the exchange now awaits the client's acknowledgement *)
Lemma bp_proceed_BP cfg s g mid qos pub snpub :
  gw_by_id s !! mid = Some g -> len (pack (set_dup pub)) <= MaxPacketLen ->
  BP cfg (st_of (bp_proceed cfg s g mid qos (bst qos) (RsSn pub) snpub)) mid qos
     (gw_now s + (retry_count cfg + 1) * retry_delay cfg).
Proof.
  intros Hs Hlen. unfold bp_proceed. cbv zeta.
  set (s2 := arm (disarm_obj (set_obj s g (TxBrokerPub mid qos (bst qos) (RsSn pub) snpub 0)) g) (TmRetry g) (retry_delay cfg)).
  assert (HB : forall S, gw_by_id S = gw_by_id s2 -> gw_objs S = gw_objs s2 -> gw_timers S = gw_timers s2 ->
            BP cfg S mid qos (gw_now s + (retry_count cfg + 1) * retry_delay cfg)).
  { intros S E1 E2 E3. exists g, (RsSn pub), snpub, 0, (gw_next_seq s), (gw_now s + retry_delay cfg).
    split; [|split; [exact Hlen|split]].
    - split; [rewrite E1; exact Hs|rewrite E2; cbn; apply lookup_insert].
    - intros tm Hin Hof. rewrite E3 in Hin. cbn in Hin. apply in_app_or in Hin. destruct Hin as [Hin|[<-|[]]].
      + apply filter_In in Hin. destruct Hin as [_ Hn]. rewrite Hof in Hn. discriminate Hn.
      + cbn. auto.
    - lia. }
  assert (Hsend : BP cfg (st_of (sn_send_owned s2 (Some g) pub)) mid qos (gw_now s + (retry_count cfg + 1) * retry_delay cfg)).
  { unfold sn_send_owned, st_of, ok, stop.
    destruct (gw_st s2); try destruct (len (pack pub) <=? MaxPacketLen); cbn [fst]; apply HB; reflexivity. }
  unfold bst in *. destruct (qos =? 1); exact Hsend.
Qed.

Lemma bp_proceed_outs cfg s g mid qos st pub snpub :
  st <> BpDone ->
  outs_of (bp_proceed cfg s g mid qos st (RsSn pub) snpub) = [] \/
  (outs_of (bp_proceed cfg s g mid qos st (RsSn pub) snpub) = [OutSn (gw_now s) (pack pub)] /\
   len (pack pub) <= MaxPacketLen).
Proof.
  intros Hst. unfold bp_proceed. cbv zeta.
  match goal with |- context [sn_send_owned ?S ?o ?p] => set (s2 := S) end.
  assert (H : outs_of (sn_send_owned s2 (Some g) pub) = [] \/
              (outs_of (sn_send_owned s2 (Some g) pub) = [OutSn (gw_now s) (pack pub)] /\ len (pack pub) <= MaxPacketLen)).
  { unfold sn_send_owned. destruct (gw_st s2); try (left; reflexivity);
      (destruct (len (pack pub) <=? MaxPacketLen) eqn:E; [right; split; [reflexivity|apply N.leb_le, E]|left; reflexivity]). }
  destruct st; try exact H. contradiction.
Qed.

(* the PUBLISH with DUP set has the size of the original *)
Lemma pack_set_dup_len p : len (pack (set_dup p)) = len (pack p).
Proof.
  destruct p; try reflexivity; cbn [set_dup pack]; rewrite !len_app; reflexivity.
Qed.

Lemma set_dup_idem p : set_dup (set_dup p) = set_dup p.
Proof. destruct p; reflexivity. Qed.

(* ================================================================== handle_sn: the plain cases *)

Definition sn_plain (p : packet) : Prop :=
  match p with
  | Publish _ _ _ _ _ _ _ | Subscribe _ _ _ _ _ _ | Regack _ _ _ | Puback _ _ _ | Pubrec _ | Pubcomp _ => False
  | _ => True
  end.

Lemma handle_sn_plain_fw cfg s p : sn_plain p -> FWR X0 s (handle_sn cfg s p).
Proof.
  intros Hp. unfold handle_sn.
  destruct (negb (packet_legal cfg s p)); [apply FW_refl|].
  pose proof (FW_refl X0 s) as H0.
  destruct p; try contradiction; try apply FW_refl.
  - (* Auth *)
    destruct (get_connect s) as [[[g mq] a]|] eqn:Eg; [|apply FW_refl].
    apply get_connect_spec in Eg. destruct Eg as [Ec Eo]. eapply connect_auth_fw; eassumption.
  - (* Connect *) apply handle_connect_fw, H0.
  - (* WillTopic *)
    destruct (get_connect s) as [[[g mq] a]|] eqn:Eg; [|apply FW_refl].
    apply get_connect_spec in Eg. destruct Eg as [Ec Eo].
    destruct (negb (cx_state_eqb a CxWillTopic)); [apply FW_refl|].
    destruct ((len topic =? 0) || (2 <? qos)).
    + apply FWR_stop. apply FW_finish_cx. intros _ t Ht. rewrite Eo in Ht. injection Ht as <-. exact I.
    + apply FWR_sn_send. eapply FW_set_cx. exact Eo.
  - (* WillMsg *)
    destruct (get_connect s) as [[[g mq] a]|] eqn:Eg; [|apply FW_refl].
    apply get_connect_spec in Eg. destruct Eg as [Ec Eo].
    destruct (negb (cx_state_eqb a CxWillMsg)); [apply FW_refl|].
    apply FWR_mq_send. eapply FW_set_cx. exact Eo.
  - (* Register *)
    pose proof (register_topic_sm cfg s name) as Hsm.
    destruct (register_topic cfg s name) as [s1 [i|]]; cbn [fst] in Hsm; apply FWR_sn_send.
    + eapply FW_step; [apply FW_sm, Hsm|]. apply FW_sm. unfold note_handed. sm_tac.
    + apply FW_sm, Hsm.
  - (* Pubrel *) fw_auto.
  - (* Unsubscribe *) unfold handle_unsubscribe. fw_auto.
  - (* Pingreq *) fw_auto.
  - (* Disconnect *)
    destruct (dur =? 0); [fw_auto|]. cbv zeta.
    apply FWR_andthen; [|intros s1 H1; fw_auto].
    apply FWR_sn_send_now. fw_peel.
    destruct (negb (gw_keepalive s =? 0) && (gw_keepalive s <? dur)); [|exact H0].
    eapply FW_step; [eapply FW_step; [apply FW_next_obj|apply FW_arm_ping]|apply FW_arm_pingc].
Qed.

(* ================================================================== handle_sn: the client's acknowledgements *)

Definition sn_ack_mid (p : packet) : option N :=
  match p with Regack _ m _ | Puback _ m _ | Pubrec m | Pubcomp m => Some m | _ => None end.
Definition sn_ack_st (p : packet) (q : N) (st : bp_state) : Prop :=
  match p with
  | Regack _ _ _ => st = AwaitRegack
  | Puback _ _ _ => st = AwaitPuback /\ q = 1
  | Pubrec _ => st = AwaitPubrec /\ q = 2
  | Pubcomp _ => st = AwaitPubcomp
  | _ => False
  end.

Lemma bp_regack_fw cfg s g mid qos st d sp n rc :
  gw_objs s !! g = Some (TxBrokerPub mid qos st d sp n) ->
  FWR X0 s (bp_regack cfg s g (TxBrokerPub mid qos st d sp n) rc) \/
  (st = AwaitRegack /\ FWR (Xobj g) s (bp_regack cfg s g (TxBrokerPub mid qos st d sp n) rc)).
Proof.
  intros Ho. unfold bp_regack.
  destruct st; try (left; apply FW_refl).
  destruct d as [p|k m]; [|left; apply FW_refl]. destruct p; try (left; apply FW_refl).
  destruct sp as [pub|]; [|left; apply FW_refl].
  right. split; [reflexivity|].
  destruct (negb (rc =? RC_ACCEPTED)); [apply FWR_ok, FW_finish_obj|]. cbv zeta.
  set (s1 := s <| gw_registered := <[tid := name]> (gw_registered s) |>).
  assert (H1 : FW (Xobj g) s s1) by (apply FW_sm; sm_tac).
  unfold FWR. eapply FW_trans; [exact H1|].
  eapply (bp_proceed_fw cfg s1 g mid qos). exact Ho.
Qed.

Lemma handle_sn_ack_fw cfg s p mid :
  sn_ack_mid p = Some mid ->
  FWR X0 s (handle_sn cfg s p) \/
  exists g m q st d sp n, get_by_id s mid = Some (g, TxBrokerPub m q st d sp n) /\
    sn_ack_st p q st /\ FWR (Xobj g) s (handle_sn cfg s p).
Proof.
  intros Hm. unfold handle_sn.
  destruct (negb (packet_legal cfg s p)); [left; apply FW_refl|].
  destruct p; try discriminate Hm; cbn [sn_ack_mid] in Hm; injection Hm as ->.
  - (* Regack *)
    destruct (get_by_id s mid) as [[g t]|] eqn:Eg; [|left; apply FW_refl].
    destruct t as [mq a|m0 tid0|m0 tid0|m q st d sp n]; try (left; apply FW_refl).
    pose proof (get_by_id_held _ _ _ _ Eg) as [_ Ho].
    destruct (bp_regack_fw cfg s g m q st d sp n rc Ho) as [H|[Hst H]]; [left; exact H|].
    right. exists g, m, q, st, d, sp, n. split; [reflexivity|]. split; [exact Hst|exact H].
  - (* Puback *)
    destruct (get_by_id s mid) as [[g t]|] eqn:Eg; [|left; apply FW_refl].
    destruct t as [mq a|m0 tid0|m0 tid0|m q st d sp n]; try (left; apply FW_refl).
    destruct q as [|[[|[]|]|[]|]]; try (left; apply FW_refl).
    pose proof (get_by_id_held _ _ _ _ Eg) as [_ Ho].
    destruct st; cbn [bp_state_eqb negb]; try (left; apply FW_refl).
    right. exists g, m, 1, AwaitPuback, d, sp, n. split; [reflexivity|]. split; [split; reflexivity|].
    destruct (negb (rc =? RC_ACCEPTED)); [apply FWR_ok, FW_finish_obj|].
    eapply bp_proceed_fw. exact Ho.
  - (* Pubcomp *)
    destruct (get_by_id s mid) as [[g t]|] eqn:Eg; [|left; apply FW_refl].
    destruct t as [mq a|m0 tid0|m0 tid0|m q st d sp n]; try (left; apply FW_refl).
    destruct q as [|[[|[]|]|[]|]]; try (left; apply FW_refl).
    pose proof (get_by_id_held _ _ _ _ Eg) as [_ Ho].
    destruct st; cbn [bp_state_eqb negb]; try (left; apply FW_refl).
    right. exists g, m, 2, AwaitPubcomp, d, sp, n. split; [reflexivity|]. split; [reflexivity|].
    eapply bp_proceed_fw. exact Ho.
  - (* Pubrec *)
    destruct (get_by_id s mid) as [[g t]|] eqn:Eg; [|left; apply FW_refl].
    destruct t as [mq a|m0 tid0|m0 tid0|m q st d sp n]; try (left; apply FW_refl).
    destruct q as [|[[|[]|]|[]|]]; try (left; apply FW_refl).
    pose proof (get_by_id_held _ _ _ _ Eg) as [_ Ho].
    destruct st; cbn [bp_state_eqb negb]; try (left; apply FW_refl).
    right. exists g, m, 2, AwaitPubrec, d, sp, n. split; [reflexivity|]. split; [split; reflexivity|].
    eapply bp_proceed_fw. exact Ho.
Qed.

(* ================================================================== observed packets *)

Lemma cstart_wire m : cstart (wire m) = cstart m.
Proof.
  destruct m; try reflexivity. cbn [wire cstart].
  destruct (N.eqb_spec qos 0) as [->|Hq]; reflexivity.
Qed.

Lemma quiet_MQ os m : all_mq quiet os -> In m (MQ os) -> cstart m = [].
Proof.
  intros Hq Hin. apply in_mqs_obs_of_outs in Hin. destruct Hin as (t & m0 & Hin & ->).
  rewrite cstart_wire. exact (Hq t m0 Hin).
Qed.

Lemma quiet_MQ_bind os : all_mq quiet os -> forall i, ~ In i (MQ os ≫= cstart).
Proof.
  intros Hq i Hin. apply elem_of_list_In, elem_of_list_bind in Hin. destruct Hin as (m & Hi & Hm).
  apply elem_of_list_In in Hm. rewrite (quiet_MQ os m Hq Hm) in Hi. inversion Hi.
Qed.

Lemma find_free_mid_spec fuel : forall (m : Nmap N) i j, find_free_mid fuel m i = Some j -> m !! j = None.
Proof.
  induction fuel as [|fuel IH]; intros m i j; cbn [find_free_mid]; destruct (m !! i) eqn:E.
  - discriminate.
  - intros H. injection H as <-. exact E.
  - destruct (i <=? MinPacketID); [discriminate|]. apply IH.
  - intros H. injection H as <-. exact E.
Qed.

(* ================================================================== handle_mq *)

Definition mq_ack_mid (m : mq_pkt) : option N :=
  match m with MqPuback i | MqSuback i _ | MqPubrel i => Some i | _ => None end.
Definition mq_ack_txn (m : mq_pkt) (t : txn) : Prop :=
  match m, t with
  | MqPuback _, TxClientPub1 _ _ => True
  | MqSuback _ _, TxSubscribe _ _ => True
  | MqPubrel _, TxBrokerPub _ _ st _ _ _ => st = AwaitPubrel
  | _, _ => False
  end.

Lemma handle_mq_fw cfg s m :
  match m with MqPublish _ _ _ _ _ _ => False | _ => True end ->
  FWR X0 s (handle_mq cfg s m) \/
  exists mid g t, mq_ack_mid m = Some mid /\ get_by_id s mid = Some (g, t) /\ mq_ack_txn m t /\
                  FWR (Xobj g) s (handle_mq cfg s m).
Proof.
  intros Hm. unfold handle_mq. pose proof (FW_refl X0 s) as H0.
  destruct m; try contradiction; try (left; apply FW_refl).
  - (* Connack *)
    left. destruct (get_connect s) as [[[g mq] a]|] eqn:Eg; [|apply FW_refl].
    apply get_connect_spec in Eg. destruct Eg as [Ec Eo].
    assert (Hfin : forall s1, FW X0 s s1 -> gw_objs s1 = gw_objs s -> FWR X0 s (ok (finish_obj s1 g) [])).
    { intros s1 H1 E. apply FWR_ok. eapply FW_step; [exact H1|]. apply FW_finish_cx.
      intros _ t Ht. rewrite E, Eo in Ht. injection Ht as <-. exact I. }
    assert (Hfin2 : forall s1, FW X0 s s1 -> gw_objs s1 = gw_objs s -> FWR X0 s (stop (finish_obj s1 g) [] EcConnectFailed)).
    { intros s1 H1 E. apply (Hfin s1 H1 E). }
    destruct (negb (cx_state_eqb a CxConnack)); [apply FW_refl|].
    destruct (negb (rc =? 0)).
    + unfold sn_send, sn_send_owned.
      destruct (gw_st s); try destruct (len (pack (Connack RC_CONGESTION)) <=? MaxPacketLen);
        cbn [andthen ok stop]; try (apply Hfin2; [exact H0|reflexivity]); try apply FW_refl.
      all: apply Hfin2; [fw_auto|reflexivity].
    + unfold sn_send, sn_send_owned. cbn [gw_st set].
      match goal with |- context [len (pack ?p) <=? MaxPacketLen] => destruct (len (pack p) <=? MaxPacketLen) end;
        cbn [andthen ok stop]; try (apply Hfin; [fw_auto|reflexivity]).
      apply FWR_stop. fw_auto.
  - (* Puback *)
    destruct (get_by_id s mid) as [[g t]|] eqn:Eg; [|left; apply FW_refl].
    destruct t as [mq a|m0 tid0|m0 tid0|m0 q st d sp n]; try (left; apply FW_refl).
    right. exists mid, g, (TxClientPub1 m0 tid0). split; [reflexivity|]. split; [exact Eg|]. split; [exact I|].
    apply FWR_sn_send, FW_finish_obj.
  - (* Pubrec *) left. fw_auto.
  - (* Pubrel *)
    destruct (get_by_id s mid) as [[g t]|] eqn:Eg; [|left; apply FW_refl].
    destruct t as [mq a|m0 tid0|m0 tid0|m0 q st d sp n]; try (left; apply FW_refl).
    destruct q as [|[[|[]|]|[]|]]; try (left; apply FW_refl).
    pose proof (get_by_id_held _ _ _ _ Eg) as [_ Ho].
    destruct st; cbn [bp_state_eqb negb]; try (left; apply FW_refl).
    right. exists mid, g, (TxBrokerPub m0 2 AwaitPubrel d sp n).
    split; [reflexivity|]. split; [exact Eg|]. split; [reflexivity|].
    eapply bp_proceed_fw. exact Ho.
  - (* Pubcomp *) left. fw_auto.
  - (* Suback *)
    destruct (get_by_id s mid) as [[g t]|] eqn:Eg; [|left; apply FW_refl].
    destruct t as [mq a|m0 tid0|m0 tid0|m0 q st d sp n]; try (left; apply FW_refl).
    right. exists mid, g, (TxSubscribe m0 tid0). split; [reflexivity|]. split; [exact Eg|]. split; [exact I|].
    pose proof (FW_finish_obj s g) as Hf.
    destruct codes as [|c [|c2 codes]]; [apply FWR_stop, Hf| |apply FWR_stop, Hf].
    cbv zeta. destruct (c <=? 2); apply FWR_sn_send; [|exact Hf].
    destruct (gw_registered (finish_obj s g) !! tid0); [|exact Hf].
    eapply FW_step; [exact Hf|]. apply FW_sm. unfold note_handed. sm_tac.
  - (* Unsuback *) left. fw_auto.
  - (* Pingresp *) left. fw_auto.
Qed.

(* ================================================================== the broker's PUBLISH *)

Lemma SN_nil_one_err t dg : (forall p, read_dgram dg <> Ok p) -> SN [OutSn t dg] = [].
Proof. intros H. rewrite SN_cons_sn. destruct (read_dgram dg) as [p| |]; [exfalso; eapply H; reflexivity|reflexivity..]. Qed.

Lemma SN_register t i mid topic :
  len (pack (Register i mid topic)) <= MaxPacketLen ->
  forall p, In p (SN [OutSn t (pack (Register i mid topic))]) -> exists a b c, p = Register a b c.
Proof.
  intros Hlen p Hin. rewrite SN_cons_sn in Hin. destruct topic as [|x nm].
  - rewrite read_register_empty in Hin. destruct Hin.
  - rewrite (read_register_ok i mid x nm Hlen) in Hin. cbn in Hin. destruct Hin as [<-|[]]. eauto.
Qed.

Lemma SN_publish t dup q r tit ti mi d :
  len (pack (Publish dup q r tit ti mi d)) <= MaxPacketLen ->
  SN [OutSn t (pack (Publish dup q r tit ti mi d))] =
  [Publish dup (q mod 4) r (tit mod 4) (ti mod 65536) (mi mod 65536) d].
Proof. intros Hlen. rewrite SN_cons_sn, (read_publish dup q r tit ti mi d Hlen). reflexivity. Qed.

Definition Xpub (mid0 qos : N) : N -> N -> Prop := fun i _ => i = mid0 /\ (qos = 1 \/ qos = 2).

Lemma handle_broker_publish_spec cfg s dup qos retain topic mid0 payload :
  qos < 4 -> mid0 < 65536 ->
  FWR (Xpub mid0 qos) s (handle_broker_publish cfg s dup qos retain topic mid0 payload) /\
  forall dup' q r' tit tid i pl,
    In (Publish dup' q r' tit tid i pl) (SN (outs_of (handle_broker_publish cfg s dup qos retain topic mid0 payload))) ->
    q = 1 \/ q = 2 ->
    BP cfg (st_of (handle_broker_publish cfg s dup qos retain topic mid0 payload)) i q
       (gw_now s + (retry_count cfg + 1) * retry_delay cfg).
Proof.
  intros Hq Hmid. unfold handle_broker_publish.
  destruct (if is_short_topic topic then _ else _) as [[tid tit]|]; cbv beta iota zeta.
  - (* a known topic *)
    cbn [negb]. rewrite andb_true_r.
    destruct (N.eqb_spec qos 0) as [->|Hq0].
    + split; [apply FWR_sn_send, FW_refl|].
      intros dup' q r' tit' tid' i pl Hin Hq12. exfalso.
      unfold sn_send, sn_send_owned in Hin.
      destruct (gw_st s); try (cbn in Hin; contradiction);
        (destruct (len (pack (Publish dup 0 retain tit tid mid0 payload)) <=? MaxPacketLen) eqn:El;
         [|cbn in Hin; contradiction]);
        cbn [outs_of ok fst snd] in Hin; apply N.leb_le in El; rewrite (SN_publish _ _ _ _ _ _ _ _ El) in Hin;
        destruct Hin as [Hin|[]]; injection Hin as _ <- _ _ _ _ _; cbn in Hq12; lia.
    + destruct (2 <? qos) eqn:Hq2; [split; [apply FW_refl|intros ? ? ? ? ? ? ? []]|]. apply N.ltb_ge in Hq2.
      assert (Hq12 : qos = 1 \/ qos = 2) by lia.
      set (pub := Publish dup qos retain tit tid mid0 payload).
      set (st := if qos =? 1 then AwaitPuback else AwaitPubrec).
      set (t0 := TxBrokerPub mid0 qos st (RsSn pub) None 0).
      change (new_obj s t0) with (fst (new_obj s t0), gw_next_obj s). cbv beta iota zeta.
      set (g := gw_next_obj s).
      set (sa := fst (new_obj s t0) <| gw_by_id := <[mid0 := g]> (gw_by_id (fst (new_obj s t0))) |>).
      assert (Hobj : gw_objs sa !! g = Some t0) by (subst sa g; unfold new_obj; cbn; apply lookup_insert).
      assert (Hslot : gw_by_id sa !! mid0 = Some g) by (subst sa; cbn; apply lookup_insert).
      assert (Ha : FW (Xslot mid0) s sa).
      { subst sa. eapply FW_trans; [apply (FW_new_obj (Xslot mid0) s t0 I)|].
        apply FW_slot_insert. intros _. unfold new_obj. cbn. split; [subst g; lia|].
        intros t' H. subst g. rewrite lookup_insert in H. injection H as <-. reflexivity. }
      split.
      * unfold FWR. eapply FW_mono.
        -- eapply FW_trans; [exact Ha|]. eapply FW_mono; [apply (bp_proceed_fw cfg sa g mid0 qos st (RsSn pub) None 0); exact Hobj|].
           intros HW i g' t [H1 H2] Hx. unfold Xobj in Hx. subst g'. unfold Xslot.
           pose proof (proj2 (w_slot sa HW i g H1) _ Hobj) as Hm. cbn in Hm. congruence.
        -- intros _ i g' t _ Hx. unfold Xslot in Hx. split; assumption.
      * intros dup' q r' tit' tid' i pl Hin Hq'.
        assert (Hst : st <> BpDone) by (subst st; destruct (qos =? 1); discriminate).
        destruct (bp_proceed_outs cfg sa g mid0 qos st pub None Hst) as [E|[E El]]; rewrite E in Hin; [destruct Hin|].
        subst pub. rewrite (SN_publish _ _ _ _ _ _ _ _ El) in Hin. destruct Hin as [Hin|[]].
        injection Hin as _ <- _ _ _ <- _.
        rewrite (N.mod_small qos 4 Hq), (N.mod_small mid0 65536 Hmid).
        change (gw_now s) with (gw_now sa). subst st. fold (bst qos).
        apply bp_proceed_BP; [exact Hslot|]. rewrite pack_set_dup_len. exact El.
  - (* a new topic name *)
    cbn [negb]. rewrite andb_false_r.
    destruct (if qos =? 0 then _ else _) as [mid|] eqn:Emid; [|split; [apply FW_refl|intros ? ? ? ? ? ? ? []]].
    destruct (2 <? qos) eqn:Hq2; [split; [apply FW_refl|intros ? ? ? ? ? ? ? []]|]. apply N.ltb_ge in Hq2.
    pose proof (new_topic_id_sm cfg s) as Hsm. pose proof (new_topic_id_now cfg s) as Hnow.
    destruct (new_topic_id cfg s) as [s1 [i|]]; cbn [fst] in Hsm, Hnow;
      [|split; [apply FWR_stop, FW_sm, Hsm|intros ? ? ? ? ? ? ? []]].
    set (pub := Publish dup qos retain 0 i mid0 payload).
    set (reg := Register i mid topic).
    set (t0 := TxBrokerPub mid qos AwaitRegack (RsSn reg) (Some pub) 0).
    change (new_obj s1 t0) with (fst (new_obj s1 t0), gw_next_obj s1). cbv beta iota zeta.
    set (g := gw_next_obj s1).
    set (sa := note_handed (fst (new_obj s1 t0) <| gw_by_id := <[mid := g]> (gw_by_id (fst (new_obj s1 t0))) |>) i topic).
    assert (Hobj : gw_objs sa !! g = Some t0) by (subst sa g; unfold new_obj, note_handed; cbn; apply lookup_insert).
    assert (Hok : okB t0).
    { subst t0 pub. cbn. split; [reflexivity|]. split; [exact Hq|]. split; [exact Hmid|].
      destruct (N.eqb_spec qos 0) as [E|E]; [left; exact E|right]. injection Emid as <-. reflexivity. }
    assert (Ha : FW (Xslot mid) s sa).
    { subst sa. eapply FW_trans; [apply FW_sm, Hsm|].
      eapply FW_trans; [apply (FW_new_obj (Xslot mid) s1 t0 Hok)|].
      apply (FW_step _ _ (fst (new_obj s1 t0) <| gw_by_id := <[mid := g]> (gw_by_id (fst (new_obj s1 t0))) |>));
        [|apply FW_sm; unfold note_handed; sm_tac].
      apply FW_slot_insert. intros _. unfold new_obj. cbn. split; [subst g; lia|].
      intros t' H. subst g. rewrite lookup_insert in H. injection H as <-. reflexivity. }
    split.
    + unfold FWR. eapply FW_mono.
      * eapply FW_trans; [exact Ha|]. eapply FW_mono; [apply (bp_proceed_fw cfg sa g mid qos AwaitRegack (RsSn reg) (Some pub) 0); exact Hobj|].
        intros HW j g' t [H1 H2] Hx. unfold Xobj in Hx. subst g'. unfold Xslot.
        pose proof (proj2 (w_slot sa HW j g H1) _ Hobj) as Hm. cbn in Hm. congruence.
      * intros HW j g' t [H1 _] Hx. unfold Xslot in Hx. subst j. unfold Xpub.
        destruct (N.eqb_spec qos 0) as [E|E].
        -- exfalso. apply find_free_mid_spec in Emid. congruence.
        -- injection Emid as <-. split; [reflexivity|lia].
    + intros dup' q r' tit' tid' j pl Hin Hq'. exfalso.
      assert (Hst : AwaitRegack <> BpDone) by discriminate.
      destruct (bp_proceed_outs cfg sa g mid qos AwaitRegack reg (Some pub) Hst) as [E|[E El]]; rewrite E in Hin; [destruct Hin|].
      subst reg. destruct (SN_register _ _ _ _ El _ Hin) as (a & b & c & Ep). discriminate Ep.
Qed.

(* ================================================================== the client's REGACK: first transmission *)

Lemma bp_proceed_outs_gen cfg s g mid qos st pub snpub :
  outs_of (bp_proceed cfg s g mid qos st (RsSn pub) snpub) = [] \/
  (outs_of (bp_proceed cfg s g mid qos st (RsSn pub) snpub) = [OutSn (gw_now s) (pack pub)] /\
   len (pack pub) <= MaxPacketLen).
Proof.
  destruct st; try (apply bp_proceed_outs; discriminate).
  unfold bp_proceed. cbv zeta.
  match goal with |- context [sn_send_owned ?S ?o ?p] => set (s2 := S) end.
  unfold sn_send_owned. destruct (gw_st s2); try (left; reflexivity);
    (destruct (len (pack pub) <=? MaxPacketLen) eqn:E; [right; split; [reflexivity|apply N.leb_le, E]|left; reflexivity]).
Qed.

Lemma handle_sn_regack_BP cfg s rtid rmid rrc :
  W s ->
  forall a1 a2 a3 a4 a5 i a7,
    In (Publish a1 a2 a3 a4 a5 i a7) (SN (outs_of (handle_sn cfg s (Regack rtid rmid rrc)))) ->
    a2 = 1 \/ a2 = 2 ->
    BP cfg (st_of (handle_sn cfg s (Regack rtid rmid rrc))) i a2 (gw_now s + (retry_count cfg + 1) * retry_delay cfg).
Proof.
  intros HW a1 a2 a3 a4 a5 i a7. unfold handle_sn.
  destruct (negb (packet_legal cfg s (Regack rtid rmid rrc))); [intros []|].
  destruct (get_by_id s rmid) as [[g t]|] eqn:Eg; [|intros []].
  destruct t as [mq a|m0 tid0|m0 tid0|m oq st d sp n]; try (intros []).
  pose proof (get_by_id_held _ _ _ _ Eg) as Hh. pose proof (W_held_mid _ _ _ _ HW Hh) as Hm. cbn in Hm.
  injection Hm as ->. pose proof (w_ok s HW g _ (proj2 Hh)) as Hok.
  unfold bp_regack.
  destruct st; try (intros []). destruct d as [p|k m]; [|intros []]. destruct_pkt p; try (intros []).
  rename tid into rt, mid into rm, name into rn.
  destruct sp as [pub|]; [|intros []].
  destruct (negb (rrc =? RC_ACCEPTED)); [intros []|]. cbv zeta.
  set (s1 := s <| gw_registered := <[rt := rn]> (gw_registered s) |>).
  destruct_pkt pub; try contradiction. cbn in Hok. destruct Hok as (-> & Hq4 & Hm0 & Hqm).
  match goal with |- context [bp_proceed cfg s1 g rmid oq ?ST (RsSn ?P) ?SP] => set (st' := ST); set (pub := P) end.
  intros Hin Hq12.
  destruct (bp_proceed_outs_gen cfg s1 g rmid oq st' pub (Some pub)) as [E|[E El]]; rewrite E in Hin; [destruct Hin|].
  subst pub. rewrite (SN_publish _ _ _ _ _ _ _ _ El) in Hin. destruct Hin as [Hin|[]].
  injection Hin as _ <- _ _ _ <- _.
  rewrite (N.mod_small oq 4 Hq4), (N.mod_small mid 65536 Hm0) in *.
  assert (Hmm : mid = rmid) by (destruct Hqm as [Hz|Hz]; [lia|exact Hz]). subst mid.
  assert (Hst : st' = bst oq).
  { subst st'. unfold bst. destruct (N.eqb_spec oq 0) as [Hz|_]; [lia|reflexivity]. }
  rewrite Hst. change (gw_now s) with (gw_now s1).
  apply bp_proceed_BP; [exact (proj1 Hh)|]. rewrite pack_set_dup_len. exact El.
Qed.

(* ================================================================== the broker's PUBACK / SUBACK are relayed *)

Lemma handle_mq_puback_relay cfg s i u :
  W s -> gw_st s <> Asleep -> i < 65536 -> CP s i u ->
  exists tid, SN (outs_of (handle_mq cfg s (MqPuback i))) = [Puback tid i RC_ACCEPTED].
Proof.
  intros HW Hst Hi (g & tid & Hh & _). cbn [handle_mq]. rewrite (held_get_by_id _ _ _ _ Hh).
  pose proof (w_ok s HW g _ (proj2 Hh)) as Htid. cbn in Htid.
  assert (Hwf : wf_pkt (Puback tid i RC_ACCEPTED) = true).
  { cbn [wf_pkt]. unfold lt16, lt8. apply N.ltb_lt in Htid, Hi. rewrite Htid, Hi. reflexivity. }
  rewrite sn_send_awake; [|rewrite finish_obj_st; exact Hst|exact Hwf].
  exists tid. cbn [outs_of ok fst snd]. apply SN_one_pack, Hwf.
Qed.

Lemma handle_mq_suback_relay cfg s i u c :
  Sound_C01C03_aux.Inv s -> gw_st s <> Asleep -> i < 65536 -> CS s i u ->
  exists q tid rc, SN (outs_of (handle_mq cfg s (MqSuback i [c]))) = [Suback q tid i rc].
Proof.
  intros HI Hst Hi (g & tid & Hh & _). cbn [handle_mq]. rewrite (held_get_by_id _ _ _ _ Hh).
  pose proof (Inv_objs s g _ HI (proj2 Hh)) as Htid. cbn in Htid. cbv zeta.
  assert (Hst' : gw_st (finish_obj s g) <> Asleep) by (rewrite finish_obj_st; exact Hst).
  destruct (c <=? 2) eqn:Ec.
  - apply N.leb_le in Ec.
    assert (Hwf : wf_pkt (Suback c tid i RC_ACCEPTED) = true) by (apply wf_pkt_suback; [lia|exact Htid|exact Hi|reflexivity]).
    exists c, tid, RC_ACCEPTED.
    destruct (gw_registered (finish_obj s g) !! tid);
      (rewrite sn_send_awake; [|exact Hst'|exact Hwf]); cbn [outs_of ok fst snd]; apply SN_one_pack, Hwf.
  - assert (Hwf : wf_pkt (Suback 0 tid i RC_NOT_SUPPORTED) = true) by (apply wf_pkt_suback; [lia|exact Htid|exact Hi|reflexivity]).
    exists 0, tid, RC_NOT_SUPPORTED.
    rewrite sn_send_awake; [|exact Hst'|exact Hwf]. cbn [outs_of ok fst snd]. apply SN_one_pack, Hwf.
Qed.

(* ================================================================== timers firing *)

Definition Xtm (k : timer_kind) : N -> N -> Prop := fun _ g => timer_of_obj g k = true.

Lemma fire_fw cfg s k : FWR (Xtm k) s (fire cfg s k).
Proof.
  unfold fire. destruct k as [g|g|g|p|p].
  - destruct (gw_objs s !! g); [|apply FW_refl]. apply FWR_stop.
    eapply FW_mono; [apply FW_finish_obj|]. intros _ i g' t' _ ->. unfold Xtm. cbn. apply N.eqb_refl.
  - destruct (gw_objs s !! g); [|apply FW_refl]. apply FWR_ok.
    eapply FW_mono; [apply FW_finish_obj|]. intros _ i g' t' _ ->. unfold Xtm. cbn. apply N.eqb_refl.
  - assert (Hmono : forall r, FWR (Xobj g) s r -> FWR (Xtm (TmRetry g)) s r).
    { intros r Hr. unfold FWR. eapply FW_mono; [exact Hr|]. intros _ i g' t' _ ->. unfold Xtm. cbn. apply N.eqb_refl. }
    destruct (gw_objs s !! g) as [t|] eqn:Ho; [|apply FW_refl].
    destruct t as [mq a|m0 tid0|m0 tid0|mid qos st data snpub n]; try apply FW_refl.
    apply Hmono.
    destruct (retry_count cfg <? n + 1); [apply FWR_ok, FW_finish_obj|]. cbv zeta.
    match goal with |- context [set_obj s g ?T] => set (t1 := T) end.
    assert (H1 : FW (Xobj g) s (set_obj s g t1)).
    { apply FW_set_obj. intros HW. split; [eapply w_obj; eassumption|]. split; [|split].
      - exact (w_ok s HW g _ Ho).
      - intros i Hi. exact (proj2 (w_slot s HW i g Hi) _ Ho).
      - intros Hc. exact (proj2 (w_cx s HW g Hc) _ Ho). }
    match goal with |- context [arm ?S (TmRetry g) (retry_delay cfg)] => set (s2 := S) end.
    assert (H2 : FW (Xobj g) s s2).
    { subst s2. destruct data; [|exact H1]. eapply FW_step; [exact H1|]. apply FW_sm. sm_tac. }
    assert (H3 : FW (Xobj g) s (arm s2 (TmRetry g) (retry_delay cfg))).
    { eapply FW_trans; [exact H2|]. eapply FW_mono; [apply FW_arm|].
      - intros HW g' Hg'. cbn in Hg'. apply N.eqb_eq in Hg'. subst g'.
        apply (w_obj _ HW g t1). subst s2. destruct data; cbn; apply lookup_insert.
      - intros _ i g' t' _ Hx. cbn in Hx. apply N.eqb_eq in Hx. exact Hx. }
    destruct data as [p|k m]; [|apply FWR_mq_send, H3].
    pose proof (FWR_sn_send_owned (Xobj g) s _ (Some g) (set_dup p) H3) as Hs.
    destruct (sn_send_owned (arm s2 (TmRetry g) (retry_delay cfg)) (Some g) (set_dup p)) as [[s4 o] [|c]]; [exact Hs|].
    apply FWR_ok. eapply FW_trans; [exact Hs|apply FW_finish_obj].
  - apply FWR_andthen; [apply FWR_mq_send, FW_refl|]. intros s1 H1. apply FWR_ok.
    eapply FW_step; [exact H1|apply FW_arm_ping].
  - apply FWR_ok, FW_disarm_ping.
Qed.

(* the state in which the due timer tm fires *)
Definition pre (s : gw_state) (tm : timer) : gw_state :=
  s <| gw_now := tm_at tm |> <| gw_timers := remove_timer (gw_timers s) tm |>.

Lemma pre_fw X s tm : FW X s (pre s tm).
Proof.
  apply FW_timers_sub; try reflexivity. intros u Hin. cbn in Hin. unfold remove_timer in Hin.
  apply filter_In in Hin. tauto.
Qed.

Lemma min_timer_in (l : list timer) (tm : timer) : min_timer l = Some tm -> In tm l.
Proof.
  revert tm. induction l as [|a l IH]; cbn [min_timer]; intros tm H; [discriminate|].
  destruct (min_timer l) as [u|].
  - destruct (earlier a u); injection H as <-; [left; reflexivity|right; apply IH; reflexivity].
  - injection H as <-. left. reflexivity.
Qed.

Lemma begin_end_fw X s c a b : FW X s (fst (begin_end s c a b)).
Proof. apply FW_timers_sub; try reflexivity. intros tm []. Qed.

Lemma begin_end_FR X s c a b : FR X s (fst (begin_end s c a b)).
Proof. intros i g t Hh _. split; [exact Hh|]. intros tm []. Qed.

Lemma finish_r_fw X s r a b : FWR X s r -> FW X s (fst (finish_r r a b)).
Proof.
  intros H. destruct r as [[s1 o] [|c]]; unfold FWR, st_of in H; cbn [finish_r fst] in *; [exact H|].
  pose proof (begin_end_fw X0 s1 c a b) as Hb. destruct (begin_end s1 c a b) as [s2 o2]. cbn [fst] in *.
  eapply FW_step; eassumption.
Qed.

(* the retransmission of a broker PUBLISH exchange that has retries left *)
Lemma fire_retry_BP cfg s g i q u d sp n :
  held s i g (TxBrokerPub i q (bst q) d sp n) -> resend_ok d ->
  (forall tm, In tm (gw_timers s) -> timer_of_obj g (tm_kind tm) = false) ->
  u <= gw_now s + (retry_count cfg - n) * retry_delay cfg -> gw_now s < u ->
  BP cfg (st_of (fire cfg s (TmRetry g))) i q u.
Proof.
  intros [Hs Ho] Hd Hnt Hu Hlt. unfold fire. rewrite Ho.
  assert (Hn : n < retry_count cfg).
  { destruct (N.lt_ge_cases n (retry_count cfg)) as [H|H]; [exact H|].
    assert (E : retry_count cfg - n = 0) by lia. rewrite E in Hu. lia. }
  destruct (retry_count cfg <? n + 1) eqn:En; [apply N.ltb_lt in En; lia|]. cbv zeta.
  assert (Hb : u <= gw_now s + retry_delay cfg + (retry_count cfg - (n + 1)) * retry_delay cfg).
  { assert (E : retry_count cfg - n = (retry_count cfg - (n + 1)) + 1) by lia. rewrite E in Hu. lia. }
  assert (HB : forall S d', resend_ok d' -> gw_by_id S = gw_by_id s ->
            gw_objs S = <[g := TxBrokerPub i q (bst q) d' sp (n + 1)]> (gw_objs s) ->
            gw_timers S = gw_timers s ++ [{| tm_at := gw_now s + retry_delay cfg; tm_seq := gw_next_seq s; tm_kind := TmRetry g |}] ->
            BP cfg S i q u).
  { intros S d' Hd' E1 E2 E3. exists g, d', sp, (n + 1), (gw_next_seq s), (gw_now s + retry_delay cfg).
    split; [|split; [exact Hd'|split; [|exact Hb]]].
    - split; [rewrite E1; exact Hs|rewrite E2; apply lookup_insert].
    - intros tm Hin Hof. rewrite E3 in Hin. apply in_app_or in Hin. destruct Hin as [Hin|[<-|[]]].
      + rewrite (Hnt tm Hin) in Hof. discriminate Hof.
      + cbn. auto. }
  destruct d as [p|k m].
  - cbn [resend_ok] in Hd.
    assert (Hd' : resend_ok (RsSn (set_dup p))) by (cbn [resend_ok]; rewrite set_dup_idem; exact Hd).
    unfold sn_send_owned. apply N.leb_le in Hd.
    match goal with |- context [gw_st ?S] => destruct (gw_st S) end; rewrite ?Hd; unfold st_of, ok; cbn [fst];
      apply (HB _ _ Hd'); reflexivity.
  - unfold st_of, mq_send, ok. cbn [fst]. apply (HB _ (RsAck k m) I); reflexivity.
Qed.

Lemma remove_timer_same_seq l tm u :
  In u (remove_timer l tm) -> tm_seq u <> tm_seq tm.
Proof.
  unfold remove_timer. intros Hin. apply filter_In in Hin. destruct Hin as [_ H].
  apply negb_true_iff, N.eqb_neq in H. exact H.
Qed.

(* one due timer fires: exchanges that outlive the target time t survive *)
Lemma fire_one cfg s tm t :
  W s -> In tm (gw_timers s) -> tm_at tm <= t ->
  W (fst (finish_r (fire cfg (pre s tm) (tm_kind tm)) false false)) /\
  (forall i u, t < u -> CP s i u -> CP (fst (finish_r (fire cfg (pre s tm) (tm_kind tm)) false false)) i u) /\
  (forall i u, t < u -> CS s i u -> CS (fst (finish_r (fire cfg (pre s tm) (tm_kind tm)) false false)) i u) /\
  (forall i q u, t < u -> BP cfg s i q u -> BP cfg (fst (finish_r (fire cfg (pre s tm) (tm_kind tm)) false false)) i q u).
Proof.
  intros HW Hin Hdue.
  pose proof (pre_fw X0 s tm HW) as [HWp HFp].
  pose proof (finish_r_fw _ _ _ false false (fire_fw cfg (pre s tm) (tm_kind tm)) HWp) as [HW1 HF1].
  split; [exact HW1|]. split; [|split].
  - intros i u Hu HC. assert (HCp : CP (pre s tm) i u) by (eapply CP_FR; [exact HFp|exact HC|intros g _ []]).
    eapply CP_FR; [exact HF1|exact HCp|]. intros g Hg Hx. unfold Xtm in Hx.
    destruct HC as (g0 & tid & [Hs0 _] & Htm). change (gw_by_id (pre s tm)) with (gw_by_id s) in Hg.
    assert (g0 = g) by congruence. subst g0. specialize (Htm tm Hin Hx). lia.
  - intros i u Hu HC. assert (HCp : CS (pre s tm) i u) by (eapply CS_FR; [exact HFp|exact HC|intros g _ []]).
    eapply CS_FR; [exact HF1|exact HCp|]. intros g Hg Hx. unfold Xtm in Hx.
    destruct HC as (g0 & tid & [Hs0 _] & Htm). change (gw_by_id (pre s tm)) with (gw_by_id s) in Hg.
    assert (g0 = g) by congruence. subst g0. specialize (Htm tm Hin Hx). lia.
  - intros i q u Hu HB. assert (HBp : BP cfg (pre s tm) i q u) by (eapply BP_FR; [exact HFp|exact HB|intros g _ []]).
    destruct HB as (g & d & sp & n & sq & T & Hh & Hd & Htm & Hb).
    destruct (timer_of_obj g (tm_kind tm)) eqn:Hof.
    + (* the exchange's own retry timer *)
      destruct (Htm tm Hin Hof) as (Hsq & HT & Hk). rewrite Hk.
      assert (HBf : BP cfg (st_of (fire cfg (pre s tm) (TmRetry g))) i q u).
      { apply (fire_retry_BP cfg (pre s tm) g i q u d sp n).
        - exact Hh.
        - exact Hd.
        - intros v Hv. destruct (timer_of_obj g (tm_kind v)) eqn:Hov; [|reflexivity]. exfalso.
          cbn in Hv. pose proof (remove_timer_same_seq _ _ _ Hv) as Hne.
          assert (Hv' : In v (gw_timers s)) by (unfold remove_timer in Hv; apply filter_In in Hv; tauto).
          destruct (Htm v Hv' Hov) as (Hsv & _ & _). congruence.
        - cbn. lia.
        - cbn. lia. }
      destruct (fire cfg (pre s tm) (TmRetry g)) as [[s1 o] [|c]]; unfold st_of in HBf; cbn [finish_r fst] in *; [exact HBf|].
      pose proof (begin_end_FR X0 s1 c false false) as Hbe. destruct (begin_end s1 c false false) as [s2 o2]. cbn [fst] in *.
      eapply BP_FR; [exact Hbe|exact HBf|intros g' _ []].
    + eapply BP_FR; [exact HF1|exact HBp|]. intros g' Hg' Hx. unfold Xtm in Hx.
      change (gw_by_id (pre s tm)) with (gw_by_id s) in Hg'. assert (g' = g) by (destruct Hh; congruence). subst g'. congruence.
Qed.

(* ================================================================== all due timers *)

Definition EPres (cfg : gw_cfg) (t : N) (s s' : gw_state) : Prop :=
  W s' /\ (forall i u, t < u -> CP s i u -> CP s' i u) /\ (forall i u, t < u -> CS s i u -> CS s' i u) /\
  (forall i q u, t < u -> BP cfg s i q u -> BP cfg s' i q u).

Lemma EPres_trans cfg t s1 s2 s3 : EPres cfg t s1 s2 -> EPres cfg t s2 s3 -> EPres cfg t s1 s3.
Proof.
  intros (_ & A1 & A2 & A3) (B0 & B1 & B2 & B3). split; [exact B0|]. split; [|split].
  - intros i u Hu H. apply B1; [exact Hu|]. apply A1; assumption.
  - intros i u Hu H. apply B2; [exact Hu|]. apply A2; assumption.
  - intros i q u Hu H. apply B3; [exact Hu|]. apply A3; assumption.
Qed.

Lemma EPres_FW cfg t s s' : W s -> FW X0 s s' -> EPres cfg t s s'.
Proof.
  intros HW H. destruct (H HW) as [HW' HF]. split; [exact HW'|]. split; [|split].
  - intros i u _ HC. eapply CP_FR; [exact HF|exact HC|intros g _ []].
  - intros i u _ HC. eapply CS_FR; [exact HF|exact HC|intros g _ []].
  - intros i q u _ HC. eapply BP_FR; [exact HF|exact HC|intros g _ []].
Qed.

Lemma run_timers_pres cfg t fuel : forall s, W s -> EPres cfg t s (fst (run_timers fuel cfg s t)).
Proof.
  induction fuel as [|fuel IH]; intros s HW; cbn [run_timers].
  - apply EPres_FW; [exact HW|apply FW_refl].
  - destruct (gw_ending s) as [te|].
    + destruct (te <=? t); cbn [fst]; apply EPres_FW; try exact HW; [apply FW_sm; sm_tac|apply FW_refl].
    + destruct (min_timer (gw_timers s)) as [tm|] eqn:Em; [|apply EPres_FW; [exact HW|apply FW_refl]].
      destruct (tm_at tm <=? t) eqn:Ed; [|apply EPres_FW; [exact HW|apply FW_refl]].
      apply N.leb_le in Ed. apply min_timer_in in Em.
      pose proof (fire_one cfg s tm t HW Em Ed) as H1. fold (pre s tm).
      destruct (finish_r (fire cfg (pre s tm) (tm_kind tm)) false false) as [s1 o1]. cbn [fst] in H1.
      specialize (IH s1 (proj1 H1)). destruct (run_timers fuel cfg s1 t) as [s2 o2]. cbn [fst] in *.
      eapply EPres_trans; [exact H1|exact IH].
Qed.

(* ================================================================== the session stays connected *)

Definition ND (s : gw_state) : Prop := gw_st s <> Disconnected.
Definition NDR (r : R) : Prop := match r with (s', _, HOk) => ND s' | _ => True end.

Lemma ND_same s s' : gw_st s' = gw_st s -> ND s -> ND s'.
Proof. unfold ND. intros ->. tauto. Qed.

Lemma NDR_ok s o : ND s -> NDR (ok s o).
Proof. intros H; exact H. Qed.
Lemma NDR_stop s o c : NDR (stop s o c).
Proof. exact I. Qed.
Lemma NDR_mq_send s m : ND s -> NDR (mq_send s m).
Proof. intros H; exact H. Qed.
Lemma NDR_sn_send_owned s ow p : ND s -> NDR (sn_send_owned s ow p).
Proof.
  intros H. unfold sn_send_owned. destruct (gw_st s) eqn:E; try destruct (len (pack p) <=? MaxPacketLen);
    cbn; try exact H; try exact I.
Qed.
Lemma NDR_sn_send s p : ND s -> NDR (sn_send s p).
Proof. apply NDR_sn_send_owned. Qed.
Lemma NDR_sn_send_now s p : ND s -> NDR (sn_send_now s p).
Proof. intros H. unfold sn_send_now. destruct (len (pack p) <=? MaxPacketLen); [exact H|exact I]. Qed.
Lemma NDR_andthen r g : NDR r -> (forall s, ND s -> NDR (g s)) -> NDR (andthen r g).
Proof.
  intros Hr Hg. destruct r as [[s o] [|c]]; cbn [andthen NDR] in *; [|exact I].
  specialize (Hg s Hr). destruct (g s) as [[s' o'] res]. exact Hg.
Qed.
Lemma NDR_send_all ps : forall s, ND s -> NDR (send_all s ps).
Proof.
  induction ps as [|[o p] ps IH]; intros s H; cbn [send_all]; [exact H|].
  apply NDR_andthen; [apply NDR_sn_send, H|intros s' H'; apply IH, H'].
Qed.
Lemma NDR_andthen_end r g : (forall s, snd (g s) <> HOk) -> NDR (andthen r g).
Proof.
  intros Hg. destruct r as [[s o] [|c]]; cbn [andthen NDR]; [|exact I].
  specialize (Hg s). destruct (g s) as [[s' o'] [|c]]; cbn in *; [congruence|exact I].
Qed.
Lemma andthen_end r g : (forall s, snd (g s) <> HOk) -> snd (andthen r g) <> HOk.
Proof.
  intros Hg. destruct r as [[s o] [|c]]; cbn [andthen snd]; [|discriminate].
  specialize (Hg s). destruct (g s) as [[s' o'] res]. exact Hg.
Qed.

Lemma ND_finish_obj s g : ND s -> ND (finish_obj s g).
Proof. apply ND_same, finish_obj_st. Qed.

Ltac nd_st :=
  match goal with
  | |- ND (finish_obj _ _) => apply ND_finish_obj
  | |- ND (set gw_st (fun _ => ?v) _) => unfold ND; cbn; discriminate
  | |- ND (set ?p ?f ?s) => apply (ND_same s); [reflexivity|]
  | |- ND (arm ?s _ _) => apply (ND_same s); [reflexivity|]
  | |- ND (disarm_obj ?s _) => apply (ND_same s); [reflexivity|]
  | |- ND (disarm_ping ?s _) => apply (ND_same s); [reflexivity|]
  | |- ND (set_obj ?s _ _) => apply (ND_same s); [reflexivity|]
  | |- ND (note_handed ?s _ _) => apply (ND_same s); [reflexivity|]
  end.

Ltac nd_step :=
  first
    [ match goal with |- ND _ => assumption end
    | match goal with |- True => exact I end
    | match goal with
      | |- NDR (ok _ _) => apply NDR_ok
      | |- NDR (stop _ _ _) => apply NDR_stop
      | |- NDR (sn_send _ _) => apply NDR_sn_send
      | |- NDR (sn_send_owned _ _ _) => apply NDR_sn_send_owned
      | |- NDR (sn_send_now _ _) => apply NDR_sn_send_now
      | |- NDR (mq_send _ _) => apply NDR_mq_send
      | |- NDR (send_all _ _) => apply NDR_send_all
      | |- NDR (andthen _ _) => apply NDR_andthen; [|intros ? ?]
      end
    | nd_st
    | match goal with |- NDR (match ?x with _ => _ end) => destruct x eqn:? end
    | match goal with |- NDR (if ?x then _ else _) => destruct x eqn:? end
    | match goal with |- ND (match ?x with _ => _ end) => destruct x eqn:? end
    | match goal with |- ND (if ?x then _ else _) => destruct x eqn:? end
    | progress cbv zeta ].
Ltac nd_auto := repeat nd_step.

Lemma connect_auth_done_nd' s g mq : ND s -> NDR (connect_auth_done s g mq).
Proof. intros H. unfold connect_auth_done. nd_auto. Qed.

Lemma connect_start_nd' s g mq a : ND s -> NDR (connect_start s g mq a).
Proof. intros H. unfold connect_start. nd_auto. apply connect_auth_done_nd', H. Qed.

Lemma handle_connect_nd' cfg s w c pr d cid : ND s -> NDR (handle_connect cfg s w c pr d cid).
Proof. intros H. unfold handle_connect, new_obj. nd_auto; apply connect_start_nd'; nd_auto. Qed.

Lemma connect_auth_nd' s g mq a me da : ND s -> NDR (connect_auth s g mq a me da).
Proof. intros H. unfold connect_auth. nd_auto. apply connect_auth_done_nd'. nd_auto. Qed.

Lemma handle_client_publish_nd' cfg s dup q r tit tid mid data :
  ND s -> NDR (handle_client_publish cfg s dup q r tit tid mid data).
Proof. intros H. unfold handle_client_publish, new_obj. nd_auto. Qed.

Lemma handle_subscribe_nd' cfg s dup q tit mid tid name :
  ND s -> NDR (handle_subscribe cfg s dup q tit mid tid name).
Proof.
  intros H. unfold handle_subscribe, new_obj. cbv zeta.
  destruct ((2 <? q) || (mid =? 0)); [nd_auto|].
  destruct (tit =? TIT_STRING); [destruct (negb (has_wildcard name))|].
  - pose proof (register_topic_st cfg s name) as Hs.
    destruct (register_topic cfg s name) as [s' [i|]]; cbn [fst] in Hs;
      assert (H' : ND s') by (eapply ND_same; eassumption); nd_auto.
  - nd_auto.
  - nd_auto.
Qed.

Lemma handle_unsubscribe_nd' cfg s tit mid tid name : ND s -> NDR (handle_unsubscribe cfg s tit mid tid name).
Proof. intros H. unfold handle_unsubscribe. nd_auto. Qed.

Lemma bp_proceed_nd' cfg s g mid qos st data snpub : ND s -> NDR (bp_proceed cfg s g mid qos st data snpub).
Proof. intros H. unfold bp_proceed. cbv zeta. destruct data; destruct st; nd_auto. Qed.

Lemma bp_regack_nd' cfg s g t rc : ND s -> NDR (bp_regack cfg s g t rc).
Proof. intros H. unfold bp_regack. nd_auto; apply bp_proceed_nd'; nd_auto. Qed.

Lemma handle_sn_nd' cfg s p : ND s -> NDR (handle_sn cfg s p).
Proof.
  intros H. unfold handle_sn.
  destruct (negb (packet_legal cfg s p)); [exact I|].
  destruct p; try exact I.
  - nd_auto. apply connect_auth_nd', H.
  - apply handle_connect_nd', H.
  - nd_auto.
  - nd_auto.
  - pose proof (register_topic_st cfg s name) as Hs.
    destruct (register_topic cfg s name) as [s' [i|]]; cbn [fst] in Hs;
      assert (H' : ND s') by (eapply ND_same; eassumption); nd_auto.
  - nd_auto. apply bp_regack_nd', H.
  - apply handle_client_publish_nd', H.
  - nd_auto; apply bp_proceed_nd', H.
  - nd_auto; apply bp_proceed_nd', H.
  - nd_auto; apply bp_proceed_nd', H.
  - nd_auto.
  - apply handle_subscribe_nd', H.
  - apply handle_unsubscribe_nd', H.
  - nd_auto.
  - destruct (dur =? 0).
    + apply NDR_andthen_end. intros s1. apply andthen_end. intros s2. discriminate.
    + nd_auto.
Qed.

Lemma handle_broker_publish_nd' cfg s dup q r t mid pl : ND s -> NDR (handle_broker_publish cfg s dup q r t mid pl).
Proof.
  intros H. unfold handle_broker_publish, new_obj.
  destruct (if is_short_topic t then _ else _) as [[tid tit]|]; cbv zeta.
  - nd_auto; apply bp_proceed_nd'; nd_auto.
  - destruct ((q =? 0) && negb true); [nd_auto|].
    destruct (if q =? 0 then _ else _) as [mid'|]; [|nd_auto].
    destruct (2 <? q); [nd_auto|].
    pose proof (new_topic_id_st cfg s) as Hs.
    destruct (new_topic_id cfg s) as [s' [i|]]; cbn [fst] in Hs; [|nd_auto].
    assert (H' : ND s') by (eapply ND_same; eassumption).
    apply bp_proceed_nd'; nd_auto.
Qed.

Lemma handle_mq_nd' cfg s m : ND s -> NDR (handle_mq cfg s m).
Proof.
  intros H. unfold handle_mq. destruct m; try exact I; nd_auto;
    first [apply handle_broker_publish_nd', H | apply bp_proceed_nd', H].
Qed.

Lemma sn_send_owned_gw_st s ow p : gw_st (st_of (sn_send_owned s ow p)) = gw_st s.
Proof. unfold sn_send_owned. destruct (gw_st s) eqn:E; try destruct (len (pack p) <=? MaxPacketLen); cbn; congruence. Qed.

Lemma fire_nd' cfg s k : ND s -> NDR (fire cfg s k).
Proof.
  intros H. unfold fire. destruct k as [g|g|g|p|p]; [nd_auto|nd_auto| |nd_auto|nd_auto].
  destruct (gw_objs s !! g) as [t|]; [|exact H].
  destruct t as [mq a|m0 tid|m0 tid|mid qos st data snpub n]; try exact H.
  destruct (retry_count cfg <? n + 1); [nd_auto|]. cbv zeta.
  destruct data as [p|k m]; [|nd_auto].
  match goal with |- context [sn_send_owned ?a ?b ?c] =>
    assert (X : NDR (sn_send_owned a b c)) by (apply NDR_sn_send_owned; nd_auto);
    pose proof (sn_send_owned_gw_st a b c) as Y;
    destruct (sn_send_owned a b c) as [[s1 o] [|e]] end; [exact X|].
  apply NDR_ok, ND_finish_obj. unfold st_of in Y. cbn [fst] in Y. eapply ND_same; [exact Y|]. nd_auto.
Qed.

Lemma running_false_ending s te : gw_ending s = Some te -> running s = false.
Proof. intros H. unfold running. rewrite H. apply andb_false_r. Qed.

Lemma run_timers_ending cfg t fuel s te :
  gw_ending s = Some te -> running (fst (run_timers fuel cfg s t)) = false.
Proof.
  intros H. destruct fuel as [|fuel]; cbn [run_timers]; [eapply running_false_ending; exact H|].
  rewrite H. destruct (te <=? t); cbn [fst]; [reflexivity|eapply running_false_ending; exact H].
Qed.

Lemma finish_r_nd r a b : NDR r -> running (fst (finish_r r a b)) = true -> ND (fst (finish_r r a b)).
Proof.
  destruct r as [[s o] [|c]]; cbn [finish_r NDR fst]; [auto|].
  intros _ H. exfalso. unfold begin_end in H. cbn in H. unfold running in H. cbn in H.
  rewrite andb_false_r in H. discriminate.
Qed.

Lemma run_timers_nd' cfg t fuel : forall s, ND s ->
  running (fst (run_timers fuel cfg s t)) = true -> ND (fst (run_timers fuel cfg s t)).
Proof.
  induction fuel as [|fuel IH]; intros s H; cbn [run_timers]; [auto|].
  destruct (gw_ending s) as [te|] eqn:Ee.
  - destruct (te <=? t); cbn [fst]; [intros Hr; discriminate|auto].
  - destruct (min_timer (gw_timers s)) as [tm|]; [|auto].
    destruct (tm_at tm <=? t); [|auto].
    match goal with |- context [finish_r ?r _ _] => pose proof (fire_nd' cfg (pre s tm) (tm_kind tm)) as Hf;
      fold (pre s tm) end.
    specialize (Hf H).
    destruct (fire cfg (pre s tm) (tm_kind tm)) as [[s1 o1] [|c]]; cbn [finish_r NDR] in *.
    + specialize (IH s1 Hf). destruct (run_timers fuel cfg s1 t) as [s2 o2]. exact IH.
    + destruct (begin_end s1 c false false) as [s2 o2] eqn:Eb.
      assert (He : exists te, gw_ending s2 = Some te).
      { unfold begin_end in Eb. injection Eb as <- _. cbn. eauto. }
      destruct He as [te He]. pose proof (run_timers_ending cfg t fuel s2 te He) as Hr.
      destruct (run_timers fuel cfg s2 t) as [s3 o3]. cbn [fst] in *. intros Hr'. congruence.
Qed.

Lemma connected_ND s : connected s = true <-> ND s.
Proof. unfold connected, ND. destruct (gw_st s); cbn; split; congruence. Qed.

Theorem step_connected cfg s ev :
  connected s = true -> running (fst (gw_step cfg s ev)) = true -> connected (fst (gw_step cfg s ev)) = true.
Proof.
  intros Hc. apply connected_ND in Hc. intros Hr. apply connected_ND. revert Hr.
  unfold gw_step. destruct (gw_ended s) eqn:Ee; [intros _; exact Hc|].
  destruct ev as [dg|m| | |d|].
  - destruct (gw_ending s); [intros _; exact Hc|].
    destruct (read_dgram dg) as [p|e|ps]; apply finish_r_nd; try exact I.
    apply handle_sn_nd'. exact Hc.
  - destruct (gw_ending s); [intros _; exact Hc|]. apply finish_r_nd, handle_mq_nd'. exact Hc.
  - destruct (gw_ending s); [intros _; exact Hc|]. apply finish_r_nd. exact I.
  - destruct (gw_ending s); [intros _; exact Hc|]. apply finish_r_nd. exact I.
  - pose proof (run_timers_nd' cfg (gw_now s + d) (advance_fuel cfg s d) s Hc) as Hrt.
    destruct (run_timers (advance_fuel cfg s d) cfg s (gw_now s + d)) as [s' o]. cbn [fst] in *.
    destruct (gw_ended s') eqn:Ee'; [intros Hr; unfold running in Hr; rewrite Ee' in Hr; discriminate|].
    intros Hr. eapply ND_same; [|apply Hrt]; [reflexivity|]. exact Hr.
  - destruct (gw_ending s); [intros _; exact Hc|]. apply finish_r_nd. exact I.
Qed.

(* ================================================================== what a decoded PUBLISH carries *)

Definition dec6 (p : packet) : Prop :=
  match p with Publish _ _ _ _ tid _ _ => tid < 65536 | _ => True end.

Lemma unpack_body_dec6 t buf p : wf_bytes buf -> unpack_body t buf = Ok p -> dec6 p.
Proof.
  unfold unpack_body.
  repeat (match goal with |- _ -> (if ?c then _ else _) = _ -> _ => destruct c end).
  all: try (intros _ H; discriminate H).
  all: match goal with |- _ -> ?f _ = Ok _ -> _ =>
         unfold f; intros Hb H; inv_unpack H; injection H as <-;
         first [exact I | cbn [dec6]; eapply get16_lt; eassumption] end.
Qed.

Lemma read_dgram_dec6 dg p : wf_bytes dg -> read_dgram dg = Ok p -> dec6 p.
Proof.
  unfold read_dgram, read_packet. set (raw := firstn _ dg). intros Hwf H.
  assert (Hraw : wf_bytes raw) by (apply Forall_take, Hwf).
  destruct (header_unpack raw) as [h|e|ps]; cbn [obind] in H; try discriminate H.
  destruct (negb (known_type (h_type h))); try discriminate H.
  unfold slice_from in H.
  destruct (Nat.leb (encoded_header_length raw) (length raw)); cbn [obind] in H; try discriminate H.
  eapply unpack_body_dec6; [|exact H]. apply Forall_drop, Hraw.
Qed.

(* ================================================================== one client packet *)

Definition SnSum (cfg : gw_cfg) (s : gw_state) (p : packet) (r : R) : Prop :=
  W (st_of r) /\
  (forall i u, CP s i u -> ~ In i (MQ (outs_of r) ≫= cstart) -> CP (st_of r) i u) /\
  (forall i u, CS s i u -> ~ In i (MQ (outs_of r) ≫= cstart) -> CS (st_of r) i u) /\
  (forall i q u, BP cfg s i q u -> ~ In i (MQ (outs_of r) ≫= cstart) ->
     (forall a c, p <> Puback a i c) -> p <> Pubrec i -> BP cfg (st_of r) i q u) /\
  (forall a b c i e, In (MqPublish a 1 b c i e) (MQ (outs_of r)) -> CP (st_of r) i (gw_now s + retry_delay cfg)) /\
  (forall i d fs, In (MqSubscribe i d fs) (MQ (outs_of r)) -> CS (st_of r) i (gw_now s + retry_delay cfg)).

Lemma SnSum_quiet cfg s p r : W s -> FWR X0 s r -> all_mq quiet (outs_of r) -> SnSum cfg s p r.
Proof.
  intros HW HF Hq. destruct (HF HW) as [HW' HFR]. split; [exact HW'|]. split; [|split; [|split; [|split]]].
  - intros i u HC _. eapply CP_FR; [exact HFR|exact HC|intros g _ []].
  - intros i u HC _. eapply CS_FR; [exact HFR|exact HC|intros g _ []].
  - intros i q u HC _ _ _. eapply BP_FR; [exact HFR|exact HC|intros g _ []].
  - intros a b c i e Hin. pose proof (quiet_MQ _ _ Hq Hin) as Hc. discriminate Hc.
  - intros i d fs Hin. pose proof (quiet_MQ _ _ Hq Hin) as Hc. discriminate Hc.
Qed.

Lemma bind1 {A B} (f : A -> list B) (x : A) : [x] ≫= f = f x.
Proof. cbn. apply app_nil_r. Qed.

Lemma bst_cases q : bst q = AwaitPuback \/ bst q = AwaitPubrec.
Proof. unfold bst. destruct (q =? 1); auto. Qed.

Lemma SnSum_slot cfg s p r mid m0 :
  W s -> FWR (Xslot mid) s r -> outs_of r = [OutMq (gw_now s) m0] -> cstart m0 = [mid] ->
  (forall a b c i e, m0 = MqPublish a 1 b c i e -> CP (st_of r) mid (gw_now s + retry_delay cfg)) ->
  (forall i d fs, m0 = MqSubscribe i d fs -> CS (st_of r) mid (gw_now s + retry_delay cfg)) ->
  SnSum cfg s p r.
Proof.
  intros HW HF Ho Hc HP HS. destruct (HF HW) as [HW' HFR].
  assert (Hmq : MQ (outs_of r) = [wire m0]) by (rewrite Ho; reflexivity).
  assert (Hb : MQ (outs_of r) ≫= cstart = [mid]).
  { rewrite Hmq, bind1, cstart_wire. exact Hc. }
  assert (Hx : forall i, ~ In i [mid] -> forall g : N, ~ Xslot mid i g).
  { intros i Hi g Hx. apply Hi. left. symmetry. exact Hx. }
  split; [exact HW'|]. split; [|split; [|split; [|split]]].
  - intros i u HC Hn. rewrite Hb in Hn. eapply CP_FR; [exact HFR|exact HC|]. intros g _. apply Hx, Hn.
  - intros i u HC Hn. rewrite Hb in Hn. eapply CS_FR; [exact HFR|exact HC|]. intros g _. apply Hx, Hn.
  - intros i q u HC Hn _ _. rewrite Hb in Hn. eapply BP_FR; [exact HFR|exact HC|]. intros g _. apply Hx, Hn.
  - intros a b c i e Hin. rewrite Hmq in Hin. destruct Hin as [Hin|[]].
    assert (Hi : cstart (MqPublish a 1 b c i e) = [mid]) by (rewrite <- Hin, cstart_wire; exact Hc).
    cbn in Hi. injection Hi as ->.
    destruct m0; cbn in Hin; try discriminate Hin.
    injection Hin as E1 E2 E3 E4 E5 E6. subst qos. eapply HP. reflexivity.
  - intros i d fs Hin. rewrite Hmq in Hin. destruct Hin as [Hin|[]].
    assert (Hi : cstart (MqSubscribe i d fs) = [mid]) by (rewrite <- Hin, cstart_wire; exact Hc).
    cbn in Hi. injection Hi as ->.
    destruct m0; cbn in Hin; try discriminate Hin.
    eapply HS. reflexivity.
Qed.

Lemma SnSum_ack cfg s p r mid g0 m q0 st d sp n :
  W s -> sn_ack_mid p = Some mid -> get_by_id s mid = Some (g0, TxBrokerPub m q0 st d sp n) ->
  sn_ack_st p q0 st -> FWR (Xobj g0) s r -> all_mq quiet (outs_of r) -> SnSum cfg s p r.
Proof.
  intros HW Hmid Hg Hst HF Hq. destruct (HF HW) as [HW' HFR]. apply get_by_id_held in Hg.
  split; [exact HW'|]. split; [|split; [|split; [|split]]].
  - intros i u HC _. eapply CP_FR; [exact HFR|exact HC|]. intros g Hs Hx. unfold Xobj in Hx. subst g.
    destruct HC as (g & tid & [H1 H2] & _). destruct Hg as [_ H3]. congruence.
  - intros i u HC _. eapply CS_FR; [exact HFR|exact HC|]. intros g Hs Hx. unfold Xobj in Hx. subst g.
    destruct HC as (g & tid & [H1 H2] & _). destruct Hg as [_ H3]. congruence.
  - intros i q u HC _ Hnp Hnr. eapply BP_FR; [exact HFR|exact HC|]. intros g Hs Hx. unfold Xobj in Hx. subst g.
    destruct HC as (g & d' & sp' & n' & sq & T & [H1 H2] & _).
    assert (g = g0) by congruence. subst g.
    pose proof (W_held_mid s mid g0 _ HW Hg) as Hm1. pose proof (W_held_mid s i g0 _ HW (conj H1 H2)) as Hm2.
    destruct Hg as [_ H3]. rewrite H2 in H3. injection H3 as <- <- <- <- <- <-.
    cbn in Hm1. injection Hm1 as <-.
    destruct p; try discriminate Hmid; cbn in Hmid, Hst; injection Hmid as ->.
    + destruct (bst_cases q) as [E|E]; rewrite E in Hst; discriminate Hst.
    + eapply Hnp. reflexivity.
    + destruct (bst_cases q) as [E|E]; rewrite E in Hst; discriminate Hst.
    + apply Hnr. reflexivity.
  - intros a b c i e Hin. pose proof (quiet_MQ _ _ Hq Hin) as Hc. discriminate Hc.
  - intros i d' fs Hin. pose proof (quiet_MQ _ _ Hq Hin) as Hc. discriminate Hc.
Qed.

Lemma handle_sn_summary cfg s p : W s -> dec6 p -> SnSum cfg s p (handle_sn cfg s p).
Proof.
  intros HW Hd.
  destruct (sn_ack_mid p) as [mid|] eqn:Ea.
  - (* acknowledgements *)
    assert (Hq : all_mq quiet (outs_of (handle_sn cfg s p))) by (apply handle_sn_q; destruct p; try discriminate Ea; exact I).
    destruct (handle_sn_ack_fw cfg s p mid Ea) as [H|(g & m & q & st & d & sp & n & Hg & Hst & H)].
    + apply SnSum_quiet; assumption.
    + eapply SnSum_ack; eassumption.
  - destruct p; try discriminate Ea;
      try (apply SnSum_quiet; [exact HW|apply handle_sn_plain_fw; exact I|apply handle_sn_q; exact I]).
    + (* Publish *)
      unfold handle_sn. destruct (negb (packet_legal cfg s _));
        [apply SnSum_quiet; [exact HW|apply FW_refl|apply all_mq_nil]|].
      cbn [dec6] in Hd.
      destruct (handle_client_publish_spec cfg s dup qos retain tit tid mid data Hd) as [[H1 H2]|(H1 & H2 & topic & H3)].
      * apply SnSum_quiet; assumption.
      * eapply (SnSum_slot cfg s _ _ mid); [exact HW|exact H1|exact H3|reflexivity| |].
        -- intros. apply H2, HW.
        -- intros i d fs E. discriminate E.
    + (* Subscribe *)
      unfold handle_sn. destruct (negb (packet_legal cfg s _));
        [apply SnSum_quiet; [exact HW|apply FW_refl|apply all_mq_nil]|].
      destruct (handle_subscribe_spec cfg s dup qos tit mid tid name) as [[H1 H2]|(H1 & H2 & topic & H3)].
      * apply SnSum_quiet; assumption.
      * eapply (SnSum_slot cfg s _ _ mid); [exact HW|exact H1|exact H3|reflexivity| |].
        -- intros a b c i e E. discriminate E.
        -- intros. apply H2, HW.
Qed.

(* ================================================================== one broker packet *)

Definition MqSum (cfg : gw_cfg) (s : gw_state) (m : mq_pkt) (r : R) : Prop :=
  W (st_of r) /\
  (forall i u, CP s i u -> m <> MqPuback i ->
     (forall a q b c e, m = MqPublish a q b c i e -> q <> 1 /\ q <> 2) -> CP (st_of r) i u) /\
  (forall i u, CS s i u -> (forall cs, m <> MqSuback i cs) ->
     (forall a q b c e, m = MqPublish a q b c i e -> q <> 1 /\ q <> 2) -> CS (st_of r) i u) /\
  (forall i q u, BP cfg s i q u -> (forall a q' b c e, m <> MqPublish a q' b c i e) -> BP cfg (st_of r) i q u) /\
  (forall a1 q a3 a4 a5 i a7, (exists a q' b c j e, m = MqPublish a q' b c j e) ->
     In (Publish a1 q a3 a4 a5 i a7) (SN (outs_of r)) -> q = 1 \/ q = 2 ->
     BP cfg (st_of r) i q (gw_now s + (retry_count cfg + 1) * retry_delay cfg)).

Definition mq_not_pub (m : mq_pkt) : Prop := match m with MqPublish _ _ _ _ _ _ => False | _ => True end.

Lemma MqSum_X0 cfg s m r : W s -> mq_not_pub m -> FWR X0 s r -> MqSum cfg s m r.
Proof.
  intros HW Hnp HF. destruct (HF HW) as [HW' HFR]. split; [exact HW'|]. split; [|split; [|split]].
  - intros i u HC _ _. eapply CP_FR; [exact HFR|exact HC|intros g _ []].
  - intros i u HC _ _. eapply CS_FR; [exact HFR|exact HC|intros g _ []].
  - intros i q u HC _. eapply BP_FR; [exact HFR|exact HC|intros g _ []].
  - intros a1 q a3 a4 a5 i a7 (a & q' & b & c' & j & e & E) _ _. subst m. contradiction.
Qed.

Lemma MqSum_ack cfg s m r mid g0 t0 :
  W s -> mq_ack_mid m = Some mid -> get_by_id s mid = Some (g0, t0) -> mq_ack_txn m t0 ->
  FWR (Xobj g0) s r -> MqSum cfg s m r.
Proof.
  intros HW Hmid Hg Hk HF. destruct (HF HW) as [HW' HFR]. apply get_by_id_held in Hg.
  pose proof (W_held_mid s mid g0 t0 HW Hg) as Hm0. destruct Hg as [Hg1 Hg2].
  split; [exact HW'|]. split; [|split; [|split]].
  - intros i u HC Hn1 _. eapply CP_FR; [exact HFR|exact HC|].
    intros g Hs Hx. unfold Xobj in Hx. subst g.
    destruct HC as (g & tid & [H1 H2] & _). assert (g = g0) by congruence. subst g.
    rewrite H2 in Hg2. injection Hg2 as <-. cbn in Hm0. injection Hm0 as <-.
    destruct m; cbn in Hmid, Hk; try discriminate Hmid; try contradiction.
    injection Hmid as ->. apply Hn1. reflexivity.
  - intros i u HC Hn1 _. eapply CS_FR; [exact HFR|exact HC|].
    intros g Hs Hx. unfold Xobj in Hx. subst g.
    destruct HC as (g & tid & [H1 H2] & _). assert (g = g0) by congruence. subst g.
    rewrite H2 in Hg2. injection Hg2 as <-. cbn in Hm0. injection Hm0 as <-.
    destruct m; cbn in Hmid, Hk; try discriminate Hmid; try contradiction.
    injection Hmid as ->. eapply Hn1. reflexivity.
  - intros i q u HC _. eapply BP_FR; [exact HFR|exact HC|].
    intros g Hs Hx. unfold Xobj in Hx. subst g.
    destruct HC as (g & d' & sp' & n' & sq & T & [H1 H2] & _). assert (g = g0) by congruence. subst g.
    rewrite H2 in Hg2. injection Hg2 as <-.
    destruct m; cbn in Hmid, Hk; try discriminate Hmid; try contradiction.
    destruct (bst_cases q) as [E|E]; rewrite E in Hk; discriminate Hk.
  - intros a1 q a3 a4 a5 i a7 (a & q' & b & c' & j & e & E) _ _. subst m. discriminate Hmid.
Qed.

Lemma handle_mq_summary cfg s m : W s -> wf_mq m -> MqSum cfg s m (handle_mq cfg s m).
Proof.
  intros HW Hwf.
  destruct (match m with MqPublish _ _ _ _ _ _ => true | _ => false end) eqn:Ep.
  - destruct m as [c|sp rc|dup qos retain topic mid payload|mid|mid|mid|mid|mid dup fs|mid codes|mid fs|mid| | |];
      try discriminate Ep.
    cbn [wf_mq] in Hwf. destruct Hwf as (Hq & _ & _ & Hmid & _). cbn [handle_mq].
    destruct (handle_broker_publish_spec cfg s dup qos retain topic mid payload Hq Hmid) as [HF HB].
    destruct (HF HW) as [HW' HFR]. split; [exact HW'|]. split; [|split; [|split]].
    + intros i u HC _ Hp. eapply CP_FR; [exact HFR|exact HC|]. intros g _ [-> Hx].
      destruct (Hp _ _ _ _ _ eq_refl). lia.
    + intros i u HC _ Hp. eapply CS_FR; [exact HFR|exact HC|]. intros g _ [-> Hx].
      destruct (Hp _ _ _ _ _ eq_refl). lia.
    + intros i q u HC Hp. eapply BP_FR; [exact HFR|exact HC|]. intros g _ [-> Hx].
      eapply Hp. reflexivity.
    + intros a1 q a3 a4 a5 i a7 _ Hin Hq12. eapply HB; eassumption.
  - assert (Hnp : mq_not_pub m) by (destruct m; try exact I; discriminate Ep).
    destruct (handle_mq_fw cfg s m Hnp) as [HF|(mid' & g0 & t0 & Hmid & Hg & Hk & HF)].
    + apply MqSum_X0; assumption.
    + eapply MqSum_ack; eassumption.
Qed.

(* ================================================================== gw_step *)

Lemma finish_r_W r a b : W (st_of r) -> W (fst (finish_r r a b)) /\ FR X0 (st_of r) (fst (finish_r r a b)).
Proof. intros HW. apply (finish_r_fw X0 (st_of r) r a b (FW_refl X0 (st_of r)) HW). Qed.

Lemma begin_end_SN s c a b : forall p, In p (SN (snd (begin_end s c a b))) -> p = Disconnect 0.
Proof.
  intros p. unfold begin_end. cbn [snd]. rewrite SN_cons_cancel.
  destruct (gw_st s).
  1,3: intros H; rewrite SN_nil in H; destruct H.
  all: rewrite SN_cons_sn, read_disconnect0, SN_nil; cbn; intros [<-|[]]; reflexivity.
Qed.

Lemma finish_r_SN_in r a b p : In p (SN (outs_of r)) -> In p (SN (snd (finish_r r a b))).
Proof.
  destruct r as [[s o] [|c]]; cbn [finish_r outs_of fst snd]; [auto|].
  destruct (begin_end s c a b) as [s' o']. cbn [snd]. rewrite SN_app. intros H. apply in_or_app. left. exact H.
Qed.

Lemma finish_r_SN_publish r a b a1 a2 a3 a4 a5 a6 a7 :
  In (Publish a1 a2 a3 a4 a5 a6 a7) (SN (snd (finish_r r a b))) -> In (Publish a1 a2 a3 a4 a5 a6 a7) (SN (outs_of r)).
Proof.
  destruct r as [[s o] [|c]]; cbn [finish_r outs_of fst snd]; [auto|].
  pose proof (begin_end_SN s c a b) as Hb. destruct (begin_end s c a b) as [s' o']. cbn [snd] in *.
  rewrite SN_app. intros H. apply in_app_or in H. destruct H as [H|H]; [exact H|].
  specialize (Hb _ H). discriminate Hb.
Qed.

Lemma running_mono cfg s ev : running s = false -> running (fst (gw_step cfg s ev)) = false.
Proof.
  intros Hr. unfold gw_step. destruct (gw_ended s) eqn:Ee; [exact Hr|].
  destruct (gw_ending s) as [te|] eqn:Eg; [|unfold running in Hr; rewrite Ee, Eg in Hr; discriminate Hr].
  destruct ev as [dg|m| | |d|]; try exact Hr.
  pose proof (run_timers_ending cfg (gw_now s + d) (advance_fuel cfg s d) s te Eg) as H.
  destruct (run_timers (advance_fuel cfg s d) cfg s (gw_now s + d)) as [s' o]. cbn [fst] in *.
  destruct (gw_ended s'); exact H.
Qed.

Lemma finish_r_stop_running s o c a b : running (fst (finish_r (stop s o c) a b)) = false.
Proof. unfold stop, finish_r, begin_end, running. cbn. apply andb_false_r. Qed.

Lemma step_other_stops cfg s ev :
  match ev with EvMqRaw | EvMqEof | EvShutdown => True | _ => False end ->
  running (fst (gw_step cfg s ev)) = false.
Proof.
  intros Hev. destruct (running s) eqn:Hr; [|apply running_mono, Hr].
  apply running_spec in Hr. destruct Hr as [He Hg]. unfold gw_step. rewrite He.
  destruct ev; try contradiction; rewrite Hg; apply finish_r_stop_running.
Qed.

Lemma CP_sm s s' i u : sm s s' -> CP s i u -> CP s' i u.
Proof. intros H HC. eapply CP_FR; [apply (FR_sm X0), H|exact HC|intros g _ []]. Qed.
Lemma CS_sm s s' i u : sm s s' -> CS s i u -> CS s' i u.
Proof. intros H HC. eapply CS_FR; [apply (FR_sm X0), H|exact HC|intros g _ []]. Qed.
Lemma BP_sm cfg s s' i q u : sm s s' -> BP cfg s i q u -> BP cfg s' i q u.
Proof. intros H HC. eapply BP_FR; [apply (FR_sm X0), H|exact HC|intros g _ []]. Qed.

Theorem step_sn cfg s dg :
  W s -> running s = true -> wf_bytes dg ->
  W (fst (gw_step cfg s (EvSn dg))) /\
  (forall i u, CP s i u -> ~ In i (MQ (snd (gw_step cfg s (EvSn dg))) ≫= cstart) -> CP (fst (gw_step cfg s (EvSn dg))) i u) /\
  (forall i u, CS s i u -> ~ In i (MQ (snd (gw_step cfg s (EvSn dg))) ≫= cstart) -> CS (fst (gw_step cfg s (EvSn dg))) i u) /\
  (forall i q u, BP cfg s i q u -> ~ In i (MQ (snd (gw_step cfg s (EvSn dg))) ≫= cstart) ->
     (forall a c, read_dgram dg <> Ok (Puback a i c)) -> read_dgram dg <> Ok (Pubrec i) ->
     BP cfg (fst (gw_step cfg s (EvSn dg))) i q u) /\
  (forall a b c i e, In (MqPublish a 1 b c i e) (MQ (snd (gw_step cfg s (EvSn dg)))) ->
     CP (fst (gw_step cfg s (EvSn dg))) i (gw_now s + retry_delay cfg)) /\
  (forall i d fs, In (MqSubscribe i d fs) (MQ (snd (gw_step cfg s (EvSn dg)))) ->
     CS (fst (gw_step cfg s (EvSn dg))) i (gw_now s + retry_delay cfg)) /\
  (forall a b c a1 q a3 a4 a5 i a7, read_dgram dg = Ok (Regack a b c) ->
     In (Publish a1 q a3 a4 a5 i a7) (SN (snd (gw_step cfg s (EvSn dg)))) -> q = 1 \/ q = 2 ->
     BP cfg (fst (gw_step cfg s (EvSn dg))) i q (gw_now s + (retry_count cfg + 1) * retry_delay cfg)).
Proof.
  intros HW Hr Hwf. apply running_spec in Hr. destruct Hr as [He Hg].
  set (s1 := s <| gw_last_sn := gw_now s |>).
  assert (Hsm : sm s s1) by (subst s1; sm_tac).
  assert (HW1 : W s1) by (eapply W_sm; eassumption).
  destruct (read_dgram dg) as [p|err|pps] eqn:Hrd.
  - rewrite (gw_step_sn cfg s dg p He Hg Hrd). fold s1.
    pose proof (read_dgram_dec6 dg p Hwf Hrd) as Hd6.
    destruct (handle_sn_summary cfg s1 p HW1 Hd6) as (S1 & S2 & S3 & S4 & S5 & S6).
    pose proof (handle_sn_regack_BP cfg s1) as S7.
    set (r := handle_sn cfg s1 p) in *.
    destruct (finish_r_W r true false S1) as [HW' HFR].
    rewrite (finish_r_MQ r true false).
    split; [exact HW'|]. split; [|split; [|split; [|split; [|split]]]].
    + intros i u HC Hn. eapply CP_FR; [exact HFR| |intros g _ []]. apply S2; [eapply CP_sm; eassumption|exact Hn].
    + intros i u HC Hn. eapply CS_FR; [exact HFR| |intros g _ []]. apply S3; [eapply CS_sm; eassumption|exact Hn].
    + intros i q u HC Hn Hp1 Hp2. eapply BP_FR; [exact HFR| |intros g _ []].
      apply S4; [eapply BP_sm; eassumption|exact Hn| |].
      * intros a c E. apply (Hp1 a c). rewrite E. reflexivity.
      * intros E. apply Hp2. rewrite E. reflexivity.
    + intros a b c i e Hin. eapply CP_FR; [exact HFR| |intros g _ []]. eapply S5. exact Hin.
    + intros i d fs Hin. eapply CS_FR; [exact HFR| |intros g _ []]. eapply S6. exact Hin.
    + intros a b c a1 q a3 a4 a5 i a7 E Hin Hq. injection E as ->.
      apply finish_r_SN_publish in Hin. eapply BP_FR; [exact HFR| |intros g _ []].
      subst r. eapply (S7 a b c HW1). exact Hin. exact Hq.
  - assert (Hstep : gw_step cfg s (EvSn dg) = finish_r (stop s1 [] EcDecodeError) true false)
      by (unfold gw_step; rewrite He, Hg, Hrd; reflexivity).
    rewrite Hstep. destruct (finish_r_W (stop s1 [] EcDecodeError) true false HW1) as [HW' HFR].
    rewrite finish_r_MQ. cbn [outs_of stop fst snd]. change (st_of (stop s1 [] EcDecodeError)) with s1 in HFR.
    split; [exact HW'|]. split; [|split; [|split; [|split; [|split]]]].
    + intros i u HC _. eapply CP_FR; [exact HFR|eapply CP_sm; eassumption|intros g _ []].
    + intros i u HC _. eapply CS_FR; [exact HFR|eapply CS_sm; eassumption|intros g _ []].
    + intros i q u HC _ _ _. eapply BP_FR; [exact HFR|eapply BP_sm; eassumption|intros g _ []].
    + intros a b c i e [].
    + intros i d fs [].
    + intros a b c a1 q a3 a4 a5 i a7 E. discriminate E.
  - assert (Hstep : gw_step cfg s (EvSn dg) = finish_r (stop s1 [] EcDecodeError) true false)
      by (unfold gw_step; rewrite He, Hg, Hrd; reflexivity).
    rewrite Hstep. destruct (finish_r_W (stop s1 [] EcDecodeError) true false HW1) as [HW' HFR].
    rewrite finish_r_MQ. cbn [outs_of stop fst snd]. change (st_of (stop s1 [] EcDecodeError)) with s1 in HFR.
    split; [exact HW'|]. split; [|split; [|split; [|split; [|split]]]].
    + intros i u HC _. eapply CP_FR; [exact HFR|eapply CP_sm; eassumption|intros g _ []].
    + intros i u HC _. eapply CS_FR; [exact HFR|eapply CS_sm; eassumption|intros g _ []].
    + intros i q u HC _ _ _. eapply BP_FR; [exact HFR|eapply BP_sm; eassumption|intros g _ []].
    + intros a b c i e [].
    + intros i d fs [].
    + intros a b c a1 q a3 a4 a5 i a7 E. discriminate E.
Qed.

Theorem step_mq cfg s m :
  W s -> running s = true -> wf_mq m ->
  W (fst (gw_step cfg s (EvMq m))) /\
  (forall i u, CP s i u -> m <> MqPuback i ->
     (forall a q b c e, m = MqPublish a q b c i e -> q <> 1 /\ q <> 2) -> CP (fst (gw_step cfg s (EvMq m))) i u) /\
  (forall i u, CS s i u -> (forall cs, m <> MqSuback i cs) ->
     (forall a q b c e, m = MqPublish a q b c i e -> q <> 1 /\ q <> 2) -> CS (fst (gw_step cfg s (EvMq m))) i u) /\
  (forall i q u, BP cfg s i q u -> (forall a q' b c e, m <> MqPublish a q' b c i e) ->
     BP cfg (fst (gw_step cfg s (EvMq m))) i q u) /\
  (forall a1 q a3 a4 a5 i a7, (exists a q' b c j e, m = MqPublish a q' b c j e) ->
     In (Publish a1 q a3 a4 a5 i a7) (SN (snd (gw_step cfg s (EvMq m)))) -> q = 1 \/ q = 2 ->
     BP cfg (fst (gw_step cfg s (EvMq m))) i q (gw_now s + (retry_count cfg + 1) * retry_delay cfg)).
Proof.
  intros HW Hr Hwf. apply running_spec in Hr. destruct Hr as [He Hg].
  rewrite (gw_step_mq cfg s m He Hg).
  set (s1 := s <| gw_last_mq := gw_now s |>).
  assert (Hsm : sm s s1) by (subst s1; sm_tac).
  assert (HW1 : W s1) by (eapply W_sm; eassumption).
  destruct (handle_mq_summary cfg s1 m HW1 Hwf) as (S1 & S2 & S3 & S4 & S5).
  set (r := handle_mq cfg s1 m) in *.
  destruct (finish_r_W r false true S1) as [HW' HFR].
  split; [exact HW'|]. split; [|split; [|split]].
  - intros i u HC H1 H2. eapply CP_FR; [exact HFR| |intros g _ []]. apply S2; [eapply CP_sm; eassumption|exact H1|exact H2].
  - intros i u HC H1 H2. eapply CS_FR; [exact HFR| |intros g _ []]. apply S3; [eapply CS_sm; eassumption|exact H1|exact H2].
  - intros i q u HC H1. eapply BP_FR; [exact HFR| |intros g _ []]. apply S4; [eapply BP_sm; eassumption|exact H1].
  - intros a1 q a3 a4 a5 i a7 Hm Hin Hq. apply finish_r_SN_publish in Hin.
    eapply BP_FR; [exact HFR| |intros g _ []]. eapply S5; eassumption.
Qed.

Theorem step_adv cfg s d :
  W s ->
  W (fst (gw_step cfg s (EvAdvance d))) /\
  (forall i u, gw_now s + d < u -> CP s i u -> CP (fst (gw_step cfg s (EvAdvance d))) i u) /\
  (forall i u, gw_now s + d < u -> CS s i u -> CS (fst (gw_step cfg s (EvAdvance d))) i u) /\
  (forall i q u, gw_now s + d < u -> BP cfg s i q u -> BP cfg (fst (gw_step cfg s (EvAdvance d))) i q u).
Proof.
  intros HW. unfold gw_step. destruct (gw_ended s); [apply (EPres_FW cfg _ s s HW (FW_refl X0 s))|].
  pose proof (run_timers_pres cfg (gw_now s + d) (advance_fuel cfg s d) s HW) as H.
  destruct (run_timers (advance_fuel cfg s d) cfg s (gw_now s + d)) as [s' o]. cbn [fst] in *.
  destruct (gw_ended s'); [exact H|].
  eapply EPres_trans; [exact H|]. apply EPres_FW; [exact (proj1 H)|]. apply FW_sm. sm_tac.
Qed.

Theorem step_W cfg s ev : wf_event ev -> W s -> W (fst (gw_step cfg s ev)).
Proof.
  intros Hev HW. destruct (running s) eqn:Hr.
  - destruct ev as [dg|m| | |d|].
    + apply (step_sn cfg s dg HW Hr (proj1 Hev)).
    + apply (step_mq cfg s m HW Hr Hev).
    + apply running_spec in Hr. destruct Hr as [He Hg]. unfold gw_step. rewrite He, Hg.
      apply finish_r_W. cbn. eapply W_sm; [|exact HW]. sm_tac.
    + apply running_spec in Hr. destruct Hr as [He Hg]. unfold gw_step. rewrite He, Hg.
      apply finish_r_W. exact HW.
    + apply (step_adv cfg s d HW).
    + apply running_spec in Hr. destruct Hr as [He Hg]. unfold gw_step. rewrite He, Hg.
      apply finish_r_W. exact HW.
  - destruct ev as [dg|m| | |d|]; try apply (step_adv cfg s d HW).
    all: unfold gw_step; destruct (gw_ended s) eqn:Ee; [exact HW|];
         destruct (gw_ending s) eqn:Eg; [exact HW|]; unfold running in Hr; rewrite Ee, Eg in Hr; discriminate Hr.
Qed.

(* the broker's acknowledgements are relayed to a client that is not asleep *)
Theorem step_mq_puback_relay cfg s i u :
  W s -> running s = true -> gw_st s <> Asleep -> i < 65536 -> CP s i u ->
  exists tid, In (Puback tid i RC_ACCEPTED) (SN (snd (gw_step cfg s (EvMq (MqPuback i))))).
Proof.
  intros HW Hr Hst Hi HC. apply running_spec in Hr. destruct Hr as [He Hg].
  rewrite (gw_step_mq cfg s _ He Hg). set (s1 := s <| gw_last_mq := gw_now s |>).
  assert (Hsm : sm s s1) by (subst s1; sm_tac).
  destruct (handle_mq_puback_relay cfg s1 i u (W_sm _ _ Hsm HW) Hst Hi (CP_sm _ _ _ _ Hsm HC)) as [tid E].
  exists tid. apply finish_r_SN_in. rewrite E. left. reflexivity.
Qed.

Theorem step_mq_suback_relay cfg s i u c :
  Sound_C01C03_aux.Inv s -> running s = true -> gw_st s <> Asleep -> i < 65536 -> CS s i u ->
  exists q tid rc, In (Suback q tid i rc) (SN (snd (gw_step cfg s (EvMq (MqSuback i [c]))))).
Proof.
  intros HI Hr Hst Hi HC. apply running_spec in Hr. destruct Hr as [He Hg].
  rewrite (gw_step_mq cfg s _ He Hg). set (s1 := s <| gw_last_mq := gw_now s |>).
  assert (Hsm : sm s s1) by (subst s1; sm_tac).
  assert (HI1 : Sound_C01C03_aux.Inv s1) by (subst s1; eapply Inv_same; [..|exact HI]; reflexivity).
  destruct (handle_mq_suback_relay cfg s1 i u c HI1 Hst Hi (CS_sm _ _ _ _ Hsm HC)) as (q & tid & rc & E).
  exists q, tid, rc. apply finish_r_SN_in. rewrite E. left. reflexivity.
Qed.

(* the store facts the monitor's entries stand for give the context of C16's clauses 7 and 8 *)
Lemma BP_get cfg s i q u : BP cfg s i q u -> exists g d sp n, get_by_id s i = Some (g, TxBrokerPub i q (bst q) d sp n).
Proof. intros (g & d & sp & n & sq & T & Hh & _). exists g, d, sp, n. apply held_get_by_id, Hh. Qed.
