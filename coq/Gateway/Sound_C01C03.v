(* Gateway/Sound_C01C03.v — the per-step checkers chk_C01 (ChkGw.v) and chk_C03 (ChkGw2.v)
   accept the gateway model's own outputs.

   chk_C01: holds for EVERY state and event (chk_C01_sound_all); chk_C01_sound is a corollary.
   chk_C03: chk_C03_sound for reachable states and well-formed events (the checker accepts the
   refusing SUBACK of a sleeping client waiting in the sleep buffer).
   History-level corollaries (GwRun.run_all): chk_C01_all_histories, chk_C03_all_histories.
   Checker-free statements of C01's core: C01_forward_exact, C01_never_forward_unknown. *)
From stdpp Require Import base option list numbers fin_maps nmap.
From RecordUpdate Require Import RecordSet.
From Coq Require Import Lia ZArith ZifyN ZifyNat ZifyBool.
From Verif.Base Require Import Bytes BytesProofs.
From Verif.Codec Require Import Packets Decode Encode EncodeProofs.
From Verif.Topics Require Import Predefined.
From Verif.Gateway Require Import GwTypes GwStep GwStepProofs GwWf GwRun Sound_C01C03_aux.
From Verif.Checkers Require Import ChkCodec ChkGw ChkGw2.
Import RecordSetNotations.
Open Scope N_scope.
Ltac Zify.zify_post_hook ::= Z.div_mod_to_equations.

(* ------------------------------------------------------------------ the step on a packet *)

Lemma gw_step_sn cfg s dg p :
  gw_ended s = false -> gw_ending s = None -> read_dgram dg = Ok p ->
  gw_step cfg s (EvSn dg) = finish_r (handle_sn cfg (s <| gw_last_sn := gw_now s |>) p) true false.
Proof. intros He Hg Hr. unfold gw_step. rewrite He, Hg, Hr. reflexivity. Qed.

Lemma gw_step_mq cfg s m :
  gw_ended s = false -> gw_ending s = None ->
  gw_step cfg s (EvMq m) = finish_r (handle_mq cfg (s <| gw_last_mq := gw_now s |>) m) false true.
Proof. intros He Hg. unfold gw_step. rewrite He, Hg. reflexivity. Qed.

Lemma running_spec s : running s = true -> gw_ended s = false /\ gw_ending s = None.
Proof.
  unfold running. destruct (gw_ended s); [discriminate|]. destruct (gw_ending s); [discriminate|]. auto.
Qed.

Lemma connected_spec s : connected s = true -> gw_st s <> Disconnected.
Proof. unfold connected. destruct (gw_st s); cbn; congruence. Qed.

Lemma awake_spec s : awake_for_output s = true -> gw_st s <> Asleep.
Proof. unfold awake_for_output. destruct (gw_st s); cbn; congruence. Qed.

Lemma packet_legal_connected cfg s p : gw_st s <> Disconnected -> packet_legal cfg s p = true.
Proof. unfold packet_legal. destruct (gw_st s); [contradiction|reflexivity..]. Qed.

Lemma exactly_self (f : mq_pkt -> bool) (m : mq_pkt) :
  wire m = m -> f m = true -> exactly [m] f m = true.
Proof. intros Hw Hf. rewrite <- Hw at 1. apply exactly_one. rewrite Hw. exact Hf. Qed.

Ltac fold_obs :=
  repeat match goal with
         | |- context [mqs (obs_of_outs ?x)] => change (mqs (obs_of_outs x)) with (MQ x)
         | |- context [sn_pkts (obs_of_outs ?x)] => change (sn_pkts (obs_of_outs x)) with (SN x)
         end.

Ltac mq_eval :=
  unfold new_obj; cbn [mq_send ok stop outs_of fst snd]; rewrite ?MQ_cons_mq, ?MQ_nil.

(* ------------------------------------------------------------------ C01 *)

Lemma resolve_denotes cfg s x tit tid :
  resolve_client_topic cfg (s <| gw_last_sn := x |>) tit tid = denotes cfg s tit tid.
Proof.
  unfold resolve_client_topic, denotes, TIT_REGISTERED, TIT_PREDEFINED, TIT_SHORT.
  change (gw_registered (s <| gw_last_sn := x |>)) with (gw_registered s).
  change (gw_client_id (s <| gw_last_sn := x |>)) with (gw_client_id s).
  destruct tit as [|[[p|p|]|[p|p|]|]]; reflexivity.
Qed.

Lemma packet_legal_publish cfg s x dup q r tit tid mid data :
  packet_legal cfg (s <| gw_last_sn := x |>) (Publish dup q r tit tid mid data) = accepts_publish cfg s q tit.
Proof.
  unfold packet_legal, accepts_publish, TIT_PREDEFINED, TIT_SHORT.
  change (gw_st (s <| gw_last_sn := x |>)) with (gw_st s).
  destruct (gw_st s); try reflexivity. rewrite (orb_comm (tit =? 2)). reflexivity.
Qed.

(* holds in every state, for every event *)
Theorem chk_C01_sound_all : forall cfg s ev,
  chk_C01 cfg s ev (obs_of_outs (snd (gw_step cfg s ev))) = [].
Proof.
  intros cfg s ev. unfold chk_C01.
  destruct (gw_ended s) eqn:He; [reflexivity|].
  destruct (gw_ending s) eqn:Hg; [reflexivity|].
  destruct ev as [dg|m| | |d|]; cbn [ev_packet]; try reflexivity.
  destruct (read_dgram dg) as [p|e|ps] eqn:Hr; try reflexivity.
  destruct_pkt p; try reflexivity.
  rewrite (gw_step_sn cfg s dg _ He Hg Hr). cbv zeta. fold_obs. rewrite finish_r_MQ.
  unfold handle_sn. rewrite packet_legal_publish.
  destruct (accepts_publish cfg s qos tit); cbn [negb]; [|reflexivity].
  unfold handle_client_publish. rewrite resolve_denotes.
  destruct (denotes cfg s tit tid) as [topic|]; [|reflexivity].
  destruct (has_wildcard topic || ((qos =? 1) || (qos =? 2)) && (mid =? 0)); [reflexivity|].
  mq_eval. cbn [wire List.filter is_mq_publish]. rewrite mq_eqb_refl. reflexivity.
Qed.

Theorem chk_C01_sound : forall cfg s ev, wf_cfg cfg -> reach cfg s -> wf_event ev ->
  chk_C01 cfg s ev (obs_of_outs (snd (gw_step cfg s ev))) = [].
Proof. intros cfg s ev _ _ _. apply chk_C01_sound_all. Qed.

(* ------------------------------------------------------------------ C03 *)

Lemma lt3_cases (t : N) : t < 3 -> t = 0 \/ t = 1 \/ t = 2.
Proof. lia. Qed.

Lemma chk_C03_sn cfg s dg :
  wf_bytes dg ->
  chk_C03 cfg s (EvSn dg) (obs_of_outs (snd (gw_step cfg s (EvSn dg)))) = [].
Proof.
  intros Hwf. unfold chk_C03.
  destruct (running s) eqn:Hrun; cbn [negb]; [|reflexivity].
  apply running_spec in Hrun. destruct Hrun as [He Hg]. cbv zeta.
  destruct (connected s) eqn:Hc; cbn [negb]; [|reflexivity]. apply connected_spec in Hc.
  destruct (read_dgram dg) as [p|e|ps] eqn:Hr; try reflexivity.
  pose proof (read_dgram_fact dg p Hwf Hr) as Hfact.
  rewrite (gw_step_sn cfg s dg p He Hg Hr). fold_obs. rewrite finish_r_MQ.
  unfold handle_sn. rewrite packet_legal_connected by exact Hc. cbn [negb].
  set (s1 := s <| gw_last_sn := gw_now s |>).
  destruct_pkt p; try reflexivity.
  - (* Pubrel *)
    destruct (mid =? 0); [reflexivity|]. mq_eval.
    rewrite exactly_self by reflexivity. reflexivity.
  - (* Subscribe *)
    cbn [dec_fact] in Hfact. destruct Hfact as [Htit Hmid].
    unfold handle_subscribe. cbv zeta.
    destruct ((2 <? qos) || (mid =? 0)) eqn:Hq; [reflexivity|].
    apply lt3_cases in Htit. destruct Htit as [-> | [-> | ->]];
      unfold TIT_STRING, TIT_PREDEFINED, TIT_SHORT; cbn [N.eqb Pos.eqb filter_of].
    + (* by name *)
      destruct (has_wildcard name) eqn:Hw; cbn [negb].
      * mq_eval. rewrite exactly_self by reflexivity. reflexivity.
      * destruct (register_topic cfg s1 name) as [s2 [i|]] eqn:Hn.
        -- mq_eval. rewrite exactly_self by reflexivity. reflexivity.
        -- rewrite sn_send_MQ.
           assert (Hst2 : gw_st s2 = gw_st s).
           { pose proof (register_topic_st cfg s1 name) as Hst. rewrite Hn in Hst. exact Hst. }
           assert (Hn0 : snd (register_topic cfg s name) = None).
           { rewrite <- (register_topic_last_sn cfg s (gw_now s) name). fold s1. rewrite Hn. reflexivity. }
           rewrite Hn0.
           destruct (cstate_eqb (gw_st s) Asleep) eqn:Hsl.
           ++ (* asleep: the refusing SUBACK waits in the sleep buffer *)
              cbn [exactly none_of List.filter andb]. rewrite orb_true_r. reflexivity.
           ++ assert (Hawake : gw_st s2 <> Asleep).
              { rewrite Hst2. intros Hs. rewrite Hs in Hsl. discriminate Hsl. }
              rewrite sn_send_awake; [|exact Hawake|apply wf_pkt_suback; unfold RC_INVALID_TOPIC_ID; lia].
              rewrite finish_r_ok. cbn [snd]. rewrite SN_one_pack by (apply wf_pkt_suback; unfold RC_INVALID_TOPIC_ID; lia).
              cbn [exactly none_of List.filter existsb]. rewrite N.eqb_refl. reflexivity.
    + (* predefined *)
      change (gw_client_id s1) with (gw_client_id s).
      destruct (get_name (predefined cfg) (gw_client_id s) tid) as [topic|]; [|reflexivity].
      mq_eval. rewrite exactly_self by reflexivity. reflexivity.
    + (* short *)
      mq_eval. rewrite exactly_self by reflexivity. reflexivity.
  - (* Unsubscribe *)
    cbn [dec_fact] in Hfact. destruct Hfact as [Htit Hmid].
    unfold handle_unsubscribe.
    destruct (mid =? 0); [reflexivity|].
    apply lt3_cases in Htit. destruct Htit as [-> | [-> | ->]];
      unfold TIT_STRING, TIT_PREDEFINED, TIT_SHORT; cbn [N.eqb Pos.eqb filter_of].
    + mq_eval. rewrite exactly_self by reflexivity. reflexivity.
    + change (gw_client_id s1) with (gw_client_id s).
      destruct (get_name (predefined cfg) (gw_client_id s) tid) as [topic|]; [|reflexivity].
      mq_eval. rewrite exactly_self by reflexivity. reflexivity.
    + mq_eval. rewrite exactly_self by reflexivity. reflexivity.
  - (* Pingreq *)
    change (gw_st s1) with (gw_st s).
    destruct (cstate_eqb (gw_st s) Asleep).
    + rewrite andthen_MQ_nil; [reflexivity|apply send_all_MQ|].
      intros s'. apply andthen_MQ_nil; [apply sn_send_MQ|reflexivity].
    + mq_eval. rewrite exactly_self by reflexivity. reflexivity.
  - (* Disconnect *)
    destruct (dur =? 0); [|reflexivity].
    rewrite andthen_mq_send_MQ.
    rewrite andthen_MQ_nil; [|apply sn_send_MQ|reflexivity].
    rewrite exactly_one by reflexivity. reflexivity.
Qed.

Lemma chk_C03_mq cfg s m :
  Inv s -> wf_mq m ->
  chk_C03 cfg s (EvMq m) (obs_of_outs (snd (gw_step cfg s (EvMq m)))) = [].
Proof.
  intros HI Hwf. unfold chk_C03.
  destruct (running s) eqn:Hrun; cbn [negb]; [|reflexivity].
  apply running_spec in Hrun. destruct Hrun as [He Hg]. cbv zeta.
  destruct (awake_for_output s) eqn:Ha; cbn [negb]; [|reflexivity]. apply awake_spec in Ha.
  rewrite (gw_step_mq cfg s m He Hg). fold_obs.
  set (s1 := s <| gw_last_mq := gw_now s |>).
  assert (Ha1 : gw_st s1 <> Asleep) by exact Ha.
  destruct m as [c|sp rc|dup qos retain topic mid payload|mid|mid|mid|mid|mid dup fs|mid codes|mid fs|mid| | |];
    try reflexivity; cbn [wf_mq] in Hwf; cbn [handle_mq].
  - (* MqPubrec *)
    destruct (wf_pkt_mid1 mid Hwf) as (Hp & _ & _).
    rewrite sn_send_awake, finish_r_ok by assumption. cbn [snd]. rewrite SN_one_pack by exact Hp.
    rewrite exactly_sn_one by reflexivity. reflexivity.
  - (* MqPubcomp *)
    destruct (wf_pkt_mid1 mid Hwf) as (_ & Hp & _).
    rewrite sn_send_awake, finish_r_ok by assumption. cbn [snd]. rewrite SN_one_pack by exact Hp.
    rewrite exactly_sn_one by reflexivity. reflexivity.
  - (* MqSuback *)
    destruct Hwf as [Hmid Hcodes].
    change (get_by_id s1 mid) with (get_by_id s mid).
    destruct (get_by_id s mid) as [[g t]|] eqn:Hget; [|reflexivity].
    destruct t as [mq st|m0 tid|m0 tid|m0 q st dat snpub rn]; try reflexivity.
    destruct codes as [|c [|c' cs]]; try reflexivity.
    assert (Htid : tid < 65536).
    { exact (Inv_get_by_id s mid g _ HI Hget). }
    assert (Hc : c < 256).
    { apply is_byte_lt. exact (proj1 (List.Forall_forall _ _) Hcodes c (or_introl eq_refl)). }
    destruct (c <=? 2) eqn:Hc2.
    + assert (Hp : wf_pkt (Suback c tid mid RC_ACCEPTED) = true)
        by (apply wf_pkt_suback; unfold RC_ACCEPTED; lia).
      rewrite sn_send_awake; [|destruct (gw_registered (finish_obj s1 g) !! tid); cbn [note_handed];
                               [change (gw_st (finish_obj s1 g) <> Asleep)|];
                               rewrite finish_obj_st; exact Ha1|exact Hp].
      rewrite finish_r_ok. cbn [snd]. rewrite SN_one_pack by exact Hp.
      rewrite exactly_sn_one by reflexivity. reflexivity.
    + assert (Hp : wf_pkt (Suback 0 tid mid RC_NOT_SUPPORTED) = true)
        by (apply wf_pkt_suback; unfold RC_NOT_SUPPORTED; lia).
      rewrite sn_send_awake; [|rewrite finish_obj_st; exact Ha1|exact Hp].
      rewrite finish_r_ok. cbn [snd]. rewrite SN_one_pack by exact Hp.
      cbn [List.filter is_sn_suback]. rewrite N.eqb_refl. reflexivity.
  - (* MqUnsuback *)
    destruct (wf_pkt_mid1 mid Hwf) as (_ & _ & Hp).
    rewrite sn_send_awake, finish_r_ok by assumption. cbn [snd]. rewrite SN_one_pack by exact Hp.
    rewrite exactly_sn_one by reflexivity. reflexivity.
  - (* MqPingresp *)
    change (gw_st s1) with (gw_st s).
    destruct (cstate_eqb (gw_st s) Active); [|reflexivity].
    rewrite sn_send_awake, finish_r_ok by (try assumption; reflexivity). cbn [snd].
    rewrite SN_one_pack by reflexivity. rewrite exactly_sn_one by reflexivity. reflexivity.
Qed.

(* chk_C03 accepts every step of the model from a state satisfying the invariant *)
Theorem chk_C03_sound_inv : forall cfg s ev, Inv s -> wf_event ev ->
  chk_C03 cfg s ev (obs_of_outs (snd (gw_step cfg s ev))) = [].
Proof.
  intros cfg s ev HI Hev. destruct ev as [dg|m| | |d|].
  - apply chk_C03_sn. exact (proj1 Hev).
  - apply chk_C03_mq; assumption.
  - unfold chk_C03. destruct (negb (running s)); reflexivity.
  - unfold chk_C03. destruct (negb (running s)); reflexivity.
  - unfold chk_C03. destruct (negb (running s)); reflexivity.
  - unfold chk_C03. destruct (negb (running s)); reflexivity.
Qed.

Theorem chk_C03_sound : forall cfg s ev, wf_cfg cfg -> reach cfg s -> wf_event ev ->
  chk_C03 cfg s ev (obs_of_outs (snd (gw_step cfg s ev))) = [].
Proof.
  intros cfg s ev Hcfg Hreach Hev. apply chk_C03_sound_inv; [|assumption].
  apply (reach_inv cfg Hcfg s Hreach).
Qed.

(* ------------------------------------------------------------------ every history *)

Theorem chk_C01_all_histories : forall cfg evs,
  run_all cfg (fun s ev => chk_C01 cfg s ev (obs_of_outs (snd (gw_step cfg s ev))) = [])
          (init_state cfg) evs.
Proof.
  intros cfg evs. apply (run_all_impl cfg (fun _ _ => True)); [|apply run_all_true].
  intros s ev _. apply chk_C01_sound_all.
Qed.

Theorem chk_C03_all_histories : forall cfg evs, wf_cfg cfg -> Forall wf_event evs ->
  run_all cfg (fun s ev => chk_C03 cfg s ev (obs_of_outs (snd (gw_step cfg s ev))) = [])
          (init_state cfg) evs.
Proof.
  intros cfg evs Hcfg Hevs.
  apply (run_all_lift cfg (fun _ _ => True)); [|apply reach_init|exact Hevs|apply run_all_true].
  intros s ev Hr Hev _. apply chk_C03_sound; assumption.
Qed.

(* ------------------------------------------------------------------ C01, checker-free *)

(* A client PUBLISH the session accepts, whose topic ID denotes a topic name and which can be
   translated to a valid MQTT PUBLISH, is forwarded as exactly one MQTT PUBLISH: same DUP,
   retain, message ID and payload, the denoted topic name, QoS -1 mapped to QoS 0. *)
Theorem C01_forward_exact : forall cfg s dg dup q r tit tid mid data topic,
  gw_ended s = false -> gw_ending s = None ->
  read_dgram dg = Ok (Publish dup q r tit tid mid data) ->
  accepts_publish cfg s q tit = true ->
  denotes cfg s tit tid = Some topic ->
  has_wildcard topic = false ->
  (((q =? 1) || (q =? 2)) && (mid =? 0)) = false ->
  List.filter is_mq_publish (mqs (obs_of_outs (snd (gw_step cfg s (EvSn dg))))) =
  [wire (MqPublish dup (if q =? 3 then 0 else q) r topic mid data)].
Proof.
  intros cfg s dg dup q r tit tid mid data topic He Hg Hr Hacc Hden Hw Hmid.
  rewrite (gw_step_sn cfg s dg _ He Hg Hr). fold_obs. rewrite finish_r_MQ.
  unfold handle_sn. rewrite packet_legal_publish, Hacc. cbn [negb].
  unfold handle_client_publish. rewrite resolve_denotes, Hden, Hw, Hmid. cbn [orb].
  mq_eval. reflexivity.
Qed.

(* A client PUBLISH whose topic ID denotes nothing is never forwarded (any state). *)
Theorem C01_never_forward_unknown : forall cfg s dg dup q r tit tid mid data,
  read_dgram dg = Ok (Publish dup q r tit tid mid data) ->
  denotes cfg s tit tid = None ->
  List.filter is_mq_publish (mqs (obs_of_outs (snd (gw_step cfg s (EvSn dg))))) = [].
Proof.
  intros cfg s dg dup q r tit tid mid data Hr Hden.
  destruct (gw_ended s) eqn:He; [unfold gw_step; rewrite He; reflexivity|].
  destruct (gw_ending s) eqn:Hg; [unfold gw_step; rewrite He, Hg; reflexivity|].
  rewrite (gw_step_sn cfg s dg _ He Hg Hr). fold_obs. rewrite finish_r_MQ.
  unfold handle_sn. destruct (negb (packet_legal cfg _ _)); [reflexivity|].
  unfold handle_client_publish. rewrite resolve_denotes, Hden. reflexivity.
Qed.

Print Assumptions chk_C01_sound_all.
Print Assumptions chk_C03_sound.
Print Assumptions chk_C01_all_histories.
Print Assumptions chk_C03_all_histories.
Print Assumptions C01_forward_exact.
Print Assumptions C01_never_forward_unknown.
