(* Gateway/Sound_C06.v — the positive half of C06 for the gateway model.

   The monitor mon6 (Checkers/ChkGw4.v) keeps the exchanges of both directions by message ID AND
   direction and reports, for an acknowledgement of a live exchange that is not relayed, clause c when
   an exchange of the other direction used the same message ID during the life of the exchange (the
   interference the property is about, C06_gateway_refuted in Properties/C06.v), 10 + c when there was
   no such interference and 20 + c when a client exchange superseded an unfinished client exchange with
   the same ID.

   C06_only_interference_fails: on every well-formed history the model produces failures of the first
   class only.  No side condition is needed (in particular none on the model's clock: the store's
   finish is identity-aware, so overdue timers of superseded objects do no harm).

   Proof: the invariant MI relates the monitor's book to the store (Sound_C06_aux.v): a live entry of
   x_cpub / x_csub / x_bpub for which no interference is recorded stands for CP / CS / BP, i.e. the
   store's slot of the message ID holds the object of that exchange, which is not timed out before
   the entry expires; an entry of x_bpub exists only in a connected session. *)
From Coq Require Import List NArith Bool Lia ZArith ZifyN ZifyNat ZifyBool.
From stdpp Require Import base option list numbers fin_maps nmap.
From RecordUpdate Require Import RecordSet.
From Verif.Base Require Import Bytes BytesProofs.
From Verif.Codec Require Import Packets Decode Encode EncodeProofs.
From Verif.Topics Require Import Predefined.
From Verif.Gateway Require Import GwTypes GwStep GwStepProofs GwWf GwWfDec GwRun Sound_C01C03_aux Sound_C01C03 Sound_C16b
     Sound_C06_aux.
From Verif.Checkers Require Import ChkCodec ChkGw ChkGw2 ChkGw4 ChkGw5.
Import RecordSetNotations.
Open Scope N_scope.
Ltac Zify.zify_post_hook ::= Z.div_mod_to_equations.

(* ================================================================== lists of the monitor *)

Lemma memN_In i l : memN i l = true <-> In i l.
Proof.
  unfold memN. rewrite existsb_exists. split.
  - intros (x & Hin & E). apply N.eqb_eq in E. subst x. exact Hin.
  - intros H. exists i. split; [exact H|apply N.eqb_refl].
Qed.

Lemma memN_false i l : memN i l = false <-> ~ In i l.
Proof. rewrite <- memN_In. destruct (memN i l); split; congruence. Qed.

Lemma has2_In m l : has2 m l = true <-> exists u, In (m, u) l.
Proof.
  unfold has2. rewrite existsb_exists. split.
  - intros ([i u] & Hin & E). cbn in E. apply N.eqb_eq in E. subst i. eauto.
  - intros (u & Hin). exists (m, u). split; [exact Hin|cbn; apply N.eqb_refl].
Qed.

Lemma any3_In m l : any3 m l = true <-> exists q u, In (m, q, u) l.
Proof.
  unfold any3. rewrite existsb_exists. split.
  - intros ([[i q] u] & Hin & E). cbn in E. apply N.eqb_eq in E. subst i. eauto.
  - intros (q & u & Hin). exists (m, q, u). split; [exact Hin|cbn; apply N.eqb_refl].
Qed.

Lemma has3_In m q l : has3 m q l = true <-> exists u, In (m, q, u) l.
Proof.
  unfold has3. rewrite existsb_exists. split.
  - intros ([[i q'] u] & Hin & E). cbn in E. apply andb_true_iff in E. destruct E as [E1 E2].
    apply N.eqb_eq in E1, E2. subst i q'. eauto.
  - intros (u & Hin). exists (m, q, u). split; [exact Hin|cbn; rewrite !N.eqb_refl; reflexivity].
Qed.

Lemma live2_In t e l : In e (live2 t l) <-> In e l /\ t < snd e.
Proof. unfold live2. rewrite filter_In, N.ltb_lt. tauto. Qed.

Lemma live3_In t e l : In e (live3 t l) <-> In e l /\ t < snd e.
Proof. unfold live3. rewrite filter_In, N.ltb_lt. tauto. Qed.

Lemma del2_In m e l : In e (del2 m l) <-> In e l /\ fst e <> m.
Proof. unfold del2. rewrite filter_In, negb_true_iff, N.eqb_neq. tauto. Qed.

Lemma del3_In m e l : In e (del3 m l) <-> In e l /\ fst (fst e) <> m.
Proof. unfold del3. rewrite filter_In, negb_true_iff, N.eqb_neq. tauto. Qed.

Lemma in_bind {A B} (f : A -> list B) (l : list A) (y : B) : In y (l ≫= f) <-> exists x, In x l /\ In y (f x).
Proof.
  rewrite <- elem_of_list_In, elem_of_list_bind. split; intros (x & H1 & H2); exists x;
    rewrite <- ?elem_of_list_In in *; rewrite ?elem_of_list_In in *; tauto.
Qed.

(* ================================================================== the monitor, field by field *)

Section Fields.
Variables (cfg : gw_cfg) (s : gw_state) (ev : gw_event) (os : list obs) (m : mon6).

Definition f_t0 := gw_now s.
Definition f_ms := mqs os.
Definition f_ps := sn_pkts os.
Definition f_cpub := live2 f_t0 (x_cpub m).
Definition f_csub := live2 f_t0 (x_csub m).
Definition f_bpub := live3 f_t0 (x_bpub m).
Definition f_breg := live2 f_t0 (x_breg m).
Definition f_cpub1 := match ev with EvMq (MqPuback i) => del2 i f_cpub | _ => f_cpub end.
Definition f_csub1 := match ev with EvMq (MqSuback i _) => del2 i f_csub | _ => f_csub end.
Definition f_bpub1 :=
  match ev with
  | EvMq (MqPublish _ _ _ _ i _) => del3 i f_bpub
  | _ => match ev_packet ev with
         | Some (Puback _ i _) | Some (Pubrec i) => del3 i f_bpub
         | _ => f_bpub end
  end.
Definition f_is_sn := match ev with EvSn _ => true | _ => false end.
Definition f_newc := if f_is_sn then f_ms ≫= cstart else [].
Definition f_keep (l : list (N * N)) := List.filter (fun e => negb (memN (fst e) f_newc)) l.
Definition f_cpub2 :=
  if f_is_sn then
    f_keep f_cpub1 ++ (f_ms ≫= (fun p => match p with MqPublish _ 1 _ _ i _ => [(i, f_t0 + retry_delay cfg)] | _ => [] end))
  else f_cpub1.
Definition f_csub2 :=
  if f_is_sn then
    f_keep f_csub1 ++ (f_ms ≫= (fun p => match p with MqSubscribe i _ _ => [(i, f_t0 + retry_delay cfg)] | _ => [] end))
  else f_csub1.
Definition f_direct :=
  connected s &&
  match ev with
  | EvMq (MqPublish _ _ _ _ _ _) => true
  | EvSn _ => match ev_packet ev with Some (Regack _ _ _) => true | _ => false end
  | _ => false end.
Definition f_bpub2 :=
  if f_direct then
    f_bpub1 ++ (f_ps ≫= (fun p => match p with
                                  | Publish false q _ _ _ i _ =>
                                    if (q =? 1) || (q =? 2) then [(i, q, f_t0 + (retry_count cfg + 1) * retry_delay cfg)] else []
                                  | _ => [] end))
  else f_bpub1.
Definition f_breg2 :=
  match ev with
  | EvMq (MqPublish _ q _ _ i _) =>
    if (q =? 1) || (q =? 2) then del2 i f_breg ++ [(i, f_t0 + 2 * (retry_count cfg + 1) * retry_delay cfg)] else f_breg
  | _ => f_breg end.
Definition f_both := List.filter (fun i => any3 i f_bpub2 || has2 i f_breg2) (map fst (f_cpub2 ++ f_csub2)).
Definition f_cint2 := List.filter (fun i => has2 i f_cpub1 || has2 i f_csub1) (x_cint m) ++ f_both.
Definition f_bint2 := List.filter (fun i => any3 i f_bpub1) (x_bint m) ++ f_both.
Definition f_awake := running s && awake_for_output s.
Definition f_cls (other : bool) (c : N) : list N := [if other then c else 10 + c].
Definition f_cls2 (other : bool) (i c : N) : list N := [if other then c else if memN i (x_csup m) then 20 + c else 10 + c].
Definition f_fails : list N :=
  if negb (running s) then [] else
  match ev with
  | EvMq (MqPuback i) =>
    if has2 i f_cpub && f_awake && negb (existsb (is_sn_puback_for i) f_ps)
    then f_cls2 (any3 i f_bpub || has2 i f_breg || memN i (x_cint m)) i 1 else []
  | EvMq (MqSuback i codes) =>
    if has2 i f_csub && f_awake && (len codes =? 1) && negb (existsb (is_sn_suback_for i) f_ps)
    then f_cls2 (any3 i f_bpub || has2 i f_breg || memN i (x_cint m)) i 2 else []
  | EvSn dg =>
    match read_dgram dg with
    | Ok (Puback _ i rc) =>
      if has3 i 1 f_bpub && (rc =? RC_ACCEPTED) && negb (existsb (is_mq_puback_for i) f_ms)
      then f_cls (has2 i f_cpub || has2 i f_csub || memN i (x_bint m)) 3 else []
    | Ok (Pubrec i) =>
      if has3 i 2 f_bpub && negb (existsb (is_mq_pubrec_for i) f_ms)
      then f_cls (has2 i f_cpub || has2 i f_csub || memN i (x_bint m)) 4 else []
    | _ => []
    end
  | _ => []
  end.

Lemma mon6_step_eq :
  exists csup' breg',
  mon6_step cfg s ev os m =
  ({| x_cpub := f_cpub2; x_csub := f_csub2; x_bpub := f_bpub2; x_breg := breg'; x_csup := csup';
      x_cint := f_cint2; x_bint := f_bint2 |}, f_fails).
Proof. eexists. eexists. reflexivity. Qed.
End Fields.

(* ---- facts about the fields *)

Lemma memN_app i a b : memN i (a ++ b) = memN i a || memN i b.
Proof. unfold memN. apply existsb_app. Qed.

Lemma memN_filter_false i (f : N -> bool) l : memN i (List.filter f l) = false -> f i = true -> memN i l = false.
Proof.
  intros H Hf. apply memN_false. intros Hin. apply memN_false in H. apply H. apply filter_In. split; assumption.
Qed.

Section FieldFacts.
Variables (cfg : gw_cfg) (s : gw_state) (ev : gw_event) (os : list obs) (m : mon6).
Notation cpub1 := (f_cpub1 s ev m).
Notation csub1 := (f_csub1 s ev m).
Notation bpub1 := (f_bpub1 s ev m).
Notation cpub2 := (f_cpub2 cfg s ev os m).
Notation csub2 := (f_csub2 cfg s ev os m).
Notation bpub2 := (f_bpub2 cfg s ev os m).
Notation breg2 := (f_breg2 cfg s ev m).

Lemma cint_old i : memN i (f_cint2 cfg s ev os m) = false -> has2 i cpub1 || has2 i csub1 = true ->
  memN i (x_cint m) = false.
Proof.
  unfold f_cint2. rewrite memN_app. intros H Hf. apply orb_false_iff in H. destruct H as [H _].
  eapply memN_filter_false; [exact H|exact Hf].
Qed.

Lemma bint_old i : memN i (f_bint2 cfg s ev os m) = false -> any3 i bpub1 = true -> memN i (x_bint m) = false.
Proof.
  unfold f_bint2. rewrite memN_app. intros H Hf. apply orb_false_iff in H. destruct H as [H _].
  eapply memN_filter_false; [exact H|exact Hf].
Qed.

Lemma both_none i : memN i (f_both cfg s ev os m) = false -> In i (map fst (cpub2 ++ csub2)) ->
  any3 i bpub2 || has2 i breg2 = false.
Proof.
  intros H Hin. apply memN_false in H. destruct (any3 i bpub2 || has2 i breg2) eqn:E; [|reflexivity].
  exfalso. apply H. unfold f_both. apply filter_In. split; assumption.
Qed.

Lemma cint_both i : memN i (f_cint2 cfg s ev os m) = false -> memN i (f_both cfg s ev os m) = false.
Proof. unfold f_cint2. rewrite memN_app. intros H. apply orb_false_iff in H. tauto. Qed.

Lemma bint_both i : memN i (f_bint2 cfg s ev os m) = false -> memN i (f_both cfg s ev os m) = false.
Proof. unfold f_bint2. rewrite memN_app. intros H. apply orb_false_iff in H. tauto. Qed.

Lemma in_c2_cpub i u : In (i, u) cpub2 -> In i (map fst (cpub2 ++ csub2)).
Proof. intros H. apply in_map_iff. exists (i, u). split; [reflexivity|apply in_or_app; left; exact H]. Qed.

Lemma in_c2_csub i u : In (i, u) csub2 -> In i (map fst (cpub2 ++ csub2)).
Proof. intros H. apply in_map_iff. exists (i, u). split; [reflexivity|apply in_or_app; right; exact H]. Qed.
End FieldFacts.

(* new client exchanges of an EvSn step *)
Lemma new_cpub_In cfg t0 ms i u :
  In (i, u) (ms ≫= (fun p => match p with MqPublish _ 1 _ _ i _ => [(i, t0 + retry_delay cfg)] | _ => [] end)) <->
  u = t0 + retry_delay cfg /\ exists a b c e, In (MqPublish a 1 b c i e) ms.
Proof.
  rewrite in_bind. split.
  - intros (p & Hp & Hin). destruct p as [| |a q b c j e| | | | | | | | | | |]; try (exfalso; exact Hin).
    destruct q as [|[q|q|]]; try (exfalso; exact Hin). destruct Hin as [E|[]]. injection E as <- <-. split; [reflexivity|eauto].
  - intros (-> & a & b & c & e & Hp). exists (MqPublish a 1 b c i e). split; [exact Hp|left; reflexivity].
Qed.

Lemma new_csub_In cfg t0 ms i u :
  In (i, u) (ms ≫= (fun p => match p with MqSubscribe i _ _ => [(i, t0 + retry_delay cfg)] | _ => [] end)) <->
  u = t0 + retry_delay cfg /\ exists d fs, In (MqSubscribe i d fs) ms.
Proof.
  rewrite in_bind. split.
  - intros (p & Hp & Hin). destruct p as [| | | | | | |j d fs| | | | | |]; try (exfalso; exact Hin).
    destruct Hin as [E|[]]. injection E as <- <-. split; [reflexivity|eauto].
  - intros (-> & d & fs & Hp). exists (MqSubscribe i d fs). split; [exact Hp|left; reflexivity].
Qed.

Lemma new_bpub_In cfg t0 ps i q u :
  In (i, q, u) (ps ≫= (fun p => match p with
                                | Publish false q _ _ _ i _ =>
                                  if (q =? 1) || (q =? 2) then [(i, q, t0 + (retry_count cfg + 1) * retry_delay cfg)] else []
                                | _ => [] end)) ->
  u = t0 + (retry_count cfg + 1) * retry_delay cfg /\ (q = 1 \/ q = 2) /\
  exists a3 a4 a5 a7, In (Publish false q a3 a4 a5 i a7) ps.
Proof.
  rewrite in_bind. intros (p & Hp & Hin). destruct_pkt p; try (exfalso; exact Hin).
  destruct dup; [exfalso; exact Hin|].
  destruct ((qos =? 1) || (qos =? 2)) eqn:Eq; [|exfalso; exact Hin]. destruct Hin as [E|[]]. injection E as <- <- <-.
  split; [reflexivity|]. split; [lia|eauto].
Qed.

Lemma cstart_In i ms : In i (ms ≫= cstart) ->
  (exists a b c e, In (MqPublish a 1 b c i e) ms) \/ (exists d fs, In (MqSubscribe i d fs) ms).
Proof.
  rewrite in_bind. intros (p & Hp & Hin). destruct p as [| |a q b c j e| | | | |j d fs| | | | | |]; try (exfalso; exact Hin).
  - destruct q as [|[q|q|]]; try (exfalso; exact Hin). destruct Hin as [<-|[]]. left. eauto.
  - destruct Hin as [<-|[]]. right. eauto.
Qed.

(* ================================================================== the invariant *)

Definition MI (cfg : gw_cfg) (s : gw_state) (m : mon6) : Prop :=
  (forall i u, In (i, u) (x_cpub m) -> gw_now s < u -> memN i (x_cint m) = false -> CP s i u) /\
  (forall i u, In (i, u) (x_csub m) -> gw_now s < u -> memN i (x_cint m) = false -> CS s i u) /\
  (forall i q u, In (i, q, u) (x_bpub m) -> gw_now s < u -> memN i (x_bint m) = false -> BP cfg s i q u) /\
  (forall e, In e (x_bpub m) -> connected s = true).

Lemma MI_init cfg : MI cfg (init_state cfg) mon6_init.
Proof. repeat split; intros; contradiction. Qed.

(* ---- the relays of C16 in the form the monitor asks for *)

Lemma bst1 : bst 1 = AwaitPuback. Proof. reflexivity. Qed.
Lemma bst2 : bst 2 = AwaitPubrec. Proof. reflexivity. Qed.

Lemma relay3 cfg s dg a i rc u :
  running s = true -> connected s = true -> read_dgram dg = Ok (Puback a i rc) -> (rc =? RC_ACCEPTED) = true ->
  BP cfg s i 1 u ->
  existsb (is_mq_puback_for i) (mqs (obs_of_outs (snd (gw_step cfg s (EvSn dg))))) = true.
Proof.
  intros Hr Hc Hrd Hrc HB. pose proof (chk_C16_sn cfg s dg) as H. unfold chk_C16 in H.
  rewrite Hr, Hrd in H. cbn [negb] in H.
  rewrite (packet_legal_connected cfg s _ (connected_spec s Hc)) in H. cbn [negb] in H.
  destruct (BP_get cfg s i 1 u HB) as (g & d & sp & n & Hg).
  unfold bp_awaits in H. rewrite Hg, bst1, Hrc in H. cbn [N.eqb Pos.eqb bp_state_eqb andb] in H.
  unfold has_mq in H.
  match type of H with context [existsb ?f ?l] => change (existsb f l) with (existsb (is_mq_puback_for i) l) in H;
    destruct (existsb (is_mq_puback_for i) l) end; [reflexivity|discriminate H].
Qed.

Lemma relay4 cfg s dg i u :
  running s = true -> connected s = true -> read_dgram dg = Ok (Pubrec i) -> BP cfg s i 2 u ->
  existsb (is_mq_pubrec_for i) (mqs (obs_of_outs (snd (gw_step cfg s (EvSn dg))))) = true.
Proof.
  intros Hr Hc Hrd HB. pose proof (chk_C16_sn cfg s dg) as H. unfold chk_C16 in H.
  rewrite Hr, Hrd in H. cbn [negb] in H.
  rewrite (packet_legal_connected cfg s _ (connected_spec s Hc)) in H. cbn [negb] in H.
  destruct (BP_get cfg s i 2 u HB) as (g & d & sp & n & Hg).
  unfold bp_awaits in H. rewrite Hg, bst2 in H. cbn [N.eqb Pos.eqb bp_state_eqb andb] in H.
  unfold has_mq in H.
  match type of H with context [existsb ?f ?l] => change (existsb f l) with (existsb (is_mq_pubrec_for i) l) in H;
    destruct (existsb (is_mq_pubrec_for i) l) end; [reflexivity|discriminate H].
Qed.

(* ================================================================== one step: a client packet *)

Lemma bpub1_sn_In s dg m e :
  In e (f_bpub1 s (EvSn dg) m) ->
  In e (f_bpub s m) /\ (forall a c, read_dgram dg <> Ok (Puback a (fst (fst e)) c)) /\
  read_dgram dg <> Ok (Pubrec (fst (fst e))).
Proof.
  unfold f_bpub1, ev_packet. destruct (read_dgram dg) as [p|err|pps].
  2,3: intros H; split; [exact H|split; [intros a c E; discriminate E|intros E; discriminate E]].
  destruct_pkt p;
    try (intros H; split; [exact H|split; [intros a c E; discriminate E|intros E; discriminate E]]).
  - intros H. apply del3_In in H. destruct H as [H Hne]. split; [exact H|]. split.
    + intros a c E. injection E as _ E _. congruence.
    + intros E. discriminate E.
  - intros H. apply del3_In in H. destruct H as [H Hne]. split; [exact H|]. split.
    + intros a c E. discriminate E.
    + intros E. injection E as E. congruence.
Qed.

Lemma sound_sn cfg s dg m :
  W s -> running s = true -> wf_bytes dg -> MI cfg s m ->
  (running (fst (gw_step cfg s (EvSn dg))) = true ->
   MI cfg (fst (gw_step cfg s (EvSn dg)))
      (fst (mon6_step cfg s (EvSn dg) (obs_of_outs (snd (gw_step cfg s (EvSn dg)))) m))) /\
  (forall c, In c (snd (mon6_step cfg s (EvSn dg) (obs_of_outs (snd (gw_step cfg s (EvSn dg)))) m)) -> c < 10).
Proof.
  intros HW Hr Hwf (M1 & M2 & M3 & M4).
  destruct (step_sn cfg s dg HW Hr Hwf) as (T1 & T2 & T3 & T4 & T5 & T6 & T7).
  set (ev := EvSn dg) in *. set (outs := snd (gw_step cfg s ev)) in *. set (s' := fst (gw_step cfg s ev)) in *.
  set (os := obs_of_outs outs).
  destruct (mon6_step_eq cfg s ev os m) as (csup' & breg' & ->). cbn [fst snd].
  change (MQ outs) with (f_ms os) in *. change (SN outs) with (f_ps os) in *.
  assert (Hc1 : f_cpub1 s ev m = f_cpub s m) by reflexivity.
  assert (Hs1 : f_csub1 s ev m = f_csub s m) by reflexivity.
  assert (Hnewc : f_newc ev os = f_ms os ≫= cstart) by reflexivity.
  assert (Hc2 : forall i u, In (i, u) (f_cpub2 cfg s ev os m) ->
            (In (i, u) (x_cpub m) /\ gw_now s < u /\ ~ In i (f_ms os ≫= cstart)) \/
            (u = gw_now s + retry_delay cfg /\ exists a b c e, In (MqPublish a 1 b c i e) (f_ms os))).
  { intros i u Hin. unfold f_cpub2 in Hin. cbn [f_is_sn ev] in Hin. apply in_app_or in Hin. destruct Hin as [Hin|Hin].
    - left. unfold f_keep in Hin. apply filter_In in Hin. destruct Hin as [Hin Hk]. rewrite Hc1 in Hin.
      apply live2_In in Hin. destruct Hin as [Hin Hlt]. split; [exact Hin|]. split; [exact Hlt|].
      apply negb_true_iff, memN_false in Hk. rewrite Hnewc in Hk. exact Hk.
    - right. apply new_cpub_In in Hin. exact Hin. }
  assert (Hs2 : forall i u, In (i, u) (f_csub2 cfg s ev os m) ->
            (In (i, u) (x_csub m) /\ gw_now s < u /\ ~ In i (f_ms os ≫= cstart)) \/
            (u = gw_now s + retry_delay cfg /\ exists d fs, In (MqSubscribe i d fs) (f_ms os))).
  { intros i u Hin. unfold f_csub2 in Hin. cbn [f_is_sn ev] in Hin. apply in_app_or in Hin. destruct Hin as [Hin|Hin].
    - left. unfold f_keep in Hin. apply filter_In in Hin. destruct Hin as [Hin Hk]. rewrite Hs1 in Hin.
      apply live2_In in Hin. destruct Hin as [Hin Hlt]. split; [exact Hin|]. split; [exact Hlt|].
      apply negb_true_iff, memN_false in Hk. rewrite Hnewc in Hk. exact Hk.
    - right. apply new_csub_In in Hin. exact Hin. }
  assert (Hnew_in : forall i, In i (f_ms os ≫= cstart) -> In i (map fst (f_cpub2 cfg s ev os m ++ f_csub2 cfg s ev os m))).
  { intros i Hi. apply cstart_In in Hi. destruct Hi as [(a & b & c & e & Hp)|(d & fs & Hp)].
    - apply (in_c2_cpub cfg s ev os m i (gw_now s + retry_delay cfg)).
      unfold f_cpub2. cbn [f_is_sn ev]. apply in_or_app. right. apply new_cpub_In. split; [reflexivity|eauto].
    - apply (in_c2_csub cfg s ev os m i (gw_now s + retry_delay cfg)).
      unfold f_csub2. cbn [f_is_sn ev]. apply in_or_app. right. apply new_csub_In. split; [reflexivity|eauto]. }
  assert (Hb2 : forall i q u, In (i, q, u) (f_bpub2 cfg s ev os m) ->
            (In (i, q, u) (x_bpub m) /\ gw_now s < u /\ In (i, q, u) (f_bpub1 s ev m) /\
             (forall a c, read_dgram dg <> Ok (Puback a i c)) /\ read_dgram dg <> Ok (Pubrec i)) \/
            (connected s = true /\ u = gw_now s + (retry_count cfg + 1) * retry_delay cfg /\ (q = 1 \/ q = 2) /\
             (exists a b c, read_dgram dg = Ok (Regack a b c)) /\
             exists a3 a4 a5 a7, In (Publish false q a3 a4 a5 i a7) (f_ps os))).
  { intros i q u Hin. unfold f_bpub2 in Hin.
    assert (Hold : In (i, q, u) (f_bpub1 s ev m) ->
              In (i, q, u) (x_bpub m) /\ gw_now s < u /\ In (i, q, u) (f_bpub1 s ev m) /\
              (forall a c, read_dgram dg <> Ok (Puback a i c)) /\ read_dgram dg <> Ok (Pubrec i)).
    { intros H. pose proof (bpub1_sn_In s dg m _ H) as (H1 & H2 & H3). apply live3_In in H1. destruct H1 as [H1 Hlt].
      repeat split; assumption. }
    destruct (f_direct s ev) eqn:Ed; [|left; apply Hold, Hin].
    apply in_app_or in Hin. destruct Hin as [Hin|Hin]; [left; apply Hold, Hin|]. right.
    apply new_bpub_In in Hin. destruct Hin as (Hu & Hq & Hp).
    unfold f_direct in Ed. apply andb_true_iff in Ed. destruct Ed as [Ec Ep]. unfold ev, ev_packet in Ep.
    split; [exact Ec|]. split; [exact Hu|]. split; [exact Hq|]. split; [|exact Hp].
    destruct (read_dgram dg) as [p|err|pps]; try discriminate Ep. destruct_pkt p; try discriminate Ep. eauto. }
  split.
  - intros Hr'. split; [|split; [|split]]; cbn [x_cpub x_csub x_bpub x_cint x_bint].
    + intros i u Hin _ Hni. destruct (Hc2 i u Hin) as [(H1 & Hlt & Hnn)|(-> & a & b & c & e & Hp)].
      * apply T2; [|exact Hnn]. apply M1; [exact H1|exact Hlt|].
        apply (cint_old cfg s ev os m i Hni). rewrite Hc1.
        apply orb_true_iff. left. apply has2_In. exists u. apply live2_In. split; assumption.
      * eapply T5. exact Hp.
    + intros i u Hin _ Hni. destruct (Hs2 i u Hin) as [(H1 & Hlt & Hnn)|(-> & d & fs & Hp)].
      * apply T3; [|exact Hnn]. apply M2; [exact H1|exact Hlt|].
        apply (cint_old cfg s ev os m i Hni). rewrite Hs1.
        apply orb_true_iff. right. apply has2_In. exists u. apply live2_In. split; assumption.
      * eapply T6. exact Hp.
    + intros i q u Hin _ Hni. destruct (Hb2 i q u Hin) as [(H1 & Hlt & H1' & Hp1 & Hp2)|(Hc & -> & Hq & (a & b & c & Hrd) & a3 & a4 & a5 & a7 & Hp)].
      * apply T4; [| |exact Hp1|exact Hp2].
        -- apply M3; [exact H1|exact Hlt|]. apply (bint_old cfg s ev os m i Hni). apply any3_In. eauto.
        -- intros Hnn. apply Hnew_in in Hnn.
           pose proof (both_none cfg s ev os m i (bint_both cfg s ev os m i Hni) Hnn) as Hb.
           apply orb_false_iff in Hb. destruct Hb as [Hb _].
           assert (Ht : any3 i (f_bpub2 cfg s ev os m) = true) by (apply any3_In; eauto). congruence.
      * eapply T7; eassumption.
    + intros [[i q] u] Hin. apply (step_connected cfg s ev); [|exact Hr'].
      destruct (Hb2 i q u Hin) as [(H1 & _)|(Hc & _)]; [eapply M4; exact H1|exact Hc].
  - unfold f_fails. rewrite Hr. cbn [negb ev].
    destruct (read_dgram dg) as [p|err|pps] eqn:Hrd; try (intros c []).
    destruct_pkt p; try (intros c []).
    + (* Puback *)
      destruct (has3 mid 1 (f_bpub s m) && (rc =? RC_ACCEPTED) && negb (existsb (is_mq_puback_for mid) (f_ms os))) eqn:Ec;
        [|intros c []].
      apply andb_true_iff in Ec. destruct Ec as [Ec Ene]. apply andb_true_iff in Ec. destruct Ec as [Eh Erc].
      unfold f_cls.
      destruct (has2 mid (f_cpub s m) || has2 mid (f_csub s m) || memN mid (x_bint m)) eqn:Eo;
        [intros c [<-|[]]; lia|].
      exfalso. apply orb_false_iff in Eo. destruct Eo as [_ Eb].
      apply has3_In in Eh. destruct Eh as [u Hu]. apply live3_In in Hu. destruct Hu as [Hu Hlt].
      pose proof (M3 mid 1 u Hu Hlt Eb) as HB. pose proof (M4 _ Hu) as Hc.
      pose proof (relay3 cfg s dg tid mid rc u Hr Hc Hrd Erc HB) as Hrel.
      apply negb_true_iff in Ene. unfold f_ms, os, outs, ev in Ene. congruence.
    + (* Pubrec *)
      destruct (has3 mid 2 (f_bpub s m) && negb (existsb (is_mq_pubrec_for mid) (f_ms os))) eqn:Ec;
        [|intros c []].
      apply andb_true_iff in Ec. destruct Ec as [Eh Ene].
      unfold f_cls.
      destruct (has2 mid (f_cpub s m) || has2 mid (f_csub s m) || memN mid (x_bint m)) eqn:Eo;
        [intros c [<-|[]]; lia|].
      exfalso. apply orb_false_iff in Eo. destruct Eo as [_ Eb].
      apply has3_In in Eh. destruct Eh as [u Hu]. apply live3_In in Hu. destruct Hu as [Hu Hlt].
      pose proof (M3 mid 2 u Hu Hlt Eb) as HB. pose proof (M4 _ Hu) as Hc.
      pose proof (relay4 cfg s dg mid u Hr Hc Hrd HB) as Hrel.
      apply negb_true_iff in Ene. unfold f_ms, os, outs, ev in Ene. congruence.
Qed.

(* ================================================================== one step: a broker packet *)

Lemma cpub1_mq_In s m0 m e :
  In e (f_cpub1 s (EvMq m0) m) -> In e (x_cpub m) /\ gw_now s < snd e /\ m0 <> MqPuback (fst e).
Proof.
  unfold f_cpub1. destruct m0; try (intros H; apply live2_In in H; destruct H; repeat split; try assumption; discriminate).
  intros H. apply del2_In in H. destruct H as [H Hne]. apply live2_In in H. destruct H. repeat split; try assumption.
  intros E. injection E as E. congruence.
Qed.

Lemma csub1_mq_In s m0 m e :
  In e (f_csub1 s (EvMq m0) m) -> In e (x_csub m) /\ gw_now s < snd e /\ forall cs, m0 <> MqSuback (fst e) cs.
Proof.
  unfold f_csub1. destruct m0; try (intros H; apply live2_In in H; destruct H; repeat split; try assumption; discriminate).
  intros H. apply del2_In in H. destruct H as [H Hne]. apply live2_In in H. destruct H. repeat split; try assumption.
  intros cs E. injection E as E _. congruence.
Qed.

Lemma bpub1_mq_In s m0 m e :
  In e (f_bpub1 s (EvMq m0) m) ->
  In e (x_bpub m) /\ gw_now s < snd e /\ forall a q b c d, m0 <> MqPublish a q b c (fst (fst e)) d.
Proof.
  unfold f_bpub1. cbn [ev_packet].
  destruct m0; try (intros H; apply live3_In in H; destruct H; repeat split; try assumption; discriminate).
  intros H. apply del3_In in H. destruct H as [H Hne]. apply live3_In in H. destruct H. repeat split; try assumption.
  intros a q b c d E. injection E as _ _ _ _ E _. congruence.
Qed.

Lemma breg2_pub cfg s m a q b c i e :
  q = 1 \/ q = 2 -> has2 i (f_breg2 cfg s (EvMq (MqPublish a q b c i e)) m) = true.
Proof.
  intros Hq. unfold f_breg2. assert (E : (q =? 1) || (q =? 2) = true) by lia. rewrite E.
  apply has2_In. eexists. apply in_or_app. right. left. reflexivity.
Qed.

Lemma len1 (l : bytes) : (len l =? 1) = true -> exists c, l = [c].
Proof.
  intros H. apply N.eqb_eq in H. destruct l as [|c [|c2 l]].
  - rewrite len_nil in H. lia.
  - eauto.
  - rewrite !len_cons in H. lia.
Qed.

Lemma sound_mq cfg s m0 m :
  W s -> Sound_C01C03_aux.Inv s -> running s = true -> wf_mq m0 -> MI cfg s m ->
  (running (fst (gw_step cfg s (EvMq m0))) = true ->
   MI cfg (fst (gw_step cfg s (EvMq m0)))
      (fst (mon6_step cfg s (EvMq m0) (obs_of_outs (snd (gw_step cfg s (EvMq m0)))) m))) /\
  (forall c, In c (snd (mon6_step cfg s (EvMq m0) (obs_of_outs (snd (gw_step cfg s (EvMq m0)))) m)) -> c < 10).
Proof.
  intros HW HI Hr Hwf (M1 & M2 & M3 & M4).
  destruct (step_mq cfg s m0 HW Hr Hwf) as (T1 & T2 & T3 & T4 & T5).
  set (ev := EvMq m0) in *. set (outs := snd (gw_step cfg s ev)) in *. set (s' := fst (gw_step cfg s ev)) in *.
  set (os := obs_of_outs outs).
  destruct (mon6_step_eq cfg s ev os m) as (csup' & breg' & ->). cbn [fst snd].
  change (SN outs) with (f_ps os) in *.
  assert (Hc2 : f_cpub2 cfg s ev os m = f_cpub1 s ev m) by reflexivity.
  assert (Hs2 : f_csub2 cfg s ev os m = f_csub1 s ev m) by reflexivity.
  assert (Hpubq : forall i, In i (map fst (f_cpub2 cfg s ev os m ++ f_csub2 cfg s ev os m)) ->
            memN i (f_both cfg s ev os m) = false ->
            forall a q b c e, m0 = MqPublish a q b c i e -> q <> 1 /\ q <> 2).
  { intros i Hin Hb a q b c e ->. pose proof (both_none cfg s ev os m i Hb Hin) as Hn.
    apply orb_false_iff in Hn. destruct Hn as [_ Hn].
    destruct (N.eq_dec q 1) as [E|E1]; [|destruct (N.eq_dec q 2) as [E|E2]; [|split; assumption]];
      unfold ev in Hn; rewrite breg2_pub in Hn by lia; discriminate Hn. }
  assert (Hb2 : forall i q u, In (i, q, u) (f_bpub2 cfg s ev os m) ->
            (In (i, q, u) (x_bpub m) /\ gw_now s < u /\ In (i, q, u) (f_bpub1 s ev m) /\
             (forall a q' b c d, m0 <> MqPublish a q' b c i d)) \/
            (connected s = true /\ u = gw_now s + (retry_count cfg + 1) * retry_delay cfg /\ (q = 1 \/ q = 2) /\
             (exists a q' b c j e, m0 = MqPublish a q' b c j e) /\
             exists a3 a4 a5 a7, In (Publish false q a3 a4 a5 i a7) (f_ps os))).
  { intros i q u Hin. unfold f_bpub2 in Hin.
    assert (Hold : In (i, q, u) (f_bpub1 s ev m) ->
              In (i, q, u) (x_bpub m) /\ gw_now s < u /\ In (i, q, u) (f_bpub1 s ev m) /\
              (forall a q' b c d, m0 <> MqPublish a q' b c i d)).
    { intros H. pose proof (bpub1_mq_In s m0 m _ H) as (H1 & H2 & H3). repeat split; assumption. }
    destruct (f_direct s ev) eqn:Ed; [|left; apply Hold, Hin].
    apply in_app_or in Hin. destruct Hin as [Hin|Hin]; [left; apply Hold, Hin|]. right.
    apply new_bpub_In in Hin. destruct Hin as (Hu & Hq & Hp).
    unfold f_direct in Ed. apply andb_true_iff in Ed. destruct Ed as [Ec Ep]. unfold ev in Ep.
    split; [exact Ec|]. split; [exact Hu|]. split; [exact Hq|]. split; [|exact Hp].
    destruct m0; try discriminate Ep. eauto 10. }
  split.
  - intros Hr'. split; [|split; [|split]]; cbn [x_cpub x_csub x_bpub x_cint x_bint].
    + intros i u Hin _ Hni. pose proof (in_c2_cpub cfg s ev os m i u Hin) as Hin2. rewrite Hc2 in Hin.
      pose proof (cpub1_mq_In s m0 m _ Hin) as (H1 & Hlt & Hne). cbn [fst snd] in *.
      apply T2; [|exact Hne|apply (Hpubq i Hin2 (cint_both cfg s ev os m i Hni))].
      apply M1; [exact H1|exact Hlt|]. apply (cint_old cfg s ev os m i Hni).
      apply orb_true_iff. left. apply has2_In. eauto.
    + intros i u Hin _ Hni. pose proof (in_c2_csub cfg s ev os m i u Hin) as Hin2. rewrite Hs2 in Hin.
      pose proof (csub1_mq_In s m0 m _ Hin) as (H1 & Hlt & Hne). cbn [fst snd] in *.
      apply T3; [|exact Hne|apply (Hpubq i Hin2 (cint_both cfg s ev os m i Hni))].
      apply M2; [exact H1|exact Hlt|]. apply (cint_old cfg s ev os m i Hni).
      apply orb_true_iff. right. apply has2_In. eauto.
    + intros i q u Hin _ Hni.
      destruct (Hb2 i q u Hin) as [(H1 & Hlt & H1' & Hp1)|(Hc & -> & Hq & Hm & a3 & a4 & a5 & a7 & Hp)].
      * apply T4; [|exact Hp1].
        apply M3; [exact H1|exact Hlt|]. apply (bint_old cfg s ev os m i Hni). apply any3_In. eauto.
      * eapply T5; eassumption.
    + intros [[i q] u] Hin. apply (step_connected cfg s ev); [|exact Hr'].
      destruct (Hb2 i q u Hin) as [(H1 & _)|(Hc & _)]; [eapply M4; exact H1|exact Hc].
  - unfold f_fails. rewrite Hr. cbn [negb ev].
    destruct m0 as [c0|sp rc|dup qos retain topic mid payload|mid|mid|mid|mid|mid dup fs|mid codes|mid fs|mid| | |];
      try (intros c []).
    + (* Puback *)
      destruct (has2 mid (f_cpub s m) && f_awake s && negb (existsb (is_sn_puback_for mid) (f_ps os))) eqn:Ec;
        [|intros c []].
      apply andb_true_iff in Ec. destruct Ec as [Ec Ene]. apply andb_true_iff in Ec. destruct Ec as [Eh Ea].
      unfold f_cls2.
      destruct (any3 mid (f_bpub s m) || has2 mid (f_breg s m) || memN mid (x_cint m)) eqn:Eo;
        [intros c [<-|[]]; lia|].
      exfalso. apply orb_false_iff in Eo. destruct Eo as [_ Eb].
      apply has2_In in Eh. destruct Eh as [u Hu]. apply live2_In in Hu. destruct Hu as [Hu Hlt].
      pose proof (M1 mid u Hu Hlt Eb) as HC.
      unfold f_awake in Ea. apply andb_true_iff in Ea. destruct Ea as [_ Ea]. apply awake_spec in Ea.
      destruct (step_mq_puback_relay cfg s mid u HW Hr Ea Hwf HC) as [tid Hin].
      apply negb_true_iff in Ene.
      assert (Ht : existsb (is_sn_puback_for mid) (f_ps os) = true).
      { apply existsb_exists. eexists. split; [exact Hin|]. cbn. apply N.eqb_refl. }
      congruence.
    + (* Suback *)
      destruct (has2 mid (f_csub s m) && f_awake s && (len codes =? 1) && negb (existsb (is_sn_suback_for mid) (f_ps os))) eqn:Ec;
        [|intros c []].
      apply andb_true_iff in Ec. destruct Ec as [Ec Ene]. apply andb_true_iff in Ec. destruct Ec as [Ec El].
      apply andb_true_iff in Ec. destruct Ec as [Eh Ea].
      unfold f_cls2.
      destruct (any3 mid (f_bpub s m) || has2 mid (f_breg s m) || memN mid (x_cint m)) eqn:Eo;
        [intros c [<-|[]]; lia|].
      exfalso. apply orb_false_iff in Eo. destruct Eo as [_ Eb].
      apply has2_In in Eh. destruct Eh as [u Hu]. apply live2_In in Hu. destruct Hu as [Hu Hlt].
      pose proof (M2 mid u Hu Hlt Eb) as HC.
      unfold f_awake in Ea. apply andb_true_iff in Ea. destruct Ea as [_ Ea]. apply awake_spec in Ea.
      destruct (len1 codes El) as [c1 ->]. cbn [wf_mq] in Hwf.
      destruct (step_mq_suback_relay cfg s mid u c1 HI Hr Ea (proj1 Hwf) HC) as (q & tid & rc & Hin).
      apply negb_true_iff in Ene.
      assert (Ht : existsb (is_sn_suback_for mid) (f_ps os) = true).
      { apply existsb_exists. eexists. split; [exact Hin|]. cbn. apply N.eqb_refl. }
      congruence.
Qed.

(* ================================================================== one step: time passes *)

Lemma adv_now cfg s d :
  running (fst (gw_step cfg s (EvAdvance d))) = true -> gw_now (fst (gw_step cfg s (EvAdvance d))) = gw_now s + d.
Proof.
  unfold gw_step. destruct (gw_ended s) eqn:Ee.
  - cbn [fst]. unfold running. rewrite Ee. discriminate.
  - destruct (run_timers (advance_fuel cfg s d) cfg s (gw_now s + d)) as [s1 o]. cbn [fst].
    destruct (gw_ended s1) eqn:E1; [unfold running; rewrite E1; discriminate|reflexivity].
Qed.

Lemma sound_quiet cfg s ev m :
  match ev with EvSn _ | EvMq _ => False | _ => True end ->
  W s -> running s = true -> MI cfg s m ->
  (running (fst (gw_step cfg s ev)) = true ->
   MI cfg (fst (gw_step cfg s ev)) (fst (mon6_step cfg s ev (obs_of_outs (snd (gw_step cfg s ev))) m))) /\
  (forall c, In c (snd (mon6_step cfg s ev (obs_of_outs (snd (gw_step cfg s ev))) m)) -> c < 10).
Proof.
  intros Hev HW Hr (M1 & M2 & M3 & M4).
  set (os := obs_of_outs (snd (gw_step cfg s ev))).
  destruct (mon6_step_eq cfg s ev os m) as (csup' & breg' & ->). cbn [fst snd].
  split.
  2: { unfold f_fails. destruct (negb (running s)); [intros c []|]. destruct ev; try contradiction; intros c []. }
  intros Hr'. destruct ev as [dg|m0| | |d|]; try contradiction.
  1,2,4: rewrite step_other_stops in Hr' by exact I; discriminate Hr'.
  pose proof (adv_now cfg s d Hr') as Hnow.
  destruct (step_adv cfg s d HW) as (T1 & T2 & T3 & T4).
  assert (Hb2 : f_bpub2 cfg s (EvAdvance d) os m = f_bpub s m).
  { unfold f_bpub2, f_direct. rewrite andb_false_r. reflexivity. }
  split; [|split; [|split]]; cbn [x_cpub x_csub x_bpub x_cint x_bint].
  - intros i u Hin Hlt Hni. change (f_cpub2 cfg s (EvAdvance d) os m) with (f_cpub s m) in Hin.
    pose proof Hin as Hin'. apply live2_In in Hin. destruct Hin as [Hin Hl0]. cbn [snd] in Hl0.
    apply T2; [rewrite <- Hnow; exact Hlt|]. apply M1; [exact Hin|exact Hl0|].
    apply (cint_old cfg s (EvAdvance d) os m i Hni). apply orb_true_iff. left. apply has2_In. eauto.
  - intros i u Hin Hlt Hni. change (f_csub2 cfg s (EvAdvance d) os m) with (f_csub s m) in Hin.
    pose proof Hin as Hin'. apply live2_In in Hin. destruct Hin as [Hin Hl0]. cbn [snd] in Hl0.
    apply T3; [rewrite <- Hnow; exact Hlt|]. apply M2; [exact Hin|exact Hl0|].
    apply (cint_old cfg s (EvAdvance d) os m i Hni). apply orb_true_iff. right. apply has2_In. eauto.
  - intros i q u Hin Hlt Hni. rewrite Hb2 in Hin.
    pose proof Hin as Hin'. apply live3_In in Hin. destruct Hin as [Hin Hl0]. cbn [snd] in Hl0.
    apply T4; [rewrite <- Hnow; exact Hlt|]. apply M3; [exact Hin|exact Hl0|].
    apply (bint_old cfg s (EvAdvance d) os m i Hni). apply any3_In. eauto.
  - intros e Hin. rewrite Hb2 in Hin. apply live3_In in Hin. destruct Hin as [Hin _].
    apply (step_connected cfg s (EvAdvance d)); [eapply M4; exact Hin|exact Hr'].
Qed.

(* ================================================================== every step, every history *)

Lemma reach_W cfg s : reach cfg s -> W s.
Proof. induction 1 as [|s ev _ IH Hev]; [apply W_init|apply step_W; assumption]. Qed.

Lemma step_sound cfg s ev m :
  wf_cfg cfg -> reach cfg s -> wf_event ev -> (running s = true -> MI cfg s m) ->
  (running (fst (gw_step cfg s ev)) = true ->
   MI cfg (fst (gw_step cfg s ev)) (fst (mon6_step cfg s ev (obs_of_outs (snd (gw_step cfg s ev))) m))) /\
  (forall c, In c (snd (mon6_step cfg s ev (obs_of_outs (snd (gw_step cfg s ev))) m)) -> c < 10).
Proof.
  intros Hcfg Hreach Hev HM. pose proof (reach_W cfg s Hreach) as HW. pose proof (reach_inv cfg Hcfg s Hreach) as HI.
  destruct (running s) eqn:Hr.
  - specialize (HM eq_refl). destruct ev as [dg|m0| | |d|].
    + apply sound_sn; [exact HW|exact Hr|exact (proj1 Hev)|exact HM].
    + apply sound_mq; assumption.
    + apply sound_quiet; [exact I|assumption..].
    + apply sound_quiet; [exact I|assumption..].
    + apply sound_quiet; [exact I|assumption..].
    + apply sound_quiet; [exact I|assumption..].
  - split.
    + intros Hr'. rewrite running_mono in Hr' by exact Hr. discriminate Hr'.
    + destruct (mon6_step_eq cfg s ev (obs_of_outs (snd (gw_step cfg s ev))) m) as (csup' & breg' & ->). cbn [snd].
      unfold f_fails. rewrite Hr. intros c [].
Qed.

Lemma mon6_run_sound cfg : forall evs s m,
  wf_cfg cfg -> reach cfg s -> Forall wf_event evs -> (running s = true -> MI cfg s m) ->
  forall c, In c (mon6_run cfg s m evs) -> c < 10.
Proof.
  induction evs as [|ev evs IH]; intros s m Hcfg Hreach Hevs HM c Hin; [destruct Hin|].
  inversion Hevs as [|? ? Hev Hevs']; subst.
  pose proof (step_sound cfg s ev m Hcfg Hreach Hev HM) as [Hnext Hf].
  pose proof (reach_step cfg s ev Hreach Hev) as Hreach'.
  cbn [mon6_run] in Hin. destruct (gw_step cfg s ev) as [s' outs]. cbn [fst snd] in *.
  destruct (mon6_step cfg s ev (obs_of_outs outs) m) as [m' f]. cbn [fst snd] in *.
  apply in_app_or in Hin. destruct Hin as [Hin|Hin]; [apply Hf, Hin|].
  eapply IH; eassumption.
Qed.

(* The only failures the gateway model can produce are of the interference class (clauses 1-4): an
   acknowledgement of an exchange in progress is relayed whenever no exchange of the other direction
   used the same message ID during its life - also when the exchange superseded an earlier,
   unfinished exchange of its own side with the same ID (clauses 21-24 never occur). *)
Theorem C06_only_interference_fails : forall cfg evs, wf_cfg cfg -> Forall wf_event evs ->
  forall c, In c (mon6_run cfg (init_state cfg) mon6_init evs) -> c < 10.
Proof.
  intros cfg evs Hcfg Hevs. apply mon6_run_sound; [exact Hcfg|apply reach_init|exact Hevs|].
  intros _. apply MI_init.
Qed.

(* ================================================================== the statement is not vacuous *)

Definition c06p_cfg : gw_cfg :=
  {| auth_enabled := false; cfg_user := None; cfg_pass := None; retry_delay := 1000; retry_count := 2;
     predefined := []; min_tid := 1; max_tid := 65534 |}.

(* CONNECT, CONNACK; a client QoS 1 PUBLISH (short topic "ab", message ID 5) and the broker's PUBACK;
   a client SUBSCRIBE ("a/b", message ID 6) and the broker's SUBACK; a broker QoS 1 PUBLISH on the
   short topic "xy" (message ID 7) and the client's PUBACK; a broker QoS 2 PUBLISH on "xyz" (message
   ID 8), which needs REGISTER / REGACK first, and the client's PUBREC - with time passing in between
   (a retransmission of the QoS 1 PUBLISH included) *)
Definition c06p_hist : list gw_event :=
  [EvSn (pack (Connect false true 1 60 [99; 49])); EvMq (MqConnack false 0); EvAdvance 3;
   EvSn (pack (Publish false 1 false 2 (encode_short [97; 98]) 5 [10])); EvAdvance 2; EvMq (MqPuback 5);
   EvSn (pack (Subscribe false 1 0 6 0 [97; 47; 98])); EvAdvance 999; EvMq (MqSuback 6 [1]);
   EvMq (MqPublish false 1 false [120; 121] 7 [1]); EvAdvance 1500; EvSn (pack (Puback 0 7 0));
   EvMq (MqPublish false 2 false [120; 121; 122] 8 [2]); EvAdvance 10; EvSn (pack (Regack 1 8 0));
   EvAdvance 2999; EvSn (pack (Pubrec 8))].

Lemma c06p_cfg_wf : wf_cfg c06p_cfg.
Proof. unfold wf_cfg, c06p_cfg; cbn. repeat split; try lia. constructor. Qed.

Lemma c06p_hist_wf : Forall wf_event c06p_hist.
Proof. apply wf_events_spec. vm_compute. reflexivity. Qed.

(* all four kinds of exchange complete: nothing is reported, and every acknowledgement was checked
   (dropping the gateway's relay from the observations of the four acknowledging steps gives the four
   clauses of the second class) *)
Definition c06p_unrelayed (k : nat) : list N :=
  let s := snd (gw_run c06p_cfg (init_state c06p_cfg) (firstn k c06p_hist)) in
  let m := (fix go (s : gw_state) (m : mon6) (evs : list gw_event) : mon6 :=
              match evs with
              | [] => m
              | ev :: evs' => let '(s', outs) := gw_step c06p_cfg s ev in
                              go s' (fst (mon6_step c06p_cfg s ev (obs_of_outs outs) m)) evs'
              end) (init_state c06p_cfg) mon6_init (firstn k c06p_hist) in
  match nth_error c06p_hist k with
  | Some ev => snd (mon6_step c06p_cfg s ev [] m)
  | None => []
  end.

Example C06_only_interference_nonvacuous :
  mon6_run c06p_cfg (init_state c06p_cfg) mon6_init c06p_hist = [] /\
  c06p_unrelayed 5 = [11] /\ c06p_unrelayed 8 = [12] /\ c06p_unrelayed 11 = [13] /\ c06p_unrelayed 16 = [14].
Proof. vm_compute. repeat split; reflexivity. Qed.

Print Assumptions C06_only_interference_fails.
Print Assumptions step_connected.
