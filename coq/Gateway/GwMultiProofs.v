(* Gateway/GwMultiProofs.v — non-interference of the sessions of one gateway. *)
From stdpp Require Import base option list numbers fin_maps nmap.
From Coq Require Import Lia.
From Verif.Base Require Import Bytes.
From Verif.Codec Require Import Packets Decode Encode.
From Verif.Topics Require Import Predefined.
From Verif.Gateway Require Import GwTypes GwStep GwMulti.
Open Scope N_scope.

Definition pick_a {B} (a : N) (f : N * gw_state -> B) (as_ : N * gw_state) : list B :=
  if fst as_ =? a then [f as_] else [].

Lemma pick_none {B} (a : N) (f : N * gw_state -> B) (l : list (N * gw_state)) :
  (forall s, ~ In (a, s) l) -> l ≫= pick_a a f = [].
Proof.
  induction l as [|[b s] l IH]; intros H; [reflexivity|]. rewrite bind_cons. unfold pick_a at 1. cbn [fst].
  destruct (N.eqb_spec b a) as [->|Hne]; [exfalso; apply (H s); left; reflexivity|].
  cbn [app]. apply IH. intros s' Hin. apply (H s'). right. exact Hin.
Qed.

Lemma pick_some {B} (a : N) (f : N * gw_state -> B) (l : list (N * gw_state)) (s : gw_state) :
  NoDup (map fst l) -> In (a, s) l -> l ≫= pick_a a f = [f (a, s)].
Proof.
  induction l as [|[b s0] l IH]; intros Hnd Hin; [destruct Hin|]. rewrite bind_cons. unfold pick_a at 1. cbn [fst].
  cbn [map fst] in Hnd. inversion Hnd as [|? ? Hnotin Hnd']; subst.
  destruct Hin as [E|Hin].
  - injection E as -> ->. rewrite N.eqb_refl. cbn [app]. f_equal. apply pick_none.
    intros s' Hin'. apply Hnotin. apply in_map_iff. exists (a, s'). split; [reflexivity|exact Hin'].
  - destruct (N.eqb_spec b a) as [->|Hne].
    + exfalso. apply Hnotin. apply in_map_iff. exists (a, s). split; [reflexivity|exact Hin].
    + cbn [app]. apply IH; assumption.
Qed.

Lemma pick_lookup {B} (a : N) (f : N * gw_state -> B) (ms : sessions) :
  map_to_list ms ≫= pick_a a f = match ms !! a with Some s => [f (a, s)] | None => [] end.
Proof.
  destruct (ms !! a) as [s|] eqn:Ha.
  - apply pick_some.
    + change (map fst (map_to_list ms)) with (fst <$> map_to_list ms). apply NoDup_ListNoDup. apply (NoDup_fst_map_to_list ms).
    + apply elem_of_list_In. apply elem_of_map_to_list. exact Ha.
  - apply pick_none. intros s Hin. apply elem_of_list_In in Hin. apply (elem_of_map_to_list ms a s) in Hin. rewrite Hin in Ha. discriminate Ha.
Qed.

Lemma bind_map_pick {B} (a : N) (g : N * gw_state -> B) (l : list (N * gw_state)) :
  map (fun as_ => (fst as_, g as_)) l ≫= (fun ao => if fst ao =? a then [snd ao] else []) = l ≫= pick_a a g.
Proof.
  induction l as [|x l IH]; [reflexivity|]. cbn [map]. rewrite !bind_cons, IH. unfold pick_a at 2. cbn [fst snd]. reflexivity.
Qed.

Definition st_of (cfg : gw_cfg) (a : N) (ms : sessions) : gw_state :=
  match ms !! a with Some s => s | None => init_state cfg end.
Definition has (a : N) (ms : sessions) : bool := match ms !! a with Some _ => true | None => false end.

(* the gateway's outputs for peer a = the outputs of a gateway serving only peer a *)
Theorem non_interference (cfg : gw_cfg) (a : N) : forall (es : list mev) (ms : sessions),
  concat (map (outs_for a) (multi_run cfg ms es)) =
  fst (gw_run cfg (st_of cfg a ms) (proj a (has a ms) es)).
Proof.
  induction es as [|e es IH]; intros ms; [reflexivity|].
  cbn [multi_run]. destruct e as [b ev|d]; cbn [multi_step proj].
  - set (s := match ms !! b with Some s => s | None => init_state cfg end).
    destruct (gw_step cfg s ev) as [s' o] eqn:E. cbn [map concat outs_for]. rewrite IH.
    unfold outs_for at 1. cbn [mbind list_bind fst snd app]. 
    destruct (N.eqb_spec b a) as [->|Hne].
    + cbn [app]. unfold st_of at 1, has at 1. rewrite lookup_insert.
      cbn [gw_run]. fold s. unfold st_of. fold s. rewrite E.
      destruct (gw_run cfg s' (proj a true es)) as [os s'']. reflexivity.
    + cbn [app]. unfold st_of, has. rewrite lookup_insert_ne by exact Hne. reflexivity.
  - cbn [map concat]. rewrite IH. unfold outs_for.
    rewrite (bind_map_pick a (fun as_ => snd (gw_step cfg (snd as_) (EvAdvance d)))), pick_lookup.
    unfold st_of, has. rewrite lookup_fmap.
    destruct (ms !! a) as [s|] eqn:Ha; cbn [fmap option_fmap option_map app].
    + cbn [gw_run snd fst]. destruct (gw_step cfg s (EvAdvance d)) as [s' o] eqn:E. cbn [fst snd].
      destruct (gw_run cfg s' (proj a true es)) as [os s'']. reflexivity.
    + reflexivity.
Qed.
