(* Gateway/Sound_C23C24.v — everything the gateway model writes is well-formed:
   C23 (MQTT-SN datagrams to the client) and C24 (MQTT packets to the broker). *)
From stdpp Require Import base option list numbers fin_maps nmap.
From RecordUpdate Require Import RecordSet.
From Coq Require Import Lia ZArith ZifyN ZifyNat ZifyBool.
From Verif.Base Require Import Bytes BytesProofs.
From Verif.Codec Require Import Packets Decode Encode.
From Verif.Topics Require Import Predefined.
From Verif.Gateway Require Import GwTypes GwStep GwWf Sound_C23C24_aux.
From Verif.Checkers Require Import ChkCodec ChkGw.
Import RecordSetNotations.
Open Scope N_scope.
Ltac Zify.zify_post_hook ::= Z.div_mod_to_equations.

(* ------------------------------------------------------------------ strengthened hypotheses *)

Definition names_nonempty (p : predef) : Prop :=
  Forall (fun cm => forall i n, snd cm !! i = Some n -> n <> []) p.

(* wf_cfg plus: (1) without AUTH the configuration does not set a password without a user name;
   (2) no predefined topic has the empty name *)
Definition wf_cfg' (cfg : gw_cfg) : Prop :=
  wf_cfg cfg /\
  (auth_enabled cfg = false -> cfg_user cfg = None -> cfg_pass cfg = None) /\
  names_nonempty (predefined cfg).

(* wf_event plus: a broker PUBLISH has (3) a non-empty topic name and (4) with QoS > 0 a
   non-zero packet identifier (MQTT 3.1.1 [MQTT-4.7.3-1], [MQTT-2.3.1-1]) *)
Definition wf_event' (ev : gw_event) : Prop :=
  wf_event ev /\
  match ev with
  | EvMq (MqPublish _ q _ t mid _) => t <> [] /\ (q <> 0 -> mid <> 0)
  | _ => True
  end.

Inductive reach' (cfg : gw_cfg) : gw_state -> Prop :=
| reach'_init : reach' cfg (init_state cfg)
| reach'_step s ev : reach' cfg s -> wf_event' ev -> reach' cfg (fst (gw_step cfg s ev)).

Lemma wf_cfg'_wf cfg : wf_cfg' cfg -> wf_cfg cfg.
Proof. intros [H _]. exact H. Qed.
Lemma wf_event'_wf ev : wf_event' ev -> wf_event ev.
Proof. intros [H _]. exact H. Qed.
Lemma reach'_reach cfg s : reach' cfg s -> reach cfg s.
Proof. induction 1 as [|s ev _ IH Hev]; [constructor|]. apply reach_step; [exact IH|apply wf_event'_wf, Hev]. Qed.

(* ------------------------------------------------------------------ the invariant *)

Definition flags_ok (mq : mq_connect) : Prop := c_uflag mq || negb (c_pflag mq) = true.

(* what the connect exchange has established about the CONNECT under construction *)
Definition cx_ok (mq : mq_connect) (st : cx_state) : Prop :=
  match st with
  | CxAuth => c_wqos mq = 0 /\ c_wretain mq = false
  | CxWillTopic => c_will mq = true /\ flags_ok mq
  | CxWillMsg => c_will mq = true /\ c_wtopic mq <> [] /\ c_wqos mq <= 2 /\ flags_ok mq
  | CxConnack => True
  end.

Definition data_ok (d : resend_data) : Prop :=
  match d with RsSn p => sendable p | RsAck _ m => m <> 0 end.
Definition snpub_ok (o : option packet) : Prop :=
  match o with Some p => sendable p | None => True end.

Definition txn_ok (t : txn) : Prop :=
  match t with
  | TxConnect mq st => cx_ok mq st
  | TxBrokerPub _ _ _ data snpub _ => data_ok data /\ snpub_ok snpub
  | _ => True
  end.

Definition buf_ok (b : list (option N * packet)) : Prop := Forall (fun e => sendable (snd e)) b.
Definition objs_ok (m : Nmap txn) : Prop := forall g t, m !! g = Some t -> txn_ok t.
Definition byid_ok (m : Nmap N) : Prop := m !! 0 = None.
Definition reg_ok (m : Nmap bytes) : Prop := forall i n, m !! i = Some n -> n <> [].

Record Inv (s : gw_state) : Prop := {
  inv_buf : buf_ok (gw_buffer s);
  inv_objs : objs_ok (gw_objs s);
  inv_byid : byid_ok (gw_by_id s);
  inv_reg : reg_ok (gw_registered s) }.

Lemma Inv_ext (s s' : gw_state) :
  Inv s -> gw_buffer s' = gw_buffer s -> gw_objs s' = gw_objs s -> gw_by_id s' = gw_by_id s ->
  gw_registered s' = gw_registered s -> Inv s'.
Proof. intros [H1 H2 H3 H4] E1 E2 E3 E4. constructor; rewrite ?E1, ?E2, ?E3, ?E4; assumption. Qed.

Lemma Inv_init cfg : Inv (init_state cfg).
Proof.
  constructor; cbn.
  - constructor.
  - intros g t H. rewrite lookup_empty in H. discriminate.
  - apply lookup_empty.
  - intros i n H. rewrite lookup_empty in H. discriminate.
Qed.

Lemma Inv_set_buffer s b : Inv s -> buf_ok b -> Inv (s <| gw_buffer := b |>).
Proof. intros [H1 H2 H3 H4] Hb. constructor; assumption. Qed.
Lemma Inv_set_objs s m : Inv s -> objs_ok m -> Inv (s <| gw_objs := m |>).
Proof. intros [H1 H2 H3 H4] Hb. constructor; assumption. Qed.
Lemma Inv_set_byid s m : Inv s -> byid_ok m -> Inv (s <| gw_by_id := m |>).
Proof. intros [H1 H2 H3 H4] Hb. constructor; assumption. Qed.
Lemma Inv_set_reg s m : Inv s -> reg_ok m -> Inv (s <| gw_registered := m |>).
Proof. intros [H1 H2 H3 H4] Hb. constructor; assumption. Qed.

Lemma objs_ok_insert m g t : objs_ok m -> txn_ok t -> objs_ok (<[g := t]> m).
Proof.
  intros Hm Ht g' t' H. destruct (decide (g = g')) as [->|Hne].
  - rewrite lookup_insert in H. injection H as <-. exact Ht.
  - rewrite lookup_insert_ne in H by exact Hne. eapply Hm, H.
Qed.
Lemma objs_ok_delete m g : objs_ok m -> objs_ok (delete g m).
Proof. intros Hm g' t' H. apply lookup_delete_Some in H. destruct H as [_ H]. eapply Hm, H. Qed.
Lemma byid_ok_insert m k g : byid_ok m -> k <> 0 -> byid_ok (<[k := g]> m).
Proof. intros Hm Hk. unfold byid_ok. rewrite lookup_insert_ne by exact Hk. exact Hm. Qed.
Lemma byid_ok_delete m k : byid_ok m -> byid_ok (delete k m).
Proof. intros Hm. unfold byid_ok. apply lookup_delete_None. right. exact Hm. Qed.
Lemma reg_ok_insert m i n : reg_ok m -> n <> [] -> reg_ok (<[i := n]> m).
Proof.
  intros Hm Hn i' n' H. destruct (decide (i = i')) as [->|Hne].
  - rewrite lookup_insert in H. injection H as <-. exact Hn.
  - rewrite lookup_insert_ne in H by exact Hne. eapply Hm, H.
Qed.

Lemma Inv_arm s k d : Inv s -> Inv (arm s k d).
Proof. intros H. apply (Inv_ext s); [exact H|reflexivity..]. Qed.
Lemma Inv_disarm_obj s g : Inv s -> Inv (disarm_obj s g).
Proof. intros H. apply (Inv_ext s); [exact H|reflexivity..]. Qed.
Lemma Inv_disarm_ping s g : Inv s -> Inv (disarm_ping s g).
Proof. intros H. apply (Inv_ext s); [exact H|reflexivity..]. Qed.
Lemma Inv_note_handed s i n : Inv s -> Inv (note_handed s i n).
Proof. intros H. apply (Inv_ext s); [exact H|reflexivity..]. Qed.

Lemma Inv_set_obj s g t : Inv s -> txn_ok t -> Inv (set_obj s g t).
Proof. intros H Ht. apply Inv_set_objs; [exact H|]. apply objs_ok_insert; [apply H|exact Ht]. Qed.

Lemma Inv_new_obj s t s' g : new_obj s t = (s', g) -> Inv s -> txn_ok t -> Inv s'.
Proof.
  unfold new_obj. intros E H Ht. injection E as <- <-.
  apply (Inv_ext (s <| gw_objs := <[gw_next_obj s := t]> (gw_objs s) |>)); [|reflexivity..].
  apply Inv_set_objs; [exact H|]. apply objs_ok_insert; [apply H|exact Ht].
Qed.

Lemma Inv_finish_obj s g : Inv s -> Inv (finish_obj s g).
Proof.
  intros H. unfold finish_obj. destruct (gw_objs s !! g) as [t|]; [|exact H].
  assert (H1 : Inv (disarm_obj s g <| gw_objs := delete g (gw_objs (disarm_obj s g)) |>)).
  { apply Inv_set_objs; [apply Inv_disarm_obj, H|]. apply objs_ok_delete, H. }
  destruct t; [eapply Inv_ext; [exact H1|reflexivity..]|..].
  (* the by-id slot is deleted only if it still holds g; otherwise nothing more changes *)
  all: match goal with |- context [match ?m !! ?k with Some _ => _ | None => _ end] =>
         destruct (m !! k) as [g'|]; [destruct (g' =? g)|]; try exact H1 end.
  - apply Inv_set_byid; [exact H1|]. apply byid_ok_delete, H.
  - apply Inv_set_byid; [exact H1|]. apply byid_ok_delete, H.
  - apply Inv_set_byid; [exact H1|]. apply byid_ok_delete, H.
Qed.

(* topic-ID allocation touches none of the four components *)
Definition same4 (s s' : gw_state) : Prop :=
  gw_buffer s' = gw_buffer s /\ gw_objs s' = gw_objs s /\ gw_by_id s' = gw_by_id s /\
  gw_registered s' = gw_registered s.

Lemma same4_Inv s s' : same4 s s' -> Inv s -> Inv s'.
Proof. intros (E1 & E2 & E3 & E4) H. eapply Inv_ext; eassumption. Qed.

Lemma seq_next_same4 cfg s s' id ov : seq_next cfg s = (s', id, ov) -> same4 s s'.
Proof.
  unfold seq_next. intros E. injection E as <- _ _.
  destruct (gw_seq_next s =? max_tid cfg); repeat split; reflexivity.
Qed.

Lemma skip_predefined_same4 fuel cfg : forall s id s' oi,
  skip_predefined fuel cfg s id = (s', oi) -> same4 s s'.
Proof.
  induction fuel as [|fuel IH]; intros s id s' oi; cbn [skip_predefined];
    destruct (get_name (predefined cfg) (gw_client_id s) id).
  - intros E. injection E as <- _. repeat split; reflexivity.
  - intros E. injection E as <- _. repeat split; reflexivity.
  - destruct (seq_next cfg s) as [[s1 id1] ov] eqn:Hs. apply seq_next_same4 in Hs.
    destruct ov.
    + intros E. injection E as <- _. exact Hs.
    + intros E. apply IH in E. destruct Hs as (A1 & A2 & A3 & A4). destruct E as (B1 & B2 & B3 & B4).
      repeat split; congruence.
  - intros E. injection E as <- _. repeat split; reflexivity.
Qed.

Lemma new_topic_id_same4 cfg s s' oi : new_topic_id cfg s = (s', oi) -> same4 s s'.
Proof.
  unfold new_topic_id. destruct (gw_no_more_tids s).
  - intros E. injection E as <- _. repeat split; reflexivity.
  - destruct (seq_next cfg s) as [[s1 id1] ov] eqn:Hs. apply seq_next_same4 in Hs. destruct ov.
    + intros E. injection E as <- _. exact Hs.
    + intros E. apply skip_predefined_same4 in E. destruct Hs as (A1 & A2 & A3 & A4). destruct E as (B1 & B2 & B3 & B4).
      repeat split; congruence.
Qed.

Lemma Inv_new_topic_id cfg s s' oi : new_topic_id cfg s = (s', oi) -> Inv s -> Inv s'.
Proof. intros E. apply same4_Inv. eapply new_topic_id_same4, E. Qed.

Lemma Inv_register_topic cfg s name s' oi :
  register_topic cfg s name = (s', oi) -> Inv s -> name <> [] -> Inv s'.
Proof.
  unfold register_topic. destruct (find_registered s name).
  - intros E. injection E as <- _. intros H _. exact H.
  - destruct (new_topic_id cfg s) as [s1 [i|]] eqn:Hn; intros E H Hne; injection E as <- _;
      pose proof (Inv_new_topic_id _ _ _ _ Hn H) as H1; [|exact H1].
    apply Inv_set_reg; [exact H1|]. apply reg_ok_insert; [apply H1|exact Hne].
Qed.
(* ------------------------------------------------------------------ outputs *)

Definition out_ok (o : gw_out) : Prop :=
  match o with
  | OutSn _ dg => dgram_ok gw_to_client dg = []
  | OutMq _ m => mqtt_valid (wire m) = true
  | _ => True
  end.
Definition outs_ok (os : list gw_out) : Prop := Forall out_ok os.

(* the resulting state satisfies the invariant and every output is well-formed *)
Definition good (r : R) : Prop := Inv (fst (fst r)) /\ outs_ok (snd (fst r)).

Lemma good_ok s : Inv s -> good (ok s []).
Proof. intros H. split; [exact H|constructor]. Qed.
Lemma good_stop s c : Inv s -> good (stop s [] c).
Proof. intros H. split; [exact H|constructor]. Qed.

Lemma good_andthen r g : good r -> (forall s, Inv s -> good (g s)) -> good (andthen r g).
Proof.
  intros [Hi Ho] Hg. destruct r as [[s o] [|c]]; cbn [andthen fst snd] in *.
  - specialize (Hg s Hi). destruct (g s) as [[s' o'] res]. destruct Hg as [Hi' Ho']. cbn [fst snd] in *.
    split; [exact Hi'|]. apply Forall_app. split; assumption.
  - split; assumption.
Qed.

Lemma good_sn_send_owned s o p : Inv s -> sendable p -> good (sn_send_owned s o p).
Proof.
  intros H Hp. unfold sn_send_owned.
  assert (Hw : good (if len (pack p) <=? MaxPacketLen then ok s [OutSn (gw_now s) (pack p)] else stop s [] EcHandlerError)).
  { destruct (len (pack p) <=? MaxPacketLen) eqn:Hl; [|apply good_stop, H].
    split; [exact H|]. constructor; [|constructor]. cbn [out_ok].
    apply sendable_dgram_ok; [exact Hp|]. apply N.leb_le, Hl. }
  destruct (gw_st s); try exact Hw.
  split; [|constructor]. cbn [ok fst snd]. apply Inv_set_buffer; [exact H|].
  apply Forall_app. split; [apply H|]. constructor; [exact Hp|constructor].
Qed.

Lemma good_sn_send s p : Inv s -> sendable p -> good (sn_send s p).
Proof. apply good_sn_send_owned. Qed.

Lemma good_sn_send_now s p : Inv s -> sendable p -> good (sn_send_now s p).
Proof.
  intros H Hp. unfold sn_send_now.
  destruct (len (pack p) <=? MaxPacketLen) eqn:Hl; [|apply good_stop, H].
  split; [exact H|]. constructor; [|constructor]. cbn [out_ok].
  apply sendable_dgram_ok; [exact Hp|]. apply N.leb_le, Hl.
Qed.

Lemma good_mq_send s m : Inv s -> mqtt_valid (wire m) = true -> good (mq_send s m).
Proof. intros H Hm. split; [exact H|]. constructor; [exact Hm|constructor]. Qed.

Lemma good_send_all ps : forall s, Inv s -> buf_ok ps -> good (send_all s ps).
Proof.
  induction ps as [|[o p] ps IH]; intros s H Hb; cbn [send_all].
  - apply good_ok, H.
  - inversion Hb as [|e l Hp Hb']; subst. cbn [snd] in Hp. apply good_andthen.
    + apply good_sn_send; [exact H|exact Hp].
    + intros s' H'. apply IH; assumption.
Qed.

Ltac inv_tac :=
  lazymatch goal with
  | H : Inv ?s |- Inv ?s => exact H
  | |- Inv (arm _ _ _) => apply Inv_arm; inv_tac
  | |- Inv (disarm_obj _ _) => apply Inv_disarm_obj; inv_tac
  | |- Inv (disarm_ping _ _) => apply Inv_disarm_ping; inv_tac
  | |- Inv (note_handed _ _ _) => apply Inv_note_handed; inv_tac
  | |- Inv (finish_obj _ _) => apply Inv_finish_obj; inv_tac
  | |- Inv (set_obj _ _ _) => apply Inv_set_obj; [inv_tac|]
  | |- Inv (set gw_buffer _ _) => apply Inv_set_buffer; [inv_tac|]
  | |- Inv (set gw_objs _ _) => apply Inv_set_objs; [inv_tac|]
  | |- Inv (set gw_by_id _ _) => apply Inv_set_byid; [inv_tac|]
  | |- Inv (set gw_registered _ _) => apply Inv_set_reg; [inv_tac|]
  | |- Inv (set _ _ ?s) => apply (Inv_ext s); [inv_tac|reflexivity..]
  | |- Inv (match ?x with _ => _ end) => destruct x eqn:?; inv_tac
  | |- Inv ?s' =>
    match goal with
    | H : new_obj _ _ = (s', _) |- _ => apply (Inv_new_obj _ _ _ _ H); [inv_tac|]
    | H : new_topic_id _ _ = (s', _) |- _ => apply (Inv_new_topic_id _ _ _ _ H); inv_tac
    | H : register_topic _ _ _ = (s', _) |- _ => apply (Inv_register_topic _ _ _ _ _ H); [inv_tac|]
    end
  end.

(* walk the match / if structure of a handler *)
Ltac gstep :=
  lazymatch goal with
  | |- good (ok _ []) => apply good_ok; inv_tac
  | |- good (stop _ [] _) => apply good_stop; inv_tac
  | |- good (andthen _ _) => apply good_andthen; [|intros ? ?]
  | |- good (sn_send _ _) => apply good_sn_send; [inv_tac|]
  | |- good (sn_send_now _ _) => apply good_sn_send_now; [inv_tac|]
  | |- good (sn_send_owned _ _ _) => apply good_sn_send_owned; [inv_tac|]
  | |- good (mq_send _ _) => apply good_mq_send; [inv_tac|]
  | |- good (send_all _ _) => apply good_send_all; [inv_tac|]
  | |- good (match ?x with _ => _ end) => destruct x eqn:?
  end.
Ltac walk := repeat gstep.


Lemma good_connect_auth_done s g mq :
  Inv s -> c_wqos mq = 0 -> c_wretain mq = false -> flags_ok mq -> good (connect_auth_done s g mq).
Proof.
  intros H Hq Hr Hf. unfold connect_auth_done. walk.
  - cbn [txn_ok cx_ok]. split; assumption.
  - exact I.
  - exact I.
  - apply connect_nowill_valid; assumption.
Qed.

Lemma good_connect_start s g mq a :
  Inv s -> c_wqos mq = 0 -> c_wretain mq = false -> (a = false -> flags_ok mq) -> good (connect_start s g mq a).
Proof.
  intros H Hq Hr Hf. unfold connect_start. destruct a.
  - walk. cbn [txn_ok cx_ok]. split; assumption.
  - apply good_connect_auth_done; auto.
Qed.


(* ------------------------------------------------------------------ lookups *)

Lemma get_connect_inv s g mq a : Inv s -> get_connect s = Some (g, mq, a) -> cx_ok mq a.
Proof.
  intros H. unfold get_connect. destruct (gw_connect s) as [g'|]; [|discriminate].
  destruct (gw_objs s !! g') as [t|] eqn:Ho; [|discriminate].
  destruct t; try discriminate. intros E. injection E as <- <- <-.
  exact (inv_objs s H _ _ Ho).
Qed.

Lemma get_by_id_inv s mid g t : Inv s -> get_by_id s mid = Some (g, t) -> mid <> 0 /\ txn_ok t.
Proof.
  intros H. unfold get_by_id. destruct (gw_by_id s !! mid) as [g'|] eqn:Hb; [|discriminate].
  destruct (gw_objs s !! g') as [t'|] eqn:Ho; [|discriminate].
  intros E. injection E as <- <-. split.
  - intros ->. rewrite (inv_byid s H) in Hb. discriminate.
  - exact (inv_objs s H _ _ Ho).
Qed.

Lemma cx_state_eqb_true a b : cx_state_eqb a b = true -> a = b.
Proof. destruct a, b; cbn; intros E; try discriminate; reflexivity. Qed.
Lemma bp_state_eqb_true a b : bp_state_eqb a b = true -> a = b.
Proof. destruct a, b; cbn; intros E; try discriminate; reflexivity. Qed.

Ltac bools :=
  repeat match goal with
         | H : negb _ = false |- _ => apply negb_false_iff in H
         | H : negb _ = true |- _ => apply negb_true_iff in H
         | H : _ || _ = false |- _ => apply orb_false_iff in H; destruct H
         | H : _ && _ = true |- _ => apply andb_true_iff in H; destruct H
         | H : cx_state_eqb _ _ = true |- _ => apply cx_state_eqb_true in H; subst
         | H : bp_state_eqb _ _ = true |- _ => apply bp_state_eqb_true in H; subst
         end.

Lemma pd_client_in p c m : pd_client p c = Some m -> exists k, In (k, m) p.
Proof.
  induction p as [|[k m'] p IH]; cbn [pd_client]; [discriminate|].
  destruct (beq k c).
  - intros E. injection E as ->. exists k. left. reflexivity.
  - intros E. destruct (IH E) as [k' Hin]. exists k'. right. exact Hin.
Qed.

Lemma tm_get_nonempty p c i n : names_nonempty p -> tm_get (pd_client p c) i = Some n -> n <> [].
Proof.
  intros Hp. destruct (pd_client p c) as [m|] eqn:Hc; cbn [tm_get]; [|discriminate].
  intros Hl. apply pd_client_in in Hc. destruct Hc as [k Hin].
  unfold names_nonempty in Hp. rewrite List.Forall_forall in Hp. exact (Hp _ Hin i n Hl).
Qed.

Lemma get_name_nonempty p c i n : names_nonempty p -> get_name p c i = Some n -> n <> [].
Proof.
  intros Hp. unfold get_name. destruct (tm_get (pd_client p c) i) as [n'|] eqn:E.
  - intros E'. injection E' as <-. eapply tm_get_nonempty; eassumption.
  - apply tm_get_nonempty, Hp.
Qed.

Section WithCfg.
Variable cfg : gw_cfg.
Hypothesis Hcfg : wf_cfg' cfg.

Lemma good_handle_connect s will clean proto dur cid :
  Inv s -> good (handle_connect cfg s will clean proto dur cid).
Proof.
  intros H. unfold handle_connect. cbv zeta. walk; try exact I.
  apply good_connect_start; [inv_tac|reflexivity|reflexivity|].
  - cbn [txn_ok cx_ok c_wqos c_wretain]. split; reflexivity.
  - intros Ha. unfold flags_ok. cbn [c_uflag c_pflag].
    destruct Hcfg as (_ & Hpw & _).
    destruct (cfg_user cfg); [reflexivity|]. rewrite (Hpw Ha eq_refl). reflexivity.
Qed.

Lemma good_connect_auth s g mq st method data :
  Inv s -> cx_ok mq st -> good (connect_auth s g mq st method data).
Proof.
  intros H Hx. unfold connect_auth. walk; try exact I.
  bools. cbn [cx_ok] in Hx. destruct Hx as [Hq Hr].
  apply good_connect_auth_done; [inv_tac|exact Hq|exact Hr|reflexivity].
Qed.

Lemma resolve_nonempty s tit tid topic :
  Inv s -> resolve_client_topic cfg s tit tid = Some topic -> topic <> [].
Proof.
  intros H. unfold resolve_client_topic.
  destruct (tit =? TIT_REGISTERED); [apply (inv_reg s H)|].
  destruct (tit =? TIT_PREDEFINED); [apply get_name_nonempty, Hcfg|].
  destruct (tit =? TIT_SHORT); [|discriminate].
  intros E. injection E as <-. apply decode_short_ne.
Qed.

Lemma good_handle_client_publish s dup qos retain tit tid mid data :
  Inv s -> qos < 4 -> good (handle_client_publish cfg s dup qos retain tit tid mid data).
Proof.
  intros H Hq. unfold handle_client_publish.
  destruct (resolve_client_topic cfg s tit tid) as [topic|] eqn:Hr; [|apply good_stop, H].
  pose proof (resolve_nonempty _ _ _ _ H Hr) as Hne.
  destruct (has_wildcard topic || ((qos =? 1) || (qos =? 2)) && (mid =? 0)) eqn:Hc; [apply good_stop, H|].
  apply good_mq_send; [|apply client_publish_valid; assumption].
  assert (Hm : (qos =? 1) = true -> mid <> 0).
  { intros E. rewrite E in Hc. apply orb_false_iff in Hc. destruct Hc as [_ Hc]. cbn [orb andb] in Hc.
    apply N.eqb_neq, Hc. }
  destruct (qos =? 1); [|exact H].
  destruct (new_obj s (TxClientPub1 mid tid)) as [s1 g] eqn:Hn.
  assert (H1 : Inv s1) by (inv_tac; exact I).
  inv_tac. apply byid_ok_insert; [apply H1|apply Hm; reflexivity].
Qed.

Lemma good_handle_subscribe s dup qos tit mid tid name :
  Inv s -> sub_topic_ok tit name -> good (handle_subscribe cfg s dup qos tit mid tid name).
Proof.
  intros H Hs. unfold handle_subscribe. cbv beta zeta.
  destruct ((2 <? qos) || (mid =? 0)) eqn:Hc; [apply good_stop, H|].
  assert (Hm : mid <> 0) by (apply orb_false_iff in Hc; destruct Hc as [_ Hc]; apply N.eqb_neq, Hc).
  assert (Hgo : forall s0 topic tid0, Inv s0 -> topic <> [] ->
            good (let (s1, g) := new_obj s0 (TxSubscribe mid tid0) in
                  mq_send (arm (s1 <| gw_by_id := <[mid := g]> (gw_by_id s1) |>) (TmTimed g) (retry_delay cfg))
                          (MqSubscribe mid false [(topic, qos)]))).
  { intros s0 topic tid0 H0 Hne. destruct (new_obj s0 (TxSubscribe mid tid0)) as [s1 g] eqn:Hn.
    assert (H1 : Inv s1) by (inv_tac; exact I).
    apply good_mq_send; [|apply subscribe_valid; assumption].
    inv_tac. apply byid_ok_insert; [apply H1|exact Hm]. }
  unfold TIT_STRING, TIT_PREDEFINED, TIT_SHORT.
  destruct (tit =? 0) eqn:E0.
  - assert (Hne : name <> []).
    { apply N.eqb_eq in E0. subst tit. destruct Hs as [[_ Hne]|[Hs|Hs]]; [exact Hne|discriminate Hs|discriminate Hs]. }
    destruct (negb (has_wildcard name)).
    + destruct (register_topic cfg s name) as [s1 [i|]] eqn:Hn.
      * apply Hgo; [|exact Hne]. inv_tac. exact Hne.
      * apply good_sn_send; [inv_tac; exact Hne|exact I].
    + apply Hgo; assumption.
  - destruct (tit =? 1) eqn:E1.
    + destruct (get_name (predefined cfg) (gw_client_id s) tid) as [topic|] eqn:Hg; [|apply good_stop, H].
      apply Hgo; [exact H|]. eapply get_name_nonempty; [apply Hcfg|exact Hg].
    + destruct (tit =? 2) eqn:E2.
      * apply Hgo; [exact H|apply decode_short_ne].
      * exfalso. apply N.eqb_neq in E0, E1, E2. destruct Hs as [[Hs _]|[Hs|Hs]]; contradiction.
Qed.

Lemma good_handle_unsubscribe s tit mid tid name :
  Inv s -> sub_topic_ok tit name -> good (handle_unsubscribe cfg s tit mid tid name).
Proof.
  intros H Hs. unfold handle_unsubscribe.
  destruct (mid =? 0) eqn:Hm; [apply good_stop, H|].
  unfold TIT_STRING, TIT_PREDEFINED, TIT_SHORT.
  destruct (tit =? 0) eqn:E0.
  - assert (Hne : name <> []).
    { apply N.eqb_eq in E0. subst tit. destruct Hs as [[_ Hne]|[Hs|Hs]]; [exact Hne|discriminate Hs|discriminate Hs]. }
    apply good_mq_send; [exact H|apply unsubscribe_valid; assumption].
  - destruct (tit =? 1) eqn:E1.
    + destruct (get_name (predefined cfg) (gw_client_id s) tid) as [topic|] eqn:Hg; [|apply good_stop, H].
      apply good_mq_send; [exact H|apply unsubscribe_valid; [exact Hm|]].
      eapply get_name_nonempty; [apply Hcfg|exact Hg].
    + destruct (tit =? 2) eqn:E2.
      * apply good_mq_send; [exact H|apply unsubscribe_valid; [exact Hm|apply decode_short_ne]].
      * exfalso. apply N.eqb_neq in E0, E1, E2. destruct Hs as [[Hs _]|[Hs|Hs]]; contradiction.
Qed.

Lemma good_bp_proceed s g mid qos st data snpub :
  Inv s -> data_ok data -> snpub_ok snpub -> good (bp_proceed cfg s g mid qos st data snpub).
Proof.
  intros H Hd Hp. unfold bp_proceed. cbv zeta.
  match goal with |- good (match st with BpDone => andthen ?r _ | _ => _ end) => assert (Hr : good r) end.
  { destruct data as [p|k m]; cbn [data_ok] in Hd.
    - apply good_sn_send_owned; [inv_tac|exact Hd]. cbn [txn_ok data_ok]. split; assumption.
    - apply good_mq_send; [inv_tac|apply ack_valid, Hd]. cbn [txn_ok data_ok]. split; assumption. }
  destruct st; try exact Hr.
  apply good_andthen; [exact Hr|]. intros s' H'. apply good_ok. inv_tac.
Qed.

Lemma good_bp_regack s g t rc : Inv s -> txn_ok t -> good (bp_regack cfg s g t rc).
Proof.
  intros H Ht. unfold bp_regack. walk.
  cbn [txn_ok data_ok snpub_ok sendable] in Ht. destruct Ht as [Hn Hp].
  apply good_bp_proceed; [inv_tac|exact Hp|exact Hp].
  apply reg_ok_insert; [apply H|exact Hn].
Qed.

Lemma good_handle_sn s p : Inv s -> dec_ok p -> good (handle_sn cfg s p).
Proof.
  intros H Hd. unfold handle_sn.
  destruct (negb (packet_legal cfg s p)); [apply good_stop, H|].
  destruct p; cbn [dec_ok] in Hd; try (apply good_stop, H).
  - (* Auth *)
    destruct (get_connect s) as [[[g mq] a]|] eqn:Hg; [|apply good_ok, H].
    apply good_connect_auth; [exact H|eapply get_connect_inv; eassumption].
  - (* Connect *) apply good_handle_connect, H.
  - (* WillTopic *)
    destruct (get_connect s) as [[[g mq] a]|] eqn:Hg; [|apply good_ok, H].
    pose proof (get_connect_inv _ _ _ _ H Hg) as Hx. walk; [|exact I].
    bools. cbn [cx_ok] in Hx. destruct Hx as [Hw Hf].
    cbn [txn_ok cx_ok]. split; [exact Hw|]. split; [|split; [|exact Hf]].
    + change (topic <> []).
      match goal with E : (len topic =? 0) = false |- _ =>
        destruct topic as [|x tl]; [exfalso; vm_compute in E; discriminate E|discriminate] end.
    + match goal with E : (2 <? qos) = false |- _ => apply N.ltb_ge in E; exact E end.
  - (* WillMsg *)
    destruct (get_connect s) as [[[g mq] a]|] eqn:Hg; [|apply good_ok, H].
    pose proof (get_connect_inv _ _ _ _ H Hg) as Hx. walk; [exact I|].
    bools. cbn [cx_ok] in Hx. destruct Hx as (Hw & Ht & Hq & Hf).
    apply connect_will_valid; assumption.
  - (* Register *)
    destruct (register_topic cfg s name) as [s1 [i|]] eqn:Hr; walk; first [exact I|exact Hd].
  - (* Regack *)
    destruct (get_by_id s mid) as [[g t]|] eqn:Hg; [|apply good_ok, H].
    apply get_by_id_inv in Hg; [|exact H]. destruct Hg as [Hm Ht].
    destruct t; try (apply good_ok, H). apply good_bp_regack; assumption.
  - (* Publish *) apply good_handle_client_publish; assumption.
  - (* Puback *)
    destruct (get_by_id s mid) as [[g t]|] eqn:Hg; [|apply good_ok, H].
    apply get_by_id_inv in Hg; [|exact H]. destruct Hg as [Hm Ht].
    walk. apply good_bp_proceed; [exact H|exact Hm|apply Ht].
  - (* Pubcomp *)
    destruct (get_by_id s mid) as [[g t]|] eqn:Hg; [|apply good_ok, H].
    apply get_by_id_inv in Hg; [|exact H]. destruct Hg as [Hm Ht].
    walk. apply good_bp_proceed; [exact H|exact Hm|apply Ht].
  - (* Pubrec *)
    destruct (get_by_id s mid) as [[g t]|] eqn:Hg; [|apply good_ok, H].
    apply get_by_id_inv in Hg; [|exact H]. destruct Hg as [Hm Ht].
    walk. apply good_bp_proceed; [exact H|exact Hm|apply Ht].
  - (* Pubrel *)
    destruct (mid =? 0) eqn:Hm; [apply good_stop, H|].
    apply good_mq_send; [exact H|]. cbn [wire mqtt_valid]. rewrite Hm. reflexivity.
  - (* Subscribe *) apply good_handle_subscribe; assumption.
  - (* Unsubscribe *) apply good_handle_unsubscribe; assumption.
  - (* Pingreq *)
    walk; first [exact I|reflexivity|apply H|constructor].
  - (* Disconnect *)
    walk; first [exact I|reflexivity|constructor].
Qed.

Ltac side :=
  cbn [txn_ok data_ok snpub_ok sendable cx_ok];
  first [ exact I | assumption | split; side | idtac ].

Lemma find_free_mid_nz fuel m : forall i j, find_free_mid fuel m i = Some j -> i <> 0 -> j <> 0.
Proof.
  induction fuel as [|fuel IH]; intros i j; cbn [find_free_mid]; destruct (m !! i).
  - discriminate.
  - intros E. injection E as <-. auto.
  - unfold MinPacketID. destruct (N.leb_spec i 1) as [Hle|Hgt]; [discriminate|].
    intros E _. apply (IH _ _ E). lia.
  - intros E. injection E as <-. auto.
Qed.

Lemma good_handle_broker_publish s dup qos retain topic mid0 payload :
  Inv s -> topic <> [] -> (qos <> 0 -> mid0 <> 0) ->
  good (handle_broker_publish cfg s dup qos retain topic mid0 payload).
Proof.
  intros H Ht Hm0. unfold handle_broker_publish. cbv zeta.
  destruct (if is_short_topic topic then _ else _) as [[tid tit]|];
    (destruct (if qos =? 0 then find_free_mid _ _ _ else Some mid0) as [mid|] eqn:Ho;
     [assert (Hmid : mid <> 0)
        by (destruct (N.eqb_spec qos 0) as [E|E];
            [apply (find_free_mid_nz _ _ _ _ Ho); discriminate|injection Ho as <-; apply Hm0, E])|]);
    walk; try exact I.
  - apply good_bp_proceed; [inv_tac; side|exact I|exact I].
    apply byid_ok_insert; [|exact Hmid]. apply inv_byid. inv_tac; side.
  - apply good_bp_proceed; [inv_tac; side|exact Ht|exact I].
    apply byid_ok_insert; [|exact Hmid]. apply inv_byid. inv_tac; side.
Qed.

Definition wf_mq' (m : mq_pkt) : Prop :=
  match m with
  | MqPublish _ q _ t mid _ => t <> [] /\ (q <> 0 -> mid <> 0)
  | _ => True
  end.

Lemma good_handle_mq s m : Inv s -> wf_mq' m -> good (handle_mq cfg s m).
Proof.
  intros H Hm. unfold handle_mq. destruct m; cbn [wf_mq'] in Hm; try (apply good_stop, H).
  - (* MqConnack *) walk; exact I.
  - (* MqPublish *) destruct Hm as [Ht Hq]. apply good_handle_broker_publish; assumption.
  - (* MqPuback *) walk; exact I.
  - (* MqPubrec *) walk; exact I.
  - (* MqPubrel *)
    destruct (get_by_id s mid) as [[g t]|] eqn:Hg; [|apply good_ok, H].
    apply get_by_id_inv in Hg; [|exact H]. destruct Hg as [Hmid Ht].
    walk. apply good_bp_proceed; [exact H|exact I|apply Ht].
  - (* MqPubcomp *) walk; exact I.
  - (* MqSuback *) walk; exact I.
  - (* MqUnsuback *) walk; exact I.
  - (* MqPingresp *) walk; exact I.
Qed.

(* ------------------------------------------------------------------ timers *)

Lemma good_catch g r :
  good r -> good (match r with (s1, o, HEnd _) => ok (finish_obj s1 g) o | (s1, o, HOk) => (s1, o, HOk) end).
Proof.
  destruct r as [[s1 o] [|c]]; [intros Hr; exact Hr|].
  intros [Hi Ho]. cbn [fst snd] in *. split; [apply Inv_finish_obj, Hi|exact Ho].
Qed.

Lemma buf_ok_map_dup (f : N -> packet -> bool) b :
  buf_ok b ->
  buf_ok (map (fun e : option N * packet =>
                 match e with
                 | (Some g', p) => if f g' p then (Some g', set_dup p) else e
                 | _ => e
                 end) b).
Proof.
  unfold buf_ok. induction 1 as [|[[g'|] p] b Hp _ IH]; cbn [map]; constructor; try exact IH; cbn [snd] in *.
  - destruct (f g' p); cbn [snd]; [apply sendable_set_dup, Hp|exact Hp].
  - exact Hp.
Qed.

Lemma good_fire s k : Inv s -> good (fire cfg s k).
Proof.
  intros H. unfold fire. destruct k as [g|g|g|p|p].
  - walk.
  - walk.
  - destruct (gw_objs s !! g) as [t|] eqn:Ho; [|apply good_ok, H].
    pose proof (inv_objs s H _ _ Ho) as Ht.
    destruct t as [| | |mid qos st data snpub n]; try (apply good_ok, H).
    destruct (retry_count cfg <? n + 1); [apply good_ok; inv_tac|].
    cbv zeta. destruct Ht as [Hd Hp]. destruct data as [p|k m]; cbn [data_ok] in Hd.
    + apply good_catch. apply good_sn_send_owned; [inv_tac|apply sendable_set_dup, Hd].
      * side. apply sendable_set_dup, Hd.
      * apply (buf_ok_map_dup (fun g' q => (g' =? g) && same_packet_obj q p)), H.
    + apply good_mq_send; [inv_tac|apply ack_valid, Hd].
      side.
  - walk. reflexivity.
  - walk.
Qed.

(* ------------------------------------------------------------------ the step *)

Definition good2 (x : gw_state * list gw_out) : Prop := Inv (fst x) /\ outs_ok (snd x).

Lemma good2_begin_end s c a b : Inv s -> good2 (begin_end s c a b).
Proof.
  intros H. unfold begin_end. split; cbn [fst snd]; [inv_tac|].
  constructor; [exact I|].
  destruct (gw_st s); repeat constructor; apply disconnect0_dgram_ok.
Qed.

Lemma good2_finish_r r a b : good r -> good2 (finish_r r a b).
Proof.
  intros [Hi Ho]. destruct r as [[s o] [|c]]; cbn [finish_r fst snd] in *; [split; assumption|].
  pose proof (good2_begin_end s c a b Hi) as [Hi' Ho']. destruct (begin_end s c a b) as [s' o'].
  cbn [fst snd] in *. split; [exact Hi'|]. apply Forall_app. split; assumption.
Qed.

Lemma good2_run_timers fuel : forall s t, Inv s -> good2 (run_timers fuel cfg s t).
Proof.
  induction fuel as [|fuel IH]; intros s t H; cbn [run_timers]; [split; [exact H|constructor]|].
  destruct (gw_ending s) as [te|].
  - destruct (te <=? t); split; cbn [fst snd]; try inv_tac; repeat constructor.
  - destruct (min_timer (gw_timers s)) as [tm|]; [|split; [exact H|constructor]].
    destruct (tm_at tm <=? t); [|split; [exact H|constructor]].
    match goal with |- context [finish_r ?r _ _] =>
      assert (Hf : good2 (finish_r r false false)) by (apply good2_finish_r, good_fire; inv_tac);
      destruct (finish_r r false false) as [s' o] end.
    destruct Hf as [Hi Ho]. cbn [fst snd] in *.
    specialize (IH s' t Hi). destruct (run_timers fuel cfg s' t) as [s'' o']. destruct IH as [Hi' Ho'].
    cbn [fst snd] in *. split; [exact Hi'|]. apply Forall_app. split; assumption.
Qed.

Lemma good2_gw_step s ev : Inv s -> wf_event' ev -> good2 (gw_step cfg s ev).
Proof.
  intros H [Hwf Hev]. unfold gw_step.
  assert (Hnil : good2 (s, [])) by (split; [exact H|constructor]).
  destruct (gw_ended s); [exact Hnil|].
  destruct ev as [dg|m| | |d|].
  - destruct (gw_ending s); [exact Hnil|]. cbv zeta.
    destruct (read_dgram dg) as [p|e|ps] eqn:Hr; apply good2_finish_r.
    + apply good_handle_sn; [inv_tac|]. eapply read_dgram_dec_ok, Hr.
    + apply good_stop. inv_tac.
    + apply good_stop. inv_tac.
  - destruct (gw_ending s); [exact Hnil|]. cbv zeta. apply good2_finish_r.
    apply good_handle_mq; [inv_tac|]. destruct m; try exact I. exact Hev.
  - destruct (gw_ending s); [exact Hnil|]. apply good2_finish_r, good_stop. inv_tac.
  - destruct (gw_ending s); [exact Hnil|]. apply good2_finish_r, good_stop. inv_tac.
  - cbv zeta. pose proof (good2_run_timers (advance_fuel cfg s d) s (gw_now s + d) H) as Hrt.
    destruct (run_timers (advance_fuel cfg s d) cfg s (gw_now s + d)) as [s' o].
    destruct Hrt as [Hi Ho]. cbn [fst snd] in *. split; [|exact Ho]. cbn [fst].
    destruct (gw_ended s'); inv_tac.
  - destruct (gw_ending s); [exact Hnil|]. apply good2_finish_r, good_stop. inv_tac.
Qed.

End WithCfg.

(* ------------------------------------------------------------------ main theorems *)

Theorem Inv_reach' cfg s : wf_cfg' cfg -> reach' cfg s -> Inv s.
Proof.
  intros Hcfg Hr. induction Hr as [|s ev _ IH Hev]; [apply Inv_init|].
  apply (good2_gw_step cfg Hcfg s ev IH Hev).
Qed.

(* every output of a step from a reachable state is well-formed *)
Theorem gw_step_outs_ok cfg s ev : wf_cfg' cfg -> reach' cfg s -> wf_event' ev ->
  outs_ok (snd (gw_step cfg s ev)).
Proof.
  intros Hcfg Hr Hev. apply (good2_gw_step cfg Hcfg s ev (Inv_reach' cfg s Hcfg Hr) Hev).
Qed.

Lemma chk_C23_outs os : outs_ok os -> chk_C23 (obs_of_outs os) = [].
Proof.
  induction 1 as [|o os Ho _ IH]; [reflexivity|].
  unfold chk_C23, sns, obs_of_outs in *. rewrite bind_cons, !bind_app, IH, app_nil_r.
  destruct o as [t dg|t m|t c|t]; cbn; try reflexivity.
  cbn [out_ok] in Ho. rewrite Ho. reflexivity.
Qed.

Lemma chk_C24_outs os : outs_ok os -> chk_C24 (obs_of_outs os) = [].
Proof.
  induction 1 as [|o os Ho _ IH]; [reflexivity|].
  unfold chk_C24, obs_of_outs in *. rewrite bind_cons, !bind_app, IH, app_nil_r.
  destruct o as [t dg|t m|t c|t]; cbn; try reflexivity.
  cbn [out_ok] in Ho. rewrite Ho. reflexivity.
Qed.

(* C23 under the hypotheses of C24 (a corollary of gw_step_outs_ok; the variant with the
   minimal hypotheses is chk_C23_sound_partial below) *)
Theorem chk_C23_sound_partial' : forall cfg s ev, wf_cfg' cfg -> reach' cfg s -> wf_event' ev ->
  chk_C23 (obs_of_outs (snd (gw_step cfg s ev))) = [].
Proof. intros cfg s ev Hcfg Hr Hev. apply chk_C23_outs, gw_step_outs_ok; assumption. Qed.

(* Original statement, FALSE (chk_C24_sound_false below):
     Theorem chk_C24_sound : forall cfg s ev, wf_cfg cfg -> reach cfg s -> wf_event ev ->
       chk_C24 (obs_of_outs (snd (gw_step cfg s ev))) = [].
   Added: wf_cfg' instead of wf_cfg (clauses 1, 2), wf_event' instead of wf_event for the
   event and for all events of the history (reach'; clauses 3, 4). *)
Theorem chk_C24_sound_partial : forall cfg s ev, wf_cfg' cfg -> reach' cfg s -> wf_event' ev ->
  chk_C24 (obs_of_outs (snd (gw_step cfg s ev))) = [].
Proof. intros cfg s ev Hcfg Hr Hev. apply chk_C24_outs, gw_step_outs_ok; assumption. Qed.


Print Assumptions chk_C23_sound_partial'.
Print Assumptions chk_C24_sound_partial.
