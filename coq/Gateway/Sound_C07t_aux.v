(* Gateway/Sound_C07t_aux.v — model facts for the soundness of mon7 (Checkers/ChkGw7.v):
   - the broker's acceptance (gw_accepted) is recorded only in the step of a broker CONNACK 0 that meets a
     connect exchange waiting for it (cxk);
   - a connect exchange comes to wait for the broker's CONNACK only in a step that writes an MQTT CONNECT;
   - a session that is not running writes nothing but the end of the session. *)
From stdpp Require Import base option list numbers fin_maps nmap.
From Coq Require Import Lia ZArith ZifyN ZifyNat ZifyBool.
From RecordUpdate Require Import RecordSet.
From Verif.Base Require Import Bytes BytesProofs.
From Verif.Codec Require Import Packets Decode Encode EncodeProofs.
From Verif.Topics Require Import Predefined.
From Verif.Gateway Require Import GwTypes GwStep GwStepProofs GwWf GwRun Sound_C07C08C09_aux Sound_C07C08C09.
From Verif.Checkers Require Import ChkCodec ChkGw ChkGw2 ChkGw7.
Import RecordSetNotations.
Open Scope N_scope.

(* the connect exchange has sent its MQTT CONNECT and waits for the broker's CONNACK *)
Definition cxk (s : gw_state) : Prop :=
  exists g mq, gw_connect s = Some g /\ gw_objs s !! g = Some (TxConnect mq CxConnack).
Definition has_con (o : list gw_out) : Prop := exists t c, In (OutMq t (MqConnect c)) o.

Definition T0 (s s1 : gw_state) : Prop := gw_accepted s1 = gw_accepted s /\ (cxk s1 -> cxk s).
Definition TT (s s1 : gw_state) (o : list gw_out) : Prop :=
  gw_accepted s1 = gw_accepted s /\ (cxk s1 -> cxk s \/ has_con o).
Definition TR (s : gw_state) (r : R) : Prop := TT s (st_of r) (outs_of r).

Lemma has_con_app_l a b : has_con a -> has_con (a ++ b).
Proof. intros (t & c & H). exists t, c. apply in_or_app. left. exact H. Qed.
Lemma has_con_app_r a b : has_con b -> has_con (a ++ b).
Proof. intros (t & c & H). exists t, c. apply in_or_app. right. exact H. Qed.

Lemma T0_refl s : T0 s s.
Proof. split; [reflexivity|auto]. Qed.

Lemma T0_trans s1 s2 s3 : T0 s1 s2 -> T0 s2 s3 -> T0 s1 s3.
Proof. intros [A1 A2] [B1 B2]. split; [congruence|auto]. Qed.

Lemma T0_same s s1 :
  gw_accepted s1 = gw_accepted s -> gw_connect s1 = gw_connect s -> gw_objs s1 = gw_objs s -> T0 s s1.
Proof. intros E1 E2 E3. split; [exact E1|]. unfold cxk. rewrite E2, E3. auto. Qed.

Lemma T0_view s s1 : same_view s s1 -> T0 s s1.
Proof. intros H. apply T0_same; apply H. Qed.

Lemma T0_insert s s1 k t :
  gw_accepted s1 = gw_accepted s -> gw_connect s1 = gw_connect s -> gw_objs s1 = <[k := t]> (gw_objs s) ->
  (forall mq, t <> TxConnect mq CxConnack) -> T0 s s1.
Proof.
  intros E1 E2 E3 Ht. split; [exact E1|]. intros (g & mq & Hc & Ho). rewrite E2 in Hc. rewrite E3 in Ho.
  apply lookup_insert_Some in Ho. destruct Ho as [[_ E]|[_ Ho]]; [exfalso; exact (Ht mq E)|]. exists g, mq. auto.
Qed.

Lemma T0_set_obj s g t : (forall mq, t <> TxConnect mq CxConnack) -> T0 s (set_obj s g t).
Proof. intros Ht. eapply T0_insert; [reflexivity..|exact Ht]. Qed.

Lemma T0_finish_obj s g : T0 s (finish_obj s g).
Proof.
  split; [apply acc_finish_obj|].
  assert (Hc : forall gc, gw_connect (finish_obj s g) = Some gc -> gw_connect s = Some gc).
  { intros gc. unfold finish_obj. destruct (gw_objs s !! g) as [t|]; [|auto]. cbv zeta.
    destruct t as [mq a|m tid|m tid|m q st d sp n]; cbn; try discriminate;
      match goal with |- context [match ?x with Some _ => _ | None => _ end] => destruct x as [g'|] end;
      try destruct (g' =? g); cbn; auto. }
  assert (Ho : forall x t, gw_objs (finish_obj s g) !! x = Some t -> gw_objs s !! x = Some t).
  { intros x t. unfold finish_obj. destruct (gw_objs s !! g) as [t0|]; [|auto]. cbv zeta.
    destruct t0 as [mq a|m tid|m tid|m q st d sp n]; cbn;
      try (match goal with |- context [match ?x with Some _ => _ | None => _ end] => destruct x as [g'|] end;
           try destruct (g' =? g); cbn);
      intros H; apply lookup_delete_Some in H; tauto. }
  intros (gc & mq & H1 & H2). exists gc, mq. split; [apply Hc, H1|apply Ho, H2].
Qed.

Lemma TT_of_T0 s s1 o : T0 s s1 -> TT s s1 o.
Proof. intros [A B]. split; [exact A|auto]. Qed.

Lemma TT_trans s s1 s2 o1 o2 : TT s s1 o1 -> TT s1 s2 o2 -> TT s s2 (o1 ++ o2).
Proof.
  intros [A1 A2] [B1 B2]. split; [congruence|]. intros H. destruct (B2 H) as [H1|H1].
  - destruct (A2 H1) as [H0|H0]; [left; exact H0|right; apply has_con_app_l, H0].
  - right. apply has_con_app_r, H1.
Qed.

Lemma TR_pre s s1 r : T0 s s1 -> TR s1 r -> TR s r.
Proof.
  intros H0 H1. pose proof (TT_trans s s1 (st_of r) [] (outs_of r) (TT_of_T0 _ _ _ H0) H1) as H. exact H.
Qed.

Lemma TR_ok s o : TR s (ok s o).
Proof. apply TT_of_T0, T0_refl. Qed.
Lemma TR_stop s o c : TR s (stop s o c).
Proof. apply TT_of_T0, T0_refl. Qed.
Lemma TR_mq_send s m : TR s (mq_send s m).
Proof. apply TT_of_T0, T0_refl. Qed.
Lemma TR_sn_send_owned s ow p : TR s (sn_send_owned s ow p).
Proof.
  unfold TR, sn_send_owned. destruct (gw_st s); try destruct (len (pack p) <=? MaxPacketLen);
    apply TT_of_T0; cbn [st_of ok stop fst]; first [apply T0_refl|apply T0_same; reflexivity].
Qed.
Lemma TR_sn_send s p : TR s (sn_send s p).
Proof. apply TR_sn_send_owned. Qed.
Lemma TR_sn_send_now s p : TR s (sn_send_now s p).
Proof. unfold TR, sn_send_now. destruct (len (pack p) <=? MaxPacketLen); apply TT_of_T0, T0_refl. Qed.

Lemma TR_andthen s r g : TR s r -> (forall s1, TR s1 (g s1)) -> TR s (andthen r g).
Proof.
  intros Hr Hg. destruct r as [[s1 o] [|c]]; unfold TR, st_of, outs_of in *; cbn [andthen fst snd] in *; [|exact Hr].
  specialize (Hg s1). destruct (g s1) as [[s2 o2] res]. cbn [fst snd] in *. eapply TT_trans; eassumption.
Qed.

Lemma TR_send_all ps : forall s, TR s (send_all s ps).
Proof.
  induction ps as [|[o p] ps IH]; intros s; cbn [send_all]; [apply TR_ok|].
  apply TR_andthen; [apply TR_sn_send|exact IH].
Qed.

(* states reached by updates that touch neither the acceptance nor the connect exchange *)
Ltac t0 :=
  lazymatch goal with
  | |- T0 ?s ?s => apply T0_refl
  | |- T0 ?s (finish_obj ?s1 ?g) => apply (T0_trans s s1); [t0|apply T0_finish_obj]
  | |- T0 ?s (set_obj ?s1 ?g ?t) => apply (T0_trans s s1); [t0|apply T0_set_obj; intros ? E; discriminate E]
  | |- T0 ?s (arm ?s1 _ _) => apply (T0_trans s s1); [t0|apply T0_same; reflexivity]
  | |- T0 ?s (disarm_obj ?s1 _) => apply (T0_trans s s1); [t0|apply T0_same; reflexivity]
  | |- T0 ?s (disarm_ping ?s1 _) => apply (T0_trans s s1); [t0|apply T0_same; reflexivity]
  | |- T0 ?s (note_handed ?s1 _ _) => apply (T0_trans s s1); [t0|apply T0_same; reflexivity]
  | |- T0 ?s (set ?p ?f ?s1) => apply (T0_trans s s1); [t0|apply T0_same; reflexivity]
  | |- T0 ?s (match ?x with _ => _ end) => destruct x; t0
  | |- T0 ?s (if ?x then _ else _) => destruct x; t0
  end.

Ltac tr_leaf :=
  lazymatch goal with
  | |- TR ?s (ok ?S _) => apply (TR_pre s S); [t0|apply TR_ok]
  | |- TR ?s (stop ?S _ _) => apply (TR_pre s S); [t0|apply TR_stop]
  | |- TR ?s (sn_send ?S _) => apply (TR_pre s S); [t0|apply TR_sn_send]
  | |- TR ?s (sn_send_owned ?S _ _) => apply (TR_pre s S); [t0|apply TR_sn_send_owned]
  | |- TR ?s (sn_send_now ?S _) => apply (TR_pre s S); [t0|apply TR_sn_send_now]
  | |- TR ?s (mq_send ?S _) => apply (TR_pre s S); [t0|apply TR_mq_send]
  | |- TR ?s (send_all ?S _) => apply (TR_pre s S); [t0|apply TR_send_all]
  | |- TR ?s (andthen _ _) => apply TR_andthen; [|intros ?]
  | |- TR _ (match ?x with _ => _ end) => destruct x eqn:?
  | |- TR _ (if ?x then _ else _) => destruct x eqn:?
  end.
Ltac tr_auto := repeat (cbv zeta; tr_leaf).

(* ---- the connect exchange *)

Lemma TR_connect_send s g mq : TR s (mq_send (set_obj s g (TxConnect mq CxConnack)) (MqConnect mq)).
Proof.
  split; [reflexivity|]. intros _. right. exists (gw_now s), mq. left. reflexivity.
Qed.

Lemma connect_auth_done_tr s g mq : TR s (connect_auth_done s g mq).
Proof. unfold connect_auth_done. destruct (c_will mq); [tr_auto|apply TR_connect_send]. Qed.

Lemma connect_start_tr s g mq a : TR s (connect_start s g mq a).
Proof. unfold connect_start. destruct a; [tr_auto|apply connect_auth_done_tr]. Qed.

Lemma handle_connect_tr cfg s will clean proto dur cid : TR s (handle_connect cfg s will clean proto dur cid).
Proof.
  unfold handle_connect.
  destruct (negb (proto =? 1)); [tr_auto|].
  destruct (cstate_eqb (gw_st s) Awake || cstate_eqb (gw_st s) Asleep); [tr_auto|].
  destruct (dur =? 0); [tr_auto|]. cbv zeta.
  match goal with |- context [new_obj ?S ?T] => set (S1 := S); set (T1 := T) end.
  change (new_obj S1 T1) with (fst (new_obj S1 T1), gw_next_obj S1). cbv iota beta.
  match goal with |- TR s (connect_start ?S2 _ _ _) => apply (TR_pre s S2); [|apply connect_start_tr] end.
  split.
  - subst S1. cbn. destruct (gw_connect s); cbn; rewrite ?acc_finish_obj; reflexivity.
  - intros (g & mq & Hc & Ho). exfalso. cbn in Hc. injection Hc as <-.
    unfold new_obj, arm in Ho. cbn in Ho. rewrite lookup_insert in Ho. subst T1. discriminate Ho.
Qed.

Lemma connect_auth_tr s g mq a method data : TR s (connect_auth s g mq a method data).
Proof.
  unfold connect_auth.
  destruct (negb (cx_state_eqb a CxAuth)); [tr_auto|].
  destruct (beq method AUTH_PLAIN); [|tr_auto].
  destruct (decode_plain data) as [[u p]|]; [|tr_auto].
  match goal with |- TR s (connect_auth_done ?S _ _) => apply (TR_pre s S); [t0|apply connect_auth_done_tr] end.
Qed.

(* ---- the other handlers *)

Lemma handle_client_publish_tr cfg s dup qos retain tit tid mid data :
  TR s (handle_client_publish cfg s dup qos retain tit tid mid data).
Proof.
  unfold handle_client_publish.
  destruct (resolve_client_topic cfg s tit tid) as [topic|]; [|tr_auto].
  destruct (has_wildcard topic || ((qos =? 1) || (qos =? 2)) && (mid =? 0)); [tr_auto|].
  match goal with |- TR s (mq_send ?S _) => apply (TR_pre s S); [|apply TR_mq_send] end.
  destruct (qos =? 1); [|apply T0_refl].
  unfold new_obj. eapply T0_insert; [reflexivity..|intros ? E; discriminate E].
Qed.

Lemma sub_go_tr cfg s0 s mid qos topic topic_id :
  T0 s0 s ->
  TR s0 (match new_obj s (TxSubscribe mid topic_id) with
         | (s1, g) =>
           mq_send (arm (s1 <| gw_by_id := <[mid := g]> (gw_by_id s1) |>) (TmTimed g) (retry_delay cfg))
                   (MqSubscribe mid false [(topic, qos)])
         end).
Proof.
  intros H0. unfold new_obj.
  match goal with |- TR s0 (mq_send ?S _) => apply (TR_pre s0 S); [|apply TR_mq_send] end.
  eapply T0_trans; [exact H0|]. eapply T0_insert; [reflexivity..|intros ? E; discriminate E].
Qed.

Lemma handle_subscribe_tr cfg s dup qos tit mid tid name : TR s (handle_subscribe cfg s dup qos tit mid tid name).
Proof.
  unfold handle_subscribe. cbv zeta.
  destruct ((2 <? qos) || (mid =? 0)); [tr_auto|].
  destruct (tit =? TIT_STRING); [destruct (negb (has_wildcard name))|].
  - pose proof (register_topic_view cfg s name) as Hv.
    destruct (register_topic cfg s name) as [s1 [i|]]; cbn [fst] in Hv.
    + apply sub_go_tr, T0_view, Hv.
    + apply (TR_pre s s1); [apply T0_view, Hv|apply TR_sn_send].
  - apply sub_go_tr, T0_refl.
  - destruct (tit =? TIT_PREDEFINED).
    + destruct (get_name (predefined cfg) (gw_client_id s) tid); [apply sub_go_tr, T0_refl|tr_auto].
    + destruct (tit =? TIT_SHORT); apply sub_go_tr, T0_refl.
Qed.

Lemma handle_unsubscribe_tr cfg s tit mid tid name : TR s (handle_unsubscribe cfg s tit mid tid name).
Proof. unfold handle_unsubscribe. tr_auto. Qed.

Lemma bp_proceed_tr cfg s g mid qos st data snpub : TR s (bp_proceed cfg s g mid qos st data snpub).
Proof. unfold bp_proceed. cbv zeta. destruct data; destruct st; tr_auto. Qed.

Lemma bp_regack_tr cfg s g t rc : TR s (bp_regack cfg s g t rc).
Proof.
  unfold bp_regack. tr_auto.
  match goal with |- TR s (bp_proceed cfg ?S _ _ _ _ _ _) => apply (TR_pre s S); [t0|apply bp_proceed_tr] end.
Qed.

Lemma handle_sn_tr cfg s p : TR s (handle_sn cfg s p).
Proof.
  unfold handle_sn. destruct (negb (packet_legal cfg s p)); [tr_auto|].
  destruct p; try (tr_auto; fail).
  - (* Auth *) destruct (get_connect s) as [[[g mq] a]|]; [apply connect_auth_tr|tr_auto].
  - (* Connect *) apply handle_connect_tr.
  - (* WillMsg *)
    destruct (get_connect s) as [[[g mq] a]|]; [|tr_auto].
    destruct (negb (cx_state_eqb a CxWillMsg)); [tr_auto|]. apply TR_connect_send.
  - (* Register *)
    pose proof (register_topic_view cfg s name) as Hv.
    destruct (register_topic cfg s name) as [s1 [i|]]; cbn [fst] in Hv.
    + match goal with |- TR s (sn_send ?S _) => apply (TR_pre s S); [|apply TR_sn_send] end.
      eapply T0_trans; [apply T0_view, Hv|apply T0_same; reflexivity].
    + apply (TR_pre s s1); [apply T0_view, Hv|apply TR_sn_send].
  - (* Regack *) tr_auto. apply bp_regack_tr.
  - (* Publish *) apply handle_client_publish_tr.
  - (* Puback *) tr_auto; apply bp_proceed_tr.
  - (* Pubcomp *) tr_auto; apply bp_proceed_tr.
  - (* Pubrec *) tr_auto; apply bp_proceed_tr.
  - (* Subscribe *) apply handle_subscribe_tr.
  - (* Unsubscribe *) apply handle_unsubscribe_tr.
Qed.

Lemma handle_broker_publish_tr cfg s dup q r t mid pl : TR s (handle_broker_publish cfg s dup q r t mid pl).
Proof.
  unfold handle_broker_publish.
  destruct (if is_short_topic t then _ else _) as [[tid tit]|]; cbv beta iota zeta.
  - destruct ((q =? 0) && negb false); [tr_auto|].
    destruct (if q =? 0 then _ else _) as [mid'|]; [|tr_auto].
    destruct (2 <? q); [tr_auto|]. unfold new_obj.
    match goal with |- TR s (bp_proceed cfg ?S _ _ _ _ _ _) => apply (TR_pre s S); [|apply bp_proceed_tr] end.
    eapply T0_insert; [reflexivity..|intros ? E; discriminate E].
  - destruct ((q =? 0) && negb true); [tr_auto|].
    destruct (if q =? 0 then _ else _) as [mid'|]; [|tr_auto].
    destruct (2 <? q); [tr_auto|].
    pose proof (new_topic_id_view cfg s) as Hv.
    destruct (new_topic_id cfg s) as [s1 [i|]]; cbn [fst] in Hv; [|apply (TR_pre s s1); [apply T0_view, Hv|apply TR_stop]].
    unfold new_obj.
    match goal with |- TR s (bp_proceed cfg ?S _ _ _ _ _ _) => apply (TR_pre s S); [|apply bp_proceed_tr] end.
    eapply T0_trans; [apply T0_view, Hv|]. eapply T0_insert; [reflexivity..|intros ? E; discriminate E].
Qed.

(* every broker packet but CONNACK *)
Lemma handle_mq_tr cfg s m :
  match m with MqConnack _ _ => False | _ => True end -> TR s (handle_mq cfg s m).
Proof.
  intros Hm. unfold handle_mq. destruct m; try contradiction; try (tr_auto; fail).
  - apply handle_broker_publish_tr.
  - tr_auto. apply bp_proceed_tr.
Qed.

(* the broker's CONNACK: the only place where the acceptance is recorded *)
Lemma handle_mq_connack_T cfg s sp rc :
  (gw_accepted (st_of (handle_mq cfg s (MqConnack sp rc))) = true -> gw_accepted s = true \/ (rc = 0 /\ cxk s)) /\
  (cxk (st_of (handle_mq cfg s (MqConnack sp rc))) -> cxk s \/ has_con (outs_of (handle_mq cfg s (MqConnack sp rc)))).
Proof.
  cbn [handle_mq].
  destruct (get_connect s) as [[[g mq] a]|] eqn:Eg; [|split; auto].
  apply get_connect_Some in Eg.
  destruct (negb (cx_state_eqb a CxConnack)) eqn:Ea; [split; auto|].
  apply negb_false_iff, cx_state_eqb_eq in Ea. subst a.
  assert (Hk : cxk s) by (exists g, mq; exact Eg).
  destruct (negb (rc =? 0)) eqn:Er.
  - assert (H : TR s (andthen (sn_send s (Connack RC_CONGESTION)) (fun s0 => stop (finish_obj s0 g) [] EcConnectFailed)))
      by tr_auto.
    destruct H as [H1 H2]. split; [intros H; rewrite H1 in H; auto|exact H2].
  - apply negb_false_iff, N.eqb_eq in Er. split; [intros _; right; auto|intros _; left; exact Hk].
Qed.

(* ---- timers *)

Lemma fire_tr cfg s k : TR s (fire cfg s k).
Proof.
  unfold fire. destruct k as [g|g|g|p|p]; try (tr_auto; fail).
  destruct (gw_objs s !! g) as [t|]; [|tr_auto].
  destruct t as [mq a|m0 tid|m0 tid|mid qos st data snpub n]; try (tr_auto; fail).
  destruct (retry_count cfg <? n + 1); [tr_auto|]. cbv zeta.
  destruct data as [p|k m]; [|tr_auto].
  match goal with |- context [sn_send_owned ?S ?o ?q] =>
    assert (H0 : T0 s S) by t0; pose proof (TR_pre s S _ H0 (TR_sn_send_owned S o q)) as H;
    destruct (sn_send_owned S o q) as [[s1 o1] [|c]] end; [exact H|].
  unfold TR, st_of, outs_of, ok in *. cbn [fst snd] in *.
  pose proof (TT_trans s s1 (finish_obj s1 g) o1 [] H (TT_of_T0 _ _ _ (T0_finish_obj s1 g))) as H2.
  rewrite app_nil_r in H2. exact H2.
Qed.

Lemma finish_r_TT s r a b : TR s r -> TT s (fst (finish_r r a b)) (snd (finish_r r a b)).
Proof.
  intros H. destruct r as [[s1 o] [|c]]; unfold TR, st_of, outs_of in H; cbn [finish_r fst snd] in *; [exact H|].
  unfold begin_end. cbn [fst snd].
  eapply TT_trans; [exact H|]. apply TT_of_T0, T0_same; reflexivity.
Qed.

Lemma run_timers_TT cfg t fuel : forall s, TT s (fst (run_timers fuel cfg s t)) (snd (run_timers fuel cfg s t)).
Proof.
  induction fuel as [|fuel IH]; intros s; cbn [run_timers]; [apply TT_of_T0, T0_refl|].
  destruct (gw_ending s) as [te|].
  - destruct (te <=? t); cbn [fst snd]; apply TT_of_T0; [apply T0_same; reflexivity|apply T0_refl].
  - destruct (min_timer (gw_timers s)) as [tm|]; [|apply TT_of_T0, T0_refl].
    destruct (tm_at tm <=? t); [|apply TT_of_T0, T0_refl].
    match goal with |- context [fire cfg ?S ?k] =>
      assert (H0 : T0 s S) by (apply T0_same; reflexivity);
      pose proof (finish_r_TT s _ false false (TR_pre s S _ H0 (fire_tr cfg S k))) as H1;
      destruct (finish_r (fire cfg S k) false false) as [s1 o1] end.
    cbn [fst snd] in H1. specialize (IH s1). destruct (run_timers fuel cfg s1 t) as [s2 o2]. cbn [fst snd] in *.
    eapply TT_trans; eassumption.
Qed.

(* ================================================================== the step *)

Theorem step_T cfg s ev :
  (gw_accepted (fst (gw_step cfg s ev)) = true -> gw_accepted s = true \/ (is_connack0 ev = true /\ cxk s)) /\
  (cxk (fst (gw_step cfg s ev)) -> cxk s \/ has_con (snd (gw_step cfg s ev))).
Proof.
  assert (Hgen : forall s1 o, TT s s1 o ->
            (gw_accepted s1 = true -> gw_accepted s = true \/ (is_connack0 ev = true /\ cxk s)) /\
            (cxk s1 -> cxk s \/ has_con o)).
  { intros s1 o [A B]. split; [intros H; left; congruence|exact B]. }
  unfold gw_step. destruct (gw_ended s); [apply Hgen, TT_of_T0, T0_refl|].
  destruct ev as [dg|m| | |d|].
  - destruct (gw_ending s); [apply Hgen, TT_of_T0, T0_refl|].
    destruct (read_dgram dg) as [p|e|ps]; apply Hgen, finish_r_TT.
    + match goal with |- TR s (handle_sn cfg ?S p) => apply (TR_pre s S); [apply T0_same; reflexivity|apply handle_sn_tr] end.
    + match goal with |- TR s (stop ?S _ _) => apply (TR_pre s S); [apply T0_same; reflexivity|apply TR_stop] end.
    + match goal with |- TR s (stop ?S _ _) => apply (TR_pre s S); [apply T0_same; reflexivity|apply TR_stop] end.
  - destruct (gw_ending s); [apply Hgen, TT_of_T0, T0_refl|].
    set (s1 := s <| gw_last_mq := gw_now s |>).
    assert (H0 : T0 s s1) by (apply T0_same; reflexivity).
    destruct (match m with MqConnack _ _ => true | _ => false end) eqn:Em.
    + destruct m as [| sp rc | | | | | | | | | | | |]; try discriminate Em.
      destruct (handle_mq_connack_T cfg s1 sp rc) as [C1 C2].
      assert (Hk : cxk s1 -> cxk s) by exact (proj2 H0).
      destruct (handle_mq cfg s1 (MqConnack sp rc)) as [[s2 o2] [|c]]; unfold st_of, outs_of in C1, C2;
        cbn [finish_r fst snd] in *.
      * split.
        -- intros H. destruct (C1 H) as [H1|[-> H1]]; [left; exact H1|right; split; [reflexivity|auto]].
        -- intros H. destruct (C2 H) as [H1|H1]; auto.
      * unfold begin_end. cbn [fst snd]. split.
        -- intros H. destruct (C1 H) as [H1|[-> H1]]; [left; exact H1|right; split; [reflexivity|auto]].
        -- intros H. destruct (C2 H) as [H1|H1]; [auto|right; apply has_con_app_l, H1].
    + apply Hgen, finish_r_TT. apply (TR_pre s s1 _ H0). apply handle_mq_tr. destruct m; try exact I. discriminate Em.
  - destruct (gw_ending s); [apply Hgen, TT_of_T0, T0_refl|]. apply Hgen, finish_r_TT.
    match goal with |- TR s (stop ?S _ _) => apply (TR_pre s S); [apply T0_same; reflexivity|apply TR_stop] end.
  - destruct (gw_ending s); [apply Hgen, TT_of_T0, T0_refl|]. apply Hgen, finish_r_TT, TR_stop.
  - pose proof (run_timers_TT cfg (gw_now s + d) (advance_fuel cfg s d) s) as H.
    destruct (run_timers (advance_fuel cfg s d) cfg s (gw_now s + d)) as [s1 o]. cbn [fst snd] in *.
    apply Hgen. destruct (gw_ended s1); [exact H|].
    pose proof (TT_trans s s1 (s1 <| gw_now := gw_now s + d |>) o [] H (TT_of_T0 _ _ _ (T0_same _ _ eq_refl eq_refl eq_refl))) as H2.
    rewrite app_nil_r in H2. exact H2.
  - destruct (gw_ending s); [apply Hgen, TT_of_T0, T0_refl|]. apply Hgen, finish_r_TT, TR_stop.
Qed.

(* a session that is not running writes nothing but the end of the session *)
Lemma not_running_outs cfg s ev :
  running s = false -> forall o, In o (snd (gw_step cfg s ev)) -> exists te, o = OutEnd te.
Proof.
  intros Hr. unfold gw_step. destruct (gw_ended s) eqn:Ee; [intros o []|].
  destruct (gw_ending s) as [te|] eqn:Eg; [|unfold running in Hr; rewrite Ee, Eg in Hr; discriminate Hr].
  destruct ev as [dg|m| | |d|]; try (intros o []).
  destruct (advance_fuel cfg s d) as [|fuel]; cbn [run_timers]; [intros o []|]. rewrite Eg.
  destruct (te <=? gw_now s + d); cbn [snd]; [|intros o []]. intros o [<-|[]]. eauto.
Qed.
