(* Gateway/Sound_C07t.v — soundness of mon7 (Checkers/ChkGw7.v), C07 as a property of the observed trace,
   on the gateway model.

   C07_trace_all_histories: on every well-formed history the model's own observations are accepted: nothing
   but the MQTT CONNECT of a connect exchange (and the DISCONNECT ending a session) goes to the broker
   before an MQTT CONNECT was written - outside the QoS -1 exception -, and CONNACK accepted is written to
   the client only after the broker accepted an MQTT CONNECT.

   Proof: invariant TI - if the model has recorded the broker's acceptance (gw_accepted) then both flags of
   the monitor are set; if the connect exchange waits for the broker's CONNACK (cxk) then an MQTT CONNECT has
   been written.  While the acceptance is not recorded, the per-step checker chk_C07 (sound by
   Sound_C07C08C09.chk_C07_sound) restricts what a running session writes; a session that is not running
   writes nothing but its end (Sound_C07t_aux.not_running_outs). *)
From stdpp Require Import base option list numbers fin_maps nmap.
From Coq Require Import Lia ZArith ZifyN ZifyNat ZifyBool.
From RecordUpdate Require Import RecordSet.
From Verif.Base Require Import Bytes BytesProofs.
From Verif.Codec Require Import Packets Decode Encode EncodeProofs.
From Verif.Topics Require Import Predefined.
From Verif.Gateway Require Import GwTypes GwStep GwStepProofs GwWf GwWfDec GwRun Sound_C07C08C09_aux Sound_C07C08C09
     Sound_C07t_aux.
From Verif.Checkers Require Import ChkCodec ChkGw ChkGw2 ChkGw7.
Import RecordSetNotations.
Open Scope N_scope.

(* ================================================================== the scan of one step's observations *)

Definition quiet8 (o : obs) : Prop :=
  match o with
  | ObMq _ p _ => is_mq_connect p || is_mq_disconnect p = true
  | ObMqGarbage _ => False
  | _ => True
  end.
Definition quiet9 (o : obs) : Prop :=
  match o with
  | ObSn _ dg => match read_dgram dg with Ok (Connack rc) => (rc =? RC_ACCEPTED) = false | _ => True end
  | _ => True
  end.
Definition obs_con (o : obs) : bool := match o with ObMq _ p _ => is_mq_connect p | _ => false end.

Lemma scan7_ok exc bok : forall os mqc,
  (mqc = true \/ exc = true \/ Forall quiet8 os) -> (bok = true \/ Forall quiet9 os) ->
  scan7 exc bok mqc os = (mqc || existsb obs_con os, []).
Proof.
  induction os as [|o os IH]; intros mqc H8 H9; cbn [scan7 existsb]; [rewrite orb_false_r; reflexivity|].
  assert (H8' : forall mqc1, (mqc = true -> mqc1 = true) -> mqc1 = true \/ exc = true \/ Forall quiet8 os).
  { intros mqc1 Hm. destruct H8 as [H|[H|H]]; [left; auto|right; left; exact H|right; right]. inversion H; assumption. }
  assert (H9' : bok = true \/ Forall quiet9 os).
  { destruct H9 as [H|H]; [left; exact H|right]. inversion H; assumption. }
  destruct o as [t dg|t p v|t|t]; cbn [obs_con].
  - (* ObSn *)
    assert (Hf : match read_dgram dg with
                 | Ok (Connack rc) => if (rc =? RC_ACCEPTED) && negb bok then [9] else []
                 | _ => [] end = []).
    { destruct H9 as [->|H]; [destruct (read_dgram dg) as [q| |]; try reflexivity; destruct q; try reflexivity;
                               rewrite andb_false_r; reflexivity|].
      inversion H as [|? ? Hq _]; subst. cbn [quiet9] in Hq.
      destruct (read_dgram dg) as [q| |]; try reflexivity. destruct q; try reflexivity. rewrite Hq. reflexivity. }
    rewrite Hf, (IH mqc (H8' mqc (fun H => H)) H9'). reflexivity.
  - (* ObMq *)
    destruct (is_mq_connect p) eqn:Ec.
    + rewrite (IH true (or_introl eq_refl) H9'). cbn. rewrite orb_true_r. reflexivity.
    + destruct (is_mq_disconnect p) eqn:Ed.
      * rewrite (IH mqc (H8' mqc (fun H => H)) H9'). reflexivity.
      * assert (Hm : mqc || exc = true).
        { destruct H8 as [->|[->|H]]; [reflexivity|apply orb_true_r|].
          inversion H as [|? ? Hq _]; subst. cbn [quiet8] in Hq. rewrite Ec, Ed in Hq. discriminate Hq. }
        rewrite Hm, (IH mqc (H8' mqc (fun H => H)) H9'). reflexivity.
  - (* ObMqGarbage *)
    assert (Hm : mqc || exc = true).
    { destruct H8 as [->|[->|H]]; [reflexivity|apply orb_true_r|].
      inversion H as [|? ? Hq _]; subst. destruct Hq. }
    rewrite Hm, (IH mqc (H8' mqc (fun H => H)) H9'). reflexivity.
  - rewrite (IH mqc (H8' mqc (fun H => H)) H9'). reflexivity.
Qed.

(* ================================================================== observations of the model *)

Lemma in_bind' {A B} (f : A -> list B) (l : list A) (y : B) : In y (l ≫= f) <-> exists x, In x l /\ In y (f x).
Proof.
  rewrite <- elem_of_list_In, elem_of_list_bind. split; intros (x & H1 & H2); exists x;
    rewrite <- ?elem_of_list_In in *; rewrite ?elem_of_list_In in *; tauto.
Qed.

Lemma bind_nil_all {A B} (f : A -> list B) (l : list A) : l ≫= f = [] -> forall x, In x l -> f x = [].
Proof.
  intros H x Hin. destruct (f x) as [|y ys] eqn:E; [reflexivity|]. exfalso.
  assert (Hy : In y (l ≫= f)) by (apply in_bind'; exists x; split; [exact Hin|rewrite E; left; reflexivity]).
  rewrite H in Hy. destruct Hy.
Qed.

Lemma obs_of_outs_In ob outs : In ob (obs_of_outs outs) -> exists o, In o outs /\ In ob (obs_of_out o).
Proof. unfold obs_of_outs. apply in_bind'. Qed.

Lemma obs_mq_in os t p v : In (ObMq t p v) os -> In p (mqs os).
Proof. intros H. unfold mqs. apply in_bind'. exists (ObMq t p v). split; [exact H|left; reflexivity]. Qed.

Lemma obs_sn_in os t dg p : In (ObSn t dg) os -> read_dgram dg = Ok p -> In p (sn_pkts os).
Proof.
  intros H Hr. unfold sn_pkts. apply in_bind'. exists dg. split.
  - unfold sns. apply in_bind'. exists (ObSn t dg). split; [exact H|left; reflexivity].
  - rewrite Hr. left. reflexivity.
Qed.

Lemma none_of_true {A} (l : list A) (f : A -> bool) : none_of l f = true -> forall x, In x l -> f x = false.
Proof.
  unfold none_of. intros H x Hin. destruct (f x) eqn:E; [|reflexivity]. exfalso.
  assert (Hx : In x (List.filter f l)) by (apply filter_In; split; assumption).
  destruct (List.filter f l); [destruct Hx|]. rewrite len_cons in H. apply N.eqb_eq in H. lia.
Qed.

(* the QoS -1 exception of chk_C07 is the one of mon7 *)
Lemma pub_exception cfg ev :
  match ev_packet ev with
  | Some (Publish _ 3 _ tit _ _ _) => if negb (auth_enabled cfg) && ((tit =? 1) || (tit =? 2)) then [] else [2]
  | _ => [2]
  end = ([] : list N) -> qos_m1_step cfg ev = true.
Proof.
  unfold ev_packet, qos_m1_step. destruct ev as [dg|m| | |d|]; try discriminate.
  destruct (read_dgram dg) as [p| |]; try discriminate. destruct p; try discriminate.
  destruct qos as [|[[q|q|]|q|]]; try discriminate.
  unfold TIT_PREDEFINED, TIT_SHORT.
  destruct (negb (auth_enabled cfg) && ((tit =? 1) || (tit =? 2))); [reflexivity|discriminate].
Qed.

(* what chk_C07 says about the observations of a running session the broker has not accepted *)
Lemma c07_quiet cfg s ev :
  wf_cfg cfg -> reach cfg s -> wf_event ev -> running s = true -> gw_accepted s = false ->
  (qos_m1_step cfg ev = true \/ Forall quiet8 (obs_of_outs (snd (gw_step cfg s ev)))) /\
  (is_connack0 ev = true \/ Forall quiet9 (obs_of_outs (snd (gw_step cfg s ev)))).
Proof.
  intros Hcfg Hreach Hev Hr Ha. pose proof (chk_C07_sound cfg s ev Hcfg Hreach Hev) as H.
  set (os := obs_of_outs (snd (gw_step cfg s ev))) in *.
  unfold chk_C07 in H. rewrite Hr, Ha in H. cbn [negb orb] in H. apply app_eq_nil in H. destruct H as [HA HB].
  split.
  - destruct (qos_m1_step cfg ev) eqn:Ex; [left; reflexivity|right].
    apply Forall_forall. intros o Ho. destruct o as [t dg|t p v|t|t]; cbn [quiet8]; try exact I.
    + pose proof (bind_nil_all _ _ HB p (obs_mq_in os t p v Ho)) as Hp.
      destruct p; try discriminate Hp; try reflexivity.
      apply pub_exception in Hp. congruence.
    + unfold os in Ho. apply obs_of_outs_In in Ho. destruct Ho as (o & _ & Hin). destruct o; cbn in Hin;
        repeat (destruct Hin as [Hin|Hin]; try discriminate Hin); destruct Hin.
  - destruct (none_of (sn_pkts os) is_connack_accepted) eqn:En.
    + right. apply Forall_forall. intros o Ho.
      destruct o as [t dg|t p v|t|t]; cbn [quiet9]; try exact I.
      destruct (read_dgram dg) as [q| |] eqn:Hrd; try exact I. destruct q; try exact I.
      exact (none_of_true _ _ En _ (obs_sn_in os t dg _ Ho Hrd)).
    + left. destruct ev as [dg|m| | |d|]; try discriminate HA.
      destruct m as [| sp rc | | | | | | | | | | | |]; try discriminate HA.
      destruct rc as [|rc]; [reflexivity|discriminate HA].
Qed.

Lemma not_running_quiet cfg s ev :
  running s = false ->
  Forall quiet8 (obs_of_outs (snd (gw_step cfg s ev))) /\ Forall quiet9 (obs_of_outs (snd (gw_step cfg s ev))).
Proof.
  intros Hr.
  assert (H : forall ob, In ob (obs_of_outs (snd (gw_step cfg s ev))) -> exists te, ob = ObEnd te).
  { intros ob Hin. apply obs_of_outs_In in Hin. destruct Hin as (o & Ho & Hin).
    destruct (not_running_outs cfg s ev Hr o Ho) as [te ->]. cbn in Hin. destruct Hin as [<-|[]]. eauto. }
  split; apply Forall_forall; intros ob Hin; destruct (H ob Hin) as [te ->]; exact I.
Qed.

Lemma has_con_obs outs : has_con outs -> existsb obs_con (obs_of_outs outs) = true.
Proof.
  intros (t & c & Hin). apply existsb_exists. exists (ObMq t (wire (MqConnect c)) (mqtt_valid (wire (MqConnect c)))).
  split; [|reflexivity]. unfold obs_of_outs. apply in_bind'. exists (OutMq t (MqConnect c)). split; [exact Hin|left; reflexivity].
Qed.

(* ================================================================== the invariant and the step *)

Definition TI (s : gw_state) (m : mon7) : Prop :=
  (gw_accepted s = true -> t_mqc m = true /\ t_bok m = true) /\ (cxk s -> t_mqc m = true).

Lemma TI_init cfg : TI (init_state cfg) mon7_init.
Proof.
  split; [cbn; discriminate|]. intros (g & mq & H & _). discriminate H.
Qed.

Lemma step_mon7 cfg s ev m :
  wf_cfg cfg -> reach cfg s -> wf_event ev -> TI s m ->
  snd (mon7_step cfg ev (obs_of_outs (snd (gw_step cfg s ev))) m) = [] /\
  TI (fst (gw_step cfg s ev)) (fst (mon7_step cfg ev (obs_of_outs (snd (gw_step cfg s ev))) m)).
Proof.
  intros Hcfg Hreach Hev [I1 I2].
  set (os := obs_of_outs (snd (gw_step cfg s ev))).
  assert (Hq : (t_mqc m = true \/ qos_m1_step cfg ev = true \/ Forall quiet8 os) /\
               (t_bok m || is_connack0 ev = true \/ Forall quiet9 os)).
  { destruct (gw_accepted s) eqn:Ha.
    - destruct (I1 eq_refl) as [-> ->]. split; left; reflexivity.
    - destruct (running s) eqn:Hr.
      + destruct (c07_quiet cfg s ev Hcfg Hreach Hev Hr Ha) as [[H|H] [H'|H']]; split; auto.
        all: left; rewrite H'; apply orb_true_r.
      + destruct (not_running_quiet cfg s ev Hr) as [H H']. split; auto. }
  destruct Hq as [Hq8 Hq9]. unfold mon7_step.
  rewrite (scan7_ok _ _ os (t_mqc m) Hq8 Hq9). cbn [fst snd]. split; [reflexivity|].
  destruct (step_T cfg s ev) as [S1 S2]. split; cbn [t_mqc t_bok].
  - intros Ha. destruct (S1 Ha) as [H|[He Hk]].
    + destruct (I1 H) as [-> ->]. split; reflexivity.
    + rewrite (I2 Hk), He. split; [reflexivity|apply orb_true_r].
  - intros Hk. destruct (S2 Hk) as [H|H].
    + rewrite (I2 H). reflexivity.
    + unfold os. rewrite (has_con_obs _ H). apply orb_true_r.
Qed.

Lemma mon7_run_sound cfg : forall evs s m,
  wf_cfg cfg -> reach cfg s -> Forall wf_event evs -> TI s m -> mon7_run cfg s m evs = [].
Proof.
  induction evs as [|ev evs IH]; intros s m Hcfg Hreach Hevs HI; [reflexivity|].
  inversion Hevs as [|? ? Hev Hevs']; subst.
  pose proof (step_mon7 cfg s ev m Hcfg Hreach Hev HI) as [Hf Hnext].
  pose proof (reach_step cfg s ev Hreach Hev) as Hreach'.
  cbn [mon7_run]. destruct (gw_step cfg s ev) as [s' outs]. cbn [fst snd] in *.
  destruct (mon7_step cfg ev (obs_of_outs outs) m) as [m' f]. cbn [fst snd] in *. subst f.
  apply IH; assumption.
Qed.

Theorem C07_trace_all_histories : forall cfg evs, wf_cfg cfg -> Forall wf_event evs ->
  mon7_run cfg (init_state cfg) mon7_init evs = [].
Proof.
  intros cfg evs Hcfg Hevs. apply mon7_run_sound; [exact Hcfg|apply reach_init|exact Hevs|apply TI_init].
Qed.

(* ================================================================== the statement is not vacuous *)

Definition c07t_cfg : gw_cfg :=
  {| auth_enabled := false; cfg_user := None; cfg_pass := None; retry_delay := 1000; retry_count := 2;
     predefined := []; min_tid := 1; max_tid := 65534 |}.

(* CONNECT, the broker's CONNACK 0, a QoS 1 PUBLISH on the short topic "ab" *)
Definition c07t_hist : list gw_event :=
  [EvSn (pack (Connect false true 1 60 [99; 49])); EvMq (MqConnack false 0); EvAdvance 3;
   EvSn (pack (Publish false 1 false 2 (encode_short [97; 98]) 5 [10]))].

Lemma c07t_hist_wf : Forall wf_event c07t_hist.
Proof. apply wf_events_spec. vm_compute. reflexivity. Qed.

(* the monitor's state after a history *)
Fixpoint mon7_final (cfg : gw_cfg) (s : gw_state) (m : mon7) (evs : list gw_event) : mon7 :=
  match evs with
  | [] => m
  | ev :: evs' =>
    let '(s', outs) := gw_step cfg s ev in
    mon7_final cfg s' (fst (mon7_step cfg ev (obs_of_outs outs) m)) evs'
  end.

Example C07_trace_nonvacuous :
  mon7_run c07t_cfg (init_state c07t_cfg) mon7_init c07t_hist = [] /\
  mon7_final c07t_cfg (init_state c07t_cfg) mon7_init c07t_hist = {| t_mqc := true; t_bok := true |} /\
  (* the MQTT CONNECT and the relayed PUBLISH were observed *)
  mqs (obs_of_outs (concat (fst (gw_run c07t_cfg (init_state c07t_cfg) c07t_hist)))) =
    [wire (MqConnect {| c_cid := [99; 49]; c_clean := true; c_keepalive := 60; c_will := false; c_wqos := 0;
                        c_wretain := false; c_wtopic := []; c_wmsg := []; c_uflag := false; c_user := [];
                        c_pflag := false; c_pass := [] |});
     MqPublish false 1 false [97; 98] 5 [10]] /\
  (* hand-written observations: a PINGREQ relayed with no MQTT CONNECT written (the seeded change): clause 8;
     the same after an MQTT CONNECT in the same step: accepted; under the QoS -1 exception: accepted *)
  snd (mon7_step c07t_cfg (EvSn (pack (Pingreq [99; 49]))) [ObMq 0 MqPingreq true] mon7_init) = [8] /\
  snd (mon7_step c07t_cfg (EvSn (pack (Pingreq [99; 49])))
                 [ObMq 0 (MqConnect {| c_cid := [99]; c_clean := true; c_keepalive := 60; c_will := false; c_wqos := 0;
                        c_wretain := false; c_wtopic := []; c_wmsg := []; c_uflag := false; c_user := [];
                        c_pflag := false; c_pass := [] |}) true; ObMq 0 MqPingreq true] mon7_init) = [] /\
  snd (mon7_step c07t_cfg (EvSn (pack (Publish false 3 false 2 (encode_short [97; 98]) 0 [10])))
                 [ObMq 0 (MqPublish false 0 false [97; 98] 0 [10]) true] mon7_init) = [] /\
  (* CONNACK accepted written with no CONNACK 0 from the broker: clause 9; in the step of the broker's
     CONNACK 0: accepted *)
  snd (mon7_step c07t_cfg (EvSn (pack (Connect false true 1 60 [99; 49]))) [ObSn 0 (pack (Connack RC_ACCEPTED))] mon7_init) = [9] /\
  snd (mon7_step c07t_cfg (EvMq (MqConnack false 0)) [ObSn 0 (pack (Connack RC_ACCEPTED))] mon7_init) = [].
Proof. vm_compute. repeat split; reflexivity. Qed.

Print Assumptions C07_trace_all_histories.
