(* Gateway/Sound_C16b.v — the per-step checker chk_C16 (Checkers/ChkGw5.v, clauses 7-10) accepts the
   gateway model's own outputs: every step of a broker-publish exchange is relayed in the same step.

     clause 7   client's accepting PUBACK, exchange (QoS 1) in AwaitPuback   -> MQTT PUBACK, same message ID
     clause 8   client's PUBREC, exchange (QoS 2) in AwaitPubrec             -> MQTT PUBREC
     clause 9   client's PUBCOMP, exchange (QoS 2) in AwaitPubcomp           -> MQTT PUBCOMP
     clause 10  broker's PUBREL, exchange (QoS 2) in AwaitPubrel, client not asleep -> PUBREL to the client

   chk_C16_sound_all: for EVERY state and every well-formed event (no reachability needed: the only
   fact used about the event is that an MQTT message ID is a uint16, so that the PUBREL datagram decodes
   back to itself); chk_C16_sound is the corollary for reachable states, chk_C16_history lifts it to
   every history (GwRun.run_all). *)
From stdpp Require Import base option list numbers fin_maps nmap.
From RecordUpdate Require Import RecordSet.
From Coq Require Import Lia ZArith ZifyN ZifyNat ZifyBool.
From Verif.Base Require Import Bytes BytesProofs.
From Verif.Codec Require Import Packets Decode Encode EncodeProofs.
From Verif.Topics Require Import Predefined.
From Verif.Gateway Require Import GwTypes GwStep GwStepProofs GwWf GwRun Sound_C01C03_aux Sound_C01C03 Sound_C04C11.
From Verif.Checkers Require Import ChkCodec ChkGw ChkGw2 ChkGw5.
Import RecordSetNotations.
Open Scope N_scope.
Ltac Zify.zify_post_hook ::= Z.div_mod_to_equations.

(* ------------------------------------------------------------------ helpers *)

Lemma sn_send_owned_awake s o p :
  gw_st s <> Asleep -> wf_pkt p = true -> sn_send_owned s o p = ok s [OutSn (gw_now s) (pack p)].
Proof.
  intros Hst Hwf. unfold sn_send_owned.
  pose proof (pack_size p Hwf) as Hsz. apply N.leb_le in Hsz. rewrite Hsz.
  destruct (gw_st s); try reflexivity. contradiction.
Qed.

Lemma bp_state_eqb_eq a b : bp_state_eqb a b = true -> a = b.
Proof. destruct a, b; try discriminate; reflexivity. Qed.

(* the context of the clauses: what the store holds under the message ID *)
Lemma bp_awaits_spec s mid qos st :
  bp_awaits s mid qos st = true ->
  exists g m d sp n, get_by_id s mid = Some (g, TxBrokerPub m qos st d sp n).
Proof.
  unfold bp_awaits. destruct (get_by_id s mid) as [[g t]|]; [|discriminate].
  destruct t as [mq a|m0 tid|m0 tid|m q st' d sp n]; try discriminate.
  intros H. apply andb_true_iff in H. destruct H as [Hq Hst].
  apply N.eqb_eq in Hq. apply bp_state_eqb_eq in Hst. subst q st'. eauto 10.
Qed.

Lemma wf_pkt_pubrel (mid : N) : mid < 65536 -> wf_pkt (Pubrel mid) = true.
Proof. intros H. cbn [wf_pkt]. unfold lt16. apply N.ltb_lt. exact H. Qed.

(* ------------------------------------------------------------------ clauses 7-9: the client's acknowledgements *)

Lemma chk_C16_sn cfg s dg :
  chk_C16 cfg s (EvSn dg) (obs_of_outs (snd (gw_step cfg s (EvSn dg)))) = [].
Proof.
  unfold chk_C16.
  destruct (running s) eqn:Hrun; cbn [negb]; [|reflexivity].
  apply running_spec in Hrun. destruct Hrun as [He Hg].
  destruct (read_dgram dg) as [p|e|ps] eqn:Hr; try reflexivity.
  destruct (packet_legal cfg s p) eqn:Hl; cbn [negb]; [|reflexivity].
  unfold has_mq.
  rewrite (gw_step_sn cfg s dg p He Hg Hr). fold_obs. rewrite finish_r_MQ.
  set (s1 := s <| gw_last_sn := gw_now s |>).
  unfold handle_sn. change (packet_legal cfg s1 p) with (packet_legal cfg s p). rewrite Hl. cbn [negb].
  destruct_pkt p; try reflexivity.
  - (* Puback: clause 7 *)
    destruct (bp_awaits s mid 1 AwaitPuback) eqn:Hb; [|reflexivity].
    destruct (rc =? RC_ACCEPTED) eqn:Hrc; [|reflexivity]. cbn [andb].
    apply bp_awaits_spec in Hb. destruct Hb as (g & m & d & sp & n & Hget).
    change (get_by_id s1 mid) with (get_by_id s mid). rewrite Hget.
    cbn [bp_state_eqb negb]. unfold bp_proceed. cbv zeta.
    rewrite andthen_mq_send_MQ. cbn [mq_ack wire existsb]. rewrite N.eqb_refl. reflexivity.
  - (* Pubcomp: clause 9 *)
    destruct (bp_awaits s mid 2 AwaitPubcomp) eqn:Hb; [|reflexivity]. cbn [andb].
    apply bp_awaits_spec in Hb. destruct Hb as (g & m & d & sp & n & Hget).
    change (get_by_id s1 mid) with (get_by_id s mid). rewrite Hget.
    cbn [bp_state_eqb negb]. unfold bp_proceed. cbv zeta.
    rewrite andthen_mq_send_MQ. cbn [mq_ack wire existsb]. rewrite N.eqb_refl. reflexivity.
  - (* Pubrec: clause 8 *)
    destruct (bp_awaits s mid 2 AwaitPubrec) eqn:Hb; [|reflexivity]. cbn [andb].
    apply bp_awaits_spec in Hb. destruct Hb as (g & m & d & sp & n & Hget).
    change (get_by_id s1 mid) with (get_by_id s mid). rewrite Hget.
    cbn [bp_state_eqb negb]. unfold bp_proceed. cbv zeta.
    mq_eval. cbn [mq_ack wire existsb]. rewrite N.eqb_refl. reflexivity.
Qed.

(* ------------------------------------------------------------------ clause 10: the broker's PUBREL *)

Lemma chk_C16_mq cfg s m :
  wf_mq m ->
  chk_C16 cfg s (EvMq m) (obs_of_outs (snd (gw_step cfg s (EvMq m)))) = [].
Proof.
  intros Hwf. unfold chk_C16.
  destruct (running s) eqn:Hrun; cbn [negb]; [|reflexivity].
  apply running_spec in Hrun. destruct Hrun as [He Hg].
  destruct m as [c|sp rc|dup qos retain topic mid payload|mid|mid|mid|mid|mid dup fs|mid codes|mid fs|mid| | |];
    try reflexivity.
  cbn [wf_mq] in Hwf.
  destruct (bp_awaits s mid 2 AwaitPubrel) eqn:Hb; [|reflexivity].
  destruct (awake_for_output s) eqn:Ha; [|reflexivity]. cbn [andb]. apply awake_spec in Ha.
  unfold has_sn. rewrite (gw_step_mq cfg s _ He Hg). fold_obs.
  set (s1 := s <| gw_last_mq := gw_now s |>). cbn [handle_mq].
  apply bp_awaits_spec in Hb. destruct Hb as (g & m0 & d & sp & n & Hget).
  change (get_by_id s1 mid) with (get_by_id s mid). rewrite Hget.
  cbn [bp_state_eqb negb]. unfold bp_proceed. cbv zeta.
  pose proof (wf_pkt_pubrel mid Hwf) as Hp.
  rewrite sn_send_owned_awake; [|exact Ha|exact Hp].
  rewrite finish_r_ok. cbn [snd]. rewrite SN_one_pack by exact Hp.
  cbn [existsb]. rewrite N.eqb_refl. reflexivity.
Qed.

(* ------------------------------------------------------------------ the step *)

(* every state (reachable or not), every well-formed event *)
Theorem chk_C16_sound_all : forall cfg s ev, wf_event ev ->
  chk_C16 cfg s ev (obs_of_outs (snd (gw_step cfg s ev))) = [].
Proof.
  intros cfg s ev Hev. destruct ev as [dg|m| | |d|].
  - apply chk_C16_sn.
  - apply chk_C16_mq. exact Hev.
  - unfold chk_C16. destruct (negb (running s)); reflexivity.
  - unfold chk_C16. destruct (negb (running s)); reflexivity.
  - unfold chk_C16. destruct (negb (running s)); reflexivity.
  - unfold chk_C16. destruct (negb (running s)); reflexivity.
Qed.

Theorem chk_C16_sound : forall cfg s ev, wf_cfg cfg -> reach cfg s -> wf_event ev ->
  chk_C16 cfg s ev (obs_of_outs (snd (gw_step cfg s ev))) = [].
Proof. intros cfg s ev _ _ Hev. apply chk_C16_sound_all, Hev. Qed.

(* ------------------------------------------------------------------ every history *)

Theorem chk_C16_history : forall cfg evs, wf_cfg cfg -> Forall wf_event evs ->
  run_all cfg (fun s ev => chk_C16 cfg s ev (obs_of_outs (snd (gw_step cfg s ev))) = [])
          (init_state cfg) evs.
Proof.
  intros cfg evs Hcfg Hevs.
  apply (run_all_lift cfg (fun _ _ => True)); [|apply reach_init|exact Hevs|apply run_all_true].
  intros s ev Hr Hev _. apply chk_C16_sound; assumption.
Qed.

(* ------------------------------------------------------------------ the clauses are exercised *)
(* configuration cx_cfg of Sound_C04C11.v; the client connects, the broker PUBLISHes QoS 2 on the short
   topic "ab" (message ID 77), then PUBREC / PUBREL / PUBCOMP; QoS 1 (message ID 78) with PUBACK.
   For each acknowledging step: the checker on the model's outputs, the MQTT packets and decoded
   datagrams of the step, and the checker on an empty observation (the clause that would be violated). *)
Definition c16_conn : list gw_event := [EvSn cx_connect; EvMq (MqConnack false 0)].
Definition c16_pub (q mid : N) : gw_event := EvMq (MqPublish false q false [97; 98] mid [1; 2; 3]).
Definition c16_chk (h : list gw_event) (ev : gw_event) : list N * list mq_pkt * list packet * list N :=
  let s := snd (gw_run cx_cfg (init_state cx_cfg) h) in
  let os := obs_of_outs (snd (gw_step cx_cfg s ev)) in
  (chk_C16 cx_cfg s ev os, mqs os, sn_pkts os, chk_C16 cx_cfg s ev []).

Example C16_exercised :
  c16_chk (c16_conn ++ [c16_pub 2 77]) (EvSn (pack (Pubrec 77))) = ([], [MqPubrec 77], [], [8]) /\
  c16_chk (c16_conn ++ [c16_pub 2 77; EvSn (pack (Pubrec 77))]) (EvMq (MqPubrel 77)) = ([], [], [Pubrel 77], [10]) /\
  c16_chk (c16_conn ++ [c16_pub 2 77; EvSn (pack (Pubrec 77)); EvMq (MqPubrel 77)]) (EvSn (pack (Pubcomp 77)))
    = ([], [MqPubcomp 77], [], [9]) /\
  c16_chk (c16_conn ++ [c16_pub 1 78]) (EvSn (pack (Puback 0 78 0))) = ([], [MqPuback 78], [], [7]) /\
  c16_chk (c16_conn ++ [c16_pub 1 78]) (EvSn (pack (Puback 0 78 2))) = ([], [], [], []).
Proof. vm_compute. repeat split; reflexivity. Qed.

Print Assumptions chk_C16_sound_all.
Print Assumptions chk_C16_sound.
Print Assumptions chk_C16_history.
