(* Gateway/Sound_C06r.v — soundness of mon6r (Checkers/ChkGw6.v), the monitor of the REGISTER step of a
   broker PUBLISH exchange, on the gateway model.

   C06_register_step_only_interference_fails: on every well-formed history, run with mon6 at its side,
   mon6r reports failures of the interference class only (clause 5: a client exchange with the same message
   ID was started during the REGISTER step).  Without such interference the model ALWAYS writes the PUBLISH
   at the accepted REGACK of a REGISTER step in progress (to a client that is not asleep), whatever
   acknowledgements of earlier exchanges with the same message ID arrived meanwhile: clause 15 never occurs.

   Proof: invariant RI - a live book entry that was not hit stands for RP (Sound_C06r_aux.v): the store's
   slot of the message ID holds the transaction of the REGISTER step, in AwaitRegack, whose retransmissions
   do not give up before the entry expires and whose PUBLISH fits a datagram; a non-empty book means a
   connected session. *)
From Coq Require Import List NArith Bool Lia ZArith ZifyN ZifyNat ZifyBool.
From stdpp Require Import base option list numbers fin_maps nmap.
From RecordUpdate Require Import RecordSet.
From Verif.Base Require Import Bytes BytesProofs.
From Verif.Codec Require Import Packets Decode Encode EncodeProofs.
From Verif.Topics Require Import Predefined.
From Verif.Gateway Require Import GwTypes GwStep GwStepProofs GwWf GwWfDec GwRun Sound_C01C03_aux Sound_C01C03
     Sound_C06_aux Sound_C06 Sound_C06r_aux.
From Verif.Checkers Require Import ChkCodec ChkGw ChkGw2 ChkGw4 ChkGw6.
Import RecordSetNotations.
Open Scope N_scope.
Ltac Zify.zify_post_hook ::= Z.div_mod_to_equations.

(* ================================================================== the monitor, field by field *)

Section Fields.
Variables (cfg : gw_cfg) (s : gw_state) (ev : gw_event) (os : list obs) (m : mon6r).

Definition b_book := List.filter (fun e => gw_now s <? re_until e) (r_book m).
Definition b_book1 :=
  match ev with
  | EvMq (MqPublish _ q _ _ i _) =>
    if (q =? 1) || (q =? 2) then List.filter (fun e => negb (re_mid e =? i)) b_book else b_book
  | EvSn dg =>
    match read_dgram dg with
    | Ok (Regack _ i _) => List.filter (fun e => negb (re_mid e =? i)) b_book
    | _ => b_book
    end
  | _ => b_book
  end.
Definition b_newc := match ev with EvSn _ => mqs os ≫= cstart6 | _ => [] end.
Definition b_book2 := map (fun e => if memN (re_mid e) b_newc then hit_entry e else e) b_book1.
Definition b_new (dup : bool) (q : N) (retain : bool) (mid0 : N) (payload : bytes) : list rentry :=
  sn_pkts os ≫= (fun p => match p with
                          | Register tid i _ =>
                            if len (pack (Publish dup q retain TIT_REGISTERED tid mid0 payload)) <=? MaxPacketLen
                            then [{| re_mid := i; re_tid := tid; re_qos := q;
                                     re_until := gw_now s + (retry_count cfg + 1) * retry_delay cfg;
                                     re_hit := false |}]
                            else []
                          | _ => [] end).
Definition b_book3 :=
  match ev with
  | EvMq (MqPublish dup q retain _ mid0 payload) =>
    if connected s then b_book2 ++ b_new dup q retain mid0 payload else b_book2
  | _ => b_book2
  end.
Definition b_fails : list N :=
  if running s && awake_for_output s then
    match ev with
    | EvSn dg =>
      match read_dgram dg with
      | Ok (Regack tid i rc) =>
        if rc =? RC_ACCEPTED then
          b_book ≫= (fun e => if (re_mid e =? i) && (re_tid e =? tid) && negb (existsb (is_pub_for e) (sn_pkts os))
                              then [if re_hit e then 5 else 15] else [])
        else []
      | _ => []
      end
    | _ => []
    end
  else [].

Lemma mon6r_step_eq m6 : mon6r_step cfg s ev os m6 m = ({| r_book := b_book3 |}, b_fails).
Proof. reflexivity. Qed.

Lemma b_book_In e : In e b_book <-> In e (r_book m) /\ gw_now s < re_until e.
Proof. unfold b_book. rewrite filter_In, N.ltb_lt. tauto. Qed.

(* an entry of the new book that was not hit is an old entry that was neither removed nor hit *)
Lemma b_book2_In e : In e b_book2 -> re_hit e = false -> In e b_book1 /\ ~ In (re_mid e) b_newc.
Proof.
  unfold b_book2. intros Hin Hh. apply in_map_iff in Hin. destruct Hin as (e0 & E & Hin).
  destruct (memN (re_mid e0) b_newc) eqn:Em.
  - subst e. discriminate Hh.
  - subst e. split; [exact Hin|]. apply memN_false. exact Em.
Qed.

Lemma b_book2_old e : In e b_book2 -> exists e0, In e0 b_book1 /\ (e = e0 \/ e = hit_entry e0).
Proof.
  unfold b_book2. intros Hin. apply in_map_iff in Hin. destruct Hin as (e0 & E & Hin). exists e0. split; [exact Hin|].
  destruct (memN (re_mid e0) b_newc); auto.
Qed.
End Fields.

Lemma b_book1_sn_In s dg m e :
  In e (b_book1 s (EvSn dg) m) -> In e (b_book s m) /\ forall a c, read_dgram dg <> Ok (Regack a (re_mid e) c).
Proof.
  unfold b_book1. destruct (read_dgram dg) as [p|err|pps].
  2,3: intros H; split; [exact H|intros a c E; discriminate E].
  destruct_pkt p; try (intros H; split; [exact H|intros a c E; discriminate E]).
  intros H. apply filter_In in H. destruct H as [H Hne]. apply negb_true_iff, N.eqb_neq in Hne.
  split; [exact H|]. intros a c E. injection E as _ E _. congruence.
Qed.

Lemma b_book1_mq_In s m0 m e :
  In e (b_book1 s (EvMq m0) m) ->
  In e (b_book s m) /\ forall a q b c d, m0 = MqPublish a q b c (re_mid e) d -> q <> 1 /\ q <> 2.
Proof.
  unfold b_book1.
  destruct m0 as [c0|sp rc|dup qos retain topic mid payload|mid|mid|mid|mid|mid dup fs|mid codes|mid fs|mid| | |];
    try (intros H; split; [exact H|intros a q b c d E; discriminate E]).
  destruct ((qos =? 1) || (qos =? 2)) eqn:Eq.
  - intros H. apply filter_In in H. destruct H as [H Hne]. apply negb_true_iff, N.eqb_neq in Hne.
    split; [exact H|]. intros a q b c d E. injection E as _ _ _ _ E _. congruence.
  - intros H. split; [exact H|]. intros a q b c d E. injection E as _ <- _ _ _ _. lia.
Qed.

Lemma b_new_In cfg s os bd bq br bm bp e :
  In e (b_new cfg s os bd bq br bm bp) ->
  exists name, In (Register (re_tid e) (re_mid e) name) (sn_pkts os) /\
    len (pack (Publish bd bq br TIT_REGISTERED (re_tid e) bm bp)) <= MaxPacketLen /\
    re_qos e = bq /\ re_until e = gw_now s + (retry_count cfg + 1) * retry_delay cfg /\ re_hit e = false.
Proof.
  unfold b_new. rewrite in_bind. intros (p & Hp & Hin). destruct_pkt p; try (exfalso; exact Hin).
  destruct (len (pack (Publish bd bq br TIT_REGISTERED tid bm bp)) <=? MaxPacketLen) eqn:El; [|exfalso; exact Hin].
  destruct Hin as [<-|[]]. cbn. apply N.leb_le in El. eauto 10.
Qed.

(* ================================================================== the invariant *)

Definition RI (cfg : gw_cfg) (s : gw_state) (m : mon6r) : Prop :=
  (forall e, In e (r_book m) -> gw_now s < re_until e -> re_hit e = false ->
             RP cfg s (re_mid e) (re_tid e) (re_qos e) (re_until e)) /\
  (forall e, In e (r_book m) -> connected s = true).

Lemma RI_init cfg : RI cfg (init_state cfg) mon6r_init.
Proof. split; intros e []. Qed.

(* ================================================================== one step *)

Lemma sound_r_sn cfg s dg m6 m :
  W s -> running s = true -> wf_bytes dg -> RI cfg s m ->
  (running (fst (gw_step cfg s (EvSn dg))) = true ->
   RI cfg (fst (gw_step cfg s (EvSn dg)))
      (fst (mon6r_step cfg s (EvSn dg) (obs_of_outs (snd (gw_step cfg s (EvSn dg)))) m6 m))) /\
  (forall c, In c (snd (mon6r_step cfg s (EvSn dg) (obs_of_outs (snd (gw_step cfg s (EvSn dg)))) m6 m)) -> c < 10).
Proof.
  intros HW Hr Hwf [R1 R2]. rewrite mon6r_step_eq. cbn [fst snd].
  set (ev := EvSn dg). set (os := obs_of_outs (snd (gw_step cfg s ev))).
  split.
  - intros Hr'. split; cbn [r_book].
    + intros e Hin _ Hh. change (b_book3 cfg s ev os m) with (b_book2 s ev os m) in Hin.
      destruct (b_book2_In s ev os m e Hin Hh) as [H1 Hn].
      destruct (b_book1_sn_In s dg m e H1) as [H0 Hnr]. apply b_book_In in H0. destruct H0 as [H0 Hlt].
      apply rstep_sn; [exact HW|exact Hr|exact Hwf|apply R1; assumption|exact Hn|exact Hnr].
    + intros e Hin. change (b_book3 cfg s ev os m) with (b_book2 s ev os m) in Hin.
      destruct (b_book2_old s ev os m e Hin) as (e0 & H1 & _).
      destruct (b_book1_sn_In s dg m e0 H1) as [H0 _]. apply b_book_In in H0.
      apply (step_connected cfg s ev); [apply (R2 e0), H0|exact Hr'].
  - unfold b_fails. destruct (running s && awake_for_output s) eqn:Ea; [|intros c []].
    apply andb_true_iff in Ea. destruct Ea as [_ Ea]. apply awake_spec in Ea. cbn [ev].
    destruct (read_dgram dg) as [p|err|pps] eqn:Hrd; try (intros c []).
    destruct_pkt p; try (intros c []).
    destruct (rc =? RC_ACCEPTED) eqn:Hrc; [|intros c []].
    intros c Hc. apply in_bind in Hc. destruct Hc as (e & He & Hc).
    destruct ((re_mid e =? mid) && (re_tid e =? tid) && negb (existsb (is_pub_for e) (sn_pkts os))) eqn:Ec; [|destruct Hc].
    destruct (re_hit e) eqn:Hh; [destruct Hc as [<-|[]]; lia|]. exfalso.
    apply andb_true_iff in Ec. destruct Ec as [Ec Ene]. apply andb_true_iff in Ec. destruct Ec as [E1 E2].
    apply N.eqb_eq in E1, E2. subst mid tid.
    apply b_book_In in He. destruct He as [He Hlt].
    destruct (rstep_check cfg s dg (re_mid e) (re_tid e) (re_qos e) (re_until e) (re_tid e) rc Hr (R1 e He Hlt Hh) Ea (R2 e He) Hrd Hrc)
      as (dup & retain & mid0 & payload & Hin & Hq).
    apply negb_true_iff in Ene.
    assert (Ht : existsb (is_pub_for e) (sn_pkts os) = true).
    { apply existsb_exists. eexists. split; [exact Hin|]. cbn [is_pub_for]. rewrite !N.eqb_refl. cbn [andb].
      destruct Hq as [Hq|Hq]; [rewrite Hq; reflexivity|rewrite Hq, N.eqb_refl; apply orb_true_r]. }
    congruence.
Qed.

Lemma sound_r_mq cfg s m0 m6 m :
  wf_cfg cfg -> W s -> Sound_C01C03_aux.Inv s -> running s = true -> wf_mq m0 -> RI cfg s m ->
  (running (fst (gw_step cfg s (EvMq m0))) = true ->
   RI cfg (fst (gw_step cfg s (EvMq m0)))
      (fst (mon6r_step cfg s (EvMq m0) (obs_of_outs (snd (gw_step cfg s (EvMq m0)))) m6 m))) /\
  (forall c, In c (snd (mon6r_step cfg s (EvMq m0) (obs_of_outs (snd (gw_step cfg s (EvMq m0)))) m6 m)) -> c < 10).
Proof.
  intros Hcfg HW HI Hr Hwf [R1 R2]. rewrite mon6r_step_eq. cbn [fst snd].
  set (ev := EvMq m0). set (os := obs_of_outs (snd (gw_step cfg s ev))).
  split.
  2: { unfold b_fails. destruct (running s && awake_for_output s); intros c []. }
  assert (Hold : forall e, In e (b_book2 s ev os m) ->
            In e (r_book m) /\ gw_now s < re_until e /\
            forall a q b c d, m0 = MqPublish a q b c (re_mid e) d -> q <> 1 /\ q <> 2).
  { intros e Hin. unfold b_book2 in Hin. apply in_map_iff in Hin. destruct Hin as (e0 & E & Hin).
    cbn [b_newc ev memN existsb] in E. subst e0.
    destruct (b_book1_mq_In s m0 m e Hin) as [H0 Hp]. apply b_book_In in H0. destruct H0. auto. }
  assert (Hcase : forall e, In e (b_book3 cfg s ev os m) ->
            In e (b_book2 s ev os m) \/
            (connected s = true /\ exists dup q retain topic mid0 payload,
               m0 = MqPublish dup q retain topic mid0 payload /\ In e (b_new cfg s os dup q retain mid0 payload))).
  { intros e Hin. unfold b_book3 in Hin. cbn [ev] in Hin. destruct m0; try (left; exact Hin).
    destruct (connected s) eqn:Ec; [|left; exact Hin].
    apply in_app_or in Hin. destruct Hin as [Hin|Hin]; [left; exact Hin|right]. split; [reflexivity|eauto 10]. }
  intros Hr'. split; cbn [r_book].
  - intros e Hin _ Hh. destruct (Hcase e Hin) as [Ho|(Hc & dup & q & retain & topic & mid0 & payload & -> & Hn)].
    + destruct (Hold e Ho) as (H0 & Hlt & Hp).
      apply rstep_mq; [exact HW|exact Hr|exact Hwf|apply R1; assumption|exact Hp].
    + destruct (b_new_In cfg s os dup q retain mid0 payload e Hn) as (name & Hreg & Hfit & -> & -> & _).
      eapply rstep_create; try eassumption.
  - intros e Hin. apply (step_connected cfg s ev); [|exact Hr'].
    destruct (Hcase e Hin) as [Ho|(Hc & _)]; [|exact Hc]. destruct (Hold e Ho) as (H0 & _). apply (R2 e H0).
Qed.

Lemma sound_r_quiet cfg s ev m6 m :
  match ev with EvSn _ | EvMq _ => False | _ => True end ->
  W s -> running s = true -> RI cfg s m ->
  (running (fst (gw_step cfg s ev)) = true ->
   RI cfg (fst (gw_step cfg s ev)) (fst (mon6r_step cfg s ev (obs_of_outs (snd (gw_step cfg s ev))) m6 m))) /\
  (forall c, In c (snd (mon6r_step cfg s ev (obs_of_outs (snd (gw_step cfg s ev))) m6 m)) -> c < 10).
Proof.
  intros Hev HW Hr [R1 R2]. rewrite mon6r_step_eq. cbn [fst snd].
  set (os := obs_of_outs (snd (gw_step cfg s ev))).
  split.
  2: { unfold b_fails. destruct (running s && awake_for_output s); [|intros c []].
       destruct ev; try contradiction; intros c []. }
  intros Hr'. destruct ev as [dg|m0| | |d|]; try contradiction.
  1,2,4: rewrite step_other_stops in Hr' by exact I; discriminate Hr'.
  pose proof (adv_now cfg s d Hr') as Hnow.
  assert (Hold : forall e, In e (b_book3 cfg s (EvAdvance d) os m) -> In e (r_book m) /\ gw_now s < re_until e).
  { intros e Hin. unfold b_book3, b_book2 in Hin. apply in_map_iff in Hin. destruct Hin as (e0 & E & Hin).
    cbn [b_newc memN existsb] in E. subst e0. unfold b_book1 in Hin. apply b_book_In in Hin. exact Hin. }
  split; cbn [r_book].
  - intros e Hin Hlt Hh. destruct (Hold e Hin) as [H0 Hl0].
    apply rstep_adv; [exact HW|rewrite <- Hnow; exact Hlt|apply R1; assumption].
  - intros e Hin. destruct (Hold e Hin) as [H0 _].
    apply (step_connected cfg s (EvAdvance d)); [apply (R2 e H0)|exact Hr'].
Qed.

Lemma step_sound_r cfg s ev m6 m :
  wf_cfg cfg -> reach cfg s -> wf_event ev -> (running s = true -> RI cfg s m) ->
  (running (fst (gw_step cfg s ev)) = true ->
   RI cfg (fst (gw_step cfg s ev)) (fst (mon6r_step cfg s ev (obs_of_outs (snd (gw_step cfg s ev))) m6 m))) /\
  (forall c, In c (snd (mon6r_step cfg s ev (obs_of_outs (snd (gw_step cfg s ev))) m6 m)) -> c < 10).
Proof.
  intros Hcfg Hreach Hev HM. pose proof (reach_W cfg s Hreach) as HW. pose proof (reach_inv cfg Hcfg s Hreach) as HI.
  destruct (running s) eqn:Hr.
  - specialize (HM eq_refl). destruct ev as [dg|m0| | |d|].
    + apply sound_r_sn; [exact HW|exact Hr|exact (proj1 Hev)|exact HM].
    + apply sound_r_mq; assumption.
    + apply sound_r_quiet; [exact I|assumption..].
    + apply sound_r_quiet; [exact I|assumption..].
    + apply sound_r_quiet; [exact I|assumption..].
    + apply sound_r_quiet; [exact I|assumption..].
  - split.
    + intros Hr'. rewrite running_mono in Hr' by exact Hr. discriminate Hr'.
    + rewrite mon6r_step_eq. cbn [snd]. unfold b_fails. rewrite Hr. intros c [].
Qed.

Lemma mon6r_run_sound cfg : forall evs s m6 m,
  wf_cfg cfg -> reach cfg s -> Forall wf_event evs -> (running s = true -> RI cfg s m) ->
  forall c, In c (mon6r_run cfg s m6 m evs) -> c < 10.
Proof.
  induction evs as [|ev evs IH]; intros s m6 m Hcfg Hreach Hevs HM c Hin; [destruct Hin|].
  inversion Hevs as [|? ? Hev Hevs']; subst.
  pose proof (step_sound_r cfg s ev m6 m Hcfg Hreach Hev HM) as [Hnext Hf].
  pose proof (reach_step cfg s ev Hreach Hev) as Hreach'.
  cbn [mon6r_run] in Hin. destruct (gw_step cfg s ev) as [s' outs]. cbn [fst snd] in *.
  destruct (mon6r_step cfg s ev (obs_of_outs outs) m6 m) as [m' f]. cbn [fst snd] in *.
  destruct (mon6_step cfg s ev (obs_of_outs outs) m6) as [m6' f6].
  apply in_app_or in Hin. destruct Hin as [Hin|Hin]; [apply Hf, Hin|].
  eapply IH; eassumption.
Qed.

(* Without interference of the other direction the model always writes the PUBLISH at the accepted REGACK
   of a REGISTER step in progress: the only failures mon6r can report on the model are of the interference
   class (clause 5); clause 15 never occurs. *)
Theorem C06_register_step_only_interference_fails : forall cfg evs, wf_cfg cfg -> Forall wf_event evs ->
  forall c, In c (mon6r_run cfg (init_state cfg) mon6_init mon6r_init evs) -> c < 10.
Proof.
  intros cfg evs Hcfg Hevs. apply mon6r_run_sound; [exact Hcfg|apply reach_init|exact Hevs|].
  intros _. apply RI_init.
Qed.

(* ================================================================== the statement is not vacuous *)

Definition c06r_cfg : gw_cfg :=
  {| auth_enabled := false; cfg_user := None; cfg_pass := None; retry_delay := 1000; retry_count := 2;
     predefined := []; min_tid := 1; max_tid := 65534 |}.

Lemma c06r_cfg_wf : wf_cfg c06r_cfg.
Proof. unfold wf_cfg, c06r_cfg; cbn. repeat split; try lia. constructor. Qed.

(* CONNECT, CONNACK, SUBSCRIBE to the wildcard "a/#" (message ID 6), SUBACK *)
Definition c06r_conn : list gw_event :=
  [EvSn (pack (Connect false true 1 60 [99; 49])); EvMq (MqConnack false 0); EvAdvance 3;
   EvSn (pack (Subscribe false 1 0 6 0 [97; 47; 35])); EvMq (MqSuback 6 [1])].
(* the broker PUBLISHes QoS 1 with message ID 5 on the new topic "a/x": REGISTER (topic ID 1, message ID 5) *)
Definition c06r_pub : gw_event := EvMq (MqPublish false 1 false [97; 47; 120] 5 [1]).
(* a stale, rejecting PUBACK of an earlier exchange with message ID 5 (return code 2, invalid topic ID);
   then the accepted REGACK *)
Definition c06r_hist : list gw_event :=
  c06r_conn ++ [c06r_pub; EvAdvance 2; EvSn (pack (Puback 1 5 2)); EvSn (pack (Regack 1 5 0))].
(* the same with a client QoS 1 PUBLISH with message ID 5 (short topic "ab") during the REGISTER step *)
Definition c06r_hist_interf : list gw_event :=
  c06r_conn ++ [c06r_pub; EvAdvance 2; EvSn (pack (Publish false 1 false 2 (encode_short [97; 98]) 5 [10]));
                EvMq (MqPuback 5); EvSn (pack (Regack 1 5 0))].

Lemma c06r_hist_wf : Forall wf_event c06r_hist /\ Forall wf_event c06r_hist_interf.
Proof. split; apply wf_events_spec; vm_compute; reflexivity. Qed.

(* the book of mon6r after a history *)
Fixpoint mon6r_book (cfg : gw_cfg) (s : gw_state) (m6 : mon6) (m : mon6r) (evs : list gw_event) : list rentry :=
  match evs with
  | [] => r_book m
  | ev :: evs' =>
    let '(s', outs) := gw_step cfg s ev in
    let os := obs_of_outs outs in
    mon6r_book cfg s' (fst (mon6_step cfg s ev os m6)) (fst (mon6r_step cfg s ev os m6 m)) evs'
  end.

(* at the REGACK the book holds the REGISTER step (message ID 5, topic ID 1, QoS 1, until 3003, not hit); the
   model writes the PUBLISH (QoS 1, topic ID type 0 = registered, topic ID 1, message ID 5); mon6r reports nothing *)
Example C06_register_step_nonvacuous :
  mon6r_run c06r_cfg (init_state c06r_cfg) mon6_init mon6r_init c06r_hist = [] /\
  mon6r_book c06r_cfg (init_state c06r_cfg) mon6_init mon6r_init (removelast c06r_hist) =
    [{| re_mid := 5; re_tid := 1; re_qos := 1; re_until := 3003; re_hit := false |}] /\
  sn_pkts (obs_of_outs (last (fst (gw_run c06r_cfg (init_state c06r_cfg) c06r_hist)) [])) =
    [Publish false 1 false TIT_REGISTERED 1 5 [1]] /\
  (* the clause was live: dropping the observation of the REGACK step gives clause 15 *)
  snd (mon6r_step c06r_cfg (snd (gw_run c06r_cfg (init_state c06r_cfg) (removelast c06r_hist)))
                  (EvSn (pack (Regack 1 5 0))) [] mon6_init
                  {| r_book := mon6r_book c06r_cfg (init_state c06r_cfg) mon6_init mon6r_init (removelast c06r_hist) |}) = [15].
Proof. vm_compute. repeat split; reflexivity. Qed.

(* the refutation side: a client exchange with the same message ID started during the REGISTER step takes the
   store's slot; the REGACK finds no broker exchange, the PUBLISH is never written: clause 5 *)
Example C06_register_step_interference :
  mon6r_run c06r_cfg (init_state c06r_cfg) mon6_init mon6r_init c06r_hist_interf = [5] /\
  sn_pkts (obs_of_outs (last (fst (gw_run c06r_cfg (init_state c06r_cfg) c06r_hist_interf)) [])) = [].
Proof. vm_compute. repeat split; reflexivity. Qed.

Print Assumptions C06_register_step_only_interference_fails.
