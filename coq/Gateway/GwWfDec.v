(* Gateway/GwWfDec.v — boolean deciders for well-formedness of concrete events / histories
   (used by witness theorems: "vm_compute; reflexivity" instead of building `le` proofs). *)
From stdpp Require Import base option list numbers fin_maps nmap.
From Coq Require Import Lia ZArith ZifyN ZifyNat ZifyBool.
From Verif.Base Require Import Bytes BytesProofs.
From Verif.Codec Require Import Packets Decode Encode.
From Verif.Topics Require Import Predefined.
From Verif.Gateway Require Import GwTypes GwStep GwWf GwRun.
Open Scope N_scope.

Definition wf_mqb (m : mq_pkt) : bool :=
  match m with
  | MqConnect _ => true
  | MqConnack _ rc => rc <? 256
  | MqPublish _ q _ t mid pl => (q <? 4) && wf_bytesb t && (len t <? 65536) && (mid <? 65536) && wf_bytesb pl
  | MqPuback mid | MqPubrec mid | MqPubrel mid | MqPubcomp mid | MqUnsuback mid => mid <? 65536
  | MqSubscribe mid _ _ => mid <? 65536
  | MqSuback mid codes => (mid <? 65536) && wf_bytesb codes
  | MqUnsubscribe mid _ => mid <? 65536
  | MqPingreq | MqPingresp | MqDisconnect => true
  end.

Definition wf_eventb (ev : gw_event) : bool :=
  match ev with
  | EvSn dg => wf_bytesb dg && (len dg <=? MaxPacketLen)
  | EvMq m => wf_mqb m
  | _ => true
  end.

Lemma wf_eventb_spec ev : wf_eventb ev = true -> wf_event ev.
Proof.
  destruct ev as [dg|m| | |d|]; cbn [wf_eventb wf_event]; try (intros _; exact I).
  - intros H. apply andb_true_iff in H. destruct H as [H1 H2]. split; [apply wf_bytesb_spec, H1|].
    apply N.leb_le in H2. unfold len in H2. lia.
  - destruct m; cbn [wf_mqb wf_mq]; intros H; try exact I;
      repeat match type of H with (_ && _) = true => apply andb_true_iff in H; destruct H as [H ?] end;
      repeat match goal with
             | h : (_ <? _) = true |- _ => apply N.ltb_lt in h
             | h : wf_bytesb _ = true |- _ => apply wf_bytesb_spec in h
             end; repeat split; assumption.
Qed.

Lemma wf_events_spec evs : forallb wf_eventb evs = true -> Forall wf_event evs.
Proof.
  intros H. apply Forall_forall. intros ev Hin. apply wf_eventb_spec.
  rewrite forallb_forall in H. apply H, Hin.
Qed.

(* boolean run_all *)
Fixpoint run_allb (cfg : gw_cfg) (P : gw_state -> gw_event -> bool) (s : gw_state) (evs : list gw_event) : bool :=
  match evs with [] => true | ev :: evs' => P s ev && run_allb cfg P (fst (gw_step cfg s ev)) evs' end.

Lemma run_allb_spec cfg (P : gw_state -> gw_event -> bool) evs : forall s,
  run_all cfg (fun s ev => P s ev = true) s evs <-> run_allb cfg P s evs = true.
Proof.
  induction evs as [|ev evs IH]; intros s; cbn [run_all run_allb]; [tauto|].
  rewrite andb_true_iff, IH. tauto.
Qed.

(* a checker (returning a list of failed clauses) that accepts every step of a history *)
Definition passes {A} (l : list A) : bool := match l with [] => true | _ => false end.
Lemma passes_spec {A} (l : list A) : l = [] -> passes l = true.
Proof. intros ->. reflexivity. Qed.
