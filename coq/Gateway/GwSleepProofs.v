(* Gateway/GwSleepProofs.v — the wake-up step: after the flush the client is asleep again. *)
From stdpp Require Import base option list numbers fin_maps nmap.
From RecordUpdate Require Import RecordSet.
From Coq Require Import Lia ZArith ZifyN ZifyNat ZifyBool.
From Verif.Base Require Import Bytes.
From Verif.Codec Require Import Packets Decode Encode.
From Verif.Topics Require Import Predefined.
From Verif.Gateway Require Import GwTypes GwStep.
Import RecordSetNotations.
Open Scope N_scope.

Lemma send_all_awake_small ps : forall S,
  gw_st S = Awake -> (forall e, In e ps -> len (pack (snd e)) <= MaxPacketLen) ->
  send_all S ps = (S, map (fun e => OutSn (gw_now S) (pack (snd e))) ps, HOk).
Proof.
  induction ps as [|[o p] ps IH]; intros S Hst Hsz; cbn [send_all map]; [reflexivity|].
  unfold sn_send, sn_send_owned. rewrite Hst.
  assert (E : (len (pack p) <=? MaxPacketLen) = true).
  { apply N.leb_le. apply (Hsz (o, p)). left. reflexivity. }
  rewrite E. cbn [andthen ok]. rewrite IH; [reflexivity|exact Hst|].
  intros e He. apply Hsz. right. exact He.
Qed.

Theorem wake_up_asleep_again :
  forall cfg s dg cid,
    gw_ended s = false -> gw_ending s = None -> gw_st s = Asleep ->
    read_dgram dg = Ok (Pingreq cid) ->
    (forall e, In e (gw_buffer s) -> len (pack (snd e)) <= MaxPacketLen) ->
    gw_st (fst (gw_step cfg s (EvSn dg))) = Asleep /\ gw_buffer (fst (gw_step cfg s (EvSn dg))) = [].
Proof.
  intros cfg s dg cid He Hg Hst Hr Hsz.
  unfold gw_step. rewrite He, Hg, Hr. cbv zeta.
  unfold handle_sn, packet_legal. cbn [gw_st set]. rewrite Hst. cbn [negb cstate_eqb].
  rewrite send_all_awake_small; [|reflexivity|exact Hsz].
  cbn [andthen]. unfold sn_send, sn_send_owned. cbn [gw_st set].
  change (len (pack Pingresp) <=? MaxPacketLen) with true. cbn. split; reflexivity.
Qed.
