(* Gateway/Sound_C07C08C09.v — the gateway model's own outputs are accepted by the per-step
   checkers of the connect exchange: C07 (admission), C08 (authentication), C09 (will protocol).

   chk_C07_sound is proved as stated.

   chk_C08_sound and chk_C09_sound are FALSE as stated (theorems chk_C08_sound_false and
   chk_C09_sound_false, from the concrete histories chk_C08_counterexample,
   chk_C09_counterexample_willtopicreq and chk_C09_counterexample_willmsgreq).  The cause is the sleep
   buffer: sn_send queues a packet while the client is Asleep, and a connect exchange can be in
   progress while the client sleeps (a CONNECT received in state Active starts a new exchange, and a
   DISCONNECT with a duration does not cancel it).
   - C08, clause 3: the CONNACK "not supported" that answers an AUTH with an unknown method is queued
     instead of written, so the step that handles that AUTH writes nothing.
   - C09, clauses 1 and 2: a WILLTOPICREQ / WILLMSGREQ queued while asleep is written in the step that
     handles the next PINGREQ, i.e. in a step whose event is neither CONNECT/AUTH nor WILLTOPIC.
   They are proved under the executable side conditions c08_excluded / c09_excluded = false
   (chk_C08_sound_partial, chk_C09_sound_partial).  The side conditions are exact: every step they
   exclude is rejected by the checker (c08_excluded_rejected, c09_excluded_rejected).

     (* FALSE: *) chk_C08_sound : forall cfg s ev, wf_cfg cfg -> reach cfg s -> wf_event ev ->
                    chk_C08 cfg s ev (obs_of_outs (snd (gw_step cfg s ev))) = [].
     (* FALSE: *) chk_C09_sound : forall cfg s ev, wf_cfg cfg -> reach cfg s -> wf_event ev ->
                    chk_C09 cfg s ev (obs_of_outs (snd (gw_step cfg s ev))) = [].
   Added hypotheses: c08_excluded cfg s ev = false, resp. c09_excluded cfg s ev = false. *)
From stdpp Require Import base option list numbers fin_maps nmap.
From Coq Require Import Lia ZArith ZifyN ZifyNat ZifyBool.
From RecordUpdate Require Import RecordSet.
From Verif.Base Require Import Bytes BytesProofs.
From Verif.Codec Require Import Packets Decode Encode EncodeProofs.
From Verif.Topics Require Import Predefined.
From Verif.Gateway Require Import GwTypes GwStep GwStepProofs GwWf GwRun Sound_C07C08C09_aux.
From Verif.Checkers Require Import ChkCodec ChkGw ChkGw2.
Import RecordSetNotations.
Open Scope N_scope.
Ltac Zify.zify_post_hook ::= Z.div_mod_to_equations.

(* ================================================================== the invariant *)

Definition is_ping (k : timer_kind) : bool := match k with TmPing _ => true | _ => false end.
Definition noping (t : timer) : Prop := is_ping (tm_kind t) = false.

(* the packets a broker-publish transaction re-sends to the client *)
Definition bp_type (p : packet) : bool :=
  match p with Register _ _ _ | Publish _ _ _ _ _ _ _ | Pubrel _ => true | _ => false end.

Definition ok_data (acc : bool) (d : resend_data) : Prop :=
  match d with RsSn p => bp_type p = true | RsAck _ _ => acc = true end.
Definition ok_snpub (sp : option packet) : Prop :=
  match sp with Some p => bp_type p = true | None => True end.
Definition ok_txn (acc : bool) (t : txn) : Prop :=
  match t with TxBrokerPub _ _ _ d sp _ => ok_data acc d /\ ok_snpub sp | _ => True end.

Definition cfg_uflag (cfg : gw_cfg) : bool := match cfg_user cfg with Some _ => true | None => false end.
Definition cfg_uval (cfg : gw_cfg) : bytes := match cfg_user cfg with Some u => u | None => [] end.
Definition cfg_pflag (cfg : gw_cfg) : bool := match cfg_pass cfg with Some _ => true | None => false end.
Definition cfg_pval (cfg : gw_cfg) : bytes := match cfg_pass cfg with Some p => p | None => [] end.

(* the stored MQTT CONNECT of the exchange, per step of the exchange *)
Definition Cx (cfg : gw_cfg) (seen : option (bytes * bytes)) (mq : mq_connect) (a : cx_state) : Prop :=
  (a = CxAuth -> auth_enabled cfg = true) /\
  (auth_enabled cfg = false ->
   c_uflag mq = cfg_uflag cfg /\ c_user mq = cfg_uval cfg /\ c_pflag mq = cfg_pflag cfg /\ c_pass mq = cfg_pval cfg) /\
  (auth_enabled cfg = true -> a <> CxAuth ->
   exists u p, seen = Some (u, p) /\ c_uflag mq = true /\ c_user mq = u /\ c_pflag mq = true /\ c_pass mq = p) /\
  (a = CxWillTopic \/ a = CxWillMsg -> c_will mq = true).

Definition IA (acc : bool) (st : cstate) : Prop := acc = true \/ st = Disconnected.
Definition IT (acc : bool) (tms : list timer) : Prop := acc = true \/ Forall noping tms.
Definition IO (acc : bool) (objs : Nmap txn) : Prop := forall g t, objs !! g = Some t -> ok_txn acc t.
Definition IC (cfg : gw_cfg) (con : option N) (objs : Nmap txn) (seen : option (bytes * bytes)) : Prop :=
  forall g mq a, con = Some g -> objs !! g = Some (TxConnect mq a) -> Cx cfg seen mq a.

Definition Inv (cfg : gw_cfg) (s : gw_state) : Prop :=
  IA (gw_accepted s) (gw_st s) /\ IT (gw_accepted s) (gw_timers s) /\ IO (gw_accepted s) (gw_objs s) /\
  IC cfg (gw_connect s) (gw_objs s) (gw_auth_seen s).

Arguments IA : simpl never.
Arguments IT : simpl never.
Arguments IO : simpl never.
Arguments IC : simpl never.

Lemma IA_true st : IA true st.  Proof. left. reflexivity. Qed.
Lemma IA_disc acc : IA acc Disconnected.  Proof. right. reflexivity. Qed.
Lemma IT_true l : IT true l.  Proof. left. reflexivity. Qed.
Lemma IT_nil acc : IT acc [].  Proof. right. constructor. Qed.
Lemma IT_app acc a b : IT acc a -> IT acc b -> IT acc (a ++ b).
Proof. intros [Ha|Ha] [Hb|Hb]; try (left; assumption). right. apply Forall_app. split; assumption. Qed.
Lemma Forall_List_filter {A} (P : A -> Prop) (f : A -> bool) l : Forall P l -> Forall P (List.filter f l).
Proof. induction 1 as [|x l Hx Hl IH]; cbn; [constructor|]. destruct (f x); [constructor|]; assumption. Qed.
Lemma IT_filter acc f l : IT acc l -> IT acc (List.filter f l).
Proof. intros [H|H]; [left; exact H|right; apply Forall_List_filter, H]. Qed.
Lemma IT_one acc a b k : is_ping k = false -> IT acc [{| tm_at := a; tm_seq := b; tm_kind := k |}].
Proof. intros H. right. constructor; [exact H|constructor]. Qed.
Lemma IT_one_acc a b k : IT true [{| tm_at := a; tm_seq := b; tm_kind := k |}].
Proof. left. reflexivity. Qed.

Lemma ok_txn_mono acc t : ok_txn acc t -> ok_txn true t.
Proof. destruct t as [| | |mid q st d sp n]; cbn; auto. intros [Hd Hs]. split; [|exact Hs]. destruct d; cbn in *; auto. Qed.
Lemma IO_mono acc m : IO acc m -> IO true m.
Proof. intros H g t Hl. eapply ok_txn_mono, H, Hl. Qed.
Lemma IO_insert acc m g t : ok_txn acc t -> IO acc m -> IO acc (<[g:=t]> m).
Proof.
  intros Ht H g' t' Hl. destruct (decide (g = g')) as [->|Hne].
  - rewrite lookup_insert in Hl. injection Hl as <-. exact Ht.
  - rewrite lookup_insert_ne in Hl by exact Hne. eapply H, Hl.
Qed.
Lemma IO_delete acc m g : IO acc m -> IO acc (delete g m).
Proof. intros H g' t' Hl. apply lookup_delete_Some in Hl. destruct Hl as [_ Hl]. eapply H, Hl. Qed.

Definition not_conn (t : txn) : Prop := match t with TxConnect _ _ => False | _ => True end.

Lemma IC_none cfg m seen : IC cfg None m seen.
Proof. intros g mq a H. discriminate. Qed.
Lemma IC_insert_nc cfg con m seen g t : not_conn t -> IC cfg con m seen -> IC cfg con (<[g:=t]> m) seen.
Proof.
  intros Ht H g' mq a Hc Hl. destruct (decide (g = g')) as [->|Hne].
  - rewrite lookup_insert in Hl. injection Hl as ->. destruct Ht.
  - rewrite lookup_insert_ne in Hl by exact Hne. eapply H; eassumption.
Qed.
Lemma IC_delete cfg con m seen g : IC cfg con m seen -> IC cfg con (delete g m) seen.
Proof. intros H g' mq a Hc Hl. apply lookup_delete_Some in Hl. destruct Hl as [_ Hl]. eapply H; eassumption. Qed.
Lemma IC_insert_conn cfg m seen g mq a : Cx cfg seen mq a -> IC cfg (Some g) (<[g:=TxConnect mq a]> m) seen.
Proof. intros HC g' mq' a' Hc Hl. injection Hc as <-. rewrite lookup_insert in Hl. injection Hl as <- <-. exact HC. Qed.

Create HintDb inv.
#[local] Hint Resolve IA_true IA_disc IT_true IT_nil IT_app IT_filter IT_one IT_one_acc IO_mono IO_insert IO_delete
  IC_none IC_insert_nc IC_delete IC_insert_conn : inv.
#[local] Hint Extern 1 (not_conn _) => exact I : inv.
#[local] Hint Extern 1 (ok_txn _ _) => exact I : inv.
#[local] Hint Extern 1 (is_ping _ = false) => reflexivity : inv.

(* solve Inv of a state written as record updates of a state satisfying Inv *)
Ltac inv_split :=
  repeat match goal with H : Inv _ _ |- _ => destruct H as [?HA [?HT [?HO ?HC]]] end.
Ltac inv_leaf := inv_split; unfold Inv; cbn; (split; [|split; [|split]]); eauto 8 with inv.

Lemma Inv_init cfg : Inv cfg (init_state cfg).
Proof.
  unfold Inv. cbn. (split; [|split; [|split]]); eauto with inv.
  intros g0 t0 Hl. rewrite lookup_empty in Hl. discriminate.
Qed.

(* primitives that do not touch the fields the invariant reads *)
Record same_view (s s' : gw_state) : Prop := {
  sv_acc : gw_accepted s' = gw_accepted s; sv_st : gw_st s' = gw_st s; sv_tm : gw_timers s' = gw_timers s;
  sv_ob : gw_objs s' = gw_objs s; sv_con : gw_connect s' = gw_connect s; sv_seen : gw_auth_seen s' = gw_auth_seen s;
  sv_buf : gw_buffer s' = gw_buffer s; sv_now : gw_now s' = gw_now s; sv_byid : gw_by_id s' = gw_by_id s;
  sv_end : gw_ending s' = gw_ending s; sv_ended : gw_ended s' = gw_ended s }.

Lemma same_view_refl s : same_view s s.
Proof. constructor; reflexivity. Qed.
Lemma same_view_trans s1 s2 s3 : same_view s1 s2 -> same_view s2 s3 -> same_view s1 s3.
Proof. intros [] []. constructor; congruence. Qed.

Lemma Inv_view cfg s s' : same_view s s' -> Inv cfg s -> Inv cfg s'.
Proof. intros [] H. unfold Inv in *. congruence. Qed.

Lemma seq_next_view cfg s : same_view s (fst (fst (seq_next cfg s))).
Proof. unfold seq_next. destruct (gw_seq_next s =? max_tid cfg); constructor; reflexivity. Qed.

Lemma skip_predefined_view fuel cfg : forall s id, same_view s (fst (skip_predefined fuel cfg s id)).
Proof.
  induction fuel as [|fuel IH]; intros s id; cbn [skip_predefined];
    destruct (get_name (predefined cfg) (gw_client_id s) id); try apply same_view_refl.
  - constructor; reflexivity.
  - pose proof (seq_next_view cfg s) as Hs. destruct (seq_next cfg s) as [[s' id'] ov]. cbn [fst] in Hs.
    destruct ov.
    + eapply same_view_trans; [exact Hs|]. constructor; reflexivity.
    + eapply same_view_trans; [exact Hs|apply IH].
Qed.

Lemma new_topic_id_view cfg s : same_view s (fst (new_topic_id cfg s)).
Proof.
  unfold new_topic_id. destruct (gw_no_more_tids s); [apply same_view_refl|].
  pose proof (seq_next_view cfg s) as Hs. destruct (seq_next cfg s) as [[s' id'] ov]. cbn [fst] in Hs.
  destruct ov.
  - eapply same_view_trans; [exact Hs|]. constructor; reflexivity.
  - eapply same_view_trans; [exact Hs|apply skip_predefined_view].
Qed.

Lemma register_topic_view cfg s name : same_view s (fst (register_topic cfg s name)).
Proof.
  unfold register_topic. destruct (find_registered s name); [apply same_view_refl|].
  pose proof (new_topic_id_view cfg s) as Hs. destruct (new_topic_id cfg s) as [s' [i|]]; cbn [fst] in *; [|exact Hs].
  eapply same_view_trans; [exact Hs|]. constructor; reflexivity.
Qed.

(* ------------------------------------------------------------------ preservation, handler by handler *)

#[local] Hint Extern 2 (ok_txn _ (TxBrokerPub _ _ _ _ _ _)) => (split; assumption) : inv.

Lemma Inv_sn_send_owned cfg s o p : Inv cfg s -> Inv cfg (st_of (sn_send_owned s o p)).
Proof.
  intros H. unfold sn_send_owned.
  destruct (gw_st s); try destruct (len (pack p) <=? MaxPacketLen); cbn [st_of ok stop fst]; try exact H; inv_leaf.
Qed.

Lemma Inv_andthen cfg r g :
  Inv cfg (st_of r) -> (forall s1, Inv cfg s1 -> Inv cfg (st_of (g s1))) -> Inv cfg (st_of (andthen r g)).
Proof.
  intros Hr Hg. destruct r as [[s o] [|c]]; cbn [andthen st_of fst] in *; [|exact Hr].
  specialize (Hg s Hr). destruct (g s) as [[s' o'] res]. exact Hg.
Qed.

Lemma Inv_send_all cfg ps : forall s, Inv cfg s -> Inv cfg (st_of (send_all s ps)).
Proof.
  induction ps as [|[o p] ps IH]; intros s H; cbn [send_all]; [exact H|].
  apply Inv_andthen; [apply Inv_sn_send_owned, H|intros s1 H1; apply IH, H1].
Qed.

(* finish_obj deletes the by-id slot only if it still holds g: split on that test *)
Local Ltac fin_by_id g :=
  try (match goal with |- context [match ?m !! ?k with Some g' => if g' =? g then _ else _ | None => _ end] =>
         let g' := fresh "g'" in destruct (m !! k) as [g'|]; [destruct (g' =? g)|] end).

Lemma Inv_finish_obj cfg s g : Inv cfg s -> Inv cfg (finish_obj s g).
Proof.
  intros H. unfold finish_obj. destruct (gw_objs s !! g) as [t|]; [|exact H].
  destruct t; fin_by_id g; inv_leaf.
Qed.

Ltac inv_walk :=
  repeat first
    [ assumption
    | apply Inv_andthen; [|intros ? ?]
    | apply Inv_sn_send_owned
    | apply Inv_send_all
    | apply Inv_finish_obj
    | match goal with |- Inv _ (st_of (match ?x with _ => _ end)) => destruct x eqn:? end
    | match goal with |- Inv _ (st_of (if ?x then _ else _)) => destruct x eqn:? end
    | progress cbn [st_of ok stop mq_send sn_send fst snd] ].

Lemma Inv_bp_proceed cfg s g mid qos st data snpub :
  Inv cfg s -> ok_data (gw_accepted s) data -> ok_snpub snpub ->
  Inv cfg (st_of (bp_proceed cfg s g mid qos st data snpub)).
Proof.
  intros H Hd Hs. unfold bp_proceed. cbv zeta.
  set (s1 := arm _ _ _).
  assert (H1 : Inv cfg s1) by (subst s1; inv_leaf).
  clearbody s1. destruct data; destruct st; inv_walk.
Qed.

Lemma ok_txn_bp acc mid q st d sp n : ok_txn acc (TxBrokerPub mid q st d sp n) -> ok_data acc d /\ ok_snpub sp.
Proof. intros H. exact H. Qed.

Lemma get_by_id_Some s mid g t : get_by_id s mid = Some (g, t) -> gw_objs s !! g = Some t.
Proof.
  unfold get_by_id. destruct (gw_by_id s !! mid) as [g'|]; [|discriminate].
  destruct (gw_objs s !! g') as [t'|] eqn:E; [|discriminate]. intros H. injection H as <- <-. exact E.
Qed.

Lemma get_connect_Some s g mq a : get_connect s = Some (g, mq, a) ->
  gw_connect s = Some g /\ gw_objs s !! g = Some (TxConnect mq a).
Proof.
  unfold get_connect. destruct (gw_connect s) as [g'|]; [|discriminate].
  destruct (gw_objs s !! g') as [[mq' a'| | |]|] eqn:E; try discriminate. intros H. injection H as <- <- <-. auto.
Qed.

Lemma Inv_ok_by_id cfg s mid g t : Inv cfg s -> get_by_id s mid = Some (g, t) -> ok_txn (gw_accepted s) t.
Proof. intros [_ [_ [HO _]]] H. eapply HO, get_by_id_Some, H. Qed.

Lemma Inv_bp_regack cfg s g t rc : Inv cfg s -> ok_txn (gw_accepted s) t -> Inv cfg (st_of (bp_regack cfg s g t rc)).
Proof.
  intros H Ht. unfold bp_regack.
  destruct t as [| | |mid qos st d sp n]; try exact H.
  destruct st; try exact H. destruct d as [p|]; try exact H. destruct p; try exact H. destruct sp as [pub|]; try exact H.
  destruct Ht as [_ Hs]. cbn in Hs.
  destruct (negb (rc =? RC_ACCEPTED)); [inv_walk|].
  cbv zeta. apply Inv_bp_proceed; [inv_leaf|exact Hs|exact Hs].
Qed.

Lemma Inv_handle_client_publish cfg s dup qos retain tit tid mid data :
  Inv cfg s -> Inv cfg (st_of (handle_client_publish cfg s dup qos retain tit tid mid data)).
Proof.
  intros H. unfold handle_client_publish, new_obj. cbv beta iota zeta. destruct (qos =? 1); inv_walk; inv_leaf.
Qed.

Lemma Inv_handle_subscribe cfg s dup qos tit mid tid name :
  Inv cfg s -> Inv cfg (st_of (handle_subscribe cfg s dup qos tit mid tid name)).
Proof.
  intros H. unfold handle_subscribe, new_obj. cbv beta iota zeta.
  destruct ((2 <? qos) || (mid =? 0)); [exact H|].
  destruct (tit =? TIT_STRING).
  - destruct (negb (has_wildcard name)); [|inv_walk; inv_leaf].
    pose proof (register_topic_view cfg s name) as Hv. destruct (register_topic cfg s name) as [s1 [i|]]; cbn [fst] in Hv;
      apply (Inv_view cfg) in Hv; try exact H; inv_walk; inv_leaf.
  - inv_walk; inv_leaf.
Qed.

Lemma Inv_handle_unsubscribe cfg s tit mid tid name :
  Inv cfg s -> Inv cfg (st_of (handle_unsubscribe cfg s tit mid tid name)).
Proof. intros H. unfold handle_unsubscribe. inv_walk. Qed.

(* --- the connect exchange *)
Definition Inv3 (s : gw_state) : Prop :=
  IA (gw_accepted s) (gw_st s) /\ IT (gw_accepted s) (gw_timers s) /\ IO (gw_accepted s) (gw_objs s).

Lemma Inv_Inv3 cfg s : Inv cfg s -> Inv3 s.
Proof. intros [HA [HT [HO _]]]. repeat split; assumption. Qed.

Lemma Inv3_finish_obj s g : Inv3 s -> Inv3 (finish_obj s g).
Proof.
  intros [HA [HT HO]]. unfold finish_obj. destruct (gw_objs s !! g) as [t|]; [|repeat split; assumption].
  destruct t; fin_by_id g; unfold Inv3; cbn; (split; [|split]); eauto with inv.
Qed.

Lemma Inv_set_conn cfg s g mq a :
  Inv3 s -> gw_connect s = Some g -> Cx cfg (gw_auth_seen s) mq a -> Inv cfg (set_obj s g (TxConnect mq a)).
Proof.
  intros [HA [HT HO]] Hg HC. unfold Inv, set_obj. cbn. rewrite Hg. (split; [|split; [|split]]); eauto with inv.
Qed.

Lemma Inv_connect_auth_done cfg s g mq :
  Inv3 s -> gw_connect s = Some g ->
  Cx cfg (gw_auth_seen s) mq (if c_will mq then CxWillTopic else CxConnack) ->
  Inv cfg (st_of (connect_auth_done s g mq)).
Proof.
  intros H3 Hg HC. unfold connect_auth_done. destruct (c_will mq).
  - cbn [sn_send]. apply Inv_sn_send_owned, Inv_set_conn; assumption.
  - cbn [mq_send st_of ok fst]. apply Inv_set_conn; assumption.
Qed.

Lemma Inv_handle_connect cfg s will clean proto dur cid :
  Inv cfg s -> Inv cfg (st_of (handle_connect cfg s will clean proto dur cid)).
Proof.
  intros H. unfold handle_connect.
  destruct (negb (proto =? 1)); [inv_walk|].
  destruct (cstate_eqb (gw_st s) Awake || cstate_eqb (gw_st s) Asleep) eqn:Hst.
  - cbn [sn_send]. apply Inv_sn_send_owned.
    assert (Hacc : gw_accepted s = true).
    { destruct H as [[Ha|Hd] _]; [exact Ha|]. rewrite Hd in Hst. discriminate. }
    inv_split. unfold Inv. cbn. rewrite Hacc in *. (split; [|split; [|split]]); eauto with inv.
  - destruct (dur =? 0); [inv_walk|]. cbv zeta. unfold new_obj. cbv beta iota.
    match goal with |- context [match gw_connect ?s0 with Some g => finish_obj ?s0' g | None => ?s0'' end] =>
      set (s1 := match gw_connect s0 with Some g => finish_obj s0' g | None => s0'' end) end.
    assert (H1 : Inv3 s1).
    { subst s1. cbn [gw_connect]. 
      assert (H0 : Inv3 (s <| gw_keepalive := dur |> <| gw_client_id := cid |> <| gw_auth_seen := None |>)).
      { inv_split. unfold Inv3. cbn. repeat split; assumption. }
      cbn. destruct (gw_connect s); [apply Inv3_finish_obj|]; exact H0. }
    assert (Hseen : gw_auth_seen s1 = None).
    { subst s1. cbn. destruct (gw_connect s); [|reflexivity].
      unfold finish_obj. cbn. destruct (gw_objs s !! n) as [[]|]; fin_by_id n; reflexivity. }
    clearbody s1. destruct H1 as [HA [HT HO]].
    unfold connect_start. destruct (auth_enabled cfg) eqn:Hau.
    + cbn [st_of ok fst]. apply Inv_set_conn.
      * unfold Inv3. cbn. (split; [|split]); eauto with inv.
      * reflexivity.
      * unfold Cx. cbn. repeat split; intros; try congruence. destruct H0; discriminate.
    + apply Inv_connect_auth_done.
      * unfold Inv3. cbn. (split; [|split]); eauto with inv.
      * reflexivity.
      * unfold Cx. cbn. destruct will; repeat split; intros; try congruence; try discriminate.
        all: destruct H0; discriminate.
Qed.

Lemma Inv_cx cfg s g mq a : Inv cfg s -> get_connect s = Some (g, mq, a) -> Cx cfg (gw_auth_seen s) mq a.
Proof. intros [_ [_ [_ HC]]] Hg. apply get_connect_Some in Hg. destruct Hg as [Hc Hl]. eapply HC; eassumption. Qed.


Lemma Cx_auth cfg u p mq : auth_enabled cfg = true ->
  Cx cfg (Some (u, p)) (mq <| c_uflag := true |> <| c_user := u |> <| c_pflag := true |> <| c_pass := p |>)
     (if c_will mq then CxWillTopic else CxConnack).
Proof.
  intros Hau. unfold Cx. cbn. split; [|split; [|split]].
  - intros E. destruct (c_will mq); discriminate E.
  - intros E. congruence.
  - intros _ _. exists u, p. repeat split; reflexivity.
  - intros [E|E]; destruct (c_will mq); try discriminate E; reflexivity.
Qed.

Lemma Inv_connect_auth cfg s g mq a method data :
  Inv cfg s -> get_connect s = Some (g, mq, a) -> Inv cfg (st_of (connect_auth s g mq a method data)).
Proof.
  intros H Hg. unfold connect_auth.
  destruct (negb (cx_state_eqb a CxAuth)) eqn:Ha; [exact H|].
  assert (a = CxAuth) as -> by (destruct a; cbn in Ha; try discriminate; reflexivity).
  pose proof (Inv_cx _ _ _ _ _ H Hg) as [Hau _]. specialize (Hau eq_refl).
  destruct (beq method AUTH_PLAIN); [|inv_walk].
  destruct (decode_plain data) as [[u p]|]; [|inv_walk].
  apply Inv_connect_auth_done.
  - apply Inv_Inv3 in H. exact H.
  - cbn. apply get_connect_Some in Hg. apply Hg.
  - exact (Cx_auth cfg u p mq Hau).
Qed.

Lemma Cx_update cfg seen mq a mq' a' :
  Cx cfg seen mq a -> a <> CxAuth -> a' <> CxAuth ->
  c_uflag mq' = c_uflag mq -> c_user mq' = c_user mq -> c_pflag mq' = c_pflag mq -> c_pass mq' = c_pass mq ->
  (a' = CxWillTopic \/ a' = CxWillMsg -> c_will mq' = true) ->
  Cx cfg seen mq' a'.
Proof.
  intros [H1 [H2 [H3 H4]]] Ha Ha' E1 E2 E3 E4 Hw. unfold Cx. rewrite E1, E2, E3, E4.
  split; [intros; contradiction|]. split; [exact H2|]. split; [|exact Hw].
  intros Hau _. apply H3; assumption.
Qed.

Definition disc_legal (p : packet) : bool :=
  match p with
  | Connect _ _ _ _ _ | Auth _ _ _ | WillMsg _ | WillTopic _ _ _ | Publish _ _ _ _ _ _ _ => true
  | Disconnect d => d =? 0
  | _ => false
  end.

Lemma nd_accepted cfg s : Inv cfg s -> gw_st s <> Disconnected -> gw_accepted s = true.
Proof. intros [[Ha|Hd] _] Hn; [exact Ha|contradiction]. Qed.

Lemma legal_cases cfg s p : Inv cfg s -> packet_legal cfg s p = true -> disc_legal p = true \/ gw_accepted s = true.
Proof.
  intros H Hl. unfold packet_legal in Hl. destruct (gw_st s) eqn:Hst.
  - left. destruct p; try discriminate Hl; try reflexivity. exact Hl.
  - right. eapply nd_accepted; [exact H|congruence].
  - right. eapply nd_accepted; [exact H|congruence].
  - right. eapply nd_accepted; [exact H|congruence].
Qed.

#[local] Hint Extern 1 (IT _ _) => (left; assumption) : inv.

Lemma P_andthen (P : gw_state -> Prop) r g :
  P (st_of r) -> (forall s1, P s1 -> P (st_of (g s1))) -> P (st_of (andthen r g)).
Proof.
  intros Hr Hg. destruct r as [[s o] [|c]]; cbn [andthen st_of fst] in *; [|exact Hr].
  specialize (Hg s Hr). destruct (g s) as [[s' o'] res]. exact Hg.
Qed.

Definition InvA (cfg : gw_cfg) (s : gw_state) : Prop := Inv cfg s /\ gw_accepted s = true.

Lemma InvA_sn_send_owned cfg s o p : InvA cfg s -> InvA cfg (st_of (sn_send_owned s o p)).
Proof.
  intros [H A]. split; [apply Inv_sn_send_owned, H|]. unfold sn_send_owned.
  destruct (gw_st s); try destruct (len (pack p) <=? MaxPacketLen); cbn; exact A.
Qed.

Lemma InvA_sn_send_now cfg s p : InvA cfg s -> InvA cfg (st_of (sn_send_now s p)).
Proof.
  intros H. unfold sn_send_now. destruct (len (pack p) <=? MaxPacketLen); cbn [st_of ok stop fst]; exact H.
Qed.

Lemma InvA_send_all cfg ps : forall s, InvA cfg s -> InvA cfg (st_of (send_all s ps)).
Proof.
  induction ps as [|[o p] ps IH]; intros s H; cbn [send_all]; [exact H|].
  apply (P_andthen (InvA cfg)); [apply InvA_sn_send_owned, H|intros s1 H1; apply IH, H1].
Qed.

Lemma Inv_set_st cfg s st : Inv cfg s -> gw_accepted s = true -> Inv cfg (s <| gw_st := st |>).
Proof.
  intros H A. inv_split. unfold Inv. cbn. rewrite A in *. (split; [|split; [|split]]); eauto with inv.
Qed.
#[local] Hint Extern 1 (IT _ _) => (left; assumption) : inv.

Lemma Inv_handle_sn cfg s p : Inv cfg s -> Inv cfg (st_of (handle_sn cfg s p)).
Proof.
  intros H. unfold handle_sn.
  destruct (negb (packet_legal cfg s p)) eqn:Hl; [exact H|].
  apply negb_false_iff in Hl. pose proof (legal_cases _ _ _ H Hl) as Hacc.
  destruct p; try exact H.
  - (* Auth *) destruct (get_connect s) as [[[g mq] a]|] eqn:Hg; [|exact H]. apply Inv_connect_auth; assumption.
  - (* Connect *) apply Inv_handle_connect, H.
  - (* WillTopic *)
    destruct (get_connect s) as [[[g mq] a]|] eqn:Hg; [|exact H].
    destruct (negb (cx_state_eqb a CxWillTopic)) eqn:Ha; [exact H|].
    assert (a = CxWillTopic) as -> by (destruct a; cbn in Ha; try discriminate; reflexivity).
    destruct ((len topic =? 0) || (2 <? qos)); [inv_walk|].
    cbv zeta. cbn [sn_send]. apply Inv_sn_send_owned, Inv_set_conn.
    + apply Inv_Inv3 in H. exact H.
    + apply get_connect_Some in Hg. apply Hg.
    + pose proof (Inv_cx _ _ _ _ _ H Hg) as HC. eapply Cx_update; [exact HC|discriminate|discriminate|reflexivity..|].
      intros _. cbn. destruct HC as [_ [_ [_ HC]]]. apply HC. left. reflexivity.
  - (* WillMsg *)
    destruct (get_connect s) as [[[g mq] a]|] eqn:Hg; [|exact H].
    destruct (negb (cx_state_eqb a CxWillMsg)) eqn:Ha; [exact H|].
    assert (a = CxWillMsg) as -> by (destruct a; cbn in Ha; try discriminate; reflexivity).
    cbv zeta. cbn [mq_send st_of ok fst]. apply Inv_set_conn.
    + apply Inv_Inv3 in H. exact H.
    + apply get_connect_Some in Hg. apply Hg.
    + pose proof (Inv_cx _ _ _ _ _ H Hg) as HC. eapply Cx_update; [exact HC|discriminate|discriminate|reflexivity..|].
      intros [E|E]; discriminate E.
  - (* Register *)
    pose proof (register_topic_view cfg s name) as Hv. destruct (register_topic cfg s name) as [s1 [i|]]; cbn [fst] in Hv;
      apply (Inv_view cfg) in Hv; try exact H; cbn [sn_send]; apply Inv_sn_send_owned; [inv_leaf|exact Hv].
  - (* Regack *)
    destruct (get_by_id s mid) as [[g t]|] eqn:Hg; [|exact H].
    destruct t; try exact H. apply Inv_bp_regack; [exact H|]. eapply Inv_ok_by_id; eassumption.
  - (* Publish *) apply Inv_handle_client_publish, H.
  - (* Puback *)
    destruct Hacc as [Hacc|Hacc]; [discriminate|].
    destruct (get_by_id s mid) as [[g t]|] eqn:Hg; [|exact H].
    pose proof (Inv_ok_by_id _ _ _ _ _ H Hg) as Hok.
    destruct t as [| | |m q st d sp n]; try exact H.
    repeat (match goal with |- Inv _ (st_of (match ?x with _ => _ end)) => destruct x; try exact H end);
      first [ apply Inv_bp_proceed; [exact H|exact Hacc|apply Hok] | inv_walk ].
  - (* Pubcomp *)
    destruct Hacc as [Hacc|Hacc]; [discriminate|].
    destruct (get_by_id s mid) as [[g t]|] eqn:Hg; [|exact H].
    pose proof (Inv_ok_by_id _ _ _ _ _ H Hg) as Hok.
    destruct t as [| | |m q st d sp n]; try exact H.
    repeat (match goal with |- Inv _ (st_of (match ?x with _ => _ end)) => destruct x; try exact H end);
      first [ apply Inv_bp_proceed; [exact H|exact Hacc|apply Hok] | inv_walk ].
  - (* Pubrec *)
    destruct Hacc as [Hacc|Hacc]; [discriminate|].
    destruct (get_by_id s mid) as [[g t]|] eqn:Hg; [|exact H].
    pose proof (Inv_ok_by_id _ _ _ _ _ H Hg) as Hok.
    destruct t as [| | |m q st d sp n]; try exact H.
    repeat (match goal with |- Inv _ (st_of (match ?x with _ => _ end)) => destruct x; try exact H end);
      first [ apply Inv_bp_proceed; [exact H|exact Hacc|apply Hok] | inv_walk ].
  - (* Pubrel *) inv_walk.
  - (* Subscribe *) apply Inv_handle_subscribe, H.
  - (* Unsubscribe *) apply Inv_handle_unsubscribe, H.
  - (* Pingreq *)
    destruct (cstate_eqb (gw_st s) Asleep) eqn:Hst; [|exact H].
    assert (Hacc' : gw_accepted s = true).
    { eapply nd_accepted; [exact H|]. intros E. rewrite E in Hst. discriminate. }
    cbv zeta. enough (HA : InvA cfg (st_of (andthen (send_all (s <| gw_st := Awake |>) (gw_buffer s))
        (fun s0 => andthen (sn_send (s0 <| gw_buffer := [] |>) Pingresp) (fun s1 => ok (s1 <| gw_st := Asleep |>) [])))))
      by (destruct HA as [HA _]; exact HA).
    apply (P_andthen (InvA cfg)).
    + apply InvA_send_all. split; [apply Inv_set_st; assumption|exact Hacc'].
    + intros s1 [H1 A1]. apply (P_andthen (InvA cfg)).
      * cbn [sn_send]. apply InvA_sn_send_owned. split; [inv_leaf|exact A1].
      * intros s2 [H2 A2]. cbn [st_of ok fst]. split; [apply Inv_set_st; assumption|exact A2].
  - (* Disconnect *)
    destruct (dur =? 0) eqn:Hd.
    + inv_walk. inv_leaf.
    + destruct Hacc as [Hacc|Hacc]; [cbn in Hacc; congruence|].
      cbv zeta.
      match goal with |- Inv cfg (st_of ?r) => enough (HA : InvA cfg (st_of r)) by (destruct HA as [HA _]; exact HA) end.
      apply (P_andthen (InvA cfg)).
      * apply InvA_sn_send_now. split.
        -- destruct (negb (gw_keepalive s =? 0) && (gw_keepalive s <? dur)); inv_split; unfold Inv; cbn; rewrite Hacc in *;
             (split; [|split; [|split]]); eauto with inv.
        -- destruct (negb (gw_keepalive s =? 0) && (gw_keepalive s <? dur)); cbn; exact Hacc.
      * intros s1 [H1 A1]. cbn [st_of ok fst]. split; [apply Inv_set_st; assumption|exact A1].
Qed.

#[local] Hint Extern 1 (ok_txn _ (TxBrokerPub _ _ _ (RsSn _) _ _)) =>
  (split; [reflexivity|first [reflexivity|exact I]]) : inv.

Lemma Inv_handle_broker_publish cfg s dup qos retain topic mid0 payload :
  Inv cfg s -> Inv cfg (st_of (handle_broker_publish cfg s dup qos retain topic mid0 payload)).
Proof.
  intros H. unfold handle_broker_publish.
  destruct (if is_short_topic topic then _ else _) as [[tid tit]|]; cbv beta iota zeta.
  - destruct ((qos =? 0) && negb false); [inv_walk|].
    destruct (if qos =? 0 then _ else _) as [mid|]; [|exact H].
    destruct (2 <? qos); [exact H|].
    unfold new_obj. cbv beta iota zeta.
    apply Inv_bp_proceed; [inv_leaf|reflexivity|exact I].
  - destruct ((qos =? 0) && negb true); [inv_walk|].
    destruct (if qos =? 0 then _ else _) as [mid|]; [|exact H].
    destruct (2 <? qos); [exact H|].
    pose proof (new_topic_id_view cfg s) as Hv. destruct (new_topic_id cfg s) as [s1 [i|]]; cbn [fst] in Hv;
      apply (Inv_view cfg) in Hv; try exact H; [|exact Hv].
    unfold new_obj, note_handed. cbv beta iota zeta.
    apply Inv_bp_proceed; [inv_leaf|reflexivity|reflexivity].
Qed.

Lemma Inv_note_handed cfg s i n : Inv cfg s -> Inv cfg (note_handed s i n).
Proof. apply Inv_view. constructor; reflexivity. Qed.

Lemma Inv_handle_mq cfg s m : Inv cfg s -> Inv cfg (st_of (handle_mq cfg s m)).
Proof.
  intros H. unfold handle_mq. destruct m; try exact H.
  - (* Connack *)
    destruct (get_connect s) as [[[g mq] a]|] eqn:Hg; [|exact H].
    destruct (negb (cx_state_eqb a CxConnack)); [exact H|].
    destruct (negb (rc =? 0)); [inv_walk|].
    apply Inv_andthen; [|intros s1 H1; apply Inv_finish_obj, H1].
    cbn [sn_send]. apply Inv_sn_send_owned. inv_split. unfold Inv. cbn. (split; [|split; [|split]]); eauto with inv.
  - (* Publish *) apply Inv_handle_broker_publish, H.
  - (* Puback *) inv_walk.
  - (* Pubrec *) inv_walk.
  - (* Pubrel *)
    destruct (get_by_id s mid) as [[g t]|] eqn:Hg; [|exact H].
    pose proof (Inv_ok_by_id _ _ _ _ _ H Hg) as Hok.
    destruct t as [| | |m q st d sp n]; try exact H.
    repeat (match goal with |- Inv _ (st_of (match ?x with _ => _ end)) => destruct x; try exact H end);
      apply Inv_bp_proceed; [exact H|reflexivity|apply Hok].
  - (* Pubcomp *) inv_walk.
  - (* SubackX *) inv_walk; match goal with |- Inv _ (match ?x with _ => _ end) => destruct x end;
      [apply Inv_note_handed|]; apply Inv_finish_obj, H.
  - (* Unsuback *) inv_walk.
  - (* Pingresp *) inv_walk.
Qed.

Lemma bp_type_set_dup p : bp_type (set_dup p) = bp_type p.
Proof. destruct p; reflexivity. Qed.

Lemma Inv_fire cfg s k : Inv cfg s -> gw_accepted s = true \/ is_ping k = false -> Inv cfg (st_of (fire cfg s k)).
Proof.
  intros H Hk. unfold fire. destruct k as [g|g|g|p|p].
  - inv_walk.
  - inv_walk.
  - destruct (gw_objs s !! g) as [t|] eqn:Hg; [|exact H].
    assert (Hok : ok_txn (gw_accepted s) t) by (destruct H as [_ [_ [HO _]]]; eapply HO, Hg).
    destruct t as [| | |mid qos st data snpub n]; try exact H.
    destruct (retry_count cfg <? n + 1); [inv_walk|].
    cbv zeta. destruct Hok as [Hd Hs].
    match goal with |- context [arm ?s0 (TmRetry g) ?d] => set (s1 := arm s0 (TmRetry g) d) end.
    assert (H1 : Inv cfg s1).
    { subst s1. unfold arm, set_obj. inv_split. unfold Inv.
      destruct data; cbn; (split; [|split; [|split]]); eauto 8 with inv;
        (apply IO_insert; [|exact HO]); (split; [|exact Hs]); cbn in *; try rewrite bp_type_set_dup; exact Hd. }
    clearbody s1. destruct data as [p|k m].
    + pose proof (Inv_sn_send_owned cfg s1 (Some g) (set_dup p) H1) as Hs1.
      destruct (sn_send_owned s1 (Some g) (set_dup p)) as [[s2 o] [|c]]; cbn [st_of fst ok] in *; [exact Hs1|].
      apply Inv_finish_obj, Hs1.
    + exact H1.
  - destruct Hk as [Hk|Hk]; [|discriminate Hk].
    cbn [mq_send andthen ok st_of fst]. unfold arm. inv_split. unfold Inv. cbn. rewrite Hk in *.
    (split; [|split; [|split]]); eauto with inv.
  - cbn [st_of ok fst]. unfold disarm_ping. inv_leaf.
Qed.

Lemma Inv_begin_end cfg s c a b : Inv cfg s -> Inv cfg (fst (begin_end s c a b)).
Proof. intros H. unfold begin_end. cbn [fst]. inv_leaf. Qed.

Lemma Inv_finish_r cfg r a b : Inv cfg (st_of r) -> Inv cfg (fst (finish_r r a b)).
Proof.
  intros H. destruct r as [[s o] [|c]]; cbn [finish_r st_of fst] in *; [exact H|].
  pose proof (Inv_begin_end cfg s c a b H) as Hb. destruct (begin_end s c a b) as [s' o']. exact Hb.
Qed.

Lemma min_timer_In l : forall t, min_timer l = Some t -> In t l.
Proof.
  induction l as [|u l IH]; intros t Ht; cbn [min_timer] in Ht; [discriminate|].
  destruct (min_timer l) as [v|].
  - destruct (earlier u v); injection Ht as <-; [left; reflexivity|right; apply IH; reflexivity].
  - injection Ht as <-. left. reflexivity.
Qed.

Lemma IT_In acc tms tm : IT acc tms -> In tm tms -> acc = true \/ is_ping (tm_kind tm) = false.
Proof.
  intros [Ha|Hf] Hin; [left; exact Ha|right]. rewrite Forall_forall in Hf. exact (Hf tm Hin).
Qed.

Lemma Inv_pre_fire cfg s tm : Inv cfg s ->
  Inv cfg (s <| gw_now := tm_at tm |> <| gw_timers := remove_timer (gw_timers s) tm |>).
Proof. intros H. unfold remove_timer. inv_leaf. Qed.

Lemma Inv_run_timers cfg t fuel : forall s, Inv cfg s -> Inv cfg (fst (run_timers fuel cfg s t)).
Proof.
  induction fuel as [|fuel IH]; intros s H; cbn [run_timers]; [exact H|].
  destruct (gw_ending s) as [te|].
  - destruct (te <=? t); [|exact H]. cbn [fst]. inv_leaf.
  - destruct (min_timer (gw_timers s)) as [tm|] eqn:Hm; [|exact H].
    destruct (tm_at tm <=? t); [|exact H].
    assert (Hk : gw_accepted s = true \/ is_ping (tm_kind tm) = false).
    { destruct H as [_ [HT _]]. eapply IT_In; [exact HT|]. apply min_timer_In, Hm. }
    pose proof (Inv_pre_fire cfg s tm H) as H0.
    pose proof (Inv_finish_r cfg _ false false (Inv_fire cfg _ (tm_kind tm) H0 Hk)) as H1.
    match goal with |- context [finish_r ?r false false] => destruct (finish_r r false false) as [s' o] end.
    cbn [fst] in H1. specialize (IH s' H1). destruct (run_timers fuel cfg s' t) as [s'' o']. exact IH.
Qed.

Lemma Inv_gw_step cfg s ev : Inv cfg s -> Inv cfg (fst (gw_step cfg s ev)).
Proof.
  intros H. unfold gw_step. destruct (gw_ended s); [exact H|].
  destruct ev as [dg|m| | |d|].
  - destruct (gw_ending s); [exact H|].
    assert (H0 : Inv cfg (s <| gw_last_sn := gw_now s |>)) by inv_leaf.
    destruct (read_dgram dg) as [p|e|ps]; apply Inv_finish_r; try exact H0. apply Inv_handle_sn, H0.
  - destruct (gw_ending s); [exact H|].
    assert (H0 : Inv cfg (s <| gw_last_mq := gw_now s |>)) by inv_leaf.
    apply Inv_finish_r, Inv_handle_mq, H0.
  - destruct (gw_ending s); [exact H|]. apply Inv_finish_r. cbn [st_of stop fst]. inv_leaf.
  - destruct (gw_ending s); [exact H|]. apply Inv_finish_r. exact H.
  - pose proof (Inv_run_timers cfg (gw_now s + d) (advance_fuel cfg s d) s H) as H1.
    destruct (run_timers (advance_fuel cfg s d) cfg s (gw_now s + d)) as [s' o]. cbn [fst] in *.
    destruct (gw_ended s'); [exact H1|]. inv_leaf.
  - destruct (gw_ending s); [exact H|]. apply Inv_finish_r. exact H.
Qed.

Lemma reach_Inv cfg s : reach cfg s -> Inv cfg s.
Proof. induction 1 as [|s ev Hr IH Hev]; [apply Inv_init|apply Inv_gw_step, IH]. Qed.

(* ================================================================== what a step writes *)

(* P of every MQTT packet and Q of every MQTT-SN packet among the outputs *)
Definition all_out (P : mq_pkt -> Prop) (Q : packet -> Prop) (os : list gw_out) : Prop :=
  all_mq P os /\ all_sn Q os.

Lemma all_out_nil P Q : all_out P Q [].
Proof. split; [apply all_mq_nil|apply all_sn_nil]. Qed.

Lemma all_out_app P Q a b : all_out P Q a -> all_out P Q b -> all_out P Q (a ++ b).
Proof. intros [Ha1 Ha2] [Hb1 Hb2]. split; [apply all_mq_app|apply all_sn_app]; assumption. Qed.

Lemma all_out_impl (P P' : mq_pkt -> Prop) (Q Q' : packet -> Prop) os :
  (forall m, P m -> P' m) -> (forall p, Q p -> Q' p) -> all_out P Q os -> all_out P' Q' os.
Proof. intros HP HQ [H1 H2]. split; [eapply all_mq_impl|eapply all_sn_impl]; eassumption. Qed.

Lemma sn_send_owned_out P (Q : packet -> Prop) s o p : Q p -> all_out P Q (outs_of (sn_send_owned s o p)).
Proof. intros HQ. split; [apply sn_send_owned_mq|apply sn_send_owned_sn, HQ]. Qed.

Lemma sn_send_out P (Q : packet -> Prop) s p : Q p -> all_out P Q (outs_of (sn_send s p)).
Proof. apply sn_send_owned_out. Qed.

Lemma sn_send_now_out P (Q : packet -> Prop) s p : Q p -> all_out P Q (outs_of (sn_send_now s p)).
Proof. intros HQ. split; [apply sn_send_now_mq|apply sn_send_now_sn, HQ]. Qed.

Lemma mq_send_out (P : mq_pkt -> Prop) Q s m : P m -> all_out P Q (outs_of (mq_send s m)).
Proof. intros HP. split; [apply mq_send_mq, HP|apply mq_send_sn]. Qed.

Lemma andthen_out P Q r g :
  all_out P Q (outs_of r) -> (forall s, all_out P Q (outs_of (g s))) -> all_out P Q (outs_of (andthen r g)).
Proof.
  intros [H1 H2] Hg. split; [apply andthen_mq|apply andthen_sn]; try assumption; intros s; apply Hg.
Qed.

Lemma begin_end_out P (Q : packet -> Prop) s c a b : Q (Disconnect 0) -> all_out P Q (snd (begin_end s c a b)).
Proof. intros HQ. split; [apply begin_end_mq|apply begin_end_sn, HQ]. Qed.

Lemma finish_r_out P (Q : packet -> Prop) r a b :
  Q (Disconnect 0) -> all_out P Q (outs_of r) -> all_out P Q (snd (finish_r r a b)).
Proof. intros HQ [H1 H2]. split; [apply finish_r_mq, H1|apply finish_r_sn; assumption]. Qed.

(* walk the match / if structure of a handler, leaving the packets it sends as goals *)
Ltac out_walk :=
  repeat first
    [ apply all_out_nil
    | apply andthen_out; [|intros ?]
    | apply sn_send_out
    | apply sn_send_owned_out
    | apply sn_send_now_out
    | apply mq_send_out
    | match goal with |- all_out _ _ (outs_of (match ?x with _ => _ end)) => destruct x eqn:? end
    | match goal with |- all_out _ _ (outs_of (if ?x then _ else _)) => destruct x eqn:? end
    | progress cbn [outs_of ok stop fst snd] ].

(* the flush of the sleep buffer writes the packets in front of the first one that does not fit *)
Fixpoint flushed (buf : list (option N * packet)) : list packet :=
  match buf with
  | [] => []
  | (_, p) :: rest => if len (pack p) <=? MaxPacketLen then p :: flushed rest else []
  end.

Lemma send_all_out P (Q : packet -> Prop) ps : forall s,
  gw_st s <> Asleep -> (forall p, In p (flushed ps) -> Q p) -> all_out P Q (outs_of (send_all s ps)).
Proof.
  induction ps as [|[o p] ps IH]; intros s Hst HQ; cbn [send_all]; [apply all_out_nil|].
  cbn [flushed] in HQ. unfold sn_send, sn_send_owned.
  destruct (gw_st s) eqn:Est; try (exfalso; apply Hst; reflexivity);
    (destruct (len (pack p) <=? MaxPacketLen) eqn:Hl; cbn [andthen ok stop];
     [|cbn [outs_of fst snd]; apply all_out_nil]);
    (assert (IHs : all_out P Q (outs_of (send_all s ps)))
       by (apply IH; [rewrite Est; discriminate|intros p' Hp'; apply HQ; right; exact Hp']);
     destruct (send_all s ps) as [[s' o'] res]; cbn [outs_of fst snd] in *;
     apply (all_out_app P Q [_] o'); [|exact IHs];
     split; [apply all_mq_sn|apply all_sn_one; [apply N.leb_le, Hl|apply HQ; left; reflexivity]]).
Qed.

(* --- the broker-publish transaction *)
Lemma bp_proceed_out (P : mq_pkt -> Prop) (Q : packet -> Prop) cfg s g mid qos st data snpub :
  match data with RsSn p => Q p | RsAck k m => P (mq_ack k m) end ->
  all_out P Q (outs_of (bp_proceed cfg s g mid qos st data snpub)).
Proof. intros H. unfold bp_proceed. cbv zeta. destruct data; destruct st; out_walk; exact H. Qed.

Lemma bp_regack_out P (Q : packet -> Prop) cfg s g t rc acc :
  (forall p, bp_type p = true -> Q p) -> ok_txn acc t -> all_out P Q (outs_of (bp_regack cfg s g t rc)).
Proof.
  intros HQ Ht. unfold bp_regack.
  destruct t as [| | |mid qos st d sp n]; try apply all_out_nil.
  destruct st; try apply all_out_nil. destruct d as [p|]; try apply all_out_nil.
  destruct p; try apply all_out_nil. destruct sp as [pub|]; try apply all_out_nil.
  destruct Ht as [_ Hs]. cbn in Hs.
  destruct (negb (rc =? RC_ACCEPTED)); [apply all_out_nil|].
  cbv zeta. apply bp_proceed_out. apply HQ, Hs.
Qed.

Definition nothing_mq (m : mq_pkt) : Prop := False.

Lemma handle_broker_publish_out (Q : packet -> Prop) cfg s dup qos retain topic mid0 payload :
  (forall p, bp_type p = true -> Q p) ->
  all_out nothing_mq Q (outs_of (handle_broker_publish cfg s dup qos retain topic mid0 payload)).
Proof.
  intros HQ. unfold handle_broker_publish.
  destruct (if is_short_topic topic then _ else _) as [[tid tit]|]; cbv beta iota zeta;
    out_walk; try (apply HQ; reflexivity); unfold new_obj; cbv beta iota zeta;
    apply bp_proceed_out; apply HQ; reflexivity.
Qed.

(* what the gateway sends to the client on behalf of the broker *)
Definition resp_type (p : packet) : bool :=
  match p with
  | Register _ _ _ | Publish _ _ _ _ _ _ _ | Pubrel _ | Puback _ _ _ | Pubrec _ | Pubcomp _
  | Suback _ _ _ _ | Unsuback _ | Pingresp => true
  | _ => false
  end.

Lemma bp_resp p : bp_type p = true -> resp_type p = true.
Proof. destruct p; cbn; intros H; try discriminate H; reflexivity. Qed.

Lemma handle_mq_out (Q : packet -> Prop) cfg s m :
  (forall p, resp_type p = true -> Q p) ->
  (forall sp rc, m = MqConnack sp rc -> Q (Connack (if rc =? 0 then RC_ACCEPTED else RC_CONGESTION))) ->
  all_out nothing_mq Q (outs_of (handle_mq cfg s m)).
Proof.
  intros HQ HC. unfold handle_mq. destruct m; try apply all_out_nil.
  - specialize (HC _ _ eq_refl). destruct (rc =? 0) eqn:Hrc; cbn [negb]; out_walk; exact HC.
  - apply handle_broker_publish_out. intros p Hp. apply HQ, bp_resp, Hp.
  - out_walk; apply HQ; reflexivity.
  - out_walk; apply HQ; reflexivity.
  - out_walk; try apply bp_proceed_out; apply HQ; reflexivity.
  - out_walk; apply HQ; reflexivity.
  - out_walk; apply HQ; reflexivity.
  - out_walk; apply HQ; reflexivity.
  - out_walk; apply HQ; reflexivity.
Qed.

(* --- timers *)
Definition tm_mq (acc : bool) (m : mq_pkt) : Prop := acc = true /\ is_mq_connect m = false.
Definition tm_sn (p : packet) : Prop := bp_type p = true \/ p = Disconnect 0.

Lemma fire_out cfg s k : Inv cfg s -> gw_accepted s = true \/ is_ping k = false ->
  all_out (tm_mq (gw_accepted s)) tm_sn (outs_of (fire cfg s k)).
Proof.
  intros H Hk. unfold fire. destruct k as [g|g|g|p|p].
  - out_walk.
  - out_walk.
  - destruct (gw_objs s !! g) as [t|] eqn:Hg; [|apply all_out_nil].
    assert (Hok : ok_txn (gw_accepted s) t) by (destruct H as [_ [_ [HO _]]]; eapply HO, Hg).
    destruct t as [| | |mid qos st data snpub n]; try apply all_out_nil.
    destruct (retry_count cfg <? n + 1); [apply all_out_nil|].
    cbv zeta. destruct Hok as [Hd Hs].
    match goal with |- context [arm ?s0 (TmRetry g) ?d] => generalize (arm s0 (TmRetry g) d) end. intros s1.
    destruct data as [p|k m].
    + pose proof (sn_send_owned_out (tm_mq (gw_accepted s)) tm_sn s1 (Some g) (set_dup p)) as Hs1.
      destruct (sn_send_owned s1 (Some g) (set_dup p)) as [[s2 o] [|c]]; cbn [outs_of fst snd ok] in *;
        apply Hs1; left; rewrite bp_type_set_dup; exact Hd.
    + apply mq_send_out. split; [exact Hd|destruct k; reflexivity].
  - destruct Hk as [Hk|Hk]; [|discriminate Hk]. out_walk. split; [exact Hk|reflexivity].
  - out_walk.
Qed.

(* the ghost flag "the broker accepted" only changes when the broker's CONNACK is handled *)
Lemma acc_sn_send_owned s o p : gw_accepted (st_of (sn_send_owned s o p)) = gw_accepted s.
Proof. unfold sn_send_owned. destruct (gw_st s); try destruct (len (pack p) <=? MaxPacketLen); reflexivity. Qed.

Lemma acc_finish_obj s g : gw_accepted (finish_obj s g) = gw_accepted s.
Proof. unfold finish_obj. destruct (gw_objs s !! g) as [[]|]; fin_by_id g; reflexivity. Qed.

Lemma acc_fire cfg s k : gw_accepted (st_of (fire cfg s k)) = gw_accepted s.
Proof.
  unfold fire. destruct k as [g|g|g|p|p]; try reflexivity.
  - destruct (gw_objs s !! g); [|reflexivity]. cbn [st_of stop fst]. apply acc_finish_obj.
  - destruct (gw_objs s !! g); [|reflexivity]. cbn [st_of ok fst]. apply acc_finish_obj.
  - destruct (gw_objs s !! g) as [[| | |mid qos st data snpub n]|]; try reflexivity.
    destruct (retry_count cfg <? n + 1); [cbn [st_of ok fst]; apply acc_finish_obj|].
    cbv zeta. destruct data as [p|k m]; [|reflexivity].
    match goal with |- context [sn_send_owned ?s1 ?o ?q] =>
      pose proof (acc_sn_send_owned s1 o q) as Hs1; destruct (sn_send_owned s1 o q) as [[s2 o2] [|c]] end;
      cbn [st_of ok fst] in *; [exact Hs1|]. rewrite acc_finish_obj. exact Hs1.
Qed.

Lemma acc_finish_r r a b : gw_accepted (fst (finish_r r a b)) = gw_accepted (st_of r).
Proof. destruct r as [[s o] [|c]]; reflexivity. Qed.

Lemma run_timers_out cfg t fuel : forall s, Inv cfg s ->
  all_out (tm_mq (gw_accepted s)) tm_sn (snd (run_timers fuel cfg s t)).
Proof.
  induction fuel as [|fuel IH]; intros s H; cbn [run_timers]; [apply all_out_nil|].
  destruct (gw_ending s) as [te|].
  - destruct (te <=? t); cbn [snd]; [|apply all_out_nil].
    split; [intros t' m [E|[]]; discriminate E|intros t' dg [E|[]]; discriminate E].
  - destruct (min_timer (gw_timers s)) as [tm|] eqn:Hm; [|apply all_out_nil].
    destruct (tm_at tm <=? t); [|apply all_out_nil].
    assert (Hk : gw_accepted s = true \/ is_ping (tm_kind tm) = false).
    { destruct H as [_ [HT _]]. eapply IT_In; [exact HT|]. apply min_timer_In, Hm. }
    pose proof (Inv_pre_fire cfg s tm H) as H0.
    pose proof (Inv_finish_r cfg _ false false (Inv_fire cfg _ (tm_kind tm) H0 Hk)) as H1.
    pose proof (finish_r_out _ _ _ false false (or_intror eq_refl) (fire_out cfg _ (tm_kind tm) H0 Hk)) as Ho.
    pose proof (acc_finish_r (fire cfg (s <| gw_now := tm_at tm |> <| gw_timers := remove_timer (gw_timers s) tm |>) (tm_kind tm)) false false) as Ha.
    rewrite acc_fire in Ha. cbn [gw_accepted set] in Ha, Ho.
    match goal with |- context [finish_r ?r false false] => destruct (finish_r r false false) as [s' o] end.
    cbn [fst snd] in *. specialize (IH s' H1). rewrite Ha in IH.
    destruct (run_timers fuel cfg s' t) as [s'' o']. cbn [snd] in *. apply all_out_app; assumption.
Qed.

(* ================================================================== from the handlers to the step *)

Lemma gw_step_out (P : mq_pkt -> Prop) (Q : packet -> Prop) cfg s ev :
  Q (Disconnect 0) ->
  (forall dg p, ev = EvSn dg -> read_dgram dg = Ok p ->
     all_out P Q (outs_of (handle_sn cfg (s <| gw_last_sn := gw_now s |>) p))) ->
  (forall m, ev = EvMq m -> all_out P Q (outs_of (handle_mq cfg (s <| gw_last_mq := gw_now s |>) m))) ->
  (forall d, ev = EvAdvance d -> all_out P Q (snd (run_timers (advance_fuel cfg s d) cfg s (gw_now s + d)))) ->
  all_out P Q (snd (gw_step cfg s ev)).
Proof.
  intros HQ Hsn Hmq Hadv. unfold gw_step. destruct (gw_ended s); [apply all_out_nil|].
  destruct ev as [dg|m| | |d|].
  - destruct (gw_ending s); [apply all_out_nil|].
    destruct (read_dgram dg) as [p|e|ps] eqn:Hr; apply finish_r_out; try exact HQ; try apply all_out_nil.
    apply (Hsn dg p eq_refl Hr).
  - destruct (gw_ending s); [apply all_out_nil|]. apply finish_r_out; [exact HQ|]. apply (Hmq m eq_refl).
  - destruct (gw_ending s); [apply all_out_nil|]. apply finish_r_out; [exact HQ|apply all_out_nil].
  - destruct (gw_ending s); [apply all_out_nil|]. apply finish_r_out; [exact HQ|apply all_out_nil].
  - specialize (Hadv d eq_refl).
    destruct (run_timers (advance_fuel cfg s d) cfg s (gw_now s + d)) as [s' o]. exact Hadv.
  - destruct (gw_ending s); [apply all_out_nil|]. apply finish_r_out; [exact HQ|apply all_out_nil].
Qed.

Lemma none_of_false {A} (l : list A) (f : A -> bool) : none_of l f = false -> exists x, In x l /\ f x = true.
Proof.
  unfold none_of. intros H. destruct (List.filter f l) as [|x r] eqn:E; [discriminate H|].
  exists x. apply filter_In. rewrite E. left. reflexivity.
Qed.

Lemma bind_nil_In {A B} (f : A -> list B) (l : list A) : (forall x, In x l -> f x = []) -> l ≫= f = [].
Proof.
  induction l as [|x l IH]; intros H; [reflexivity|].
  change ((x :: l) ≫= f) with (f x ++ (l ≫= f)). rewrite (H x (or_introl eq_refl)), IH; [reflexivity|].
  intros y Hy. apply H. right. exact Hy.
Qed.

Lemma mqs_obs os : mqs (obs_of_outs os) = out_mqs os.  Proof. reflexivity. Qed.
Lemma sn_pkts_obs os : sn_pkts (obs_of_outs os) = out_sns os.  Proof. reflexivity. Qed.

Lemma out_mqs_all (P : mq_pkt -> Prop) os m : all_mq P os -> In m (out_mqs os) -> exists m0, m = wire m0 /\ P m0.
Proof. intros Hall Hin. apply in_out_mqs in Hin. destruct Hin as [t [m0 [Hin ->]]]. exists m0. split; [reflexivity|]. eapply Hall, Hin. Qed.

(* ================================================================== C07 *)

Definition PM7 (cfg : gw_cfg) (op : option packet) (m : mq_pkt) : Prop :=
  match m with
  | MqConnect _ => True
  | MqDisconnect => op = Some (Disconnect 0)
  | MqPublish _ _ _ _ _ _ =>
    exists d r tit tid mid data,
      op = Some (Publish d 3 r tit tid mid data) /\ auth_enabled cfg = false /\ (tit = 1 \/ tit = 2)
  | _ => False
  end.

Definition QS7 (ev : gw_event) (p : packet) : Prop :=
  match p with
  | Connack rc => rc < 256 /\ (rc = RC_ACCEPTED -> exists sp, ev = EvMq (MqConnack sp 0))
  | _ => True
  end.

Lemma bp_QS7 ev p : bp_type p = true -> QS7 ev p.
Proof. destruct p; cbn; intros H; try discriminate H; exact I. Qed.

Ltac c07_leaf :=
  first [ exact I
        | (split; [reflexivity|intros E; discriminate E]) ].

Lemma handle_sn_C07 cfg s ev p : gw_st s = Disconnected ->
  all_out (PM7 cfg (Some p)) (QS7 ev) (outs_of (handle_sn cfg s p)).
Proof.
  intros Hst. unfold handle_sn, packet_legal. rewrite Hst.
  destruct p; cbn [negb]; try apply all_out_nil.
  - (* Auth *) unfold connect_auth, connect_auth_done. out_walk; c07_leaf.
  - (* Connect *)
    unfold handle_connect, connect_start, connect_auth_done, new_obj. rewrite Hst. cbn [cstate_eqb orb].
    out_walk; c07_leaf.
  - (* WillTopic *) out_walk; c07_leaf.
  - (* WillMsg *) out_walk; c07_leaf.
  - (* Publish *)
    destruct (negb (auth_enabled cfg) && (qos =? 3) && ((tit =? TIT_SHORT) || (tit =? TIT_PREDEFINED))) eqn:Hl;
      cbn [negb]; [|apply all_out_nil].
    apply andb_true_iff in Hl as [Hl Ht]. apply andb_true_iff in Hl as [Ha Hq].
    apply negb_true_iff in Ha. apply N.eqb_eq in Hq. subst qos.
    unfold handle_client_publish, new_obj. out_walk.
    exists dup, retain, tit, tid, mid, data. split; [reflexivity|]. split; [exact Ha|].
    apply orb_true_iff in Ht as [Ht|Ht]; apply N.eqb_eq in Ht; [right|left]; exact Ht.
  - (* Disconnect *)
    destruct (dur =? 0) eqn:Hd; cbn [negb]; [|apply all_out_nil].
    apply N.eqb_eq in Hd. subst dur. out_walk; try c07_leaf. reflexivity.
Qed.

Lemma handle_mq_C07 cfg s m :
  all_out (PM7 cfg None) (QS7 (EvMq m)) (outs_of (handle_mq cfg s m)).
Proof.
  eapply all_out_impl; [| |apply (handle_mq_out (QS7 (EvMq m)))].
  - intros m0 [].
  - intros p Hp. exact Hp.
  - intros p Hp. destruct p; try discriminate Hp; exact I.
  - intros sp rc ->. destruct (rc =? 0) eqn:Hrc.
    + apply N.eqb_eq in Hrc. subst rc. split; [reflexivity|]. intros _. exists sp. reflexivity.
    + split; [reflexivity|intros E; discriminate E].
Qed.

Lemma chk_C07_inv cfg s ev : Inv cfg s -> chk_C07 cfg s ev (obs_of_outs (snd (gw_step cfg s ev))) = [].
Proof.
  intros H. unfold chk_C07.
  destruct (negb (running s) || gw_accepted s) eqn:E; [reflexivity|].
  apply orb_false_iff in E. destruct E as [_ Eacc].
  assert (Hst : gw_st s = Disconnected).
  { destruct H as [[Ha|Hd] _]; [congruence|exact Hd]. }
  assert (Hout : all_out (PM7 cfg (ev_packet ev)) (QS7 ev) (snd (gw_step cfg s ev))).
  { apply gw_step_out.
    - exact I.
    - intros dg p -> Hr. cbn [ev_packet]. rewrite Hr. apply handle_sn_C07. exact Hst.
    - intros m ->. apply handle_mq_C07.
    - intros d ->. eapply all_out_impl; [| |apply run_timers_out, H].
      + intros m [Ha _]. congruence.
      + intros p [Hp| ->]; [apply bp_QS7, Hp|exact I]. }
  destruct Hout as [Hm Hs]. rewrite mqs_obs, sn_pkts_obs.
  apply app_nil. split.
  - destruct (none_of (out_sns (snd (gw_step cfg s ev))) is_connack_accepted) eqn:En; [reflexivity|].
    apply none_of_false in En. destruct En as [x [Hin Hx]].
    destruct x; try discriminate Hx. cbn in Hx. apply N.eqb_eq in Hx. subst rc.
    apply (sns_connack (QS7 ev)) in Hin; [|intros rc [Hrc _]; exact Hrc|exact Hs].
    destruct Hin as [_ Hin]. destruct (Hin eq_refl) as [sp ->]. reflexivity.
  - apply bind_nil_In. intros m Hin.
    destruct (out_mqs_all _ _ _ Hm Hin) as [m0 [-> HP]].
    destruct m0; cbn [wire PM7] in *; try contradiction; try reflexivity.
    + destruct HP as [d [r [tit [tid [mid' [data [-> [Ha Ht]]]]]]]]. rewrite Ha. cbn [negb andb].
      destruct Ht as [->| ->]; reflexivity.
    + rewrite HP. reflexivity.
Qed.

Theorem chk_C07_sound : forall cfg s ev, wf_cfg cfg -> reach cfg s -> wf_event ev ->
  chk_C07 cfg s ev (obs_of_outs (snd (gw_step cfg s ev))) = [].
Proof. intros cfg s ev _ Hr _. apply chk_C07_inv, reach_Inv, Hr. Qed.

(* ================================================================== packets outside the connect exchange *)

(* client packets of the connect exchange / gateway packets of the connect exchange *)
Definition cx_pkt (p : packet) : bool :=
  match p with Connect _ _ _ _ _ | Auth _ _ _ | WillTopic _ _ _ | WillMsg _ => true | _ => false end.
Definition cx_type (p : packet) : bool :=
  match p with Connack _ | WillTopicReq | WillMsgReq => true | _ => false end.

Lemma bp_not_cx p : bp_type p = true -> cx_type p = false.
Proof. destruct p; cbn; intros H; try discriminate H; reflexivity. Qed.

Lemma mq_ack_not_connect k m : is_mq_connect (mq_ack k m) = false.
Proof. destruct k; reflexivity. Qed.

Lemma handle_sn_other_out (P : mq_pkt -> Prop) (Q : packet -> Prop) cfg s p :
  Inv cfg s -> cx_pkt p = false ->
  (forall m, is_mq_connect m = false -> P m) ->
  (forall q, cx_type q = false -> Q q) ->
  (forall cid q, p = Pingreq cid -> gw_st s = Asleep -> In q (flushed (gw_buffer s)) -> Q q) ->
  all_out P Q (outs_of (handle_sn cfg s p)).
Proof.
  intros H Hp HP HQ Hfl. unfold handle_sn.
  destruct (negb (packet_legal cfg s p)); [apply all_out_nil|].
  assert (Hbp : forall g t, gw_objs s !! g = Some t -> ok_txn (gw_accepted s) t).
  { destruct H as [_ [_ [HO _]]]. exact HO. }
  destruct p; try discriminate Hp; try apply all_out_nil.
  - (* Register *) destruct (register_topic cfg s name) as [s1 [i|]]; out_walk; apply HQ; reflexivity.
  - (* Regack *)
    destruct (get_by_id s mid) as [[g t]|] eqn:Hg; [|apply all_out_nil].
    apply get_by_id_Some in Hg. apply Hbp in Hg.
    destruct t; try apply all_out_nil. eapply bp_regack_out; [|exact Hg]. intros q Hq. apply HQ, bp_not_cx, Hq.
  - (* Publish *) unfold handle_client_publish, new_obj. out_walk; apply HP; reflexivity.
  - (* Puback *) out_walk; try apply bp_proceed_out; apply HP, mq_ack_not_connect.
  - (* Pubcomp *) out_walk; try apply bp_proceed_out; apply HP, mq_ack_not_connect.
  - (* Pubrec *) out_walk; try apply bp_proceed_out; apply HP, mq_ack_not_connect.
  - (* Pubrel *) out_walk. apply HP. reflexivity.
  - (* Subscribe *) unfold handle_subscribe, new_obj. out_walk; first [apply HP; reflexivity|apply HQ; reflexivity].
  - (* Unsubscribe *) unfold handle_unsubscribe. out_walk; apply HP; reflexivity.
  - (* Pingreq *)
    destruct (cstate_eqb (gw_st s) Asleep) eqn:Hst.
    + assert (Hs : gw_st s = Asleep) by (destruct (gw_st s); try discriminate Hst; reflexivity).
      cbv zeta. apply andthen_out.
      * apply send_all_out; [cbn; discriminate|]. intros q Hq. eapply Hfl; [reflexivity|exact Hs|exact Hq].
      * intros s1. out_walk. apply HQ. reflexivity.
    + out_walk. apply HP. reflexivity.
  - (* Disconnect *) out_walk; first [apply HP; reflexivity|apply HQ; reflexivity].
Qed.

(* ================================================================== the step, unfolded *)

Lemma running_true s : running s = true -> gw_ended s = false /\ gw_ending s = None.
Proof.
  unfold running. intros H. apply andb_true_iff in H as [H1 H2]. apply negb_true_iff in H1.
  split; [exact H1|]. destruct (gw_ending s); [discriminate H2|reflexivity].
Qed.

Lemma ev_packet_Some ev p : ev_packet ev = Some p -> exists dg, ev = EvSn dg /\ read_dgram dg = Ok p.
Proof.
  destruct ev as [dg| | | | |]; try discriminate. cbn [ev_packet].
  destruct (read_dgram dg) as [q| |] eqn:Hr; try discriminate. intros E. injection E as <-. eauto.
Qed.

Lemma gw_step_sn cfg s dg p : gw_ended s = false -> gw_ending s = None -> read_dgram dg = Ok p ->
  gw_step cfg s (EvSn dg) = finish_r (handle_sn cfg (s <| gw_last_sn := gw_now s |>) p) true false.
Proof. intros H1 H2 H3. unfold gw_step. rewrite H1, H2, H3. reflexivity. Qed.

Lemma gw_step_mq cfg s m : gw_ended s = false -> gw_ending s = None ->
  gw_step cfg s (EvMq m) = finish_r (handle_mq cfg (s <| gw_last_mq := gw_now s |>) m) false true.
Proof. intros H1 H2. unfold gw_step. rewrite H1, H2. reflexivity. Qed.

Lemma Inv_last_sn cfg s x : Inv cfg s -> Inv cfg (s <| gw_last_sn := x |>).
Proof. apply Inv_view. constructor; reflexivity. Qed.
Lemma Inv_last_mq cfg s x : Inv cfg s -> Inv cfg (s <| gw_last_mq := x |>).
Proof. apply Inv_view. constructor; reflexivity. Qed.

(* ================================================================== C08 *)

Definition creds (c : mq_connect) (u p : bytes) : Prop :=
  c_uflag c = true /\ c_user c = u /\ c_pflag c = true /\ c_pass c = p.

Definition is_auth (op : option packet) : bool := match op with Some (Auth _ _ _) => true | _ => false end.

Definition PM8 (cfg : gw_cfg) (s : gw_state) (op : option packet) (m : mq_pkt) : Prop :=
  match m with
  | MqConnect c =>
    if auth_enabled cfg then
      (exists r data u p, op = Some (Auth r AUTH_PLAIN data) /\ decode_plain data = Some (u, p) /\ creds c u p) \/
      (is_auth op = false /\ exists u p, gw_auth_seen s = Some (u, p) /\ creds c u p)
    else c_uflag c = cfg_uflag cfg /\ c_user c = cfg_uval cfg /\ c_pflag c = cfg_pflag cfg /\ c_pass c = cfg_pval cfg
  | _ => True
  end.

Definition any_sn (p : packet) : Prop := True.

Lemma cx_state_eqb_eq a b : cx_state_eqb a b = true -> a = b.
Proof. destruct a, b; cbn; intros H; try discriminate H; reflexivity. Qed.

Lemma handle_sn_C08 cfg s p : Inv cfg s -> all_out (PM8 cfg s (Some p)) any_sn (outs_of (handle_sn cfg s p)).
Proof.
  intros H. destruct (cx_pkt p) eqn:Hp.
  2:{ apply handle_sn_other_out; try assumption.
      - intros m Hm. destruct m; try discriminate Hm; exact I.
      - intros; exact I.
      - intros; exact I. }
  unfold handle_sn. destruct (negb (packet_legal cfg s p)); [apply all_out_nil|].
  destruct p; try discriminate Hp.
  - (* Auth *)
    destruct (get_connect s) as [[[g mq] a]|] eqn:Hg; [|apply all_out_nil].
    unfold connect_auth. destruct (negb (cx_state_eqb a CxAuth)) eqn:Ha; [apply all_out_nil|].
    apply negb_false_iff, cx_state_eqb_eq in Ha. subst a.
    pose proof (Inv_cx _ _ _ _ _ H Hg) as [Hau _]. specialize (Hau eq_refl).
    destruct (beq method AUTH_PLAIN) eqn:Hb; [|out_walk; exact I].
    apply beq_true in Hb. subst method.
    destruct (decode_plain data) as [[u pw]|] eqn:Hd; [|apply all_out_nil].
    unfold connect_auth_done. out_walk; try exact I.
    unfold PM8. rewrite Hau. left. exists reason, data, u, pw. repeat split; try reflexivity. exact Hd.
  - (* Connect *)
    unfold handle_connect, connect_start, connect_auth_done, new_obj.
    destruct (auth_enabled cfg) eqn:Hau; out_walk; try exact I.
    unfold PM8. rewrite Hau. repeat split; reflexivity.
  - (* WillTopic *) out_walk; exact I.
  - (* WillMsg *)
    destruct (get_connect s) as [[[g mq] a]|] eqn:Hg; [|apply all_out_nil].
    destruct (negb (cx_state_eqb a CxWillMsg)) eqn:Ha; [apply all_out_nil|].
    apply negb_false_iff, cx_state_eqb_eq in Ha. subst a.
    pose proof (Inv_cx _ _ _ _ _ H Hg) as [_ [Hno [Hyes _]]].
    cbv zeta. apply mq_send_out. unfold PM8. destruct (auth_enabled cfg).
    + right. split; [reflexivity|]. destruct (Hyes eq_refl) as [u [pw [Hseen Hc]]]; [discriminate|].
      exists u, pw. split; [exact Hseen|]. exact Hc.
    + exact (Hno eq_refl).
Qed.

Lemma connack3_fits : (len (pack (Connack RC_NOT_SUPPORTED)) <=? MaxPacketLen) = true.
Proof. vm_compute. reflexivity. Qed.

Lemma auth_legal cfg s r me da : packet_legal cfg s (Auth r me da) = true.
Proof. unfold packet_legal. destruct (gw_st s); reflexivity. Qed.

Lemma auth_bad_outs cfg s r me da g mq :
  get_connect s = Some (g, mq, CxAuth) -> beq me AUTH_PLAIN = false -> gw_st s <> Asleep ->
  outs_of (handle_sn cfg s (Auth r me da)) = [OutSn (gw_now s) (pack (Connack RC_NOT_SUPPORTED))].
Proof.
  intros Hg Hb Hst. unfold handle_sn. rewrite auth_legal. cbn [negb]. rewrite Hg. unfold connect_auth.
  cbn [cx_state_eqb negb]. rewrite Hb. unfold sn_send, sn_send_owned.
  destruct (gw_st s); try (exfalso; apply Hst; reflexivity); rewrite connack3_fits; reflexivity.
Qed.

Definition c08_excluded (cfg : gw_cfg) (s : gw_state) (ev : gw_event) : bool :=
  running s && cstate_eqb (gw_st s) Asleep &&
  match ev_packet ev, get_connect s with
  | Some (Auth _ method _), Some (_, _, CxAuth) => negb (beq method AUTH_PLAIN)
  | _, _ => false
  end.

Lemma creds_eq_wire c u p : creds c u p ->
  match wire (MqConnect c) with MqConnect c' => creds_eq c' true u true p = true | _ => False end.
Proof.
  intros (H1 & H2 & H3 & H4). cbn [wire]. unfold creds_eq. cbn [c_uflag c_pflag c_user c_pass].
  rewrite H1, H2, H3, H4, !beq_refl. reflexivity.
Qed.

Lemma chk_C08_inv cfg s ev : Inv cfg s -> c08_excluded cfg s ev = false ->
  chk_C08 cfg s ev (obs_of_outs (snd (gw_step cfg s ev))) = [].
Proof.
  intros H Hex. unfold chk_C08.
  destruct (running s) eqn:Hrun; cbn [negb]; [|reflexivity].
  destruct (running_true s Hrun) as [Hended Hending].
  assert (Hout : all_out (PM8 cfg s (ev_packet ev)) any_sn (snd (gw_step cfg s ev))).
  { apply gw_step_out.
    - exact I.
    - intros dg p -> Hr. cbn [ev_packet]. rewrite Hr.
      eapply all_out_impl; [| |apply handle_sn_C08, Inv_last_sn, H].
      + intros m Hm. exact Hm.
      + intros q Hq. exact Hq.
    - intros m ->. eapply all_out_impl; [| |apply (handle_mq_out any_sn)]; try (intros; exact I). intros m0 [].
    - intros d ->. eapply all_out_impl; [| |apply run_timers_out, H]; try (intros; exact I).
      intros m [_ Hm]. destruct m; try discriminate Hm; exact I. }
  destruct Hout as [Hm _]. rewrite mqs_obs, sn_pkts_obs.
  apply app_nil. split.
  - apply bind_nil_In. intros m Hin.
    destruct (out_mqs_all _ _ _ Hm Hin) as [m0 [-> HP]].
    destruct m0; try reflexivity. unfold PM8 in HP. destruct (auth_enabled cfg).
    + destruct HP as [[r [data [u [p [Hop [Hd Hc]]]]]]|[Hna [u [p [Hseen Hc]]]]].
      * rewrite Hop, Hd. apply creds_eq_wire in Hc. cbn [wire] in *. rewrite Hc, beq_refl. reflexivity.
      * apply creds_eq_wire in Hc. cbn [wire] in *.
        destruct (ev_packet ev) as [[]|]; try discriminate Hna; rewrite Hseen, Hc; reflexivity.
    + destruct HP as (H1 & H2 & H3 & H4). cbn [wire]. unfold cfg_creds_ok, creds_eq.
      cbn [c_uflag c_pflag c_user c_pass]. rewrite H1, H2, H3, H4. unfold cfg_uflag, cfg_uval, cfg_pflag, cfg_pval.
      destruct (cfg_user cfg), (cfg_pass cfg); cbn [Bool.eqb andb]; rewrite ?beq_refl; reflexivity.
  - destruct (ev_packet ev) as [[]|] eqn:Hop; try reflexivity.
    destruct (get_connect s) as [[[g mq] []]|] eqn:Hg; try reflexivity.
    destruct (beq method AUTH_PLAIN) eqn:Hb; [reflexivity|].
    assert (Hst : gw_st s <> Asleep).
    { unfold c08_excluded in Hex. rewrite Hrun, Hop, Hg, Hb in Hex. intros E. rewrite E in Hex. discriminate Hex. }
    apply ev_packet_Some in Hop. destruct Hop as [dg [-> Hr]].
    rewrite (gw_step_sn cfg s dg _ Hended Hending Hr).
    rewrite out_mqs_finish_r.
    destruct (out_sns_finish_r (handle_sn cfg (s <| gw_last_sn := gw_now s |>) (Auth reason method data)) true false)
      as [tl [-> _]].
    match goal with |- context [handle_sn cfg ?s0 _] =>
      rewrite (auth_bad_outs cfg s0 reason method data g mq Hg Hb Hst) end.
    rewrite out_sns_sn, (read_pack_roundtrip (Connack RC_NOT_SUPPORTED) eq_refl). reflexivity.
Qed.

Theorem chk_C08_sound_partial : forall cfg s ev, wf_cfg cfg -> reach cfg s -> wf_event ev ->
  c08_excluded cfg s ev = false ->
  chk_C08 cfg s ev (obs_of_outs (snd (gw_step cfg s ev))) = [].
Proof. intros cfg s ev _ Hr _ Hex. apply chk_C08_inv; [apply reach_Inv, Hr|exact Hex]. Qed.

(* ================================================================== C09 *)

Definition QW (cfg : gw_cfg) (s : gw_state) (op : option packet) (p : packet) : Prop :=
  match p with
  | WillTopicReq =>
    (exists cl pr d cid, op = Some (Connect true cl pr d cid) /\ auth_enabled cfg = false) \/
    (exists r me da g mq, op = Some (Auth r me da) /\ get_connect s = Some (g, mq, CxAuth) /\ c_will mq = true)
  | WillMsgReq => exists q r t g mq, op = Some (WillTopic q r t) /\ get_connect s = Some (g, mq, CxWillTopic)
  | _ => True
  end.

Definition PM9 (cfg : gw_cfg) (s : gw_state) (op : option packet) (m : mq_pkt) : Prop :=
  match m with
  | MqConnect c =>
    (exists cl pr d cid, op = Some (Connect false cl pr d cid) /\ auth_enabled cfg = false /\ c_will c = false) \/
    (exists r me da g mq, op = Some (Auth r me da) /\ get_connect s = Some (g, mq, CxAuth) /\
                          c_will mq = false /\ c_will c = false) \/
    (exists msg g mq, op = Some (WillMsg msg) /\ get_connect s = Some (g, mq, CxWillMsg) /\
                      c_will c = true /\ c_wtopic c = c_wtopic mq /\ c_wqos c = c_wqos mq /\
                      c_wretain c = c_wretain mq /\ c_wmsg c = msg)
  | _ => True
  end.

Definition no_will_req (p : packet) : Prop := is_willtopicreq p = false /\ is_willmsgreq p = false.

Lemma no_will_req_QW cfg s op p : no_will_req p -> QW cfg s op p.
Proof. intros [H1 H2]. destruct p; try exact I; discriminate. Qed.

Lemma handle_sn_C09 cfg s p : Inv cfg s ->
  (forall cid q, p = Pingreq cid -> gw_st s = Asleep -> In q (flushed (gw_buffer s)) -> no_will_req q) ->
  all_out (PM9 cfg s (Some p)) (QW cfg s (Some p)) (outs_of (handle_sn cfg s p)).
Proof.
  intros H Hfl. destruct (cx_pkt p) eqn:Hp.
  2:{ apply handle_sn_other_out; try assumption.
      - intros m Hm. destruct m; try discriminate Hm; exact I.
      - intros q Hq. destruct q; try discriminate Hq; exact I.
      - intros cid q E Hst Hq. apply no_will_req_QW. eapply Hfl; eassumption. }
  unfold handle_sn. destruct (negb (packet_legal cfg s p)); [apply all_out_nil|].
  destruct p; try discriminate Hp.
  - (* Auth *)
    destruct (get_connect s) as [[[g mq] a]|] eqn:Hg; [|apply all_out_nil].
    unfold connect_auth. destruct (negb (cx_state_eqb a CxAuth)) eqn:Ha; [apply all_out_nil|].
    apply negb_false_iff, cx_state_eqb_eq in Ha. subst a.
    destruct (beq method AUTH_PLAIN); [|out_walk; exact I].
    destruct (decode_plain data) as [[u pw]|]; [|apply all_out_nil].
    unfold connect_auth_done.
    match goal with |- context [if c_will ?m then _ else _] => destruct (c_will m) eqn:Hw end; cbn in Hw.
    + apply sn_send_out. right. exists reason, method, data, g, mq. repeat split; assumption.
    + apply mq_send_out. right. left. exists reason, method, data, g, mq. repeat split; assumption.
  - (* Connect *)
    unfold handle_connect.
    destruct (negb (proto =? 1)); [out_walk; exact I|].
    destruct (cstate_eqb (gw_st s) Awake || cstate_eqb (gw_st s) Asleep); [out_walk; exact I|].
    destruct (dur =? 0); [out_walk; exact I|].
    cbv zeta. unfold new_obj. cbv beta iota. unfold connect_start.
    destruct (auth_enabled cfg) eqn:Hau; [apply all_out_nil|].
    unfold connect_auth_done. cbn [c_will].
    destruct will.
    + apply sn_send_out. left. exists clean, proto, dur, cid. split; [reflexivity|exact Hau].
    + apply mq_send_out. left. exists clean, proto, dur, cid. repeat split; [exact Hau].
  - (* WillTopic *)
    destruct (get_connect s) as [[[g mq] a]|] eqn:Hg; [|apply all_out_nil].
    destruct (negb (cx_state_eqb a CxWillTopic)) eqn:Ha; [apply all_out_nil|].
    apply negb_false_iff, cx_state_eqb_eq in Ha. subst a.
    destruct ((len topic =? 0) || (2 <? qos)); [apply all_out_nil|].
    cbv zeta. apply sn_send_out. exists qos, retain, topic, g, mq. split; [reflexivity|exact Hg].
  - (* WillMsg *)
    destruct (get_connect s) as [[[g mq] a]|] eqn:Hg; [|apply all_out_nil].
    destruct (negb (cx_state_eqb a CxWillMsg)) eqn:Ha; [apply all_out_nil|].
    apply negb_false_iff, cx_state_eqb_eq in Ha. subst a.
    pose proof (Inv_cx _ _ _ _ _ H Hg) as [_ [_ [_ Hw]]].
    cbv zeta. apply mq_send_out. right. right. exists msg, g, mq.
    split; [reflexivity|]. split; [exact Hg|]. split; [apply Hw; right; reflexivity|]. repeat split; reflexivity.
Qed.

(* --- a client packet of the connect exchange is answered by at most one packet *)
Lemma len_sn_send_owned s o p : (length (outs_of (sn_send_owned s o p)) <= 1)%nat.
Proof. unfold sn_send_owned. destruct (gw_st s); try destruct (len (pack p) <=? MaxPacketLen); cbn; lia. Qed.

Lemma len_andthen_stop r (f : gw_state -> gw_state) c :
  length (outs_of (andthen r (fun s => stop (f s) [] c))) = length (outs_of r).
Proof. destruct r as [[s o] [|c']]; cbn; [rewrite app_nil_r|]; reflexivity. Qed.

Lemma len_andthen_ok r (f : gw_state -> gw_state) :
  length (outs_of (andthen r (fun s => ok (f s) []))) = length (outs_of r).
Proof. destruct r as [[s o] [|c']]; cbn; [rewrite app_nil_r|]; reflexivity. Qed.

Lemma len_connect_auth_done s g mq : (length (outs_of (connect_auth_done s g mq)) <= 1)%nat.
Proof. unfold connect_auth_done. destruct (c_will mq); [apply len_sn_send_owned|cbn; lia]. Qed.

Lemma cx_len cfg s p : cx_pkt p = true -> (length (outs_of (handle_sn cfg s p)) <= 1)%nat.
Proof.
  intros Hp. unfold handle_sn. destruct (negb (packet_legal cfg s p)); [cbn; lia|].
  destruct p; try discriminate Hp.
  - destruct (get_connect s) as [[[g mq] a]|]; [|cbn; lia].
    unfold connect_auth. destruct (negb (cx_state_eqb a CxAuth)); [cbn; lia|].
    destruct (beq method AUTH_PLAIN).
    + destruct (decode_plain data) as [[u pw]|]; [apply len_connect_auth_done|cbn; lia].
    + rewrite len_andthen_stop. apply len_sn_send_owned.
  - unfold handle_connect.
    destruct (negb (proto =? 1)); [apply len_sn_send_owned|].
    destruct (cstate_eqb (gw_st s) Awake || cstate_eqb (gw_st s) Asleep); [apply len_sn_send_owned|].
    destruct (dur =? 0); [apply len_sn_send_owned|].
    cbv zeta. unfold new_obj. cbv beta iota. unfold connect_start.
    destruct (auth_enabled cfg); [cbn; lia|apply len_connect_auth_done].
  - destruct (get_connect s) as [[[g mq] a]|]; [|cbn; lia].
    destruct (negb (cx_state_eqb a CxWillTopic)); [cbn; lia|].
    destruct ((len topic =? 0) || (2 <? qos)); [cbn; lia|]. apply len_sn_send_owned.
  - destruct (get_connect s) as [[[g mq] a]|]; [|cbn; lia].
    destruct (negb (cx_state_eqb a CxWillMsg)); cbn; lia.
Qed.

Lemma connack_len cfg s sp rc : (length (outs_of (handle_mq cfg s (MqConnack sp rc))) <= 1)%nat.
Proof.
  unfold handle_mq. destruct (get_connect s) as [[[g mq] a]|]; [|cbn; lia].
  destruct (negb (cx_state_eqb a CxConnack)); [cbn; lia|].
  destruct (negb (rc =? 0)); [rewrite len_andthen_stop|rewrite len_andthen_ok]; apply len_sn_send_owned.
Qed.

(* --- the CONNACK code table *)
Definition QC4 (rc : N) (p : packet) : Prop :=
  match p with
  | Connack code => code < 256 /\ (if rc =? 0 then code = RC_ACCEPTED else code = RC_CONGESTION)
  | _ => True
  end.

Lemma handle_mq_QC4 cfg s sp rc : all_sn (QC4 rc) (outs_of (handle_mq cfg s (MqConnack sp rc))).
Proof.
  apply (handle_mq_out (QC4 rc)).
  - intros p Hp. destruct p; try discriminate Hp; exact I.
  - intros sp' rc' E. injection E as E1 E2. subst rc'. destruct (rc =? 0) eqn:Hrc; unfold QC4; rewrite Hrc; split; reflexivity.
Qed.

Definition QC5 (s : gw_state) (p : packet) : Prop :=
  match p with
  | Connack code =>
    code < 256 /\ (if cstate_eqb (gw_st s) Awake || cstate_eqb (gw_st s) Asleep
                   then code = RC_ACCEPTED else code = RC_NOT_SUPPORTED)
  | _ => True
  end.

Lemma handle_sn_QC5 cfg s w c cid : all_sn (QC5 s) (outs_of (handle_sn cfg s (Connect w c 1 0 cid))).
Proof.
  unfold handle_sn. destruct (negb (packet_legal cfg s (Connect w c 1 0 cid))); [apply all_sn_nil|].
  unfold handle_connect. cbn [N.eqb Pos.eqb negb].
  destruct (cstate_eqb (gw_st s) Awake || cstate_eqb (gw_st s) Asleep) eqn:Hst;
    apply sn_send_sn; (split; [reflexivity|rewrite Hst; reflexivity]).
Qed.

Definition c09_excluded (cfg : gw_cfg) (s : gw_state) (ev : gw_event) : bool :=
  running s && cstate_eqb (gw_st s) Asleep &&
  match ev_packet ev with
  | Some (Pingreq _) => existsb (fun p => is_willtopicreq p || is_willmsgreq p) (flushed (gw_buffer s))
  | _ => false
  end.

Lemma filter_head {A} (f : A -> bool) (l : list A) x r : List.filter f l = x :: r -> In x l /\ f x = true.
Proof. intros E. apply filter_In. rewrite E. left. reflexivity. Qed.

Lemma length_filter_le {A} (f : A -> bool) (l : list A) : (length (List.filter f l) <= length l)%nat.
Proof. induction l as [|x l IH]; cbn; [lia|]. destruct (f x); cbn; lia. Qed.

Lemma PM9_cx cfg s op c : PM9 cfg s op (MqConnect c) -> exists p, op = Some p /\ cx_pkt p = true.
Proof.
  intros [(cl & pr & d & cid & -> & _)|[(r & me & da & g & mq & -> & _)|(msg & g & mq & -> & _)]]; eauto.
Qed.

Lemma cstate_eqb_eq a b : cstate_eqb a b = true -> a = b.
Proof. destruct a, b; cbn; intros H; try discriminate H; reflexivity. Qed.

Lemma chk_C09_inv cfg s ev : Inv cfg s -> c09_excluded cfg s ev = false ->
  chk_C09 cfg s ev (obs_of_outs (snd (gw_step cfg s ev))) = [].
Proof.
  intros H Hex. unfold chk_C09.
  destruct (running s) eqn:Hrun; cbn [negb]; [|reflexivity].
  destruct (running_true s Hrun) as [Hended Hending]. cbv zeta.
  assert (Hout : all_out (PM9 cfg s (ev_packet ev)) (QW cfg s (ev_packet ev)) (snd (gw_step cfg s ev))).
  { apply gw_step_out.
    - exact I.
    - intros dg p -> Hr. cbn [ev_packet]. rewrite Hr.
      eapply all_out_impl; [| |apply handle_sn_C09; [apply Inv_last_sn, H|]].
      + intros m Hm. exact Hm.
      + intros q Hq. exact Hq.
      + intros cid q -> Hst Hq. unfold c09_excluded in Hex. cbn [ev_packet] in Hex. rewrite Hrun, Hr in Hex.
        change (gw_st (s <| gw_last_sn := gw_now s |>)) with (gw_st s) in Hst.
        change (gw_buffer (s <| gw_last_sn := gw_now s |>)) with (gw_buffer s) in Hq.
        rewrite Hst in Hex. cbn [cstate_eqb andb] in Hex.
        destruct (is_willtopicreq q || is_willmsgreq q) eqn:E.
        * exfalso. assert (Ht : existsb (fun p => is_willtopicreq p || is_willmsgreq p) (flushed (gw_buffer s)) = true)
            by (apply existsb_exists; eauto). rewrite Ht in Hex. discriminate Hex.
        * apply orb_false_iff in E. exact E.
    - intros m ->. eapply all_out_impl; [| |apply (handle_mq_out no_will_req)].
      + intros m0 [].
      + intros q Hq. apply no_will_req_QW, Hq.
      + intros p Hp. destruct p; try discriminate Hp; split; reflexivity.
      + intros sp rc _. split; reflexivity.
    - intros d ->. eapply all_out_impl; [| |apply run_timers_out, H].
      + intros m [_ Hm]. destruct m; try discriminate Hm; exact I.
      + intros p [Hp| ->]; [|exact I]. destruct p; try discriminate Hp; exact I. }
  destruct Hout as [Hm Hs]. rewrite mqs_obs, sn_pkts_obs.
  apply app_nil. split; [|apply app_nil; split; [|apply app_nil; split]].
  - (* WILLTOPICREQ *)
    destruct (none_of (out_sns (snd (gw_step cfg s ev))) is_willtopicreq) eqn:En; [reflexivity|].
    apply none_of_false in En. destruct En as [x [Hin Hx]]. destruct x; try discriminate Hx.
    apply (sns_willtopicreq _ _ Hs) in Hin.
    destruct Hin as [(cl & pr & d & cid & Hop & Hau)|(r & me & da & g & mq & Hop & Hg & Hw)].
    + rewrite Hop, Hau. reflexivity.
    + rewrite Hop, Hg, Hw. reflexivity.
  - (* WILLMSGREQ *)
    destruct (none_of (out_sns (snd (gw_step cfg s ev))) is_willmsgreq) eqn:En; [reflexivity|].
    apply none_of_false in En. destruct En as [x [Hin Hx]]. destruct x; try discriminate Hx.
    apply (sns_willmsgreq _ _ Hs) in Hin. destruct Hin as (q & r & t & g & mq & Hop & Hg).
    rewrite Hop, Hg. reflexivity.
  - (* MQTT CONNECT *)
    destruct (List.filter is_mq_connect (out_mqs (snd (gw_step cfg s ev)))) as [|x [|y l]] eqn:F; [reflexivity| |].
    + apply filter_head in F. destruct F as [Hin Hx].
      destruct (out_mqs_all _ _ _ Hm Hin) as [m0 [-> HP]]. destruct m0; try discriminate Hx. cbn [wire].
      destruct HP as [(cl & pr & d & cid & Hop & Hau & Hc)|[(r & me & da & g & mq & Hop & Hg & Hw & Hc)|
                      (msg & g & mq & Hop & Hg & Hc & Ht & Hq & Hr & Hmsg)]].
      * rewrite Hop, Hau. cbn [orb c_will]. rewrite Hc. reflexivity.
      * rewrite Hop, Hg, Hw. cbn [c_will]. rewrite Hc. reflexivity.
      * rewrite Hop, Hg. cbn [c_will c_wtopic c_wqos c_wretain c_wmsg]. rewrite Hc, Ht, Hq, Hr, Hmsg.
        rewrite !beq_refl, N.eqb_refl, Bool.eqb_reflx. reflexivity.
    + exfalso. pose proof (filter_head _ _ _ _ F) as [Hin Hx].
      destruct (out_mqs_all _ _ _ Hm Hin) as [m0 [-> HP]]. destruct m0; try discriminate Hx.
      apply PM9_cx in HP. destruct HP as [p [Hop Hp]].
      apply ev_packet_Some in Hop. destruct Hop as [dg [-> Hr]].
      pose proof (length_filter_le is_mq_connect (out_mqs (snd (gw_step cfg s (EvSn dg))))) as Hlen.
      rewrite F in Hlen. rewrite (gw_step_sn cfg s dg p Hended Hending Hr), out_mqs_finish_r in Hlen.
      match type of Hlen with (_ <= length (out_mqs (outs_of (handle_sn cfg ?s0 _))))%nat =>
        pose proof (length_out_mqs (outs_of (handle_sn cfg s0 p))) as H1;
        pose proof (cx_len cfg s0 p Hp) as H2 end. cbn [length] in Hlen. lia.
  - (* CONNACK codes *)
    destruct ev as [dg|m| | |d|]; try reflexivity.
    + destruct (List.filter is_sn_connack (out_sns (snd (gw_step cfg s (EvSn dg))))) as [|x [|y l]] eqn:F;
        try reflexivity; [|destruct x; reflexivity].
      apply filter_head in F. destruct F as [Hin Hx]. destruct x; try discriminate Hx.
      destruct (ev_packet (EvSn dg)) as [[]|] eqn:Hop; try reflexivity.
      destruct dur; [|reflexivity].
      cbn [ev_packet] in Hop. destruct (read_dgram dg) as [p| |] eqn:Hr; try discriminate Hop.
      injection Hop as ->. pose proof (read_dgram_connect_proto _ _ _ _ _ _ Hr) as ->.
      rewrite (gw_step_sn cfg s dg _ Hended Hending Hr) in Hin.
      apply (sns_connack (QC5 s)) in Hin.
      * destruct Hin as [_ Hin]. destruct (cstate_eqb (gw_st s) Awake || cstate_eqb (gw_st s) Asleep); subst rc; reflexivity.
      * intros rc' [Hrc _]. exact Hrc.
      * apply finish_r_sn; [exact I|].
        eapply all_sn_impl; [|apply handle_sn_QC5]. intros q Hq. exact Hq.
    + destruct m; try reflexivity.
      destruct (List.filter is_sn_connack (out_sns (snd (gw_step cfg s (EvMq (MqConnack sp rc)))))) as [|x [|y l]] eqn:F;
        [reflexivity| |].
      * apply filter_head in F. destruct F as [Hin Hx]. destruct x; try discriminate Hx.
        rewrite (gw_step_mq cfg s _ Hended Hending) in Hin.
        apply (sns_connack (QC4 rc)) in Hin.
        -- destruct Hin as [_ Hin]. destruct (rc =? 0); subst rc0; reflexivity.
        -- intros rc' [Hrc _]. exact Hrc.
        -- apply finish_r_sn; [exact I|apply handle_mq_QC4].
      * exfalso. rewrite (gw_step_mq cfg s _ Hended Hending) in F.
        destruct (out_sns_finish_r (handle_mq cfg (s <| gw_last_mq := gw_now s |>) (MqConnack sp rc)) false true)
          as [tl [E Htl]].
        rewrite E, filter_app in F.
        assert (Ht : List.filter is_sn_connack tl = []) by (destruct Htl as [-> | ->]; reflexivity).
        rewrite Ht, app_nil_r in F.
        match type of F with List.filter _ (out_sns (outs_of (handle_mq cfg ?s0 _))) = _ =>
          pose proof (length_filter_le is_sn_connack (out_sns (outs_of (handle_mq cfg s0 (MqConnack sp rc))))) as H1;
          pose proof (length_out_sns (outs_of (handle_mq cfg s0 (MqConnack sp rc)))) as H2;
          pose proof (connack_len cfg s0 sp rc) as H3 end.
        rewrite F in H1. cbn [length] in H1. lia.
Qed.

Theorem chk_C09_sound_partial : forall cfg s ev, wf_cfg cfg -> reach cfg s -> wf_event ev ->
  c09_excluded cfg s ev = false ->
  chk_C09 cfg s ev (obs_of_outs (snd (gw_step cfg s ev))) = [].
Proof. intros cfg s ev _ Hr _ Hex. apply chk_C09_inv; [apply reach_Inv, Hr|exact Hex]. Qed.

(* ================================================================== the side conditions are exact *)

Lemma in_out_sns_intro os t dg q : In (OutSn t dg) os -> read_dgram dg = Ok q -> In q (out_sns os).
Proof.
  intros Hin Hr. apply in_split in Hin. destruct Hin as [l1 [l2 ->]].
  change (OutSn t dg :: l2) with ([OutSn t dg] ++ l2). rewrite !out_sns_app, out_sns_sn, Hr.
  apply in_or_app. right. left. reflexivity.
Qed.

Lemma send_all_flushed ps q : forall s, gw_st s <> Asleep -> In q (flushed ps) ->
  In (OutSn (gw_now s) (pack q)) (outs_of (send_all s ps)).
Proof.
  induction ps as [|[o p] ps IH]; intros s Hst Hq; cbn [flushed] in Hq; [contradiction|].
  cbn [send_all]. unfold sn_send, sn_send_owned.
  destruct (len (pack p) <=? MaxPacketLen) eqn:Hl; [|contradiction].
  destruct (gw_st s) eqn:Est; try (exfalso; apply Hst; reflexivity); cbn [andthen ok];
    (assert (IHs : In q (flushed ps) -> In (OutSn (gw_now s) (pack q)) (outs_of (send_all s ps)))
       by (apply IH; rewrite Est; discriminate);
     destruct (send_all s ps) as [[s' o'] res]; cbn [outs_of fst snd] in *;
     destruct Hq as [->|Hq]; [left; reflexivity|right; apply IHs, Hq]).
Qed.

Lemma outs_andthen_l r g x : In x (outs_of r) -> In x (outs_of (andthen r g)).
Proof.
  intros H. destruct r as [[s o] [|c]]; cbn [andthen outs_of fst snd] in *; [|exact H].
  destruct (g s) as [[s' o'] res]. cbn [fst snd]. apply in_or_app. left. exact H.
Qed.

Lemma outs_finish_r_l r a b x : In x (outs_of r) -> In x (snd (finish_r r a b)).
Proof.
  intros H. destruct r as [[s o] [|c]]; cbn [finish_r outs_of fst snd] in *; [exact H|].
  destruct (begin_end s c a b) as [s' o']. cbn [snd]. apply in_or_app. left. exact H.
Qed.

(* C08: every excluded step is rejected (clause 3) *)
Lemma c08_excluded_rejected cfg s ev : c08_excluded cfg s ev = true ->
  In 3 (chk_C08 cfg s ev (obs_of_outs (snd (gw_step cfg s ev)))).
Proof.
  intros Hex. unfold c08_excluded in Hex.
  apply andb_true_iff in Hex as [Hex Hb]. apply andb_true_iff in Hex as [Hrun Hst].
  apply cstate_eqb_eq in Hst. destruct (running_true s Hrun) as [Hended Hending].
  destruct (ev_packet ev) as [[]|] eqn:Hop; try discriminate Hb.
  destruct (get_connect s) as [[[g mq] []]|] eqn:Hg; try discriminate Hb.
  apply negb_true_iff in Hb.
  unfold chk_C08. rewrite Hrun, Hop, Hg, Hb. cbn [negb]. apply in_or_app. right.
  apply ev_packet_Some in Hop. destruct Hop as [dg [-> Hr]].
  rewrite (gw_step_sn cfg s dg _ Hended Hending Hr). rewrite sn_pkts_obs.
  assert (E : out_sns (snd (finish_r (handle_sn cfg (s <| gw_last_sn := gw_now s |>) (Auth reason method data)) true false)) = []).
  { unfold handle_sn. rewrite auth_legal. cbn [negb].
    change (get_connect (s <| gw_last_sn := gw_now s |>)) with (get_connect s). rewrite Hg.
    unfold connect_auth. cbn [cx_state_eqb negb]. rewrite Hb. unfold sn_send, sn_send_owned.
    change (gw_st (s <| gw_last_sn := gw_now s |>)) with (gw_st s). rewrite Hst.
    cbn [andthen ok stop finish_r]. unfold begin_end.
    match goal with |- context [gw_st (finish_obj ?s0 g)] =>
      assert (Hf : gw_st (finish_obj s0 g) = Asleep)
        by (unfold finish_obj; destruct (gw_objs s0 !! g) as [[]|]; fin_by_id g; cbn; exact Hst) end.
    rewrite Hf. reflexivity. }
  rewrite E. left. reflexivity.
Qed.

(* C09: every excluded step is rejected (clause 1 or clause 2) *)
Lemma c09_excluded_rejected cfg s ev : c09_excluded cfg s ev = true ->
  chk_C09 cfg s ev (obs_of_outs (snd (gw_step cfg s ev))) <> [].
Proof.
  intros Hex. unfold c09_excluded in Hex.
  apply andb_true_iff in Hex as [Hex Hb]. apply andb_true_iff in Hex as [Hrun Hst].
  apply cstate_eqb_eq in Hst. destruct (running_true s Hrun) as [Hended Hending].
  destruct (ev_packet ev) as [[]|] eqn:Hop; try discriminate Hb.
  apply existsb_exists in Hb. destruct Hb as [q [Hq Hw]].
  assert (Hin : In q (out_sns (snd (gw_step cfg s ev))) /\ wf_pkt q = true).
  { apply ev_packet_Some in Hop. destruct Hop as [dg [-> Hr]].
    rewrite (gw_step_sn cfg s dg _ Hended Hending Hr).
    assert (Hwf : wf_pkt q = true) by (destruct q; try discriminate Hw; reflexivity).
    split; [|exact Hwf].
    eapply in_out_sns_intro; [|apply read_pack_roundtrip, Hwf].
    apply outs_finish_r_l. unfold handle_sn.
    assert (Hl : packet_legal cfg (s <| gw_last_sn := gw_now s |>) (Pingreq cid) = true)
      by (unfold packet_legal; change (gw_st (s <| gw_last_sn := gw_now s |>)) with (gw_st s); rewrite Hst; reflexivity).
    rewrite Hl. cbn [negb].
    change (gw_st (s <| gw_last_sn := gw_now s |>)) with (gw_st s). rewrite Hst. cbn [cstate_eqb]. cbv zeta.
    apply outs_andthen_l.
    apply (send_all_flushed _ q (s <| gw_last_sn := gw_now s |> <| gw_st := Awake |>)); [cbn; discriminate|exact Hq]. }
  destruct Hin as [Hin _].
  unfold chk_C09. rewrite Hrun, Hop. cbn [negb]. cbv zeta. rewrite sn_pkts_obs.
  destruct q; try discriminate Hw.
  - (* WillTopicReq *)
    destruct (none_of (out_sns (snd (gw_step cfg s ev))) is_willtopicreq) eqn:En.
    + exfalso. unfold none_of in En.
      assert (Hf : In WillTopicReq (List.filter is_willtopicreq (out_sns (snd (gw_step cfg s ev)))))
        by (apply filter_In; split; [exact Hin|reflexivity]).
      destruct (List.filter is_willtopicreq (out_sns (snd (gw_step cfg s ev)))); [destruct Hf|discriminate En].
    + intros E. apply app_eq_nil in E. destruct E as [E _]. discriminate E.
  - (* WillMsgReq *)
    destruct (none_of (out_sns (snd (gw_step cfg s ev))) is_willmsgreq) eqn:En.
    + exfalso. unfold none_of in En.
      assert (Hf : In WillMsgReq (List.filter is_willmsgreq (out_sns (snd (gw_step cfg s ev)))))
        by (apply filter_In; split; [exact Hin|reflexivity]).
      destruct (List.filter is_willmsgreq (out_sns (snd (gw_step cfg s ev)))); [destruct Hf|discriminate En].
    + intros E. apply app_eq_nil in E. destruct E as [_ E]. apply app_eq_nil in E. destruct E as [E _]. discriminate E.
Qed.

(* ================================================================== counterexamples to the unconditional statements *)

Definition cx9_cfg (auth : bool) : gw_cfg :=
  {| auth_enabled := auth; cfg_user := None; cfg_pass := None; retry_delay := 1000; retry_count := 3;
     predefined := []; min_tid := 1; max_tid := 65534 |}.

Lemma cx9_cfg_wf auth : wf_cfg (cx9_cfg auth).
Proof. unfold wf_cfg. cbn. repeat split; try reflexivity. constructor. Qed.

Lemma cx9_sn_wf p : wf_bytesb (pack p) = true -> (len (pack p) <=? 100) = true -> wf_event (EvSn (pack p)).
Proof.
  intros H1 H2. split; [apply wf_bytesb_spec; exact H1|].
  apply N.leb_le in H2. unfold len in H2. unfold MaxPacketLen. lia.
Qed.

Ltac cx9_wf :=
  repeat (apply Forall_cons; [first [exact I | reflexivity | (apply cx9_sn_wf; vm_compute; reflexivity)]|]); apply Forall_nil.

Definition cx9_cid : bytes := [99].                       (* "c" *)
Definition cx9_plain : bytes := [0; 117; 0; 112].         (* "\0u\0p" *)
Definition cx9_last (cfg : gw_cfg) (chk : gw_cfg -> gw_state -> gw_event -> list obs -> list N)
                    (h : list gw_event) (ev : gw_event) : list N * list packet :=
  let s := snd (gw_run cfg (init_state cfg) h) in
  (chk cfg s ev (obs_of_outs (snd (gw_step cfg s ev))), sn_pkts (obs_of_outs (snd (gw_step cfg s ev)))).

(* C08, clause 3 (authentication enabled).  The client connects and authenticates, the broker accepts;
   the client sends a second CONNECT (a new exchange, awaiting AUTH), goes to sleep with DISCONNECT(10),
   and then sends an AUTH with the unknown method "X": the CONNACK "not supported" is queued in the
   sleep buffer, the exchange fails and the session ends; nothing is written in this step. *)
Definition cx8_hist : list gw_event :=
  [EvSn (pack (Connect false true 1 60 cx9_cid)); EvSn (pack (Auth 0 AUTH_PLAIN cx9_plain)); EvMq (MqConnack false 0);
   EvSn (pack (Connect false true 1 60 cx9_cid)); EvSn (pack (Disconnect 10))].
Definition cx8_ev : gw_event := EvSn (pack (Auth 0 [88] cx9_plain)).

Example chk_C08_counterexample :
  wf_cfg (cx9_cfg true) /\ Forall wf_event (cx8_hist ++ [cx8_ev]) /\
  cx9_last (cx9_cfg true) chk_C08 cx8_hist cx8_ev = ([3], []) /\
  c08_excluded (cx9_cfg true) (snd (gw_run (cx9_cfg true) (init_state (cx9_cfg true)) cx8_hist)) cx8_ev = true.
Proof.
  split; [apply cx9_cfg_wf|]. split; [unfold cx8_hist, cx8_ev; cbn [app]; cx9_wf|].
  split; vm_compute; reflexivity.
Qed.

Lemma forall_app_wf (a b : list gw_event) : Forall wf_event (a ++ b) -> Forall wf_event a /\ Forall wf_event b.
Proof. intros H. apply Forall_app in H. exact H. Qed.

Theorem chk_C08_sound_false :
  ~ (forall cfg s ev, wf_cfg cfg -> reach cfg s -> wf_event ev ->
       chk_C08 cfg s ev (obs_of_outs (snd (gw_step cfg s ev))) = []).
Proof.
  intros Hall. destruct chk_C08_counterexample as (Hc & Hw & Hchk & _).
  apply forall_app_wf in Hw. destruct Hw as [Hh Hev]. inversion Hev as [|? ? Hev1 _]; subst.
  specialize (Hall (cx9_cfg true) _ cx8_ev Hc (reach_run _ _ Hh _ (reach_init _)) Hev1).
  unfold cx9_last in Hchk. cbv zeta in Hchk. rewrite Hall in Hchk. discriminate Hchk.
Qed.

(* C09, clause 1 (authentication enabled).  As above, but the second CONNECT has the Will flag and the
   AUTH sent while asleep is a good PLAIN AUTH: the WILLTOPICREQ is queued in the sleep buffer and is
   written, followed by PINGRESP, in the step that handles the next PINGREQ. *)
Definition cx9_hist1 : list gw_event :=
  [EvSn (pack (Connect false true 1 60 cx9_cid)); EvSn (pack (Auth 0 AUTH_PLAIN cx9_plain)); EvMq (MqConnack false 0);
   EvSn (pack (Connect true true 1 60 cx9_cid)); EvSn (pack (Disconnect 10)); EvSn (pack (Auth 0 AUTH_PLAIN cx9_plain))].
Definition cx9_ev : gw_event := EvSn (pack (Pingreq cx9_cid)).

Example chk_C09_counterexample_willtopicreq :
  wf_cfg (cx9_cfg true) /\ Forall wf_event (cx9_hist1 ++ [cx9_ev]) /\
  cx9_last (cx9_cfg true) chk_C09 cx9_hist1 cx9_ev = ([1], [WillTopicReq; Pingresp]) /\
  c09_excluded (cx9_cfg true) (snd (gw_run (cx9_cfg true) (init_state (cx9_cfg true)) cx9_hist1)) cx9_ev = true.
Proof.
  split; [apply cx9_cfg_wf|]. split; [unfold cx9_hist1, cx9_ev; cbn [app]; cx9_wf|].
  split; vm_compute; reflexivity.
Qed.

(* C09, clause 2 (no authentication).  The client connects, the broker accepts; the client sends a second
   CONNECT with the Will flag (WILLTOPICREQ is written at once), goes to sleep with DISCONNECT(10) and
   sends its WILLTOPIC while asleep: the WILLMSGREQ is queued and written on the next PINGREQ. *)
Definition cx9_hist2 : list gw_event :=
  [EvSn (pack (Connect false true 1 60 cx9_cid)); EvMq (MqConnack false 0);
   EvSn (pack (Connect true true 1 60 cx9_cid)); EvSn (pack (Disconnect 10)); EvSn (pack (WillTopic 1 false [116]))].

Example chk_C09_counterexample_willmsgreq :
  wf_cfg (cx9_cfg false) /\ Forall wf_event (cx9_hist2 ++ [cx9_ev]) /\
  cx9_last (cx9_cfg false) chk_C09 cx9_hist2 cx9_ev = ([2], [WillMsgReq; Pingresp]) /\
  c09_excluded (cx9_cfg false) (snd (gw_run (cx9_cfg false) (init_state (cx9_cfg false)) cx9_hist2)) cx9_ev = true.
Proof.
  split; [apply cx9_cfg_wf|]. split; [unfold cx9_hist2, cx9_ev; cbn [app]; cx9_wf|].
  split; vm_compute; reflexivity.
Qed.

Theorem chk_C09_sound_false :
  ~ (forall cfg s ev, wf_cfg cfg -> reach cfg s -> wf_event ev ->
       chk_C09 cfg s ev (obs_of_outs (snd (gw_step cfg s ev))) = []).
Proof.
  intros Hall. destruct chk_C09_counterexample_willmsgreq as (Hc & Hw & Hchk & _).
  apply forall_app_wf in Hw. destruct Hw as [Hh Hev]. inversion Hev as [|? ? Hev1 _]; subst.
  specialize (Hall (cx9_cfg false) _ cx9_ev Hc (reach_run _ _ Hh _ (reach_init _)) Hev1).
  unfold cx9_last in Hchk. cbv zeta in Hchk. rewrite Hall in Hchk. discriminate Hchk.
Qed.

(* the same steps are fine for the other checkers, and an ordinary exchange passes all three *)
Example chk_C07_C08_C09_exchange_ok :
  cx9_last (cx9_cfg true) chk_C07 cx8_hist cx8_ev = ([], []) /\
  cx9_last (cx9_cfg true) chk_C09 cx8_hist cx8_ev = ([], []) /\
  cx9_last (cx9_cfg true) chk_C08 cx9_hist1 cx9_ev = ([], [WillTopicReq; Pingresp]) /\
  cx9_last (cx9_cfg false) chk_C09 [EvSn (pack (Connect true true 1 60 cx9_cid))] (EvSn (pack (WillTopic 1 false [116])))
    = ([], [WillMsgReq]) /\
  cx9_last (cx9_cfg true) chk_C08 [EvSn (pack (Connect false true 1 60 cx9_cid))] cx8_ev = ([], [Connack 3]).
Proof. vm_compute. repeat split; reflexivity. Qed.

(* ================================================================== every history *)

Theorem chk_C07_all_histories : forall cfg evs, wf_cfg cfg -> Forall wf_event evs ->
  run_all cfg (fun s ev => chk_C07 cfg s ev (obs_of_outs (snd (gw_step cfg s ev))) = []) (init_state cfg) evs.
Proof.
  intros cfg evs Hc Hw.
  apply (run_all_lift cfg (fun _ _ => True)); [|apply reach_init|exact Hw|apply run_all_true].
  intros s ev Hr Hev _. apply chk_C07_sound; assumption.
Qed.

Theorem chk_C08_all_histories : forall cfg evs, wf_cfg cfg -> Forall wf_event evs ->
  run_all cfg (fun s ev => c08_excluded cfg s ev = false) (init_state cfg) evs ->
  run_all cfg (fun s ev => chk_C08 cfg s ev (obs_of_outs (snd (gw_step cfg s ev))) = []) (init_state cfg) evs.
Proof.
  intros cfg evs Hc Hw Hex.
  apply (run_all_lift cfg (fun s ev => c08_excluded cfg s ev = false)); [|apply reach_init|exact Hw|exact Hex].
  intros s ev Hr Hev Hx. apply chk_C08_sound_partial; assumption.
Qed.

Theorem chk_C09_all_histories : forall cfg evs, wf_cfg cfg -> Forall wf_event evs ->
  run_all cfg (fun s ev => c09_excluded cfg s ev = false) (init_state cfg) evs ->
  run_all cfg (fun s ev => chk_C09 cfg s ev (obs_of_outs (snd (gw_step cfg s ev))) = []) (init_state cfg) evs.
Proof.
  intros cfg evs Hc Hw Hex.
  apply (run_all_lift cfg (fun s ev => c09_excluded cfg s ev = false)); [|apply reach_init|exact Hw|exact Hex].
  intros s ev Hr Hev Hx. apply chk_C09_sound_partial; assumption.
Qed.

Print Assumptions chk_C07_sound.
Print Assumptions chk_C08_sound_partial.
Print Assumptions chk_C09_sound_partial.
Print Assumptions chk_C07_all_histories.
Print Assumptions chk_C08_all_histories.
Print Assumptions chk_C09_all_histories.
Print Assumptions chk_C08_sound_false.
Print Assumptions chk_C09_sound_false.
Print Assumptions c08_excluded_rejected.
Print Assumptions c09_excluded_rejected.
