(* Gateway/Sound_C07C08C09.v — the gateway model's own outputs are accepted by the per-step
   checkers of the connect exchange: C07 (admission), C08 (authentication), C09 (will protocol).

   chk_C07_sound is proved as stated.  chk_C08_sound and chk_C09_sound are FALSE as stated (the
   sleep buffer: see the counterexamples before chk_C08_sound_partial / chk_C09_sound_partial);
   they are proved under the executable side conditions c08_excluded / c09_excluded = false. *)
From stdpp Require Import base option list numbers fin_maps nmap.
From Coq Require Import Lia ZArith ZifyN ZifyNat ZifyBool.
From RecordUpdate Require Import RecordSet.
From Verif.Base Require Import Bytes BytesProofs.
From Verif.Codec Require Import Packets Decode Encode EncodeProofs.
From Verif.Topics Require Import Predefined.
From Verif.Gateway Require Import GwTypes GwStep GwStepProofs GwWf Sound_C07C08C09_aux.
From Verif.Checkers Require Import ChkCodec ChkGw ChkGw2.
Import RecordSetNotations.
Open Scope N_scope.
Ltac Zify.zify_post_hook ::= Z.div_mod_to_equations.

(* ================================================================== the invariant *)

Definition is_ping (k : timer_kind) : bool := match k with TmPing _ => true | _ => false end.
Definition noping (t : timer) : Prop := is_ping (tm_kind t) = false.

(* the packets a broker-publish transaction re-sends to the client *)
Definition bp_type (p : packet) : bool :=
  match p with Register _ _ _ | Publish _ _ _ _ _ _ _ | Pubrel _ => true | _ => false end.

Definition ok_data (acc : bool) (d : resend_data) : Prop :=
  match d with RsSn p => bp_type p = true | RsAck _ _ => acc = true end.
Definition ok_snpub (sp : option packet) : Prop :=
  match sp with Some p => bp_type p = true | None => True end.
Definition ok_txn (acc : bool) (t : txn) : Prop :=
  match t with TxBrokerPub _ _ _ d sp _ => ok_data acc d /\ ok_snpub sp | _ => True end.

Definition cfg_uflag (cfg : gw_cfg) : bool := match cfg_user cfg with Some _ => true | None => false end.
Definition cfg_uval (cfg : gw_cfg) : bytes := match cfg_user cfg with Some u => u | None => [] end.
Definition cfg_pflag (cfg : gw_cfg) : bool := match cfg_pass cfg with Some _ => true | None => false end.
Definition cfg_pval (cfg : gw_cfg) : bytes := match cfg_pass cfg with Some p => p | None => [] end.

(* the stored MQTT CONNECT of the exchange, per step of the exchange *)
Definition Cx (cfg : gw_cfg) (seen : option (bytes * bytes)) (mq : mq_connect) (a : cx_state) : Prop :=
  (a = CxAuth -> auth_enabled cfg = true) /\
  (auth_enabled cfg = false ->
   c_uflag mq = cfg_uflag cfg /\ c_user mq = cfg_uval cfg /\ c_pflag mq = cfg_pflag cfg /\ c_pass mq = cfg_pval cfg) /\
  (auth_enabled cfg = true -> a <> CxAuth ->
   exists u p, seen = Some (u, p) /\ c_uflag mq = true /\ c_user mq = u /\ c_pflag mq = true /\ c_pass mq = p) /\
  (a = CxWillTopic \/ a = CxWillMsg -> c_will mq = true).

Definition IA (acc : bool) (st : cstate) : Prop := acc = true \/ st = Disconnected.
Definition IT (acc : bool) (tms : list timer) : Prop := acc = true \/ Forall noping tms.
Definition IO (acc : bool) (objs : Nmap txn) : Prop := forall g t, objs !! g = Some t -> ok_txn acc t.
Definition IC (cfg : gw_cfg) (con : option N) (objs : Nmap txn) (seen : option (bytes * bytes)) : Prop :=
  forall g mq a, con = Some g -> objs !! g = Some (TxConnect mq a) -> Cx cfg seen mq a.

Definition Inv (cfg : gw_cfg) (s : gw_state) : Prop :=
  IA (gw_accepted s) (gw_st s) /\ IT (gw_accepted s) (gw_timers s) /\ IO (gw_accepted s) (gw_objs s) /\
  IC cfg (gw_connect s) (gw_objs s) (gw_auth_seen s).

Arguments IA : simpl never.
Arguments IT : simpl never.
Arguments IO : simpl never.
Arguments IC : simpl never.

Lemma IA_true st : IA true st.  Proof. left. reflexivity. Qed.
Lemma IA_disc acc : IA acc Disconnected.  Proof. right. reflexivity. Qed.
Lemma IT_true l : IT true l.  Proof. left. reflexivity. Qed.
Lemma IT_nil acc : IT acc [].  Proof. right. constructor. Qed.
Lemma IT_app acc a b : IT acc a -> IT acc b -> IT acc (a ++ b).
Proof. intros [Ha|Ha] [Hb|Hb]; try (left; assumption). right. apply Forall_app. split; assumption. Qed.
Lemma Forall_List_filter {A} (P : A -> Prop) (f : A -> bool) l : Forall P l -> Forall P (List.filter f l).
Proof. induction 1 as [|x l Hx Hl IH]; cbn; [constructor|]. destruct (f x); [constructor|]; assumption. Qed.
Lemma IT_filter acc f l : IT acc l -> IT acc (List.filter f l).
Proof. intros [H|H]; [left; exact H|right; apply Forall_List_filter, H]. Qed.
Lemma IT_one acc a b k : is_ping k = false -> IT acc [{| tm_at := a; tm_seq := b; tm_kind := k |}].
Proof. intros H. right. constructor; [exact H|constructor]. Qed.
Lemma IT_one_acc a b k : IT true [{| tm_at := a; tm_seq := b; tm_kind := k |}].
Proof. left. reflexivity. Qed.

Lemma ok_txn_mono acc t : ok_txn acc t -> ok_txn true t.
Proof. destruct t as [| | |mid q st d sp n]; cbn; auto. intros [Hd Hs]. split; [|exact Hs]. destruct d; cbn in *; auto. Qed.
Lemma IO_mono acc m : IO acc m -> IO true m.
Proof. intros H g t Hl. eapply ok_txn_mono, H, Hl. Qed.
Lemma IO_insert acc m g t : ok_txn acc t -> IO acc m -> IO acc (<[g:=t]> m).
Proof.
  intros Ht H g' t' Hl. destruct (decide (g = g')) as [->|Hne].
  - rewrite lookup_insert in Hl. injection Hl as <-. exact Ht.
  - rewrite lookup_insert_ne in Hl by exact Hne. eapply H, Hl.
Qed.
Lemma IO_delete acc m g : IO acc m -> IO acc (delete g m).
Proof. intros H g' t' Hl. apply lookup_delete_Some in Hl. destruct Hl as [_ Hl]. eapply H, Hl. Qed.

Definition not_conn (t : txn) : Prop := match t with TxConnect _ _ => False | _ => True end.

Lemma IC_none cfg m seen : IC cfg None m seen.
Proof. intros g mq a H. discriminate. Qed.
Lemma IC_insert_nc cfg con m seen g t : not_conn t -> IC cfg con m seen -> IC cfg con (<[g:=t]> m) seen.
Proof.
  intros Ht H g' mq a Hc Hl. destruct (decide (g = g')) as [->|Hne].
  - rewrite lookup_insert in Hl. injection Hl as ->. destruct Ht.
  - rewrite lookup_insert_ne in Hl by exact Hne. eapply H; eassumption.
Qed.
Lemma IC_delete cfg con m seen g : IC cfg con m seen -> IC cfg con (delete g m) seen.
Proof. intros H g' mq a Hc Hl. apply lookup_delete_Some in Hl. destruct Hl as [_ Hl]. eapply H; eassumption. Qed.
Lemma IC_insert_conn cfg m seen g mq a : Cx cfg seen mq a -> IC cfg (Some g) (<[g:=TxConnect mq a]> m) seen.
Proof. intros HC g' mq' a' Hc Hl. injection Hc as <-. rewrite lookup_insert in Hl. injection Hl as <- <-. exact HC. Qed.

Create HintDb inv.
#[local] Hint Resolve IA_true IA_disc IT_true IT_nil IT_app IT_filter IT_one IT_one_acc IO_mono IO_insert IO_delete
  IC_none IC_insert_nc IC_delete IC_insert_conn : inv.
#[local] Hint Extern 1 (not_conn _) => exact I : inv.
#[local] Hint Extern 1 (ok_txn _ _) => exact I : inv.
#[local] Hint Extern 1 (is_ping _ = false) => reflexivity : inv.

(* solve Inv of a state written as record updates of a state satisfying Inv *)
Ltac inv_split :=
  repeat match goal with H : Inv _ _ |- _ => destruct H as [?HA [?HT [?HO ?HC]]] end.
Ltac inv_leaf := inv_split; unfold Inv; cbn; (split; [|split; [|split]]); eauto 8 with inv.

Lemma Inv_init cfg : Inv cfg (init_state cfg).
Proof.
  unfold Inv. cbn. (split; [|split; [|split]]); eauto with inv.
  intros g0 t0 Hl. rewrite lookup_empty in Hl. discriminate.
Qed.

(* primitives that do not touch the fields the invariant reads *)
Record same_view (s s' : gw_state) : Prop := {
  sv_acc : gw_accepted s' = gw_accepted s; sv_st : gw_st s' = gw_st s; sv_tm : gw_timers s' = gw_timers s;
  sv_ob : gw_objs s' = gw_objs s; sv_con : gw_connect s' = gw_connect s; sv_seen : gw_auth_seen s' = gw_auth_seen s;
  sv_buf : gw_buffer s' = gw_buffer s; sv_now : gw_now s' = gw_now s; sv_byid : gw_by_id s' = gw_by_id s;
  sv_end : gw_ending s' = gw_ending s; sv_ended : gw_ended s' = gw_ended s }.

Lemma same_view_refl s : same_view s s.
Proof. constructor; reflexivity. Qed.
Lemma same_view_trans s1 s2 s3 : same_view s1 s2 -> same_view s2 s3 -> same_view s1 s3.
Proof. intros [] []. constructor; congruence. Qed.

Lemma Inv_view cfg s s' : same_view s s' -> Inv cfg s -> Inv cfg s'.
Proof. intros [] H. unfold Inv in *. congruence. Qed.

Lemma seq_next_view cfg s : same_view s (fst (fst (seq_next cfg s))).
Proof. unfold seq_next. destruct (gw_seq_next s =? max_tid cfg); constructor; reflexivity. Qed.

Lemma skip_predefined_view fuel cfg : forall s id, same_view s (fst (skip_predefined fuel cfg s id)).
Proof.
  induction fuel as [|fuel IH]; intros s id; cbn [skip_predefined];
    destruct (get_name (predefined cfg) (gw_client_id s) id); try apply same_view_refl.
  - constructor; reflexivity.
  - pose proof (seq_next_view cfg s) as Hs. destruct (seq_next cfg s) as [[s' id'] ov]. cbn [fst] in Hs.
    destruct ov.
    + eapply same_view_trans; [exact Hs|]. constructor; reflexivity.
    + eapply same_view_trans; [exact Hs|apply IH].
Qed.

Lemma new_topic_id_view cfg s : same_view s (fst (new_topic_id cfg s)).
Proof.
  unfold new_topic_id. destruct (gw_no_more_tids s); [apply same_view_refl|].
  pose proof (seq_next_view cfg s) as Hs. destruct (seq_next cfg s) as [[s' id'] ov]. cbn [fst] in Hs.
  destruct ov.
  - eapply same_view_trans; [exact Hs|]. constructor; reflexivity.
  - eapply same_view_trans; [exact Hs|apply skip_predefined_view].
Qed.

Lemma register_topic_view cfg s name : same_view s (fst (register_topic cfg s name)).
Proof.
  unfold register_topic. destruct (find_registered s name); [apply same_view_refl|].
  pose proof (new_topic_id_view cfg s) as Hs. destruct (new_topic_id cfg s) as [s' [i|]]; cbn [fst] in *; [|exact Hs].
  eapply same_view_trans; [exact Hs|]. constructor; reflexivity.
Qed.

(* ------------------------------------------------------------------ preservation, handler by handler *)

#[local] Hint Extern 2 (ok_txn _ (TxBrokerPub _ _ _ _ _ _)) => (split; assumption) : inv.

Lemma Inv_sn_send_owned cfg s o p : Inv cfg s -> Inv cfg (st_of (sn_send_owned s o p)).
Proof.
  intros H. unfold sn_send_owned.
  destruct (gw_st s); try destruct (len (pack p) <=? MaxPacketLen); cbn [st_of ok stop fst]; try exact H; inv_leaf.
Qed.

Lemma Inv_andthen cfg r g :
  Inv cfg (st_of r) -> (forall s1, Inv cfg s1 -> Inv cfg (st_of (g s1))) -> Inv cfg (st_of (andthen r g)).
Proof.
  intros Hr Hg. destruct r as [[s o] [|c]]; cbn [andthen st_of fst] in *; [|exact Hr].
  specialize (Hg s Hr). destruct (g s) as [[s' o'] res]. exact Hg.
Qed.

Lemma Inv_send_all cfg ps : forall s, Inv cfg s -> Inv cfg (st_of (send_all s ps)).
Proof.
  induction ps as [|[o p] ps IH]; intros s H; cbn [send_all]; [exact H|].
  apply Inv_andthen; [apply Inv_sn_send_owned, H|intros s1 H1; apply IH, H1].
Qed.

Lemma Inv_finish_obj cfg s g : Inv cfg s -> Inv cfg (finish_obj s g).
Proof. intros H. unfold finish_obj. destruct (gw_objs s !! g) as [t|]; [|exact H]. destruct t; inv_leaf. Qed.

Ltac inv_walk :=
  repeat first
    [ assumption
    | apply Inv_andthen; [|intros ? ?]
    | apply Inv_sn_send_owned
    | apply Inv_send_all
    | apply Inv_finish_obj
    | match goal with |- Inv _ (st_of (match ?x with _ => _ end)) => destruct x eqn:? end
    | match goal with |- Inv _ (st_of (if ?x then _ else _)) => destruct x eqn:? end
    | progress cbn [st_of ok stop mq_send sn_send fst snd] ].

Lemma Inv_bp_proceed cfg s g mid qos st data snpub :
  Inv cfg s -> ok_data (gw_accepted s) data -> ok_snpub snpub ->
  Inv cfg (st_of (bp_proceed cfg s g mid qos st data snpub)).
Proof.
  intros H Hd Hs. unfold bp_proceed. cbv zeta.
  set (s1 := arm _ _ _).
  assert (H1 : Inv cfg s1) by (subst s1; inv_leaf).
  clearbody s1. destruct data; destruct st; inv_walk.
Qed.

Lemma ok_txn_bp acc mid q st d sp n : ok_txn acc (TxBrokerPub mid q st d sp n) -> ok_data acc d /\ ok_snpub sp.
Proof. intros H. exact H. Qed.

Lemma get_by_id_Some s mid g t : get_by_id s mid = Some (g, t) -> gw_objs s !! g = Some t.
Proof.
  unfold get_by_id. destruct (gw_by_id s !! mid) as [g'|]; [|discriminate].
  destruct (gw_objs s !! g') as [t'|] eqn:E; [|discriminate]. intros H. injection H as <- <-. exact E.
Qed.

Lemma get_connect_Some s g mq a : get_connect s = Some (g, mq, a) ->
  gw_connect s = Some g /\ gw_objs s !! g = Some (TxConnect mq a).
Proof.
  unfold get_connect. destruct (gw_connect s) as [g'|]; [|discriminate].
  destruct (gw_objs s !! g') as [[mq' a'| | |]|] eqn:E; try discriminate. intros H. injection H as <- <- <-. auto.
Qed.

Lemma Inv_ok_by_id cfg s mid g t : Inv cfg s -> get_by_id s mid = Some (g, t) -> ok_txn (gw_accepted s) t.
Proof. intros [_ [_ [HO _]]] H. eapply HO, get_by_id_Some, H. Qed.

Lemma Inv_bp_regack cfg s g t rc : Inv cfg s -> ok_txn (gw_accepted s) t -> Inv cfg (st_of (bp_regack cfg s g t rc)).
Proof.
  intros H Ht. unfold bp_regack.
  destruct t as [| | |mid qos st d sp n]; try exact H.
  destruct st; try exact H. destruct d as [p|]; try exact H. destruct p; try exact H. destruct sp as [pub|]; try exact H.
  destruct Ht as [_ Hs]. cbn in Hs.
  destruct (negb (rc =? RC_ACCEPTED)); [inv_walk|].
  cbv zeta. apply Inv_bp_proceed; [inv_leaf|exact Hs|exact Hs].
Qed.

Lemma Inv_handle_client_publish cfg s dup qos retain tit tid mid data :
  Inv cfg s -> Inv cfg (st_of (handle_client_publish cfg s dup qos retain tit tid mid data)).
Proof.
  intros H. unfold handle_client_publish, new_obj. cbv beta iota zeta. destruct (qos =? 1); inv_walk; inv_leaf.
Qed.

Lemma Inv_handle_subscribe cfg s dup qos tit mid tid name :
  Inv cfg s -> Inv cfg (st_of (handle_subscribe cfg s dup qos tit mid tid name)).
Proof.
  intros H. unfold handle_subscribe, new_obj. cbv beta iota zeta.
  destruct ((2 <? qos) || (mid =? 0)); [exact H|].
  destruct (tit =? TIT_STRING).
  - destruct (negb (has_wildcard name)); [|inv_walk; inv_leaf].
    pose proof (new_topic_id_view cfg s) as Hv. destruct (new_topic_id cfg s) as [s1 [i|]]; cbn [fst] in Hv;
      apply (Inv_view cfg) in Hv; try exact H; inv_walk; inv_leaf.
  - inv_walk; inv_leaf.
Qed.

Lemma Inv_handle_unsubscribe cfg s tit mid tid name :
  Inv cfg s -> Inv cfg (st_of (handle_unsubscribe cfg s tit mid tid name)).
Proof. intros H. unfold handle_unsubscribe. inv_walk. Qed.

(* --- the connect exchange *)
Definition Inv3 (s : gw_state) : Prop :=
  IA (gw_accepted s) (gw_st s) /\ IT (gw_accepted s) (gw_timers s) /\ IO (gw_accepted s) (gw_objs s).

Lemma Inv_Inv3 cfg s : Inv cfg s -> Inv3 s.
Proof. intros [HA [HT [HO _]]]. repeat split; assumption. Qed.

Lemma Inv3_finish_obj s g : Inv3 s -> Inv3 (finish_obj s g).
Proof.
  intros [HA [HT HO]]. unfold finish_obj. destruct (gw_objs s !! g) as [t|]; [|repeat split; assumption].
  destruct t; unfold Inv3; cbn; (split; [|split]); eauto with inv.
Qed.

Lemma Inv_set_conn cfg s g mq a :
  Inv3 s -> gw_connect s = Some g -> Cx cfg (gw_auth_seen s) mq a -> Inv cfg (set_obj s g (TxConnect mq a)).
Proof.
  intros [HA [HT HO]] Hg HC. unfold Inv, set_obj. cbn. rewrite Hg. (split; [|split; [|split]]); eauto with inv.
Qed.

Lemma Inv_connect_auth_done cfg s g mq :
  Inv3 s -> gw_connect s = Some g ->
  Cx cfg (gw_auth_seen s) mq (if c_will mq then CxWillTopic else CxConnack) ->
  Inv cfg (st_of (connect_auth_done s g mq)).
Proof.
  intros H3 Hg HC. unfold connect_auth_done. destruct (c_will mq).
  - cbn [sn_send]. apply Inv_sn_send_owned, Inv_set_conn; assumption.
  - cbn [mq_send st_of ok fst]. apply Inv_set_conn; assumption.
Qed.

Lemma Inv_handle_connect cfg s will clean proto dur cid :
  Inv cfg s -> Inv cfg (st_of (handle_connect cfg s will clean proto dur cid)).
Proof.
  intros H. unfold handle_connect.
  destruct (negb (proto =? 1)); [inv_walk|].
  destruct (cstate_eqb (gw_st s) Awake || cstate_eqb (gw_st s) Asleep) eqn:Hst.
  - cbn [sn_send]. apply Inv_sn_send_owned.
    assert (Hacc : gw_accepted s = true).
    { destruct H as [[Ha|Hd] _]; [exact Ha|]. rewrite Hd in Hst. discriminate. }
    inv_split. unfold Inv. cbn. rewrite Hacc in *. (split; [|split; [|split]]); eauto with inv.
  - destruct (dur =? 0); [inv_walk|]. cbv zeta. unfold new_obj. cbv beta iota.
    match goal with |- context [match gw_connect ?s0 with Some g => finish_obj ?s0' g | None => ?s0'' end] =>
      set (s1 := match gw_connect s0 with Some g => finish_obj s0' g | None => s0'' end) end.
    assert (H1 : Inv3 s1).
    { subst s1. cbn [gw_connect]. 
      assert (H0 : Inv3 (s <| gw_keepalive := dur |> <| gw_client_id := cid |> <| gw_auth_seen := None |>)).
      { inv_split. unfold Inv3. cbn. repeat split; assumption. }
      cbn. destruct (gw_connect s); [apply Inv3_finish_obj|]; exact H0. }
    assert (Hseen : gw_auth_seen s1 = None).
    { subst s1. cbn. destruct (gw_connect s); [|reflexivity].
      unfold finish_obj. cbn. destruct (gw_objs s !! n) as [[]|]; reflexivity. }
    clearbody s1. destruct H1 as [HA [HT HO]].
    unfold connect_start. destruct (auth_enabled cfg) eqn:Hau.
    + cbn [st_of ok fst]. apply Inv_set_conn.
      * unfold Inv3. cbn. (split; [|split]); eauto with inv.
      * reflexivity.
      * unfold Cx. cbn. repeat split; intros; try congruence. destruct H0; discriminate.
    + apply Inv_connect_auth_done.
      * unfold Inv3. cbn. (split; [|split]); eauto with inv.
      * reflexivity.
      * unfold Cx. cbn. destruct will; repeat split; intros; try congruence; try discriminate.
        all: destruct H0; discriminate.
Qed.

Lemma Inv_cx cfg s g mq a : Inv cfg s -> get_connect s = Some (g, mq, a) -> Cx cfg (gw_auth_seen s) mq a.
Proof. intros [_ [_ [_ HC]]] Hg. apply get_connect_Some in Hg. destruct Hg as [Hc Hl]. eapply HC; eassumption. Qed.

Lemma Inv_connect_auth cfg s g mq a method data :
  Inv cfg s -> get_connect s = Some (g, mq, a) -> Inv cfg (st_of (connect_auth s g mq a method data)).
Proof.
  intros H Hg. unfold connect_auth.
  destruct (negb (cx_state_eqb a CxAuth)) eqn:Ha; [exact H|].
  assert (a = CxAuth) as -> by (destruct a; cbn in Ha; try discriminate; reflexivity).
  pose proof (Inv_cx _ _ _ _ _ H Hg) as [Hau _]. specialize (Hau eq_refl).
  destruct (beq method AUTH_PLAIN); [|inv_walk].
  destruct (decode_plain data) as [[u p]|]; [|inv_walk].
  apply Inv_connect_auth_done.
  - apply Inv_Inv3 in H. exact H.
  - cbn. apply get_connect_Some in Hg. apply Hg.
  - cbn. unfold Cx. destruct (c_will mq) eqn:Hw; cbn; repeat split; intros; try congruence; try discriminate; eauto 10.
    all: destruct H0; discriminate.
Qed.

Lemma Cx_update cfg seen mq a mq' a' :
  Cx cfg seen mq a -> a <> CxAuth -> a' <> CxAuth ->
  c_uflag mq' = c_uflag mq -> c_user mq' = c_user mq -> c_pflag mq' = c_pflag mq -> c_pass mq' = c_pass mq ->
  (a' = CxWillTopic \/ a' = CxWillMsg -> c_will mq' = true) ->
  Cx cfg seen mq' a'.
Proof.
  intros [H1 [H2 [H3 H4]]] Ha Ha' E1 E2 E3 E4 Hw. unfold Cx. rewrite E1, E2, E3, E4.
  split; [intros; contradiction|]. split; [exact H2|]. split; [|exact Hw].
  intros Hau _. apply H3; assumption.
Qed.

Definition disc_legal (p : packet) : bool :=
  match p with
  | Connect _ _ _ _ _ | Auth _ _ _ | WillMsg _ | WillTopic _ _ _ | Publish _ _ _ _ _ _ _ => true
  | Disconnect d => d =? 0
  | _ => false
  end.

Lemma nd_accepted cfg s : Inv cfg s -> gw_st s <> Disconnected -> gw_accepted s = true.
Proof. intros [[Ha|Hd] _] Hn; [exact Ha|contradiction]. Qed.

Lemma legal_cases cfg s p : Inv cfg s -> packet_legal cfg s p = true -> disc_legal p = true \/ gw_accepted s = true.
Proof.
  intros H Hl. unfold packet_legal in Hl. destruct (gw_st s) eqn:Hst.
  - left. destruct p; try discriminate Hl; try reflexivity. exact Hl.
  - right. eapply nd_accepted; [exact H|congruence].
  - right. eapply nd_accepted; [exact H|congruence].
  - right. eapply nd_accepted; [exact H|congruence].
Qed.

#[local] Hint Extern 1 (IT _ _) => (left; assumption) : inv.

Lemma Inv_handle_sn cfg s p : Inv cfg s -> Inv cfg (st_of (handle_sn cfg s p)).
Proof.
  intros H. unfold handle_sn.
  destruct (negb (packet_legal cfg s p)) eqn:Hl; [exact H|].
  apply negb_false_iff in Hl. pose proof (legal_cases _ _ _ H Hl) as Hacc.
  destruct p; try exact H.
  - (* Auth *) destruct (get_connect s) as [[[g mq] a]|] eqn:Hg; [|exact H]. apply Inv_connect_auth; assumption.
  - (* Connect *) apply Inv_handle_connect, H.
  - (* WillTopic *)
    destruct (get_connect s) as [[[g mq] a]|] eqn:Hg; [|exact H].
    destruct (negb (cx_state_eqb a CxWillTopic)) eqn:Ha; [exact H|].
    assert (a = CxWillTopic) as -> by (destruct a; cbn in Ha; try discriminate; reflexivity).
    destruct ((len topic =? 0) || (2 <? qos)); [inv_walk|].
    cbv zeta. cbn [sn_send]. apply Inv_sn_send_owned, Inv_set_conn.
    + apply Inv_Inv3 in H. exact H.
    + apply get_connect_Some in Hg. apply Hg.
    + pose proof (Inv_cx _ _ _ _ _ H Hg) as HC. eapply Cx_update; [exact HC|discriminate|discriminate|reflexivity..|].
      intros _. cbn. destruct HC as [_ [_ [_ HC]]]. apply HC. left. reflexivity.
  - (* WillMsg *)
    destruct (get_connect s) as [[[g mq] a]|] eqn:Hg; [|exact H].
    destruct (negb (cx_state_eqb a CxWillMsg)) eqn:Ha; [exact H|].
    assert (a = CxWillMsg) as -> by (destruct a; cbn in Ha; try discriminate; reflexivity).
    cbv zeta. cbn [mq_send st_of ok fst]. apply Inv_set_conn.
    + apply Inv_Inv3 in H. exact H.
    + apply get_connect_Some in Hg. apply Hg.
    + pose proof (Inv_cx _ _ _ _ _ H Hg) as HC. eapply Cx_update; [exact HC|discriminate|discriminate|reflexivity..|].
      intros [E|E]; discriminate E.
  - (* Register *)
    pose proof (register_topic_view cfg s name) as Hv. destruct (register_topic cfg s name) as [s1 [i|]]; cbn [fst] in Hv;
      apply (Inv_view cfg) in Hv; try exact H; cbn [sn_send]; apply Inv_sn_send_owned; [inv_leaf|exact Hv].
  - (* Regack *)
    destruct (get_by_id s mid) as [[g t]|] eqn:Hg; [|exact H].
    destruct t; try exact H. apply Inv_bp_regack; [exact H|]. eapply Inv_ok_by_id; eassumption.
  - (* Publish *) apply Inv_handle_client_publish, H.
  - (* Puback *)
    destruct Hacc as [Hacc|Hacc]; [discriminate|].
    destruct (get_by_id s mid) as [[g t]|] eqn:Hg; [|exact H].
    pose proof (Inv_ok_by_id _ _ _ _ _ H Hg) as Hok.
    destruct t as [| | |m q st d sp n]; try exact H.
    repeat (match goal with |- Inv _ (st_of (match ?x with _ => _ end)) => destruct x; try exact H end).
    destruct (negb (bp_state_eqb st AwaitPuback)); [exact H|].
    destruct (negb (rc =? RC_ACCEPTED)); [inv_walk|].
    apply Inv_bp_proceed; [exact H|exact Hacc|apply Hok].
  - (* Pubcomp *)
    destruct Hacc as [Hacc|Hacc]; [discriminate|].
    destruct (get_by_id s mid) as [[g t]|] eqn:Hg; [|exact H].
    pose proof (Inv_ok_by_id _ _ _ _ _ H Hg) as Hok.
    destruct t as [| | |m q st d sp n]; try exact H.
    repeat (match goal with |- Inv _ (st_of (match ?x with _ => _ end)) => destruct x; try exact H end).
    destruct (negb (bp_state_eqb st AwaitPubcomp)); [exact H|].
    apply Inv_bp_proceed; [exact H|exact Hacc|apply Hok].
  - (* Pubrec *)
    destruct Hacc as [Hacc|Hacc]; [discriminate|].
    destruct (get_by_id s mid) as [[g t]|] eqn:Hg; [|exact H].
    pose proof (Inv_ok_by_id _ _ _ _ _ H Hg) as Hok.
    destruct t as [| | |m q st d sp n]; try exact H.
    repeat (match goal with |- Inv _ (st_of (match ?x with _ => _ end)) => destruct x; try exact H end).
    destruct (negb (bp_state_eqb st AwaitPubrec)); [exact H|].
    apply Inv_bp_proceed; [exact H|exact Hacc|apply Hok].
  - (* Pubrel *) inv_walk.
  - (* Subscribe *) apply Inv_handle_subscribe, H.
  - (* Unsubscribe *) apply Inv_handle_unsubscribe, H.
  - (* Pingreq *)
    destruct (cstate_eqb (gw_st s) Asleep) eqn:Hst; [|exact H].
    assert (Hacc' : gw_accepted s = true).
    { eapply nd_accepted; [exact H|]. intros E. rewrite E in Hst. discriminate. }
    cbv zeta. apply Inv_andthen.
    + apply Inv_send_all. inv_split. unfold Inv. cbn. rewrite Hacc' in *. (split; [|split; [|split]]); eauto with inv.
    + intros s1 H1. apply Inv_andthen.
      * cbn [sn_send]. apply Inv_sn_send_owned. inv_leaf.
      * intros s2 H2. cbn [st_of ok fst].
        (* Asleep again: the state was accepted all along *)
        admit.
  - (* Disconnect *)
    destruct (dur =? 0) eqn:Hd.
    + inv_walk. inv_leaf.
    + destruct Hacc as [Hacc|Hacc]; [cbn in Hacc; congruence|].
      cbv zeta. apply Inv_andthen.
      * cbn [sn_send]. apply Inv_sn_send_owned.
        destruct (negb (gw_keepalive s =? 0) && (gw_keepalive s <? dur)); inv_split; unfold Inv; cbn; rewrite Hacc in *;
          (split; [|split; [|split]]); eauto with inv.
      * intros s1 H1. cbn [st_of ok fst]. admit.
Admitted.
