(* Gateway/GwTypes.v — state, events and outputs of one gateway session (gateway/handler1.go). *)
From stdpp Require Import base option list numbers fin_maps nmap.
From Verif.Base Require Import Bytes.
From Verif.Codec Require Import Packets.
From Verif.Topics Require Import Predefined.
Open Scope N_scope.

(* util.ClientState *)
Inductive cstate := Disconnected | Active | Asleep | Awake.
Definition cstate_eqb (a b : cstate) : bool :=
  match a, b with
  | Disconnected, Disconnected | Active, Active | Asleep, Asleep | Awake, Awake => true
  | _, _ => false
  end.

(* The fields bisquitt sets on paho's ConnectPacket. *)
Record mq_connect := {
  c_cid : bytes; c_clean : bool; c_keepalive : N;
  c_will : bool; c_wqos : N; c_wretain : bool; c_wtopic : bytes; c_wmsg : bytes;
  c_uflag : bool; c_user : bytes; c_pflag : bool; c_pass : bytes }.

(* MQTT packets at the abstraction level of paho's packet structs. *)
Inductive mq_pkt :=
| MqConnect (c : mq_connect)
| MqConnack (sp : bool) (rc : N)
| MqPublish (dup : bool) (qos : N) (retain : bool) (topic : bytes) (mid : N) (payload : bytes)
| MqPuback (mid : N)
| MqPubrec (mid : N)
| MqPubrel (mid : N)
| MqPubcomp (mid : N)
| MqSubscribe (mid : N) (dup : bool) (filters : list (bytes * N))
| MqSuback (mid : N) (codes : bytes)
| MqUnsubscribe (mid : N) (filters : list bytes)
| MqUnsuback (mid : N)
| MqPingreq
| MqPingresp
| MqDisconnect.

(* handlerConfig + the shared predefined topics *)
Record gw_cfg := {
  auth_enabled : bool;
  cfg_user : option bytes;       (* MqttUser *string *)
  cfg_pass : option bytes;       (* MqttPassword []byte (nil / non-nil) *)
  retry_delay : N;               (* ms *)
  retry_count : N;
  predefined : predef;
  min_tid : N; max_tid : N       (* snPkts.MinTopicAlias / MaxTopicAlias: 1, 0xFFFE *)
}.

(* transactionState of gateway/broker_publish_transaction.go *)
Inductive bp_state := BpDone | AwaitRegack | AwaitPuback | AwaitPubrec | AwaitPubrel | AwaitPubcomp.
Definition bp_state_eqb (a b : bp_state) : bool :=
  match a, b with
  | BpDone, BpDone | AwaitRegack, AwaitRegack | AwaitPuback, AwaitPuback
  | AwaitPubrec, AwaitPubrec | AwaitPubrel, AwaitPubrel | AwaitPubcomp, AwaitPubcomp => true
  | _, _ => false
  end.

(* RetryTransaction.Data: the packet a retry re-sends.  ProceedMQTT is only ever called
   with a PUBACK, PUBREC or PUBCOMP. *)
Inductive ack_kind := AkPuback | AkPubrec | AkPubcomp.
Definition mq_ack (k : ack_kind) (mid : N) : mq_pkt :=
  match k with AkPuback => MqPuback mid | AkPubrec => MqPubrec mid | AkPubcomp => MqPubcomp mid end.
Inductive resend_data := RsSn (p : packet) | RsAck (k : ack_kind) (mid : N).

(* Transaction objects.  Each object has an identity (its key in gw_objs) because the
   store is keyed by message ID only and an object can outlive its slot. *)
(* steps of the connect exchange (gateway/connect_transaction.go) *)
Inductive cx_state := CxAuth | CxWillTopic | CxWillMsg | CxConnack.
Definition cx_state_eqb (a b : cx_state) : bool :=
  match a, b with
  | CxAuth, CxAuth | CxWillTopic, CxWillTopic | CxWillMsg, CxWillMsg | CxConnack, CxConnack => true
  | _, _ => false
  end.

Inductive txn :=
| TxConnect (mq : mq_connect) (st : cx_state)
| TxClientPub1 (mid : N) (tid : N)
| TxSubscribe (mid : N) (tid : N)
| TxBrokerPub (mid : N) (qos : N) (st : bp_state) (data : resend_data)
              (snpub : option packet) (retry_num : N).

Inductive timer_kind :=
| TmConnect (obj : N)         (* connectTransaction: 5 s *)
| TmTimed (obj : N)           (* TimedTransaction of a client PUBLISH QoS1 / SUBSCRIBE: RetryDelay *)
| TmRetry (obj : N)           (* RetryTransaction timer of a broker PUBLISH *)
| TmPing (pinger : N)         (* sleep pinger: next tick *)
| TmPingCancel (pinger : N).  (* time.AfterFunc(Duration, cancelPinger) *)

Record timer := { tm_at : N; tm_seq : N; tm_kind : timer_kind }.

Inductive end_cause :=
| EcShutdown | EcClientDisconnect | EcBrokerEof | EcBrokerGarbage | EcDecodeError
| EcIllegalPacket | EcHandlerError | EcConnectFailed | EcConnectTimeout.

Record gw_state := {
  gw_st : cstate;
  gw_client_id : bytes;
  gw_keepalive : N;
  gw_registered : Nmap bytes;           (* registeredTopics: topic ID -> name *)
  gw_seq_next : N;                      (* util.IDSequence.next *)
  gw_seq_overflow : bool;               (* util.IDSequence.overflow *)
  gw_no_more_tids : bool;               (* handler1.noMoreTopicIDs *)
  gw_buffer : list (option N * packet); (* pktBuffer; Some g = the packet object belongs to
                                           transaction g, whose retries set DUP on that same object *)
  gw_objs : Nmap txn;                   (* live transaction objects *)
  gw_by_id : Nmap N;                    (* TransactionStore.bypktID: message ID -> object *)
  gw_connect : option N;                (* TransactionStore.bypktType[CONNECT] *)
  gw_next_obj : N;
  gw_timers : list timer;
  gw_next_seq : N;
  gw_now : N;                           (* virtual ms *)
  gw_last_sn : N;                       (* when the MQTT-SN receive loop last began a Read *)
  gw_last_mq : N;                       (* when the MQTT receive loop last began a Read *)
  gw_ending : option N;                 (* group context cancelled; Run returns at this time *)
  gw_ended : bool;
  (* ghost history, never read by the step function *)
  gw_accepted : bool;                   (* broker accepted a CONNECT of this session *)
  gw_handed_out : list (N * bytes);     (* topic IDs told to the client, with their names *)
  gw_auth_seen : option (bytes * bytes) (* credentials of the PLAIN AUTH of the current connect exchange *)
}.

Inductive gw_event :=
| EvSn (dg : bytes)
| EvMq (m : mq_pkt)
| EvMqRaw                      (* undecodable bytes from the broker *)
| EvMqEof
| EvAdvance (d : N)
| EvShutdown.

Inductive gw_out :=
| OutSn (t : N) (dg : bytes)
| OutMq (t : N) (m : mq_pkt)
| OutCancel (t : N) (c : end_cause)   (* group context cancelled (not visible on the wire) *)
| OutEnd (t : N).                     (* Run returned: broker connection closed, session gone *)

Definition init_state (cfg : gw_cfg) : gw_state := {|
  gw_st := Disconnected; gw_client_id := []; gw_keepalive := 0;
  gw_registered := ∅; gw_seq_next := min_tid cfg; gw_seq_overflow := false;
  gw_no_more_tids := false; gw_buffer := [];
  gw_objs := ∅; gw_by_id := ∅; gw_connect := None; gw_next_obj := 0;
  gw_timers := []; gw_next_seq := 0; gw_now := 0; gw_last_sn := 0; gw_last_mq := 0;
  gw_ending := None; gw_ended := false; gw_accepted := false; gw_handed_out := [];
  gw_auth_seen := None |}.
