(* Gateway/GwStep.v — one gateway session as a step function over events, following
   gateway/handler1.go and the gateway/*_transaction.go files statement by statement.
   Granularity: one received packet / timer expiry is handled to completion. *)
From stdpp Require Import base option list numbers fin_maps nmap.
From RecordUpdate Require Import RecordSet.
From Verif.Base Require Import Bytes.
From Verif.Codec Require Import Packets Decode Encode.
From Verif.Topics Require Import Predefined.
From Verif.Gateway Require Import GwTypes.
Import RecordSetNotations.
Open Scope N_scope.

#[export] Instance eta_gw_state : Settable _ := settable! Build_gw_state
  <gw_st; gw_client_id; gw_keepalive; gw_registered; gw_seq_next; gw_seq_overflow;
   gw_no_more_tids; gw_buffer; gw_objs; gw_by_id; gw_connect; gw_next_obj; gw_timers;
   gw_next_seq; gw_now; gw_last_sn; gw_last_mq; gw_ending; gw_ended; gw_accepted; gw_handed_out;
   gw_auth_seen>.

#[export] Instance eta_mq_connect : Settable _ := settable! Build_mq_connect
  <c_cid; c_clean; c_keepalive; c_will; c_wqos; c_wretain; c_wtopic; c_wmsg;
   c_uflag; c_user; c_pflag; c_pass>.

Definition connTimeout := 100.
Definition connectTransactionTimeout := 5000.
Definition MinPacketID := 1.
Definition MaxPacketID := 65535.

(* Result of handling one packet: the receive loop continues, or returns an error /
   Shutdown, which cancels the group. *)
Inductive hres := HOk | HEnd (c : end_cause).
Definition R := (gw_state * list gw_out * hres)%type.

Definition ok (s : gw_state) (o : list gw_out) : R := (s, o, HOk).
Definition stop (s : gw_state) (o : list gw_out) (c : end_cause) : R := (s, o, HEnd c).

(* run f, then g unless f ended the loop *)
Definition andthen (r : R) (g : gw_state -> R) : R :=
  match r with
  | (s, o, HOk) => match g s with (s', o', res) => (s', o ++ o', res) end
  | (s, o, HEnd c) => (s, o, HEnd c)
  end.

(* ------------------------------------------------------------------ sending *)

(* handler1.snSend: queue while asleep, otherwise pack and write *)
Definition sn_send_owned (s : gw_state) (owner : option N) (p : packet) : R :=
  match gw_st s with
  | Asleep => ok (s <| gw_buffer := gw_buffer s ++ [(owner, p)] |>) []
  | _ => if len (pack p) <=? MaxPacketLen then ok s [OutSn (gw_now s) (pack p)]
         else stop s [] EcHandlerError      (* "packet too long": the error ends the session *)
  end.
Definition sn_send (s : gw_state) (p : packet) : R := sn_send_owned s None p.
(* handler1.snSendNow: pack and write, also to a sleeping client *)
Definition sn_send_now (s : gw_state) (p : packet) : R :=
  if len (pack p) <=? MaxPacketLen then ok s [OutSn (gw_now s) (pack p)]
  else stop s [] EcHandlerError.

(* handler1.mqttSend *)
Definition mq_send (s : gw_state) (m : mq_pkt) : R := ok s [OutMq (gw_now s) m].

(* ------------------------------------------------------------------ timers *)

Definition arm (s : gw_state) (k : timer_kind) (delay : N) : gw_state :=
  s <| gw_timers := gw_timers s ++ [{| tm_at := gw_now s + delay; tm_seq := gw_next_seq s; tm_kind := k |}] |>
    <| gw_next_seq := gw_next_seq s + 1 |>.

Definition timer_of_obj (g : N) (k : timer_kind) : bool :=
  match k with
  | TmConnect g' | TmTimed g' | TmRetry g' => g =? g'
  | _ => false
  end.

Definition disarm_obj (s : gw_state) (g : N) : gw_state :=
  s <| gw_timers := List.filter (fun t => negb (timer_of_obj g (tm_kind t))) (gw_timers s) |>.

Definition disarm_ping (s : gw_state) (p : N) : gw_state :=
  s <| gw_timers := List.filter (fun t => match tm_kind t with TmPing p' => negb (p =? p') | _ => true end)
                                (gw_timers s) |>.

(* ------------------------------------------------------------------ transactions *)

Definition new_obj (s : gw_state) (t : txn) : gw_state * N :=
  (s <| gw_objs := <[gw_next_obj s := t]> (gw_objs s) |> <| gw_next_obj := gw_next_obj s + 1 |>,
   gw_next_obj s).

(* TransactionBase.finish of object g: stop its timer, run its finally callback (which deletes the
   store slot of its key if the slot still holds this object: TransactionStore.DeleteIf), close done. *)
Definition finish_obj (s : gw_state) (g : N) : gw_state :=
  match gw_objs s !! g with
  | None => s
  | Some t =>
    let s := disarm_obj s g in
    let s := s <| gw_objs := delete g (gw_objs s) |> in
    match t with
    | TxConnect _ _ => s <| gw_connect := None |>
    | TxClientPub1 mid _ | TxSubscribe mid _ | TxBrokerPub mid _ _ _ _ _ =>
      match gw_by_id s !! mid with
      | Some g' => if g' =? g then s <| gw_by_id := delete mid (gw_by_id s) |> else s
      | None => s
      end
    end
  end.

(* TransactionStore.Get(mid) with the type assertions of the callers *)
Definition get_by_id (s : gw_state) (mid : N) : option (N * txn) :=
  match gw_by_id s !! mid with
  | Some g => match gw_objs s !! g with Some t => Some (g, t) | None => None end
  | None => None
  end.

Definition get_connect (s : gw_state) : option (N * mq_connect * cx_state) :=
  match gw_connect s with
  | Some g => match gw_objs s !! g with Some (TxConnect mq a) => Some (g, mq, a) | _ => None end
  | None => None
  end.

Definition set_obj (s : gw_state) (g : N) (t : txn) : gw_state :=
  s <| gw_objs := <[g := t]> (gw_objs s) |>.

(* ------------------------------------------------------------------ topic IDs *)

(* util.IDSequence.Next *)
Definition seq_next (cfg : gw_cfg) (s : gw_state) : gw_state * N * bool :=
  let id := gw_seq_next s in
  let ov := gw_seq_overflow s in
  let s' := if id =? max_tid cfg
            then s <| gw_seq_next := min_tid cfg |> <| gw_seq_overflow := true |>
            else s <| gw_seq_next := id + 1 |> <| gw_seq_overflow := false |> in
  (s', id, ov).

Definition predef_size (cfg : gw_cfg) (c : bytes) : nat :=
  (match pd_client (predefined cfg) c with Some m => length (map_to_list m) | None => 0 end +
   match pd_client (predefined cfg) star with Some m => length (map_to_list m) | None => 0 end)%nat.

(* the skip loop of newTopicID *)
Fixpoint skip_predefined (fuel : nat) (cfg : gw_cfg) (s : gw_state) (id : N) : gw_state * option N :=
  match get_name (predefined cfg) (gw_client_id s) id with
  | None => (s, Some id)
  | Some _ =>
    match fuel with
    | O => (s <| gw_no_more_tids := true |>, None)
    | S fuel' =>
      match seq_next cfg s with
      | (s', id', ov) =>
        if ov then (s' <| gw_no_more_tids := true |>, None)
        else skip_predefined fuel' cfg s' id'
      end
    end
  end.

(* handler1.newTopicID *)
Definition new_topic_id (cfg : gw_cfg) (s : gw_state) : gw_state * option N :=
  if gw_no_more_tids s then (s, None) else
  match seq_next cfg s with
  | (s', id, ov) =>
    if ov then (s' <| gw_no_more_tids := true |>, None)
    else skip_predefined (S (predef_size cfg (gw_client_id s))) cfg s' id
  end.

(* handler1.findRegisteredTopicID: sync.Map.Range order is unspecified; the least
   matching ID is the model's representative (traces compare resolved names). *)
Definition find_registered (s : gw_state) (name : bytes) : option N :=
  min_list (ids_with_name (gw_registered s) name).

(* handler1.findTopicID *)
Definition find_topic_id (cfg : gw_cfg) (s : gw_state) (name : bytes) : option (N * N) :=
  match find_registered s name with
  | Some i => Some (i, TIT_REGISTERED)
  | None =>
    match get_id (predefined cfg) (gw_client_id s) name with
    | Some i => Some (i, TIT_PREDEFINED)
    | None => None
    end
  end.

Definition note_handed (s : gw_state) (i : N) (n : bytes) : gw_state :=
  s <| gw_handed_out := gw_handed_out s ++ [(i, n)] |>.

(* handler1.registerTopic *)
Definition register_topic (cfg : gw_cfg) (s : gw_state) (name : bytes) : gw_state * option N :=
  match find_registered s name with
  | Some i => (s, Some i)
  | None =>
    match new_topic_id cfg s with
    | (s', Some i) => (s' <| gw_registered := <[i := name]> (gw_registered s') |>, Some i)
    | (s', None) => (s', None)
    end
  end.

(* the topic name a client topic ID denotes (handleClientPublish / Subscribe / Unsubscribe) *)
Definition resolve_client_topic (cfg : gw_cfg) (s : gw_state) (tit tid : N) : option bytes :=
  if tit =? TIT_REGISTERED then gw_registered s !! tid
  else if tit =? TIT_PREDEFINED then get_name (predefined cfg) (gw_client_id s) tid
  else if tit =? TIT_SHORT then Some (decode_short tid)
  else None.

(* ------------------------------------------------------------------ MQTT-SN side *)

Definition has_wildcard (t : bytes) : bool := existsb (fun b => (b =? 43) || (b =? 35)) t.

(* handler1.checkPacketLegal *)
Definition packet_legal (cfg : gw_cfg) (s : gw_state) (p : packet) : bool :=
  match gw_st s with
  | Disconnected =>
    match p with
    | Connect _ _ _ _ _ | Auth _ _ _ | WillMsg _ | WillTopic _ _ _ => true
    | Disconnect d => d =? 0
    | Publish _ q _ tit _ _ _ =>
      negb (auth_enabled cfg) && (q =? 3) && ((tit =? TIT_SHORT) || (tit =? TIT_PREDEFINED))
    | _ => false
    end
  | _ => true
  end.

(* connectTransaction.authDone: continue with the will, if any, or send MQTT CONNECT *)
Definition connect_auth_done (s : gw_state) (g : N) (mq : mq_connect) : R :=
  if c_will mq then sn_send (set_obj s g (TxConnect mq CxWillTopic)) WillTopicReq
  else mq_send (set_obj s g (TxConnect mq CxConnack)) (MqConnect mq).

(* connectTransaction.Start, after the transaction was stored *)
Definition connect_start (s : gw_state) (g : N) (mq : mq_connect) (auth : bool) : R :=
  if auth then ok (set_obj s g (TxConnect mq CxAuth)) []
  else connect_auth_done s g mq.

(* handler1.handleConnect *)
Definition handle_connect (cfg : gw_cfg) (s : gw_state) (will clean : bool) (proto dur : N) (cid : bytes) : R :=
  if negb (proto =? 1) then sn_send s (Connack RC_NOT_SUPPORTED) else
  if cstate_eqb (gw_st s) Awake || cstate_eqb (gw_st s) Asleep then
    sn_send (s <| gw_st := Active |>) (Connack RC_ACCEPTED)
  else if dur =? 0 then sn_send s (Connack RC_NOT_SUPPORTED)
  else
    let s := s <| gw_keepalive := dur |> <| gw_client_id := cid |> <| gw_auth_seen := None |> in
    let mq := {| c_cid := cid; c_clean := clean; c_keepalive := dur;
                 c_will := will; c_wqos := 0; c_wretain := false; c_wtopic := []; c_wmsg := [];
                 c_uflag := match cfg_user cfg with Some _ => true | None => false end;
                 c_user := match cfg_user cfg with Some u => u | None => [] end;
                 c_pflag := match cfg_pass cfg with Some _ => true | None => false end;
                 c_pass := match cfg_pass cfg with Some p => p | None => [] end |} in
    (* cancel the previous transaction, if any: Fail(Cancelled) *)
    let s := match gw_connect s with Some g => finish_obj s g | None => s end in
    match new_obj s (TxConnect mq CxAuth) with
    | (s, g) =>
      let s := s <| gw_connect := Some g |> in
      let s := arm s (TmConnect g) connectTransactionTimeout in
      connect_start s g mq (auth_enabled cfg)
    end.

(* bytes.Split(data, {0}) has exactly three parts: returns the 2nd and 3rd *)
Fixpoint split0 (data : bytes) (cur : bytes) : list bytes :=
  match data with
  | [] => [cur]
  | b :: rest => if b =? 0 then cur :: split0 rest [] else split0 rest (cur ++ [b])
  end.
Definition decode_plain (data : bytes) : option (bytes * bytes) :=
  match split0 data [] with
  | [_; u; p] => Some (u, p)
  | _ => None
  end.

Definition AUTH_PLAIN : bytes := [80; 76; 65; 73; 78].

(* connectTransaction.Auth *)
Definition connect_auth (s : gw_state) (g : N) (mq : mq_connect) (st : cx_state) (method data : bytes) : R :=
  if negb (cx_state_eqb st CxAuth) then ok s [] else     (* unexpected packet: ignored *)
  if beq method AUTH_PLAIN then
    match decode_plain data with
    | None => stop (finish_obj s g) [] EcConnectFailed
    | Some (u, p) =>
      let mq := mq <| c_uflag := true |> <| c_user := u |> <| c_pflag := true |> <| c_pass := p |> in
      connect_auth_done (s <| gw_auth_seen := Some (u, p) |>) g mq
    end
  else
    andthen (sn_send s (Connack RC_NOT_SUPPORTED))
            (fun s => stop (finish_obj s g) [] EcConnectFailed).

(* handler1.handleClientPublish *)
Definition handle_client_publish (cfg : gw_cfg) (s : gw_state)
           (dup : bool) (qos : N) (retain : bool) (tit tid mid : N) (data : bytes) : R :=
  match resolve_client_topic cfg s tit tid with
  | None => stop s [] EcHandlerError
  | Some topic =>
    (* what is not a valid MQTT PUBLISH is not forwarded *)
    if has_wildcard topic || (((qos =? 1) || (qos =? 2)) && (mid =? 0)) then stop s [] EcHandlerError else
    let s := if qos =? 1 then
               match new_obj s (TxClientPub1 mid tid) with
               | (s, g) => arm (s <| gw_by_id := <[mid := g]> (gw_by_id s) |>) (TmTimed g) (retry_delay cfg)
               end
             else s in
    mq_send s (MqPublish dup (if qos =? 3 then 0 else qos) retain topic mid data)
  end.

(* handler1.handleSubscribe *)
Definition handle_subscribe (cfg : gw_cfg) (s : gw_state) (dup : bool) (qos tit mid tid : N) (name : bytes) : R :=
  let go (s : gw_state) (topic : bytes) (topic_id : N) : R :=
    match new_obj s (TxSubscribe mid topic_id) with
    | (s, g) =>
      let s := arm (s <| gw_by_id := <[mid := g]> (gw_by_id s) |>) (TmTimed g) (retry_delay cfg) in
      mq_send s (MqSubscribe mid false [(topic, qos)])
    end in
  if (2 <? qos) || (mid =? 0) then stop s [] EcHandlerError else
  if tit =? TIT_STRING then
    if negb (has_wildcard name) then
      (* registerTopic: the name keeps the topic ID it already has in this session *)
      match register_topic cfg s name with
      | (s, None) => sn_send s (Suback 0 0 mid RC_INVALID_TOPIC_ID)
      | (s, Some i) => go s name i
      end
    else go s name 0
  else if tit =? TIT_PREDEFINED then
    match get_name (predefined cfg) (gw_client_id s) tid with
    | None => stop s [] EcHandlerError
    | Some topic => go s topic tid
    end
  else if tit =? TIT_SHORT then go s (decode_short tid) 0
  else go s [] 0.      (* unreachable: the decoder rejects TopicIDType 3 in SUBSCRIBE *)

(* handler1.handleUnsubscribe *)
Definition handle_unsubscribe (cfg : gw_cfg) (s : gw_state) (tit mid tid : N) (name : bytes) : R :=
  if mid =? 0 then stop s [] EcHandlerError else
  if tit =? TIT_STRING then mq_send s (MqUnsubscribe mid [name])
  else if tit =? TIT_PREDEFINED then
    match get_name (predefined cfg) (gw_client_id s) tid with
    | None => stop s [] EcHandlerError
    | Some topic => mq_send s (MqUnsubscribe mid [topic])
    end
  else if tit =? TIT_SHORT then mq_send s (MqUnsubscribe mid [decode_short tid])
  else mq_send s (MqUnsubscribe mid [[]]).

Fixpoint send_all (s : gw_state) (ps : list (option N * packet)) : R :=
  match ps with
  | [] => ok s []
  | (_, p) :: ps' => andthen (sn_send s p) (fun s => send_all s ps')
  end.

(* RetryTransaction.Proceed followed by the send of ProceedSN / ProceedMQTT *)
Definition bp_proceed (cfg : gw_cfg) (s : gw_state) (g : N) (mid qos : N) (st : bp_state)
           (data : resend_data) (snpub : option packet) : R :=
  let s := set_obj s g (TxBrokerPub mid qos st data snpub 0) in
  let s := arm (disarm_obj s g) (TmRetry g) (retry_delay cfg) in
  let r := match data with RsSn p => sn_send_owned s (Some g) p | RsAck k m => mq_send s (mq_ack k m) end in
  match st with
  | BpDone => andthen r (fun s => ok (finish_obj s g) [])   (* Success *)
  | _ => r
  end.

(* brokerPublishTransactionBase.regack *)
Definition bp_regack (cfg : gw_cfg) (s : gw_state) (g : N) (t : txn) (rc : N) : R :=
  match t with
  | TxBrokerPub mid qos AwaitRegack (RsSn (Register tid _ name)) (Some pub) _ =>
    if negb (rc =? RC_ACCEPTED) then ok (finish_obj s g) [] else
    let s := s <| gw_registered := <[tid := name]> (gw_registered s) |> in
    let st := if qos =? 0 then BpDone else if qos =? 1 then AwaitPuback else AwaitPubrec in
    bp_proceed cfg s g mid qos st (RsSn pub) (Some pub)
  | _ => ok s []
  end.

(* handler1.handleMqttSn, after decoding *)
Definition handle_sn (cfg : gw_cfg) (s : gw_state) (p : packet) : R :=
  if negb (packet_legal cfg s p) then stop s [] EcIllegalPacket else
  match p with
  | Connect will clean proto dur cid => handle_connect cfg s will clean proto dur cid
  | Auth _ method data =>
    match get_connect s with
    | Some (g, mq, a) => connect_auth s g mq a method data
    | None => ok s []
    end
  | WillTopic q r topic =>
    match get_connect s with
    | Some (g, mq, a) =>
      if negb (cx_state_eqb a CxWillTopic) then ok s [] else
      (* a will that cannot be translated to MQTT fails the exchange *)
      if (len topic =? 0) || (2 <? q) then stop (finish_obj s g) [] EcConnectFailed else
      let mq := mq <| c_wqos := q |> <| c_wretain := r |> <| c_wtopic := topic |> in
      sn_send (set_obj s g (TxConnect mq CxWillMsg)) WillMsgReq
    | None => ok s []
    end
  | WillMsg msg =>
    match get_connect s with
    | Some (g, mq, a) =>
      if negb (cx_state_eqb a CxWillMsg) then ok s [] else
      let mq := mq <| c_wmsg := msg |> in
      mq_send (set_obj s g (TxConnect mq CxConnack)) (MqConnect mq)
    | None => ok s []
    end
  | Register _ mid name =>
    match register_topic cfg s name with
    | (s, Some i) => sn_send (note_handed s i name) (Regack i mid RC_ACCEPTED)
    | (s, None) => sn_send s (Regack 0 mid RC_INVALID_TOPIC_ID)
    end
  | Publish dup q r tit tid mid data => handle_client_publish cfg s dup q r tit tid mid data
  | Pubrel mid => if mid =? 0 then stop s [] EcHandlerError else mq_send s (MqPubrel mid)
  | Subscribe dup q tit mid tid name => handle_subscribe cfg s dup q tit mid tid name
  | Unsubscribe tit mid tid name => handle_unsubscribe cfg s tit mid tid name
  | Pingreq _ =>
    if cstate_eqb (gw_st s) Asleep then
      let buf := gw_buffer s in
      andthen (send_all (s <| gw_st := Awake |>) buf)
              (fun s => andthen (sn_send (s <| gw_buffer := [] |>) Pingresp)
                                (fun s => ok (s <| gw_st := Asleep |>) []))
    else mq_send s MqPingreq
  | Disconnect dur =>
    if dur =? 0 then
      andthen (mq_send s MqDisconnect)
              (fun s => andthen (sn_send (s <| gw_st := Disconnected |>) (Disconnect 0))
                                (fun s => stop s [] EcClientDisconnect))
    else
      let s := if negb (gw_keepalive s =? 0) && (gw_keepalive s <? dur) then
                 let p := gw_next_obj s in
                 let s := s <| gw_next_obj := p + 1 |> in
                 let s := arm s (TmPing p) (gw_keepalive s * 1000) in
                 arm s (TmPingCancel p) (dur * 1000)
               else s in
      (* the reply is never queued: a client that is asleep already retransmits its DISCONNECT *)
      andthen (sn_send_now (s <| gw_buffer := [] |>) (Disconnect 0))
              (fun s => ok (s <| gw_st := Asleep |>) [])
  | Regack _ mid rc =>
    match get_by_id s mid with
    | Some (g, (TxBrokerPub _ _ _ _ _ _) as t) => bp_regack cfg s g t rc
    | _ => ok s []
    end
  | Puback _ mid rc =>
    match get_by_id s mid with
    | Some (g, TxBrokerPub m 1 st _ snpub _) =>
      if negb (bp_state_eqb st AwaitPuback) then ok s [] else
      if negb (rc =? RC_ACCEPTED) then ok (finish_obj s g) [] else
      bp_proceed cfg s g m 1 BpDone (RsAck AkPuback mid) snpub
    | _ => ok s []
    end
  | Pubrec mid =>
    match get_by_id s mid with
    | Some (g, TxBrokerPub m 2 st _ snpub _) =>
      if negb (bp_state_eqb st AwaitPubrec) then ok s [] else
      bp_proceed cfg s g m 2 AwaitPubrel (RsAck AkPubrec mid) snpub
    | _ => ok s []
    end
  | Pubcomp mid =>
    match get_by_id s mid with
    | Some (g, TxBrokerPub m 2 st _ snpub _) =>
      if negb (bp_state_eqb st AwaitPubcomp) then ok s [] else
      bp_proceed cfg s g m 2 BpDone (RsAck AkPubcomp mid) snpub
    | _ => ok s []
    end
  | _ => stop s [] EcHandlerError       (* "unsupported MQTT-SN packet type" *)
  end.

(* ------------------------------------------------------------------ MQTT side *)

(* the "almost surely available" MsgID hack: first free ID from 0xFFFF downwards *)
Fixpoint find_free_mid (fuel : nat) (m : Nmap N) (i : N) : option N :=
  match m !! i with
  | None => Some i
  | Some _ =>
    match fuel with
    | O => None
    | S fuel' => if i <=? MinPacketID then None else find_free_mid fuel' m (i - 1)
    end
  end.

(* handler1.handleBrokerPublish *)
Definition handle_broker_publish (cfg : gw_cfg) (s : gw_state)
           (dup : bool) (qos : N) (retain : bool) (topic : bytes) (mid0 : N) (payload : bytes) : R :=
  let found := if is_short_topic topic then Some (encode_short topic, TIT_SHORT)
               else find_topic_id cfg s topic in
  let '(tid, tit) := match found with Some x => x | None => (0, 0) end in
  let needs_register := match found with Some _ => false | None => true end in
  let pub := Publish dup qos retain tit tid mid0 payload in
  if (qos =? 0) && negb needs_register then sn_send s pub else
  let omid := if qos =? 0
              then find_free_mid (S (length (map_to_list (gw_by_id s)))) (gw_by_id s) MaxPacketID
              else Some mid0 in
  match omid with
  | None => stop s [] EcHandlerError
  | Some mid =>
    if 2 <? qos then stop s [] EcHandlerError else
    if needs_register then
      match new_topic_id cfg s with
      | (s, None) => stop s [] EcHandlerError
      | (s, Some i) =>
        let pub := Publish dup qos retain tit i mid0 payload in
        let reg := Register i mid topic in
        match new_obj s (TxBrokerPub mid qos AwaitRegack (RsSn reg) (Some pub) 0) with
        | (s, g) =>
          let s := s <| gw_by_id := <[mid := g]> (gw_by_id s) |> in
          bp_proceed cfg (note_handed s i topic) g mid qos AwaitRegack (RsSn reg) (Some pub)
        end
      end
    else
      let st := if qos =? 1 then AwaitPuback else AwaitPubrec in
      match new_obj s (TxBrokerPub mid qos st (RsSn pub) None 0) with
      | (s, g) =>
        let s := s <| gw_by_id := <[mid := g]> (gw_by_id s) |> in
        bp_proceed cfg s g mid qos st (RsSn pub) None
      end
  end.

(* handler1.handleMqtt *)
Definition handle_mq (cfg : gw_cfg) (s : gw_state) (m : mq_pkt) : R :=
  match m with
  | MqConnack _ rc =>
    match get_connect s with
    | Some (g, _, a) =>
      if negb (cx_state_eqb a CxConnack) then ok s [] else
      if negb (rc =? 0) then
        andthen (sn_send s (Connack RC_CONGESTION)) (fun s => stop (finish_obj s g) [] EcConnectFailed)
      else
        andthen (sn_send (s <| gw_st := Active |> <| gw_accepted := true |>) (Connack RC_ACCEPTED))
                (fun s => ok (finish_obj s g) [])
    | None => ok s []
    end
  | MqPuback mid =>
    match get_by_id s mid with
    | Some (g, TxClientPub1 _ tid) =>
      sn_send (finish_obj s g) (Puback tid mid RC_ACCEPTED)
    | _ => ok s []
    end
  | MqPubrec mid => sn_send s (Pubrec mid)
  | MqPubcomp mid => sn_send s (Pubcomp mid)
  | MqSuback mid codes =>
    match get_by_id s mid with
    | Some (g, TxSubscribe _ tid) =>
      match codes with
      | [c] =>
        let s := finish_obj s g in
        if c <=? 2
        then sn_send (match gw_registered s !! tid with
                      | Some n => note_handed s tid n | None => s end)
                     (Suback c tid mid RC_ACCEPTED)
        else sn_send s (Suback 0 tid mid RC_NOT_SUPPORTED)
      | _ => stop (finish_obj s g) [] EcHandlerError
      end
    | _ => ok s []
    end
  | MqUnsuback mid => sn_send s (Unsuback mid)
  | MqPingresp => if cstate_eqb (gw_st s) Active then sn_send s Pingresp else ok s []
  | MqPublish dup qos retain topic mid payload => handle_broker_publish cfg s dup qos retain topic mid payload
  | MqPubrel mid =>
    match get_by_id s mid with
    | Some (g, TxBrokerPub m0 2 st _ snpub _) =>
      if negb (bp_state_eqb st AwaitPubrel) then ok s [] else
      bp_proceed cfg s g m0 2 AwaitPubcomp (RsSn (Pubrel mid)) snpub
    | _ => ok s []
    end
  | _ => stop s [] EcHandlerError       (* "unsupported MQTT packet type" *)
  end.

(* ------------------------------------------------------------------ timers firing *)

Definition set_dup (p : packet) : packet :=
  match p with
  | Publish _ q r tit tid mid d => Publish true q r tit tid mid d
  | Subscribe _ q tit mid tid n => Subscribe true q tit mid tid n
  | _ => p
  end.

Definition same_packet_obj (p q : packet) : bool := beq (pack (set_dup p)) (pack (set_dup q)).

Definition fire (cfg : gw_cfg) (s : gw_state) (k : timer_kind) : R :=
  match k with
  | TmConnect g =>
    match gw_objs s !! g with
    | Some _ => stop (finish_obj s g) [] EcConnectTimeout
    | None => ok s []
    end
  | TmTimed g =>
    match gw_objs s !! g with
    | Some _ => ok (finish_obj s g) []
    | None => ok s []
    end
  | TmRetry g =>
    match gw_objs s !! g with
    | Some (TxBrokerPub mid qos st data snpub n) =>
      if retry_count cfg <? n + 1 then ok (finish_obj s g) [] else
      (* brokerPublishTransactionBase.resend *)
      let data' := match data with
                   | RsSn p => RsSn (set_dup p)
                   | RsAck k m => RsAck k m       (* PUBLISH is the only MQTT packet with DUP *)
                   end in
      let s := set_obj s g (TxBrokerPub mid qos st data' snpub (n + 1)) in
      (* SetDUP mutates the packet object, also where it already sits in the sleep buffer: the buffered
         entries of this exchange that are the packet being resent (equal to it up to DUP); an MQTT
         packet being resent touches nothing there *)
      let s := match data with
               | RsSn p0 =>
                 s <| gw_buffer := map (fun e => match e with
                                                 | (Some g', p) => if (g' =? g) && same_packet_obj p p0 then (Some g', set_dup p) else e
                                                 | _ => e end) (gw_buffer s) |>
               | RsAck _ _ => s
               end in
      let s := arm s (TmRetry g) (retry_delay cfg) in
      match data' with
      | RsSn p =>
        (* an error of the retry callback fails the transaction, not the session *)
        match sn_send_owned s (Some g) p with
        | (s1, o, HEnd _) => ok (finish_obj s1 g) o
        | r => r
        end
      | RsAck k m => mq_send s (mq_ack k m)
      end
    | _ => ok s []
    end
  | TmPing p =>
    andthen (mq_send s MqPingreq) (fun s => ok (arm s (TmPing p) (gw_keepalive s * 1000)) [])
  | TmPingCancel p => ok (disarm_ping s p) []
  end.

(* earliest timer due at or before t (ties: creation order) *)
Definition earlier (a b : timer) : bool :=
  (tm_at a <? tm_at b) || ((tm_at a =? tm_at b) && (tm_seq a <=? tm_seq b)).

Fixpoint min_timer (l : list timer) : option timer :=
  match l with
  | [] => None
  | t :: l' => match min_timer l' with
               | Some u => if earlier t u then Some t else Some u
               | None => Some t
               end
  end.

Definition remove_timer (l : list timer) (t : timer) : list timer :=
  List.filter (fun u => negb (tm_seq u =? tm_seq t)) l.

(* ------------------------------------------------------------------ termination *)

Definition next_tick (start t : N) : N := start + connTimeout * ((t - start) / connTimeout + 1).

(* The group context is cancelled at gw_now: the shutdown goroutine sends DISCONNECT to an
   active or awake client; Run returns when both receive loops have noticed. *)
Definition begin_end (s : gw_state) (c : end_cause) (sn_loop_done mq_loop_done : bool) : gw_state * list gw_out :=
  let t := gw_now s in
  let o := match gw_st s with
           | Active | Awake => [OutSn t (pack (Disconnect 0))]
           | _ => []
           end in
  let te := N.max (if sn_loop_done then t else next_tick (gw_last_sn s) t)
                  (if mq_loop_done then t else next_tick (gw_last_mq s) t) in
  (s <| gw_ending := Some te |> <| gw_timers := [] |>, OutCancel t c :: o).

Definition finish_r (r : R) (from_sn from_mq : bool) : gw_state * list gw_out :=
  match r with
  | (s, o, HOk) => (s, o)
  | (s, o, HEnd c) => match begin_end s c from_sn from_mq with (s', o') => (s', o ++ o') end
  end.

(* fire all timers due up to time t, oldest first *)
Fixpoint run_timers (fuel : nat) (cfg : gw_cfg) (s : gw_state) (t : N) : gw_state * list gw_out :=
  match fuel with
  | O => (s, [])
  | S fuel' =>
    match gw_ending s with
    | Some te =>
      if te <=? t then (s <| gw_now := te |> <| gw_ended := true |> <| gw_ending := None |>, [OutEnd te])
      else (s, [])
    | None =>
      match min_timer (gw_timers s) with
      | Some tm =>
        if tm_at tm <=? t then
          let s := s <| gw_now := tm_at tm |> <| gw_timers := remove_timer (gw_timers s) tm |> in
          match finish_r (fire cfg s (tm_kind tm)) false false with
          | (s', o) => match run_timers fuel' cfg s' t with (s'', o') => (s'', o ++ o') end
          end
        else (s, [])
      | None => (s, [])
      end
    end
  end.

(* a bound on the number of timer firings in a window of d ms: every firing re-arms at
   most one timer at least min(delay, keepalive) later; the harness passes windows for
   which this fuel is ample and the model reports exhaustion as a stuck clock *)
Definition advance_fuel (cfg : gw_cfg) (s : gw_state) (d : N) : nat :=
  N.to_nat (N.min 100000
    (2 + N.of_nat (length (gw_timers s)) * (2 + d / (N.max 1 (N.min (retry_delay cfg) (N.max 1 (gw_keepalive s * 1000))))))).

(* ------------------------------------------------------------------ the step *)

Definition gw_step (cfg : gw_cfg) (s : gw_state) (ev : gw_event) : gw_state * list gw_out :=
  if gw_ended s then (s, []) else
  match ev with
  | EvAdvance d =>
    let t := gw_now s + d in
    match run_timers (advance_fuel cfg s d) cfg s t with
    | (s', o) => (if gw_ended s' then s' else s' <| gw_now := t |>, o)
    end
  | _ =>
    match gw_ending s with
    | Some _ => (s, [])            (* already shutting down: nothing reaches the wire *)
    | None =>
      match ev with
      | EvSn dg =>
        let s := s <| gw_last_sn := gw_now s |> in
        match read_dgram dg with
        | Ok p => finish_r (handle_sn cfg s p) true false
        | _ => finish_r (stop s [] EcDecodeError) true false
        end
      | EvMq m =>
        let s := s <| gw_last_mq := gw_now s |> in
        finish_r (handle_mq cfg s m) false true
      | EvMqRaw => finish_r (stop (s <| gw_last_mq := gw_now s |>) [] EcBrokerGarbage) false true
      | EvMqEof =>
        (* io.EOF: clean shutdown when disconnected, ErrMqttConnClosed otherwise; both end the session *)
        finish_r (stop s [] EcBrokerEof) false true
      | EvShutdown => finish_r (stop s [] EcShutdown) false false
      | EvAdvance _ => (s, [])
      end
    end
  end.

(* run a history from the initial state, collecting outputs per event *)
Fixpoint gw_run (cfg : gw_cfg) (s : gw_state) (evs : list gw_event) : list (list gw_out) * gw_state :=
  match evs with
  | [] => ([], s)
  | ev :: evs' =>
    match gw_step cfg s ev with
    | (s', o) => match gw_run cfg s' evs' with (os, s'') => (o :: os, s'') end
    end
  end.
