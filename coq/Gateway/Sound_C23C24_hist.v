(* Gateway/Sound_C23C24_hist.v — C23 / C24 over whole histories (induction over the event list). *)
From stdpp Require Import base option list numbers fin_maps nmap.
From Verif.Base Require Import Bytes.
From Verif.Codec Require Import Packets Decode Encode.
From Verif.Topics Require Import Predefined.
From Verif.Gateway Require Import GwTypes GwStep GwWf GwRun Sound_C23C24.
From Verif.Checkers Require Import ChkCodec ChkGw.
Open Scope N_scope.

Lemma run_all_lift' cfg (Q : gw_state -> gw_event -> Prop) :
  (forall s ev, reach' cfg s -> wf_event' ev -> Q s ev) ->
  forall evs s, reach' cfg s -> Forall wf_event' evs -> run_all cfg Q s evs.
Proof.
  intros Hstep. induction evs as [|ev evs IH]; intros s Hr Hwf; cbn [run_all]; [exact I|].
  inversion Hwf as [|? ? Hev Hevs]; subst. split; [apply Hstep; assumption|].
  apply IH; [apply reach'_step; assumption|exact Hevs].
Qed.

Theorem chk_C23_all_histories cfg evs : wf_cfg' cfg -> Forall wf_event' evs ->
  run_all cfg (fun s ev => chk_C23 (obs_of_outs (snd (gw_step cfg s ev))) = []) (init_state cfg) evs.
Proof.
  intros Hcfg Hevs. apply run_all_lift'; [|constructor|exact Hevs].
  intros s ev Hr Hev. apply chk_C23_sound_partial'; assumption.
Qed.

Theorem chk_C24_all_histories cfg evs : wf_cfg' cfg -> Forall wf_event' evs ->
  run_all cfg (fun s ev => chk_C24 (obs_of_outs (snd (gw_step cfg s ev))) = []) (init_state cfg) evs.
Proof.
  intros Hcfg Hevs. apply run_all_lift'; [|constructor|exact Hevs].
  intros s ev Hr Hev. apply chk_C24_sound_partial; assumption.
Qed.
