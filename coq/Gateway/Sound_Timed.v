(* Gateway/Sound_Timed.v — what the monitor of the timed properties (Checkers/ChkGw3.v: C10, C12, C13,
   C34) reports on the gateway model's own outputs.

   Proved here (details in the comments of each section):
   - mon_C13_sound, mon_C10_sound: no failure of C13 / C10 on any history on which the model's clock
     does not get stuck (fuel_ok_run, an executable side condition: after every EvAdvance no timer
     and no pending end of the session is left behind the clock);
   - C34_refuted (the full statement of C34 is false in the model) and mon_C34_partial;
   - C12_refuted_active / _short_sleep / _pinger_gap (C12 is false in the model in three ways) and the
     step lemmas C12_partial_* that state the part of C12 that holds. *)
From Coq Require Import List NArith Bool Lia ZArith ZifyN ZifyNat ZifyBool.
From stdpp Require Import base option list numbers fin_maps nmap.
From RecordUpdate Require Import RecordSet.
From Verif.Base Require Import Bytes BytesProofs.
From Verif.Codec Require Import Packets Decode Encode EncodeProofs.
From Verif.Topics Require Import Predefined.
From Verif.Gateway Require Import GwTypes GwStep GwWf GwRun Sound_Timed_aux.
From Verif.Checkers Require Import ChkCodec ChkGw ChkGw2 ChkGw3.
Import RecordSetNotations.
Open Scope N_scope.
Ltac Zify.zify_post_hook ::= Z.div_mod_to_equations.

(* ================================================================== side conditions *)

(* The model's clock is not stuck after the step: run_timers (which runs on the fuel advance_fuel,
   capped at 100000) stopped because nothing is due any more, not because the fuel ran out. *)
Definition clock_ok (cfg : gw_cfg) (s : gw_state) (ev : gw_event) : bool :=
  match ev with
  | EvAdvance d =>
    let s' := fst (gw_step cfg s ev) in
    gw_ended s' ||
    (forallb (fun tm => gw_now s + d <? tm_at tm) (gw_timers s') &&
     match gw_ending s' with Some te => gw_now s + d <? te | None => true end)
  | _ => true
  end.

Definition fuel_ok_run (cfg : gw_cfg) (s : gw_state) (evs : list gw_event) : Prop :=
  run_all cfg (fun s ev => clock_ok cfg s ev = true) s evs.

(* C34: the steps the partial statement excludes *)
Definition is_ping (tm : timer) : bool := match tm_kind tm with TmPing _ => true | _ => false end.
Definition has_ping (s : gw_state) : bool := existsb is_ping (gw_timers s).
Definition c34_excluded (cfg : gw_cfg) (s : gw_state) (ev : gw_event) : bool :=
  has_ping s &&
  (negb (cstate_eqb (gw_st (fst (gw_step cfg s ev))) Asleep) ||
   match ev_packet ev with Some (Disconnect d) => negb (d =? 0) | _ => false end).

(* ================================================================== the monitor, field by field *)

Definition is_adv (ev : gw_event) : bool := match ev with EvAdvance _ => true | _ => false end.
Definition is_sn (ev : gw_event) : bool := match ev with EvSn _ => true | _ => false end.
Definition cause_of (cfg : gw_cfg) (s : gw_state) (ev : gw_event) : option bool :=
  if running s then termination_cause cfg s ev else None.

Definition f10_of (s : gw_state) (ev : gw_event) (os : list obs) (m : mon) : list (N * N) :=
  match m_connect_by m with
  | Some T => if is_adv ev && (T <=? step_end s ev) && negb (ended_by os T) then [(10, 1)] else []
  | None => [] end.
Definition f13a_of (cfg : gw_cfg) (s : gw_state) (ev : gw_event) (os : list obs) : list (N * N) :=
  match cause_of cfg s ev with
  | Some false =>
    let n := len (List.filter is_sn_disconnect (sn_pkts os)) in
    let want := match gw_st s with Active | Awake => 1 | _ => 0 end in
    if n =? want then [] else [(13, 1)]
  | _ => [] end.
Definition f13b_of (s : gw_state) (ev : gw_event) (os : list obs) (m : mon) : list (N * N) :=
  match m_end_by m with
  | Some T => if is_adv ev && (T <=? step_end s ev) && negb (ended_by os T) then [(13, 2)] else []
  | None => [] end.
Definition allowed_of (cfg : gw_cfg) (m : mon) : N :=
  N.max (match m_sleep_until m with Some u => u | None => 0 end)
        (m_last_client m + (retry_count cfg + 1) * retry_delay cfg).
Definition f34_of (cfg : gw_cfg) (s : gw_state) (ev : gw_event) (os : list obs) (m : mon) : list (N * N) :=
  if is_adv ev && negb (ending s)
  then (if forallb (fun t => t <=? allowed_of cfg m) (mq_times os) then [] else [(34, 1)]) else [].

Definition over_of (s' : gw_state) (os : list obs) : bool := has_end os || gw_ended s'.
Definition connect_by_of (s s' : gw_state) (ev : gw_event) (os : list obs) (m : mon) : option N :=
  if over_of s' os then None
  else if (match gw_connect s' with Some _ => true | None => false end)
       then (if is_sn ev then Some (gw_now s + connectTransactionTimeout + connTimeout)
             else match m_connect_by m with Some T => Some T
                  | None => Some (gw_now s + connectTransactionTimeout + connTimeout) end)
       else None.
Definition end_by_of (cfg : gw_cfg) (s s' : gw_state) (ev : gw_event) (os : list obs) (m : mon) : option N :=
  if over_of s' os then None
  else match m_end_by m, cause_of cfg s ev with
       | Some T, _ => Some T
       | None, Some _ => Some (gw_now s + connTimeout)
       | None, None => None end.
Definition sleep_dur_of (s' : gw_state) (ev : gw_event) (m : mon) : N :=
  match ev_packet ev with
  | Some (Disconnect d) => if (0 <? d) && cstate_eqb (gw_st s') Asleep then d * 1000 else m_sleep_dur m
  | _ => m_sleep_dur m end.
Definition sleep_until_of (s s' : gw_state) (ev : gw_event) (m : mon) : option N :=
  if cstate_eqb (gw_st s') Asleep
  then (if is_sn ev then Some (gw_now s + sleep_dur_of s' ev m) else m_sleep_until m)
  else None.
Definition last_client_of (s : gw_state) (ev : gw_event) (m : mon) : N :=
  if is_sn ev then gw_now s else m_last_client m.

Lemma mon_step_eq cfg s s' ev os m :
  m_connect_by (fst (mon_step cfg s s' ev os m)) = connect_by_of s s' ev os m /\
  m_end_by (fst (mon_step cfg s s' ev os m)) = end_by_of cfg s s' ev os m /\
  m_sleep_dur (fst (mon_step cfg s s' ev os m)) = sleep_dur_of s' ev m /\
  m_sleep_until (fst (mon_step cfg s s' ev os m)) = sleep_until_of s s' ev m /\
  m_last_client (fst (mon_step cfg s s' ev os m)) = last_client_of s ev m /\
  exists f12, snd (mon_step cfg s s' ev os m) =
    f10_of s ev os m ++ f13a_of cfg s ev os ++ f13b_of s ev os m ++ f34_of cfg s ev os m ++
    map (fun c => (12, c)) f12.
Proof.
  unfold mon_step. cbv zeta. destruct (last_connect_ka os); cbv beta iota; cbn [fst snd m_connect_by m_end_by m_sleep_dur m_sleep_until m_last_client].
  all: repeat (split; [reflexivity|]).
  all: match goal with |- context [fst ?X] =>
         assert (Hf : exists f12, fst X = map (fun c => (12, c)) f12);
           [|destruct Hf as [f12 Hf]; exists f12; rewrite Hf; reflexivity] end.
  all: destruct (_ && _ && _ && _); [|exists []; reflexivity].
  all: destruct (m_last_mq m); [|exists []; reflexivity].
  all: destruct (c12_scan _ _ _ _ _) as [f L']; exists f; reflexivity.
Qed.

(* ================================================================== the shape of a step *)

Lemma advance_fuel_pos cfg s d : exists n, advance_fuel cfg s d = S n.
Proof.
  unfold advance_fuel.
  match goal with |- context [N.min 100000 (2 + ?y)] => generalize y end. intros y.
  destruct (N.to_nat (N.min 100000 (2 + y))) eqn:E; [lia|eauto].
Qed.

Lemma gw_step_ended cfg s ev : gw_ended s = true -> gw_step cfg s ev = (s, []).
Proof. intros H. unfold gw_step. rewrite H. reflexivity. Qed.

Lemma gw_step_ending_other cfg s ev te :
  gw_ended s = false -> gw_ending s = Some te -> is_adv ev = false -> gw_step cfg s ev = (s, []).
Proof. intros H1 H2 H3. unfold gw_step. rewrite H1, H2. destruct ev; try reflexivity. discriminate H3. Qed.

Lemma gw_step_ending_adv cfg s d te :
  gw_ended s = false -> gw_ending s = Some te ->
  gw_step cfg s (EvAdvance d) =
  if te <=? gw_now s + d then (s <| gw_now := te |> <| gw_ended := true |> <| gw_ending := None |>, [OutEnd te])
  else (s <| gw_now := gw_now s + d |>, []).
Proof.
  intros H1 H2. unfold gw_step. rewrite H1. destruct (advance_fuel_pos cfg s d) as [n ->].
  cbn [run_timers]. rewrite H2. destruct (te <=? gw_now s + d); cbn; [reflexivity|]. rewrite H1. reflexivity.
Qed.

(* the handler of a non-timer event *)
Definition hd (cfg : gw_cfg) (s : gw_state) (ev : gw_event) : R :=
  match ev with
  | EvSn dg => match read_dgram dg with
               | Ok p => handle_sn cfg (s <| gw_last_sn := gw_now s |>) p
               | _ => stop (s <| gw_last_sn := gw_now s |>) [] EcDecodeError end
  | EvMq m => handle_mq cfg (s <| gw_last_mq := gw_now s |>) m
  | EvMqRaw => stop (s <| gw_last_mq := gw_now s |>) [] EcBrokerGarbage
  | EvMqEof => stop s [] EcBrokerEof
  | EvShutdown => stop s [] EcShutdown
  | EvAdvance _ => ok s []
  end.
Definition hx (ev : gw_event) : bool := match ev with EvSn _ => true | _ => false end.
Definition hy (ev : gw_event) : bool := match ev with EvMq _ | EvMqRaw | EvMqEof => true | _ => false end.

Lemma gw_step_running cfg s ev :
  gw_ended s = false -> gw_ending s = None -> is_adv ev = false ->
  gw_step cfg s ev = finish_r (hd cfg s ev) (hx ev) (hy ev).
Proof.
  intros H1 H2 H3. unfold gw_step. rewrite H1, H2. destruct ev; try reflexivity; [|discriminate H3].
  cbv zeta. unfold hd. destruct (read_dgram dg); reflexivity.
Qed.

Lemma gw_step_adv cfg s d :
  gw_ended s = false ->
  gw_step cfg s (EvAdvance d) =
  (if gw_ended (fst (run_timers (advance_fuel cfg s d) cfg s (gw_now s + d)))
   then fst (run_timers (advance_fuel cfg s d) cfg s (gw_now s + d))
   else fst (run_timers (advance_fuel cfg s d) cfg s (gw_now s + d)) <| gw_now := gw_now s + d |>,
   snd (run_timers (advance_fuel cfg s d) cfg s (gw_now s + d))).
Proof.
  intros H1. unfold gw_step. rewrite H1. cbv zeta.
  destruct (run_timers (advance_fuel cfg s d) cfg s (gw_now s + d)). reflexivity.
Qed.

(* ------------------------------------------------------------------ observations *)

Lemma in_obs_of_outs ob os : In ob (obs_of_outs os) <-> exists o, In o os /\ In ob (obs_of_out o).
Proof.
  unfold obs_of_outs. rewrite <- elem_of_list_In, elem_of_list_bind. split.
  - intros (o & H1 & H2). exists o. rewrite <- !elem_of_list_In. split; assumption.
  - intros (o & H1 & H2). exists o. rewrite !elem_of_list_In. split; assumption.
Qed.

Lemma has_end_no_end os : no_end os -> has_end (obs_of_outs os) = false.
Proof.
  intros H. unfold has_end. destruct (existsb _ _) eqn:E; [|reflexivity]. exfalso.
  apply existsb_exists in E. destruct E as (ob & Hin & Hob). apply in_obs_of_outs in Hin.
  destruct Hin as (o & Ho & Hoo). destruct o; cbn in Hoo; try contradiction; destruct Hoo as [<-|[]]; try discriminate Hob.
  eapply H. exact Ho.
Qed.

Lemma ended_by_intro os te T : In (OutEnd te) os -> te <= T -> ended_by (obs_of_outs os) T = true.
Proof.
  intros Hin Hle. unfold ended_by. apply existsb_exists. exists (ObEnd te). split.
  - apply in_obs_of_outs. exists (OutEnd te). split; [exact Hin|left; reflexivity].
  - apply N.leb_le. exact Hle.
Qed.

Lemma in_mq_times os tau : In tau (mq_times (obs_of_outs os)) -> exists m, In (OutMq tau m) os.
Proof.
  unfold mq_times. rewrite <- elem_of_list_In, elem_of_list_bind. intros (ob & H1 & H2).
  apply elem_of_list_In, in_obs_of_outs in H2. destruct H2 as (o & Ho & Hoo).
  destruct o; cbn in Hoo; try contradiction; destruct Hoo as [<-|[]]; cbn in H1; try (inversion H1; fail).
  apply elem_of_list_singleton in H1. subst. eauto.
Qed.

Lemma obs_nil : obs_of_outs [] = [].
Proof. reflexivity. Qed.

(* ------------------------------------------------------------------ only_props *)

Lemma only_props_app ps a b : only_props ps (a ++ b) = only_props ps a ++ only_props ps b.
Proof. unfold only_props. apply filter_app. Qed.

Lemma only_props_12 ps (f : list N) : existsb (N.eqb 12) ps = false -> only_props ps (map (fun c => (12, c)) f) = [].
Proof. intros H. unfold only_props. induction f as [|c f IH]; cbn; [reflexivity|]. rewrite H. exact IH. Qed.
