(* Gateway/Sound_Timed.v — what the monitor of the timed properties (Checkers/ChkGw3.v: C10, C12, C13,
   C34) reports on the gateway model's own outputs.

   Proved here (details in the comments of each section):
   - mon_C13_sound, mon_C10_sound: no failure of C13 / C10 on any history on which the model's clock
     does not get stuck (fuel_ok_run, an executable side condition: after every EvAdvance no timer
     and no pending end of the session is left behind the clock);
   - C34_refuted (the full statement of C34 is false in the model) and mon_C34_partial;
   - C12_refuted_active / _short_sleep / _pinger_gap (C12 is false in the model in three ways) and the
     step lemmas C12_partial_* that state the part of C12 that holds. *)
From Coq Require Import List NArith Bool Lia ZArith ZifyN ZifyNat ZifyBool.
From stdpp Require Import base option list numbers fin_maps nmap.
From RecordUpdate Require Import RecordSet.
From Verif.Base Require Import Bytes BytesProofs.
From Verif.Codec Require Import Packets Decode Encode EncodeProofs.
From Verif.Topics Require Import Predefined.
From Verif.Gateway Require Import GwTypes GwStep GwWf GwRun Sound_Timed_aux.
From Verif.Checkers Require Import ChkCodec ChkGw ChkGw2 ChkGw3.
Import RecordSetNotations.
Open Scope N_scope.
Ltac Zify.zify_post_hook ::= Z.div_mod_to_equations.

(* ================================================================== side conditions *)

(* The model's clock is not stuck after the step: run_timers (which runs on the fuel advance_fuel,
   capped at 100000) stopped because nothing is due any more, not because the fuel ran out. *)
Definition clock_ok (cfg : gw_cfg) (s : gw_state) (ev : gw_event) : bool :=
  match ev with
  | EvAdvance d =>
    let s' := fst (gw_step cfg s ev) in
    gw_ended s' ||
    (forallb (fun tm => gw_now s + d <? tm_at tm) (gw_timers s') &&
     match gw_ending s' with Some te => gw_now s + d <? te | None => true end)
  | _ => true
  end.

Definition fuel_ok_run (cfg : gw_cfg) (s : gw_state) (evs : list gw_event) : Prop :=
  run_all cfg (fun s ev => clock_ok cfg s ev = true) s evs.

(* C34: the steps the partial statement excludes *)
Definition is_ping (tm : timer) : bool := match tm_kind tm with TmPing _ => true | _ => false end.
Definition has_ping (s : gw_state) : bool := existsb is_ping (gw_timers s).
Definition c34_excluded (cfg : gw_cfg) (s : gw_state) (ev : gw_event) : bool :=
  has_ping s &&
  (negb (cstate_eqb (gw_st (fst (gw_step cfg s ev))) Asleep) ||
   match ev_packet ev with Some (Disconnect d) => negb (d =? 0) | _ => false end).

(* ================================================================== the monitor, field by field *)

Definition is_adv (ev : gw_event) : bool := match ev with EvAdvance _ => true | _ => false end.
Definition is_sn (ev : gw_event) : bool := match ev with EvSn _ => true | _ => false end.
Definition cause_of (cfg : gw_cfg) (s : gw_state) (ev : gw_event) : option bool :=
  if running s then termination_cause cfg s ev else None.

Definition f10_of (s : gw_state) (ev : gw_event) (os : list obs) (m : mon) : list (N * N) :=
  match m_connect_by m with
  | Some T => if is_adv ev && (T <=? step_end s ev) && negb (ended_by os T) then [(10, 1)] else []
  | None => [] end.
Definition f13a_of (cfg : gw_cfg) (s : gw_state) (ev : gw_event) (os : list obs) : list (N * N) :=
  match cause_of cfg s ev with
  | Some false =>
    let n := len (List.filter is_sn_disconnect (sn_pkts os)) in
    let want := match gw_st s with Active | Awake => 1 | _ => 0 end in
    if n =? want then [] else [(13, 1)]
  | _ => [] end.
Definition f13b_of (s : gw_state) (ev : gw_event) (os : list obs) (m : mon) : list (N * N) :=
  match m_end_by m with
  | Some T => if is_adv ev && (T <=? step_end s ev) && negb (ended_by os T) then [(13, 2)] else []
  | None => [] end.
Definition allowed_of (cfg : gw_cfg) (m : mon) : N :=
  N.max (match m_sleep_until m with Some u => u | None => 0 end)
        (m_last_client m + (retry_count cfg + 1) * retry_delay cfg).
Definition f34_of (cfg : gw_cfg) (s : gw_state) (ev : gw_event) (os : list obs) (m : mon) : list (N * N) :=
  if is_adv ev && negb (ending s)
  then (if forallb (fun t => t <=? allowed_of cfg m) (mq_times os) then [] else [(34, 1)]) else [].

Definition over_of (s' : gw_state) (os : list obs) : bool := has_end os || gw_ended s'.
Definition connect_by_of (s s' : gw_state) (ev : gw_event) (os : list obs) (m : mon) : option N :=
  if over_of s' os then None
  else if (match gw_connect s' with Some _ => true | None => false end)
       then (if is_sn ev then Some (gw_now s + connectTransactionTimeout + connTimeout)
             else match m_connect_by m with Some T => Some T
                  | None => Some (gw_now s + connectTransactionTimeout + connTimeout) end)
       else None.
Definition end_by_of (cfg : gw_cfg) (s s' : gw_state) (ev : gw_event) (os : list obs) (m : mon) : option N :=
  if over_of s' os then None
  else match m_end_by m, cause_of cfg s ev with
       | Some T, _ => Some T
       | None, Some _ => Some (gw_now s + connTimeout)
       | None, None => None end.
Definition sleep_dur_of (s' : gw_state) (ev : gw_event) (m : mon) : N :=
  match ev_packet ev with
  | Some (Disconnect d) => if (0 <? d) && cstate_eqb (gw_st s') Asleep then d * 1000 else m_sleep_dur m
  | _ => m_sleep_dur m end.
Definition sleep_until_of (s s' : gw_state) (ev : gw_event) (m : mon) : option N :=
  if cstate_eqb (gw_st s') Asleep
  then (if is_sn ev then Some (gw_now s + sleep_dur_of s' ev m) else m_sleep_until m)
  else None.
Definition last_client_of (s : gw_state) (ev : gw_event) (m : mon) : N :=
  if is_sn ev then gw_now s else m_last_client m.

Lemma mon_step_eq cfg s s' ev os m :
  m_connect_by (fst (mon_step cfg s s' ev os m)) = connect_by_of s s' ev os m /\
  m_end_by (fst (mon_step cfg s s' ev os m)) = end_by_of cfg s s' ev os m /\
  m_sleep_dur (fst (mon_step cfg s s' ev os m)) = sleep_dur_of s' ev m /\
  m_sleep_until (fst (mon_step cfg s s' ev os m)) = sleep_until_of s s' ev m /\
  m_last_client (fst (mon_step cfg s s' ev os m)) = last_client_of s ev m /\
  exists f12, snd (mon_step cfg s s' ev os m) =
    f10_of s ev os m ++ f13a_of cfg s ev os ++ f13b_of s ev os m ++ f34_of cfg s ev os m ++
    map (fun c => (12, c)) f12.
Proof.
  unfold mon_step. cbv zeta. destruct (last_connect_ka os); cbv beta iota; cbn [fst snd m_connect_by m_end_by m_sleep_dur m_sleep_until m_last_client].
  all: repeat (split; [reflexivity|]).
  all: match goal with |- context [fst ?X] =>
         assert (Hf : exists f12, fst X = map (fun c => (12, c)) f12);
           [|destruct Hf as [f12 Hf]; exists f12; rewrite Hf; reflexivity] end.
  all: destruct (_ && _ && _ && _); [|exists []; reflexivity].
  all: destruct (m_last_mq m); [|exists []; reflexivity].
  all: destruct (c12_scan _ _ _ _ _) as [f L']; exists f; reflexivity.
Qed.

(* ================================================================== the shape of a step *)

Lemma advance_fuel_pos cfg s d : exists n, advance_fuel cfg s d = S n.
Proof.
  unfold advance_fuel.
  match goal with |- context [N.min 100000 (2 + ?y)] => generalize y end. intros y.
  destruct (N.to_nat (N.min 100000 (2 + y))) eqn:E; [lia|eauto].
Qed.

Lemma gw_step_ended cfg s ev : gw_ended s = true -> gw_step cfg s ev = (s, []).
Proof. intros H. unfold gw_step. rewrite H. reflexivity. Qed.

Lemma gw_step_ending_other cfg s ev te :
  gw_ended s = false -> gw_ending s = Some te -> is_adv ev = false -> gw_step cfg s ev = (s, []).
Proof. intros H1 H2 H3. unfold gw_step. rewrite H1, H2. destruct ev; try reflexivity. discriminate H3. Qed.

Lemma gw_step_ending_adv cfg s d te :
  gw_ended s = false -> gw_ending s = Some te ->
  gw_step cfg s (EvAdvance d) =
  if te <=? gw_now s + d then (s <| gw_now := te |> <| gw_ended := true |> <| gw_ending := None |>, [OutEnd te])
  else (s <| gw_now := gw_now s + d |>, []).
Proof.
  intros H1 H2. unfold gw_step. rewrite H1. destruct (advance_fuel_pos cfg s d) as [n ->].
  cbn [run_timers]. rewrite H2. destruct (te <=? gw_now s + d); cbn; [reflexivity|]. rewrite H1. reflexivity.
Qed.

(* the handler of a non-timer event *)
Definition hd (cfg : gw_cfg) (s : gw_state) (ev : gw_event) : R :=
  match ev with
  | EvSn dg => match read_dgram dg with
               | Ok p => handle_sn cfg (s <| gw_last_sn := gw_now s |>) p
               | _ => stop (s <| gw_last_sn := gw_now s |>) [] EcDecodeError end
  | EvMq m => handle_mq cfg (s <| gw_last_mq := gw_now s |>) m
  | EvMqRaw => stop (s <| gw_last_mq := gw_now s |>) [] EcBrokerGarbage
  | EvMqEof => stop s [] EcBrokerEof
  | EvShutdown => stop s [] EcShutdown
  | EvAdvance _ => ok s []
  end.
Definition hx (ev : gw_event) : bool := match ev with EvSn _ => true | _ => false end.
Definition hy (ev : gw_event) : bool := match ev with EvMq _ | EvMqRaw | EvMqEof => true | _ => false end.

Lemma gw_step_running cfg s ev :
  gw_ended s = false -> gw_ending s = None -> is_adv ev = false ->
  gw_step cfg s ev = finish_r (hd cfg s ev) (hx ev) (hy ev).
Proof.
  intros H1 H2 H3. unfold gw_step. rewrite H1, H2. destruct ev; try reflexivity; [|discriminate H3].
  cbv zeta. unfold hd. destruct (read_dgram dg); reflexivity.
Qed.

Lemma gw_step_adv cfg s d :
  gw_ended s = false ->
  gw_step cfg s (EvAdvance d) =
  (if gw_ended (fst (run_timers (advance_fuel cfg s d) cfg s (gw_now s + d)))
   then fst (run_timers (advance_fuel cfg s d) cfg s (gw_now s + d))
   else fst (run_timers (advance_fuel cfg s d) cfg s (gw_now s + d)) <| gw_now := gw_now s + d |>,
   snd (run_timers (advance_fuel cfg s d) cfg s (gw_now s + d))).
Proof.
  intros H1. unfold gw_step. rewrite H1. cbv zeta.
  destruct (run_timers (advance_fuel cfg s d) cfg s (gw_now s + d)). reflexivity.
Qed.

(* ------------------------------------------------------------------ observations *)

Lemma in_obs_of_outs ob os : In ob (obs_of_outs os) <-> exists o, In o os /\ In ob (obs_of_out o).
Proof.
  unfold obs_of_outs. rewrite <- elem_of_list_In, elem_of_list_bind. split.
  - intros (o & H1 & H2). exists o. rewrite <- !elem_of_list_In. split; assumption.
  - intros (o & H1 & H2). exists o. rewrite !elem_of_list_In. split; assumption.
Qed.

Lemma has_end_no_end os : no_end os -> has_end (obs_of_outs os) = false.
Proof.
  intros H. unfold has_end. destruct (existsb _ _) eqn:E; [|reflexivity]. exfalso.
  apply existsb_exists in E. destruct E as (ob & Hin & Hob). apply in_obs_of_outs in Hin.
  destruct Hin as (o & Ho & Hoo). destruct o; cbn in Hoo; try contradiction; destruct Hoo as [<-|[]]; try discriminate Hob.
  eapply H. exact Ho.
Qed.

Lemma ended_by_intro os te T : In (OutEnd te) os -> te <= T -> ended_by (obs_of_outs os) T = true.
Proof.
  intros Hin Hle. unfold ended_by. apply existsb_exists. exists (ObEnd te). split.
  - apply in_obs_of_outs. exists (OutEnd te). split; [exact Hin|left; reflexivity].
  - apply N.leb_le. exact Hle.
Qed.

Lemma in_mq_times os tau : In tau (mq_times (obs_of_outs os)) -> exists m, In (OutMq tau m) os.
Proof.
  unfold mq_times. rewrite <- elem_of_list_In, elem_of_list_bind. intros (ob & H1 & H2).
  apply elem_of_list_In, in_obs_of_outs in H2. destruct H2 as (o & Ho & Hoo).
  destruct o; cbn in Hoo; try contradiction; destruct Hoo as [<-|[]]; cbn in H1; try (inversion H1; fail).
  apply elem_of_list_singleton in H1. subst. eauto.
Qed.

Lemma obs_nil : obs_of_outs [] = [].
Proof. reflexivity. Qed.

(* ------------------------------------------------------------------ only_props *)

Lemma only_props_app ps a b : only_props ps (a ++ b) = only_props ps a ++ only_props ps b.
Proof. unfold only_props. apply filter_app. Qed.

Lemma only_props_12 ps (f : list N) : existsb (N.eqb 12) ps = false -> only_props ps (map (fun c => (12, c)) f) = [].
Proof. intros H. unfold only_props. induction f as [|c f IH]; cbn; [reflexivity|]. rewrite H. exact IH. Qed.

(* ================================================================== causes of termination *)

Lemma read_disconnect0 : read_dgram (pack (Disconnect 0)) = Ok (Disconnect 0).
Proof. vm_compute. reflexivity. Qed.

Lemma handle_sn_disc0_end cfg s : exists S o c, handle_sn cfg s (Disconnect 0) = (S, o, HEnd c).
Proof.
  unfold handle_sn. assert (Hl : packet_legal cfg s (Disconnect 0) = true) by (unfold packet_legal; destruct (gw_st s); reflexivity).
  rewrite Hl. cbn [negb]. change (0 =? 0) with true. cbv iota. unfold mq_send, sn_send, sn_send_owned. cbn [gw_st set].
  cbn [ok andthen]. destruct (len (pack (Disconnect 0)) <=? MaxPacketLen); cbn; eauto.
Qed.

Lemma handle_sn_illegal cfg s p : packet_legal cfg s p = false -> handle_sn cfg s p = stop s [] EcIllegalPacket.
Proof. intros H. unfold handle_sn. rewrite H. reflexivity. Qed.

Lemma packet_legal_last_sn cfg s x p : packet_legal cfg (s <| gw_last_sn := x |>) p = packet_legal cfg s p.
Proof. reflexivity. Qed.

(* a cause other than the client's own DISCONNECT: the handler stops at once *)
Lemma cause_false_stop cfg s ev :
  cause_of cfg s ev = Some false -> exists s0 c, hd cfg s ev = stop s0 [] c /\ gw_st s0 = gw_st s /\ gw_now s0 = gw_now s.
Proof.
  unfold cause_of. destruct (running s); [|discriminate]. unfold termination_cause, hd.
  destruct ev as [dg|m| | |d|]; try discriminate; try (intros _; eexists _, _; split; [reflexivity|split; reflexivity]).
  destruct (read_dgram dg) as [p|e|ps]; try (intros _; eexists _, _; split; [reflexivity|split; reflexivity]).
  intros H. exists (s <| gw_last_sn := gw_now s |>), EcIllegalPacket. split; [|split; reflexivity].
  apply handle_sn_illegal. rewrite packet_legal_last_sn.
  destruct p; try (destruct (packet_legal cfg s _); [discriminate H|reflexivity]).
  destruct (dur =? 0); [discriminate H|]. destruct (packet_legal cfg s _); [discriminate H|reflexivity].
Qed.

Lemma cause_ends cfg s ev b :
  cause_of cfg s ev = Some b -> exists S o c, hd cfg s ev = (S, o, HEnd c).
Proof.
  destruct b.
  - unfold cause_of. destruct (running s); [|discriminate]. unfold termination_cause, hd.
    destruct ev as [dg|m| | |d|]; try discriminate.
    destruct (read_dgram dg) as [p|e|ps]; try discriminate.
    destruct p; try (destruct (packet_legal cfg s _); discriminate).
    destruct (dur =? 0) eqn:Hd; [|destruct (packet_legal cfg s _); discriminate].
    apply N.eqb_eq in Hd. subst dur. intros _. apply handle_sn_disc0_end.
  - intros H. destruct (cause_false_stop cfg s ev H) as (s0 & c & E & _). rewrite E. unfold stop. eauto.
Qed.

Lemma f13a_ok cfg s ev :
  f13a_of cfg s ev (obs_of_outs (snd (finish_r (hd cfg s ev) (hx ev) (hy ev)))) = [].
Proof.
  unfold f13a_of. destruct (cause_of cfg s ev) as [[|]|] eqn:Hc; try reflexivity.
  destruct (cause_false_stop cfg s ev Hc) as (s0 & c & E & Hst & _). rewrite E.
  unfold stop, finish_r, begin_end. cbn [snd app]. rewrite Hst.
  unfold sn_pkts, sns. destruct (gw_st s); cbn; rewrite ?read_disconnect0; reflexivity.
Qed.

Lemma handle_sn_disc_asleep cfg s d S o :
  d <> 0 -> handle_sn cfg s (Disconnect d) = (S, o, HOk) -> gw_st S = Asleep.
Proof.
  intros Hd. unfold handle_sn. destruct (negb (packet_legal cfg s (Disconnect d))); [discriminate|].
  apply N.eqb_neq in Hd. rewrite Hd. cbv zeta.
  match goal with |- context [sn_send_now ?S0 ?p] => destruct (sn_send_now S0 p) as [[s1 o1] [|e]] end; cbn; intros H; inversion H.
  reflexivity.
Qed.

(* ================================================================== the joint invariant *)

Definition Bof (s : gw_state) (cb : option N) : N := match cb with Some T => T | None => gw_now s + 5100 end.

Record GJ (cfg : gw_cfg) (PF : Prop) (s : gw_state) (cb eb : option N) (sd : N) (su : option N) (lc : N) : Prop := {
  gj_lc : lc <= gw_now s;
  gj_cb : forall T, cb = Some T -> T <= gw_now s + 5100 /\ gw_ended s = false /\ gw_connect s <> None;
  gj_cb' : gw_ended s = false -> gw_connect s <> None -> cb <> None;
  gj_su : forall u, su = Some u -> u = lc + sd;
  gj_eb : forall T, eb = Some T -> gw_ended s = false /\ exists te, gw_ending s = Some te /\ te <= T;
  gj_ph : gw_ended s = true \/
          (gw_ended s = false /\ exists te, gw_ending s = Some te /\ gw_now s <= te <= gw_now s + 100 /\
               forall T, cb = Some T -> te <= T) \/
          TI cfg PF (Bof s cb) lc su (gw_now s) s }.

Definition GJm cfg PF s m := GJ cfg PF s (m_connect_by m) (m_end_by m) (m_sleep_dur m) (m_sleep_until m) (m_last_client m).

Definition okF (cfg : gw_cfg) (PF : Prop) (s : gw_state) (ev : gw_event) (os : list obs) (m : mon) : Prop :=
  f10_of s ev os m = [] /\ f13a_of cfg s ev os = [] /\ f13b_of s ev os m = [] /\ (PF -> f34_of cfg s ev os m = []).

Lemma is_sn_packet ev : is_sn ev = false -> ev_packet ev = None.
Proof. destruct ev; try reflexivity. discriminate. Qed.

Lemma su_ok s s' ev m :
  (forall u, m_sleep_until m = Some u -> u = m_last_client m + m_sleep_dur m) ->
  forall u, sleep_until_of s s' ev m = Some u -> u = last_client_of s ev m + sleep_dur_of s' ev m.
Proof.
  intros H u. unfold sleep_until_of, last_client_of. destruct (cstate_eqb (gw_st s') Asleep); [|discriminate].
  destruct (is_sn ev) eqn:E; [intros Hu; inversion Hu; reflexivity|].
  intros Hu. unfold sleep_dur_of. rewrite (is_sn_packet ev E). apply H, Hu.
Qed.

Lemma has_ping_false s : has_ping s = false -> no_ping s.
Proof.
  unfold has_ping, no_ping. intros H tm p Hin Hk.
  assert (existsb is_ping (gw_timers s) = true); [|congruence].
  apply existsb_exists. exists tm. split; [exact Hin|]. unfold is_ping. rewrite Hk. reflexivity.
Qed.

Lemma has_ping_true s : has_ping s = true -> exists tm p, In tm (gw_timers s) /\ tm_kind tm = TmPing p.
Proof.
  unfold has_ping. intros H. apply existsb_exists in H. destruct H as (tm & Hin & Hk). unfold is_ping in Hk.
  destruct (tm_kind tm) eqn:E; try discriminate. eauto.
Qed.

Lemma TI_last_sn cfg PF B L U t0 s : TI cfg PF B L U t0 s -> TI cfg PF B L U t0 (s <| gw_last_sn := gw_now s |>).
Proof. intros H. destruct H. constructor; cbn; try assumption. lia. Qed.
Lemma TI_last_mq cfg PF B L U t0 s : TI cfg PF B L U t0 s -> TI cfg PF B L U t0 (s <| gw_last_mq := gw_now s |>).
Proof. intros H. destruct H. constructor; cbn; try assumption. lia. Qed.

Lemma hd_pt cfg PF B L U t0 s ev :
  TI cfg PF B L U t0 s ->
  (is_sn ev = true -> t0 + connectTransactionTimeout + connTimeout <= B /\ t0 <= L) ->
  (PF -> forall d, ev_packet ev = Some (Disconnect d) -> d <> 0 -> exists u, U = Some u /\ t0 + d * 1000 <= u) ->
  PT cfg PF B L U t0 (hd cfg s ev).
Proof.
  intros H Hsn HU. unfold hd. destruct ev as [dg|m| | |d|].
  - destruct (Hsn eq_refl) as [HB HL]. cbn [ev_packet] in HU.
    destruct (read_dgram dg) as [p|e|ps]; try (apply pt_stop, TI_last_sn, H).
    apply handle_sn_pt; [apply TI_last_sn, H|exact HB|exact HL|].
    intros HP d0 E. subst p. apply (HU HP d0 eq_refl).
  - apply handle_mq_pt, TI_last_mq, H.
  - apply pt_stop, TI_last_mq, H.
  - apply pt_stop, H.
  - apply pt_ok, H.
  - apply pt_stop, H.
Qed.

(* ================================================================== one step of the monitor *)

Definition Concl (cfg : gw_cfg) (PF : Prop) (s : gw_state) (ev : gw_event) (m : mon) : Prop :=
  GJ cfg PF (fst (gw_step cfg s ev))
     (connect_by_of s (fst (gw_step cfg s ev)) ev (obs_of_outs (snd (gw_step cfg s ev))) m)
     (end_by_of cfg s (fst (gw_step cfg s ev)) ev (obs_of_outs (snd (gw_step cfg s ev))) m)
     (sleep_dur_of (fst (gw_step cfg s ev)) ev m)
     (sleep_until_of s (fst (gw_step cfg s ev)) ev m)
     (last_client_of s ev m) /\
  okF cfg PF s ev (obs_of_outs (snd (gw_step cfg s ev))) m.

Lemma lc_ok s ev m : m_last_client m <= gw_now s -> last_client_of s ev m <= gw_now s.
Proof. intros H. unfold last_client_of. destruct (is_sn ev); [lia|exact H]. Qed.

Lemma step_ended cfg PF s ev m : GJm cfg PF s m -> gw_ended s = true -> Concl cfg PF s ev m.
Proof.
  intros G He. unfold Concl. rewrite (gw_step_ended cfg s ev He). cbn [fst snd]. rewrite obs_nil.
  assert (Hov : over_of s [] = true) by (unfold over_of; rewrite He; apply orb_true_r).
  unfold connect_by_of, end_by_of. rewrite Hov. split.
  - constructor.
    + apply lc_ok, G.
    + intros T E. discriminate E.
    + intros E. congruence.
    + apply su_ok, G.
    + intros T E. discriminate E.
    + left. exact He.
  - unfold okF, f10_of, f13a_of, f13b_of, f34_of, cause_of, running, ending. rewrite He. cbn [negb andb orb].
    split; [|split; [reflexivity|split]].
    + destruct (m_connect_by m) as [T|] eqn:E; [|reflexivity]. destruct (gj_cb _ _ _ _ _ _ _ _ G T E) as (_ & A & _). congruence.
    + destruct (m_end_by m) as [T|] eqn:E; [|reflexivity]. destruct (gj_eb _ _ _ _ _ _ _ _ G T E) as (A & _). congruence.
    + intros _. rewrite andb_false_r. reflexivity.
Qed.

Lemma step_ending cfg PF s ev m te :
  GJm cfg PF s m -> gw_ended s = false -> gw_ending s = Some te -> gw_now s <= te <= gw_now s + 100 ->
  (forall T, m_connect_by m = Some T -> te <= T) -> Concl cfg PF s ev m.
Proof.
  intros G He Hing Hte HT.
  assert (Hcause : cause_of cfg s ev = None) by (unfold cause_of, running; rewrite Hing, andb_false_r; reflexivity).
  assert (Hending : ending s = true) by (unfold ending; rewrite Hing; apply orb_true_r).
  assert (Heb : forall T, m_end_by m = Some T -> te <= T).
  { intros T E. destruct (gj_eb _ _ _ _ _ _ _ _ G T E) as (_ & te' & A & A'). congruence. }
  assert (Hf13a : forall os, f13a_of cfg s ev os = []) by (intros os; unfold f13a_of; rewrite Hcause; reflexivity).
  assert (Hf34 : forall os, f34_of cfg s ev os m = []).
  { intros os. unfold f34_of. rewrite Hending. cbn [negb]. rewrite andb_false_r. reflexivity. }
  unfold Concl. destruct (is_adv ev) eqn:Hadv.
  - destruct ev as [| | | |d|]; try discriminate Hadv. rewrite (gw_step_ending_adv cfg s d te He Hing).
    destruct (te <=? gw_now s + d) eqn:Hdue; cbn [fst snd].
    + apply N.leb_le in Hdue.
      assert (Hov : forall os, over_of (s <| gw_now := te |> <| gw_ended := true |> <| gw_ending := None |>) os = true).
      { intros os. unfold over_of. cbn. apply orb_true_r. }
      unfold connect_by_of, end_by_of. rewrite Hov. split.
      * constructor.
        -- cbn. pose proof (gj_lc _ _ _ _ _ _ _ _ G). unfold last_client_of. cbn. lia.
        -- intros T E. discriminate E.
        -- cbn. intros E. discriminate E.
        -- apply su_ok, G.
        -- intros T E. discriminate E.
        -- left. reflexivity.
      * unfold okF. split; [|split; [apply Hf13a|split; [|intros _; apply Hf34]]].
        -- unfold f10_of. destruct (m_connect_by m) as [T|] eqn:E; [|reflexivity].
           rewrite (ended_by_intro [OutEnd te] te T); [rewrite andb_false_r; reflexivity|left; reflexivity|apply HT; reflexivity].
        -- unfold f13b_of. destruct (m_end_by m) as [T|] eqn:E; [|reflexivity].
           rewrite (ended_by_intro [OutEnd te] te T); [rewrite andb_false_r; reflexivity|left; reflexivity|apply Heb; reflexivity].
    + apply N.leb_gt in Hdue. rewrite obs_nil.
      assert (Hov : over_of (s <| gw_now := gw_now s + d |>) [] = false) by (unfold over_of; cbn; exact He).
      unfold connect_by_of, end_by_of. rewrite Hov, Hcause. cbn [is_sn gw_connect set]. split.
      * constructor.
        -- cbn. pose proof (gj_lc _ _ _ _ _ _ _ _ G). unfold last_client_of. cbn. lia.
        -- cbn. intros T E. destruct (gw_connect s) as [g|] eqn:Hg; [|discriminate E]. split; [|split; [exact He|discriminate]].
           destruct (m_connect_by m) as [T0|] eqn:E0; inversion E; subst.
           ++ destruct (gj_cb _ _ _ _ _ _ _ _ G T E0) as (A & _). lia.
           ++ unfold connectTransactionTimeout, connTimeout. lia.
        -- cbn. intros _ Hc. destruct (gw_connect s); [|congruence]. destruct (m_connect_by m); discriminate.
        -- apply su_ok, G.
        -- cbn. intros T E. destruct (m_end_by m) as [T0|] eqn:E0; inversion E; subst. split; [exact He|].
           exists te. split; [exact Hing|apply Heb; reflexivity].
        -- right. left. cbn. split; [exact He|]. exists te. split; [exact Hing|]. split; [lia|].
           intros T E. destruct (gw_connect s); [|discriminate E].
           destruct (m_connect_by m) as [T0|] eqn:E0; inversion E; subst; [apply HT; reflexivity|].
           unfold connectTransactionTimeout, connTimeout. lia.
      * unfold okF. split; [|split; [apply Hf13a|split; [|intros _; apply Hf34]]].
        -- unfold f10_of. destruct (m_connect_by m) as [T|] eqn:E; [|reflexivity]. specialize (HT T eq_refl).
           cbn [step_end]. destruct (N.leb_spec T (gw_now s + d)); [lia|]. rewrite andb_false_r. reflexivity.
        -- unfold f13b_of. destruct (m_end_by m) as [T|] eqn:E; [|reflexivity]. specialize (Heb T eq_refl).
           cbn [step_end]. destruct (N.leb_spec T (gw_now s + d)); [lia|]. rewrite andb_false_r. reflexivity.
  - rewrite (gw_step_ending_other cfg s ev te He Hing Hadv). cbn [fst snd]. rewrite obs_nil.
    assert (Hov : over_of s [] = false) by (unfold over_of; cbn; exact He).
    unfold connect_by_of, end_by_of. rewrite Hov, Hcause. split.
    + constructor.
      * apply lc_ok, G.
      * intros T E. destruct (gw_connect s) as [g|] eqn:Hg; [|discriminate E]. split; [|split; [exact He|discriminate]].
        destruct (is_sn ev); [inversion E; unfold connectTransactionTimeout, connTimeout; lia|].
        destruct (m_connect_by m) as [T0|] eqn:E0; inversion E; subst.
        -- destruct (gj_cb _ _ _ _ _ _ _ _ G T E0) as (A & _). lia.
        -- unfold connectTransactionTimeout, connTimeout. lia.
      * intros _ Hc. destruct (gw_connect s); [|congruence]. destruct (is_sn ev); [discriminate|]. destruct (m_connect_by m); discriminate.
      * apply su_ok, G.
      * intros T E. destruct (m_end_by m) as [T0|] eqn:E0; inversion E; subst. split; [exact He|].
        exists te. split; [exact Hing|apply Heb; reflexivity].
      * right. left. split; [exact He|]. exists te. split; [exact Hing|]. split; [exact Hte|].
        intros T E. destruct (gw_connect s); [|discriminate E].
        destruct (is_sn ev); [inversion E; unfold connectTransactionTimeout, connTimeout; lia|].
        destruct (m_connect_by m) as [T0|] eqn:E0; inversion E; subst; [apply HT; reflexivity|].
        unfold connectTransactionTimeout, connTimeout. lia.
    + unfold okF. split; [|split; [apply Hf13a|split; [|intros _; apply Hf34]]].
      * unfold f10_of. rewrite Hadv. destruct (m_connect_by m); reflexivity.
      * unfold f13b_of. rewrite Hadv. destruct (m_end_by m); reflexivity.
Qed.

Lemma ev_packet_some ev p : ev_packet ev = Some p -> exists dg, ev = EvSn dg /\ read_dgram dg = Ok p.
Proof.
  destruct ev as [dg|m| | |d|]; cbn; try (intros H; discriminate H).
  destruct (read_dgram dg) as [p'|e|ps] eqn:Hr; try (intros H; discriminate H). intros H. inversion H; subst.
  exists dg. split; [reflexivity|exact Hr].
Qed.

(* the announced end of the sleep the handler is run with: a new announcement counts at once *)
Definition Upre (s s' : gw_state) (ev : gw_event) (m : mon) : option N :=
  match ev_packet ev with
  | Some (Disconnect d) => if d =? 0 then sleep_until_of s s' ev m else Some (gw_now s + d * 1000)
  | _ => sleep_until_of s s' ev m end.

Lemma Upre_eq cfg s ev m S o : hd cfg s ev = (S, o, HOk) -> Upre s S ev m = sleep_until_of s S ev m.
Proof.
  unfold Upre. destruct (ev_packet ev) as [p|] eqn:Hp; [|reflexivity]. destruct p; try reflexivity.
  destruct (dur =? 0) eqn:Hd; [reflexivity|]. intros Hr.
  apply ev_packet_some in Hp. destruct Hp as (dg & -> & Hdg). unfold hd in Hr. rewrite Hdg in Hr.
  apply N.eqb_neq in Hd. apply handle_sn_disc_asleep in Hr; [|exact Hd].
  unfold sleep_until_of, sleep_dur_of. cbn [is_sn ev_packet]. rewrite Hdg, Hr. cbn [cstate_eqb].
  assert (E : (0 <? dur) = true) by (apply N.ltb_lt; lia). rewrite E. reflexivity.
Qed.

Lemma Upre_mono cfg PF s s' ev m B :
  GJm cfg PF s m -> TI cfg PF B (m_last_client m) (m_sleep_until m) (gw_now s) s -> PF ->
  has_ping s && (negb (cstate_eqb (gw_st s') Asleep) ||
                 match ev_packet ev with Some (Disconnect d) => negb (d =? 0) | _ => false end) = false ->
  Upre s s' ev m = m_sleep_until m \/ no_ping s \/
  exists u u', m_sleep_until m = Some u /\ Upre s s' ev m = Some u' /\ u <= u'.
Proof.
  intros G H HP Hex. destruct (has_ping s) eqn:Hp; [|right; left; apply has_ping_false, Hp].
  cbn [andb] in Hex. apply orb_false_iff in Hex. destruct Hex as [Hex1 Hex2]. apply negb_false_iff in Hex1.
  assert (E1 : Upre s s' ev m = sleep_until_of s s' ev m).
  { unfold Upre. destruct (ev_packet ev) as [p|]; [|reflexivity]. destruct p; try reflexivity.
    apply negb_false_iff in Hex2. rewrite Hex2. reflexivity. }
  assert (E2 : sleep_dur_of s' ev m = m_sleep_dur m).
  { unfold sleep_dur_of. destruct (ev_packet ev) as [p|]; [|reflexivity]. destruct p; try reflexivity.
    apply negb_false_iff, N.eqb_eq in Hex2. subst dur. reflexivity. }
  rewrite E1. unfold sleep_until_of. rewrite Hex1, E2. destruct (is_sn ev); [|left; reflexivity].
  right. right. apply has_ping_true in Hp. destruct Hp as (tm & p & Hin & Hk).
  destruct (ti_ping _ _ _ _ _ _ _ H HP tm p Hin Hk) as (u & _ & Hu & _). exists u. eexists. split; [exact Hu|].
  split; [reflexivity|]. rewrite (gj_su _ _ _ _ _ _ _ _ G u Hu). pose proof (gj_lc _ _ _ _ _ _ _ _ G). lia.
Qed.


Lemma Bof_bound cfg PF s m : GJm cfg PF s m -> Bof s (m_connect_by m) <= gw_now s + 5100.
Proof.
  intros G. unfold Bof. destruct (m_connect_by m) as [T|] eqn:E; [|lia].
  destruct (gj_cb _ _ _ _ _ _ _ _ G T E) as (A & _). exact A.
Qed.

Lemma step_running cfg PF s ev m :
  GJm cfg PF s m ->
  TI cfg PF (Bof s (m_connect_by m)) (m_last_client m) (m_sleep_until m) (gw_now s) s ->
  is_adv ev = false -> (PF -> c34_excluded cfg s ev = false) -> Concl cfg PF s ev m.
Proof.
  intros G H Hadv Hex.
  pose proof (ti_ended _ _ _ _ _ _ _ H) as He. pose proof (ti_ending _ _ _ _ _ _ _ H) as Hing.
  assert (Hmeb : m_end_by m = None).
  { destruct (m_end_by m) as [T|] eqn:E; [|reflexivity]. destruct (gj_eb _ _ _ _ _ _ _ _ G T E) as (_ & te & A & _). congruence. }
  pose proof (Bof_bound cfg PF s m G) as HBb. pose proof (gj_lc _ _ _ _ _ _ _ _ G) as Hlc.
  unfold Concl, c34_excluded in *. rewrite (gw_step_running cfg s ev He Hing Hadv) in *.
  pose proof (f13a_ok cfg s ev) as Hf13a.
  set (B2 := if is_sn ev then gw_now s + connectTransactionTimeout + connTimeout else Bof s (m_connect_by m)).
  assert (HB2 : Bof s (m_connect_by m) <= B2 /\ B2 <= gw_now s + 5100).
  { subst B2. unfold connectTransactionTimeout, connTimeout. destruct (is_sn ev); lia. }
  assert (HPT : PT cfg PF B2 (last_client_of s ev m)
                   (Upre s (fst (finish_r (hd cfg s ev) (hx ev) (hy ev))) ev m) (gw_now s) (hd cfg s ev)).
  { apply hd_pt.
    - apply (TI_mono _ _ _ _ _ _ _ B2 _ _ H); [apply HB2|unfold last_client_of; destruct (is_sn ev); lia|].
      intros HP. apply (Upre_mono cfg PF s _ ev m _ G H HP). apply Hex, HP.
    - intros Hsn. subst B2. unfold last_client_of. rewrite Hsn. split; lia.
    - intros HP d Hp Hd. unfold Upre. rewrite Hp. apply N.eqb_neq in Hd. rewrite Hd. eexists. split; [reflexivity|lia]. }
  assert (Hf10 : forall os, f10_of s ev os m = []) by (intros os; unfold f10_of; rewrite Hadv; destruct (m_connect_by m); reflexivity).
  assert (Hf13b : forall os, f13b_of s ev os m = []) by (intros os; unfold f13b_of; rewrite Hadv; destruct (m_end_by m); reflexivity).
  assert (Hf34 : forall os, f34_of cfg s ev os m = []) by (intros os; unfold f34_of; rewrite Hadv; reflexivity).
  assert (HokF : okF cfg PF s ev (obs_of_outs (snd (finish_r (hd cfg s ev) (hx ev) (hy ev)))) m).
  { unfold okF. split; [apply Hf10|]. split; [exact Hf13a|]. split; [apply Hf13b|intros _; apply Hf34]. }
  split; [|exact HokF]. clear HokF Hf10 Hf13a Hf13b Hf34 Hex.
  pose proof (cause_ends cfg s ev) as Hce.
  pose proof (Upre_eq cfg s ev m) as Hup.
  destruct (hd cfg s ev) as [[S o] res].
  destruct HPT as [HTI Hne]. cbn [st_of outs_of fst snd] in HTI, Hne.
  destruct res as [|c].
  - (* the session goes on *)
    cbn [finish_r fst snd] in *. rewrite (Hup S o eq_refl) in HTI.
    pose proof (ti_now _ _ _ _ _ _ _ HTI) as HnowS. pose proof (ti_ended _ _ _ _ _ _ _ HTI) as HeS.
    assert (Hov : over_of S (obs_of_outs o) = false) by (unfold over_of; rewrite (has_end_no_end o Hne), HeS; reflexivity).
    assert (Hcause : cause_of cfg s ev = None).
    { destruct (cause_of cfg s ev) as [b|] eqn:E; [|reflexivity]. destruct (Hce b eq_refl) as (S1 & o1 & c1 & E1). discriminate E1. }
    unfold connect_by_of, end_by_of. rewrite Hov, Hmeb, Hcause.
    constructor.
    + rewrite HnowS. apply lc_ok, Hlc.
    + intros T E. destruct (gw_connect S) as [g|] eqn:Hg; [|discriminate E]. rewrite HnowS.
      split; [|split; [exact HeS|discriminate]].
      destruct (is_sn ev); [inversion E; unfold connectTransactionTimeout, connTimeout; lia|].
      destruct (m_connect_by m) as [T0|] eqn:E0; inversion E; subst; [exact HBb|].
      unfold connectTransactionTimeout, connTimeout. lia.
    + intros _ Hc. destruct (gw_connect S); [|congruence]. destruct (is_sn ev); [discriminate|]. destruct (m_connect_by m); discriminate.
    + apply su_ok, G.
    + intros T E. discriminate E.
    + right. right. rewrite HnowS. apply (TI_mono _ _ _ _ _ _ _ _ _ _ HTI); [|lia|intros _; left; reflexivity].
      unfold Bof at 1. rewrite HnowS. destruct (gw_connect S); [|apply HB2]. subst B2.
      destruct (is_sn ev); [unfold connectTransactionTimeout, connTimeout; lia|].
      destruct (m_connect_by m) as [T0|]; [cbn; lia|unfold connectTransactionTimeout, connTimeout; cbn; lia].
  - (* the session is cancelled *)
    pose proof (begin_end_spec (gw_now s) S c (hx ev) (hy ev) (TI_TB _ _ _ _ _ _ _ HTI)) as (B1 & B2' & B3 & B4 & te & B5 & B6).
    destruct (begin_end_quiet cfg PF 0 None S c (hx ev) (hy ev)) as [_ Q2].
    cbn [finish_r]. destruct (begin_end S c (hx ev) (hy ev)) as [s1 o1]. cbn [fst snd] in *.
    assert (Hov : over_of s1 (obs_of_outs (o ++ o1)) = false).
    { unfold over_of. rewrite (has_end_no_end _ (no_end_app _ _ Hne Q2)), B1. reflexivity. }
    unfold connect_by_of, end_by_of. rewrite Hov, Hmeb.
    assert (HT : forall T, (if match gw_connect s1 with Some _ => true | None => false end
                        then if is_sn ev then Some (gw_now s + connectTransactionTimeout + connTimeout)
                             else match m_connect_by m with Some T => Some T
                                  | None => Some (gw_now s + connectTransactionTimeout + connTimeout) end
                        else None) = Some T -> T <= gw_now s + 5100 /\ te <= T).
    { intros T E. destruct (gw_connect s1); [|discriminate E].
      destruct (is_sn ev); [inversion E; unfold connectTransactionTimeout, connTimeout; lia|].
      destruct (m_connect_by m) as [T0|] eqn:E0; inversion E; subst; [|unfold connectTransactionTimeout, connTimeout; lia].
      split; [exact HBb|]. destruct (gj_cb _ _ _ _ _ _ _ _ G T E0) as (_ & _ & Hcn).
      destruct (gw_connect s) as [g|] eqn:Hg; [|congruence].
      destruct (ti_conn _ _ _ _ _ _ _ H g Hg) as (_ & _ & tm & C1 & C2 & C3).
      destruct (ti_tm _ _ _ _ _ _ _ H tm C1) as [C4 _]. cbn [Bof] in C3. lia. }
    constructor.
    + rewrite B2'. apply lc_ok, Hlc.
    + intros T E. rewrite B2'. split; [apply (HT T E)|]. split; [exact B1|]. destruct (gw_connect s1); [discriminate|discriminate E].
    + intros _ Hc. destruct (gw_connect s1); [|congruence]. destruct (is_sn ev); [discriminate|]. destruct (m_connect_by m); discriminate.
    + apply su_ok, G.
    + intros T E. split; [exact B1|]. exists te. split; [exact B5|].
      destruct (cause_of cfg s ev); inversion E. unfold connTimeout. lia.
    + right. left. split; [exact B1|]. exists te. split; [exact B5|]. rewrite B2'. split; [exact B6|].
      intros T E. apply (HT T E).
Qed.

Lemma TI_advance cfg PF B L U a t s :
  TI cfg PF B L U a s -> a <= t -> (forall tm, In tm (gw_timers s) -> t <= tm_at tm) ->
  TI cfg PF B L U t (s <| gw_now := t |>).
Proof.
  intros H Hle Htm.
  apply (TI_upd cfg PF B L U a t s _ (fun _ => true) H); try reflexivity.
  - exact Hle.
  - cbn. rewrite filter_true. reflexivity.
  - intros tm Hin _. apply Htm, Hin.
  - right. split; [reflexivity|]. intros g Hg. cbn. split; [apply (ti_conn _ _ _ _ _ _ _ H g Hg)|reflexivity].
  - intros tm g mid q st k m sn n _ _ _ Ho. cbn in Ho. exists mid, q, st, k, m, sn, n. split; [exact Ho|lia].
  - intros tm g mq c _ _ _ Ho. cbn in Ho. eauto.
Qed.

Lemma mq_allowed_le cfg s s' d m :
  mq_allowed cfg (m_last_client m) (sleep_until_of s s' (EvAdvance d) m) <= allowed_of cfg m.
Proof.
  unfold mq_allowed, allowed_of, sleep_until_of. cbn [is_sn].
  destruct (cstate_eqb (gw_st s') Asleep); [lia|]. destruct (m_sleep_until m); lia.
Qed.

Lemma step_advance cfg PF s d m :
  GJm cfg PF s m ->
  TI cfg PF (Bof s (m_connect_by m)) (m_last_client m) (m_sleep_until m) (gw_now s) s ->
  clock_ok cfg s (EvAdvance d) = true -> (PF -> c34_excluded cfg s (EvAdvance d) = false) ->
  Concl cfg PF s (EvAdvance d) m.
Proof.
  intros G H Hck Hex.
  pose proof (ti_ended _ _ _ _ _ _ _ H) as He. pose proof (ti_ending _ _ _ _ _ _ _ H) as Hing.
  assert (Hmeb : m_end_by m = None).
  { destruct (m_end_by m) as [T|] eqn:E; [|reflexivity]. destruct (gj_eb _ _ _ _ _ _ _ _ G T E) as (_ & te & A & _). congruence. }
  pose proof (Bof_bound cfg PF s m G) as HBb. pose proof (gj_lc _ _ _ _ _ _ _ _ G) as Hlc.
  assert (Hcause : cause_of cfg s (EvAdvance d) = None) by (unfold cause_of; destruct (running s); reflexivity).
  unfold Concl, c34_excluded, clock_ok in *. cbv zeta in Hck. rewrite (gw_step_adv cfg s d He) in *. cbn [fst snd] in *.
  set (t := gw_now s + d) in *.
  set (rt := run_timers (advance_fuel cfg s d) cfg s t) in *.
  set (s' := if gw_ended (fst rt) then fst rt else fst rt <| gw_now := t |>) in *.
  assert (H2 : TI cfg PF (Bof s (m_connect_by m)) (m_last_client m) (sleep_until_of s s' (EvAdvance d) m) (gw_now s) s).
  { apply (TI_mono _ _ _ _ _ _ _ _ _ _ H); [lia|lia|]. intros HP.
    apply (Upre_mono cfg PF s s' (EvAdvance d) m _ G H HP). apply Hex, HP. }
  pose proof (run_timers_spec cfg PF _ _ _ t (advance_fuel cfg s d) s (gw_now s) H2) as HRT.
  fold rt in HRT. assert (Hle : gw_now s <= t) by (subst t; lia). specialize (HRT Hle).
  destruct rt as [s2 o]. cbn [fst snd] in *. destruct HRT as (R1 & R2 & Rmq & Rcn & Rcase).
  assert (Hf13a : f13a_of cfg s (EvAdvance d) (obs_of_outs o) = []) by (unfold f13a_of; rewrite Hcause; reflexivity).
  assert (Hf13b : f13b_of s (EvAdvance d) (obs_of_outs o) m = []) by (unfold f13b_of; rewrite Hmeb; reflexivity).
  assert (Hf34 : PF -> f34_of cfg s (EvAdvance d) (obs_of_outs o) m = []).
  { intros HP. unfold f34_of.
    assert (E : forallb (fun t1 => t1 <=? allowed_of cfg m) (mq_times (obs_of_outs o)) = true).
    { apply forallb_forall. intros tau Hin. apply in_mq_times in Hin. destruct Hin as [m0 Hin].
      apply N.leb_le. specialize (Rmq HP tau m0 Hin). pose proof (mq_allowed_le cfg s s' d m). lia. }
    rewrite E. destruct (is_adv (EvAdvance d) && negb (ending s)); reflexivity. }
  assert (Hcn : forall T, m_connect_by m = Some T -> gw_connect s <> None).
  { intros T E. apply (gj_cb _ _ _ _ _ _ _ _ G T E). }
  destruct Rcase as [(E1 & te & E2 & E3 & E4)|[(E0 & E1 & te & E2 & E3 & E4)|(E0 & E1 & E2)]].
  - (* the session returned *)
    subst s'. rewrite E1 in *.
    assert (Hov : over_of s2 (obs_of_outs o) = true) by (unfold over_of; rewrite E1; apply orb_true_r).
    unfold connect_by_of, end_by_of. rewrite Hov. split.
    + constructor.
      * unfold last_client_of. cbn [is_sn]. lia.
      * intros T E. discriminate E.
      * intros E. congruence.
      * apply su_ok, G.
      * intros T E. discriminate E.
      * left. exact E1.
    + unfold okF. split; [|split; [exact Hf13a|split; [exact Hf13b|exact Hf34]]].
      unfold f10_of. destruct (m_connect_by m) as [T|] eqn:E; [|reflexivity].
      rewrite (ended_by_intro o te T E2); [rewrite andb_false_r; reflexivity|]. apply E4. apply (Hcn T eq_refl).
  - (* cancelled, Run returns later *)
    subst s'. rewrite E1 in *. pose proof E2 as Eing. pose proof E3 as Ebd. pose proof E4 as EB.
    cbn [gw_ended gw_ending gw_timers set] in Hck. rewrite E1, Eing in Hck. cbn [orb] in Hck.
    apply andb_true_iff in Hck. destruct Hck as [_ Hck]. apply N.ltb_lt in Hck.
    assert (Hov : over_of (s2 <| gw_now := t |>) (obs_of_outs o) = false).
    { unfold over_of. rewrite (has_end_no_end o E0). cbn. exact E1. }
    unfold connect_by_of, end_by_of. rewrite Hov, Hmeb, Hcause. cbn [is_sn gw_connect set].
    assert (HT : forall T, (if match gw_connect s2 with Some _ => true | None => false end
                        then match m_connect_by m with Some T => Some T
                             | None => Some (gw_now s + connectTransactionTimeout + connTimeout) end
                        else None) = Some T -> T <= t + 5100 /\ te <= T /\ gw_connect s2 <> None).
    { intros T E. destruct (gw_connect s2) as [g2|] eqn:Hg2; [|discriminate E].
      destruct (m_connect_by m) as [T0|] eqn:Ecb; inversion E; subst.
      - split; [cbn [Bof] in HBb; lia|]. split; [|discriminate]. apply EB. apply (Hcn T eq_refl).
      - exfalso. destruct (gw_connect s) as [g|] eqn:Hg; [|specialize (Rcn eq_refl); congruence].
        apply (gj_cb' _ _ _ _ _ _ _ _ G He); [rewrite Hg; discriminate|exact Ecb]. }
    split.
    + constructor.
      * cbn. unfold last_client_of. cbn [is_sn]. lia.
      * cbn. intros T E. destruct (HT T E) as (A1 & A2 & A3). split; [exact A1|]. split; [exact E1|exact A3].
      * cbn. intros _ Hc. destruct (gw_connect s2); [|congruence]. destruct (m_connect_by m); discriminate.
      * apply su_ok, G.
      * intros T E. discriminate E.
      * right. left. cbn. split; [exact E1|]. exists te. split; [exact Eing|]. split; [lia|].
        intros T E. apply (HT T E).
    + unfold okF. split; [|split; [exact Hf13a|split; [exact Hf13b|exact Hf34]]].
      unfold f10_of. destruct (m_connect_by m) as [T|] eqn:E; [|reflexivity]. cbn [step_end is_adv andb]. fold t.
      destruct (N.leb_spec T t); [|reflexivity]. exfalso. specialize (EB (Hcn T eq_refl)). cbn [Bof] in EB. lia.
  - (* the session goes on *)
    pose proof (ti_ended _ _ _ _ _ _ _ E1) as E3. subst s'. rewrite E3 in *.
    pose proof (ti_ending _ _ _ _ _ _ _ E1) as Eing.
    cbn [gw_ended gw_ending gw_timers set] in Hck. rewrite E3, Eing in Hck. cbn [orb] in Hck. rewrite andb_true_r in Hck.
    assert (Htm : forall tm, In tm (gw_timers s2) -> t < tm_at tm).
    { intros tm Hin. rewrite forallb_forall in Hck. apply N.ltb_lt. apply Hck, Hin. }
    assert (HTI : TI cfg PF (Bof s (m_connect_by m)) (m_last_client m)
                     (sleep_until_of s (s2 <| gw_now := t |>) (EvAdvance d) m) t (s2 <| gw_now := t |>)).
    { apply (TI_advance _ _ _ _ _ _ _ _ E1 R2). intros tm Hin. specialize (Htm tm Hin). lia. }
    assert (Hov : over_of (s2 <| gw_now := t |>) (obs_of_outs o) = false).
    { unfold over_of. rewrite (has_end_no_end o E0). cbn. exact E3. }
    unfold connect_by_of, end_by_of. rewrite Hov, Hmeb, Hcause. cbn [is_sn gw_connect set].
    split.
    + constructor.
      * cbn. unfold last_client_of. cbn [is_sn]. lia.
      * cbn. intros T E. destruct (gw_connect s2) as [g2|] eqn:Hg2; [|discriminate E].
        split; [|split; [exact E3|discriminate]].
        destruct (m_connect_by m) as [T0|] eqn:Ecb; inversion E; subst; [cbn [Bof] in HBb; lia|].
        unfold connectTransactionTimeout, connTimeout. lia.
      * cbn. intros _ Hc. destruct (gw_connect s2); [|congruence]. destruct (m_connect_by m); discriminate.
      * apply su_ok, G.
      * intros T E. discriminate E.
      * right. right. cbn [gw_now set]. apply (TI_mono _ _ _ _ _ _ _ _ _ _ HTI); [|unfold last_client_of; cbn [is_sn]; lia|intros _; left; reflexivity].
        destruct (gw_connect s2); destruct (m_connect_by m); cbn [Bof gw_now set] in *;
          unfold connectTransactionTimeout, connTimeout; lia.
    + unfold okF. split; [|split; [exact Hf13a|split; [exact Hf13b|exact Hf34]]].
      unfold f10_of. destruct (m_connect_by m) as [T|] eqn:E; [|reflexivity]. cbn [step_end is_adv andb]. fold t.
      destruct (N.leb_spec T t); [|reflexivity]. exfalso. specialize (E2 (Hcn T eq_refl)).
      destruct (gw_connect s2) as [g2|] eqn:Hg2; [|congruence].
      destruct (ti_conn _ _ _ _ _ _ _ E1 g2 Hg2) as (_ & _ & tm & C1 & C2 & C3). specialize (Htm tm C1). cbn [Bof] in C3. lia.
Qed.

Lemma step_ok cfg PF s ev m :
  GJm cfg PF s m -> clock_ok cfg s ev = true -> (PF -> c34_excluded cfg s ev = false) -> Concl cfg PF s ev m.
Proof.
  intros G Hck Hex. destruct (gj_ph _ _ _ _ _ _ _ _ G) as [He|[(He & te & Hing & Hte & HT)|H]].
  - apply step_ended; assumption.
  - eapply step_ending; eassumption.
  - destruct (is_adv ev) eqn:Hadv.
    + destruct ev; try discriminate Hadv. apply step_advance; assumption.
    + apply step_running; assumption.
Qed.

(* ================================================================== histories *)

Lemma mon_run_cons cfg s m ev evs :
  mon_run cfg s m (ev :: evs) =
  snd (mon_step cfg s (fst (gw_step cfg s ev)) ev (obs_of_outs (snd (gw_step cfg s ev))) m) ++
  mon_run cfg (fst (gw_step cfg s ev))
          (fst (mon_step cfg s (fst (gw_step cfg s ev)) ev (obs_of_outs (snd (gw_step cfg s ev))) m)) evs.
Proof.
  cbn [mon_run]. destruct (gw_step cfg s ev) as [s' outs]. cbn [fst snd].
  destruct (mon_step cfg s s' ev (obs_of_outs outs) m) as [m' f]. reflexivity.
Qed.

Lemma only_props_f34 ps cfg s ev os m : existsb (N.eqb 34) ps = false -> only_props ps (f34_of cfg s ev os m) = [].
Proof.
  intros H. unfold f34_of. destruct (_ && _); [|reflexivity]. destruct (forallb _ _); [reflexivity|].
  unfold only_props. cbn. rewrite H. reflexivity.
Qed.

Definition noF (PF : Prop) (f : list (N * N)) : Prop :=
  only_props [10] f = [] /\ only_props [13] f = [] /\ (PF -> only_props [34] f = []).

Lemma mon_run_ok cfg PF : forall evs s m,
  GJm cfg PF s m -> fuel_ok_run cfg s evs ->
  (PF -> run_all cfg (fun s ev => c34_excluded cfg s ev = false) s evs) ->
  noF PF (mon_run cfg s m evs).
Proof.
  induction evs as [|ev evs IH]; intros s m G Hf Hx.
  { cbn. repeat split; reflexivity. }
  cbn [fuel_ok_run run_all] in Hf. destruct Hf as [Hck Hf].
  assert (Hex : PF -> c34_excluded cfg s ev = false) by (intros HP; apply (Hx HP)).
  assert (Hx' : PF -> run_all cfg (fun s ev => c34_excluded cfg s ev = false) (fst (gw_step cfg s ev)) evs)
    by (intros HP; apply (Hx HP)).
  destruct (step_ok cfg PF s ev m G Hck Hex) as [G' (F1 & F2 & F3 & F4)].
  rewrite mon_run_cons.
  destruct (mon_step_eq cfg s (fst (gw_step cfg s ev)) ev (obs_of_outs (snd (gw_step cfg s ev))) m)
    as (M1 & M2 & M3 & M4 & M5 & f12 & M6).
  assert (G2 : GJm cfg PF (fst (gw_step cfg s ev))
                   (fst (mon_step cfg s (fst (gw_step cfg s ev)) ev (obs_of_outs (snd (gw_step cfg s ev))) m))).
  { unfold GJm. rewrite M1, M2, M3, M4, M5. exact G'. }
  destruct (IH _ _ G2 Hf Hx') as (I1 & I2 & I3).
  rewrite M6, F1, F2, F3. cbn [app]. unfold noF. rewrite !only_props_app.
  rewrite I1, I2. rewrite !only_props_f34 by reflexivity. rewrite !only_props_12 by reflexivity.
  split; [reflexivity|]. split; [reflexivity|]. intros HP. rewrite (F4 HP), (I3 HP).
  rewrite ?only_props_12 by reflexivity. reflexivity.
Qed.

Lemma GJ_init cfg PF : GJm cfg PF (init_state cfg) mon_init.
Proof.
  constructor; cbn.
  - lia.
  - intros T E. discriminate E.
  - intros _ E. congruence.
  - intros u E. discriminate E.
  - intros T E. discriminate E.
  - right. right. constructor; cbn; try reflexivity; try lia; try (intros; contradiction).
    + constructor.
    + intros g E. discriminate E.
Qed.

(* ================================================================== C13 and C10 *)

Theorem mon_C13_sound : forall cfg evs, wf_cfg cfg -> Forall wf_event evs ->
  fuel_ok_run cfg (init_state cfg) evs ->
  only_props [13] (mon_run cfg (init_state cfg) mon_init evs) = [].
Proof.
  intros cfg evs _ _ Hf.
  apply (mon_run_ok cfg False evs _ _ (GJ_init cfg False) Hf). intros [].
Qed.

Theorem mon_C10_sound : forall cfg evs, wf_cfg cfg -> Forall wf_event evs ->
  fuel_ok_run cfg (init_state cfg) evs ->
  only_props [10] (mon_run cfg (init_state cfg) mon_init evs) = [].
Proof.
  intros cfg evs _ _ Hf.
  apply (mon_run_ok cfg False evs _ _ (GJ_init cfg False) Hf). intros [].
Qed.

(* C34, the part that holds: steps that leave the state Asleep, or announce a new sleep, while a sleep
   pinger is scheduled are excluded *)
Theorem mon_C34_partial : forall cfg evs, wf_cfg cfg -> Forall wf_event evs ->
  fuel_ok_run cfg (init_state cfg) evs ->
  run_all cfg (fun s ev => c34_excluded cfg s ev = false) (init_state cfg) evs ->
  only_props [34] (mon_run cfg (init_state cfg) mon_init evs) = [].
Proof.
  intros cfg evs _ _ Hf Hx.
  apply (mon_run_ok cfg True evs _ _ (GJ_init cfg True) Hf (fun _ => Hx)). exact I.
Qed.

(* ================================================================== examples: the side conditions hold on ordinary histories *)

Fixpoint run_allb (cfg : gw_cfg) (P : gw_state -> gw_event -> bool) (s : gw_state) (evs : list gw_event) : bool :=
  match evs with
  | [] => true
  | ev :: evs' => P s ev && run_allb cfg P (fst (gw_step cfg s ev)) evs'
  end.

Lemma run_allb_spec cfg P evs : forall s, run_allb cfg P s evs = true -> run_all cfg (fun s ev => P s ev = true) s evs.
Proof.
  induction evs as [|ev evs IH]; intros s H; cbn [run_all run_allb] in *; [exact I|].
  apply andb_true_iff in H. destruct H as [H1 H2]. split; [exact H1|apply IH, H2].
Qed.

Lemma run_allb_negb cfg P evs : forall s,
  run_allb cfg (fun s ev => negb (P s ev)) s evs = true -> run_all cfg (fun s ev => P s ev = false) s evs.
Proof.
  induction evs as [|ev evs IH]; intros s H; cbn [run_all run_allb] in *; [exact I|].
  apply andb_true_iff in H. destruct H as [H1 H2]. split; [apply negb_true_iff, H1|apply IH, H2].
Qed.

Definition ex_cfg : gw_cfg :=
  {| auth_enabled := false; cfg_user := None; cfg_pass := None; retry_delay := 1000; retry_count := 3;
     predefined := []; min_tid := 1; max_tid := 65534 |}.

Lemma ex_cfg_wf : wf_cfg ex_cfg.
Proof. unfold wf_cfg. cbn. repeat split; try lia. constructor. Qed.

Lemma dgram_wf p : wf_bytesb (pack p) = true -> (len (pack p) <=? 100) = true -> wf_event (EvSn (pack p)).
Proof.
  intros H1 H2. split; [apply wf_bytesb_spec; exact H1|].
  apply N.leb_le in H2. unfold len in H2. unfold MaxPacketLen. lia.
Qed.

Ltac wf_events :=
  repeat (apply Forall_cons;
          [first [ exact I
                 | (apply dgram_wf; vm_compute; reflexivity)
                 | (cbn; repeat split; try lia; try (apply wf_bytesb_spec; reflexivity)) ]|]);
  apply Forall_nil.

Definition ex_con (ka : N) : gw_event := EvSn (pack (Connect false true 1 ka [99])).
Definition ex_ack : gw_event := EvMq (MqConnack false 0).

(* connect, subscribe, a QoS 1 publish of the broker with retransmissions, sleep with a pinger,
   wake-up by PINGREQ and by CONNECT, disconnect *)
Definition ex_ordinary : list gw_event :=
  [ex_con 10; ex_ack; EvSn (pack (Subscribe false 1 0 5 0 [97; 98])); EvMq (MqSuback 5 [1]);
   EvMq (MqPublish false 1 false [97; 98] 7 [1; 2; 3]); EvAdvance 1000; EvAdvance 2500; EvSn (pack (Puback 1 7 0));
   EvSn (pack (Disconnect 30)); EvAdvance 25000; EvSn (pack (Pingreq [99])); EvAdvance 4000; EvAdvance 2000;
   ex_con 10; EvAdvance 10000; EvSn (pack (Disconnect 0)); EvAdvance 50; EvAdvance 100].

Example ex_ordinary_wf : Forall wf_event ex_ordinary.
Proof. unfold ex_ordinary, ex_con, ex_ack. wf_events. Qed.

Example fuel_ok_ordinary : fuel_ok_run ex_cfg (init_state ex_cfg) ex_ordinary.
Proof. apply run_allb_spec. vm_compute. reflexivity. Qed.

Example c34_not_excluded_ordinary :
  run_all ex_cfg (fun s ev => c34_excluded ex_cfg s ev = false) (init_state ex_cfg) ex_ordinary.
Proof. apply run_allb_negb. vm_compute. reflexivity. Qed.

(* a half-open connect exchange: the session is over 5.1 s after the CONNECT *)
Definition ex_halfopen : list gw_event := [ex_con 10; EvAdvance 3000; EvAdvance 2100].
Example fuel_ok_halfopen : fuel_ok_run ex_cfg (init_state ex_cfg) ex_halfopen.
Proof. apply run_allb_spec. vm_compute. reflexivity. Qed.
Example halfopen_ends : snd (gw_step ex_cfg (snd (gw_run ex_cfg (init_state ex_cfg) [ex_con 10; EvAdvance 3000])) (EvAdvance 2100))
                        = [OutCancel 5000 EcConnectTimeout; OutEnd 5100].
Proof. vm_compute. reflexivity. Qed.

(* ================================================================== C34 is false in the model *)

(* The sleep pinger is cancelled only by its own TmPingCancel timer: the client (keep-alive 1 s) goes to
   sleep for 30 s, wakes up 1.5 s later with CONNECT, and the gateway keeps writing PINGREQ to the broker
   every second for the rest of the 30 s. *)
Definition ex34 : list gw_event :=
  [ex_con 1; ex_ack; EvSn (pack (Disconnect 30)); EvAdvance 1500; ex_con 1; EvAdvance 20000].

Example C34_refuted :
  exists cfg evs, wf_cfg cfg /\ Forall wf_event evs /\
                  only_props [34] (mon_run cfg (init_state cfg) mon_init evs) <> [].
Proof.
  exists ex_cfg, ex34. split; [exact ex_cfg_wf|]. split; [unfold ex34, ex_con, ex_ack; wf_events|].
  vm_compute. discriminate.
Qed.

(* ... on a history whose clock is not stuck, and whose CONNECT step is excluded by c34_excluded *)
Example ex34_fuel_ok : fuel_ok_run ex_cfg (init_state ex_cfg) ex34.
Proof. apply run_allb_spec. vm_compute. reflexivity. Qed.
Example ex34_excluded :
  c34_excluded ex_cfg (snd (gw_run ex_cfg (init_state ex_cfg) [ex_con 1; ex_ack; EvSn (pack (Disconnect 30)); EvAdvance 1500]))
               (ex_con 1) = true.
Proof. vm_compute. reflexivity. Qed.

(* the second excluded kind of step: a shorter sleep is announced while the pinger of the first runs *)
Definition ex34b : list gw_event :=
  [ex_con 1; ex_ack; EvSn (pack (Disconnect 30)); EvAdvance 1500; EvSn (pack (Disconnect 5)); EvAdvance 20000].
Example C34_refuted_resleep :
  Forall wf_event ex34b /\ only_props [34] (mon_run ex_cfg (init_state ex_cfg) mon_init ex34b) = [(34, 1)].
Proof. split; [unfold ex34b, ex_con, ex_ack; wf_events|vm_compute; reflexivity]. Qed.

(* ================================================================== C12 is false in the model *)

(* (a) an Active client that only sends REGISTERs (answered by the gateway itself) every 0.8 x keep-alive *)
Definition ex12a : list gw_event :=
  [ex_con 10; ex_ack; EvAdvance 8000; EvSn (pack (Register 0 1 [97; 98])); EvAdvance 8000;
   EvSn (pack (Register 0 2 [97; 98])); EvAdvance 8000].
Example C12_refuted_active :
  wf_cfg ex_cfg /\ Forall wf_event ex12a /\ fuel_ok_run ex_cfg (init_state ex_cfg) ex12a /\
  In (12, 1) (only_props [12] (mon_run ex_cfg (init_state ex_cfg) mon_init ex12a)).
Proof.
  split; [exact ex_cfg_wf|]. split; [unfold ex12a, ex_con, ex_ack; wf_events|].
  split; [apply run_allb_spec; vm_compute; reflexivity|]. vm_compute. left. reflexivity.
Qed.

(* (b) a client that sleeps for at most its keep-alive (no pinger is started) and wakes up in time *)
Definition ex12b : list gw_event :=
  [ex_con 10; ex_ack; EvSn (pack (Disconnect 10)); EvAdvance 9000; EvSn (pack (Pingreq [99])); EvAdvance 9000;
   EvSn (pack (Pingreq [99])); EvAdvance 9000].
Example C12_refuted_short_sleep :
  wf_cfg ex_cfg /\ Forall wf_event ex12b /\ fuel_ok_run ex_cfg (init_state ex_cfg) ex12b /\
  In (12, 2) (only_props [12] (mon_run ex_cfg (init_state ex_cfg) mon_init ex12b)).
Proof.
  split; [exact ex_cfg_wf|]. split; [unfold ex12b, ex_con, ex_ack; wf_events|].
  split; [apply run_allb_spec; vm_compute; reflexivity|]. vm_compute. left. reflexivity.
Qed.

(* (c) the pinger's first PINGREQ comes one keep-alive after the DISCONNECT, not after the last write:
   a client that was silent for 0.9 x keep-alive before it went to sleep leaves a gap of 1.9 x keep-alive *)
Definition ex12c : list gw_event :=
  [ex_con 10; ex_ack; EvAdvance 9000; EvSn (pack (Disconnect 60)); EvAdvance 10000].
Example C12_refuted_pinger_gap :
  wf_cfg ex_cfg /\ Forall wf_event ex12c /\ fuel_ok_run ex_cfg (init_state ex_cfg) ex12c /\
  In (12, 2) (only_props [12] (mon_run ex_cfg (init_state ex_cfg) mon_init ex12c)).
Proof.
  split; [exact ex_cfg_wf|]. split; [unfold ex12c, ex_con, ex_ack; wf_events|].
  split; [apply run_allb_spec; vm_compute; reflexivity|]. vm_compute. left. reflexivity.
Qed.

(* ================================================================== C12, the part that holds *)

(* C12_partial_active: in a running session with an Active client, these client packets are each
   answered by (at least) one write to the broker in the same step.  One lemma per packet kind; the
   outputs are given exactly where the handler writes nothing else. *)
Definition writes_mq (outs : list gw_out) : Prop := exists t m, In (OutMq t m) outs.

Lemma step_active_sn cfg s dg p :
  gw_ended s = false -> gw_ending s = None -> gw_st s = Active -> read_dgram dg = Ok p ->
  gw_step cfg s (EvSn dg) = finish_r (handle_sn cfg (s <| gw_last_sn := gw_now s |>) p) true false /\
  packet_legal cfg (s <| gw_last_sn := gw_now s |>) p = true /\
  gw_st (s <| gw_last_sn := gw_now s |>) = Active.
Proof.
  intros He Hing Hst Hr. split; [|split].
  - unfold gw_step. rewrite He, Hing. cbv zeta. rewrite Hr. reflexivity.
  - unfold packet_legal. cbn [gw_st set]. rewrite Hst. reflexivity.
  - exact Hst.
Qed.

Lemma C12_partial_active_pingreq cfg s dg cid :
  gw_ended s = false -> gw_ending s = None -> gw_st s = Active -> read_dgram dg = Ok (Pingreq cid) ->
  snd (gw_step cfg s (EvSn dg)) = [OutMq (gw_now s) MqPingreq].
Proof.
  intros He Hing Hst Hr. destruct (step_active_sn cfg s dg _ He Hing Hst Hr) as (-> & Hl & Hs).
  unfold handle_sn. rewrite Hl, Hs. reflexivity.
Qed.

Lemma C12_partial_active_pubrel cfg s dg mid :
  gw_ended s = false -> gw_ending s = None -> gw_st s = Active -> read_dgram dg = Ok (Pubrel mid) -> mid <> 0 ->
  snd (gw_step cfg s (EvSn dg)) = [OutMq (gw_now s) (MqPubrel mid)].
Proof.
  intros He Hing Hst Hr Hm. destruct (step_active_sn cfg s dg _ He Hing Hst Hr) as (-> & Hl & Hs).
  unfold handle_sn. rewrite Hl. apply N.eqb_neq in Hm. rewrite Hm. reflexivity.
Qed.

(* UNSUBSCRIBE that can be translated: message ID not 0, a predefined topic ID is known *)
Lemma C12_partial_active_unsubscribe cfg s dg tit mid tid name :
  gw_ended s = false -> gw_ending s = None -> gw_st s = Active ->
  read_dgram dg = Ok (Unsubscribe tit mid tid name) -> mid <> 0 ->
  (tit = TIT_PREDEFINED -> get_name (predefined cfg) (gw_client_id s) tid <> None) ->
  writes_mq (snd (gw_step cfg s (EvSn dg))).
Proof.
  intros He Hing Hst Hr Hm Hp. destruct (step_active_sn cfg s dg _ He Hing Hst Hr) as (-> & Hl & Hs).
  unfold handle_sn. rewrite Hl. cbn [negb]. unfold handle_unsubscribe. apply N.eqb_neq in Hm. rewrite Hm.
  cbn [gw_client_id set].
  destruct (tit =? TIT_STRING); [eexists _, _; left; reflexivity|].
  destruct (N.eqb_spec tit TIT_PREDEFINED) as [E|E].
  - specialize (Hp E). destruct (get_name (predefined cfg) (gw_client_id s) tid); [|congruence].
    eexists _, _; left; reflexivity.
  - destruct (tit =? TIT_SHORT); eexists _, _; left; reflexivity.
Qed.

(* SUBSCRIBE to a filter with wildcards, a short topic name or a known predefined topic ID *)
Lemma C12_partial_active_subscribe cfg s dg dup qos tit mid tid name :
  gw_ended s = false -> gw_ending s = None -> gw_st s = Active ->
  read_dgram dg = Ok (Subscribe dup qos tit mid tid name) -> qos <= 2 -> mid <> 0 ->
  ((tit = TIT_STRING /\ has_wildcard name = true) \/ tit = TIT_SHORT \/
   (tit = TIT_PREDEFINED /\ get_name (predefined cfg) (gw_client_id s) tid <> None)) ->
  writes_mq (snd (gw_step cfg s (EvSn dg))).
Proof.
  intros He Hing Hst Hr Hq Hm Hp. destruct (step_active_sn cfg s dg _ He Hing Hst Hr) as (-> & Hl & Hs).
  unfold handle_sn. rewrite Hl. cbn [negb]. unfold handle_subscribe. cbv zeta.
  apply N.eqb_neq in Hm. rewrite Hm. assert (Hq' : (2 <? qos) = false) by (apply N.ltb_ge; exact Hq). rewrite Hq'.
  cbn [orb gw_client_id set]. unfold new_obj.
  destruct Hp as [[-> Hw]|[->|[-> Hg]]].
  - change (TIT_STRING =? TIT_STRING) with true. cbv iota. rewrite Hw. cbn [negb]. eexists _, _; left; reflexivity.
  - change (TIT_SHORT =? TIT_STRING) with false. change (TIT_SHORT =? TIT_PREDEFINED) with false.
    change (TIT_SHORT =? TIT_SHORT) with true. cbv iota. eexists _, _; left; reflexivity.
  - change (TIT_PREDEFINED =? TIT_STRING) with false. change (TIT_PREDEFINED =? TIT_PREDEFINED) with true. cbv iota.
    destruct (get_name (predefined cfg) (gw_client_id s) tid); [|congruence]. eexists _, _; left; reflexivity.
Qed.

(* PUBLISH that chk_C01 expects to be forwarded: the topic ID denotes a topic without wildcards and the
   message ID fits the QoS *)
Lemma C12_partial_active_publish cfg s dg dup q r tit tid mid data topic :
  gw_ended s = false -> gw_ending s = None -> gw_st s = Active ->
  read_dgram dg = Ok (Publish dup q r tit tid mid data) ->
  resolve_client_topic cfg s tit tid = Some topic ->
  has_wildcard topic || (((q =? 1) || (q =? 2)) && (mid =? 0)) = false ->
  In (OutMq (gw_now s) (MqPublish dup (if q =? 3 then 0 else q) r topic mid data)) (snd (gw_step cfg s (EvSn dg))).
Proof.
  intros He Hing Hst Hr Hres Hok. destruct (step_active_sn cfg s dg _ He Hing Hst Hr) as (-> & Hl & Hs).
  unfold handle_sn. rewrite Hl. cbn [negb]. unfold handle_client_publish.
  change (resolve_client_topic cfg (s <| gw_last_sn := gw_now s |>) tit tid) with (resolve_client_topic cfg s tit tid).
  rewrite Hres, Hok. cbv zeta. unfold new_obj. destruct (q =? 1); left; reflexivity.
Qed.

(* C12_partial_pinger: a legal DISCONNECT with a duration above the (non-zero) keep-alive starts the sleep
   pinger: TmPing one keep-alive later, TmPingCancel at the end of the announced sleep ... *)
Lemma disc0_fits : (len (pack (Disconnect 0)) <=? MaxPacketLen) = true.
Proof. vm_compute. reflexivity. Qed.

Lemma C12_partial_pinger_armed cfg s dg d :
  gw_ended s = false -> gw_ending s = None -> connected s = true ->
  read_dgram dg = Ok (Disconnect d) -> d <> 0 -> gw_keepalive s <> 0 -> gw_keepalive s < d ->
  gw_timers (fst (gw_step cfg s (EvSn dg))) =
  gw_timers s ++
  [{| tm_at := gw_now s + gw_keepalive s * 1000; tm_seq := gw_next_seq s; tm_kind := TmPing (gw_next_obj s) |};
   {| tm_at := gw_now s + d * 1000; tm_seq := gw_next_seq s + 1; tm_kind := TmPingCancel (gw_next_obj s) |}] /\
  gw_st (fst (gw_step cfg s (EvSn dg))) = Asleep.
Proof.
  intros He Hing Hc Hr Hd Hk Hlt. unfold gw_step. rewrite He, Hing. cbv zeta. rewrite Hr.
  unfold handle_sn, packet_legal. cbn [gw_st gw_keepalive set].
  unfold connected in Hc. apply N.eqb_neq in Hd, Hk. apply N.ltb_lt in Hlt.
  destruct (gw_st s) eqn:Hst; try discriminate Hc; cbn [negb]; rewrite Hd, Hk, Hlt; cbn [negb andb];
    unfold sn_send, sn_send_owned, arm; cbn [gw_st set]; rewrite ?Hst, ?disc0_fits; cbn; rewrite <- ?app_assoc; split; reflexivity.
Qed.

(* ... and a firing TmPing writes PINGREQ to the broker and re-arms itself one keep-alive later *)
Lemma C12_partial_pinger_fires cfg s p :
  fire cfg s (TmPing p) = (arm s (TmPing p) (gw_keepalive s * 1000), [OutMq (gw_now s) MqPingreq], HOk).
Proof. reflexivity. Qed.

Print Assumptions mon_C13_sound.
Print Assumptions mon_C10_sound.
Print Assumptions C34_refuted.
Print Assumptions mon_C34_partial.
Print Assumptions C12_refuted_active.
Print Assumptions C12_refuted_short_sleep.
Print Assumptions C12_refuted_pinger_gap.
Print Assumptions C12_partial_active_pingreq.
Print Assumptions C12_partial_active_pubrel.
Print Assumptions C12_partial_active_unsubscribe.
Print Assumptions C12_partial_active_subscribe.
Print Assumptions C12_partial_active_publish.
Print Assumptions C12_partial_pinger_armed.
Print Assumptions C12_partial_pinger_fires.
Print Assumptions fuel_ok_ordinary.
