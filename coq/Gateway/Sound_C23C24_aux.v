(* Gateway/Sound_C23C24_aux.v — codec and MQTT-validity facts used by Sound_C23C24.v:
   which packets the gateway model may write ("sendable"), that their encodings decode, what
   a decoded datagram guarantees about its fields, and validity of the MQTT packets built by
   the handlers. *)
From stdpp Require Import base option list numbers fin_maps nmap.
From Coq Require Import Lia ZArith ZifyN ZifyNat ZifyBool.
From Verif.Base Require Import Bytes BytesProofs.
From Verif.Codec Require Import Packets Decode Encode EncodeProofs.
From Verif.Topics Require Import Predefined.
From Verif.Gateway Require Import GwTypes GwStep.
From Verif.Checkers Require Import ChkCodec ChkGw.
Open Scope N_scope.
Ltac Zify.zify_post_hook ::= Z.div_mod_to_equations.

(* ------------------------------------------------------------------ packets the gateway writes *)

(* The constructors the gateway model passes to sn_send, with the one field condition that
   decoding needs: a REGISTER carries a non-empty topic name.  No bound on any field: the
   size check of sn_send_owned (len (pack p) <= MaxPacketLen) is a separate hypothesis. *)
Definition sendable (p : packet) : Prop :=
  match p with
  | Connack _ | WillTopicReq | WillMsgReq | Regack _ _ _ | Publish _ _ _ _ _ _ _ | Puback _ _ _
  | Pubcomp _ | Pubrec _ | Pubrel _ | Suback _ _ _ _ | Unsuback _ | Pingresp | Disconnect _ => True
  | Register _ _ nm => nm <> []
  | _ => False
  end.

Lemma sendable_set_dup (p : packet) : sendable p -> sendable (set_dup p).
Proof. destruct p; cbn [set_dup sendable]; intros H; exact H. Qed.

Lemma sendable_to_client (p : packet) : sendable p -> gw_to_client (ptype p) = true.
Proof. destruct p; cbn [sendable]; intros H; try contradiction; reflexivity. Qed.

(* Section Framed of Codec/EncodeProofs.v with the bound that the size check gives, instead
   of the one that wf_pkt gives: the header arithmetic does not wrap below 65532. *)
Section Framed2.
  Variables (t : N) (body : bytes).
  Hypothesis Ht : t < 256.
  Hypothesis Hlen : len body <= 9000.
  Hypothesis Hsz : len (hdr (len body) t ++ body) <= MaxPacketLen.

  Lemma framed2_read : known_type t = true -> read_dgram (hdr (len body) t ++ body) = unpack_body t body.
  Proof.
    intros Hk. unfold read_dgram.
    rewrite firstn_max by exact Hsz.
    destruct (N.le_gt_cases (len body + 2) 255) as [Hs|Hl].
    - rewrite hdr_short by assumption. cbn [app]. apply read_packet_short; [lia|exact Hk].
    - rewrite hdr_long by lia. cbn [app]. apply read_packet_long. exact Hk.
  Qed.

  Lemma framed2_announced :
    announced_len (hdr (len body) t ++ body) = Some (len (hdr (len body) t ++ body)).
  Proof.
    destruct (N.le_gt_cases (len body + 2) 255) as [Hs|Hl].
    - rewrite hdr_short by assumption. cbn [app]. unfold announced_len.
      assert (E : (len body + 2 =? 1) = false) by (apply N.eqb_neq; lia).
      rewrite E. rewrite !len_cons. destruct body as [|x l]; f_equal; lia.
    - rewrite hdr_long by lia. cbn [app]. unfold announced_len.
      rewrite N.eqb_refl, !len_cons. f_equal. lia.
  Qed.
End Framed2.

Lemma len_le_app_r {A} (a b : list A) : len b <= len (a ++ b).
Proof. rewrite len_app. lia. Qed.

(* pack_eq without wf_pkt, for the packets the gateway sends, under the size check *)
Lemma pack_eq2 (p : packet) : sendable p -> len (pack p) <= MaxPacketLen ->
  pack p = hdr (len (pbody p)) (ptype p) ++ pbody p /\ len (pbody p) <= 9000.
Proof.
  unfold MaxPacketLen.
  intros Hs Hsz. destruct_pkt p; cbn [sendable] in Hs; try contradiction; cbn [pack pbody ptype] in *;
    try (split; [first [reflexivity|symmetry; apply app_nil_r]|len_norm; lia]).
  - (* Register *)
    assert (Hn : len name <= 8192).
    { etransitivity; [|exact Hsz]. rewrite !app_assoc. apply len_le_app_r. }
    rewrite u16_small by lia. split; [|len_norm; lia].
    f_equal. f_equal. len_norm. lia.
  - (* Publish *)
    assert (Hn : len data <= 8192).
    { etransitivity; [|exact Hsz]. rewrite !app_assoc. apply len_le_app_r. }
    rewrite u16_small by lia. split; [|len_norm; lia].
    f_equal. f_equal. len_norm. lia.
  - (* Disconnect *)
    destruct (u16 dur =? 0); (split; [first [reflexivity|symmetry; apply app_nil_r]|len_norm; lia]).
Qed.

(* the body decodes as a packet of the same type (the fields are not compared) *)
Lemma unpack_pbody2 (p : packet) : sendable p ->
  exists p', unpack_body (ptype p) (pbody p) = Ok p' /\ ptype p' = ptype p.
Proof.
  intros Hs. destruct_pkt p; cbn [sendable] in Hs; try contradiction; cbn [pbody ptype].
  - (* Connack *) eexists; split; [dispatch; run; reflexivity|reflexivity].
  - (* WillTopicReq *) eexists; split; reflexivity.
  - (* WillMsgReq *) eexists; split; reflexivity.
  - (* Register *)
    destruct name as [|x tl]; [contradiction|]. eexists; split; [dispatch; run; reflexivity|reflexivity].
  - (* Regack *) eexists; split; [dispatch; run; reflexivity|reflexivity].
  - (* Publish *) eexists; split; [dispatch; run; reflexivity|reflexivity].
  - (* Puback *) eexists; split; [dispatch; run; reflexivity|reflexivity].
  - (* Pubcomp *) eexists; split; [dispatch; run; reflexivity|reflexivity].
  - (* Pubrec *) eexists; split; [dispatch; run; reflexivity|reflexivity].
  - (* Pubrel *) eexists; split; [dispatch; run; reflexivity|reflexivity].
  - (* Suback *) eexists; split; [dispatch; run; reflexivity|reflexivity].
  - (* Unsuback *) eexists; split; [dispatch; run; reflexivity|reflexivity].
  - (* Pingresp *) eexists; split; reflexivity.
  - (* Disconnect *)
    destruct (u16 dur =? 0).
    + eexists; split; reflexivity.
    + eexists; split; [dispatch; run; reflexivity|reflexivity].
Qed.

(* C23 for one datagram the gateway writes *)
Lemma sendable_dgram_ok (p : packet) : sendable p -> len (pack p) <= MaxPacketLen ->
  dgram_ok gw_to_client (pack p) = [].
Proof.
  intros Hs Hsz. destruct (pack_eq2 p Hs Hsz) as [Heq Hb].
  destruct (unpack_pbody2 p Hs) as [p' [Hu Ht]].
  unfold dgram_ok.
  assert (Hsz' : len (hdr (len (pbody p)) (ptype p) ++ pbody p) <= MaxPacketLen) by (rewrite <- Heq; exact Hsz).
  assert (Hr : read_dgram (pack p) = Ok p').
  { rewrite Heq. rewrite framed2_read; [exact Hu|apply ptype_byte|exact Hb|exact Hsz'|apply ptype_known]. }
  assert (Ha : announced_len (pack p) = Some (len (pack p))).
  { rewrite Heq. apply framed2_announced; [apply ptype_byte|exact Hb|exact Hsz']. }
  rewrite Hr, Ha, Ht, (sendable_to_client p Hs), N.eqb_refl.
  apply N.leb_le in Hsz. rewrite Hsz. reflexivity.
Qed.

Lemma disconnect0_dgram_ok : dgram_ok gw_to_client (pack (Disconnect 0)) = [].
Proof. apply sendable_dgram_ok; [exact I|]. vm_compute. discriminate. Qed.

(* ------------------------------------------------------------------ what a decoded datagram guarantees *)

Definition sub_topic_ok (tit : N) (nm : bytes) : Prop := (tit = 0 /\ nm <> []) \/ tit = 1 \/ tit = 2.

Definition dec_ok (p : packet) : Prop :=
  match p with
  | Register _ _ nm => nm <> []
  | Publish _ q _ _ _ _ _ => q < 4
  | Subscribe _ _ tit _ _ nm => sub_topic_ok tit nm
  | Unsubscribe tit _ _ nm => sub_topic_ok tit nm
  | _ => True
  end.

Ltac unp :=
  cbv zeta;
  repeat match goal with
         | |- (if ?c then _ else _) = Ok _ -> _ => destruct c eqn:?
         | |- (match ?n with O => _ | S _ => _ end) = Ok _ -> _ => destruct n eqn:?
         | |- obind ?o _ = Ok _ -> _ => destruct o eqn:?; cbn [obind]
         | |- Err _ = Ok _ -> _ => discriminate
         | |- Panic _ = Ok _ -> _ => discriminate
         | |- Ok _ = Ok _ -> _ => let H := fresh "Hinj" in intros H; injection H as <-
         end.

Lemma slice_from_nonempty (buf : bytes) (k : nat) (s : panic_site) (r : bytes) :
  (k < length buf)%nat -> slice_from buf k s = Ok r -> r <> [].
Proof.
  unfold slice_from. intros Hk H. destruct (Nat.leb k (length buf)); [|discriminate].
  injection H as <-. intros E. apply (f_equal length) in E. rewrite skipn_length in E.
  cbn [length] in E. lia.
Qed.

Lemma unpack_register_dec buf p : unpack_register buf = Ok p -> dec_ok p.
Proof.
  unfold unpack_register. unp. cbn [dec_ok].
  eapply slice_from_nonempty; [|eassumption].
  match goal with H : Nat.leb _ _ = false |- _ => apply Nat.leb_gt in H; unfold lenb in H; exact H end.
Qed.

Lemma unpack_publish_dec buf p : unpack_publish buf = Ok p -> dec_ok p.
Proof. unfold unpack_publish. unp. cbn [dec_ok]. apply N.mod_lt. discriminate. Qed.

Lemma unpack_subscribe_dec buf p : unpack_subscribe buf = Ok p -> dec_ok p.
Proof.
  unfold unpack_subscribe. unp; cbn [dec_ok]; unfold sub_topic_ok.
  - left. split.
    + match goal with H : (_ =? TIT_STRING) = true |- _ => apply N.eqb_eq in H; exact H end.
    + eapply slice_from_nonempty; [|eassumption].
      match goal with H : Nat.leb _ _ = false |- _ => apply Nat.leb_gt in H; unfold lenb in H; exact H end.
  - right.
    match goal with H : _ || _ = true |- _ => apply orb_true_iff in H; destruct H as [H|H]; apply N.eqb_eq in H end;
      [left|right]; assumption.
Qed.

Lemma unpack_unsubscribe_dec buf p : unpack_unsubscribe buf = Ok p -> dec_ok p.
Proof.
  unfold unpack_unsubscribe. unp; cbn [dec_ok]; unfold sub_topic_ok.
  - left. split.
    + match goal with H : (_ =? TIT_STRING) = true |- _ => apply N.eqb_eq in H; exact H end.
    + eapply slice_from_nonempty; [|eassumption].
      match goal with H : Nat.leb _ _ = false |- _ => apply Nat.leb_gt in H; unfold lenb in H; exact H end.
  - right.
    match goal with H : _ || _ = true |- _ => apply orb_true_iff in H; destruct H as [H|H]; apply N.eqb_eq in H end;
      [left|right]; assumption.
Qed.

Ltac triv_dec f := unfold f; unp; exact I.

Lemma unpack_body_dec_ok (t : N) (buf : bytes) (p : packet) : unpack_body t buf = Ok p -> dec_ok p.
Proof.
  unfold unpack_body.
  repeat match goal with |- (if ?c then _ else _) = Ok _ -> _ => destruct c end;
    try discriminate;
    first [ apply unpack_register_dec | apply unpack_publish_dec | apply unpack_subscribe_dec
          | apply unpack_unsubscribe_dec | idtac ].
  - triv_dec unpack_advertise.
  - triv_dec unpack_searchgw.
  - triv_dec unpack_gwinfo.
  - triv_dec unpack_auth.
  - triv_dec unpack_connect.
  - triv_dec unpack_connack.
  - triv_dec unpack_willtopicreq.
  - triv_dec unpack_willtopic.
  - triv_dec unpack_willmsgreq.
  - triv_dec unpack_willmsg.
  - triv_dec unpack_regack.
  - triv_dec unpack_puback.
  - triv_dec unpack_pubcomp.
  - triv_dec unpack_pubrec.
  - triv_dec unpack_pubrel.
  - triv_dec unpack_suback.
  - triv_dec unpack_unsuback.
  - triv_dec unpack_pingreq.
  - triv_dec unpack_pingresp.
  - triv_dec unpack_disconnect.
  - triv_dec unpack_willtopicupd.
  - triv_dec unpack_willtopicresp.
  - triv_dec unpack_willmsgupd.
  - triv_dec unpack_willmsgresp.
Qed.

Lemma read_dgram_dec_ok (dg : bytes) (p : packet) : read_dgram dg = Ok p -> dec_ok p.
Proof.
  unfold read_dgram, read_packet.
  destruct (header_unpack _) as [h|e|ps]; cbn [obind]; try discriminate.
  destruct (negb (known_type (h_type h))); try discriminate.
  destruct (slice_from _ _ _) as [body|e|ps]; cbn [obind]; try discriminate.
  apply unpack_body_dec_ok.
Qed.

(* ------------------------------------------------------------------ MQTT validity of what the handlers build *)

Lemma len_nz {A} (l : list A) : l <> [] -> (len l =? 0) = false.
Proof. destruct l as [|x l]; [contradiction|]. intros _. rewrite len_cons. apply N.eqb_neq. lia. Qed.

Lemma decode_short_ne (i : N) : decode_short i <> [].
Proof. unfold decode_short. discriminate. Qed.

(* handleClientPublish *)
Lemma client_publish_valid (dup retain : bool) (qos mid : N) (topic data : bytes) :
  qos < 4 -> topic <> [] ->
  has_wildcard topic || (((qos =? 1) || (qos =? 2)) && (mid =? 0)) = false ->
  mqtt_valid (wire (MqPublish dup (if qos =? 3 then 0 else qos) retain topic mid data)) = true.
Proof.
  intros Hq Ht Hc. apply orb_false_iff in Hc. destruct Hc as [Hw Hm].
  cbn [wire mqtt_valid]. unfold no_wildcard. rewrite Hw, (len_nz topic Ht). cbn [negb andb].
  assert (Hcase : qos = 0 \/ qos = 1 \/ qos = 2 \/ qos = 3) by lia.
  destruct Hcase as [-> | [-> | [-> | ->]]]; cbn [N.eqb Pos.eqb N.leb N.compare Pos.compare Pos.compare_cont orb andb negb] in *;
    try reflexivity; rewrite Hm; reflexivity.
Qed.

Lemma subscribe_valid (mid qos : N) (topic : bytes) :
  (2 <? qos) || (mid =? 0) = false -> topic <> [] ->
  mqtt_valid (wire (MqSubscribe mid false [(topic, qos)])) = true.
Proof.
  intros Hc Ht. apply orb_false_iff in Hc. destruct Hc as [Hq Hm].
  cbn [wire mqtt_valid forallb fst snd]. rewrite Hm, (len_nz topic Ht).
  apply N.ltb_ge in Hq. apply N.leb_le in Hq. rewrite Hq. reflexivity.
Qed.

Lemma unsubscribe_valid (mid : N) (topic : bytes) :
  (mid =? 0) = false -> topic <> [] -> mqtt_valid (wire (MqUnsubscribe mid [topic])) = true.
Proof.
  intros Hm Ht. cbn [wire mqtt_valid forallb]. rewrite Hm, (len_nz topic Ht). reflexivity.
Qed.

Lemma ack_valid (k : ack_kind) (mid : N) : mid <> 0 -> mqtt_valid (wire (mq_ack k mid)) = true.
Proof. intros Hm. apply N.eqb_neq in Hm. destruct k; cbn [mq_ack wire mqtt_valid]; rewrite Hm; reflexivity. Qed.

(* the CONNECT of a session without will: flags as stored, no will QoS / retain *)
Lemma connect_nowill_valid (mq : mq_connect) :
  c_will mq = false -> c_wqos mq = 0 -> c_wretain mq = false -> c_uflag mq || negb (c_pflag mq) = true ->
  mqtt_valid (wire (MqConnect mq)) = true.
Proof.
  intros Hw Hq Hr Hf. cbn [wire mqtt_valid c_will c_wtopic c_wqos c_wretain c_uflag c_pflag].
  rewrite Hw, Hq, Hr, Hf. reflexivity.
Qed.

Lemma connect_will_valid (mq : mq_connect) :
  c_will mq = true -> c_wtopic mq <> [] -> c_wqos mq <= 2 -> c_uflag mq || negb (c_pflag mq) = true ->
  mqtt_valid (wire (MqConnect mq)) = true.
Proof.
  intros Hw Ht Hq Hf. cbn [wire mqtt_valid c_will c_wtopic c_wqos c_wretain c_uflag c_pflag].
  rewrite Hw, Hf, (len_nz _ Ht). apply N.leb_le in Hq. rewrite Hq. reflexivity.
Qed.
