(* Cli/Options.v — topics.ParsePredefinedTopicOptions and the way the three command-line
   tools (cmd/bisquitt, cmd/bisquitt-pub, cmd/bisquitt-sub) build their predefined-topic
   map from --predefined-topics-file and --predefined-topic, plus the start-up guards
   about plaintext credentials. *)
From stdpp Require Import base option list numbers fin_maps nmap.
From Verif.Base Require Import Bytes.
From Verif.Topics Require Import Predefined.
Open Scope N_scope.

Definition SEMI := 59.

(* strings.Split(line, ";") *)
Fixpoint split_semi (t : bytes) (cur : bytes) : list bytes :=
  match t with
  | [] => [cur]
  | b :: rest => if b =? SEMI then cur :: split_semi rest [] else split_semi rest (cur ++ [b])
  end.

(* strconv.ParseUint(s, 10, 16): non-empty, decimal digits only, value <= 65535 *)
Fixpoint digits_value (s : bytes) (acc : N) : option N :=
  match s with
  | [] => Some acc
  | d :: s' => if (48 <=? d) && (d <=? 57) then digits_value s' (acc * 10 + (d - 48)) else None
  end.
Definition parse_uint16 (s : bytes) : option N :=
  match s with
  | [] => None
  | _ => match digits_value s 0 with Some v => if v <=? 65535 then Some v else None | None => None end
  end.

(* parseLine: (clientID, topicName, topicID) *)
Definition parse_line (line : bytes) : option (bytes * bytes * N) :=
  match split_semi line [] with
  | [name; id] => match parse_uint16 id with Some i => Some (star, name, i) | None => None end
  | [client; name; id] => match parse_uint16 id with Some i => Some (client, name, i) | None => None end
  | _ => None
  end.

(* ParsePredefinedTopicOptions(options...): None = error *)
Fixpoint parse_options_from (acc : predef) (opts : list bytes) : option predef :=
  match opts with
  | [] => Some acc
  | o :: opts' =>
    match parse_line o with
    | Some (c, n, i) => parse_options_from (pd_add acc c i n) opts'
    | None => None
    end
  end.
Definition parse_options (opts : list bytes) : option predef := parse_options_from [] opts.

(* what a tool is given on its command line *)
Inductive file_arg := NoFile | FileError | FileOk (m : predef).   (* yaml.v3 is not modelled *)
Inductive tool := TGateway | TPub | TSub.

(* handleAction of each tool: the same three steps in all of them (the call-site extractor
   checks on every run that each actions.go still applies ReadPredefinedTopicsFile to the file
   flag, ParsePredefinedTopicOptions to the option flag, and Merge in this order) *)
Definition tool_cfg (t : tool) (file : file_arg) (opts : list bytes) : option predef :=
  let base := match file with NoFile => Some [] | FileError => None | FileOk m => Some m end in
  match base with
  | None => None
  | Some b =>
    match opts with
    | [] => Some b                               (* flag not set *)
    | _ => match parse_options opts with Some o => Some (pd_merge b o) | None => None end
    end
  end.

(* ---- start-up guards (C31) *)
Definition gateway_starts (auth dtls insecure : bool) : bool := negb (auth && negb dtls && negb insecure).
(* bisquitt-pub / bisquitt-sub: user_set = the flag or its environment variable is set *)
Definition client_tool_starts (user_set user_empty dtls insecure : bool) : bool :=
  if user_set then negb user_empty && (dtls || insecure) else true.
