(* Cli/OptionsProofs.v — proofs about Cli/Options.v and PredefinedTopics.Add / Merge
   (Topics/Predefined.v): how the three command-line tools build their predefined-topic
   map, and the C31 start-up guards. *)
From Coq Require Import Lia ZArith ZifyN ZifyNat ZifyBool.
From stdpp Require Import base option list numbers fin_maps nmap.
From Verif.Base Require Import Bytes BytesProofs.
From Verif.Topics Require Import Predefined PredefinedProofs.
From Verif.Cli Require Import Options.
Open Scope N_scope.

(* a Go map has unique keys *)
Definition uniq_keys (p : predef) : Prop :=
  forall i j c1 m1 c2 m2,
    nth_error p i = Some (c1, m1) -> nth_error p j = Some (c2, m2) -> c1 = c2 -> i = j.

(* ------------------------------------------------------------------ *)
(* structural form of uniq_keys *)

Fixpoint uk (p : predef) : Prop :=
  match p with
  | [] => True
  | (c, _) :: p' => pd_client p' c = None /\ uk p'
  end.

Lemma pd_client_None_nth (p : predef) (c : bytes) :
  pd_client p c = None <->
  (forall j c2 m2, nth_error p j = Some (c2, m2) -> c2 <> c).
Proof.
  induction p as [|[k m] p IH]; cbn [pd_client].
  - split; [|reflexivity]. intros _ [|j] c2 m2 H; discriminate H.
  - destruct (beq k c) eqn:Hk.
    + split; [discriminate|]. intros H. apply beq_true in Hk.
      exfalso. apply (H 0%nat k m); [reflexivity|exact Hk].
    + rewrite IH. apply beq_false in Hk. split.
      * intros H [|j] c2 m2 Hn; cbn [nth_error] in Hn.
        -- inversion Hn; subst. exact Hk.
        -- eapply H, Hn.
      * intros H j c2 m2 Hn. apply (H (S j) c2 m2). exact Hn.
Qed.

Lemma uniq_keys_uk (p : predef) : uniq_keys p <-> uk p.
Proof.
  induction p as [|[k m] p IH]; cbn [uk].
  - split; [trivial|]. intros _ [|i] j c1 m1 c2 m2 H; discriminate H.
  - rewrite <- IH. split.
    + intros Hu. split.
      * apply pd_client_None_nth. intros j c2 m2 Hn Heq.
        specialize (Hu 0%nat (S j) k m c2 m2 eq_refl Hn (eq_sym Heq)). discriminate Hu.
      * intros i j c1 m1 c2 m2 Hi Hj Heq.
        specialize (Hu (S i) (S j) c1 m1 c2 m2 Hi Hj Heq). congruence.
    + intros [Hnone Hu] i j c1 m1 c2 m2 Hi Hj Heq.
      pose proof (proj1 (pd_client_None_nth p k) Hnone) as Hne.
      destruct i as [|i], j as [|j]; cbn [nth_error] in Hi, Hj.
      * reflexivity.
      * inversion Hi; subst. exfalso. eapply Hne; [exact Hj|reflexivity].
      * inversion Hj; subst. exfalso. eapply Hne; [exact Hi|reflexivity].
      * f_equal. eapply Hu; eauto.
Qed.

(* ------------------------------------------------------------------ *)
(* tool_cfg does not look at the tool *)

Theorem tool_cfg_same : forall (t1 t2 : tool) file opts,
  tool_cfg t1 file opts = tool_cfg t2 file opts.
Proof. intros t1 t2 file opts. reflexivity. Qed.

(* ------------------------------------------------------------------ *)
(* Add *)

Lemma pd_client_add (cfg : predef) (c : bytes) (i : N) (n : bytes) (c' : bytes) :
  pd_client (pd_add cfg c i n) c' =
    if beq c c' then Some (<[i := n]> (default (∅ : topic_map) (pd_client cfg c')))
    else pd_client cfg c'.
Proof.
  induction cfg as [|[k m] cfg IH]; cbn [pd_add pd_client].
  - destruct (beq c c'); reflexivity.
  - destruct (beq k c) eqn:Hkc.
    + apply beq_true in Hkc; subst k. cbn [pd_client]. destruct (beq c c'); reflexivity.
    + cbn [pd_client]. destruct (beq k c') eqn:Hkc'.
      * destruct (beq c c') eqn:Hcc; [|reflexivity].
        apply beq_true in Hcc. apply beq_true in Hkc'. subst.
        rewrite beq_refl in Hkc. discriminate Hkc.
      * exact IH.
Qed.

Theorem pd_add_lookup : forall (cfg : predef) (c c' : bytes) (i i' : N) (n : bytes),
  tm_get (pd_client (pd_add cfg c i n) c') i' =
    if beq c c' && (i =? i') then Some n else tm_get (pd_client cfg c') i'.
Proof.
  intros cfg c c' i i' n. rewrite pd_client_add.
  destruct (beq c c') eqn:Hcc; cbn [andb]; [|reflexivity].
  cbn [tm_get]. destruct (i =? i') eqn:Hii.
  - apply N.eqb_eq in Hii. subst i'. apply lookup_insert.
  - apply N.eqb_neq in Hii. unfold topic_map. rewrite lookup_insert_ne by exact Hii.
    destruct (pd_client cfg c') as [m|]; cbn [default tm_get]; [reflexivity|].
    apply lookup_empty.
Qed.

Lemma pd_add_uk cfg c i n : uk cfg -> uk (pd_add cfg c i n).
Proof.
  induction cfg as [|[k m] cfg IH]; cbn [pd_add uk].
  - intros _. split; [reflexivity|exact I].
  - intros [Hnone Hu]. destruct (beq k c) eqn:Hkc; cbn [uk].
    + split; assumption.
    + split; [|apply IH, Hu]. rewrite pd_client_add.
      destruct (beq c k) eqn:Hck; [|exact Hnone].
      apply beq_true in Hck. subst k. rewrite beq_refl in Hkc. discriminate Hkc.
Qed.

Theorem pd_add_uniq : forall cfg c i n, uniq_keys cfg -> uniq_keys (pd_add cfg c i n).
Proof. intros cfg c i n. rewrite !uniq_keys_uk. apply pd_add_uk. Qed.

(* ------------------------------------------------------------------ *)
(* Merge *)

Lemma fold_add_lookup (c c' : bytes) (i' : N) (l : list (N * bytes)) :
  forall acc : predef,
  base.NoDup (l.*1) ->
  tm_get (pd_client (fold_left (fun acc kv => pd_add acc c (fst kv) (snd kv)) l acc) c') i' =
    if beq c c'
    then match (list_to_map l : Nmap bytes) !! i' with
         | Some n => Some n
         | None => tm_get (pd_client acc c') i'
         end
    else tm_get (pd_client acc c') i'.
Proof.
  induction l as [|[k v] l IH]; intros acc Hnd; cbn [fold_left fst snd].
  - change (list_to_map [] : Nmap bytes) with (∅ : Nmap bytes). rewrite lookup_empty.
    destruct (beq c c'); reflexivity.
  - rewrite fmap_cons in Hnd. cbn [fst] in Hnd. apply list.NoDup_cons in Hnd. destruct Hnd as [Hk Hnd].
    rewrite (IH _ Hnd). rewrite pd_add_lookup.
    destruct (beq c c') eqn:Hcc; cbn [andb]; [|reflexivity].
    change (list_to_map ((k, v) :: l) : Nmap bytes) with (<[k := v]> (list_to_map l : Nmap bytes)).
    destruct (k =? i') eqn:Hki.
    + apply N.eqb_eq in Hki. subst i'. rewrite lookup_insert.
      rewrite (not_elem_of_list_to_map_1 (M := Nmap) l k Hk). reflexivity.
    + apply N.eqb_neq in Hki. rewrite lookup_insert_ne by exact Hki. reflexivity.
Qed.

Lemma tm_get_app_empty (cfg : predef) (c c' : bytes) (i : N) :
  tm_get (pd_client (cfg ++ [(c, ∅)]) c') i = tm_get (pd_client cfg c') i.
Proof.
  induction cfg as [|[k m] cfg IH]; cbn [app pd_client].
  - destruct (beq c c'); cbn [tm_get]; [apply lookup_empty|reflexivity].
  - destruct (beq k c'); [reflexivity|exact IH].
Qed.

Lemma pd_merge_client_lookup (cfg : predef) (c : bytes) (src : topic_map) (c' : bytes) (i : N) :
  tm_get (pd_client (pd_merge_client cfg c src) c') i =
    if beq c c'
    then match src !! i with Some n => Some n | None => tm_get (pd_client cfg c') i end
    else tm_get (pd_client cfg c') i.
Proof.
  unfold pd_merge_client.
  rewrite fold_add_lookup by apply NoDup_fst_map_to_list.
  unfold topic_map in *. rewrite list_to_map_to_list.
  destruct (pd_client cfg c); [reflexivity|].
  rewrite tm_get_app_empty. reflexivity.
Qed.

Lemma pd_merge_lookup_uk (src : predef) : forall (dst : predef) (c : bytes) (i : N),
  uk src ->
  tm_get (pd_client (pd_merge dst src) c) i =
    match tm_get (pd_client src c) i with Some n => Some n | None => tm_get (pd_client dst c) i end.
Proof.
  unfold pd_merge.
  induction src as [|[c0 m0] src IH]; intros dst c i Hu; cbn [fold_left fst snd].
  - reflexivity.
  - destruct Hu as [Hnone Hu]. rewrite (IH _ c i Hu). rewrite pd_merge_client_lookup.
    cbn [pd_client]. destruct (beq c0 c) eqn:Hc.
    + apply beq_true in Hc. subst c0. rewrite Hnone. reflexivity.
    + reflexivity.
Qed.

Theorem pd_merge_lookup : forall (dst src : predef) (c : bytes) (i : N),
  uniq_keys src ->
  tm_get (pd_client (pd_merge dst src) c) i =
    match tm_get (pd_client src c) i with Some n => Some n | None => tm_get (pd_client dst c) i end.
Proof. intros dst src c i Hu. apply pd_merge_lookup_uk, uniq_keys_uk, Hu. Qed.

(* ------------------------------------------------------------------ *)
(* options *)

Lemma parse_options_from_snoc (opts : list bytes) (o : bytes) : forall acc : predef,
  parse_options_from acc (opts ++ [o]) =
    match parse_options_from acc opts, parse_line o with
    | Some acc', Some (c, n, i) => Some (pd_add acc' c i n)
    | _, _ => None
    end.
Proof.
  induction opts as [|a opts IH]; intros acc; cbn [app parse_options_from].
  - destruct (parse_line o) as [[[c n] i]|]; reflexivity.
  - destruct (parse_line a) as [[[c n] i]|]; [apply IH|reflexivity].
Qed.

Theorem parse_options_snoc : forall (opts : list bytes) (o : bytes),
  parse_options (opts ++ [o]) =
    match parse_options opts, parse_line o with
    | Some acc, Some (c, n, i) => Some (pd_add acc c i n)
    | _, _ => None
    end.
Proof. intros opts o. unfold parse_options. apply parse_options_from_snoc. Qed.

Lemma parse_options_from_uk (opts : list bytes) : forall acc p,
  uk acc -> parse_options_from acc opts = Some p -> uk p.
Proof.
  induction opts as [|a opts IH]; intros acc p Hu; cbn [parse_options_from].
  - intros H. inversion H; subst. exact Hu.
  - destruct (parse_line a) as [[[c n] i]|]; [|discriminate].
    apply IH, pd_add_uk, Hu.
Qed.

Theorem parse_options_uniq : forall opts p, parse_options opts = Some p -> uniq_keys p.
Proof.
  intros opts p H. apply uniq_keys_uk. eapply parse_options_from_uk; [|exact H]. exact I.
Qed.

(* ------------------------------------------------------------------ *)
(* parse_line *)

Lemma split_semi_no_semi (t : bytes) : forall cur, ~ In 59 t -> split_semi t cur = [cur ++ t].
Proof.
  induction t as [|b t IH]; intros cur Hn; cbn [split_semi].
  - rewrite app_nil_r. reflexivity.
  - destruct (b =? SEMI) eqn:Hb.
    + apply N.eqb_eq in Hb. exfalso. apply Hn. left. exact Hb.
    + rewrite IH by (intros Hin; apply Hn; right; exact Hin).
      rewrite <- app_assoc. reflexivity.
Qed.

Lemma split_semi_app (a r : bytes) : forall cur, ~ In 59 a ->
  split_semi (a ++ 59 :: r) cur = (cur ++ a) :: split_semi r [].
Proof.
  induction a as [|b a IH]; intros cur Hn; cbn [app split_semi].
  - change (59 =? SEMI) with true. cbn iota. rewrite app_nil_r. reflexivity.
  - destruct (b =? SEMI) eqn:Hb.
    + apply N.eqb_eq in Hb. exfalso. apply Hn. left. exact Hb.
    + rewrite IH by (intros Hin; apply Hn; right; exact Hin).
      rewrite <- app_assoc. reflexivity.
Qed.

Theorem parse_line_two_fields : forall (name id : bytes) (i : N),
  ~ In 59 name -> ~ In 59 id -> parse_uint16 id = Some i ->
  parse_line (name ++ [59] ++ id) = Some (star, name, i).
Proof.
  intros name id i Hn Hi Hp. unfold parse_line. cbn [app].
  rewrite split_semi_app by exact Hn. rewrite split_semi_no_semi by exact Hi.
  cbn [app]. rewrite Hp. reflexivity.
Qed.

Theorem parse_line_three_fields : forall (client name id : bytes) (i : N),
  ~ In 59 client -> ~ In 59 name -> ~ In 59 id -> parse_uint16 id = Some i ->
  parse_line (client ++ [59] ++ name ++ [59] ++ id) = Some (client, name, i).
Proof.
  intros client name id i Hc Hn Hi Hp. unfold parse_line. cbn [app].
  rewrite split_semi_app by exact Hc. rewrite split_semi_app by exact Hn.
  rewrite split_semi_no_semi by exact Hi.
  cbn [app]. rewrite Hp. reflexivity.
Qed.

Theorem parse_uint16_range : forall s v, parse_uint16 s = Some v -> v < 65536.
Proof.
  intros s v. unfold parse_uint16. destruct s as [|d s]; [discriminate|].
  destruct (digits_value (d :: s) 0) as [w|]; [|discriminate].
  destruct (w <=? 65535) eqn:Hw; [|discriminate].
  intros H. inversion H; subst. apply N.leb_le in Hw. lia.
Qed.

(* ------------------------------------------------------------------ *)
(* tool_cfg *)

Theorem tool_cfg_lookup : forall (t : tool) (m : predef) (opts : list bytes) (o : predef)
    (res : predef) (c : bytes) (i : N),
  opts <> [] -> parse_options opts = Some o -> tool_cfg t (FileOk m) opts = Some res ->
  tm_get (pd_client res c) i =
    match tm_get (pd_client o c) i with Some n => Some n | None => tm_get (pd_client m c) i end.
Proof.
  intros t m opts o res c i Hne Hpo Hcfg. unfold tool_cfg in Hcfg.
  destruct opts as [|a opts]; [contradiction Hne; reflexivity|].
  rewrite Hpo in Hcfg. inversion Hcfg; subst res.
  apply pd_merge_lookup. eapply parse_options_uniq, Hpo.
Qed.

Theorem tool_cfg_errors : forall t opts,
  tool_cfg t FileError opts = None /\
  (forall file, opts <> [] -> parse_options opts = None -> tool_cfg t file opts = None).
Proof.
  intros t opts. split; [reflexivity|].
  intros file Hne Hpo. unfold tool_cfg.
  destruct opts as [|a opts]; [contradiction Hne; reflexivity|].
  rewrite Hpo. destruct file; reflexivity.
Qed.

(* ------------------------------------------------------------------ *)
(* C31 start-up guards *)

Theorem gateway_starts_safe : forall auth dtls insecure,
  gateway_starts auth dtls insecure = true -> auth = true -> dtls = true \/ insecure = true.
Proof.
  intros auth dtls insecure H Ha. subst auth. unfold gateway_starts in H.
  destruct dtls; [left; reflexivity|]. destruct insecure; [right; reflexivity|].
  discriminate H.
Qed.

Theorem client_tool_starts_safe : forall user_set user_empty dtls insecure,
  client_tool_starts user_set user_empty dtls insecure = true -> user_set = true ->
  user_empty = false /\ (dtls = true \/ insecure = true).
Proof.
  intros user_set user_empty dtls insecure H Hu. subst user_set. unfold client_tool_starts in H.
  destruct user_empty; [discriminate H|]. split; [reflexivity|].
  destruct dtls; [left; reflexivity|]. destruct insecure; [right; reflexivity|].
  discriminate H.
Qed.

Print Assumptions tool_cfg_lookup.
Print Assumptions pd_merge_lookup.
Print Assumptions parse_options_snoc.
