(* Topics/Predefined.v — model of topics.PredefinedTopics (topics/predefined_topics.go).
   map[string]map[uint16]string is a list of (clientID, Nmap name) with first-match
   lookup; the harness serialises a Go map with unique keys, for which first-match
   lookup and Go's map lookup agree. *)
From stdpp Require Import base option list numbers fin_maps nmap.
From Verif.Base Require Import Bytes.
Open Scope N_scope.

Definition topic_map := Nmap bytes.          (* topic ID -> topic name *)
Definition predef := list (bytes * topic_map).

Definition star : bytes := [42].             (* "*" *)

Fixpoint pd_client (cfg : predef) (c : bytes) : option topic_map :=
  match cfg with
  | [] => None
  | (k, m) :: cfg' => if beq k c then Some m else pd_client cfg' c
  end.

Definition tm_get (om : option topic_map) (i : N) : option bytes :=
  match om with Some m => m !! i | None => None end.

(* PredefinedTopics.GetTopicName *)
Definition get_name (cfg : predef) (c : bytes) (i : N) : option bytes :=
  match tm_get (pd_client cfg c) i with
  | Some n => Some n
  | None => tm_get (pd_client cfg star) i
  end.

(* All IDs of a map whose name is n, in the map's canonical enumeration order.
   Go ranges over the map in an unspecified order; any element may be the
   first hit, so the *set* is what the model exposes. *)
Definition ids_with_name (m : topic_map) (n : bytes) : list N :=
  (map_to_list m) ≫= (fun kv => if beq (snd kv) n then [fst kv] else []).

(* PredefinedTopics.GetTopicID: the list of all results some iteration order can
   return.  The client's own map is searched first; only when it has no hit is
   "*" searched, and there an ID shadowed by a client-specific entry is skipped
   (it would read back as the client-specific name). *)
Definition get_ids (cfg : predef) (c : bytes) (n : bytes) : list N :=
  let own := match pd_client cfg c with Some m => ids_with_name m n | None => [] end in
  match own with
  | _ :: _ => own
  | [] =>
    match pd_client cfg star with
    | Some ms =>
      List.filter (fun i => match tm_get (pd_client cfg c) i with None => true | Some _ => false end)
                  (ids_with_name ms n)
    | None => []
    end
  end.

(* Deterministic representative used by the session models: the least ID. *)
Definition min_list (l : list N) : option N :=
  match l with
  | [] => None
  | x :: l' => Some (fold_left N.min l' x)
  end.

Definition get_id (cfg : predef) (c n : bytes) : option N := min_list (get_ids cfg c n).

(* PredefinedTopics.Add / Merge, on the same representation. *)
Fixpoint pd_add (cfg : predef) (c : bytes) (i : N) (n : bytes) : predef :=
  match cfg with
  | [] => [(c, <[i := n]> ∅)]
  | (k, m) :: cfg' =>
    if beq k c then (k, <[i := n]> m) :: cfg' else (k, m) :: pd_add cfg' c i n
  end.

Definition pd_merge_client (cfg : predef) (c : bytes) (src : topic_map) : predef :=
  fold_left (fun acc kv => pd_add acc c (fst kv) (snd kv)) (map_to_list src)
            (match pd_client cfg c with Some _ => cfg | None => cfg ++ [(c, ∅)] end).

Definition pd_merge (dst src : predef) : predef :=
  fold_left (fun acc cm => pd_merge_client acc (fst cm) (snd cm)) src dst.
