(* Topics/PredefinedProofs.v — lemmas about Predefined.v (C05, used by C02/C32). *)
From stdpp Require Import base option list numbers fin_maps nmap.
From Verif.Base Require Import Bytes BytesProofs.
From Verif.Topics Require Import Predefined.
Open Scope N_scope.

Lemma elem_of_ids_with_name (m : topic_map) (n : bytes) (i : N) :
  i ∈ ids_with_name m n <-> m !! i = Some n.
Proof.
  unfold ids_with_name. rewrite elem_of_list_bind. split.
  - intros [[k v] [Hin Hkv]]. cbn [fst snd] in Hin.
    destruct (beq v n) eqn:Hb.
    + apply beq_true in Hb. subst v. apply elem_of_list_singleton in Hin. subst k.
      apply elem_of_map_to_list in Hkv. exact Hkv.
    + inversion Hin.
  - intros Hl. exists (i, n). split.
    + cbn [fst snd]. rewrite beq_refl. apply elem_of_list_singleton. reflexivity.
    + apply elem_of_map_to_list. exact Hl.
Qed.

(* GetTopicName precedence: the client-specific entry when one exists, otherwise "*". *)
Lemma get_name_own cfg c i n :
  tm_get (pd_client cfg c) i = Some n -> get_name cfg c i = Some n.
Proof. unfold get_name. intros ->. reflexivity. Qed.

Lemma get_name_star cfg c i :
  tm_get (pd_client cfg c) i = None -> get_name cfg c i = tm_get (pd_client cfg star) i.
Proof. unfold get_name. intros ->. reflexivity. Qed.

(* GetTopicID soundness: every ID some iteration order may return reads back as the name. *)
Lemma get_ids_sound cfg c n i :
  i ∈ get_ids cfg c n -> get_name cfg c i = Some n.
Proof.
  unfold get_ids, get_name.
  destruct (pd_client cfg c) as [m|] eqn:Hc; cbn [tm_get].
  - destruct (ids_with_name m n) as [|x own] eqn:Hown.
    + destruct (pd_client cfg star) as [ms|] eqn:Hs; [|intros H; inversion H].
      intros Hin. apply elem_of_list_In, filter_In in Hin. destruct Hin as [Hin Hsh].
      apply elem_of_list_In, elem_of_ids_with_name in Hin.
      destruct (m !! i) eqn:Hmi; [discriminate|]. cbn [tm_get]. exact Hin.
    + rewrite <- Hown. intros Hin. apply elem_of_ids_with_name in Hin.
      rewrite Hin. reflexivity.
  - destruct (pd_client cfg star) as [ms|] eqn:Hs; [|intros H; inversion H].
    intros Hin. apply elem_of_list_In, filter_In in Hin. destruct Hin as [Hin _].
    apply elem_of_list_In, elem_of_ids_with_name in Hin. cbn [tm_get]. exact Hin.
Qed.

(* GetTopicID completeness: if some ID reads back as the name, a lookup by name succeeds. *)
Lemma get_ids_complete cfg c n i :
  get_name cfg c i = Some n -> get_ids cfg c n <> [].
Proof.
  unfold get_name, get_ids. intros Hn.
  destruct (pd_client cfg c) as [m|] eqn:Hc; cbn [tm_get] in *.
  - destruct (m !! i) as [n'|] eqn:Hmi.
    + inversion Hn; subst n'. apply elem_of_ids_with_name in Hmi.
      destruct (ids_with_name m n); [inversion Hmi|discriminate].
    + destruct (ids_with_name m n) as [|x own]; [|discriminate].
      destruct (pd_client cfg star) as [ms|]; cbn [tm_get] in Hn; [|discriminate].
      apply elem_of_ids_with_name in Hn.
      intros Hnil.
      assert (Hin : In i (List.filter (fun i0 => match m !! i0 with None => true | Some _ => false end)
                                      (ids_with_name ms n))).
      { apply filter_In. split; [apply elem_of_list_In; exact Hn|rewrite Hmi; reflexivity]. }
      rewrite Hnil in Hin. inversion Hin.
  - destruct (pd_client cfg star) as [ms|]; cbn [tm_get] in Hn; [|discriminate].
    apply elem_of_ids_with_name in Hn. intros Hnil.
    assert (Hin : In i (List.filter (fun _ => true) (ids_with_name ms n))).
    { apply filter_In. split; [apply elem_of_list_In; exact Hn|reflexivity]. }
    rewrite Hnil in Hin. inversion Hin.
Qed.

Lemma min_list_in (l : list N) (x : N) : min_list l = Some x -> In x l.
Proof.
  destruct l as [|y l]; [discriminate|]. cbn [min_list]. intros H. inversion H; subst x; clear H.
  revert y. induction l as [|z l IH]; intros y; cbn [fold_left].
  - left; reflexivity.
  - destruct (IH (N.min y z)) as [Heq|Hin].
    + destruct (N.min_spec y z) as [[_ Hm]|[_ Hm]]; rewrite Hm in Heq |- *.
      * left; exact Heq.
      * right; left; exact Heq.
    + right; right; exact Hin.
Qed.

Lemma get_id_sound cfg c n i : get_id cfg c n = Some i -> get_name cfg c i = Some n.
Proof.
  unfold get_id. intros H. apply min_list_in in H. apply get_ids_sound, elem_of_list_In, H.
Qed.
