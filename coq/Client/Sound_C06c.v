(* Client/Sound_C06c.v — the positive half of C06 in the client library: the only failures of
   chk_C06c (Checkers/ChkCl3.v) the client model can produce are the interference-class ones
   (clause 7: the message ID of the gateway's QoS 2 PUBLISH is at that moment the ID of an exchange
   the client itself started).  Without that coincidence the QoS 2 PUBLISH is always answered with
   PUBREC of its message ID.

     chk_C06c_exact                       wf_cl_event ev ->
                                          chk_C06c cfg s ev (snd (cl_step cfg s ev)) = c06c_expected s ev
                                          (= [7] exactly when a live client receives a QoS 2 PUBLISH whose
                                           message ID is held in cl_by_id by an object that is not a
                                           CxBrokerPub2; [] otherwise)
     chk_C06c_only_interference           wf_cl_event ev -> forall c, In c (chk_C06c ...) -> c < 10
     chk_C06c_answered                    wf_cl_event ev -> (ID free, or held by the gateway's own earlier
                                          QoS 2 PUBLISH) -> chk_C06c ... = []
     chk_C06c_7_own_exchange              cl_reach cfg s -> wf_cl_event ev -> In 7 (chk_C06c ...) ->
                                          the holder is a CxRetry (Register / Subscribe / Unsubscribe /
                                          Publish QoS 1,2 of the client: kind not 5, 6, 7) keyed by that ID
     chk_C06c_only_interference_history   Forall wf_cl_event evs -> the same at every step of every history
                                          from EVERY state (cl_run_all), in particular from cl_init

   Hypotheses.  Neither wf_cl_cfg nor cl_reach is needed for the main theorems (the state may be any value
   of cl_state).  The only side condition is wf_cl_event ev, and of it only `wf_bytes dg` for ev = CGw dg
   (the datagram consists of bytes).  It is necessary: a "datagram" with an element >= 256 in the
   message-ID field decodes to a message ID >= 65536; the model answers with PUBREC of the ID truncated
   to 16 bits, which is not the PUBREC the checker looks for:
     chk_C06c cfg s0 (CGw [9; 12; 64; 120; 121; 256; 5; 9; 9]) (model outputs) = [17]
   (see c06c_nonbyte_datagram below).  Such a list is not a datagram; this is no finding.

   What the checker demands of a client that is not live (exited, group context cancelled, connection
   closed by Close()): nothing (c_live s = false -> []).  There the model emits nothing for CGw (exited /
   cancelled) or cannot write (closed). *)
From stdpp Require Import base option list numbers fin_maps nmap.
From Coq Require Import Lia ZArith ZifyN ZifyNat ZifyBool.
From RecordUpdate Require Import RecordSet.
From Verif.Base Require Import Bytes BytesProofs.
From Verif.Codec Require Import Packets Decode Encode EncodeProofs.
From Verif.Topics Require Import Predefined.
From Verif.Gateway Require Import GwTypes.
From Verif.Match Require Import Match MatchProofs.
From Verif.Client Require Import ClTypes ClStep Sound_Client_aux Sound_Client.
From Verif.Checkers Require Import ChkCodec ChkGw ChkCl ChkCl3.
Import RecordSetNotations.
Open Scope N_scope.
Ltac Zify.zify_post_hook ::= Z.div_mod_to_equations.

(* ------------------------------------------------------------------ the message ID of a decoded PUBLISH *)

Definition pmid_fact (p : packet) : Prop :=
  match p with Publish _ _ _ _ _ mid _ => mid < 65536 | _ => True end.

Lemma unpack_body_pmid t buf p : wf_bytes buf -> unpack_body t buf = Ok p -> pmid_fact p.
Proof.
  unfold unpack_body.
  repeat (match goal with |- _ -> (if ?c then _ else _) = _ -> _ => destruct c end).
  all: try (intros _ H; discriminate H).
  all: match goal with |- _ -> ?f _ = Ok _ -> _ =>
         unfold f; intros Hb H; inv_unpack H; injection H as <-;
         first [exact I | cbn [pmid_fact]; eapply get16_lt; eassumption] end.
Qed.

Lemma read_dgram_pmid dg p : wf_bytes dg -> read_dgram dg = Ok p -> pmid_fact p.
Proof.
  unfold read_dgram, read_packet. set (raw := firstn _ dg). intros Hwf H.
  assert (Hraw : wf_bytes raw) by (apply Forall_take, Hwf).
  destruct (header_unpack raw) as [h|e|ps]; cbn [obind] in H; try discriminate H.
  destruct (negb (known_type (h_type h))); try discriminate H.
  unfold slice_from in H.
  destruct (Nat.leb (encoded_header_length raw) (length raw)); cbn [obind] in H; try discriminate H.
  eapply unpack_body_pmid; [|exact H]. apply Forall_drop, Hraw.
Qed.

(* ------------------------------------------------------------------ PUBREC on the wire *)

(* PUBREC is 4 bytes whatever the ID is: on an open connection it is always written *)
Lemma pubrec_fits mid : len (pack (Pubrec mid)) <= MaxPacketLen.
Proof. vm_compute. discriminate. Qed.

Lemma c_pkts_pubrec t mid : mid < 65536 -> c_pkts [CoSn t (pack (Pubrec mid))] = [Pubrec mid].
Proof.
  intros H. rewrite c_pkts_sn, dec_list_wf; [reflexivity|].
  cbn [wf_pkt]. unfold lt16. apply N.ltb_lt, H.
Qed.

Definition has_pubrec (mid : N) (os : list cl_out) : bool := existsb (is_pubrec_for mid) (c_pkts os).

Lemma has_pubrec_app mid a b : has_pubrec mid (a ++ b) = has_pubrec mid a || has_pubrec mid b.
Proof. unfold has_pubrec. rewrite c_pkts_app. apply existsb_app. Qed.

Lemma has_pubrec_one t mid : mid < 65536 -> has_pubrec mid [CoSn t (pack (Pubrec mid))] = true.
Proof.
  intros H. unfold has_pubrec. rewrite (c_pkts_pubrec t mid H). cbn [existsb is_pubrec_for].
  rewrite N.eqb_refl. reflexivity.
Qed.

(* ------------------------------------------------------------------ who holds a message ID *)

(* the ID is free, or held by an earlier QoS 2 PUBLISH of the gateway (a retransmission arrives) *)
Definition id_free_or_gw (s : cl_state) (mid : N) : bool :=
  match c_get_id s mid with
  | Some (_, CxBrokerPub2 _ _) => true
  | Some _ => false
  | None => true
  end.

(* ------------------------------------------------------------------ handle_packet *)

Lemma handle_pub2_answers cfg s dup r tit tid mid data :
  cl_conn_closed s = false -> mid < 65536 -> id_free_or_gw s mid = true ->
  has_pubrec mid (snd (handle_packet cfg s (Publish dup 2 r tit tid mid data))) = true.
Proof.
  intros Hcc Hm Hf. unfold id_free_or_gw in Hf. unfold handle_packet.
  change (2 =? 0) with false. change (2 =? 1) with false. change (2 =? 2) with true. cbv iota.
  destruct (c_get_id s mid) as [[g t]|].
  - destruct t as [call att|call kind key st d n sub|call st n ms|mid' pub]; try discriminate Hf.
    rewrite (c_send_ok s (Pubrec mid) Hcc (pubrec_fits mid)). cbn [snd]. apply has_pubrec_one, Hm.
  - unfold c_new_obj. cbv beta iota zeta.
    match goal with |- context [c_send ?X ?p] =>
      rewrite (c_send_ok X p) by (first [exact Hcc|apply pubrec_fits]) end.
    cbn [snd]. apply has_pubrec_one, Hm.
Qed.

Lemma handle_pub2_dropped cfg s dup r tit tid mid data :
  id_free_or_gw s mid = false ->
  handle_packet cfg s (Publish dup 2 r tit tid mid data) = (s, []).
Proof.
  intros Hf. unfold id_free_or_gw in Hf. unfold handle_packet.
  change (2 =? 0) with false. change (2 =? 1) with false. change (2 =? 2) with true. cbv iota.
  destruct (c_get_id s mid) as [[g t]|]; [|discriminate Hf].
  destruct t as [call att|call kind key st d n sub|call st n ms|mid' pub]; try discriminate Hf; reflexivity.
Qed.

(* ------------------------------------------------------------------ the step *)

Lemma c_live_split s : c_live s = true ->
  cl_exited s = false /\ cl_cancelled s = None /\ cl_conn_closed s = false.
Proof.
  unfold c_live. intros Hl. apply andb_true_iff in Hl. destruct Hl as [Hl Hcc].
  apply andb_true_iff in Hl. destruct Hl as [Hex Hca].
  apply negb_true_iff in Hex. apply negb_true_iff in Hcc.
  destruct (cl_cancelled s); [discriminate Hca|]. auto.
Qed.

Lemma cl_step_pub2_answers cfg s dg dup r tit tid mid data :
  c_live s = true -> wf_bytes dg -> read_dgram dg = Ok (Publish dup 2 r tit tid mid data) ->
  id_free_or_gw s mid = true -> has_pubrec mid (snd (cl_step cfg s (CGw dg))) = true.
Proof.
  intros Hl Hwf Hd Hf. destruct (c_live_split s Hl) as (Hex & Hca & Hcc).
  pose proof (read_dgram_pmid dg _ Hwf Hd) as Hm. cbn [pmid_fact] in Hm.
  unfold cl_step. rewrite Hex, Hca. cbv zeta. rewrite Hd.
  (* the receive loop's bookkeeping does not touch what the lemma looks at *)
  assert (Hcc' : cl_conn_closed (s <| cl_last_read := cl_now s |>) = false) by exact Hcc.
  assert (Hf' : id_free_or_gw (s <| cl_last_read := cl_now s |>) mid = true) by exact Hf.
  pose proof (handle_pub2_answers cfg _ dup r tit tid mid data Hcc' Hm Hf') as H1.
  destruct (handle_packet cfg (s <| cl_last_read := cl_now s |>) (Publish dup 2 r tit tid mid data)) as [s1 o1].
  cbn [snd] in H1.
  destruct (cl_cancelled s1) as [te|]; [|exact H1]. destruct (te <=? cl_now s1); [|exact H1].
  destruct (c_exit s1 te) as [s2 o2]. cbn [snd]. rewrite has_pubrec_app, H1. reflexivity.
Qed.

Lemma cl_step_pub2_dropped cfg s dg dup r tit tid mid data :
  c_live s = true -> read_dgram dg = Ok (Publish dup 2 r tit tid mid data) ->
  id_free_or_gw s mid = false -> snd (cl_step cfg s (CGw dg)) = [].
Proof.
  intros Hl Hd Hf. destruct (c_live_split s Hl) as (Hex & Hca & Hcc).
  unfold cl_step. rewrite Hex, Hca. cbv zeta. rewrite Hd.
  assert (Hf' : id_free_or_gw (s <| cl_last_read := cl_now s |>) mid = false) by exact Hf.
  rewrite (handle_pub2_dropped cfg _ dup r tit tid mid data Hf').
  change (cl_cancelled (s <| cl_last_read := cl_now s |>)) with (cl_cancelled s). rewrite Hca. reflexivity.
Qed.

(* ------------------------------------------------------------------ the checker on the model's outputs *)

(* what chk_C06c says about the model's own step: clause 7 exactly under interference, nothing else *)
Definition c06c_expected (s : cl_state) (ev : cl_event) : list N :=
  if negb (c_live s) then [] else
  match ev_pkt ev with
  | Some (Publish _ 2 _ _ _ mid _) => if id_free_or_gw s mid then [] else [7]
  | _ => []
  end.

Lemma ev_pkt_Some ev p : ev_pkt ev = Some p -> exists dg, ev = CGw dg /\ read_dgram dg = Ok p.
Proof.
  destruct ev as [id a|dg|d]; cbn [ev_pkt]; try discriminate.
  destruct (read_dgram dg) as [q|e|ps] eqn:Ed; try discriminate. intros H. injection H as ->.
  exists dg. split; [reflexivity|exact Ed].
Qed.

Theorem chk_C06c_exact : forall cfg s ev, wf_cl_event ev ->
  chk_C06c cfg s ev (snd (cl_step cfg s ev)) = c06c_expected s ev.
Proof.
  intros cfg s ev Hev. unfold chk_C06c, c06c_expected.
  destruct (c_live s) eqn:El; cbn [negb]; [|reflexivity].
  destruct (ev_pkt ev) as [p|] eqn:Ep; [|reflexivity].
  destruct p; try reflexivity.
  destruct qos as [|[q|[q|q|]|]]; try reflexivity.
  destruct (ev_pkt_Some ev _ Ep) as (dg & -> & Hd). destruct Hev as [Hwf _].
  fold (has_pubrec mid (snd (cl_step cfg s (CGw dg)))).
  destruct (id_free_or_gw s mid) eqn:Ef.
  - rewrite (cl_step_pub2_answers cfg s dg dup retain tit tid mid data El Hwf Hd Ef). reflexivity.
  - rewrite (cl_step_pub2_dropped cfg s dg dup retain tit tid mid data El Hd Ef).
    unfold has_pubrec. cbn [c_pkts c_sns mbind list_bind existsb]. unfold id_free_or_gw in Ef.
    destruct (c_get_id s mid) as [[g t]|]; [|discriminate Ef].
    destruct t; try reflexivity. discriminate Ef.
Qed.

(* the only C06 failures of the client model are the interference-class ones *)
Theorem chk_C06c_only_interference : forall cfg s ev, wf_cl_event ev ->
  forall c, In c (chk_C06c cfg s ev (snd (cl_step cfg s ev))) -> c < 10.
Proof.
  intros cfg s ev Hev c. rewrite (chk_C06c_exact cfg s ev Hev). unfold c06c_expected.
  destruct (negb (c_live s)); [intros []|].
  destruct (ev_pkt ev) as [p|]; [|intros []].
  destruct p; try (intros []).
  destruct qos as [|[q|[q|q|]|]]; try (intros []).
  destruct (id_free_or_gw s mid); [intros []|]. intros [<-|[]]. lia.
Qed.

(* without the coincidence the QoS 2 PUBLISH is answered *)
Theorem chk_C06c_answered : forall cfg s ev, wf_cl_event ev ->
  (forall dup r tit tid mid data, ev_pkt ev = Some (Publish dup 2 r tit tid mid data) -> id_free_or_gw s mid = true) ->
  chk_C06c cfg s ev (snd (cl_step cfg s ev)) = [].
Proof.
  intros cfg s ev Hev Hfree. rewrite (chk_C06c_exact cfg s ev Hev). unfold c06c_expected.
  destruct (negb (c_live s)); [reflexivity|].
  destruct (ev_pkt ev) as [p|]; [|reflexivity].
  destruct p; try reflexivity.
  destruct qos as [|[q|[q|q|]|]]; try reflexivity.
  rewrite (Hfree dup retain tit tid mid data eq_refl). reflexivity.
Qed.

(* in a reachable state the holder of the ID under clause 7 is an exchange the client started: a
   RetryTransaction stored by message ID (Register, Subscribe, Unsubscribe, Publish QoS 1 / 2; not
   Ping / Disconnect / Close, which are stored by packet type) whose key is that very ID *)
Theorem chk_C06c_7_own_exchange : forall cfg s ev, cl_reach cfg s -> wf_cl_event ev ->
  In 7 (chk_C06c cfg s ev (snd (cl_step cfg s ev))) ->
  exists dup r tit tid mid data g call kind st d n sub,
    ev_pkt ev = Some (Publish dup 2 r tit tid mid data) /\
    c_get_id s mid = Some (g, CxRetry call kind mid st d n sub) /\
    ((kind =? 5) || (kind =? 6) || (kind =? 7)) = false.
Proof.
  intros cfg s ev Hr Hev. rewrite (chk_C06c_exact cfg s ev Hev). unfold c06c_expected.
  destruct (negb (c_live s)); [intros []|].
  destruct (ev_pkt ev) as [p|] eqn:Ep; [|intros []].
  destruct p; try (intros []).
  destruct qos as [|[q|[q|q|]|]]; try (intros []).
  unfold id_free_or_gw. destruct (c_get_id s mid) as [[g t]|] eqn:Eg; [|intros []].
  apply c_get_id_Some in Eg. destruct Eg as [Eg Et]. unfold c_get_id.
  destruct (ia_id false s (cl_reach_invA false cfg s Hr) mid g Eg) as (t' & Ht' & Hk).
  rewrite Et in Ht'. injection Ht' as <-.
  destruct t as [call att|call kind key st d n sub|call st n ms|mid' pub]; cbn [id_key] in Hk; try discriminate Hk.
  - intros _. destruct ((kind =? 5) || (kind =? 6) || (kind =? 7)) eqn:Ek; [discriminate Hk|].
    injection Hk as ->. exists dup, retain, tit, tid, mid, data, g, call, kind, st, d, n, sub.
    split; [reflexivity|]. split; [|exact Ek]. rewrite Eg, Et. reflexivity.
  - intros [].
Qed.

(* ------------------------------------------------------------------ histories *)

Theorem chk_C06c_only_interference_history : forall cfg evs s, Forall wf_cl_event evs ->
  cl_run_all cfg (fun s ev => forall c, In c (chk_C06c cfg s ev (snd (cl_step cfg s ev))) -> c < 10) s evs.
Proof.
  intros cfg evs. induction evs as [|ev evs IH]; intros s Hwf; cbn [cl_run_all]; [exact I|].
  inversion Hwf as [|? ? Hev Hevs]; subst. split.
  - apply chk_C06c_only_interference, Hev.
  - apply IH, Hevs.
Qed.

(* the form of Properties/C06.v (C06_client_statement), from cl_init *)
Corollary chk_C06c_only_interference_init : forall cfg evs, Forall wf_cl_event evs ->
  cl_run_all cfg (fun s ev => forall c, In c (chk_C06c cfg s ev (snd (cl_step cfg s ev))) -> c < 10) cl_init evs.
Proof. intros cfg evs. apply chk_C06c_only_interference_history. Qed.

(* ------------------------------------------------------------------ both clauses are live *)

Definition ex06_cfg : cl_cfg :=
  {| k_cid := [99; 49]; k_user := []; k_pass := []; k_keepalive := 0; k_ctimeout := 5000; k_rdelay := 1000; k_rcount := 2;
     k_clean := true; k_will := []; k_wmsg := []; k_wqos := 0; k_wretain := false; k_predef := [] |}.
Definition ex06_run (evs : list cl_event) : cl_state := snd (cl_run ex06_cfg cl_init evs).
Definition ex06_pub2 (mid : N) : cl_event := CGw (pack (Publish false 2 false 2 (encode_short [120; 121]) mid [9])).
Definition ex06_conn : list cl_event := [CCall 1 AConnect; CGw (pack (Connack 0))].
(* connected, nothing pending *)
Definition ex06_s0 : cl_state := ex06_run ex06_conn.
(* the client's own exchanges with message ID 1: Register, Publish QoS 1, Publish QoS 2 *)
Definition ex06_sreg : cl_state := ex06_run (ex06_conn ++ [CCall 2 (ARegister [97; 98; 99])]).
Definition ex06_sp1 : cl_state := ex06_run (ex06_conn ++ [CCall 2 (APublish [97; 98] 1 false [7])]).
Definition ex06_sp2 : cl_state := ex06_run (ex06_conn ++ [CCall 2 (APublish [97; 98] 2 false [7])]).
(* the gateway's QoS 2 PUBLISH with ID 9 was received before *)
Definition ex06_srep : cl_state := ex06_run (ex06_conn ++ [ex06_pub2 9]).
(* Close() after the connection: cancelled and closed *)
Definition ex06_sclosed : cl_state := ex06_run (ex06_conn ++ [CCall 2 AClose; CGw (pack (Disconnect 0))]).

Example chk_C06c_exercised :
  (* a fresh ID: PUBREC is due (clause 17 on an empty output list), and the model sends it *)
  chk_C06c ex06_cfg ex06_s0 (ex06_pub2 77) [] = [17] /\
  snd (cl_step ex06_cfg ex06_s0 (ex06_pub2 77)) = [CoSn 0 (pack (Pubrec 77))] /\
  chk_C06c ex06_cfg ex06_s0 (ex06_pub2 77) (snd (cl_step ex06_cfg ex06_s0 (ex06_pub2 77))) = [] /\
  (* the ID of a pending Register / Publish QoS 1 / Publish QoS 2 of the client: clause 7, and the
     model indeed drops the PUBLISH (the recorded finding) *)
  chk_C06c ex06_cfg ex06_sreg (ex06_pub2 1) [] = [7] /\
  snd (cl_step ex06_cfg ex06_sreg (ex06_pub2 1)) = [] /\
  chk_C06c ex06_cfg ex06_sp1 (ex06_pub2 1) (snd (cl_step ex06_cfg ex06_sp1 (ex06_pub2 1))) = [7] /\
  chk_C06c ex06_cfg ex06_sp2 (ex06_pub2 1) (snd (cl_step ex06_cfg ex06_sp2 (ex06_pub2 1))) = [7] /\
  (* ... while another ID is answered in the same state *)
  chk_C06c ex06_cfg ex06_sp1 (ex06_pub2 2) (snd (cl_step ex06_cfg ex06_sp1 (ex06_pub2 2))) = [] /\
  (* a repeated QoS 2 PUBLISH with the same ID: PUBREC is due again (17), and sent again *)
  chk_C06c ex06_cfg ex06_srep (ex06_pub2 9) [] = [17] /\
  chk_C06c ex06_cfg ex06_srep (ex06_pub2 9) (snd (cl_step ex06_cfg ex06_srep (ex06_pub2 9))) = [] /\
  (* a closed / cancelled client: nothing is demanded, nothing is sent *)
  c_live ex06_sclosed = false /\
  chk_C06c ex06_cfg ex06_sclosed (ex06_pub2 9) [] = [] /\
  snd (cl_step ex06_cfg ex06_sclosed (ex06_pub2 9)) = [].
Proof. vm_compute. repeat split. Qed.

(* wf_cl_event is needed: a list with a non-byte in the message-ID field "decodes" to the ID 65541; the
   model's PUBREC carries 65541 mod 65536 = 5 *)
Example c06c_nonbyte_datagram :
  let bad := CGw [9; 12; 64; 120; 121; 256; 5; 9; 9] in
  ev_pkt bad = Some (Publish false 2 false 0 30841 65541 [9; 9]) /\
  c_pkts (snd (cl_step ex06_cfg ex06_s0 bad)) = [Pubrec 5] /\
  chk_C06c ex06_cfg ex06_s0 bad (snd (cl_step ex06_cfg ex06_s0 bad)) = [17].
Proof. vm_compute. repeat split. Qed.

Print Assumptions chk_C06c_exact.
Print Assumptions chk_C06c_only_interference.
Print Assumptions chk_C06c_answered.
Print Assumptions chk_C06c_7_own_exchange.
Print Assumptions chk_C06c_only_interference_history.
