(* Client/Sound_Ka.v — C33, the keep-alive loop of the client library (Client/ClKeepalive.v, monitor
   Checkers/ChkCl4.v). *)
From stdpp Require Import base option list numbers fin_maps nmap.
From Coq Require Import Lia ZArith ZifyN ZifyNat ZifyBool.
From RecordUpdate Require Import RecordSet.
From Verif.Base Require Import Bytes.
From Verif.Codec Require Import Packets Decode Encode.
From Verif.Topics Require Import Predefined.
From Verif.Gateway Require Import GwTypes.
From Verif.Match Require Import Match.
From Verif.Client Require Import ClTypes ClStep ClKeepalive Sound_Client_aux Sound_Client Sound_ClTimed_aux Sound_ClTimed Sound_Ka_aux.
From Verif.Checkers Require Import ChkCl4.
Import RecordSetNotations.
Open Scope N_scope.
Ltac Zify.zify_post_hook ::= Z.div_mod_to_equations.

(* ================================================================== Part 1: refutations by computation *)
Definition cfg33 : cl_cfg :=
  {| k_cid := [99;108;49]; k_user := []; k_pass := []; k_keepalive := 2; k_ctimeout := 5000; k_rdelay := 1000;
     k_rcount := 2; k_clean := true; k_will := []; k_wmsg := []; k_wqos := 0; k_wretain := false; k_predef := [] |}.
Definition G33 (p : packet) : cl_event := CGw (pack p).

Lemma wf_cfg33 : wf_cl_cfg cfg33.
Proof. unfold wf_cl_cfg. repeat split; try (vm_compute; reflexivity); try (vm_compute; discriminate); repeat constructor; vm_compute; reflexivity. Qed.

(* A keep-alive ping begun at 2010 (the client is active) is retransmitted at 3010, after Sleep has put the
   client to sleep at 2020: a PINGREQ without client ID from a sleeping client, no Ping call in progress. *)
Definition h_retransmit : list cl_event :=
  [CCall 1 AConnect; CAdv 10; G33 (Connack 0); CAdv 2005; CCall 2 (ASleep 3000); CAdv 5; G33 (Disconnect 0); CAdv 1200].
Example C33_refuted_retransmission :
  wf_cl_cfg cfg33 /\ ka_modelled cfg33 ka_init h_retransmit = true /\
  kmon_run cfg33 ka_init kmon_init h_retransmit = [(33, 2)].
Proof. split; [exact wf_cfg33|]. split; vm_compute; reflexivity. Qed.

(* The loop's ping (2010) takes the PINGREQ slot of the API's Ping call 2 (1510); the PINGRESP completes the
   loop's ping; call 2 runs out of retries at 4510 although the gateway answered. *)
Definition h_victim : list cl_event :=
  [CCall 1 AConnect; CAdv 10; G33 (Connack 0); CAdv 1500; CCall 2 APing; CAdv 505; G33 Pingresp; CAdv 2600].
Example C33_refuted_ping_call_fails :
  ka_modelled cfg33 ka_init h_victim = true /\ In (33, 3) (kmon_run cfg33 ka_init kmon_init h_victim).
Proof. split; [vm_compute; reflexivity|]. vm_compute. left. reflexivity. Qed.
Example C33_ping_call_fails_outputs :
  exists t, In (KoCl (CoRet t 2 RNoRetries)) (concat (fst (ka_run cfg33 ka_init h_victim))).
Proof. exists 4510. vm_compute. auto 30. Qed.

(* Non-vacuity: connect, three answered keep-alive pings (2010, 4010, 6010), Sleep(3000) with the gateway's
   DISCONNECT, wake-up ping at 9520 answered: inside the model, no failure. *)
Definition h_ordinary : list cl_event :=
  [CCall 1 AConnect; CAdv 10; G33 (Connack 0); CAdv 2005; G33 Pingresp; CAdv 2000; G33 Pingresp; CAdv 2000; G33 Pingresp;
   CAdv 500; CCall 2 (ASleep 3000); CAdv 5; G33 (Disconnect 0); CAdv 3000; G33 Pingresp; CAdv 100].
Example C33_ordinary :
  ka_modelled cfg33 ka_init h_ordinary = true /\ kmon_run cfg33 ka_init kmon_init h_ordinary = [] /\
  List.filter (fun o => match o with KoPing _ _ => true | _ => false end) (concat (fst (ka_run cfg33 ka_init h_ordinary)))
    = [KoPing 2010 1000000; KoPing 4010 1000001; KoPing 6010 1000002].
Proof. repeat split; vm_compute; reflexivity. Qed.

(* ================================================================== Part 2: pings start only while active *)
(* The invariant of the wrapper.  While the loop has not returned:
     - the group context is not cancelled (the loop returns when it is);
     - the ticker's next tick is not in the past;
     - TickerOK: with an empty state channel the ticker runs (or a tick is pending) only if the client is
       active; a state change in the channel is the last one;
     - Settled: when the loop is not inside a ping, its select has nothing to take (between steps). *)
Definition TickerOK (k : ka_state) : Prop :=
  match ka_chan k with
  | None => (ka_next k <> None \/ ka_tick k = true) -> ka_seen k = Active
  | Some st => st = ka_seen k
  end.
Definition Live (k : ka_state) : Prop :=
  cl_cancelled (ka_cl k) = None /\ (forall t, ka_next k = Some t -> cl_now (ka_cl k) <= t) /\ TickerOK k.
Definition Settled (k : ka_state) : Prop := ka_busy k = None -> ka_chan k = None /\ ka_tick k = false.
Definition KInv' (k : ka_state) : Prop := ka_seen k = cl_st (ka_cl k) /\ (ka_done k = false -> Live k).
Definition KInv (cfg : cl_cfg) (k : ka_state) : Prop := KInv' k /\ (ka_done k = false -> Settled k).

Lemma KInv_init cfg : KInv cfg ka_init.
Proof.
  split; [split; [reflexivity|]|]; intros _.
  - split; [reflexivity|]. split; [intros t H; discriminate H|]. intros [H|H]; [destruct H; reflexivity|discriminate H].
  - intros _. split; reflexivity.
Qed.

Section Ka.
Variable cfg : cl_cfg.
Hypothesis Hka : 0 < k_keepalive cfg.

Lemma ka_nz : (k_keepalive cfg =? 0) = false.
Proof. apply N.eqb_neq. lia. Qed.

(* ------------------------------------------------------------------ ka_absorb in stages *)
Definition ab_fail (s' : cl_state) : cl_state :=
  match cl_cancelled s' with Some _ => s' | None => c_cancel_from_api s' <| cl_group_err := true |> end.
Definition ab1 (k : ka_state) (s' : cl_state) (os : list cl_out) : ka_state :=
  let k := k <| ka_cl := s' |> in
  match internal_ret (ka_busy k) os with
  | None => k
  | Some ROk => k <| ka_busy := None |>
  | Some RCancelled => k <| ka_busy := None |> <| ka_done := true |>
  | Some _ => k <| ka_busy := None |> <| ka_done := true |> <| ka_cl := ab_fail s' |>
  end.
Definition ab2 (k : ka_state) : ka_state :=
  if is_some (cl_cancelled (ka_cl k))
  then k <| ka_done := true |> <| ka_busy := None |> <| ka_next := None |> <| ka_tick := false |> <| ka_chan := None |>
  else k.
Definition ab3 (k : ka_state) (st' : cstate) : ka_state :=
  let k := k <| ka_seen := st' |> in
  if ka_done k || (k_keepalive cfg =? 0) then k
  else match ka_busy k, ka_chan k with
       | None, _ => ka_take_change cfg k st'
       | Some _, None => k <| ka_chan := Some st' |>
       | Some _, Some _ => k <| ka_excl := true |>
       end.
Lemma absorb_eq k s' os : ka_absorb cfg k (s', os) =
  let k2 := ab2 (ab1 k s' os) in
  let st' := cl_st (ka_cl k2) in
  if cstate_eqb st' (ka_seen k2) then (k2, map KoCl (user_outs os))
  else (ab3 k2 st', map KoCl (user_outs os) ++ [KoState (cl_now (ka_cl (ab3 k2 st'))) st']).
Proof. reflexivity. Qed.

Lemma Same_ab_fail s' : Same s' (ab_fail s') /\ cl_now (ab_fail s') = cl_now s' /\ (canc s' -> canc (ab_fail s')).
Proof.
  unfold ab_fail. destruct (cl_cancelled s') eqn:E; [split; [apply Same_refl|split; [reflexivity|auto]]|].
  split; [|split].
  - eapply Same_trans; [apply Same_cancel_api|apply Same_eq; reflexivity].
  - change (cl_now (c_cancel_from_api s') = cl_now s'). apply cancel_api_now.
  - intros H. destruct (H E).
Qed.

Record Ab1 (k : ka_state) (s' : cl_state) (os : list cl_out) (k1 : ka_state) : Prop := {
  a1_seen : ka_seen k1 = ka_seen k; a1_next : ka_next k1 = ka_next k; a1_tick : ka_tick k1 = ka_tick k;
  a1_chan : ka_chan k1 = ka_chan k; a1_excl : ka_excl k1 = ka_excl k;
  a1_now : cl_now (ka_cl k1) = cl_now s'; a1_same : Same s' (ka_cl k1); a1_canc : canc s' -> canc (ka_cl k1);
  a1_done : ka_done k = true -> ka_done k1 = true;
  a1_cases : (ka_busy k1 = ka_busy k /\ ka_done k1 = ka_done k /\ ka_cl k1 = s') \/
             (ka_busy k1 = None /\ ka_cl k1 = s' /\ internal_ret (ka_busy k) os = Some ROk) \/
             (ka_busy k1 = None /\ ka_done k1 = true) }.

Lemma ab1_facts k s' os : Ab1 k s' os (ab1 k s' os).
Proof.
  destruct (Same_ab_fail s') as (F1 & F2 & F3).
  unfold ab1. cbv zeta. change (ka_busy (k <| ka_cl := s' |>)) with (ka_busy k).
  destruct (internal_ret (ka_busy k) os) as [[]|] eqn:Ei; constructor; cbn; try reflexivity; try assumption; try apply Same_refl; auto.
Qed.
