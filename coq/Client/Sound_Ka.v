(* Client/Sound_Ka.v — C33, the keep-alive loop of the client library (model Client/ClKeepalive.v, monitor
   Checkers/ChkCl4.v).

   Part 1, refutations by computation (cfg33: KeepAlive 2 s, RetryDelay 1 s, RetryCount 2):
     C33_refuted_retransmission   h_retransmit is inside the model and the monitor reports exactly [(33,2)]: a
                                  keep-alive ping begun at 2010 is retransmitted at 3010 while the client sleeps;
     C33_refuted_ping_call_fails  h_victim is inside the model and the monitor reports (33,3): the loop's ping takes
                                  the PINGREQ slot of the API's Ping call 2, which fails with RNoRetries at 4510
                                  (C33_ping_call_fails_outputs);
     C33_ordinary                 connect, three answered keep-alive pings, a Sleep cycle: inside the model, no
                                  failure, the loop's pings are 2010, 4010, 6010.

   Part 2, the loop STARTS pings only while the client is active:
     KInv cfg k                   the wrapper invariant (KInv_init: it holds for ka_init): ka_seen k is the client's
                                  state; while the loop has not returned, the group context is not cancelled, the
                                  next tick is not in the past, the ticker runs (or a tick is pending) with an empty
                                  state channel only if the client is active, a change in the channel is the last
                                  one, and an idle loop has nothing to take (Settled);
     KInv_step                    0 < k_keepalive cfg -> KInv cfg k -> ka_excl (fst (ka_step cfg k ev)) = false ->
                                  KInv cfg (fst (ka_step cfg k ev));
     ka_ping_only_when_active     under the same hypotheses every KoPing t id of the step has
                                  state_at (ka_seen k) (ko_changes outputs) t = Active;
     ka_ping_only_when_active_history   the same for every step of every history with ka_modelled = true
                                  (ka_run_all cfg (pings_while_active cfg) ka_init evs).
   The statements are proved as given (no hypothesis added).  Besides "cl_now of the result" the proof needs
   three facts about cl_step (Sound_Ka_aux.v), because state_at looks at ALL changes of the step with a time
   <= t, also those emitted after the ping: (a) before cl_deadline an advance does nothing (the tick itself
   cannot change the state); (b) a CAdv step returns ROk to nobody unless it cancels the group (so no ping
   starts inside the client's part of an advance); (c) after a ping at instant t only retry timers can be due
   at t (all others are later than the tick, the ping arms a retry timer only) and retry timers do not change
   the state, so no state change at instant t follows the ping (with RetryDelay 0 the retries do fire at t).

   Part 3 (kmon_gap_sound, clause (33,1)) is NOT proved here.  A first version of the monitor kept km_since
   across the death of the client inside one step and reported a gap for a timer of a left-over sleep
   transaction firing after the client's exit (found here); kmon_step now ignores what happens after the
   group's cancellation (C33_gap_after_death_not_judged below shows the former false alarm accepted).  A proof for steps of a live client needs a frame invariant
   of cl_step for the loop's transaction object and its retry timer, the time order of the CoSn outputs, and
   the commutation of merge_marks with the emission order. *)
From stdpp Require Import base option list numbers fin_maps nmap.
From Coq Require Import Lia ZArith ZifyN ZifyNat ZifyBool.
From RecordUpdate Require Import RecordSet.
From Verif.Base Require Import Bytes.
From Verif.Codec Require Import Packets Decode Encode.
From Verif.Topics Require Import Predefined.
From Verif.Gateway Require Import GwTypes.
From Verif.Match Require Import Match.
From Verif.Client Require Import ClTypes ClStep ClKeepalive Sound_Client_aux Sound_Client Sound_ClTimed_aux Sound_ClTimed Sound_Ka_aux.
From Verif.Checkers Require Import ChkCl4.
Import RecordSetNotations.
Open Scope N_scope.
Ltac Zify.zify_post_hook ::= Z.div_mod_to_equations.

(* ================================================================== Part 1: refutations by computation *)
Definition cfg33 : cl_cfg :=
  {| k_cid := [99;108;49]; k_user := []; k_pass := []; k_keepalive := 2; k_ctimeout := 5000; k_rdelay := 1000;
     k_rcount := 2; k_clean := true; k_will := []; k_wmsg := []; k_wqos := 0; k_wretain := false; k_predef := [] |}.
Definition G33 (p : packet) : cl_event := CGw (pack p).

Lemma wf_cfg33 : wf_cl_cfg cfg33.
Proof. unfold wf_cl_cfg. repeat split; try (vm_compute; reflexivity); try (vm_compute; discriminate); repeat constructor; vm_compute; reflexivity. Qed.

(* A keep-alive ping begun at 2010 (the client is active) is retransmitted at 3010, after Sleep has put the
   client to sleep at 2020: a PINGREQ without client ID from a sleeping client, no Ping call in progress. *)
Definition h_retransmit : list cl_event :=
  [CCall 1 AConnect; CAdv 10; G33 (Connack 0); CAdv 2005; CCall 2 (ASleep 3000); CAdv 5; G33 (Disconnect 0); CAdv 1200].
Example C33_refuted_retransmission :
  wf_cl_cfg cfg33 /\ ka_modelled cfg33 ka_init h_retransmit = true /\
  kmon_run cfg33 ka_init kmon_init h_retransmit = [(33, 2)].
Proof. split; [exact wf_cfg33|]. split; vm_compute; reflexivity. Qed.

(* The loop's ping (2010) takes the PINGREQ slot of the API's Ping call 2 (1510); the PINGRESP completes the
   loop's ping; call 2 runs out of retries at 4510 although the gateway answered. *)
Definition h_victim : list cl_event :=
  [CCall 1 AConnect; CAdv 10; G33 (Connack 0); CAdv 1500; CCall 2 APing; CAdv 505; G33 Pingresp; CAdv 2600].
Example C33_refuted_ping_call_fails :
  ka_modelled cfg33 ka_init h_victim = true /\ In (33, 3) (kmon_run cfg33 ka_init kmon_init h_victim).
Proof. split; [vm_compute; reflexivity|]. vm_compute. left. reflexivity. Qed.
Example C33_ping_call_fails_outputs :
  exists t, In (KoCl (CoRet t 2 RNoRetries)) (concat (fst (ka_run cfg33 ka_init h_victim))).
Proof. exists 4510. vm_compute. auto 30. Qed.

(* Non-vacuity: connect, three answered keep-alive pings (2010, 4010, 6010), Sleep(3000) with the gateway's
   DISCONNECT, wake-up ping at 9520 answered: inside the model, no failure. *)
Definition h_ordinary : list cl_event :=
  [CCall 1 AConnect; CAdv 10; G33 (Connack 0); CAdv 2005; G33 Pingresp; CAdv 2000; G33 Pingresp; CAdv 2000; G33 Pingresp;
   CAdv 500; CCall 2 (ASleep 3000); CAdv 5; G33 (Disconnect 0); CAdv 3000; G33 Pingresp; CAdv 100].
Example C33_ordinary :
  ka_modelled cfg33 ka_init h_ordinary = true /\ kmon_run cfg33 ka_init kmon_init h_ordinary = [] /\
  List.filter (fun o => match o with KoPing _ _ => true | _ => false end) (concat (fst (ka_run cfg33 ka_init h_ordinary)))
    = [KoPing 2010 1000000; KoPing 4010 1000001; KoPing 6010 1000002].
Proof. repeat split; vm_compute; reflexivity. Qed.

(* ================================================================== Part 2: pings start only while active *)
(* The invariant of the wrapper.  While the loop has not returned:
     - the group context is not cancelled (the loop returns when it is);
     - the ticker's next tick is not in the past;
     - TickerOK: with an empty state channel the ticker runs (or a tick is pending) only if the client is
       active; a state change in the channel is the last one;
     - Settled: when the loop is not inside a ping, its select has nothing to take (between steps). *)
Definition TickerOK (k : ka_state) : Prop :=
  match ka_chan k with
  | None => (ka_next k <> None \/ ka_tick k = true) -> ka_seen k = Active
  | Some st => st = ka_seen k
  end.
Definition Live (k : ka_state) : Prop :=
  cl_cancelled (ka_cl k) = None /\ (forall t, ka_next k = Some t -> cl_now (ka_cl k) <= t) /\ TickerOK k.
Definition Settled (k : ka_state) : Prop := ka_busy k = None -> ka_chan k = None /\ ka_tick k = false.
Definition KInv' (k : ka_state) : Prop := ka_seen k = cl_st (ka_cl k) /\ (ka_done k = false -> Live k).
Definition KInv (cfg : cl_cfg) (k : ka_state) : Prop := KInv' k /\ (ka_done k = false -> Settled k).

Lemma KInv_init cfg : KInv cfg ka_init.
Proof.
  split; [split; [reflexivity|]|]; intros _.
  - split; [reflexivity|]. split; [intros t H; discriminate H|]. intros [H|H]; [destruct H; reflexivity|discriminate H].
  - intros _. split; reflexivity.
Qed.

Section Ka.
Variable cfg : cl_cfg.
Hypothesis Hka : 0 < k_keepalive cfg.

Lemma ka_nz : (k_keepalive cfg =? 0) = false.
Proof. apply N.eqb_neq. lia. Qed.

(* ------------------------------------------------------------------ ka_absorb in stages *)
Definition ab_fail (s' : cl_state) : cl_state :=
  match cl_cancelled s' with Some _ => s' | None => c_cancel_from_api s' <| cl_group_err := true |> end.
Definition ab1 (k : ka_state) (s' : cl_state) (os : list cl_out) : ka_state :=
  let k := k <| ka_cl := s' |> in
  match internal_ret (ka_busy k) os with
  | None => k
  | Some ROk => k <| ka_busy := None |>
  | Some RCancelled => k <| ka_busy := None |> <| ka_done := true |>
  | Some _ => k <| ka_busy := None |> <| ka_done := true |> <| ka_cl := ab_fail s' |>
  end.
Definition ab2 (k : ka_state) : ka_state :=
  if is_some (cl_cancelled (ka_cl k))
  then k <| ka_done := true |> <| ka_busy := None |> <| ka_next := None |> <| ka_tick := false |> <| ka_chan := None |>
  else k.
Definition ab3 (k : ka_state) (st' : cstate) : ka_state :=
  let k := k <| ka_seen := st' |> in
  if ka_done k || (k_keepalive cfg =? 0) then k
  else match ka_busy k, ka_chan k with
       | None, _ => ka_take_change cfg k st'
       | Some _, None => k <| ka_chan := Some st' |>
       | Some _, Some _ => k <| ka_excl := true |>
       end.
Lemma absorb_eq k s' os : ka_absorb cfg k (s', os) =
  let k2 := ab2 (ab1 k s' os) in
  let st' := cl_st (ka_cl k2) in
  if cstate_eqb st' (ka_seen k2) then (k2, map KoCl (user_outs os))
  else (ab3 k2 st', map KoCl (user_outs os) ++ [KoState (cl_now (ka_cl (ab3 k2 st'))) st']).
Proof. reflexivity. Qed.

Lemma Same_ab_fail s' : Same s' (ab_fail s') /\ cl_now (ab_fail s') = cl_now s' /\ (canc s' -> canc (ab_fail s')).
Proof.
  unfold ab_fail. destruct (cl_cancelled s') eqn:E; [split; [apply Same_refl|split; [reflexivity|auto]]|].
  split; [|split].
  - eapply Same_trans; [apply Same_cancel_api|apply Same_eq; reflexivity].
  - change (cl_now (c_cancel_from_api s') = cl_now s'). apply cancel_api_now.
  - intros H. destruct (H E).
Qed.

Record Ab1 (k : ka_state) (s' : cl_state) (os : list cl_out) (k1 : ka_state) : Prop := {
  a1_seen : ka_seen k1 = ka_seen k; a1_next : ka_next k1 = ka_next k; a1_tick : ka_tick k1 = ka_tick k;
  a1_chan : ka_chan k1 = ka_chan k; a1_excl : ka_excl k1 = ka_excl k;
  a1_now : cl_now (ka_cl k1) = cl_now s'; a1_same : Same s' (ka_cl k1); a1_canc : canc s' -> canc (ka_cl k1);
  a1_done : ka_done k = true -> ka_done k1 = true;
  a1_cases : (ka_busy k1 = ka_busy k /\ ka_done k1 = ka_done k /\ ka_cl k1 = s') \/
             (ka_busy k1 = None /\ ka_cl k1 = s' /\ internal_ret (ka_busy k) os = Some ROk) \/
             (ka_busy k1 = None /\ ka_done k1 = true) }.

Lemma ab1_facts k s' os : Ab1 k s' os (ab1 k s' os).
Proof.
  destruct (Same_ab_fail s') as (F1 & F2 & F3).
  unfold ab1. cbv zeta. change (ka_busy (k <| ka_cl := s' |>)) with (ka_busy k).
  destruct (internal_ret (ka_busy k) os) as [[]|] eqn:Ei; constructor; cbn; try reflexivity; try assumption; try apply Same_refl; auto.
Qed.

Lemma bool_contra (a b : bool) : (a = true -> b = true) -> b = false -> a = false.
Proof. destruct a; [|reflexivity]. intros H E. rewrite H in E by reflexivity. discriminate E. Qed.

Lemma absorb_spec k s' os :
  KInv' k -> (forall t, ka_done k = false -> ka_next k = Some t -> cl_now s' <= t) ->
  ka_excl (fst (ka_absorb cfg k (s', os))) = false ->
  KInv' (fst (ka_absorb cfg k (s', os))) /\
  cl_now (ka_cl (fst (ka_absorb cfg k (s', os)))) = cl_now s' /\
  Same s' (ka_cl (fst (ka_absorb cfg k (s', os)))) /\
  (exists chg, snd (ka_absorb cfg k (s', os)) = map KoCl (user_outs os) ++ chg /\
      (chg = [] /\ ka_seen (fst (ka_absorb cfg k (s', os))) = ka_seen k \/
       chg = [KoState (cl_now s') (ka_seen (fst (ka_absorb cfg k (s', os))))] /\
       ka_seen (fst (ka_absorb cfg k (s', os))) <> ka_seen k)) /\
  (ka_done k = true -> ka_done (fst (ka_absorb cfg k (s', os))) = true) /\
  ka_excl k = false /\
  (ka_done (fst (ka_absorb cfg k (s', os))) = false -> Settled k ->
   (internal_ret (ka_busy k) os = Some ROk -> canc s') -> Settled (fst (ka_absorb cfg k (s', os)))).
Proof.
  intros [Hs Hl] Hnow. rewrite absorb_eq. cbv zeta.
  pose proof (ab1_facts k s' os) as A. set (k1 := ab1 k s' os) in *. clearbody k1.
  destruct A as [A1 A2 A3 A4 A5 A6 A7 A8 A9 A10].
  unfold ab2. destruct (cl_cancelled (ka_cl k1)) as [te|] eqn:Ec; cbn [is_some].
  - (* cancelled: the loop has returned *)
    cbn. destruct (cstate_eqb (cl_st (ka_cl k1)) (ka_seen k1)) eqn:Eq.
    + cbn. intros Hx. split; [split; [symmetry; apply cstate_eqb_true, Eq|discriminate]|].
      split; [exact A6|]. split; [exact A7|]. split.
      { exists []. rewrite app_nil_r. split; [reflexivity|]. left. split; [reflexivity|exact A1]. }
      split; [reflexivity|]. split; [congruence|]. discriminate.
    + unfold ab3. cbv zeta. cbn. intros Hx. split; [split; [reflexivity|discriminate]|].
      split; [exact A6|]. split; [exact A7|]. split.
      { exists [KoState (cl_now (ka_cl k1)) (cl_st (ka_cl k1))]. split; [reflexivity|]. right. rewrite A6. split; [reflexivity|]. rewrite <- A1. apply cstate_eqb_false, Eq. }
      split; [reflexivity|]. split; [congruence|]. discriminate.
  - destruct (cstate_eqb (cl_st (ka_cl k1)) (ka_seen k1)) eqn:Eq.
    + (* no state change *)
      cbn [fst snd]. intros Hx. split.
      { split; [symmetry; apply cstate_eqb_true, Eq|]. intros Hd.
        assert (Hd0 : ka_done k = false) by (exact (bool_contra _ _ A9 Hd)).
        destruct (Hl Hd0) as (L1 & L2 & L3). split; [exact Ec|]. split.
        - intros t Ht. rewrite A6. apply Hnow; [exact Hd0|congruence].
        - unfold TickerOK in *. rewrite A4, A2, A3, A1. exact L3. }
      split; [exact A6|]. split; [exact A7|]. split.
      { exists []. rewrite app_nil_r. split; [reflexivity|]. left. split; [reflexivity|exact A1]. }
      split; [exact A9|]. split; [congruence|].
      intros Hd Hst Hr Hb. unfold Settled in Hst. rewrite A4, A3.
      destruct A10 as [(B1 & B2 & B3)|[(B1 & B2 & B3)|(B1 & B2)]].
      * apply Hst. congruence.
      * exfalso. apply (A8 (Hr B3)). exact Ec.
      * congruence.
    + (* a state change *)
      unfold ab3. cbv zeta. cbn [ka_done ka_busy ka_chan]. cbn. rewrite ka_nz, orb_false_r.
      destruct (ka_done k1) eqn:Hd1.
      { cbn. intros Hx. split; [split; [reflexivity|intros Hd; cbn in Hd; congruence]|].
        split; [exact A6|]. split; [exact A7|]. split.
        { exists [KoState (cl_now (ka_cl k1)) (cl_st (ka_cl k1))]. split; [reflexivity|]. right. rewrite A6. split; [reflexivity|]. rewrite <- A1. apply cstate_eqb_false, Eq. }
        split; [intros _; exact Hd1|]. split; [congruence|]. intros Hd; cbn in Hd; congruence. }
      assert (Hd0 : ka_done k = false) by (exact (bool_contra _ _ A9 eq_refl)).
      destruct (Hl Hd0) as (L1 & L2 & L3).
      destruct (ka_busy k1) as [b|] eqn:Hb1; [destruct (ka_chan k1) as [c|] eqn:Hc1|].
      * cbn. intros Hx. discriminate Hx.
      * cbn. intros Hx. split.
        { split; [reflexivity|]. intros _. split; [exact Ec|]. split.
          - intros t Ht. cbn in Ht |- *. rewrite A6. apply Hnow; [exact Hd0|congruence].
          - unfold TickerOK. cbn. reflexivity. }
        split; [exact A6|]. split; [exact A7|]. split.
        { exists [KoState (cl_now (ka_cl k1)) (cl_st (ka_cl k1))]. split; [reflexivity|]. right. rewrite A6. split; [reflexivity|]. rewrite <- A1. apply cstate_eqb_false, Eq. }
        split; [congruence|]. split; [congruence|]. intros _ _ _ Hb. cbn in Hb. congruence.
      * unfold ka_take_change. cbn. intros Hx. split.
        { split; [reflexivity|]. intros _. split; [exact Ec|]. split.
          - intros t Ht. cbn in Ht |- *. destruct (cstate_eqb (cl_st (ka_cl k1)) Active); [|discriminate Ht]. injection Ht as <-. lia.
          - unfold TickerOK. cbn. intros [H|H]; [|discriminate H].
            destruct (cstate_eqb (cl_st (ka_cl k1)) Active) eqn:Ea; [apply cstate_eqb_true, Ea|destruct H; reflexivity]. }
        split; [exact A6|]. split; [exact A7|]. split.
        { exists [KoState (cl_now (ka_cl k1)) (cl_st (ka_cl k1))]. split; [reflexivity|]. right. rewrite A6. split; [reflexivity|]. rewrite <- A1. apply cstate_eqb_false, Eq. }
        split; [congruence|]. split; [congruence|]. intros _ _ _ _. cbn. split; reflexivity.
Qed.

(* ------------------------------------------------------------------ ka_excl is never reset *)
Lemma ab2_excl k : ka_excl (ab2 k) = ka_excl k.
Proof. unfold ab2. destruct (is_some _); reflexivity. Qed.
Lemma ab3_excl k st : ka_excl k = true -> ka_excl (ab3 k st) = true.
Proof.
  intros H. unfold ab3, ka_take_change. cbv zeta. destruct (_ || _); [exact H|].
  cbn [ka_busy ka_chan]. cbn. destruct (ka_busy k); [destruct (ka_chan k)|]; cbn; auto.
Qed.
Lemma absorb_excl k r : ka_excl k = true -> ka_excl (fst (ka_absorb cfg k r)) = true.
Proof.
  intros H. destruct r as [s' os]. rewrite absorb_eq. cbv zeta.
  assert (H2 : ka_excl (ab2 (ab1 k s' os)) = true) by (rewrite ab2_excl, (a1_excl _ _ _ _ (ab1_facts k s' os)); exact H).
  destruct (cstate_eqb _ _); cbn [fst]; [exact H2|apply ab3_excl, H2].
Qed.
Lemma start_ping_excl k : ka_excl k = true -> ka_excl (fst (ka_start_ping cfg k)) = true.
Proof.
  intros H. unfold ka_start_ping. cbv zeta.
  match goal with |- context [ka_absorb cfg ?K ?R] => pose proof (absorb_excl K R H) as H1; destruct (ka_absorb cfg K R) as [k1 o1] end.
  exact H1.
Qed.
Lemma settle_excl : forall f k, ka_excl k = true -> ka_excl (fst (ka_settle f cfg k)) = true.
Proof.
  induction f as [|f IH]; intros k H; cbn [ka_settle]; [reflexivity|].
  destruct (_ || _); [exact H|]. destruct (ka_chan k) as [st|], (ka_tick k); try exact H; try reflexivity.
  - apply IH. exact H.
  - match goal with |- context [ka_start_ping cfg ?K] => pose proof (start_ping_excl K H) as H1; destruct (ka_start_ping cfg K) as [k1 o1] end.
    cbn [fst] in H1.
    pose proof (IH k1 H1) as H2. destruct (ka_settle f cfg k1) as [k2 o2]. exact H2.
Qed.
Lemma do_excl k ev : ka_excl k = true -> ka_excl (fst (ka_do cfg k ev)) = true.
Proof.
  intros H. unfold ka_do.
  pose proof (absorb_excl k (cl_step cfg (ka_cl k) ev) H) as H1. destruct (ka_absorb cfg k _) as [k1 o1]. cbn [fst] in H1.
  pose proof (settle_excl 4 k1 H1) as H2. destruct (ka_settle 4 cfg k1) as [k2 o2]. exact H2.
Qed.

Lemma advance_excl target : forall f k, ka_excl k = true -> ka_excl (fst (ka_advance f cfg k target)) = true.
Proof.
  induction f as [|f IH]; intros k H; cbn [ka_advance]; [reflexivity|]. cbv zeta.
  assert (Hgo : forall d, ka_excl (fst (ka_do cfg k (CAdv d))) = true) by (intros d; apply do_excl, H).
  assert (Hrec : forall d (b : bool), ka_excl (fst (let '(k1, o1) := ka_do cfg k (CAdv d) in
              let k1 := if b then k1 <| ka_excl := true |> else k1 in
              let '(k2, o2) := ka_advance f cfg k1 target in (k2, o1 ++ o2))) = true).
  { intros d b. specialize (Hgo d). destruct (ka_do cfg k (CAdv d)) as [k1 o1]. cbn [fst] in Hgo. cbv zeta.
    assert (H1 : ka_excl (if b then k1 <| ka_excl := true |> else k1) = true) by (destruct b; [reflexivity|exact Hgo]).
    pose proof (IH _ H1) as H2. destruct (ka_advance f cfg _ target) as [k2 o2]. exact H2. }
  assert (Hrec' : forall d, ka_excl (fst (let '(k1, o1) := ka_do cfg k (CAdv d) in
              let '(k2, o2) := ka_advance f cfg k1 target in (k2, o1 ++ o2))) = true).
  { intros d. specialize (Hgo d). destruct (ka_do cfg k (CAdv d)) as [k1 o1]. cbn [fst] in Hgo.
    pose proof (IH _ Hgo) as H2. destruct (ka_advance f cfg _ target) as [k2 o2]. exact H2. }
  assert (Htick : forall t, ka_excl (fst (let '(k1, o1) := ka_absorb cfg k (cl_step cfg (ka_cl k) (CAdv (t - cl_now (ka_cl k)))) in
            let k1 := k1 <| ka_next := Some (t + ka_period cfg) |> in
            let '(k2, o2) := if is_some (ka_busy k1) then (k1 <| ka_tick := true |>, [])
                             else ka_settle 4 cfg (k1 <| ka_tick := true |>) in
            let '(k3, o3) := ka_advance f cfg k2 target in (k3, o1 ++ o2 ++ o3))) = true).
  { intros t. pose proof (absorb_excl k (cl_step cfg (ka_cl k) (CAdv (t - cl_now (ka_cl k)))) H) as H1.
    destruct (ka_absorb cfg k _) as [k1 o1]. cbn [fst] in H1. cbv zeta.
    assert (H2 : ka_excl (fst (if is_some (ka_busy (k1 <| ka_next := Some (t + ka_period cfg) |>))
                    then (k1 <| ka_next := Some (t + ka_period cfg) |> <| ka_tick := true |>, [])
                    else ka_settle 4 cfg (k1 <| ka_next := Some (t + ka_period cfg) |> <| ka_tick := true |>))) = true).
    { destruct (is_some _); [exact H1|]. apply settle_excl. exact H1. }
    destruct (if is_some _ then _ else _) as [k2 o2]. cbn [fst] in H2.
    pose proof (IH _ H2) as H3. destruct (ka_advance f cfg k2 target) as [k3 o3]. exact H3. }
  destruct (if ka_done k then None else ka_next k) as [t|].
  - destruct (cl_deadline (ka_cl k)) as [c|].
    + destruct (c <=? t).
      * destruct (target <? c); [apply Hgo|apply Hrec].
      * destruct (target <? t); [apply Hgo|apply Htick].
    + destruct (target <? t); [apply Hgo|apply Htick].
  - destruct (cl_deadline (ka_cl k)) as [c|]; [|apply Hgo].
    destruct (target <? c); [apply Hgo|apply Hrec'].
Qed.

(* ------------------------------------------------------------------ the loop's select *)
Lemma KInv'_ext k k' : ka_cl k' = ka_cl k -> ka_seen k' = ka_seen k -> ka_done k' = ka_done k -> ka_next k' = ka_next k ->
  ka_chan k' = ka_chan k -> (ka_tick k' = true -> ka_tick k = true) -> KInv' k -> KInv' k'.
Proof.
  intros E1 E2 E3 E4 E5 E6 [Hs Hl]. split; [congruence|]. rewrite E3. intros Hd. destruct (Hl Hd) as (L1 & L2 & L3).
  split; [congruence|]. split; [intros t Ht; rewrite E1; apply L2; congruence|].
  unfold TickerOK in *. rewrite E5, E4, E2. destruct (ka_chan k); [exact L3|]. intros [H|H]; apply L3; auto.
Qed.

Lemma start_ping_spec k : KInv' k -> ka_excl (fst (ka_start_ping cfg k)) = false ->
  KInv' (fst (ka_start_ping cfg k)) /\
  cl_now (ka_cl (fst (ka_start_ping cfg k))) = cl_now (ka_cl k) /\
  Same (ka_cl k) (ka_cl (fst (ka_start_ping cfg k))) /\
  ka_seen (fst (ka_start_ping cfg k)) = ka_seen k /\
  (exists xs, snd (ka_start_ping cfg k) = KoPing (cl_now (ka_cl k)) (INTERNAL + ka_count k) :: map KoCl xs) /\
  ka_excl k = false /\ (ka_done k = true -> ka_done (fst (ka_start_ping cfg k)) = true).
Proof.
  intros Hk. unfold ka_start_ping. cbv zeta.
  destruct (ping_step cfg (ka_cl k) (INTERNAL + ka_count k)) as [P1 P2].
  destruct (cl_step cfg (ka_cl k) (CCall (INTERNAL + ka_count k) APing)) as [s' os]. cbn [fst] in P1, P2.
  set (kp := k <| ka_busy := Some (INTERNAL + ka_count k) |> <| ka_count := ka_count k + 1 |>).
  assert (Hkp : KInv' kp) by (apply (KInv'_ext k); try reflexivity; auto).
  assert (Hnow : forall t, ka_done kp = false -> ka_next kp = Some t -> cl_now s' <= t).
  { intros t Hd Ht. rewrite P2. destruct Hk as [_ Hl]. destruct (Hl Hd) as (_ & L2 & _). apply L2, Ht. }
  pose proof (absorb_spec kp s' os Hkp Hnow) as A.
  destruct (ka_absorb cfg kp (s', os)) as [k1 o1]. cbn [fst snd] in *. intros Hx.
  destruct (A Hx) as (A1 & A2 & A3 & (chg & A4 & A5) & A6 & A7 & _).
  split; [exact A1|]. split; [congruence|]. split; [eapply Same_trans; eassumption|].
  assert (Es : ka_seen k1 = ka_seen k).
  { destruct A1 as [-> _]. destruct A3 as [-> _]. destruct P1 as [-> _]. destruct Hk as [-> _]. reflexivity. }
  split; [exact Es|]. split.
  - exists (user_outs os). destruct A5 as [[-> _]|[_ Hne]]; [rewrite A4, app_nil_r; reflexivity|]. destruct (Hne Es).
  - split; [exact A7|exact A6].
Qed.

Lemma settle_stop k : ka_excl k = false -> KInv' k -> (ka_done k = false -> Settled k) ->
  KInv cfg k /\ cl_now (ka_cl k) = cl_now (ka_cl k) /\ Same (ka_cl k) (ka_cl k) /\ ka_seen k = ka_seen k /\
  no_chg [] /\ (forall t id, In (KoPing t id) [] -> t = cl_now (ka_cl k) /\ ka_seen k = Active) /\
  ka_excl k = false /\ (ka_done k = true -> ka_done k = true) /\ (ka_done k = true \/ Settled k -> @nil ka_out = []).
Proof.
  intros Hx Hk Hst. split; [split; assumption|]. split; [reflexivity|]. split; [apply Same_refl|]. split; [reflexivity|].
  split; [apply no_chg_nil|]. split; [intros t id []|]. auto.
Qed.

Lemma settle_spec : forall f k, KInv' k -> ka_excl (fst (ka_settle f cfg k)) = false ->
  KInv cfg (fst (ka_settle f cfg k)) /\
  cl_now (ka_cl (fst (ka_settle f cfg k))) = cl_now (ka_cl k) /\
  Same (ka_cl k) (ka_cl (fst (ka_settle f cfg k))) /\
  ka_seen (fst (ka_settle f cfg k)) = ka_seen k /\
  no_chg (snd (ka_settle f cfg k)) /\
  (forall t id, In (KoPing t id) (snd (ka_settle f cfg k)) -> t = cl_now (ka_cl k) /\ ka_seen k = Active) /\
  ka_excl k = false /\ (ka_done k = true -> ka_done (fst (ka_settle f cfg k)) = true) /\
  (ka_done k = true \/ Settled k -> snd (ka_settle f cfg k) = []).
Proof.
  induction f as [|f IH]; intros k Hk; cbn [ka_settle]; [intros Hx; discriminate Hx|].
  destruct (ka_done k || is_some (ka_busy k)) eqn:Eor.
  { cbn [fst snd]. intros Hx. apply settle_stop; [exact Hx|exact Hk|]. intros Hd Hb. rewrite Hd, Hb in Eor. discriminate Eor. }
  apply orb_false_elim in Eor. destruct Eor as [Hd Hb0].
  assert (Hb : ka_busy k = None) by (destruct (ka_busy k); [discriminate Hb0|reflexivity]). clear Hb0.
  destruct Hk as [Hs Hl]. destruct (Hl Hd) as (L1 & L2 & L3). unfold TickerOK in L3.
  destruct (ka_chan k) as [st|] eqn:Hc; destruct (ka_tick k) eqn:Ht; cbn [fst snd].
  - intros Hx. discriminate Hx.
  - (* take the state change *)
    assert (Hk1 : KInv' (ka_take_change cfg k st)).
    { unfold ka_take_change. split; [exact Hs|]. intros _. cbn. split; [exact L1|]. split.
      - intros t E. cbn in E |- *. destruct (cstate_eqb st Active); [|discriminate E]. injection E as <-. lia.
      - unfold TickerOK. cbn. intros [H|H]; [|discriminate H]. rewrite <- L3.
        destruct (cstate_eqb st Active) eqn:Ea; [apply cstate_eqb_true, Ea|destruct H; reflexivity]. }
    intros Hx. destruct (IH _ Hk1 Hx) as (I1 & I2 & I3 & I4 & I5 & I6 & I7 & I8 & I9).
    split; [exact I1|]. split; [exact I2|]. split; [exact I3|]. split; [exact I4|]. split; [exact I5|]. split; [exact I6|].
    split; [exact I7|]. split; [congruence|]. intros [H|H]; [congruence|]. destruct (H Hb) as [H1 _]. congruence.
  - (* the pending tick: a ping *)
    assert (Hk0 : KInv' (k <| ka_tick := false |>)).
    { apply (KInv'_ext k); try reflexivity; [discriminate|]. split; [exact Hs|exact Hl]. }
    pose proof (start_ping_spec _ Hk0) as P.
    match goal with |- context [ka_start_ping cfg ?K] => destruct (ka_start_ping cfg K) as [k1 o1] end.
    cbn [fst snd] in P.
    pose proof (IH k1) as IH1. pose proof (settle_excl f k1) as Hst. destruct (ka_settle f cfg k1) as [k2 o2]. cbn [fst snd] in *.
    intros Hx.
    assert (Hx1 : ka_excl k1 = false) by (destruct (ka_excl k1); [rewrite Hst in Hx by reflexivity; discriminate Hx|reflexivity]).
    destruct (P Hx1) as (P1 & P2 & P3 & P4 & (xs & P5) & P6 & P7). cbn in P2, P3, P4, P5, P6, P7.
    destruct (IH1 P1 Hx) as (I1 & I2 & I3 & I4 & I5 & I6 & I7 & I8 & I9).
    assert (Ea : ka_seen k = Active) by (apply L3; right; reflexivity).
    split; [exact I1|]. split; [congruence|]. split; [eapply Same_trans; eassumption|]. split; [congruence|].
    split; [subst o1; apply no_chg_app; [|exact I5]; intros t st' [E|Hi]; [discriminate E|destruct (no_chg_cl xs t st' Hi)]|].
    split.
    { intros t id Hi. apply in_app_or in Hi. destruct Hi as [Hi|Hi].
      - subst o1. destruct Hi as [E|Hi]; [|destruct (no_ping_cl xs t id Hi)]. injection E as <- _. split; [reflexivity|exact Ea].
      - destruct (I6 t id Hi) as [-> _]. split; [exact P2|exact Ea]. }
    split; [exact P6|]. split; [congruence|]. intros [H|H]; [congruence|]. destruct (H Hb) as [_ H1]. congruence.
  - intros Hx. apply settle_stop; [exact Hx|split; [exact Hs|exact Hl]|]. intros _ _. split; assumption.
Qed.

(* ------------------------------------------------------------------ one event of the client *)
Lemma internal_ret_in b os r : internal_ret (Some b) os = Some r -> exists t, In (CoRet t b r) os.
Proof.
  unfold internal_ret. induction os as [|o os IH]; intros H; [discriminate H|]. rewrite bind_cons in H.
  destruct o as [t dg|t id r0|t sub tp pl q rt dp mid|t]; cbn [app] in H;
    try (destruct (IH H) as [t' Hi]; exists t'; right; exact Hi).
  destruct (id =? b) eqn:E; cbn [app] in H.
  - injection H as ->. apply N.eqb_eq in E. subst id. exists t. left. reflexivity.
  - destruct (IH H) as [t' Hi]. exists t'. right. exact Hi.
Qed.

Lemma do_spec k ev hc :
  KInv' k ->
  (forall t, ka_done k = false -> ka_next k = Some t -> cl_now (fst (cl_step cfg (ka_cl k) ev)) <= t) ->
  hc <= cl_now (fst (cl_step cfg (ka_cl k) ev)) ->
  ka_excl (fst (ka_do cfg k ev)) = false ->
  KInv cfg (fst (ka_do cfg k ev)) /\
  cl_now (ka_cl (fst (ka_do cfg k ev))) = cl_now (fst (cl_step cfg (ka_cl k) ev)) /\
  Same (fst (cl_step cfg (ka_cl k) ev)) (ka_cl (fst (ka_do cfg k ev))) /\
  good (ka_seen k) hc (snd (ka_do cfg k ev)) /\
  last_st (ka_seen k) (snd (ka_do cfg k ev)) = ka_seen (fst (ka_do cfg k ev)) /\
  chg_at (snd (ka_do cfg k ev)) (cl_now (fst (cl_step cfg (ka_cl k) ev))) /\
  (ka_seen (fst (ka_do cfg k ev)) = ka_seen k -> no_chg (snd (ka_do cfg k ev))) /\
  ka_excl k = false /\
  ((ka_done k = false -> Settled k) ->
   (internal_ret (ka_busy k) (snd (cl_step cfg (ka_cl k) ev)) = Some ROk -> canc (fst (cl_step cfg (ka_cl k) ev))) ->
   no_ping (snd (ka_do cfg k ev))).
Proof.
  intros Hk. unfold ka_do. destruct (cl_step cfg (ka_cl k) ev) as [s' os]. cbn [fst snd]. intros Hnow Hhc.
  pose proof (absorb_spec k s' os Hk Hnow) as A. destruct (ka_absorb cfg k (s', os)) as [k1 o1]. cbn [fst snd] in A.
  pose proof (settle_spec 4 k1) as S. pose proof (settle_excl 4 k1) as Hst.
  destruct (ka_settle 4 cfg k1) as [k2 o2]. cbn [fst snd] in *. intros Hx.
  assert (Hx1 : ka_excl k1 = false) by (destruct (ka_excl k1); [rewrite Hst in Hx by reflexivity; discriminate Hx|reflexivity]).
  destruct (A Hx1) as (A1 & A2 & A3 & (chg & A4 & A5) & A6 & A7 & A8).
  destruct (S A1 Hx) as (S1 & S2 & S3 & S4 & S5 & S6 & S7 & S8 & S9).
  assert (Hc : chg = [] /\ ka_seen k1 = ka_seen k \/ chg = [KoState (cl_now s') (ka_seen k1)]).
  { destruct A5 as [H|[H _]]; [left; exact H|right; exact H]. }
  assert (Hp : forall t id, In (KoPing t id) o2 -> t = cl_now s' /\ ka_seen k1 = Active).
  { intros t id Hi. destruct (S6 t id Hi) as [-> E]. split; assumption. }
  destruct (good_do (user_outs os) chg o2 (ka_seen k) (ka_seen k1) hc (cl_now s') Hc S5 Hp Hhc) as (G1 & G2 & G3).
  subst o1.
  split; [exact S1|]. split; [congruence|]. split; [eapply Same_trans; eassumption|]. split; [exact G1|].
  split; [congruence|]. split; [exact G3|]. split.
  { intros Es. apply no_chg_app; [|exact S5]. apply no_chg_app; [apply no_chg_cl|].
    destruct A5 as [[-> _]|[_ Hne]]; [apply no_chg_nil|]. destruct Hne. congruence. }
  split; [exact A7|]. intros Hset Hr.
  assert (E2 : o2 = []).
  { apply S9. destruct (ka_done k1) eqn:Hd1; [left; reflexivity|right]. apply A8; [reflexivity| |exact Hr].
    apply Hset. exact (bool_contra _ _ A6 eq_refl). }
  subst o2. rewrite app_nil_r. apply no_ping_app; [apply no_ping_cl|].
  destruct Hc as [[-> _]| ->]; [apply no_ping_nil|]. intros t id [E|[]]. discriminate E.
Qed.

(* an advance of the client: no ping starts (a timer does not complete the loop's ping successfully) *)
Lemma do_adv_spec k d hc :
  KInv cfg k -> (forall t, ka_done k = false -> ka_next k = Some t -> cl_now (ka_cl k) + d <= t) ->
  hc <= cl_now (ka_cl k) + d ->
  ka_excl (fst (ka_do cfg k (CAdv d))) = false ->
  KInv cfg (fst (ka_do cfg k (CAdv d))) /\
  cl_now (ka_cl (fst (ka_do cfg k (CAdv d)))) = cl_now (ka_cl k) + d /\
  good (ka_seen k) hc (snd (ka_do cfg k (CAdv d))) /\
  last_st (ka_seen k) (snd (ka_do cfg k (CAdv d))) = ka_seen (fst (ka_do cfg k (CAdv d))) /\
  chg_at (snd (ka_do cfg k (CAdv d))) (cl_now (ka_cl k) + d) /\
  no_ping (snd (ka_do cfg k (CAdv d))) /\
  ka_excl k = false /\
  (d = 0 -> TK (ka_cl k) (cl_now (ka_cl k)) ->
   TK (ka_cl (fst (ka_do cfg k (CAdv d)))) (cl_now (ka_cl k)) /\ no_chg (snd (ka_do cfg k (CAdv d)))).
Proof.
  intros [Hk Hset] Hnow Hhc Hx.
  pose proof (step_end_now cfg (ka_cl k) d) as En.
  assert (Hnow' : forall t, ka_done k = false -> ka_next k = Some t -> cl_now (fst (cl_step cfg (ka_cl k) (CAdv d))) <= t)
    by (intros t Hd Ht; rewrite En; apply Hnow; assumption).
  assert (Hhc' : hc <= cl_now (fst (cl_step cfg (ka_cl k) (CAdv d)))) by (rewrite En; exact Hhc).
  destruct (do_spec k (CAdv d) hc Hk Hnow' Hhc' Hx) as (D1 & D2 & D3 & D4 & D5 & D6 & D7 & D8 & D9).
  rewrite En in D2, D6.
  split; [exact D1|]. split; [exact D2|]. split; [exact D4|]. split; [exact D5|]. split; [exact D6|]. split.
  { apply D9; [exact Hset|]. intros Hr. apply adv_rok.
    destruct (ka_busy k) as [b|]; [|discriminate Hr]. destruct (internal_ret_in _ _ _ Hr) as [t Hi]. exists t, b. exact Hi. }
  split; [exact D8|]. intros -> Htk.
  pose proof (adv0_same cfg (ka_cl k) Htk) as Hs0.
  assert (Hs2 : Same (ka_cl k) (ka_cl (fst (ka_do cfg k (CAdv 0))))) by (eapply Same_trans; eassumption).
  split; [eapply TK_Same; eassumption|]. apply D7.
  destruct D1 as [[-> _] _]. destruct Hs2 as [-> _]. destruct Hk as [-> _]. reflexivity.
Qed.

(* ------------------------------------------------------------------ ka_advance *)
Definition AdvOk (k : ka_state) (r : ka_state * list ka_out) : Prop :=
  ka_excl (fst r) = false ->
  KInv cfg (fst r) /\ good (ka_seen k) (cl_now (ka_cl k)) (snd r) /\
  (TK (ka_cl k) (cl_now (ka_cl k)) -> chg_gt (snd r) (cl_now (ka_cl k))) /\ ka_excl k = false.

Lemma adv_final k d : KInv cfg k -> (forall t, ka_done k = false -> ka_next k = Some t -> cl_now (ka_cl k) + d <= t) ->
  AdvOk k (ka_do cfg k (CAdv d)).
Proof.
  intros Hk Hnow Hx.
  destruct (do_adv_spec k d (cl_now (ka_cl k)) Hk Hnow ltac:(lia) Hx) as (D1 & D2 & D3 & D4 & D5 & D6 & D7 & D8).
  split; [exact D1|]. split; [exact D3|]. split; [|exact D7]. intros Htk.
  destruct (N.eq_dec d 0) as [E|E].
  - destruct (D8 E Htk) as [_ H]. apply no_chg_gt, H.
  - intros t st Hi. rewrite (D5 t st Hi). lia.
Qed.

Lemma adv_rec f target k d : KInv cfg k -> (forall t, ka_done k = false -> ka_next k = Some t -> cl_now (ka_cl k) + d <= t) ->
  (forall k1, KInv cfg k1 -> AdvOk k1 (ka_advance f cfg k1 target)) ->
  AdvOk k (let '(k1, o1) := ka_do cfg k (CAdv d) in let '(k2, o2) := ka_advance f cfg k1 target in (k2, o1 ++ o2)).
Proof.
  intros Hk Hnow IH.
  pose proof (do_adv_spec k d (cl_now (ka_cl k)) Hk Hnow ltac:(lia)) as D.
  destruct (ka_do cfg k (CAdv d)) as [k1 o1]. cbn [fst snd] in D.
  pose proof (IH k1) as I. pose proof (advance_excl target f k1) as Hst.
  destruct (ka_advance f cfg k1 target) as [k2 o2]. unfold AdvOk in *. cbn [fst snd] in *. intros Hx.
  assert (Hx1 : ka_excl k1 = false) by (destruct (ka_excl k1); [rewrite Hst in Hx by reflexivity; discriminate Hx|reflexivity]).
  destruct (D Hx1) as (D1 & D2 & D3 & D4 & D5 & D6 & D7 & D8).
  destruct (I D1 Hx) as (I1 & I2 & I3 & _). rewrite D2 in I2, I3.
  split; [exact I1|]. split; [|split; [|exact D7]].
  - apply (good_app o1 (ka_seen k) (cl_now (ka_cl k)) o2 (cl_now (ka_cl k) + d)); [exact D3|rewrite D4; exact I2|exact D5|lia|].
    intros t id Hi. destruct (D6 t id Hi).
  - intros Htk. apply chg_gt_app.
    + destruct (N.eq_dec d 0) as [E|E].
      * destruct (D8 E Htk) as [_ H]. apply no_chg_gt, H.
      * intros t st Hi. rewrite (D5 t st Hi). lia.
    + destruct (N.eq_dec d 0) as [E|E].
      * destruct (D8 E Htk) as [H _]. subst d. rewrite N.add_0_r in I3. apply I3. exact H.
      * intros t st Hi. pose proof (good_chg_ge _ _ _ I2 t st Hi). lia.
Qed.

Lemma adv_rec_b f target k d (b : bool) : KInv cfg k -> (forall t, ka_done k = false -> ka_next k = Some t -> cl_now (ka_cl k) + d <= t) ->
  (forall k1, KInv cfg k1 -> AdvOk k1 (ka_advance f cfg k1 target)) ->
  AdvOk k (let '(k1, o1) := ka_do cfg k (CAdv d) in
           let k1 := if b then k1 <| ka_excl := true |> else k1 in
           let '(k2, o2) := ka_advance f cfg k1 target in (k2, o1 ++ o2)).
Proof.
  intros Hk Hnow IH. destruct b; [|exact (adv_rec f target k d Hk Hnow IH)].
  destruct (ka_do cfg k (CAdv d)) as [k1 o1]. cbv zeta.
  pose proof (advance_excl target f (k1 <| ka_excl := true |>) eq_refl) as H.
  destruct (ka_advance f cfg (k1 <| ka_excl := true |>) target) as [k2 o2]. intros Hx. cbn [fst] in *. congruence.
Qed.

Lemma absorb_quiet k s' : cl_cancelled s' = None -> cl_st s' = ka_seen k ->
  ka_absorb cfg k (s', []) = (k <| ka_cl := s' |>, []).
Proof.
  intros Ec Es. rewrite absorb_eq. cbv zeta. unfold ab1. cbv zeta.
  replace (internal_ret (ka_busy (k <| ka_cl := s' |>)) []) with (@None cres)
    by (destruct (ka_busy (k <| ka_cl := s' |>)); reflexivity).
  unfold ab2. cbn. rewrite Ec. cbn. rewrite Es, cstate_eqb_refl. reflexivity.
Qed.

Lemma tick_absorb k t : KInv' k -> ka_done k = false -> ka_next k = Some t -> before_deadline (ka_cl k) t ->
  ka_absorb cfg k (cl_step cfg (ka_cl k) (CAdv (t - cl_now (ka_cl k)))) = (k <| ka_cl := ka_cl k <| cl_now := t |> |>, []).
Proof.
  intros [Hs Hl] Hd Ht Hb. destruct (Hl Hd) as (L1 & L2 & _). specialize (L2 t Ht).
  assert (E : cl_now (ka_cl k) + (t - cl_now (ka_cl k)) = t) by lia.
  rewrite quiet_adv by (rewrite E; exact Hb). rewrite E. apply absorb_quiet; [exact L1|symmetry; exact Hs].
Qed.

Lemma tick_settle kt : KInv' kt ->
  ka_excl (fst (if is_some (ka_busy kt) then (kt, []) else ka_settle 4 cfg kt)) = false ->
  KInv cfg (fst (if is_some (ka_busy kt) then (kt, []) else ka_settle 4 cfg kt)) /\
  cl_now (ka_cl (fst (if is_some (ka_busy kt) then (kt, []) else ka_settle 4 cfg kt))) = cl_now (ka_cl kt) /\
  Same (ka_cl kt) (ka_cl (fst (if is_some (ka_busy kt) then (kt, []) else ka_settle 4 cfg kt))) /\
  ka_seen (fst (if is_some (ka_busy kt) then (kt, []) else ka_settle 4 cfg kt)) = ka_seen kt /\
  no_chg (snd (if is_some (ka_busy kt) then (kt, []) else ka_settle 4 cfg kt)) /\
  (forall t id, In (KoPing t id) (snd (if is_some (ka_busy kt) then (kt, []) else ka_settle 4 cfg kt)) ->
     t = cl_now (ka_cl kt) /\ ka_seen kt = Active) /\
  ka_excl kt = false.
Proof.
  intros Hk. destruct (ka_busy kt) as [b|] eqn:Hb; cbn [is_some].
  - cbn [fst snd]. intros Hx. split; [split; [exact Hk|intros _ E; congruence]|]. split; [reflexivity|].
    split; [apply Same_refl|]. split; [reflexivity|]. split; [apply no_chg_nil|]. split; [intros t id []|exact Hx].
  - intros Hx. destruct (settle_spec 4 kt Hk Hx) as (S1 & S2 & S3 & S4 & S5 & S6 & S7 & _). auto 10.
Qed.

Lemma adv_tick f target k t : KInv cfg k -> ka_done k = false -> ka_next k = Some t -> before_deadline (ka_cl k) t ->
  (forall k1, KInv cfg k1 -> AdvOk k1 (ka_advance f cfg k1 target)) ->
  AdvOk k (let '(k1, o1) := ka_absorb cfg k (cl_step cfg (ka_cl k) (CAdv (t - cl_now (ka_cl k)))) in
           let k1 := k1 <| ka_next := Some (t + ka_period cfg) |> in
           let '(k2, o2) := if is_some (ka_busy k1) then (k1 <| ka_tick := true |>, [])
                            else ka_settle 4 cfg (k1 <| ka_tick := true |>) in
           let '(k3, o3) := ka_advance f cfg k2 target in (k3, o1 ++ o2 ++ o3)).
Proof.
  intros [Hk Hset] Hd Ht Hb IH. rewrite (tick_absorb k t Hk Hd Ht Hb). cbv beta iota zeta.
  match goal with |- context [ka_settle 4 cfg ?K] => set (kt := K) end.
  change (ka_busy (k <| ka_cl := ka_cl k <| cl_now := t |> |> <| ka_next := Some (t + ka_period cfg) |>)) with (ka_busy kt).
  destruct Hk as [Hs Hl]. destruct (Hl Hd) as (L1 & L2 & L3). specialize (L2 t Ht).
  assert (Hkt : KInv' kt).
  { split; [exact Hs|]. intros _. split; [exact L1|]. split.
    - intros t' E. cbn in E |- *. injection E as <-. lia.
    - unfold TickerOK in *. cbn. destruct (ka_chan k); [exact L3|]. intros _. apply L3. left. congruence. }
  pose proof (tick_settle kt Hkt) as S.
  assert (Hst2 : ka_excl kt = true -> ka_excl (fst (if is_some (ka_busy kt) then (kt, []) else ka_settle 4 cfg kt)) = true).
  { intros H. destruct (is_some _); [exact H|apply settle_excl, H]. }
  destruct (if is_some (ka_busy kt) then (kt, []) else ka_settle 4 cfg kt) as [k2 o2]. cbn [fst snd] in S, Hst2.
  pose proof (IH k2) as I. pose proof (advance_excl target f k2) as Hst.
  destruct (ka_advance f cfg k2 target) as [k3 o3]. unfold AdvOk in *. cbn [fst snd app] in *. intros Hx.
  assert (Hx2 : ka_excl k2 = false) by (destruct (ka_excl k2); [rewrite Hst in Hx by reflexivity; discriminate Hx|reflexivity]).
  destruct (S Hx2) as (S1 & S2 & S3 & S4 & S5 & S6 & S7).
  change (cl_now (ka_cl kt)) with t in S2, S6. change (ka_seen kt) with (ka_seen k) in S4, S6.
  destruct (I S1 Hx) as (I1 & I2 & I3 & _). rewrite S2 in I2, I3. rewrite S4 in I2.
  assert (Htk2 : TK (ka_cl k2) t).
  { eapply TK_Same; [|exact S3]. intros tm Hi Hle. pose proof (before_deadline_TK _ _ Hb tm Hi). lia. }
  split; [exact I1|]. split; [|split; [|exact S7]].
  - apply (good_app o2 (ka_seen k) (cl_now (ka_cl k)) o3 t).
    + apply good_pings; [exact S5|]. intros t' id Hi. destruct (S6 t' id Hi) as [-> E]. split; [exact L2|exact E].
    + rewrite last_st_no_chg by exact S5. exact I2.
    + apply no_chg_at, S5.
    + exact L2.
    + intros t' id Hi. destruct (S6 t' id Hi) as [-> _]. apply I3, Htk2.
  - intros _. apply chg_gt_app; [apply no_chg_gt, S5|]. intros t' st Hi. pose proof (I3 Htk2 t' st Hi). lia.
Qed.

Lemma advance_spec target : forall f k, KInv cfg k -> AdvOk k (ka_advance f cfg k target).
Proof.
  induction f as [|f IH]; intros k Hk; cbn [ka_advance]; [intros Hx; discriminate Hx|]. cbv zeta.
  assert (Hl : ka_done k = false -> forall t, ka_next k = Some t -> cl_now (ka_cl k) <= t).
  { intros Hd. destruct Hk as [[_ Hl] _]. destruct (Hl Hd) as (_ & L2 & _). exact L2. }
  destruct (ka_done k) eqn:Hd.
  - (* the loop has returned: no ticker *)
    destruct (cl_deadline (ka_cl k)) as [c|]; [|apply adv_final; [exact Hk|intros t E; rewrite Hd in E; discriminate E]].
    destruct (target <? c); [apply adv_final|apply adv_rec]; try exact Hk; try exact IH; intros t E; rewrite Hd in E; discriminate E.
  - destruct (ka_next k) as [t|] eqn:Ht.
    + specialize (Hl eq_refl t eq_refl).
      destruct (cl_deadline (ka_cl k)) as [c|] eqn:Hc.
      * destruct (c <=? t) eqn:Ect.
        -- apply N.leb_le in Ect. destruct (target <? c) eqn:Etc.
           ++ apply N.ltb_lt in Etc. apply adv_final; [exact Hk|]. intros t' _ E. rewrite Ht in E. injection E as <-. lia.
           ++ apply adv_rec_b; [exact Hk| |exact IH]. intros t' _ E. rewrite Ht in E. injection E as <-. lia.
        -- apply N.leb_gt in Ect. destruct (target <? t) eqn:Ett.
           ++ apply N.ltb_lt in Ett. apply adv_final; [exact Hk|]. intros t' _ E. rewrite Ht in E. injection E as <-. lia.
           ++ apply adv_tick; [exact Hk|exact Hd|exact Ht| |exact IH]. unfold before_deadline. rewrite Hc. exact Ect.
      * cbn [andb]. destruct (target <? t) eqn:Ett.
        -- apply N.ltb_lt in Ett. apply adv_final; [exact Hk|]. intros t' _ E. rewrite Ht in E. injection E as <-. lia.
        -- apply adv_tick; [exact Hk|exact Hd|exact Ht| |exact IH]. unfold before_deadline. rewrite Hc. exact I.
    + destruct (cl_deadline (ka_cl k)) as [c|]; [|apply adv_final; [exact Hk|intros t _ E; rewrite Ht in E; discriminate E]].
      destruct (target <? c); [apply adv_final|apply adv_rec]; try exact Hk; try exact IH; intros t _ E; rewrite Ht in E; discriminate E.
Qed.

(* ------------------------------------------------------------------ one step of the wrapper *)
Lemma step_spec k ev : KInv cfg k -> ka_excl (fst (ka_step cfg k ev)) = false ->
  KInv cfg (fst (ka_step cfg k ev)) /\ exists hc, good (ka_seen k) hc (snd (ka_step cfg k ev)).
Proof.
  intros Hk. unfold ka_step. rewrite ka_nz.
  assert (Huser : (forall d, ev <> CAdv d) ->
    ka_excl (fst (ka_do cfg (k <| ka_victims := ka_victims k ++ stolen_pingresp k ev |>) ev)) = false ->
    KInv cfg (fst (ka_do cfg (k <| ka_victims := ka_victims k ++ stolen_pingresp k ev |>) ev)) /\
    exists hc, good (ka_seen k) hc (snd (ka_do cfg (k <| ka_victims := ka_victims k ++ stolen_pingresp k ev |>) ev))).
  { intros Hev Hx. set (kv := k <| ka_victims := ka_victims k ++ stolen_pingresp k ev |>) in *.
    destruct Hk as [Hk' _].
    assert (Hkv : KInv' kv) by (apply (KInv'_ext k); try reflexivity; auto).
    assert (Hnow : forall t, ka_done kv = false -> ka_next kv = Some t -> cl_now (fst (cl_step cfg (ka_cl kv) ev)) <= t).
    { intros t Hd Ht. pose proof (user_step_now cfg (ka_cl kv) ev Hev) as H1.
      destruct Hkv as [_ Hl]. destruct (Hl Hd) as (_ & L2 & _). specialize (L2 t Ht). lia. }
    destruct (do_spec kv ev 0 Hkv Hnow ltac:(lia) Hx) as (D1 & _ & _ & D4 & _).
    split; [exact D1|]. exists 0. exact D4. }
  destruct ev as [id a|dg|d].
  - apply Huser. intros d E. discriminate E.
  - apply Huser. intros d E. discriminate E.
  - intros Hx. destruct (advance_spec (cl_now (ka_cl k) + d) (ka_fuel cfg k d) k Hk Hx) as (A1 & A2 & _).
    split; [exact A1|]. exists (cl_now (ka_cl k)). exact A2.
Qed.

End Ka.

Theorem KInv_step : forall cfg k ev, 0 < k_keepalive cfg -> KInv cfg k ->
  ka_excl (fst (ka_step cfg k ev)) = false -> KInv cfg (fst (ka_step cfg k ev)).
Proof. intros cfg k ev Hka Hk Hx. exact (proj1 (step_spec cfg Hka k ev Hk Hx)). Qed.

Theorem ka_ping_only_when_active : forall cfg k ev, 0 < k_keepalive cfg -> KInv cfg k ->
  ka_excl (fst (ka_step cfg k ev)) = false ->
  forall t id, In (KoPing t id) (snd (ka_step cfg k ev)) ->
    state_at (ka_seen k) (ko_changes (snd (ka_step cfg k ev))) t = Active.
Proof.
  intros cfg k ev Hka Hk Hx t id Hi. destruct (step_spec cfg Hka k ev Hk Hx) as [_ [hc G]].
  eapply good_state_at; eassumption.
Qed.

(* every step of every history inside the sequential model *)
Fixpoint ka_run_all (cfg : cl_cfg) (P : ka_state -> cl_event -> Prop) (k : ka_state) (evs : list cl_event) : Prop :=
  match evs with
  | [] => True
  | ev :: evs' => P k ev /\ ka_run_all cfg P (fst (ka_step cfg k ev)) evs'
  end.
Definition pings_while_active (cfg : cl_cfg) (k : ka_state) (ev : cl_event) : Prop :=
  forall t id, In (KoPing t id) (snd (ka_step cfg k ev)) ->
    state_at (ka_seen k) (ko_changes (snd (ka_step cfg k ev))) t = Active.

Lemma modelled_excl cfg k evs : ka_modelled cfg k evs = true -> ka_excl k = false.
Proof.
  destruct evs as [|ev evs']; cbn [ka_modelled]; intros H; [|apply andb_true_iff in H; destruct H as [H _]];
    destruct (ka_excl k); (reflexivity || discriminate H).
Qed.

Lemma ka_history_inv cfg (Hka : 0 < k_keepalive cfg) : forall evs k, KInv cfg k -> ka_modelled cfg k evs = true ->
  ka_run_all cfg (fun k ev => KInv cfg k /\ pings_while_active cfg k ev) k evs.
Proof.
  induction evs as [|ev evs' IH]; intros k Hk Hm; [exact I|]. cbn [ka_modelled] in Hm. apply andb_true_iff in Hm.
  destruct Hm as [_ Hm]. pose proof (modelled_excl _ _ _ Hm) as Hx. cbn [ka_run_all]. split.
  - split; [exact Hk|]. intros t id Hi. eapply ka_ping_only_when_active; eassumption.
  - apply IH; [apply KInv_step; assumption|exact Hm].
Qed.

Theorem ka_ping_only_when_active_history : forall cfg evs, 0 < k_keepalive cfg ->
  ka_modelled cfg ka_init evs = true -> ka_run_all cfg (pings_while_active cfg) ka_init evs.
Proof.
  intros cfg evs Hka Hm. pose proof (ka_history_inv cfg Hka evs ka_init (KInv_init cfg) Hm) as H.
  clear Hm. revert H. generalize ka_init. induction evs as [|ev evs' IH]; intros k H; [exact I|]. cbn [ka_run_all] in *.
  destruct H as [[_ H1] H2]. split; [exact H1|apply IH, H2].
Qed.

(* ================================================================== Part 3: a remark on clause (33,1) *)
(* kmon_gap_sound ("inside the model the monitor never reports (33,1)") is not proved.  With the first version
   of kmon_step it was FALSE: km_since was reset for a dead client only at the END of a step, so a single long
   advance in which the loop's ping fails (5230: the group is cancelled, exit at 6130) and, much later, a timer of
   a sleep transaction left over from an earlier Sleep still fires (21120: PINGREQ with client ID, state Awake) was
   reported as a gap of an active client, while the same history with the advance split in two was accepted.
   kmon_step now drops the marks after the exit time of a cancelled client; both forms are accepted.
   (RetryDelay 700 ms so that no tick coincides with a retry timer.) *)
Definition cfg33b : cl_cfg :=
  {| k_cid := [99;108;49]; k_user := []; k_pass := []; k_keepalive := 2; k_ctimeout := 5000; k_rdelay := 700;
     k_rcount := 2; k_clean := true; k_will := []; k_wmsg := []; k_wqos := 0; k_wretain := false; k_predef := [] |}.
Lemma wf_cfg33b : wf_cl_cfg cfg33b.
Proof. unfold wf_cl_cfg. repeat split; try (vm_compute; reflexivity); try (vm_compute; discriminate); repeat constructor; vm_compute; reflexivity. Qed.
Definition h_dead_prefix : list cl_event :=
  [CCall 1 AConnect; CAdv 10; G33 (Connack 0); CAdv 100; CCall 2 (ASleep 1000); CAdv 5; G33 (Disconnect 0); CAdv 1000;
   G33 Pingresp; CAdv 5; CCall 3 (ASleep 20000); CAdv 5; CCall 4 AConnect; CAdv 5; G33 (Connack 0)].
Example C33_gap_after_death_not_judged :
  wf_cl_cfg cfg33b /\
  ka_modelled cfg33b ka_init (h_dead_prefix ++ [CAdv 30000]) = true /\
  kmon_run cfg33b ka_init kmon_init (h_dead_prefix ++ [CAdv 30000]) = [] /\
  ka_modelled cfg33b ka_init (h_dead_prefix ++ [CAdv 6000; CAdv 24000]) = true /\
  kmon_run cfg33b ka_init kmon_init (h_dead_prefix ++ [CAdv 6000; CAdv 24000]) = [] /\
  List.last (fst (ka_run cfg33b ka_init (h_dead_prefix ++ [CAdv 30000]))) [] =
    [KoPing 3130 1000000; KoCl (CoSn 3130 [2; 22]); KoCl (CoSn 3830 [2; 22]); KoCl (CoSn 4530 [2; 22]);
          KoCl (CoExit 6130); KoCl (CoRet 6130 3 RCancelled); KoCl (CoSn 21120 [5; 22; 99; 108; 49]); KoState 21120 Awake].
Proof. split; [exact wf_cfg33b|]. repeat split; vm_compute; reflexivity. Qed.

(* the theorem applies to the ordinary history (three pings of the loop) *)
Example C33_ordinary_pings_while_active : ka_run_all cfg33 (pings_while_active cfg33) ka_init h_ordinary.
Proof. apply ka_ping_only_when_active_history; [reflexivity|vm_compute; reflexivity]. Qed.

Print Assumptions C33_refuted_retransmission.
Print Assumptions C33_refuted_ping_call_fails.
Print Assumptions C33_ordinary.
Print Assumptions C33_gap_after_death_not_judged.
Print Assumptions KInv_init.
Print Assumptions KInv_step.
Print Assumptions ka_ping_only_when_active.
Print Assumptions ka_ping_only_when_active_history.
